(* Model of pkg/conversion: XML-level definitions -> the Go declarations the generator emits, as the
   Go struct description reflection gives back once they are compiled (Layout.gostruct). *)
From GM Require Export Layout.
From Coq Require Import ZArith.

Record xfield := mkXField {
  xf_type : list N;      (* the type attribute as written: "uint8_t", "float[4]", "char[16]", ... *)
  xf_name : list N;
  xf_enum : list N;      (* enum attribute, [] when absent *)
  xf_ext : bool          (* after <extensions/> *)
}.
Record xmsg := mkXMsg { xm_name : list N; xm_id : N; xm_fields : list xfield }.

(* ---- names ---- *)
(* regexp "_[a-z]" replaced by the upper-cased letter (leftmost, non-overlapping) *)
Fixpoint camel (s : list N) : list N :=
  match s with
  | [] => []
  | c :: r =>
    match r with
    | d :: t => if (c =? 95) && is_lower d then to_upper d :: camel t else c :: camel r
    | [] => [c]
    end
  end.
(* dialectNameDefToGo: in[:1] panics on the empty string *)
Definition def_to_go (s : list N) : res (list N) :=
  match camel (map to_lower s) with [] => Panic | c :: t => Ok (to_upper c :: t) end.
(* conversion.dialectNameGoToDef (the generator's own copy of the run-time inversion) *)
Definition gen_go_to_def (s : list N) : res (list N) :=
  match under_caps s with [] => Panic | _ :: t => Ok (map to_lower t) end.

(* reMsgName = ^[A-Z0-9_]+$ *)
Definition is_digit (b : N) : bool := (48 <=? b) && (b <=? 57).
Definition msg_name_ok (s : list N) : bool :=
  match s with [] => false | _ => forallb (fun b => is_upper b || is_digit b || (b =? 95)) s end.

(* ---- types ---- *)
Definition s_mavlink_version := [117;105;110;116;56;95;116;95;109;97;118;108;105;110;107;95;118;101;114;115;105;111;110].
Definition s_uint8_t := [117;105;110;116;56;95;116].
Definition s_char := [99;104;97;114].

(* reTypeIsArray = ^(.+?)\[([0-9]+)\]$ : a non-empty prefix, then "[digits]" at the very end *)
Fixpoint take_digits (s : list N) : list N * list N :=
  match s with
  | b :: t => if is_digit b then let '(d, r) := take_digits t in (b :: d, r) else ([], s)
  | [] => ([], [])
  end.
Definition parse_array (s : list N) : option (list N * list N) :=
  match rev s with
  | 93 :: r =>
    let '(drev, rest) := take_digits r in
    match drev, rest with
    | _ :: _, 91 :: ((_ :: _) as pre) => Some (rev pre, rev drev)
    | _, _ => None
    end
  | _ => None
  end.

(* dialectTypeToGo *)
Definition type_to_go (s : list N) : option (list N) :=
  match List.find (fun t => bytes_eqb (ftype_string t) s)
                  [TDouble; TUint64; TInt64; TFloat; TUint32; TInt32; TUint16; TInt16; TUint8; TInt8; TChar] with
  | Some TDouble => Some s_float64 | Some TUint64 => Some s_uint64 | Some TInt64 => Some s_int64
  | Some TFloat => Some s_float32 | Some TUint32 => Some s_uint32 | Some TInt32 => Some s_int32
  | Some TUint16 => Some s_uint16 | Some TInt16 => Some s_int16 | Some TUint8 => Some s_uint8
  | Some TInt8 => Some s_int8 | Some TChar => Some s_string
  | None => None
  end.

(* how the Go compiler reads the array length the generator pastes between brackets: a decimal
   literal, or an octal one when it has a leading zero *)
Fixpoint digits_base (base : N) (s : list N) (acc : N) : option N :=
  match s with
  | [] => Some acc
  | b :: t => if is_digit b && (b - 48 <? base) then digits_base base t (acc * base + (b - 48)) else None
  end.
Definition go_int_literal (d : list N) : option N :=
  match d with
  | [] => None
  | [_] => digits_base 10 d 0
  | 48 :: t => digits_base 8 t 0
  | _ => digits_base 10 d 0
  end.

Definition err_gen : N := 40.

(* the type attribute: Go element type, whether the Go field is an array and of which length (as
   the Go compiler reads the literal the generator pastes between the brackets), mavlen tag *)
Definition field_type (typ0 : list N) : res (list N * bool * N * list N) :=
  let typ1 := if bytes_eqb typ0 s_mavlink_version then s_uint8_t else typ0 in
  let '(typ, arr, taglen) :=
    match parse_array typ1 with
    | Some (base, n) => if bytes_eqb base s_char then (s_char, None, n) else (base, Some n, [])
    | None => (typ1, None, [])
    end in
  match type_to_go typ with
  | None => Err err_gen
  | Some gt =>
    match arr with
    | Some n => Ok (gt, true, match go_int_literal n with Some v => v | None => 0 end, taglen)
    | None => Ok (gt, false, 0, taglen)
    end
  end.

(* processField, composed with what reflection reports of the emitted line *)
Definition process_field (f : xfield) : res gofield :=
  match def_to_go (xf_name f) with
  | Panic => Panic | Err e => Err e
  | Ok newname =>
    match gen_go_to_def newname with
    | Panic => Panic | Err e => Err e
    | Ok back =>
      let tag_name := if bytes_eqb back (xf_name f) then [] else xf_name f in
      match field_type (xf_type f) with
      | Panic => Panic | Err e => Err e
      | Ok (gt, isarr, alen, taglen) =>
        let tag_ext := if xf_ext f then s_true else [] in
        match xf_enum f with
        | [] => Ok (mkGoField newname isarr alen gt (bytes_eqb gt s_uint64) (bytes_eqb gt s_string) [] taglen tag_ext tag_name)
        | en => Ok (mkGoField newname isarr alen en true false gt taglen tag_ext tag_name)
        end
      end
    end
  end.

Fixpoint process_fields (fs : list xfield) : res (list gofield) :=
  match fs with
  | [] => Ok []
  | f :: t => rbind (process_field f) (fun g => rbind (process_fields t) (fun r => Ok (g :: r)))
  end.

(* processMessage *)
Definition process_message (m : xmsg) : res gostruct :=
  if negb (msg_name_ok (xm_name m)) then Err err_gen else
  rbind (def_to_go (xm_name m)) (fun nm =>
  rbind (process_fields (xm_fields m)) (fun fs => Ok (mkGoStruct (s_Message ++ nm) fs))).

(* ---- enum values ---- *)
Definition two64 : N := 18446744073709551616.
(* strconv.ParseUint(s, base, 64) for base 2, 10, 16 given explicitly: digits only, no sign, no
   underscore, non-empty, must fit 64 bits *)
Definition hex_val (b : N) : option N :=
  if is_digit b then Some (b - 48) else
  if (97 <=? b) && (b <=? 102) then Some (b - 87) else
  if (65 <=? b) && (b <=? 70) then Some (b - 55) else None.
Fixpoint parse_uint_go (base : N) (s : list N) (acc : N) : option N :=
  match s with
  | [] => Some acc
  | b :: t => match hex_val b with
              | Some d => if d <? base then
                            let acc' := acc * base + d in
                            if acc' <? two64 then parse_uint_go base t acc' else None
                          else None
              | None => None
              end
  end.
Definition parse_uint (base : N) (s : list N) : option N :=
  match s with [] => None | _ => parse_uint_go base s 0 end.

(* uintPow: square and multiply on uint64 (wraps) *)
Fixpoint uint_pow_go (fuel : nat) (base e result : N) : N :=
  match fuel with
  | O => result
  | S k =>
    let result' := if N.odd e then (result * base) mod two64 else result in
    let e' := e / 2 in
    if e' =? 0 then result' else uint_pow_go k ((base * base) mod two64) e' result'
  end.
Definition uint_pow (base e : N) : N := uint_pow_go 64 base e 1.

(* strings.Contains(v, "**") / SplitN(v, "**", 2) *)
Fixpoint split_pow (s : list N) : option (list N * list N) :=
  match s with
  | 42 :: ((42 :: t) as r) => Some ([], t)
  | c :: t => match split_pow t with Some (a, b) => Some (c :: a, b) | None => None end
  | [] => None
  end.

Definition parse_enum_value (v : list N) : option N :=
  match v with
  | 48 :: 98 :: t => parse_uint 2 t
  | 48 :: 120 :: t => parse_uint 16 t
  | _ => match split_pow v with
         | Some (a, b) => match parse_uint 10 a, parse_uint 10 b with
                          | Some x, Some y => Some (uint_pow x y)
                          | _, _ => None
                          end
         | None => parse_uint 10 v
         end
  end.

(* ---- include traversal ---- *)
Record xfile := mkXFile {
  xfl_addr : list N; xfl_includes : list (list N); xfl_version : list N; xfl_msgs : list (list N) (* message names *)
}.
Definition find_file (fs : list xfile) (a : list N) : option xfile := List.find (fun f => bytes_eqb (xfl_addr f) a) fs.
Definition visited (vs : list (list N)) (a : list N) : bool := existsb (bytes_eqb a) vs.

(* processDefinition: depth first, already processed addresses skipped, the version assigned after
   the includes (so that the including file overrides them).  Result: None when a file is
   missing (the generator returns the error), else visited set, version, definitions in output order *)
Fixpoint process_def (fuel : nat) (fs : list xfile) (vs : list (list N)) (ver : list N) (a : list N)
  : option (list (list N) * list N * list xfile) :=
  match fuel with
  | O => None
  | S k =>
    if visited vs a then Some (vs, ver, []) else
    match find_file fs a with
    | None => None
    | Some f =>
      let fix incs (l : list (list N)) (vs : list (list N)) (ver : list N) (acc : list xfile) :=
        match l with
        | [] => Some (vs, ver, acc)
        | i :: t => match process_def k fs vs ver i with
                    | None => None
                    | Some (vs', ver', out) => incs t vs' ver' (acc ++ out)
                    end
        end in
      match incs (xfl_includes f) (a :: vs) ver [] with
      | None => None
      | Some (vs', ver', out) =>
        Some (vs', match xfl_version f with [] => ver' | v => v end, out ++ [f])
      end
    end
  end.
(* the dialect: messages of every definition in output order, version as an integer (Atoi, 0 on failure) *)
Definition dialect_of (fuel : nat) (fs : list xfile) (root : list N) : option (Z * list (list N)) :=
  match process_def fuel fs [] [] root with
  | None => None
  | Some (_, ver, out) =>
    Some (match atoi ver with Some z => z | None => 0%Z end, concat (map xfl_msgs out))
  end.
