(* Model of the channel provider loop (channel_provider.go) over a client-type endpoint
   (endpoint_client.go / endpoint_serial.go provide()) and of the deadline wrapper
   (pkg/timednetconn).  Sequential state machines driven by a script of environment outcomes. *)
From Coq Require Import List Arith Bool.
Import ListNotations.

(* what the environment decides, in order of consumption *)
Inductive env :=
| ConnFail                    (* a connection / open attempt fails *)
| ConnOk (cause : nat).       (* it succeeds; the channel later ends with this cause (read error, EOF, ...) *)

(* what can be observed *)
Inductive act :=
| Attempt                     (* connect() called *)
| Backoff                     (* waited reconnectPeriod *)
| ChOpen                        (* channel handed to the node: open event *)
| ChClose (cause : nat).        (* the channel's close event, carrying the cause *)

(* provide(): first call connects at once, later calls wait first; failed attempts wait and
   retry.  The provider loop waits for the channel to end (oneChannelAtATime) before calling
   provide() again.  [first] = e.first has not been set yet. *)
Fixpoint provider (first : bool) (script : list env) : list act :=
  match script with
  | [] => []
  | ConnFail :: t =>
    (if first then [] else [Backoff]) ++ Attempt :: provider_retry t
  | ConnOk cause :: t =>
    (if first then [] else [Backoff]) ++ [Attempt; ChOpen; ChClose cause] ++ provider false t
  end
with provider_retry (script : list env) : list act :=   (* inside the for loop of provide(), after a failed attempt *)
  match script with
  | [] => []
  | ConnFail :: t => Backoff :: Attempt :: provider_retry t
  | ConnOk cause :: t => Backoff :: [Attempt; ChOpen; ChClose cause] ++ provider false t
  end.

(* a server endpoint: every accepted peer gets its own channel, accepting never stops *)
Definition server (peers : list nat) : list (nat * act) := map (fun p => (p, ChOpen)) peers.

(* ---- pkg/timednetconn: every Read / Write arms a fresh deadline first ---- *)
Inductive io := IoRead | IoWrite.
Inductive call := SetReadDeadline | SetWriteDeadline | DoRead | DoWrite.
Definition timed_calls (ops : list io) : list call :=
  flat_map (fun o => match o with IoRead => [SetReadDeadline; DoRead] | IoWrite => [SetWriteDeadline; DoWrite] end) ops.
