(* C14: the idle expiry of a network channel.  Every Read arms a fresh deadline [d] after the
   moment it is called; times are milliseconds. *)
From Coq Require Export NArith List.
Export ListNotations.
Local Open Scope N_scope.

(* [t]: when the pending Read was called (the previous reception, or the start); [arr]: arrival
   times of the data still to come, in order.  Result: when the channel is closed by the
   time-out. *)
Fixpoint idle_close (d t : N) (arr : list N) : N :=
  match arr with
  | [] => t + d
  | a :: r => if a <=? t + d then idle_close d (N.max t a) r else t + d
  end.
