(* Model of message.ReadWriter.Read / Write (pkg/message/readwriter.go) on an initialised
   field table.  Values are canonical trees: integers and floats are their unsigned
   two's-complement / IEEE bit patterns at the field's width. *)
From GM Require Export Result.

Inductive ftype := TDouble | TUint64 | TInt64 | TFloat | TUint32 | TInt32
                 | TUint16 | TInt16 | TUint8 | TInt8 | TChar.

Definition ftype_size (t : ftype) : nat :=
  match t with
  | TDouble | TUint64 | TInt64 => 8
  | TFloat | TUint32 | TInt32 => 4
  | TUint16 | TInt16 => 2
  | TUint8 | TInt8 | TChar => 1
  end.

Definition ftype_eqb (a b : ftype) : bool :=
  match a, b with
  | TDouble, TDouble | TUint64, TUint64 | TInt64, TInt64 | TFloat, TFloat
  | TUint32, TUint32 | TInt32, TInt32 | TUint16, TUint16 | TInt16, TInt16
  | TUint8, TUint8 | TInt8, TInt8 | TChar, TChar => true
  | _, _ => false
  end.

(* decEncoderField, plus the two facts Read/Write take from the Go type by reflection:
   whether the Go field is an array and its (unwrapped) Go length *)
Record field := mkField {
  fd_enum : bool;
  fd_type : ftype;
  fd_name : list N;
  fd_alen : N;          (* arrayLength byte: byte(goType.Len()), or mavlen / 1 for strings *)
  fd_index : nat;
  fd_ext : bool;
  fd_isarr : bool;      (* target.Kind() == reflect.Array *)
  fd_golen : nat;       (* target.Len() *)
  fd_haslen : bool      (* the definition carries an array length (Go array or mavlen tag) *)
}.

Record codec := mkCodec {
  c_fields : list field;      (* in wire order (after sort.Slice) *)
  c_size_normal : N;
  c_size_ext : N;
  c_crc : N;
  c_nfields : nat             (* number of struct fields *)
}.

Inductive fval := VU (n : N) | VS (s : list N) | VA (l : list fval).
Definition value := list fval.          (* one entry per struct field, declaration order *)

(* ---------- Write ---------- *)

Fixpoint zpad (n : nat) (l : list N) : list N :=
  match n with
  | O => []
  | S k => match l with [] => 0 :: zpad k [] | b :: t => b :: zpad k t end
  end.

(* writeValue on one scalar / string element *)
Definition enc_scalar (f : field) (v : fval) : res (list N) :=
  match v with
  | VA _ => Panic
  | VS s => if fd_enum f then Panic else
            match fd_type f with TChar => Ok (zpad (N.to_nat (fd_alen f)) s) | _ => Panic end
  | VU n => match fd_type f with
            | TChar => if fd_enum f then Ok (le_enc 1 n) else Panic
            | t => Ok (le_enc (ftype_size t) n)
            end
  end.

Fixpoint enc_elems (f : field) (l : list fval) : res (list N) :=
  match l with
  | [] => Ok []
  | v :: t => rbind (enc_scalar f v) (fun a => rbind (enc_elems f t) (fun b => Ok (a ++ b)))
  end.

Definition enc_field (f : field) (v : fval) : res (list N) :=
  if fd_isarr f then
    match v with
    | VA l => if Nat.eqb (length l) (fd_golen f) then enc_elems f l else Panic
    | _ => Panic
    end
  else enc_scalar f v.

Fixpoint enc_fields (fs : list field) (v2 : bool) (val : value) : res (list N) :=
  match fs with
  | [] => Ok []
  | f :: t =>
    if negb v2 && fd_ext f then enc_fields t v2 val else
    match nth_error val (fd_index f) with
    | None => Panic
    | Some fv => rbind (enc_field f fv) (fun a => rbind (enc_fields t v2 val) (fun b => Ok (a ++ b)))
    end
  end.

Definition codec_size (c : codec) (v2 : bool) : N := if v2 then c_size_ext c else c_size_normal c.

(* ReadWriter.Write: buffer of size(isV2) bytes, fields written in order (a write past the
   end of the buffer is a slice-bounds panic), trailing zeros stripped in v2 *)
Definition msg_write (c : codec) (v2 : bool) (val : value) : res (list N) :=
  rbind (enc_fields (c_fields c) v2 val) (fun e =>
    let size := N.to_nat (codec_size c v2) in
    if Nat.leb (length e) size then
      let b := zpad size e in
      Ok (if v2 then strip_zeros b else b)
    else Panic).

(* ---------- Read ---------- *)

Fixpoint cstr (l : list N) : list N :=
  match l with [] => [] | 0 :: _ => [] | b :: t => b :: cstr t end.

(* readValue on one element: returns the decoded value and the rest of the payload *)
Definition dec_scalar (f : field) (p : list N) : res (fval * list N) :=
  let n := if fd_enum f then ftype_size (fd_type f)
           else match fd_type f with TChar => N.to_nat (fd_alen f) | t => ftype_size t end in
  match take n p, drop n p with
  | Some h, Some r =>
    if negb (fd_enum f) && ftype_eqb (fd_type f) TChar then Ok (VS (cstr h), r)
    else Ok (VU (le_dec h), r)
  | _, _ => Panic
  end.

Fixpoint dec_elems (f : field) (n : nat) (p : list N) : res (list fval * list N) :=
  match n with
  | O => Ok ([], p)
  | S k => rbind (dec_scalar f p) (fun '(v, r) =>
           rbind (dec_elems f k r) (fun '(l, r') => Ok (v :: l, r')))
  end.

Definition dec_field (f : field) (p : list N) : res (fval * list N) :=
  if fd_isarr f then rbind (dec_elems f (fd_golen f) p) (fun '(l, r) => Ok (VA l, r))
  else dec_scalar f p.

(* zero value of a struct field (what reflect.New leaves in fields not read) *)
Definition zero_of (f : field) : fval :=
  let z := if negb (fd_enum f) && ftype_eqb (fd_type f) TChar then VS [] else VU 0 in
  if fd_isarr f then VA (repeat z (fd_golen f)) else z.

Fixpoint set_nth {A} (n : nat) (x : A) (l : list A) : list A :=
  match n, l with
  | O, _ :: t => x :: t
  | S k, h :: t => h :: set_nth k x t
  | _, [] => []
  end.

Fixpoint dec_fields (fs : list field) (v2 : bool) (p : list N) (acc : value) : res value :=
  match fs with
  | [] => Ok acc
  | f :: t =>
    if negb v2 && fd_ext f then dec_fields t v2 p acc else
    rbind (dec_field f p) (fun '(v, r) => dec_fields t v2 r (set_nth (fd_index f) v acc))
  end.

(* declaration-order zero struct *)
Definition zero_value (c : codec) : value :=
  let byidx := fun i => find (fun f => Nat.eqb (fd_index f) i) (c_fields c) in
  map (fun i => match byidx i with Some f => zero_of f | None => VU 0 end) (seq 0 (c_nfields c)).

Definition err_wrong_size : N := 20.

(* ReadWriter.Read *)
Definition msg_read (c : codec) (v2 : bool) (p : list N) : res value :=
  if v2 then
    let want := N.to_nat (c_size_ext c) in
    let p' := if Nat.ltb (length p) want then p ++ zeros (want - length p) else p in
    dec_fields (c_fields c) v2 p' (zero_value c)
  else
    if Nat.eqb (length p) (N.to_nat (c_size_normal c))
    then dec_fields (c_fields c) v2 p (zero_value c)
    else Err err_wrong_size.

(* ---------- the caller's buffer (aliasing) ---------- *)
(* A Go slice is a window (off=0,len) on a backing array with cap = length backing.  The v2
   prologue of Read builds the padded payload; [read_backing_after] is what the caller's
   backing array holds after the call.  The code (after the fix of F2) copies into a fresh
   buffer, so the backing array is returned unchanged. *)
Definition read_backing_after (c : codec) (v2 : bool) (backing : list N) (len : nat) : list N :=
  backing.
