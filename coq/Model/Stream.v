(* bufio.Reader over a scripted transport, as far as pkg/frame and pkg/tlog use it.
   Transport: each underlying Read returns either a non-empty chunk of data or an error;
   after the script is exhausted every Read returns io.EOF (code 0). *)
From GM Require Export Result.

Inductive chunk := Data (d : list N) | Fail (e : N).
Record stream := mkStream { s_buf : list N; s_rest : list chunk }.

Definition e_eof : N := 0.
Definition e_unexpected_eof : N := 1.

(* fill until n bytes are buffered or the transport reports an error (the error is consumed
   and returned once: bufio's readErr) *)
Fixpoint fill_until (n : nat) (b : list N) (r : list chunk) : option N * stream :=
  if Nat.leb n (length b) then (None, mkStream b r) else
  match r with
  | [] => (Some e_eof, mkStream b [])
  | Data d :: r' => fill_until n (b ++ d) r'
  | Fail e :: r' => (Some e, mkStream b r')
  end.

(* ReadByte *)
Definition read_byte (s : stream) : res N * stream :=
  match fill_until 1 (s_buf s) (s_rest s) with
  | (Some e, s') => (Err e, s')
  | (None, s') => match s_buf s' with
                  | b :: t => (Ok b, mkStream t (s_rest s'))
                  | [] => (Panic, s')
                  end
  end.

(* peekAndDiscard(n): on a short stream the error is returned and nothing is discarded *)
Definition peek_discard (n : nat) (s : stream) : res (list N) * stream :=
  match fill_until n (s_buf s) (s_rest s) with
  | (Some e, s') => (Err e, s')
  | (None, s') => (Ok (firstn n (s_buf s')), mkStream (skipn n (s_buf s')) (s_rest s'))
  end.

(* io.ReadFull(br, buf[n]) with n > 0: consumes what it gets *)
Fixpoint read_full_aux (n : nat) (acc b : list N) (r : list chunk) : res (list N) * stream :=
  if Nat.leb n (length b) then (Ok (acc ++ firstn n b), mkStream (skipn n b) r) else
  match r with
  | [] => (Err (match acc ++ b with [] => e_eof | _ => e_unexpected_eof end), mkStream [] [])
  | Data d :: r' => read_full_aux (n - length b) (acc ++ b) d r'
  | Fail e :: r' => (Err e, mkStream [] r')
  end.
Definition read_full (n : nat) (s : stream) : res (list N) * stream :=
  read_full_aux n [] (s_buf s) (s_rest s).

(* everything still to be delivered, for measures and flat semantics *)
Fixpoint chunks_len (r : list chunk) : nat :=
  match r with [] => 0 | Data d :: t => length d + chunks_len t | Fail _ :: t => 1 + chunks_len t end.
Definition stream_left (s : stream) : nat := length (s_buf s) + chunks_len (s_rest s).
