(* Transliteration of pkg/x25/x25.go (uint16 arithmetic written out). *)
From GM Require Export Bytes.

Definition x25_init : N := 65535.

(* body of the loop in X25.Write:
     tmp := uint16(b) ^ (x.crc & 0xFF); tmp ^= (tmp << 4); tmp &= 0xFF
     x.crc = (x.crc >> 8) ^ (tmp << 8) ^ (tmp << 3) ^ (tmp >> 4)            *)
Definition x25_tmp (x : N) : N :=
  N.land (N.lxor x (u16 (N.shiftl x 4))) 255.
Definition x25_tab (t : N) : N :=
  N.lxor (N.lxor (u16 (N.shiftl t 8)) (u16 (N.shiftl t 3))) (N.shiftr t 4).
Definition x25_step (crc b : N) : N :=
  let tmp := x25_tmp (N.lxor b (N.land crc 255)) in
  N.lxor (N.shiftr crc 8) (x25_tab tmp).

Definition x25_write (crc : N) (p : list N) : N := fold_left x25_step p crc.
Definition x25_sum (p : list N) : N := x25_write x25_init p.
(* X25.Sum appends byte(crc), byte(crc>>8) *)
Definition x25_sum_bytes (crc : N) : list N := [u8 crc; u8 (N.shiftr crc 8)].
