(* Machine-integer and byte-list helpers shared by every model.  No proofs here. *)
From Coq Require Export List NArith Bool.
Export ListNotations.
Open Scope N_scope.

Definition u8  (x : N) : N := x mod 256.
Definition u16 (x : N) : N := x mod 65536.
Definition u24 (x : N) : N := x mod 16777216.
Definition u32 (x : N) : N := x mod 4294967296.
Definition u48 (x : N) : N := x mod 281474976710656.
Definition u64 (x : N) : N := x mod 18446744073709551616.

Definition byte_ok (b : N) : bool := b <? 256.
Definition bytes_ok (l : list N) : bool := forallb byte_ok l.

(* little-endian encoding of x on k bytes, as Go's byte(x >> 8i) *)
Fixpoint le_enc (k : nat) (x : N) : list N :=
  match k with
  | O => []
  | S k' => u8 x :: le_enc k' (N.shiftr x 8)
  end.

(* little-endian decoding, as Go's uint(b0) | uint(b1)<<8 | ... *)
Fixpoint le_dec (l : list N) : N :=
  match l with
  | [] => 0
  | b :: r => N.lor b (N.shiftl (le_dec r) 8)
  end.

(* big-endian on 8 bytes (tlog timestamps) *)
Definition be_enc8 (x : N) : list N := rev (le_enc 8 x).
Definition be_dec (l : list N) : N := le_dec (rev l).

Definition nlen {A} (l : list A) : N := N.of_nat (length l).

(* checked slicing: None where Go would panic (slice bounds out of range) *)
Definition take {A} (n : nat) (l : list A) : option (list A) :=
  if Nat.leb n (length l) then Some (firstn n l) else None.
Definition drop {A} (n : nat) (l : list A) : option (list A) :=
  if Nat.leb n (length l) then Some (skipn n l) else None.

Fixpoint zeros (n : nat) : list N := match n with O => [] | S k => 0 :: zeros k end.

(* removeEmptyBytes: strip trailing zero bytes but keep at least one byte *)
Fixpoint strip_rev (r : list N) : list N :=
  match r with
  | 0 :: ((_ :: _) as t) => strip_rev t
  | _ => r
  end.
Definition strip_zeros (l : list N) : list N := rev (strip_rev (rev l)).

Fixpoint list_eqb {A} (eqb : A -> A -> bool) (a b : list A) : bool :=
  match a, b with
  | [], [] => true
  | x :: a', y :: b' => eqb x y && list_eqb eqb a' b'
  | _, _ => false
  end.
Definition bytes_eqb := list_eqb N.eqb.
