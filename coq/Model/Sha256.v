(* SHA-256 (FIPS 180-4) over byte lists; 32-bit words as N with explicit wrap. *)
From GM Require Export Bytes.

Definition w32 (x : N) : N := N.land x 4294967295.
Definition rotr (x n : N) : N := N.lor (N.shiftr x n) (w32 (N.shiftl x (32 - n))).
Definition add32 (a b : N) : N := w32 (a + b).
Definition not32 (x : N) : N := N.lxor x 4294967295.

Definition Kc : list N := [
 1116352408;1899447441;3049323471;3921009573;961987163;1508970993;2453635748;2870763221;
 3624381080;310598401;607225278;1426881987;1925078388;2162078206;2614888103;3248222580;
 3835390401;4022224774;264347078;604807628;770255983;1249150122;1555081692;1996064986;
 2554220882;2821834349;2952996808;3210313671;3336571891;3584528711;113926993;338241895;
 666307205;773529912;1294757372;1396182291;1695183700;1986661051;2177026350;2456956037;
 2730485921;2820302411;3259730800;3345764771;3516065817;3600352804;4094571909;275423344;
 430227734;506948616;659060556;883997877;958139571;1322822218;1537002063;1747873779;
 1955562222;2024104815;2227730452;2361852424;2428436474;2756734187;3204031479;3329325298].

Definition H0 : list N :=
 [1779033703;3144134277;1013904242;2773480762;1359893119;2600822924;528734635;1541459225].

Fixpoint be_word (l : list N) : N :=  (* big-endian *)
  match l with [] => 0 | b :: t => N.shiftl b (8 * nlen t) + be_word t end.

Fixpoint words_of (fuel : nat) (l : list N) : list N :=
  match fuel with
  | O => []
  | S k => match l with
           | a :: b :: c :: d :: t => be_word [a;b;c;d] :: words_of k t
           | _ => []
           end
  end.

Definition nthN (l : list N) (i : nat) : N := nth i l 0.

(* message schedule: extend 16 words to 64; w is kept reversed (most recent first) *)
Fixpoint schedule (n : nat) (wrev : list N) : list N :=
  match n with
  | O => wrev
  | S k =>
    let w2 := nthN wrev 1 in let w7 := nthN wrev 6 in
    let w15 := nthN wrev 14 in let w16 := nthN wrev 15 in
    let s0 := N.lxor (N.lxor (rotr w15 7) (rotr w15 18)) (N.shiftr w15 3) in
    let s1 := N.lxor (N.lxor (rotr w2 17) (rotr w2 19)) (N.shiftr w2 10) in
    schedule k (add32 (add32 (add32 w16 s0) w7) s1 :: wrev)
  end.

Definition round (st : list N) (kw : N * N) : list N :=
  match st with
  | [a;b;c;d;e;f;g;h] =>
    let '(k, w) := kw in
    let S1 := N.lxor (N.lxor (rotr e 6) (rotr e 11)) (rotr e 25) in
    let ch := N.lxor (N.land e f) (N.land (not32 e) g) in
    let t1 := add32 (add32 (add32 (add32 h S1) ch) k) w in
    let S0 := N.lxor (N.lxor (rotr a 2) (rotr a 13)) (rotr a 22) in
    let maj := N.lxor (N.lxor (N.land a b) (N.land a c)) (N.land b c) in
    let t2 := add32 S0 maj in
    [add32 t1 t2; a; b; c; add32 d t1; e; f; g]
  | _ => st
  end.

Definition compress (h : list N) (block16 : list N) : list N :=
  let w := rev (schedule 48 (rev block16)) in
  let st := fold_left round (combine Kc w) h in
  map (fun p => add32 (fst p) (snd p)) (combine h st).

Fixpoint blocks (fuel : nat) (h : list N) (ws : list N) : list N :=
  match fuel with
  | O => h
  | S k => match ws with
           | [] => h
           | _ => blocks k (compress h (firstn 16 ws)) (skipn 16 ws)
           end
  end.

Definition sha_pad (m : list N) : list N :=
  let l := length m in
  let k := Nat.modulo (64 - (Nat.modulo (l + 9) 64)) 64 in
  m ++ [128] ++ zeros k ++ rev (le_enc 8 (8 * N.of_nat l)).

Definition word_bytes (w : N) : list N := rev (le_enc 4 w).

Definition sha256 (m : list N) : list N :=
  let p := sha_pad m in
  let ws := words_of (length p) p in
  concat (map word_bytes (blocks (length p) H0 ws)).
