From GM Require Export Bytes.
(* outcome of a Go call: value, returned error (small code), or run-time panic *)
Inductive res (A : Type) := Ok (a : A) | Err (e : N) | Panic.
Arguments Ok {A} a. Arguments Err {A} e. Arguments Panic {A}.
Definition rbind {A B} (r : res A) (f : A -> res B) : res B :=
  match r with Ok a => f a | Err e => Err e | Panic => Panic end.
Definition of_opt {A} (o : option A) : res A := match o with Some a => Ok a | None => Panic end.
