(* Model of frame.Writer (Write / WriteMessage) and streamwriter.Writer. *)
From GM Require Export Reader.

Definition err_not_in_dialect : N := 11.
Definition err_no_dialect : N := 12.
Definition err_init_conf : N := 13.

(* encodeMessageInFrame when the message is not raw; returns the frame now holding MRaw *)
Definition encode_in_frame (d : option dialect) (f : frame) : res frame :=
  match f_msg f with
  | MRaw _ _ => Ok f
  | MDec id v =>
    match d with
    | None => Err err_no_dialect
    | Some dl =>
      match dlookup dl id with
      | None => Err err_not_in_dialect
      | Some c => rbind (msg_write c (f_v2 f) v) (fun p => Ok (set_msg f (MRaw id p)))
      end
    end
  end.

(* frame.Writer.Write: result = bytes of the single ByteWriter.Write call, plus the frame as
   the caller sees it afterwards (its message replaced by the raw encoding) *)
Definition frame_write (d : option dialect) (f : frame) : res (list N) * frame :=
  match encode_in_frame d f with
  | Ok f' => let '(_, p) := raw_of f' in (marshal f' p, f')
  | Err e => (Err e, f)
  | Panic => (Panic, f)
  end.

Record wcfg := mkWcfg {
  w_v2 : bool; w_sys : N; w_comp : N; w_link : N; w_key : option (list N);
  w_dialect : option dialect }.
Record wstate := mkWstate { w_seq : N }.

(* streamwriter.Writer.Initialize / Node.Initialize validation: version in {0,1,2} *)
Definition writer_init (version sys comp : N) (key : bool) : res N (* effective component id *) :=
  if version =? 0 then Err err_init_conf else
  if sys <? 1 then Err err_init_conf else
  if key && negb (version =? 2) then Err err_init_conf else
  Ok (if comp <? 1 then 1 else comp).

(* streamwriter.Writer.Write / frame.Writer.WriteMessage; [now] = the clock reading
   uint64(time.Since(2015-01-01))/10000 taken if the frame is signed.
   The sequence counter advances only when the frame went out. *)
(* the frame streamwriter builds before handing it to frame.Writer.Write *)
Definition stream_build (cfg : wcfg) (st : wstate) (m : msg) (now : N) : res (frame * list N) :=
  let f0 := mkFrame (w_v2 cfg) (if w_v2 cfg then (match w_key cfg with Some _ => 1 | None => 0 end) else 0) 0
                    (w_seq st) (w_sys cfg) (w_comp cfg) m 0 0 0 None in
  match w_dialect cfg with
  | None => Err err_no_dialect
  | Some dl =>
    match dlookup dl (msg_id m) with
    | None => Err err_not_in_dialect
    | Some c =>
      match encode_in_frame (Some dl) f0 with
      | Err e => Err e | Panic => Panic
      | Ok f1 =>
        let '(id, p) := raw_of f1 in
        let f2 := set_ck f1 (gen_checksum f1 id p (c_crc c)) in
        let f3 := match w_key cfg with
                  | Some k => if w_v2 cfg then
                                let f' := set_sig f2 (w_link cfg) (u48 now) None in
                                set_sig f' (w_link cfg) (u48 now) (Some (gen_signature k f' id p))
                              else f2
                  | None => f2
                  end in
        Ok (f3, p)
      end
    end
  end.

Definition stream_write (cfg : wcfg) (st : wstate) (m : msg) (now : N) : wstate * res (list N) :=
  match stream_build cfg st m now with
  | Err e => (st, Err e) | Panic => (st, Panic)
  | Ok (f, p) =>
    match marshal f p with
    | Ok bs => (mkWstate (u8 (w_seq st + 1)), Ok bs)
    | Err e => (st, Err e)
    | Panic => (st, Panic)
    end
  end.

(* uint64(time.Since(2015-01-01)) / 10000 for a duration of [ns] nanoseconds *)
Definition sig_ticks_of_ns (ns : N) : N := u64 ns / 10000.

(* a history of writes: emitted byte strings in order (rejected writes emit nothing) *)
Fixpoint stream_run (cfg : wcfg) (st : wstate) (ops : list (msg * N)) : list (list N) :=
  match ops with
  | [] => []
  | (m, now) :: t =>
    let '(st', r) := stream_write cfg st m now in
    match r with Ok bs => bs :: stream_run cfg st' t | _ => stream_run cfg st' t end
  end.

Fixpoint nondec (l : list N) : bool :=
  match l with
  | a :: ((b :: _) as t) => (a <=? b) && nondec t
  | _ => true
  end.

(* Node.FixFrame: re-encode, recompute checksum and (v2 frame, outgoing key) signature *)
Definition fix_frame (d : option dialect) (outkey : option (list N)) (f : frame) : res frame :=
  rbind (encode_in_frame d f) (fun f1 =>
    match d with
    | None => Err err_no_dialect
    | Some dl =>
      let '(id, p) := raw_of f1 in
      match dlookup dl id with
      | None => Err err_not_in_dialect
      | Some c =>
        let f2 := set_ck f1 (gen_checksum f1 id p (c_crc c)) in
        Ok (match outkey with
            | Some k => if f_v2 f2 then set_sig f2 (f_link f2) (f_ts f2) (Some (gen_signature k f2 id p)) else f2
            | None => f2
            end)
      end
    end).
