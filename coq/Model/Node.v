(* Labelled transition system of a gomavlib Node: node loop, channel provider hand-over, and per
   channel the reader, runner (Channel.run) and writer goroutines, pushEvent, the application's
   event consumer, submitters of Write* calls and Close().  One label = one atomic step of one
   goroutine (or one rendezvous on an unbuffered Go channel); the scheduler and the
   environment (what a transport Read returns, whether the application is receiving) are the
   choice of the next label.  Ghost fields record histories; they never influence enabledness.
   Data is abstract: items and frames are numbers. *)
From Coq Require Export List Arith Bool.
Export ListNotations.

Definition cid := nat.          (* channel index *)
Definition item := nat.         (* something written: identified by a serial number *)
Definition err := nat.

Inductive event := EOpen | EFrame (f : nat) | EParse | EStreamReq | EClose (e : option err).

(* what one frame.Reader.Read returns to the channel reader *)
Inductive rdres := RdFrame (f : nat) (sr : bool) (* sr: triggers stream requests *) | RdParseErr | RdFatal (e : err).

(* pushEvent, after the repair: phase A checks terminate, phase B is the blocking select *)
Inductive push_pc := PA (ev : event) | PB (ev : event).

Inductive rd_pc := RdInit                  (* goroutine not started yet *)
                 | RdPush (p : push_pc) (next_sr : option event)   (* pushing; then maybe the frame event after a stream-requested event *)
                 | RdLoop
                 | RdDone (e : err)       (* runReader returned e; blocked sending on readerDone *)
                 | RdEnd.
Inductive un_pc := UInit | UWait
                 | UR1 (e : err) | UR2 (e : err)            (* reader branch: close transport + writerTerminate; wait writer *)
                 | UC1 | UC2 | UC3                          (* ctx branch: close writerTerminate + transport; wait writer; wait reader *)
                 | UPush (p : push_pc)
                 | UCloseCh | UEnd.
Inductive wr_pc := WInit | WIdle | WBusy (it : item) | WDone | WEnd.

Record chan := mkChan {
  rd : rd_pc; un : un_pc; wr : wr_pc;
  ctxd : bool;             (* ch.ctx cancelled *)
  rwc_closed : bool;       (* transport closed by the library *)
  wterm : bool;            (* writerTerminate closed *)
  registered : bool;       (* in n.channels *)
  q : list item;           (* chWrite buffer *)
  (* ghost *)
  consumed : list rdres;   (* results the reader obtained, in order *)
  started_evs : list event;(* events whose pushEvent call has started, in order *)
  delivered : list event;  (* events received by the application, in order *)
  dropped : bool;          (* some pushEvent of this channel took a terminate branch *)
  accepted : list item;    (* items enqueued into chWrite, in order *)
  dequeued : list item;    (* items taken by the writer, in order *)
  wire : list item;        (* items whose transport write succeeded, in order *)
  closes : nat             (* number of transport Close calls *)
}.

Inductive target := TAll | TOne (c : cid) | TExcept (c : cid).
Definition targets (t : target) (c : cid) : bool :=
  match t with TAll => true | TOne c' => Nat.eqb c c' | TExcept c' => negb (Nat.eqb c c') end.

Inductive loop_pc := LSelect | LEpiChannels | LEpiWait | LEpiEvents | LEnd.

Record st := mkSt {
  term : bool;              (* n.terminate closed: Close() was called *)
  consuming : bool;         (* the application is blocked receiving from Events() *)
  loop : loop_pc;
  events_closed : bool;
  chans : list chan;
  handoff : list cid;       (* channels created by a provider, not yet handed to the loop *)
  provs_closed : bool;      (* epilogue closed the providers: no new channel is created *)
  (* ghost *)
  log : list (cid * event);                 (* what the application received, in order *)
  dispatch : list (nat * target * item * list cid)   (* submissions in rendezvous order: submitter, target, item, channels it was enqueued on *)
}.

Definition qcap : nat := 64.

(* channel-local actions: one atomic step of one of the channel's goroutines, or of the loop /
   provider on that channel *)
Inductive cact :=
| ARead (r : rdres)          (* frame.Reader.Read returned r *)
| APushCheck (who : bool)    (* pushEvent phase A (who: true = reader, false = runner) *)
| APushDeliver (who : bool)  (* phase B: the application received the event *)
| APushDrop (who : bool)     (* phase B: terminate branch *)
| AGotReader                 (* runner receives readerDone *)
| ACtx                       (* runner takes ctx.Done *)
| ACloseRwc                  (* runner closes transport and writerTerminate *)
| AWrDone                    (* runner receives writerDone *)
| ARdDone                    (* ctx branch: runner receives readerDone *)
| ACloseCh                   (* closeChannel rendezvous with the loop *)
| ACloseChTerm               (* closeChannel sees terminate *)
| AWrDeq                     (* writer takes an item from chWrite *)
| AWrOk                      (* transport write succeeded *)
| AWrFail                    (* item could not be encoded, or transport write failed: the writer goes on *)
| AWrTerm                    (* writer sees writerTerminate *)
| AStart                     (* loop: n.channels[ch] = {}; ch.start() *)
| AProvTerm                  (* provider: newChannel saw terminate: ch.close() on a channel that never ran *)
| AEnq (it : item)           (* loop: ch.write enqueued it *)
| ACtxd.                     (* loop epilogue: ch.close() on a running channel = ctxCancel *)

Inductive label :=
| LConsume (b : bool)                  (* the application starts / stops receiving *)
| LClose                               (* Node.Close(): close(n.terminate) *)
| LProvide                             (* a provider creates a channel (initialize) *)
| LNewChan (c : cid)                   (* provider -> loop rendezvous: register, start *)
| LNewChanTerm (c : cid)               (* provider sees terminate: ch.close() *)
| LSubmit (g : nat) (t : target) (it : item) (skip : list cid)
                                       (* Write* rendezvous and the loop's fan-out; skip = channels on which ch.write took the ctx.Done branch *)
| LSubmitTerm                          (* a Write* call sees terminate and returns *)
| LLoopTerm                            (* loop takes the terminate branch; providers are closed *)
| LEpiCloseChans                       (* epilogue: ch.close() on every registered channel *)
| LEpiWaited                           (* wg.Wait() returned *)
| LEpiCloseEvents                      (* close(chEvent); close(done) *)
| LChan (c : cid) (a : cact).          (* a step of one of channel c's goroutines *)

(* ---------- helpers ---------- *)
Fixpoint upd {A} (l : list A) (n : nat) (x : A) : list A :=
  match l, n with
  | [], _ => []
  | _ :: t, O => x :: t
  | h :: t, S k => h :: upd t k x
  end.

Definition new_chan : chan :=
  mkChan RdInit UInit WInit false false false false [] [] [] [] false [] [] [] 0.

Definition set_chans (s : st) (cs : list chan) : st :=
  mkSt (term s) (consuming s) (loop s) (events_closed s) cs (handoff s) (provs_closed s) (log s) (dispatch s).

(* run f on channel c; f returns the new channel and the events delivered to the application *)
Definition with_chan (s : st) (c : cid) (f : chan -> option (chan * list event)) : option st :=
  match nth_error (chans s) c with
  | None => None
  | Some ch =>
    match f ch with
    | None => None
    | Some (ch', evs) =>
      Some (mkSt (term s) (consuming s) (loop s) (events_closed s) (upd (chans s) c ch') (handoff s) (provs_closed s)
                 (log s ++ map (fun e => (c, e)) evs) (dispatch s))
    end
  end.

(* record updates *)
Definition ch_rd (ch : chan) (x : rd_pc) := mkChan x (un ch) (wr ch) (ctxd ch) (rwc_closed ch) (wterm ch) (registered ch) (q ch) (consumed ch) (started_evs ch) (delivered ch) (dropped ch) (accepted ch) (dequeued ch) (wire ch) (closes ch).
Definition ch_un (ch : chan) (x : un_pc) := mkChan (rd ch) x (wr ch) (ctxd ch) (rwc_closed ch) (wterm ch) (registered ch) (q ch) (consumed ch) (started_evs ch) (delivered ch) (dropped ch) (accepted ch) (dequeued ch) (wire ch) (closes ch).
Definition ch_wr (ch : chan) (x : wr_pc) := mkChan (rd ch) (un ch) x (ctxd ch) (rwc_closed ch) (wterm ch) (registered ch) (q ch) (consumed ch) (started_evs ch) (delivered ch) (dropped ch) (accepted ch) (dequeued ch) (wire ch) (closes ch).
Definition ch_ctxd (ch : chan) := mkChan (rd ch) (un ch) (wr ch) true (rwc_closed ch) (wterm ch) (registered ch) (q ch) (consumed ch) (started_evs ch) (delivered ch) (dropped ch) (accepted ch) (dequeued ch) (wire ch) (closes ch).
Definition ch_close_rwc (ch : chan) := mkChan (rd ch) (un ch) (wr ch) (ctxd ch) true (wterm ch) (registered ch) (q ch) (consumed ch) (started_evs ch) (delivered ch) (dropped ch) (accepted ch) (dequeued ch) (wire ch) (S (closes ch)).
Definition ch_wterm (ch : chan) := mkChan (rd ch) (un ch) (wr ch) (ctxd ch) (rwc_closed ch) true (registered ch) (q ch) (consumed ch) (started_evs ch) (delivered ch) (dropped ch) (accepted ch) (dequeued ch) (wire ch) (closes ch).
Definition ch_reg (ch : chan) (b : bool) := mkChan (rd ch) (un ch) (wr ch) (ctxd ch) (rwc_closed ch) (wterm ch) b (q ch) (consumed ch) (started_evs ch) (delivered ch) (dropped ch) (accepted ch) (dequeued ch) (wire ch) (closes ch).
Definition ch_q (ch : chan) (x : list item) := mkChan (rd ch) (un ch) (wr ch) (ctxd ch) (rwc_closed ch) (wterm ch) (registered ch) x (consumed ch) (started_evs ch) (delivered ch) (dropped ch) (accepted ch) (dequeued ch) (wire ch) (closes ch).
Definition ch_consumed (ch : chan) (r : rdres) := mkChan (rd ch) (un ch) (wr ch) (ctxd ch) (rwc_closed ch) (wterm ch) (registered ch) (q ch) (consumed ch ++ [r]) (started_evs ch) (delivered ch) (dropped ch) (accepted ch) (dequeued ch) (wire ch) (closes ch).
Definition ch_started (ch : chan) (e : event) := mkChan (rd ch) (un ch) (wr ch) (ctxd ch) (rwc_closed ch) (wterm ch) (registered ch) (q ch) (consumed ch) (started_evs ch ++ [e]) (delivered ch) (dropped ch) (accepted ch) (dequeued ch) (wire ch) (closes ch).
Definition ch_delivered (ch : chan) (e : event) := mkChan (rd ch) (un ch) (wr ch) (ctxd ch) (rwc_closed ch) (wterm ch) (registered ch) (q ch) (consumed ch) (started_evs ch) (delivered ch ++ [e]) (dropped ch) (accepted ch) (dequeued ch) (wire ch) (closes ch).
Definition ch_dropped (ch : chan) := mkChan (rd ch) (un ch) (wr ch) (ctxd ch) (rwc_closed ch) (wterm ch) (registered ch) (q ch) (consumed ch) (started_evs ch) (delivered ch) true (accepted ch) (dequeued ch) (wire ch) (closes ch).
Definition ch_enq (ch : chan) (it : item) := mkChan (rd ch) (un ch) (wr ch) (ctxd ch) (rwc_closed ch) (wterm ch) (registered ch) (q ch ++ [it]) (consumed ch) (started_evs ch) (delivered ch) (dropped ch) (accepted ch ++ [it]) (dequeued ch) (wire ch) (closes ch).
Definition ch_deq (ch : chan) (it : item) (rest : list item) := mkChan (rd ch) (un ch) (WBusy it) (ctxd ch) (rwc_closed ch) (wterm ch) (registered ch) rest (consumed ch) (started_evs ch) (delivered ch) (dropped ch) (accepted ch) (dequeued ch ++ [it]) (wire ch) (closes ch).
Definition ch_wire (ch : chan) (it : item) := mkChan (rd ch) (un ch) WIdle (ctxd ch) (rwc_closed ch) (wterm ch) (registered ch) (q ch) (consumed ch) (started_evs ch) (delivered ch) (dropped ch) (accepted ch) (dequeued ch) (wire ch ++ [it]) (closes ch).

(* ---------- pushEvent, shared by reader and runner ---------- *)
(* phase A: terminate closed -> the event is dropped (call returns); else go to phase B *)
Definition push_check (tm : bool) (p : push_pc) : option (option push_pc) (* Some None = dropped, returned *) :=
  match p with
  | PA ev => Some (if tm then None else Some (PB ev))
  | PB _ => None
  end.

Definition ev_of (r : rdres) : option event :=
  match r with RdFrame f _ => Some (EFrame f) | RdParseErr => Some EParse | RdFatal _ => None end.

(* the reader after a pushEvent call has returned *)
Definition rd_after_push (next_sr : option event) : rd_pc * option event :=
  match next_sr with
  | Some ev => (RdPush (PA ev) None, Some ev)     (* the frame event follows the stream-requested event *)
  | None => (RdLoop, None)
  end.
Definition start_ev (ch : chan) (o : option event) : chan :=
  match o with Some e => ch_started ch e | None => ch end.

Definition enq_ok (ch : chan) (skipped : bool) : bool :=
  registered ch && negb skipped && Nat.ltb (length (q ch)) qcap.

Definition runner_done (ch : chan) : bool := match un ch with UEnd => true | _ => false end.

(* the effect of a channel-local action: new channel state and the events the application
   received; None = not enabled in this channel state.  [tm] = n.terminate is closed. *)
Definition capply (tm : bool) (a : cact) (ch : chan) : option (chan * list event) :=
  match a with
  | ARead r =>
    match rd ch with
    | RdLoop =>
      let ch1 := ch_consumed ch r in
      match r with
      | RdFatal e => Some (ch_rd ch1 (RdDone e), [])
      | RdParseErr => Some (ch_started (ch_rd ch1 (RdPush (PA EParse) None)) EParse, [])
      | RdFrame f true => Some (ch_started (ch_rd ch1 (RdPush (PA EStreamReq) (Some (EFrame f)))) EStreamReq, [])
      | RdFrame f false => Some (ch_started (ch_rd ch1 (RdPush (PA (EFrame f)) None)) (EFrame f), [])
      end
    | _ => None
    end
  | APushCheck who =>
    if who then
      match rd ch with
      | RdPush p nx =>
        match push_check tm p with
        | Some (Some p') => Some (ch_rd ch (RdPush p' nx), [])
        | Some None => let '(pc, o) := rd_after_push nx in Some (start_ev (ch_rd (ch_dropped ch) pc) o, [])
        | None => None
        end
      | _ => None
      end
    else
      match un ch with
      | UPush p =>
        match push_check tm p with
        | Some (Some p') => Some (ch_un ch (UPush p'), [])
        | Some None => Some (ch_un (ch_dropped ch) UCloseCh, [])
        | None => None
        end
      | _ => None
      end
  | APushDeliver who =>
    if who then
      match rd ch with
      | RdPush (PB ev) nx => let '(pc, o) := rd_after_push nx in Some (start_ev (ch_rd (ch_delivered ch ev) pc) o, [ev])
      | _ => None
      end
    else
      match un ch with
      | UPush (PB ev) => Some (ch_un (ch_delivered ch ev) UCloseCh, [ev])
      | _ => None
      end
  | APushDrop who =>
    if negb tm then None else
    if who then
      match rd ch with
      | RdPush (PB ev) nx => let '(pc, o) := rd_after_push nx in Some (start_ev (ch_rd (ch_dropped ch) pc) o, [])
      | _ => None
      end
    else
      match un ch with
      | UPush (PB ev) => Some (ch_un (ch_dropped ch) UCloseCh, [])
      | _ => None
      end
  | AGotReader =>
    match un ch, rd ch with
    | UWait, RdDone e => Some (ch_un (ch_rd ch RdEnd) (UR1 e), [])
    | _, _ => None
    end
  | ACtx =>
    match un ch with
    | UWait => if ctxd ch then Some (ch_un ch UC1, []) else None
    | _ => None
    end
  | ACloseRwc =>
    match un ch with
    | UR1 e => Some (ch_un (ch_wterm (ch_close_rwc ch)) (UR2 e), [])
    | UC1 => Some (ch_un (ch_wterm (ch_close_rwc ch)) UC2, [])
    | _ => None
    end
  | AWrDone =>
    match un ch, wr ch with
    | UR2 e, WDone => let ch1 := ch_ctxd (ch_wr ch WEnd) in
                      Some (ch_started (ch_un ch1 (UPush (PA (EClose (Some e))))) (EClose (Some e)), [])
    | UC2, WDone => Some (ch_un (ch_wr ch WEnd) UC3, [])
    | _, _ => None
    end
  | ARdDone =>
    match un ch, rd ch with
    | UC3, RdDone _ => let ch1 := ch_ctxd (ch_rd ch RdEnd) in
                       Some (ch_started (ch_un ch1 (UPush (PA (EClose None)))) (EClose None), [])
    | _, _ => None
    end
  | ACloseCh =>
    match un ch with
    | UCloseCh => Some (ch_un (ch_reg ch false) UEnd, [])
    | _ => None
    end
  | ACloseChTerm =>
    if negb tm then None else
    match un ch with
    | UCloseCh => Some (ch_un ch UEnd, [])
    | _ => None
    end
  | AWrDeq =>
    match wr ch, q ch with
    | WIdle, it :: rest => Some (ch_deq ch it rest, [])
    | _, _ => None
    end
  | AWrOk =>
    match wr ch with
    | WBusy it => if rwc_closed ch then None else Some (ch_wire ch it, [])
    | _ => None
    end
  | AWrFail =>
    match wr ch with
    | WBusy it => Some (ch_wr ch WIdle, [])
    | _ => None
    end
  | AWrTerm =>
    match wr ch with
    | WIdle => if wterm ch then Some (ch_wr ch WDone, []) else None
    | _ => None
    end
  | AStart =>
    match rd ch, un ch with
    | RdInit, UInit => Some (ch_started (ch_wr (ch_un (ch_rd (ch_reg ch true) (RdPush (PA EOpen) None)) UWait) WIdle) EOpen, [])
    | _, _ => None
    end
  | AProvTerm =>
    if negb tm then None else
    match rd ch, un ch with
    | RdInit, UInit => Some (ch_un (ch_close_rwc (ch_ctxd ch)) UEnd, [])
    | _, _ => None
    end
  | AEnq it => if registered ch && Nat.ltb (length (q ch)) qcap then Some (ch_enq ch it, []) else None
  | ACtxd => Some (ch_ctxd ch, [])
  end.

(* which actions a goroutine of the channel may take as a label of its own, and the global guard *)
Definition chan_label_ok (s : st) (a : cact) : bool :=
  match a with
  | APushDeliver _ => consuming s && negb (events_closed s)
  | ACloseCh => match loop s with LSelect => true | _ => false end
  | AStart | AProvTerm | AEnq _ | ACtxd => false       (* loop / provider actions: see LNewChan, LNewChanTerm, LSubmit, LEpiCloseChans *)
  | _ => true
  end.

Fixpoint fanout (cs : list chan) (i : nat) (t : target) (it : item) (skip : list cid) : list chan * list cid :=
  match cs with
  | [] => ([], [])
  | ch :: rest =>
    let '(rest', en) := fanout rest (S i) t it skip in
    if targets t i && enq_ok ch (existsb (Nat.eqb i) skip)
    then (ch_enq ch it :: rest', i :: en) else (ch :: rest', en)
  end.

Definition rm (c : cid) (l : list cid) : list cid := filter (fun x => negb (Nat.eqb x c)) l.

(* ---------- the transition function: None = the label is not enabled ---------- *)
Definition lstep (s : st) (l : label) : option st :=
  match l with
  | LConsume b =>
    Some (mkSt (term s) b (loop s) (events_closed s) (chans s) (handoff s) (provs_closed s) (log s) (dispatch s))
  | LClose =>
    if term s then None else
    Some (mkSt true (consuming s) (loop s) (events_closed s) (chans s) (handoff s) (provs_closed s) (log s) (dispatch s))
  | LProvide =>
    if provs_closed s then None else
    Some (mkSt (term s) (consuming s) (loop s) (events_closed s) (chans s ++ [new_chan])
               (handoff s ++ [length (chans s)]) (provs_closed s) (log s) (dispatch s))
  | LNewChan c =>
    match loop s with
    | LSelect =>
      if existsb (Nat.eqb c) (handoff s) then
        match with_chan s c (capply (term s) AStart) with
        | Some s1 => Some (mkSt (term s1) (consuming s1) (loop s1) (events_closed s1) (chans s1) (rm c (handoff s1)) (provs_closed s1) (log s1) (dispatch s1))
        | None => None
        end
      else None
    | _ => None
    end
  | LNewChanTerm c =>
    if existsb (Nat.eqb c) (handoff s) then
      match with_chan s c (capply (term s) AProvTerm) with
      | Some s1 => Some (mkSt (term s1) (consuming s1) (loop s1) (events_closed s1) (chans s1) (rm c (handoff s1)) (provs_closed s1) (log s1) (dispatch s1))
      | None => None
      end
    else None
  | LSubmit g t it skip =>
    match loop s with
    | LSelect =>
      (* the ctx.Done branch of ch.write can only be taken on a cancelled channel *)
      if forallb (fun c => match nth_error (chans s) c with Some ch => ctxd ch | None => false end) skip then
        let '(cs', en) := fanout (chans s) 0 t it skip in
        Some (mkSt (term s) (consuming s) (loop s) (events_closed s) cs' (handoff s) (provs_closed s) (log s)
                   (dispatch s ++ [(g, t, it, en)]))
      else None
    | _ => None
    end
  | LSubmitTerm => if term s then Some s else None
  | LLoopTerm =>
    match loop s with
    | LSelect => if term s then Some (mkSt (term s) (consuming s) LEpiChannels (events_closed s) (chans s) (handoff s) true (log s) (dispatch s)) else None
    | _ => None
    end
  | LEpiCloseChans =>
    match loop s with
    | LEpiChannels =>
      Some (mkSt (term s) (consuming s) LEpiWait (events_closed s)
                 (map (fun ch => if registered ch then ch_ctxd ch else ch) (chans s)) (handoff s) (provs_closed s) (log s) (dispatch s))
    | _ => None
    end
  | LEpiWaited =>
    match loop s with
    | LEpiWait =>
      if forallb runner_done (chans s) && match handoff s with [] => true | _ => false end
      then Some (mkSt (term s) (consuming s) LEpiEvents (events_closed s) (chans s) (handoff s) (provs_closed s) (log s) (dispatch s))
      else None
    | _ => None
    end
  | LEpiCloseEvents =>
    match loop s with
    | LEpiEvents => Some (mkSt (term s) (consuming s) LEnd true (chans s) (handoff s) (provs_closed s) (log s) (dispatch s))
    | _ => None
    end
  | LChan c a =>
    if chan_label_ok s a then with_chan s c (capply (term s) a) else None
  end.

Definition init : st := mkSt false false LSelect false [] [] false [] [].

Fixpoint run (s : st) (ls : list label) : option st :=
  match ls with
  | [] => Some s
  | l :: t => match lstep s l with Some s' => run s' t | None => None end
  end.

Definition reachable (s : st) : Prop := exists ls, run init ls = Some s.
