(* C15: executions, happens-before and the ownership discipline (generic; no reference to gomavlib). *)
From Coq Require Export List Arith Bool.
Export ListNotations.

Definition gid := nat.   (* goroutine *)
Definition loc := nat.   (* memory location *)
Definition mid := nat.   (* mutex *)

(* What an execution is made of.  [Sync g g' give share] is any synchronisation edge of the Go
   memory model from g to g': a go statement (parent to child), a channel send to the matching
   receive, a close to a receive that observes it, wg.Done to the Wait it releases.  It may hand
   locations over ([give]: exclusive ownership moves) or publish them read-only ([share]). *)
Inductive ev :=
| Acc (g : gid) (l : loc) (w : bool)
| Sync (g g' : gid) (give share : list loc)
| Lock (g : gid) (m : mid)
| Unlock (g : gid) (m : mid).

Definition upd {A} (f : nat -> A) (k : nat) (v : A) : nat -> A := fun x => if Nat.eqb x k then v else f x.

(* Happens-before, operationally: [K g] is the set of event indices that happen before g's next
   event; [KM m] what the last unlock of m knew. *)
Record hbstate := mkHB { clk : nat; K : gid -> nat -> Prop; KM : mid -> nat -> Prop }.
Definition hb0 : hbstate := mkHB 0 (fun _ _ => False) (fun _ _ => False).
Definition hb_step (s : hbstate) (e : ev) : hbstate :=
  let c := clk s in
  match e with
  | Acc g _ _ => mkHB (S c) (upd (K s) g (fun i => K s g i \/ i = c)) (KM s)
  | Sync g g' _ _ =>
    mkHB (S c) (upd (upd (K s) g (fun i => K s g i \/ i = c)) g' (fun i => K s g' i \/ K s g i \/ i = c)) (KM s)
  | Lock g m => mkHB (S c) (upd (K s) g (fun i => K s g i \/ KM s m i \/ i = c)) (KM s)
  | Unlock g m => mkHB (S c) (upd (K s) g (fun i => K s g i \/ i = c)) (upd (KM s) m (fun i => K s g i \/ i = c))
  end.
Definition hb_run (tr : list ev) : hbstate := fold_left hb_step tr hb0.

(* event i happens before event j (an access by g) in tr *)
Definition happens_before (tr : list ev) (i j : nat) (g : gid) : Prop := K (hb_run (firstn j tr)) g i.

(* a data race: two conflicting accesses by different goroutines, the earlier not ordered before the later *)
Definition data_race (tr : list ev) : Prop :=
  exists i j gi gj l wi wj,
    i < j /\ nth_error tr i = Some (Acc gi l wi) /\ nth_error tr j = Some (Acc gj l wj) /\
    gi <> gj /\ (wi = true \/ wj = true) /\ ~ happens_before tr i j gj.

(* ---- the ownership discipline ---- *)
Inductive permission := Excl (g : gid) | Shared (gs : list gid) | Guarded (m : mid).
Record dstate := mkD { perm : loc -> permission; holder : mid -> option gid }.

Definition memn (x : nat) (l : list nat) : bool := existsb (Nat.eqb x) l.
Definition acc_ok (d : dstate) (g : gid) (l : loc) (w : bool) : bool :=
  match perm d l with
  | Excl g0 => g0 =? g
  | Shared gs => memn g gs && negb w
  | Guarded m => match holder d m with Some g0 => g0 =? g | None => false end
  end.
Definition give_ok (d : dstate) (g : gid) (l : loc) : bool :=
  match perm d l with Excl g0 => g0 =? g | _ => false end.
Definition share_ok (d : dstate) (g : gid) (l : loc) : bool :=
  match perm d l with Excl g0 => g0 =? g | Shared gs => memn g gs | Guarded _ => false end.
Definition shared_with (p : permission) (g g' : gid) : permission :=
  match p with Excl _ => Shared [g; g'] | Shared gs => Shared (g' :: gs) | Guarded m => Guarded m end.

Definition disc_step (d : dstate) (e : ev) : option dstate :=
  match e with
  | Acc g l w => if acc_ok d g l w then Some d else None
  | Sync g g' give share =>
    if forallb (give_ok d g) give && forallb (share_ok d g) share then
      Some (mkD (fun l => if memn l give then Excl g' else if memn l share then shared_with (perm d l) g g' else perm d l)
                (holder d))
    else None
  | Lock g m => match holder d m with None => Some (mkD (perm d) (upd (holder d) m (Some g))) | Some _ => None end
  | Unlock g m =>
    match holder d m with
    | Some g0 => if g0 =? g then Some (mkD (perm d) (upd (holder d) m None)) else None
    | None => None
    end
  end.
Fixpoint disc_run (d : dstate) (tr : list ev) : option dstate :=
  match tr with
  | [] => Some d
  | e :: t => match disc_step d e with Some d' => disc_run d' t | None => None end
  end.
Definition disciplined (d0 : dstate) (tr : list ev) : Prop := exists d, disc_run d0 tr = Some d.
