(* C15: what the classes of the ownership policy (Policy.v) mean for an execution.  Generic: no
   reference to gomavlib.  A location is one field of one object; its class says which accesses an
   execution may contain.  Everything here is computable, so a concrete execution can be checked. *)
From GM Require Export Race.

Definition actor (e : ev) : gid :=
  match e with Acc g _ _ => g | Sync g _ _ _ => g | Lock g _ => g | Unlock g _ => g end.

(* goroutines exist because a running goroutine started them (or synchronised with them) *)
Definition st_step (st : list gid) (e : ev) : list gid :=
  match e with Sync _ g' _ _ => g' :: st | _ => st end.
Fixpoint wf_from (st : list gid) (tr : list ev) : bool :=
  match tr with [] => true | e :: t => memn (actor e) st && wf_from (st_step st e) t end.
(* g0 is the goroutine that builds the object graph (Node.Initialize runs on the caller's) *)
Definition well_spawned (g0 : gid) (tr : list ev) : bool := wf_from [g0] tr.

(* the initialisation phase: everything before the first synchronisation edge (the first [go]) *)
Fixpoint init_len (tr : list ev) : nat :=
  match tr with
  | [] => 0
  | Sync _ _ _ _ :: _ => 0
  | _ :: t => S (init_len t)
  end.

(* mutexes: a Lock event is a successful acquisition *)
Definition lk_step (hd : mid -> option gid) (e : ev) : option (mid -> option gid) :=
  match e with
  | Lock g m => match hd m with None => Some (upd hd m (Some g)) | Some _ => None end
  | Unlock g m => match hd m with Some g0 => if g0 =? g then Some (upd hd m None) else None | None => None end
  | _ => Some hd
  end.
Fixpoint lk_run (hd : mid -> option gid) (tr : list ev) : option (mid -> option gid) :=
  match tr with
  | [] => Some hd
  | e :: t => match lk_step hd e with Some hd' => lk_run hd' t | None => None end
  end.
Definition lock_wf (tr : list ev) : bool := match lk_run (fun _ => None) tr with Some _ => true | None => false end.
Definition holder_at (tr : list ev) (i : nat) (m : mid) : option gid :=
  match lk_run (fun _ => None) (firstn i tr) with Some hd => hd m | None => None end.

(* goroutines an object has reached: from its creator gc, along edges at or after event h *)
Definition rs_step (h : nat) (cR : nat * list gid) (e : ev) : nat * list gid :=
  let (c, R) := cR in
  (S c, match e with
        | Sync g g' _ _ => if (h <=? c) && memn g R then g' :: R else R
        | _ => R
        end).
Definition reach_at (h : nat) (gc : gid) (tr : list ev) (i : nat) : list gid :=
  snd (fold_left (rs_step h) (firstn i tr) (0, [gc])).

Inductive rclass :=
| RInit                                  (* written only in the initialisation phase *)
| RWriteOnce (gc : gid) (h : nat)        (* written only by its creator gc before event h; anyone else touches it
                                            only after the object has reached them along edges from gc at or after h *)
| RConfined (g : gid)                    (* after the initialisation phase, touched by g only *)
| RLocked (m : mid)                      (* after the initialisation phase, touched only with m held *)
| RTransfer (o1 o2 : gid) (h : nat).     (* touched by o1 before event h, an edge from o1 to o2, and by o2 after it *)

Fixpoint all_acc_from (c : nat) (tr : list ev) (l : loc) (P : nat -> gid -> bool -> bool) : bool :=
  match tr with
  | [] => true
  | e :: t =>
    (match e with Acc g l' w => if l' =? l then P c g w else true | _ => true end) && all_acc_from (S c) t l P
  end.
Definition all_acc := all_acc_from 0.

Definition conformsb (tr : list ev) (l : loc) (c : rclass) : bool :=
  match c with
  | RInit => all_acc tr l (fun i g w => negb w || (i <? init_len tr))
  | RWriteOnce gc h =>
    all_acc tr l (fun i g w => (if w then (g =? gc) && (i <? h) else true) && ((g =? gc) || memn g (reach_at h gc tr i)))
  | RConfined g1 => all_acc tr l (fun i g w => (i <? init_len tr) || (g =? g1))
  | RLocked m => all_acc tr l (fun i g w => (i <? init_len tr) || match holder_at tr i m with Some g0 => g0 =? g | None => false end)
  | RTransfer o1 o2 h =>
    match nth_error tr h with Some (Sync a b _ _) => (a =? o1) && (b =? o2) | _ => false end &&
    all_acc tr l (fun i g w => ((i <? h) && (g =? o1)) || ((h <? i) && (g =? o2)))
  end.

Fixpoint locs_of (tr : list ev) : list loc :=
  match tr with [] => [] | Acc _ l _ :: t => l :: locs_of t | _ :: t => locs_of t end.

(* an execution conforms to an assignment of classes to locations *)
Definition conforming (g0 : gid) (cls : loc -> rclass) (tr : list ev) : bool :=
  well_spawned g0 tr && lock_wf tr && forallb (fun l => conformsb tr l (cls l)) (locs_of tr).
