(* Model of pkg/tlog: Writer.Write and Reader.Read. *)
From Coq Require Import ZArith.
From GM Require Export Writer FlatStream.

(* int64 microseconds <-> 8 big-endian bytes (two's complement) *)
Definition two64 : Z := 18446744073709551616%Z.
Definition ts_bytes (us : Z) : list N := be_enc8 (Z.to_N (us mod two64)%Z).
Definition ts_of_bytes (l : list N) : Z :=
  let u := Z.of_N (be_dec l) in if (u <? 9223372036854775808)%Z then u else (u - two64)%Z.

Record entry := mkEntry { e_time : Z; e_frame : frame }.

(* the underlying io.Writer: an oracle says, call by call, whether the next Write succeeds (an
   exhausted oracle fails); a failing call writes nothing and returns an error.  "The k-th Write
   and all later ones fail" is the oracle [repeat true (k-1)]; a transient failure is a [false]
   followed by [true]s. *)
Definition err_write : N := 50.
Definition uwrite (o : list bool) (file bs : list N) : res unit * list bool * list N :=
  match o with
  | true :: t => (Ok tt, t, file ++ bs)
  | false :: t => (Err err_write, t, file)
  | [] => (Err err_write, [], file)
  end.

(* tlog.Writer.Write: the frame is encoded first; nothing reaches the file when that fails; the
   writer keeps no state between entries *)
Definition tlog_write (d : option dialect) (o : list bool) (file : list N) (e : entry)
  : res unit * list bool * list N :=
  match frame_write d (e_frame e) with
  | (Ok fb, _) =>
    match uwrite o file (ts_bytes (e_time e)) with
    | (Ok _, o1, file1) => uwrite o1 file1 fb
    | other => other
    end
  | (Err x, _) => (Err x, o, file)
  | (Panic, _) => (Panic, o, file)
  end.

Fixpoint tlog_write_all (d : option dialect) (o : list bool) (file : list N) (es : list entry)
  : list (res unit) * list N :=
  match es with
  | [] => ([], file)
  | e :: t => let '(r, o', f) := tlog_write d o file e in
              let '(rs, f') := tlog_write_all d o' f t in (r :: rs, f')
  end.

(* tlog.Reader.Read over the flat stream of the file (io.ReadFull(8), then frame.Reader.Read) *)
Inductive tres := TEntry (e : entry) | TErr (code : N).
Definition te_eof : N := 0.
Definition te_unexpected : N := 1.
Definition te_parse : N := 60.

Definition flat_rr := g_reader_read fstream f_read_byte f_peek_discard f_read_full.

Definition tlog_read (cfg : rcfg) (st : rstate) (l : fstream) : tres * rstate * fstream :=
  match f_read_full 8 l with
  | (Ok tsb, l1) =>
    match flat_rr cfg st l1 with
    | (RFrame f, st', l2) => (TEntry (mkEntry (ts_of_bytes tsb) f), st', l2)
    | (RParse _, st', l2) => (TErr te_parse, st', l2)
    | (RTransport e, st', l2) => (TErr e, st', l2)
    end
  | (Err e, l1) => (TErr e, st, l1)
  | (Panic, l1) => (TErr 99, st, l1)
  end.

Fixpoint tlog_read_n (n : nat) (cfg : rcfg) (st : rstate) (l : fstream) : list tres :=
  match n with
  | O => []
  | S k => let '(r, st', l') := tlog_read cfg st l in r :: tlog_read_n k cfg st' l'
  end.
