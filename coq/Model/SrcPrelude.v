(* What the source translator (/verif/access/src.go) assumes of Go: unsigned machine integers as N
   wrapped to their width, byte slices as lists, an indexed store as a list update. *)
From Coq Require Export NArith List.
Export ListNotations.
Open Scope N_scope.

(* the value of an unsigned w-bit operation whose mathematical result is x *)
Definition wrap (w : N) (x : N) : N := x mod 2 ^ w.

(* buf[i] = v (Go panics when i is out of range; the list is then unchanged: statements about
   translated functions carry the length as a hypothesis) *)
Fixpoint set_nth (l : list N) (i : nat) (v : N) : list N :=
  match l, i with
  | [], _ => []
  | _ :: t, O => v :: t
  | x :: t, S k => x :: set_nth t k v
  end.
