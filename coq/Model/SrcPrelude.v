(* What the source translator (/verif/access/src.go) assumes of Go: unsigned machine integers as N
   wrapped to their width, byte slices as lists, an indexed store as a list update. *)
From Coq Require Export NArith List.
Export ListNotations.
Open Scope N_scope.

(* the value of an unsigned w-bit operation whose mathematical result is x *)
Definition wrap (w : N) (x : N) : N := x mod 2 ^ w.

(* buf[i] = v (Go panics when i is out of range; the list is then unchanged: statements about
   translated functions carry the length as a hypothesis) *)
Fixpoint set_nth (l : list N) (i : nat) (v : N) : list N :=
  match l, i with
  | [], _ => []
  | _ :: t, O => v :: t
  | x :: t, S k => x :: set_nth t k v
  end.

(* f(l[i:]) for a function that stores into its argument: the first i elements are untouched *)
Definition on_suffix (l : list N) (i : nat) (g : list N -> list N) : list N := firstn i l ++ g (skipn i l).

(* binary.LittleEndian.PutUintNN: k bytes, least significant first *)
Fixpoint put_le (l : list N) (k : nat) (v : N) : list N :=
  match k, l with
  | O, _ => l
  | S k', x :: t => (v mod 256) :: put_le t k' (v / 256)
  | S _, [] => []
  end.

(* copy(dst[i:], src): as many elements as fit, and how many that was *)
Fixpoint overwrite (dst src : list N) : list N :=
  match dst, src with
  | _ :: d, s :: r => s :: overwrite d r
  | _, _ => dst
  end.
Definition copy_at (dst : list N) (i : nat) (src : list N) : list N * N :=
  (on_suffix dst i (fun s => overwrite s src), N.of_nat (Nat.min (length dst - i) (length src))).
