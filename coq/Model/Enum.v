(* Model of the generated enum text methods (pkg/conversion template, pkg/dialects/*/enum_*.go). *)
From Coq Require Import ZArith.
From GM Require Export Layout.

(* strconv.Itoa(int(e)) for e : uint64 — int64 two's complement, signed decimal *)
Fixpoint digits_of (fuel : nat) (n : N) : list N :=
  match fuel with
  | O => []
  | S k => if n <? 10 then [48 + n] else digits_of k (n / 10) ++ [48 + n mod 10]
  end.
Definition utoa (n : N) : list N := digits_of 21 n.        (* 2^64 has 20 digits *)
Definition int64_of_u64 (e : N) : Z :=
  if e <? 9223372036854775808 then Z.of_N e else (Z.of_N e - 18446744073709551616)%Z.
Definition itoa (z : Z) : list N :=
  match z with
  | Z0 => [48]
  | Zpos p => utoa (Npos p)
  | Zneg p => 45 :: utoa (Npos p)
  end.
Definition u64_of_int64 (z : Z) : N := Z.to_N (z mod 18446744073709551616)%Z.

(* association lists standing for the Go maps labels_X (value -> name) and values_X (name -> value) *)
Fixpoint lookup_label (l : list (N * list N)) (v : N) : option (list N) :=
  match l with [] => None | (k, s) :: t => if k =? v then Some s else lookup_label t v end.
Fixpoint lookup_value (l : list (list N * N)) (s : list N) : option N :=
  match l with [] => None | (k, v) :: t => if bytes_eqb k s then Some v else lookup_value t s end.

Record enum := mkEnum {
  en_bitmask : bool;
  en_bound : nat;                       (* loop bound of the bitmask MarshalText *)
  en_labels : list (N * list N);
  en_values : list (list N * N)
}.

(* strings.Join(names, " | ") and strings.Split(text, " | ") *)
Definition sep : list N := [32; 124; 32].
Fixpoint join (l : list (list N)) : list N :=
  match l with [] => [] | [a] => a | a :: t => a ++ sep ++ join t end.
Fixpoint split_aux (fuel : nat) (cur : list N) (s : list N) : list (list N) :=
  match fuel with
  | O => [rev cur]
  | S k => match s with
           | [] => [rev cur]
           | 32 :: 124 :: 32 :: t => rev cur :: split_aux k [] t
           | c :: t => split_aux k (c :: cur) t
           end
  end.
Definition split (s : list N) : list (list N) := split_aux (S (length s)) [] s.

(* MarshalText *)
Definition marshal_text (en : enum) (e : N) : list N :=
  if en_bitmask en then
    if e =? 0 then [48] else
    join (flat_map (fun i => let mask := N.shiftl 1 (N.of_nat i) in
                             if N.land e mask =? mask
                             then [match lookup_label (en_labels en) mask with Some s => s | None => [] end]
                             else [])
                   (seq 0 (en_bound en)))
  else
    match lookup_label (en_labels en) e with
    | Some s => s
    | None => itoa (int64_of_u64 e)
    end.

(* UnmarshalText: None = error *)
Definition parse_label (en : enum) (s : list N) : option N :=
  match lookup_value (en_values en) s with
  | Some v => Some v
  | None => match atoi s with Some z => Some (u64_of_int64 z) | None => None end
  end.
Definition unmarshal_text (en : enum) (s : list N) : option N :=
  if en_bitmask en then
    fold_left (fun acc l => match acc, parse_label en l with
                            | Some m, Some v => Some (N.lor m v)
                            | _, _ => None
                            end) (split s) (Some 0)
  else parse_label en s.

Definition roundtrips (en : enum) (e : N) : bool :=
  match unmarshal_text en (marshal_text en e) with Some v => v =? e | None => false end.
