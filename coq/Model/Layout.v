(* Model of message.ReadWriter.Initialize: Go struct description -> field table. *)
From GM Require Export Codec X25.
From Coq Require Import ZArith.

(* reflect.Kind of the (element) type, as far as Initialize looks at it *)
Record gofield := mkGoField {
  g_name : list N;        (* field.Name *)
  g_isarr : bool;         (* Type.Kind() == Array *)
  g_arrlen : N;           (* Type.Len() *)
  g_tname : list N;       (* (element) type Name(): "uint8", "string", "MAV_TYPE", ... *)
  g_kind_uint64 : bool;   (* (element) Kind() == Uint64 *)
  g_kind_string : bool;   (* (element) Kind() == String *)
  g_tag_enum : list N;    (* mavenum *)
  g_tag_len : list N;     (* mavlen *)
  g_tag_ext : list N;     (* mavext *)
  g_tag_name : list N     (* mavname *)
}.
Record gostruct := mkGoStruct { gs_name : list N; gs_fields : list gofield }.

Definition s_float64 := [102;108;111;97;116;54;52].
Definition s_uint64 := [117;105;110;116;54;52].
Definition s_int64 := [105;110;116;54;52].
Definition s_float32 := [102;108;111;97;116;51;50].
Definition s_uint32 := [117;105;110;116;51;50].
Definition s_int32 := [105;110;116;51;50].
Definition s_uint16 := [117;105;110;116;49;54].
Definition s_int16 := [105;110;116;49;54].
Definition s_uint8 := [117;105;110;116;56].
Definition s_int8 := [105;110;116;56].
Definition s_string := [115;116;114;105;110;103].
Definition s_true := [116;114;117;101].
Definition s_Message := [77;101;115;115;97;103;101].

(* fieldTypeFromGo *)
Definition ftype_from_go (s : list N) : option ftype :=
  if bytes_eqb s s_float64 then Some TDouble else
  if bytes_eqb s s_uint64 then Some TUint64 else
  if bytes_eqb s s_int64 then Some TInt64 else
  if bytes_eqb s s_float32 then Some TFloat else
  if bytes_eqb s s_uint32 then Some TUint32 else
  if bytes_eqb s s_int32 then Some TInt32 else
  if bytes_eqb s s_uint16 then Some TUint16 else
  if bytes_eqb s s_int16 then Some TInt16 else
  if bytes_eqb s s_uint8 then Some TUint8 else
  if bytes_eqb s s_int8 then Some TInt8 else
  if bytes_eqb s s_string then Some TChar else None.

(* fieldTypeString *)
Definition ftype_string (t : ftype) : list N :=
  match t with
  | TDouble => [100;111;117;98;108;101]
  | TUint64 => [117;105;110;116;54;52;95;116]
  | TInt64 => [105;110;116;54;52;95;116]
  | TFloat => [102;108;111;97;116]
  | TUint32 => [117;105;110;116;51;50;95;116]
  | TInt32 => [105;110;116;51;50;95;116]
  | TUint16 => [117;105;110;116;49;54;95;116]
  | TInt16 => [105;110;116;49;54;95;116]
  | TUint8 => [117;105;110;116;56;95;116]
  | TInt8 => [105;110;116;56;95;116]
  | TChar => [99;104;97;114]
  end.

Definition is_upper (b : N) : bool := (65 <=? b) && (b <=? 90).
Definition is_lower (b : N) : bool := (97 <=? b) && (b <=? 122).
Definition to_lower (b : N) : N := if is_upper b then b + 32 else b.
Definition to_upper (b : N) : N := if is_lower b then b - 32 else b.

(* regexp "([A-Z])" -> "_${1}" *)
Fixpoint under_caps (s : list N) : list N :=
  match s with
  | [] => []
  | b :: t => if is_upper b then 95 :: b :: under_caps t else b :: under_caps t
  end.
(* in[1:] panics on the empty string *)
Definition field_go_to_def (s : list N) : res (list N) :=
  match under_caps s with [] => Panic | _ :: t => Ok (map to_lower t) end.
Definition msg_go_to_def (s : list N) : res (list N) :=
  match under_caps s with [] => Panic | _ :: t => Ok (map to_upper t) end.

Fixpoint has_prefix (p s : list N) : bool :=
  match p, s with
  | [], _ => true
  | a :: p', b :: s' => (a =? b) && has_prefix p' s'
  | _, [] => false
  end.

(* strconv.Atoi on ASCII: optional sign, one or more digits (underscores not allowed in base
   10 by Atoi), value must fit int64 (range errors are errors) *)
Fixpoint digits_val (s : list N) (acc : N) : option N :=
  match s with
  | [] => Some acc
  | b :: t => if (48 <=? b) && (b <=? 57) then digits_val t (acc * 10 + (b - 48)) else None
  end.
Definition atoi (s : list N) : option Z :=
  let '(neg, d) := match s with
                   | 43 :: t => (false, t)
                   | 45 :: t => (true, t)
                   | _ => (false, s)
                   end in
  match d with
  | [] => None
  | _ => match digits_val d 0 with
         | None => None
         | Some n => if neg then (if n <=? 9223372036854775808 then Some (- Z.of_N n)%Z else None)
                     else (if n <=? 9223372036854775807 then Some (Z.of_N n) else None)
         end
  end.
Definition byte_of_Z (z : Z) : N := Z.to_N (z mod 256)%Z.

Definition err_init : N := 30.

Definition init_field (i : nat) (g : gofield) : res field :=
  let alen0 := if g_isarr g then u8 (g_arrlen g) else 0 in
  match g_tag_enum g with
  | _ :: _ =>
    if negb (g_kind_uint64 g) then Err err_init else
    match ftype_from_go (g_tag_enum g) with
    | None => Err err_init
    | Some t =>
      match t with
      | TUint8 | TInt8 | TUint16 | TUint32 | TInt32 | TUint64 =>
        match (match g_tag_name g with [] => field_go_to_def (g_name g) | n => Ok n end) with
        | Ok nm => Ok (mkField true t nm alen0 i (bytes_eqb (g_tag_ext g) s_true)
                               (g_isarr g) (N.to_nat (g_arrlen g)) (g_isarr g))
        | Err e => Err e | Panic => Panic
        end
      | _ => Err err_init
      end
    end
  | [] =>
    match ftype_from_go (g_tname g) with
    | None => Err err_init
    | Some t =>
      let alen_r :=
        if g_kind_string g then
          match g_tag_len g with
          | [] => Ok (1, false)
          | tl => match atoi tl with None => Err err_init | Some z => Ok (byte_of_Z z, true) end
          end
        else Ok (alen0, g_isarr g) in
      match alen_r with
      | Ok (alen, haslen) =>
        match (match g_tag_name g with [] => field_go_to_def (g_name g) | n => Ok n end) with
        | Ok nm => Ok (mkField false t nm alen i (bytes_eqb (g_tag_ext g) s_true)
                               (g_isarr g) (N.to_nat (g_arrlen g)) haslen)
        | Err e => Err e | Panic => Panic
        end
      | Err e => Err e | Panic => Panic
      end
    end
  end.

Fixpoint init_fields (i : nat) (gs : list gofield) : res (list field) :=
  match gs with
  | [] => Ok []
  | g :: t => rbind (init_field i g) (fun f => rbind (init_fields (S i) t) (fun r => Ok (f :: r)))
  end.

(* byte-wide size of a field, as the code computes it (wraps mod 256) *)
Definition field_size (f : field) : N :=
  let s := N.of_nat (ftype_size (fd_type f)) in
  if 0 <? fd_alen f then u8 (s * fd_alen f) else s.

(* comparator handed to sort.Slice *)
Definition field_less (a b : field) : bool :=
  if negb (fd_ext a) && negb (fd_ext b) && negb (Nat.eqb (ftype_size (fd_type a)) (ftype_size (fd_type b)))
  then Nat.ltb (ftype_size (fd_type b)) (ftype_size (fd_type a))
  else Nat.ltb (fd_index a) (fd_index b).

(* executable stand-in for sort.Slice: insertion sort (proved to return the unique
   less-sorted permutation when extensions follow base fields) *)
Fixpoint insert_by (less : field -> field -> bool) (x : field) (l : list field) : list field :=
  match l with
  | [] => [x]
  | y :: t => if less y x then y :: insert_by less x t else x :: l
  end.
Definition sort_fields (l : list field) : list field :=
  fold_right (insert_by field_less) [] l.

(* the CRC_EXTRA text *)
Definition crc_field_bytes (f : field) : list N :=
  ftype_string (fd_type f) ++ [32] ++ fd_name f ++ [32] ++
  (if (0 <? fd_alen f) && fd_haslen f then [fd_alen f] else []).
Definition crc_extra_of (msgname : list N) (sorted : list field) : N :=
  let txt := msgname ++ [32] ++ concat (map crc_field_bytes (filter (fun f => negb (fd_ext f)) sorted)) in
  let sum := x25_sum txt in
  u8 (N.lxor (N.land sum 255) (N.shiftr sum 8)).

Definition initialize (g : gostruct) : res codec :=
  if negb (has_prefix s_Message (gs_name g)) then Err err_init else
  rbind (msg_go_to_def (skipn 7 (gs_name g))) (fun msgname =>
  rbind (init_fields 0 (gs_fields g)) (fun fs =>
    let size_ext := fold_left (fun a f => u8 (a + field_size f)) fs 0 in
    let size_norm := fold_left (fun a f => if fd_ext f then a else u8 (a + field_size f)) fs 0 in
    let sorted := sort_fields fs in
    Ok (mkCodec sorted size_norm size_ext (crc_extra_of msgname sorted) (length fs)))).
