(* Model of pkg/frame: V1Frame / V2Frame, marshalTo, GenerateChecksum, GenerateSignature. *)
From GM Require Export Codec X25 Sha256.

Inductive msg := MRaw (id : N) (payload : list N) | MDec (id : N) (v : value).
Definition msg_id (m : msg) : N := match m with MRaw i _ => i | MDec i _ => i end.

Record frame := mkFrame {
  f_v2 : bool;
  f_inc : N; f_cmp : N;            (* v2 only *)
  f_seq : N; f_sys : N; f_comp : N;
  f_msg : msg;
  f_ck : N;
  f_link : N; f_ts : N;            (* v2 only *)
  f_sig : option (list N)          (* v2 only: *V2Signature, nil or 6 bytes *)
}.

Definition set_msg (f : frame) (m : msg) : frame :=
  mkFrame (f_v2 f) (f_inc f) (f_cmp f) (f_seq f) (f_sys f) (f_comp f) m (f_ck f) (f_link f) (f_ts f) (f_sig f).
Definition set_ck (f : frame) (c : N) : frame :=
  mkFrame (f_v2 f) (f_inc f) (f_cmp f) (f_seq f) (f_sys f) (f_comp f) (f_msg f) c (f_link f) (f_ts f) (f_sig f).
Definition set_sig (f : frame) (l t : N) (s : option (list N)) : frame :=
  mkFrame (f_v2 f) (f_inc f) (f_cmp f) (f_seq f) (f_sys f) (f_comp f) (f_msg f) (f_ck f) l t s.

Definition is_signed (f : frame) : bool := negb (N.land (f_inc f) 1 =? 0).

Definition err_v1_bigid : N := 10.

(* marshalTo(buf, msgEncoded): the bytes placed in the 512-byte buffer and handed to one
   ByteWriter.Write.  [p] is the raw payload. *)
Definition marshal (f : frame) (p : list N) : res (list N) :=
  if f_v2 f then
    let base := [253; u8 (nlen p); f_inc f; f_cmp f; f_seq f; f_sys f; f_comp f]
                ++ le_enc 3 (msg_id (f_msg f)) ++ p ++ le_enc 2 (f_ck f) in
    if is_signed f then
      match f_sig f with
      | None => Panic                                   (* f.Signature[:] on a nil pointer *)
      | Some s => Ok (base ++ [f_link f] ++ le_enc 6 (f_ts f) ++ s)
      end
    else Ok base
  else
    if 255 <? msg_id (f_msg f) then Err err_v1_bigid else
    Ok ([254; u8 (nlen p); f_seq f; f_sys f; f_comp f; u8 (msg_id (f_msg f))] ++ p ++ le_enc 2 (f_ck f)).

(* GenerateChecksum(crcExtra) on a frame holding a raw message *)
Definition checksum_input (f : frame) (id : N) (p : list N) (extra : N) : list N :=
  if f_v2 f then
    [u8 (nlen p); f_inc f; f_cmp f; f_seq f; f_sys f; f_comp f] ++ le_enc 3 id ++ p ++ [extra]
  else
    [u8 (nlen p); f_seq f; f_sys f; f_comp f; u8 id] ++ p ++ [extra].
Definition gen_checksum (f : frame) (id : N) (p : list N) (extra : N) : N :=
  x25_sum (checksum_input f id p extra).

(* GenerateSignature(key) *)
Definition signature_input (key : list N) (f : frame) (id : N) (p : list N) : list N :=
  key ++ [253; u8 (nlen p); f_inc f; f_cmp f; f_seq f; f_sys f; f_comp f] ++ le_enc 3 id ++ p
      ++ le_enc 2 (f_ck f) ++ [f_link f] ++ le_enc 6 (f_ts f).
Definition gen_signature (key : list N) (f : frame) (id : N) (p : list N) : list N :=
  firstn 6 (sha256 (signature_input key f id p)).
