(* C15: the ownership policy checked against the field-access table regenerated from /repo. *)
From Coq Require Export String List Bool PeanoNat.
Export ListNotations.
Local Open Scope string_scope.

(* one selection of a field of a package struct *)
Record arow := mkRow {
  r_struct : string; r_field : string;
  r_fn : string;            (* enclosing function (or go-literal root) *)
  r_kind : string;          (* "R", "W" or "M:<method called on the pointee>" *)
  r_lock : string;          (* mutex field lexically held, "" if none *)
  r_tkind : string;         (* kind of the field's type *)
  r_line : nat;             (* source line, only for rows inside Node.Initialize *)
  r_roots : list string     (* goroutine roots whose static call graph reaches r_fn *)
}.

Inductive pclass :=
| InitOnly                                  (* written only during initialisation, before the first spawn *)
| PreHandOver (f root : string)             (* written only inside f, run by goroutine [root] before the object is handed over *)
| Confined (root : string)                  (* every access by the one goroutine [root] (initialisation writes allowed) *)
| Locked (m : string)                       (* every access with mutex m held (initialisation writes allowed) *)
| OwnerTransfer (o1 o2 selfn callee chanf : string)
    (* owned by o1 until handed to o2 by a send on chanf in selfn; o1 touches it afterwards only in
       callee, called from selfn in the select alternative where the send did not happen *)
| ValueOnly.                                (* never written through a selector (passed by value / built by a literal) *)

Definition is_w (r : arow) : bool := r_kind r =? "W".
Definition is_rw (r : arow) : bool := (r_kind r =? "R") || (r_kind r =? "W").
Definition mem (s : string) (l : list string) : bool := existsb (String.eqb s) l.
Definition subset (a b : list string) : bool := forallb (fun x => mem x b) a.
Definition roots_are (r : arow) (l : list string) : bool := negb (match r_roots r with [] => true | _ => false end) && subset (r_roots r) l.

Section Check.
  Variable first_spawn : nat.
  Variable post_spawn : list string.
  Variable calls : list (string * string).
  Variable fn_roots : list (string * list string).
  Variable select_alts : list (string * string * string).

  (* an access of the initialisation phase: reached only from Initialize, before anything is spawned *)
  Definition init_phase (r : arow) : bool :=
    roots_are r ["init"] && negb (mem (r_fn r) post_spawn) &&
    (if r_fn r =? "Node.Initialize" then Nat.ltb (r_line r) first_spawn else true).

  Definition roots_of (f : string) : list string :=
    match find (fun p => fst p =? f) fn_roots with Some p => snd p | None => [] end.

  Definition row_ok (c : pclass) (r : arow) : bool :=
    if negb (is_rw r) then true else
    match c with
    | InitOnly => if is_w r then init_phase r else true
    | PreHandOver f root => if is_w r then (r_fn r =? f) && roots_are r [root] else true
    | Confined root => negb (root =? "api") && (init_phase r || roots_are r [root])
    | Locked m => negb (m =? "") && (init_phase r || (r_lock r =? m))
    | OwnerTransfer o1 o2 selfn callee chanf =>
      negb (o2 =? "api") &&
      (roots_are r [o2] || ((r_fn r =? callee) && roots_are r [o1; o2] && negb (is_w r)))
    | ValueOnly => negb (is_w r)
    end.

  (* side conditions of a class that are about the whole program *)
  Definition class_ok (c : pclass) : bool :=
    match c with
    | PreHandOver f root =>
      (* f is called only by functions that only [root] runs *)
      forallb (fun e => if snd e =? f then subset (roots_of (fst e)) [root] && negb (match roots_of (fst e) with [] => true | _ => false end) else true) calls
    | OwnerTransfer o1 o2 selfn callee chanf =>
      existsb (fun t => (fst (fst t) =? selfn) && (snd (fst t) =? callee) && (snd t =? chanf)) select_alts &&
      (* every caller of callee that o1 can run is selfn *)
      forallb (fun e => if (snd e =? callee) && mem o1 (roots_of (fst e)) then fst e =? selfn else true) calls
    | _ => true
    end.

  (* methods called on the object a field points to *)
  Definition mrow_ok (mp : option (list (string * string))) (r : arow) : bool :=
    match mp with
    | None => true
    | Some l =>
      if String.prefix "M:" (r_kind r) then
        match find (fun p => ("M:" ++ fst p) =? r_kind r) l with
        | Some p => roots_are r [snd p] && negb (snd p =? "api")
        | None => false
        end
      else true
    end.

  Variable policy : string -> string -> pclass.
  Variable mpolicy : string -> string -> option (list (string * string)).

  Definition check_row (r : arow) : bool :=
    row_ok (policy (r_struct r) (r_field r)) r && class_ok (policy (r_struct r) (r_field r)) &&
    mrow_ok (mpolicy (r_struct r) (r_field r)) r.
  Definition check_policy (rows : list arow) : bool := forallb check_row rows.

  (* what the check establishes about two conflicting accesses of one field *)
  Definition same_loc (a b : arow) : bool := (r_struct a =? r_struct b) && (r_field a =? r_field b).
  Definition conflicting (a b : arow) : bool := is_rw a && is_rw b && (is_w a || is_w b).
End Check.
