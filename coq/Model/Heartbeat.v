(* Model of node_heartbeat.go and node_stream_request.go. *)
From GM Require Export Reader.

Record hbcfg := mkHbCfg {
  hb_disable : bool;
  hb_has_dialect : bool;
  hb_msg0_crc : option N;      (* CRC_EXTRA of the dialect's message with id 0, if any *)
  hb_systype : N; hb_autopilot : N; hb_version : N
}.

Definition heartbeat_crc : N := 50.
Definition rds_crc : N := 148.

(* nodeHeartbeat.initialize does not return errSkip *)
Definition hb_enabled (c : hbcfg) : bool :=
  negb (hb_disable c) && hb_has_dialect c &&
  match hb_msg0_crc c with Some x => x =? heartbeat_crc | None => false end.

(* Node.Initialize defaults: system type 0 -> 6 (GCS) *)
Definition eff_systype (t : N) : N := if t =? 0 then 6 else t.

(* the heartbeat message: Type, Autopilot, BaseMode, CustomMode, SystemStatus, MavlinkVersion *)
Definition hb_message (c : hbcfg) : value :=
  [VU (eff_systype (hb_systype c)); VU (hb_autopilot c); VU 0; VU 0; VU 4; VU (hb_version c)].

(* ---- stream requests ---- *)
Record srcfg := mkSrCfg {
  sr_enable : bool; sr_has_dialect : bool;
  sr_msg0_crc : option N; sr_msg66_crc : option N;
  sr_freq : N
}.
Definition sr_enabled (c : srcfg) : bool :=
  sr_enable c && sr_has_dialect c &&
  match sr_msg0_crc c with Some x => x =? heartbeat_crc | None => false end &&
  match sr_msg66_crc c with Some x => x =? rds_crc | None => false end.
Definition eff_freq (f : N) : N := if f =? 0 then 4 else f.

Definition srkey := (N * N * N)%type.       (* channel, system id, component id *)
Definition key_eqb (a b : srkey) : bool :=
  (fst (fst a) =? fst (fst b)) && (snd (fst a) =? snd (fst b)) && (snd a =? snd b).
Definition srstate := list (srkey * N).      (* lastRequests: key -> time (seconds) *)

Fixpoint sr_lookup (s : srstate) (k : srkey) : option N :=
  match s with [] => None | (k', t) :: r => if key_eqb k' k then Some t else sr_lookup r k end.
Fixpoint sr_set (s : srstate) (k : srkey) (t : N) : srstate :=
  match s with
  | [] => [(k, t)]
  | (k', t') :: r => if key_eqb k' k then (k, t) :: r else (k', t') :: sr_set r k t
  end.

Definition sr_period : N := 30.

(* onEventFrame for a frame that is a heartbeat (id 0) whose Autopilot field is [ap], arriving at
   time [now] from key [k]: new state and whether the seven requests (and the event) are emitted *)
Definition sr_on_heartbeat (s : srstate) (now : N) (k : srkey) (ap : N) : srstate * bool :=
  if negb (ap =? 3) then (s, false) else
  match sr_lookup s k with
  | None => (sr_set s k now, true)
  | Some t => if sr_period <=? now - t then (sr_set s k now, true) else (s, false)
  end.

(* the cleaner goroutine's tick *)
Definition sr_cleanup (s : srstate) (now : N) : srstate :=
  filter (fun e => negb (sr_period <=? now - snd e)) s.

Definition sr_streams : list N := [1; 2; 3; 6; 10; 11; 12].
(* REQUEST_DATA_STREAM in declaration order: TargetSystem, TargetComponent, ReqStreamId,
   ReqMessageRate, StartStop *)
Definition sr_requests (freq sys comp : N) : list value :=
  map (fun st => [VU sys; VU comp; VU st; VU (eff_freq freq); VU 1]) sr_streams.

(* a history of heartbeats and cleaner ticks *)
Inductive srop := SrHb (now : N) (k : srkey) (ap : N) | SrTick (now : N).
Fixpoint sr_run (s : srstate) (ops : list srop) : list (N * srkey) :=   (* (time, key) of every request burst *)
  match ops with
  | [] => []
  | SrHb now k ap :: t =>
    let '(s', rq) := sr_on_heartbeat s now k ap in
    if rq then (now, k) :: sr_run s' t else sr_run s' t
  | SrTick now :: t => sr_run (sr_cleanup s now) t
  end.

(* ---- observable behaviour ---- *)
(* the ticker: one WriteMessageAll(hb_message) per tick when the module is enabled *)
Definition hb_ticks (c : hbcfg) (ticks : nat) : list value :=
  if hb_enabled c then repeat (hb_message c) ticks else [].

(* CRC_EXTRA of the first message of the dialect with the given id *)
Definition first_crc (id : N) (d : list (N * codec)) : option N :=
  match find (fun p => fst p =? id) d with Some p => Some (c_crc (snd p)) | None => None end.
Definition hbcfg_of (disable : bool) (d : option (list (N * codec))) (systype ap ver : N) : hbcfg :=
  mkHbCfg disable (match d with Some _ => true | None => false end)
          (match d with Some l => first_crc 0 l | None => None end) systype ap ver.
Definition srcfg_of (enable : bool) (d : option (list (N * codec))) (freq : N) : srcfg :=
  mkSrCfg enable (match d with Some _ => true | None => false end)
          (match d with Some l => first_crc 0 l | None => None end)
          (match d with Some l => first_crc 66 l | None => None end) freq.

(* what arrives at the node's channels: heartbeats, other frames, cleaner ticks *)
Inductive srin := InHb (now : N) (k : srkey) (ap : N) | InOther (ch : N) | InTick (now : N).
(* what the node does, in order: a request burst (seven writes to the channel + one event), then the frame event *)
Inductive srobs := ObsReq (k : srkey) | ObsFrame (ch : N).
Definition key_chan (k : srkey) : N := fst (fst k).

Fixpoint sr_trace (en : bool) (s : srstate) (ops : list srin) : list srobs :=
  match ops with
  | [] => []
  | InHb now k ap :: t =>
    if en then
      let '(s', rq) := sr_on_heartbeat s now k ap in
      (if rq then [ObsReq k] else []) ++ ObsFrame (key_chan k) :: sr_trace en s' t
    else ObsFrame (key_chan k) :: sr_trace en s t
  | InOther ch :: t => ObsFrame ch :: sr_trace en s t
  | InTick now :: t => sr_trace en (if en then sr_cleanup s now else s) t
  end.

(* projections on one channel: the messages written to it, and its event sequence *)
Definition sr_wire (freq : N) (c : N) (tr : list srobs) : list value :=
  flat_map (fun o => match o with
                     | ObsReq k => if key_chan k =? c then sr_requests freq (snd (fst k)) (snd k) else []
                     | ObsFrame _ => [] end) tr.
Inductive srev := EvReq (sys comp : N) | EvFrame.
Definition sr_events (c : N) (tr : list srobs) : list srev :=
  flat_map (fun o => match o with
                     | ObsReq k => if key_chan k =? c then [EvReq (snd (fst k)) (snd k)] else []
                     | ObsFrame ch => if ch =? c then [EvFrame] else [] end) tr.
Definition sr_observe (cfg : srcfg) (c : N) (ops : list srin) : list value * list srev :=
  let tr := sr_trace (sr_enabled cfg) [] ops in (sr_wire (sr_freq cfg) c tr, sr_events c tr).
