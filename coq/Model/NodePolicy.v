(* C15: the ownership policy of package gomavlib's shared state (hand-written, reviewed part). *)
From GM Require Export Policy.
Local Open Scope string_scope.

Definition g_loop := "go:Node.run".
Definition g_prov := "go:channelProvider.run".
Definition g_reader := "go:lit:Channel.runReader".
Definition g_writer := "go:lit:Channel.runWriter".

Definition node_policy (s f : string) : pclass :=
  if (s =? "Node") && (f =? "channels") then Confined g_loop                     (* node.go: only the loop touches the channel set *)
  else if (s =? "Channel") && (f =? "running") then
    OwnerTransfer g_prov g_loop "Node.newChannel" "Channel.close" "chNewChannel"   (* channel.go: set by the loop after the hand-over *)
  else if (s =? "nodeStreamRequest") && (f =? "lastRequests") then Locked "lastRequestsMutex"
  else if ((s =? "endpointClient") || (s =? "endpointSerial")) && (f =? "first") then Confined g_prov
  else if s =? "Channel" then PreHandOver "Channel.initialize" g_prov               (* filled in before newChannel() *)
  else InitOnly.

(* objects whose methods carry per-goroutine state: reader state / writer state / sequence numbers *)
Definition node_mpolicy (s f : string) : option (list (string * string)) :=
  if (s =? "Channel") && (f =? "frameWriter") then Some [("Read", g_reader); ("Write", g_writer); ("Initialize", g_prov)]
  else if (s =? "Channel") && (f =? "streamWriter") then Some [("Write", g_writer); ("Initialize", g_prov)]
  else None.
