(* Model of frame.Reader.Read (pkg/frame/reader.go, v1_frame.go, v2_frame.go unmarshal). *)
From GM Require Export Frame Stream.

(* a dialect: association list id -> codec (first match wins; Initialize rejects duplicates) *)
Definition dialect := list (N * codec).
Fixpoint dlookup (d : dialect) (id : N) : option codec :=
  match d with [] => None | (i, c) :: t => if i =? id then Some c else dlookup t id end.

Record rcfg := mkRcfg { r_dialect : option dialect; r_inkey : option (list N) }.
Record rstate := mkRstate { r_cur_ts : N }.

Inductive rresult := RFrame (f : frame) | RParse (code : N) | RTransport (e : N).

Definition pe_magic : N := 1.
Definition pe_unmarshal : N := 2.
Definition pe_not_v2 : N := 3.
Definition pe_no_sig : N := 4.
Definition pe_wrong_sig : N := 5.
Definition pe_too_old : N := 6.
Definition pe_checksum : N := 7.
Definition pe_decode : N := 8.
Definition pe_panic : N := 99.

Definition empty_frame (v2 : bool) : frame :=
  mkFrame v2 0 0 0 0 0 (MRaw 0 []) 0 0 0 None.

(* The reader is written once over an abstract buffered stream given by its three
   primitives, and instantiated with the chunked bufio model (the code) and, in
   Spec/FlatStream.v, with the flat item sequence (the specification of "splitting does
   not matter"). *)
Section Unmarshal.
Variable S : Type.
Variable rb : S -> res N * S.                       (* ReadByte *)
Variable pd : nat -> S -> res (list N) * S.         (* peekAndDiscard *)
Variable rf : nat -> S -> res (list N) * S.         (* io.ReadFull *)

(* read the payload: msgLen > 0 -> io.ReadFull, else nil *)
Definition g_read_payload (n : nat) (s : S) : res (list N) * S :=
  match n with O => (Ok [], s) | _ => rf n s end.

Definition g_unmarshal_v1 (s : S) : res frame * S :=
  match pd 5 s with
  | (Ok [len; sq; sy; co; id], s1) =>
    match g_read_payload (N.to_nat len) s1 with
    | (Ok p, s2) =>
      match pd 2 s2 with
      | (Ok ck, s3) => (Ok (mkFrame false 0 0 sq sy co (MRaw id p) (le_dec ck) 0 0 None), s3)
      | (Err e, s3) => (Err e, s3) | (Panic, s3) => (Panic, s3)
      end
    | (Err e, s2) => (Err e, s2) | (Panic, s2) => (Panic, s2)
    end
  | (Ok _, s1) => (Panic, s1)
  | (Err e, s1) => (Err e, s1) | (Panic, s1) => (Panic, s1)
  end.

Definition g_unmarshal_v2 (s : S) : res frame * S :=
  match pd 9 s with
  | (Ok [len; inc; cm; sq; sy; co; i0; i1; i2], s1) =>
    if negb (inc =? 0) && negb (inc =? 1) then (Err 2, s1) else
    match g_read_payload (N.to_nat len) s1 with
    | (Ok p, s2) =>
      match pd 2 s2 with
      | (Ok ck, s3) =>
        let f := mkFrame true inc cm sq sy co (MRaw (le_dec [i0; i1; i2]) p) (le_dec ck) 0 0 None in
        if is_signed f then
          match pd 13 s3 with
          | (Ok sg, s4) => (Ok (set_sig f (hd 0 sg) (le_dec (firstn 6 (skipn 1 sg))) (Some (skipn 7 sg))), s4)
          | (Err e, s4) => (Err e, s4) | (Panic, s4) => (Panic, s4)
          end
        else (Ok f, s3)
      | (Err e, s3) => (Err e, s3) | (Panic, s3) => (Panic, s3)
      end
    | (Err e, s2) => (Err e, s2) | (Panic, s2) => (Panic, s2)
    end
  | (Ok _, s1) => (Panic, s1)
  | (Err e, s1) => (Err e, s1) | (Panic, s1) => (Panic, s1)
  end.
End Unmarshal.

Definition raw_of (f : frame) : N * list N :=
  match f_msg f with MRaw i p => (i, p) | MDec i _ => (i, []) end.

Definition window : N := 1000000.

(* the replay window on the newest accepted timestamp [cur] (0 = none yet) *)
Definition window_refuse (cur ts : N) : bool := (0 <? cur) && (ts + window <? cur).
Definition window_update (cur ts : N) : N := if cur <? ts then ts else cur.

(* the InKey block of Reader.Read *)
Definition check_key (key : list N) (st : rstate) (f : frame) : option N * rstate :=
  if negb (f_v2 f) then (Some pe_not_v2, st) else
  match f_sig f with
  | None => (Some pe_no_sig, st)
  | Some sg =>
    let '(id, p) := raw_of f in
    if negb (bytes_eqb (gen_signature key f id p) sg) then (Some pe_wrong_sig, st) else
    let cur := r_cur_ts st in
    if window_refuse cur (f_ts f) then (Some pe_too_old, st) else
    (None, mkRstate (window_update cur (f_ts f)))
  end.

(* the DialectRW block of Reader.Read: checksum gate, decode, and — when the received payload
   is not the canonical encoding of the decoded message — the checksum of the canonical one *)
Definition check_dialect (d : dialect) (f : frame) : rresult :=
  let '(id, p) := raw_of f in
  match dlookup d id with
  | None => RFrame f
  | Some c =>
    if negb (gen_checksum f id p (c_crc c) =? f_ck f) then RParse pe_checksum else
    match msg_read c (f_v2 f) p with
    | Err _ => RParse pe_decode
    | Panic => RParse pe_panic
    | Ok v =>
      match msg_write c (f_v2 f) v with
      | Ok p' =>
        if bytes_eqb p' p then RFrame (set_msg f (MDec id v))
        else RFrame (set_msg (set_ck f (gen_checksum f id p' (c_crc c))) (MDec id v))
      | _ => RParse pe_panic
      end
    end
  end.

Section Read.
Variable S : Type.
Variable rb : S -> res N * S.
Variable pd : nat -> S -> res (list N) * S.
Variable rf : nat -> S -> res (list N) * S.

Definition g_reader_read (cfg : rcfg) (st : rstate) (s : S) : rresult * rstate * S :=
  match rb s with
  | (Err e, s1) => (RTransport e, st, s1)
  | (Panic, s1) => (RParse pe_panic, st, s1)
  | (Ok magic, s1) =>
    let um := if magic =? 254 then Some (g_unmarshal_v1 S pd rf s1)
              else if magic =? 253 then Some (g_unmarshal_v2 S pd rf s1) else None in
    match um with
    | None => (RParse pe_magic, st, s1)
    | Some (Err _, s2) => (RParse pe_unmarshal, st, s2)
    | Some (Panic, s2) => (RParse pe_panic, st, s2)
    | Some (Ok f, s2) =>
      let '(kerr, st') := match r_inkey cfg with
                          | None => (None, st)
                          | Some k => check_key k st f
                          end in
      match kerr with
      | Some code => (RParse code, st', s2)
      | None =>
        match r_dialect cfg with
        | None => (RFrame f, st', s2)
        | Some d => (check_dialect d f, st', s2)
        end
      end
    end
  end.
End Read.

Definition unmarshal_v1 := g_unmarshal_v1 stream peek_discard read_full.
Definition unmarshal_v2 := g_unmarshal_v2 stream peek_discard read_full.
Definition reader_read := g_reader_read stream read_byte peek_discard read_full.

(* read until the transport is exhausted; fuel = stream_left + 1 suffices (C05) *)
Fixpoint read_all (fuel : nat) (cfg : rcfg) (st : rstate) (s : stream) : list rresult :=
  match fuel with
  | O => []
  | S k =>
    let '(r, st', s') := reader_read cfg st s in
    match r with
    | RTransport e => if (e =? e_eof) && Nat.eqb (stream_left s') 0 then [r]
                      else r :: read_all k cfg st' s'
    | _ => r :: read_all k cfg st' s'
    end
  end.

(* as read_all, also reporting how many stream items (bytes and faults) each call consumed *)
Fixpoint read_all_c (fuel : nat) (cfg : rcfg) (st : rstate) (s : stream) : list (rresult * nat) :=
  match fuel with
  | O => []
  | S k =>
    let '(r, st', s') := reader_read cfg st s in
    let c := (stream_left s - stream_left s')%nat in
    match r with
    | RTransport e => if (e =? e_eof) && Nat.eqb (stream_left s') 0 then [(r, c)]
                      else (r, c) :: read_all_c k cfg st' s'
    | _ => (r, c) :: read_all_c k cfg st' s'
    end
  end.
