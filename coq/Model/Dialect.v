(* Model of dialect.ReadWriter.Initialize / GetMessage (pkg/dialect/readwriter.go).
   The Go map is an association list; Initialize rejects duplicates so lookup is unambiguous. *)
From GM Require Export Reader Layout.

Definition err_duplicate : N := 40.

Fixpoint dialect_init_aux (msgs : list (N * gostruct)) (acc : dialect) : res dialect :=
  match msgs with
  | [] => Ok acc
  | (id, g) :: t =>
    match dlookup acc id with
    | Some _ => Err err_duplicate
    | None => match initialize g with
              | Ok c => dialect_init_aux t ((id, c) :: acc)
              | Err e => Err e
              | Panic => Panic
              end
    end
  end.
Definition dialect_init (msgs : list (N * gostruct)) : res dialect := dialect_init_aux msgs [].
