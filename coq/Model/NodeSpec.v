(* Executable acceptance predicates evaluated on what the scenario harness observed on the wires
   of a real node; each is the decidable form of a property proved of every execution of the
   node LTS (Proofs/NodeQueues.v). *)
From Coq Require Import List NArith Bool.
Import ListNotations.

Fixpoint sublist_b (a b : list N) : bool :=
  match a, b with
  | [], _ => true
  | _ :: _, [] => false
  | x :: a', y :: b' => if N.eqb x y then sublist_b a' b' else sublist_b a b'
  end.

Fixpoint list_eqb_nat (a b : list N) : bool :=
  match a, b with
  | [], [] => true
  | x :: a', y :: b' => N.eqb x y && list_eqb_nat a' b'
  | _, _ => false
  end.

Definition mem (x : N) (l : list N) : bool := existsb (N.eqb x) l.

(* no overflow: the wire is an interleaving of the per-submitter expected sequences: restricted
   to any submitter it is exactly that submitter's sequence, and it holds nothing else *)
Definition fan_ok (expected : list (list N)) (obs : list N) : bool :=
  forallb (fun e => list_eqb_nat (filter (fun x => mem x e) obs) e) expected &&
  forallb (fun x => existsb (mem x) expected) obs.

(* overflow allowed: restricted to any submitter the wire is a subsequence of its sequence
   (order kept, nothing duplicated), and it holds nothing else *)
Definition fan_sub_ok (expected : list (list N)) (obs : list N) : bool :=
  forallb (fun e => sublist_b (filter (fun x => mem x e) obs) e) expected &&
  forallb (fun x => existsb (mem x) expected) obs.
