(* Types of the tables regenerated from /repo (coq/gen/*.v) and string helpers. *)
From Coq Require Export String Ascii.
From GM Require Export Layout.

Definition b (s : string) : list N := map N_of_ascii (list_ascii_of_string s).

Record gstruct := mkGS { gs_pkg : string; gs_tname : string; gs_gofields : list gofield }.

Definition gf (name : string) (isarr : bool) (arrlen : N) (tname : string) (ku64 kstr : bool)
              (te tl tx tn : string) : gofield :=
  mkGoField (b name) isarr arrlen (b tname) ku64 kstr (b te) (b tl) (b tx) (b tn).

Definition to_gostruct (g : gstruct) : gostruct := mkGoStruct (b (gs_tname g)) (gs_gofields g).

Record gdialect := mkGD { gd_name : string; gd_version : N; gd_msgs : list (N * nat) }.

Record genum := mkGE {
  ge_pkg : string; ge_name : string; ge_bitmask : bool; ge_bound : N;
  ge_consts : list (string * N);
  ge_labels : list (N * string);      (* labels_X : value -> name *)
  ge_values : list (string * N)       (* values_X : name -> value *)
}.
