(* C03: the order sort.Slice must produce is unique and is the MAVLink order. *)
From Coq Require Import Lia PeanoNat Sorting.Permutation Sorting.Sorted.
From GM Require Import Bytes Result Codec Layout.
Local Open Scope nat_scope.

Definition fsize (f : field) : nat := ftype_size (fd_type f).
Definition is_base (f : field) : bool := negb (fd_ext f).

(* MAVLink order, by filtering: base fields of size 8, 4, 2, 1 (declaration order inside each
   class), then the extension fields in declaration order *)
Definition spec_order_f (fs : list field) : list field :=
  concat (map (fun s => filter (fun f => is_base f && Nat.eqb (fsize f) s) fs) [8; 4; 2; 1])
  ++ filter fd_ext fs.

(* declaration order: every later field has a larger index *)
Fixpoint decl_order (fs : list field) : Prop :=
  match fs with
  | [] => True
  | x :: t => Forall (fun y => fd_index x < fd_index y) t /\ decl_order t
  end.
(* the library's documented requirement: extension fields are declared after base fields *)
Fixpoint ext_after_base (fs : list field) : Prop :=
  match fs with
  | [] => True
  | x :: t => (fd_ext x = true -> Forall (fun y => fd_ext y = true) t) /\ ext_after_base t
  end.

Lemma insert_skip x : forall A R, Forall (fun y => field_less y x = true) A ->
  insert_by field_less x (A ++ R) = A ++ insert_by field_less x R.
Proof.
  induction A as [|y A IH]; intros R H; [reflexivity|].
  inversion H; subst. cbn [app insert_by]. rewrite H2. f_equal. apply IH. assumption.
Qed.
Lemma insert_stop x R : Forall (fun y => field_less y x = false) R ->
  insert_by field_less x R = x :: R.
Proof. destruct R as [|y R]; intros H; [reflexivity|]. inversion H; subst. cbn. rewrite H2. reflexivity. Qed.

Lemma Forall_filter {A} (P : A -> bool) (Q : A -> Prop) l :
  (forall y, In y l -> P y = true -> Q y) -> Forall Q (filter P l).
Proof.
  intros H. apply Forall_forall. intros y Hy. apply filter_In in Hy. destruct Hy. auto.
Qed.

Lemma fsize_cases f : fsize f = 8 \/ fsize f = 4 \/ fsize f = 2 \/ fsize f = 1.
Proof. unfold fsize. destruct (fd_type f); cbn; auto. Qed.

Lemma filter_nil_all {A} (P : A -> bool) l : (forall y, In y l -> P y = false) -> filter P l = [].
Proof.
  induction l as [|a l IH]; intros H; [reflexivity|]. cbn. rewrite (H a (or_introl eq_refl)).
  apply IH. intros y Hy. apply H. right. exact Hy.
Qed.

Lemma filter_ext_all l : Forall (fun y => fd_ext y = true) l -> filter fd_ext l = l.
Proof. induction l as [|a l IH]; intros H; [reflexivity|]. inversion H; subst. cbn. rewrite H2. f_equal. auto. Qed.

Lemma insert_into_spec x l :
  Forall (fun y => fd_index x < fd_index y) l ->
  (fd_ext x = true -> Forall (fun y => fd_ext y = true) l) ->
  insert_by field_less x (spec_order_f l) = spec_order_f (x :: l).
Proof.
  intros Hidx Hext. rewrite Forall_forall in Hidx.
  assert (NoLess : forall y, In y l -> fd_ext y = true \/ fd_ext x = true \/ fsize y <= fsize x -> field_less y x = false).
  { intros y Hy C. unfold field_less. fold (fsize y) (fsize x).
    specialize (Hidx y Hy).
    destruct (fd_ext y) eqn:Ey; cbn [negb andb]; [apply Nat.ltb_ge; lia|].
    destruct (fd_ext x) eqn:Ex; cbn [negb andb]; [apply Nat.ltb_ge; lia|].
    destruct (Nat.eqb (fsize y) (fsize x)) eqn:Es; cbn [negb]; [apply Nat.ltb_ge; lia|].
    apply Nat.eqb_neq in Es. apply Nat.ltb_ge. destruct C as [C|[C|C]]; try discriminate. lia. }
  assert (Less : forall y, In y l -> fd_ext y = false -> fd_ext x = false -> fsize x < fsize y -> field_less y x = true).
  { intros y Hy Ey Ex C. unfold field_less. fold (fsize y) (fsize x). rewrite Ey, Ex. cbn [negb andb].
    destruct (Nat.eqb (fsize y) (fsize x)) eqn:Es; [apply Nat.eqb_eq in Es; lia|]. cbn [negb]. apply Nat.ltb_lt. exact C. }
  unfold spec_order_f. cbn [map concat filter]. rewrite app_nil_r.
  destruct (fd_ext x) eqn:Ex.
  - (* x is an extension: everything after it is one too *)
    specialize (Hext eq_refl). unfold is_base. rewrite Ex. cbn [negb andb].
    assert (Hn : forall s, filter (fun f => negb (fd_ext f) && Nat.eqb (fsize f) s) l = []).
    { intros s. apply filter_nil_all. intros y Hy. rewrite Forall_forall in Hext. rewrite (Hext y Hy). reflexivity. }
    rewrite !Hn. cbn [app]. apply insert_stop. apply Forall_filter. intros y Hy _. apply NoLess; auto.
  - unfold is_base. rewrite Ex. cbn [negb andb].
    set (A8 := filter (fun f => negb (fd_ext f) && Nat.eqb (fsize f) 8) l).
    set (A4 := filter (fun f => negb (fd_ext f) && Nat.eqb (fsize f) 4) l).
    set (A2 := filter (fun f => negb (fd_ext f) && Nat.eqb (fsize f) 2) l).
    set (A1 := filter (fun f => negb (fd_ext f) && Nat.eqb (fsize f) 1) l).
    set (E := filter fd_ext l).
    assert (HA : forall s, Forall (fun y => In y l /\ fd_ext y = false /\ fsize y = s)
                                  (filter (fun f => negb (fd_ext f) && Nat.eqb (fsize f) s) l)).
    { intros s. apply Forall_filter. intros y Hy P. apply andb_prop in P. destruct P as [P1 P2].
      apply Nat.eqb_eq in P2. destruct (fd_ext y); [discriminate|auto]. }
    assert (HE : Forall (fun y => In y l /\ fd_ext y = true) E).
    { apply Forall_filter. auto. }
    assert (Skip : forall s, fsize x < s -> Forall (fun y => field_less y x = true)
                                  (filter (fun f => negb (fd_ext f) && Nat.eqb (fsize f) s) l)).
    { intros s Hs. eapply Forall_impl; [|apply HA]. intros y (Hy & Ey & Sy). apply Less; auto. lia. }
    assert (Stop : forall s, s <= fsize x -> Forall (fun y => field_less y x = false)
                                  (filter (fun f => negb (fd_ext f) && Nat.eqb (fsize f) s) l)).
    { intros s Hs. eapply Forall_impl; [|apply HA]. intros y (Hy & Ey & Sy). apply NoLess; auto. right. right. lia. }
    assert (StopE : Forall (fun y => field_less y x = false) E).
    { eapply Forall_impl; [|apply HE]. intros y (Hy & Ey). apply NoLess; auto. }
    destruct (fsize_cases x) as [S|[S|[S|S]]]; rewrite S in *; cbn [Nat.eqb];
      fold A8 A4 A2 A1 E; rewrite ?app_nil_r, <- ?app_assoc; cbn [app]; rewrite <- ?app_assoc.
    + apply insert_stop.
      repeat (apply Forall_app; split); auto; apply Stop; lia.
    + rewrite insert_skip by (apply Skip; lia). cbn [app]. f_equal.
      apply insert_stop. repeat (apply Forall_app; split); auto; apply Stop; lia.
    + rewrite insert_skip by (apply Skip; lia). rewrite insert_skip by (apply Skip; lia).
      cbn [app]. do 2 f_equal. apply insert_stop. repeat (apply Forall_app; split); auto; apply Stop; lia.
    + rewrite insert_skip by (apply Skip; lia). rewrite insert_skip by (apply Skip; lia).
      rewrite insert_skip by (apply Skip; lia).
      cbn [app]. do 3 f_equal. apply insert_stop. repeat (apply Forall_app; split); auto; apply Stop; lia.
Qed.

(* the executable sort computes the MAVLink order *)
Theorem sort_is_spec_order : forall fs, decl_order fs -> ext_after_base fs ->
  sort_fields fs = spec_order_f fs.
Proof.
  induction fs as [|x l IH]; intros D E; [reflexivity|].
  cbn [decl_order ext_after_base] in D, E. destruct D as [D1 D2]. destruct E as [E1 E2].
  unfold sort_fields in *. cbn [fold_right]. rewrite IH by assumption.
  apply insert_into_spec; assumption.
Qed.

(* ---- sort.Slice as an oracle: ANY permutation that is sorted for the comparator ---- *)
(* what sort.Slice guarantees of its result x: for i < j, not less(x[j], x[i]) *)
Definition R (a b : field) : Prop := field_less b a = false.

Lemma less_total a b : fd_index a <> fd_index b -> field_less a b = true \/ field_less b a = true.
Proof.
  intros H. unfold field_less. fold (fsize a) (fsize b).
  destruct (negb (fd_ext a) && negb (fd_ext b)) eqn:B1.
  - rewrite andb_comm in B1. rewrite B1. cbn [andb].
    destruct (Nat.eqb (fsize a) (fsize b)) eqn:E1.
    + apply Nat.eqb_eq in E1. rewrite E1, Nat.eqb_refl. cbn [negb].
      destruct (Nat.ltb_spec (fd_index a) (fd_index b)); [left; reflexivity|right; apply Nat.ltb_lt; lia].
    + apply Nat.eqb_neq in E1. assert (E2 : Nat.eqb (fsize b) (fsize a) = false) by (apply Nat.eqb_neq; lia).
      rewrite E2. cbn [negb].
      destruct (Nat.ltb_spec (fsize b) (fsize a)); [left; reflexivity|right; apply Nat.ltb_lt; lia].
  - rewrite andb_comm in B1. rewrite B1. cbn [andb].
    destruct (Nat.ltb_spec (fd_index a) (fd_index b)); [left; reflexivity|right; apply Nat.ltb_lt; lia].
Qed.

Theorem sorted_perm_unique : forall l1 l2,
  NoDup (map fd_index l1) -> Permutation l1 l2 ->
  StronglySorted R l1 -> StronglySorted R l2 -> l1 = l2.
Proof.
  induction l1 as [|a t1 IH]; intros l2 ND P S1 S2.
  - apply Permutation_nil in P. subst. reflexivity.
  - destruct l2 as [|b t2]; [apply Permutation_sym, Permutation_nil in P; discriminate|].
    inversion S1 as [|? ? S1' F1]; subst. inversion S2 as [|? ? S2' F2]; subst.
    inversion ND as [|? ? NI ND']; subst.
    assert (a = b).
    { assert (Ia : In a (b :: t2)) by (eapply Permutation_in; [exact P|left; reflexivity]).
      assert (Ib : In b (a :: t1)) by (eapply Permutation_in; [apply Permutation_sym; exact P|left; reflexivity]).
      destruct Ia as [Ia|Ia]; [auto|]. destruct Ib as [Ib|Ib]; [auto|].
      rewrite Forall_forall in F1, F2. specialize (F1 b Ib). specialize (F2 a Ia). unfold R in *.
      assert (Hne : fd_index a <> fd_index b).
      { intros Heq. apply NI. rewrite Heq. apply in_map. exact Ib. }
      destruct (less_total a b Hne) as [L|L]; congruence. }
    subst b. f_equal. apply IH; try assumption. eapply Permutation_cons_inv. exact P.
Qed.

Lemma SS_app l1 : forall l2, StronglySorted R l1 -> StronglySorted R l2 ->
  (forall a b, In a l1 -> In b l2 -> R a b) -> StronglySorted R (l1 ++ l2).
Proof.
  induction l1 as [|x l1 IH]; intros l2 S1 S2 C; [exact S2|].
  inversion S1; subst. cbn [app]. constructor.
  - apply IH; auto. intros a b Ha Hb. apply C; [right; exact Ha|exact Hb].
  - apply Forall_app. split; [assumption|]. apply Forall_forall. intros b Hb. apply C; [left; reflexivity|exact Hb].
Qed.

Lemma SS_filter P : forall l, decl_order l ->
  (forall a b, In a l -> In b l -> P a = true -> P b = true -> fd_index a < fd_index b -> R a b) ->
  StronglySorted R (filter P l).
Proof.
  induction l as [|x l IH]; intros D C; [constructor|].
  cbn [decl_order] in D. destruct D as [D1 D2]. cbn [filter].
  assert (IHl : StronglySorted R (filter P l)).
  { apply IH; [exact D2|]. intros a b Ha Hb. apply C; right; assumption. }
  destruct (P x) eqn:Px; [|exact IHl]. constructor; [exact IHl|].
  apply Forall_filter. intros y Hy Py. apply C; auto; [left; reflexivity|right; exact Hy|].
  rewrite Forall_forall in D1. apply D1. exact Hy.
Qed.

Lemma base_before_ext : forall l a b, decl_order l -> ext_after_base l ->
  In a l -> In b l -> fd_ext a = false -> fd_ext b = true -> fd_index a < fd_index b.
Proof.
  induction l as [|x l IH]; intros a b D E Ha Hb Ea Eb; [contradiction|].
  cbn [decl_order ext_after_base] in D, E. destruct D as [D1 D2]. destruct E as [E1 E2].
  rewrite Forall_forall in D1.
  destruct Ha as [Ha|Ha]; destruct Hb as [Hb|Hb]; subst.
  - congruence.
  - apply D1. exact Hb.
  - specialize (E1 Eb). rewrite Forall_forall in E1. specialize (E1 a Ha). congruence.
  - eapply IH; eauto.
Qed.

Theorem spec_order_sorted fs : decl_order fs -> ext_after_base fs -> StronglySorted R (spec_order_f fs).
Proof.
  intros D E. unfold spec_order_f. cbn [map concat]. rewrite app_nil_r.
  assert (Cls : forall s, StronglySorted R (filter (fun f => is_base f && Nat.eqb (fsize f) s) fs)).
  { intros s. apply SS_filter; [exact D|]. intros a b _ _ Pa Pb Hi. unfold R, field_less. fold (fsize a) (fsize b).
    apply andb_prop in Pa. apply andb_prop in Pb. destruct Pa as [Ba Sa]. destruct Pb as [Bb Sb].
    unfold is_base in *. rewrite Ba, Bb. apply Nat.eqb_eq in Sa. apply Nat.eqb_eq in Sb. rewrite Sa, Sb, Nat.eqb_refl.
    cbn. apply Nat.ltb_ge. lia. }
  assert (In_cls : forall s y, In y (filter (fun f => is_base f && Nat.eqb (fsize f) s) fs) ->
                                In y fs /\ fd_ext y = false /\ fsize y = s).
  { intros s y Hy. apply filter_In in Hy. destruct Hy as [Hy P]. apply andb_prop in P. destruct P as [P1 P2].
    apply Nat.eqb_eq in P2. unfold is_base in P1. destruct (fd_ext y); [discriminate|auto]. }
  assert (Cross : forall s k a b, k < s ->
            In a (filter (fun f => is_base f && Nat.eqb (fsize f) s) fs) ->
            In b (filter (fun f => is_base f && Nat.eqb (fsize f) k) fs) -> R a b).
  { intros s k a b Hk Ha Hb. apply In_cls in Ha. apply In_cls in Hb.
    destruct Ha as (_ & Ea & Sa). destruct Hb as (_ & Eb & Sb).
    unfold R, field_less. fold (fsize a) (fsize b). rewrite Ea, Eb, Sa, Sb. cbn [negb andb].
    assert (X : Nat.eqb k s = false) by (apply Nat.eqb_neq; lia). rewrite X. cbn [negb]. apply Nat.ltb_ge. lia. }
  assert (CrossE : forall s a b, In a (filter (fun f => is_base f && Nat.eqb (fsize f) s) fs) ->
                                 In b (filter fd_ext fs) -> R a b).
  { intros s a b Ha Hb. apply In_cls in Ha. destruct Ha as (Ia & Ea & _).
    apply filter_In in Hb. destruct Hb as [Ib Eb].
    pose proof (base_before_ext fs a b D E Ia Ib Ea Eb) as Lt.
    unfold R, field_less. rewrite Ea, Eb. cbn [negb andb]. apply Nat.ltb_ge. lia. }
  assert (SE : StronglySorted R (filter fd_ext fs)).
  { apply SS_filter; [exact D|]. intros a b _ _ Pa Pb Hi. unfold R, field_less. rewrite Pa, Pb. cbn. apply Nat.ltb_ge. lia. }
  apply SS_app; [| exact SE |].
  - apply SS_app; [apply Cls| |].
    + apply SS_app; [apply Cls| |].
      * apply SS_app; [apply Cls|apply Cls|]. intros a b. apply (Cross 2 1). lia.
      * intros a b Ha Hb. apply in_app_or in Hb.
        destruct Hb; [apply (Cross 4 2 a b)|apply (Cross 4 1 a b)]; (lia || assumption).
    + intros a b Ha Hb. apply in_app_or in Hb. destruct Hb as [Hb|Hb]; [apply (Cross 8 4 a b); (lia || assumption)|].
      apply in_app_or in Hb. destruct Hb; [apply (Cross 8 2 a b)|apply (Cross 8 1 a b)]; (lia || assumption).
  - intros a b Ha Hb. apply in_app_or in Ha. destruct Ha as [Ha|Ha]; [eapply CrossE; eauto|].
    apply in_app_or in Ha. destruct Ha as [Ha|Ha]; [eapply CrossE; eauto|].
    apply in_app_or in Ha. destruct Ha as [Ha|Ha]; eapply CrossE; eauto.
Qed.

Lemma insert_perm less x : forall l, Permutation (x :: l) (insert_by less x l).
Proof.
  induction l as [|y t IH]; [apply Permutation_refl|]. cbn [insert_by].
  destruct (less y x); [|apply Permutation_refl].
  eapply Permutation_trans; [apply perm_swap|]. apply perm_skip. exact IH.
Qed.
Lemma sort_perm fs : Permutation fs (sort_fields fs).
Proof.
  unfold sort_fields. induction fs as [|x l IH]; [constructor|]. cbn [fold_right].
  eapply Permutation_trans; [apply perm_skip; exact IH|]. apply insert_perm.
Qed.
Lemma spec_order_perm fs : decl_order fs -> ext_after_base fs -> Permutation fs (spec_order_f fs).
Proof. intros D E. rewrite <- sort_is_spec_order by assumption. apply sort_perm. Qed.

(* whatever algorithm sort.Slice uses: any permutation of the declared fields that is sorted
   for the comparator is the MAVLink order *)
Theorem order_is_spec fs l : decl_order fs -> ext_after_base fs -> NoDup (map fd_index fs) ->
  Permutation fs l -> StronglySorted R l -> l = spec_order_f fs.
Proof.
  intros D E ND P S.
  assert (ND' : NoDup (map fd_index l)).
  { eapply Permutation_NoDup; [apply Permutation_map; exact P|exact ND]. }
  apply sorted_perm_unique; try assumption.
  - eapply Permutation_trans; [apply Permutation_sym; exact P|apply spec_order_perm; assumption].
  - apply spec_order_sorted; assumption.
Qed.
