(* Tie by translation, pkg/conversion: dialectTypeToGo regenerated from /repo on every run is the
   model's type_to_go, and composes with the run-time table to the identity on wire types. *)
From Coq Require Import ZArith NArith List String Ascii Lia Bool Btauto.
From GM Require Import SrcPrelude.
From GM Require Import SrcConversion SrcMessage Bytes Codec Layout Gen SrcMsgTables.
Import ListNotations.

Definition gen_tables_ok : bool :=
  (Nat.eqb (List.length t_conversion_dialectTypeToGo) 11) &&
  forallb (fun r => opt_bytes_eqb (type_to_go (bytes_of_string (fst r))) (Some (bytes_of_string (snd r)))) t_conversion_dialectTypeToGo &&
  forallb (fun r => match ftype_from_go (bytes_of_string (snd r)) with
                    | Some t => bytes_eqb (ftype_string t) (bytes_of_string (fst r)) | None => false end)
          t_conversion_dialectTypeToGo.

Theorem src_generator_type_table : gen_tables_ok = true.
Proof. vm_compute. reflexivity. Qed.
