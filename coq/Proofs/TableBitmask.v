(* C19: every shipped bitmask enum meets the hypotheses of bitmask_roundtrip for every combination
   of its single-bit flags. *)
From Coq Require Import ZArith Lia ZifyN ZifyNat ZifyBool PeanoNat.
From GM Require Import Bytes Result Layout Tables Enum EnumProofs BitmaskProofs Enums TableEnums SignProofs.
Local Open Scope N_scope.

Definition flag_ok_b (en : enum) (i : nat) : bool :=
  match lookup_label (en_labels en) (N.shiftl 1 (N.of_nat i)) with
  | Some s => no_space s && match lookup_value (en_values en) s with Some v => N.eqb v (N.shiftl 1 (N.of_nat i)) | None => false end
  | None => false
  end.
Lemma flag_ok_b_sound en i : flag_ok_b en i = true -> flag_ok en i.
Proof.
  unfold flag_ok_b, flag_ok. destruct (lookup_label (en_labels en) (N.shiftl 1 (N.of_nat i))) as [s|]; [|discriminate].
  intros H. apply andb_prop in H. destruct H as [NS V]. destruct (lookup_value (en_values en) s) as [v|] eqn:LV; [|discriminate].
  apply N.eqb_eq in V. subst v. exists s. split; [reflexivity|]. split; [exact NS|exact LV].
Qed.

(* every single-bit position that has a name at all is usable; the loop covers all 64 bits;
   "0" is not the name of a constant *)
Definition flags_table_ok (en : enum) : bool :=
  Nat.eqb (en_bound en) 64 &&
  forallb (fun i => match lookup_label (en_labels en) (N.shiftl 1 (N.of_nat i)) with None => true | Some _ => flag_ok_b en i end) (seq 0 64) &&
  match lookup_value (en_values en) [48] with None => true | Some _ => false end.

Definition bitmask_table_ok (g : genum) : bool := if ge_bitmask g then flags_table_ok (to_enum g) else true.
Theorem all_bitmask_tables_ok : forallb bitmask_table_ok enums = true.
Proof. vm_cast_no_check (eq_refl true). Qed.

Lemma bit_below e j : e < 2 ^ 64 -> N.testbit e j = true -> j < 64.
Proof.
  intros H T. destruct (N.lt_ge_cases j 64) as [L|G]; [exact L|]. exfalso.
  destruct (N.eq_dec e 0) as [->|NZ]; [rewrite N.bits_0 in T; discriminate|].
  assert (N.log2 e < 64) by (apply N.log2_lt_pow2; lia).
  rewrite N.bits_above_log2 in T by lia. discriminate.
Qed.

(* generic: an enum that passes the table check round-trips zero and every 64-bit value all of
   whose set bits are named flags *)
Theorem bitmask_combinations en e : en_bitmask en = true -> flags_table_ok en = true -> e < 2 ^ 64 ->
  (forall j, N.testbit e j = true -> lookup_label (en_labels en) (N.shiftl 1 j) <> None) ->
  unmarshal_text en (marshal_text en e) = Some e.
Proof.
  intros B T H D. unfold flags_table_ok in T. apply andb_prop in T. destruct T as [T Z]. apply andb_prop in T. destruct T as [Bd Fl].
  apply Nat.eqb_eq in Bd.
  destruct (N.eq_dec e 0) as [->|NZ].
  - apply bitmask_zero; [exact B|]. destruct (lookup_value (en_values en) [48]); [discriminate|reflexivity].
  - apply bitmask_roundtrip; [exact B|exact NZ| |].
    + intros j Tj. rewrite Bd. apply (bit_below e j H Tj).
    + apply Forall_forall. intros i Ii. unfold set_bits in Ii. apply filter_In in Ii. destruct Ii as [Is Ti].
      rewrite Bd in Is. rewrite forallb_forall in Fl. specialize (Fl i Is). specialize (D _ Ti).
      destruct (lookup_label (en_labels en) (N.shiftl 1 (N.of_nat i))) eqn:L; [|contradiction].
      apply flag_ok_b_sound. exact Fl.
Qed.

(* every shipped bitmask enum (regenerated table): zero and every combination of its named
   single-bit flags survive MarshalText / UnmarshalText *)
Theorem shipped_bitmask_combinations g e : In g enums -> ge_bitmask g = true -> e < 2 ^ 64 ->
  (forall j, N.testbit e j = true -> lookup_label (en_labels (to_enum g)) (N.shiftl 1 j) <> None) ->
  unmarshal_text (to_enum g) (marshal_text (to_enum g) e) = Some e.
Proof.
  intros I B H D. pose proof all_bitmask_tables_ok as T. rewrite forallb_forall in T. specialize (T g I).
  unfold bitmask_table_ok in T. rewrite B in T. apply bitmask_combinations; [exact B|exact T|exact H|exact D].
Qed.
