(* Tie by translation, package gomavlib: queue length, heartbeat and stream-request constants and
   the defaults of Node.Initialize, as regenerated from /repo on every run. *)
From Coq Require Import ZArith NArith List String Ascii Lia Bool Btauto.
From GM Require Import SrcPrelude.
From GM Require Import SrcGomavlib Heartbeat Node.
Import ListNotations.
Local Open Scope Z_scope.

(* channel.go: length of every channel's write queue (Model/Node.v, the bound of the LTS) *)
Theorem src_queue_length : Z.of_nat qcap = c_gomavlib_writeBufferSize.
Proof. reflexivity. Qed.

Theorem src_heartbeat_constants :
  Z.of_N heartbeat_crc = c_gomavlib_heartbeatCRC /\ c_gomavlib_heartbeatID = 0 /\
  Z.of_N rds_crc = c_gomavlib_requestDataStreamCRC /\ c_gomavlib_requestDataStreamID = 66 /\
  Z.of_N sr_period * 1000000000 = c_gomavlib_streamRequestPeriod /\
  Z.of_N sr_period * 1000000000 = a_gomavlib_nodeStreamRequest_run_NewTicker /\
  Z.of_N (eff_systype 0) = d_gomavlib_Node_Initialize_HeartbeatSystemType /\
  Z.of_N (eff_freq 0) = d_gomavlib_Node_Initialize_StreamRequestFrequency /\
  (* ArduPilot = 3, the period, the seven streams, start = 1 *)
  k_gomavlib_nodeStreamRequest_onEventFrame = [0; 3; 30000000000; 1; 2; 3; 6; 10; 11; 12; 1] /\
  (* heartbeat: base mode 0, custom mode 0, MAV_STATE_ACTIVE *)
  k_gomavlib_nodeHeartbeat_run = [0; 0; 4].
Proof. repeat split; reflexivity. Qed.

Theorem src_node_defaults : d_gomavlib_Node_Initialize_OutComponentID = 1.
Proof. reflexivity. Qed.

(* the defaults of the time-outs and of the heartbeat period are constants of the source, not derived
   from one another: read and write 10 s, idle 60 s, heartbeats every 5 s *)
Theorem src_timeout_defaults :
  d_gomavlib_Node_Initialize_ReadTimeout = 10000000000 /\ d_gomavlib_Node_Initialize_WriteTimeout = 10000000000 /\
  d_gomavlib_Node_Initialize_IdleTimeout = 60000000000 /\ d_gomavlib_Node_Initialize_HeartbeatPeriod = 5000000000 /\
  v_gomavlib_reconnectPeriod = 2000000000.
Proof. repeat split; reflexivity. Qed.
