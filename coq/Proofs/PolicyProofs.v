(* C15: what a passing policy check means for any two conflicting accesses of one field. *)
From Coq Require Import Lia.
From GM Require Import Policy.
Local Open Scope string_scope.

Section Meaning.
  Variable first_spawn : nat.
  Variable post_spawn : list string.
  Variable calls : list (string * string).
  Variable fn_roots : list (string * list string).
  Variable select_alts : list (string * string * string).
  Variable policy : string -> string -> pclass.
  Variable mpolicy : string -> string -> option (list (string * string)).

  Notation init_phase := (init_phase first_spawn post_spawn).
  Notation check_policy := (check_policy first_spawn post_spawn calls fn_roots select_alts policy mpolicy).

  (* Two accesses are protected when one of the synchronisation patterns of Race.v orders them:
     (1) one belongs to the initialisation phase (everything else is spawned afterwards);
     (2) one is a write made before the object was handed over to other goroutines;
     (3) both are made by the same single goroutine;
     (4) both are made with the same mutex held;
     (5) ownership transfer: one is made by the new owner, the other is the old owner's read on the
         branch where the hand-over did not happen. *)
  Definition protected_pair (c : pclass) (a b : arow) : Prop :=
    init_phase a = true \/ init_phase b = true
    \/ (exists f root, c = PreHandOver f root /\
         ((is_w a = true /\ r_fn a = f /\ roots_are a [root] = true) \/ (is_w b = true /\ r_fn b = f /\ roots_are b [root] = true)))
    \/ (exists root, root <> "api" /\ roots_are a [root] = true /\ roots_are b [root] = true)
    \/ (exists m, m <> "" /\ r_lock a = m /\ r_lock b = m)
    \/ (exists o1 o2 selfn callee chanf, c = OwnerTransfer o1 o2 selfn callee chanf /\ o2 <> "api" /\
         ((roots_are a [o2] = true /\ r_fn b = callee /\ is_w b = false /\ roots_are b [o1; o2] = true) \/
          (roots_are b [o2] = true /\ r_fn a = callee /\ is_w a = false /\ roots_are a [o1; o2] = true))).

  Lemma neq_of_eqb a b : (a =? b) = false -> a <> b.
  Proof. intros H E. subst. rewrite String.eqb_refl in H. discriminate. Qed.

  Lemma row_ok_pair c a b :
    row_ok first_spawn post_spawn c a = true -> row_ok first_spawn post_spawn c b = true ->
    conflicting a b = true -> protected_pair c a b.
  Proof.
    unfold conflicting, row_ok. intros A B C.
    apply andb_prop in C. destruct C as [C W]. apply andb_prop in C. destruct C as [Ra Rb].
    rewrite Ra in A. rewrite Rb in B. cbn [negb] in A, B.
    destruct c as [|f root|root|m|o1 o2 selfn callee chanf|].
    - (* InitOnly *) apply orb_prop in W. destruct W as [W|W]; rewrite W in *; [left|right; left]; assumption.
    - (* PreHandOver *)
      right; right; left. exists f, root. split; [reflexivity|].
      apply orb_prop in W. destruct W as [W|W]; rewrite W in *.
      + apply andb_prop in A. destruct A as [A1 A2]. apply String.eqb_eq in A1. left. auto.
      + apply andb_prop in B. destruct B as [B1 B2]. apply String.eqb_eq in B1. right. auto.
    - (* Confined *)
      apply andb_prop in A. destruct A as [NA A]. apply andb_prop in B. destruct B as [_ B].
      apply orb_prop in A. apply orb_prop in B.
      destruct A as [A|A]; [left; exact A|]. destruct B as [B|B]; [right; left; exact B|].
      right; right; right; left. exists root. split; [|split; assumption].
      apply neq_of_eqb. destruct (root =? "api"); [discriminate|reflexivity].
    - (* Locked *)
      apply andb_prop in A. destruct A as [NA A]. apply andb_prop in B. destruct B as [_ B].
      apply orb_prop in A. apply orb_prop in B.
      destruct A as [A|A]; [left; exact A|]. destruct B as [B|B]; [right; left; exact B|].
      right; right; right; right; left. exists m. apply String.eqb_eq in A. apply String.eqb_eq in B.
      split; [|split; assumption]. apply neq_of_eqb. destruct (m =? ""); [discriminate|reflexivity].
    - (* OwnerTransfer *)
      apply andb_prop in A. destruct A as [NA A]. apply andb_prop in B. destruct B as [_ B].
      assert (N2 : o2 <> "api") by (apply neq_of_eqb; destruct (o2 =? "api"); [discriminate|reflexivity]).
      apply orb_prop in A. apply orb_prop in B.
      destruct A as [A|A], B as [B|B].
      + right; right; right; left. exists o2. auto.
      + apply andb_prop in B. destruct B as [B B3]. apply andb_prop in B. destruct B as [B1 B2].
        apply String.eqb_eq in B1. right; right; right; right; right.
        exists o1, o2, selfn, callee, chanf. split; [reflexivity|]. split; [exact N2|]. left.
        destruct (is_w b); [discriminate|]. auto.
      + apply andb_prop in A. destruct A as [A A3]. apply andb_prop in A. destruct A as [A1 A2].
        apply String.eqb_eq in A1. right; right; right; right; right.
        exists o1, o2, selfn, callee, chanf. split; [reflexivity|]. split; [exact N2|]. right.
        destruct (is_w a); [discriminate|]. auto.
      + (* both are reads in callee: not conflicting *)
        apply andb_prop in A. destruct A as [_ A3]. apply andb_prop in B. destruct B as [_ B3].
        destruct (is_w a), (is_w b); discriminate.
    - (* ValueOnly *) destruct (is_w a), (is_w b); discriminate.
  Qed.

  (* every two conflicting accesses of the same field in a table that passes the check are protected *)
  Theorem checked_pairs_protected rows a b :
    check_policy rows = true -> In a rows -> In b rows -> same_loc a b = true -> conflicting a b = true ->
    protected_pair (policy (r_struct a) (r_field a)) a b.
  Proof.
    intros H Ia Ib S C. unfold Policy.check_policy in H. rewrite forallb_forall in H.
    pose proof (H a Ia) as Ha. pose proof (H b Ib) as Hb. unfold check_row in Ha, Hb.
    apply andb_prop in Ha. destruct Ha as [Ha _]. apply andb_prop in Ha. destruct Ha as [Ha _].
    apply andb_prop in Hb. destruct Hb as [Hb _]. apply andb_prop in Hb. destruct Hb as [Hb _].
    unfold same_loc in S. apply andb_prop in S. destruct S as [S1 S2].
    apply String.eqb_eq in S1. apply String.eqb_eq in S2. rewrite <- S1, <- S2 in Hb.
    apply row_ok_pair; assumption.
  Qed.

  (* methods with per-goroutine state are called by one goroutine only *)
  Theorem checked_methods_confined rows r l :
    check_policy rows = true -> In r rows -> mpolicy (r_struct r) (r_field r) = Some l ->
    String.prefix "M:" (r_kind r) = true ->
    exists p, In p l /\ ("M:" ++ fst p) = r_kind r /\ roots_are r [snd p] = true /\ snd p <> "api".
  Proof.
    intros H I M K. unfold Policy.check_policy in H. rewrite forallb_forall in H. specialize (H r I).
    unfold check_row in H. apply andb_prop in H. destruct H as [_ H]. unfold mrow_ok in H. rewrite M, K in H.
    destruct (find (fun p => ("M:" ++ fst p) =? r_kind r) l) as [p|] eqn:F; [|discriminate].
    apply find_some in F. destruct F as [F1 F2]. apply String.eqb_eq in F2.
    apply andb_prop in H. destruct H as [H1 H2]. exists p. repeat split; try assumption.
    apply neq_of_eqb. destruct (snd p =? "api"); [discriminate|reflexivity].
  Qed.
End Meaning.
