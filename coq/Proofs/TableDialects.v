(* C17 on the regenerated tables of the shipped dialects. *)
From GM Require Import Tables Dialect LayoutSpec Dialects Enums.

Definition dummy_struct : gstruct := mkGS "" "" [].
Definition struct_at (i : nat) : gstruct := nth i structs dummy_struct.
Definition msgs_of (gd : gdialect) : list (N * gostruct) :=
  map (fun p => (fst p, to_gostruct (struct_at (snd p)))) (gd_msgs gd).

Definition dialect_ok (gd : gdialect) : bool :=
  match dialect_init (msgs_of gd) with Ok _ => true | _ => false end.

(* every shipped dialect initialises (hence unique ids and well-formed structs, DialectProofs) *)
Theorem all_initialize : forallb dialect_ok shipped = true.
Proof. vm_cast_no_check (eq_refl true). Qed.

(* struct indexes are identity classes of reflect.Type: a message with the same id and the same
   struct name in two dialects is the very same Go type *)
Definition all_entries : list (N * string * nat) :=
  map (fun e => (fst e, gs_tname (struct_at (snd e)), snd e)) (concat (map gd_msgs shipped)).
Definition same_msg_same_type (e1 e2 : N * string * nat) : bool :=
  if (fst (fst e1) =? fst (fst e2))%N && String.eqb (snd (fst e1)) (snd (fst e2))
  then Nat.eqb (snd e1) (snd e2) else true.
Definition aliases_ok (l : list (N * string * nat)) : bool :=
  forallb (fun e1 => forallb (same_msg_same_type e1) l) l.
Definition entry_eqb (a b : N * string * nat) : bool :=
  (fst (fst a) =? fst (fst b))%N && Nat.eqb (snd a) (snd b) && String.eqb (snd (fst a)) (snd (fst b)).
Fixpoint dedupe (l : list (N * string * nat)) (acc : list (N * string * nat)) : list (N * string * nat) :=
  match l with
  | [] => acc
  | e :: t => if existsb (entry_eqb e) acc then dedupe t acc else dedupe t (e :: acc)
  end.
Theorem aliases_share_type_dedup : aliases_ok (dedupe all_entries []) = true.
Proof. vm_cast_no_check (eq_refl true). Qed.

Lemma entry_eqb_eq a b : entry_eqb a b = true -> a = b.
Proof.
  destruct a as [[i1 n1] k1], b as [[i2 n2] k2]. unfold entry_eqb. cbn [fst snd]. intros H.
  apply andb_prop in H. destruct H as [H H3]. apply andb_prop in H. destruct H as [H1 H2].
  apply N.eqb_eq in H1. apply PeanoNat.Nat.eqb_eq in H2. apply String.eqb_eq in H3. subst. reflexivity.
Qed.
Lemma dedupe_In : forall l acc e, In e l \/ In e acc -> In e (dedupe l acc).
Proof.
  induction l as [|x t IH]; intros acc e H; cbn [dedupe].
  - destruct H as [[]|H]; exact H.
  - destruct (existsb (entry_eqb x) acc) eqn:Ex.
    + apply IH. destruct H as [[H|H]|H]; auto. subst x. right.
      apply existsb_exists in Ex. destruct Ex as [y [Hy E]]. apply entry_eqb_eq in E. subst y. exact Hy.
    + apply IH. destruct H as [[H|H]|H]; auto; right; [left; exact H|right; exact H].
Qed.
Lemma aliases_lift (l : list (N * string * nat)) : aliases_ok (dedupe l []) = true ->
  forall e1 e2, In e1 l -> In e2 l -> same_msg_same_type e1 e2 = true.
Proof.
  intros A e1 e2 H1 H2. unfold aliases_ok in A.
  rewrite forallb_forall in A. specialize (A e1 (dedupe_In _ [] e1 (or_introl H1))).
  rewrite forallb_forall in A. exact (A e2 (dedupe_In _ [] e2 (or_introl H2))).
Qed.
Theorem aliases_share_type : forall e1 e2, In e1 all_entries -> In e2 all_entries ->
  same_msg_same_type e1 e2 = true.
Proof. exact (aliases_lift all_entries aliases_share_type_dedup). Qed.

(* an enum constant has the same value in every dialect that defines or re-exports it *)
Definition const_agrees (e : string * list N) : bool :=
  match snd e with [] => true | v :: t => forallb (N.eqb v) t end.
Theorem enum_values_agree : forallb const_agrees enum_consts = true.
Proof. vm_cast_no_check (eq_refl true). Qed.

(* CRC_EXTRA values published with the reference MAVLink C library (common.xml, message ids
   below), against the library's computation on the "common" dialect *)
Definition golden : list (N * N) :=
  [(0,50);(1,124);(2,137);(4,237);(5,217);(6,104);(7,119);(11,89);(20,214);(21,159);(22,220);(23,168);
   (24,24);(25,23);(26,170);(27,144);(28,67);(29,115);(30,39);(31,246);(32,185);(33,104);(34,237);(35,244);
   (36,222);(37,212);(38,9);(39,254);(40,230);(41,28);(42,28);(43,132);(44,221);(45,232);(46,11);(47,153);
   (48,41);(49,39);(50,78);(51,196);(54,15);(55,3);(61,167);(62,183);(63,119);(64,191);(65,118);(66,148);
   (67,21);(69,243);(70,124);(73,38);(74,20);(75,158);(76,152);(77,143);(253,83)]%N.

Definition find_dialect (name : string) : option gdialect :=
  find (fun gd => String.eqb (gd_name gd) name) shipped.

Definition golden_mismatches (name : string) : list (N * N * option N) :=
  match find_dialect name with
  | None => [(0, 0, None)]%N
  | Some gd =>
    match dialect_init (msgs_of gd) with
    | Ok d => filter (fun x => match snd x with Some c => negb (c =? snd (fst x))%N | None => true end)
                     (map (fun g => (fst g, snd g, option_map c_crc (dlookup d (fst g)))) golden)
    | _ => [(0, 0, None)]%N
    end
  end.

Theorem golden_crc_extras : golden_mismatches "common" = [].
Proof. vm_cast_no_check (eq_refl (@nil (N * N * option N))). Qed.

(* ---- every released message keeps its CRC_EXTRA (Spec/CrcSnapshot.v) ---- *)
From GM Require Import CrcSnapshot.
Definition snapshot_crc (id : N) (tname : string) : option N :=
  match find (fun r => (fst (fst r) =? id)%N && String.eqb (snd (fst r)) tname) crc_snapshot with
  | Some r => Some (snd r) | None => None
  end.
(* per dialect: the messages whose computed CRC_EXTRA differs from the table *)
Definition snapshot_mismatches_of (gd : gdialect) : list (string * N * string) :=
  if String.eqb (gd_name gd) "development" then [] else
  match dialect_init (msgs_of gd) with
  | Ok d =>
    flat_map (fun e =>
      let tname := gs_tname (struct_at (snd e)) in
      match snapshot_crc (fst e) tname, dlookup d (fst e) with
      | Some want, Some c => if (c_crc c =? want)%N then [] else [(gd_name gd, fst e, tname)]
      | Some _, None => [(gd_name gd, fst e, tname)]
      | None, _ => []
      end) (gd_msgs gd)
  | _ => [(gd_name gd, 0%N, "does not initialise")]
  end.
Definition snapshot_mismatches : list (string * N * string) := flat_map snapshot_mismatches_of shipped.
(* and the table is about the shipped dialects: at least 350 of its rows are found there *)
Definition snapshot_rows_found : nat :=
  length (filter (fun r => existsb (fun gd => existsb (fun e => (fst e =? fst (fst r))%N &&
            String.eqb (gs_tname (struct_at (snd e))) (snd (fst r))) (gd_msgs gd)) shipped) crc_snapshot).

Theorem released_messages_keep_crc_extra : snapshot_mismatches = [] /\ Nat.leb 350 snapshot_rows_found = true.
Proof. split; [vm_cast_no_check (eq_refl (@nil (string * N * string)))|vm_cast_no_check (eq_refl true)]. Qed.
