(* C19 on the regenerated enum tables. *)
From GM Require Import Tables Enum EnumProofs Enums.

Definition to_enum (g : genum) : enum :=
  mkEnum (ge_bitmask g) (N.to_nat (ge_bound g))
         (map (fun p => (fst p, b (snd p))) (ge_labels g)) (map (fun p => (b (fst p), snd p)) (ge_values g)).

(* ordinary enums: the hypotheses of plain_roundtrip *)
Definition plain_ok (g : genum) : bool :=
  ge_bitmask g || (labels_consistent (to_enum g) && names_not_numerals (to_enum g)).
Theorem all_plain_enums_ok : forallb plain_ok enums = true.
Proof. vm_cast_no_check (eq_refl true). Qed.

(* bitmask enums: zero, every defined constant, and the union of all constants survive the
   round trip — except the listed instances *)
Definition all_or (g : genum) : N := fold_left N.lor (map snd (ge_consts g)) 0.
Definition bitmask_bad (g : genum) : list N :=
  filter (fun v => negb (roundtrips (to_enum g) v)) (0 :: all_or g :: map snd (ge_consts g)).
Definition bitmask_failures (l : list genum) : list (string * string * list N) :=
  flat_map (fun g => if ge_bitmask g then match bitmask_bad g with [] => [] | bad => [(ge_pkg g, ge_name g, bad)] end else []) l.

(* known finding (known_findings.json F12): RALLY_FLAGS defines ALT_FRAME = 24, a two-bit field
   inside a bitmask enum whose bits 8 and 16 are not flags of their own; MarshalText renders a
   value containing them with empty names.  Every failure in the table is an instance of it. *)
Definition known_failure (f : string * string * list N) : bool :=
  String.eqb (fst (fst f)) "ardupilotmega" && String.eqb (snd (fst f)) "RALLY_FLAGS" &&
  forallb (fun v => negb (N.land v 24 =? 0)%N) (snd f).
Theorem bitmask_failures_are_known : forallb known_failure (bitmask_failures enums) = true.
Proof. vm_cast_no_check (eq_refl true). Qed.
