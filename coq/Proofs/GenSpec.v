(* C18 composed with C03: what the generator emits for a valid definition initialises to the field
   table, sizes and CRC_EXTRA that the MAVLink rules derive from that definition. *)
From Coq Require Import ZArith Lia ZifyN ZifyNat ZifyBool PeanoNat.
From GM Require Import Bytes Result Codec Layout LayoutSpec Enum Gen SignProofs EnumProofs GenProofs InitSpec.

Lemma go_type_not_string t : t <> TChar -> bytes_eqb (go_type_of t) s_string = false.
Proof. destruct t; intros H; try reflexivity. contradiction. Qed.

Lemma field_generated i t arr name enum ext :
  starts_with_letter name = true ->
  match arr with Some n => 1 <= n <= 255 | None => True end ->
  (enum <> [] -> enum_wire_ok t = true) ->
  exists g, process_field (mkXField (render_type t arr) name enum ext) = Ok g /\
            def_field i g = Some (mkMField t name arr ext (match enum with [] => false | _ => true end) i) /\
            gofield_ok g = true /\ bytes_eqb (g_tag_ext g) s_true = ext.
Proof.
  intros L A E. destruct (def_to_go_head name L) as (c & r & D & U).
  destruct (field_denotes_definition i t arr name enum ext L A E) as (g & P & Dg).
  exists g. split; [exact P|]. split; [exact Dg|].
  (* compute g *)
  unfold process_field in P. cbn [xf_name xf_type xf_enum xf_ext] in P. rewrite D, (gen_go_to_def_snake c r U) in P.
  rewrite (field_type_correct t arr A) in P.
  set (tag := if bytes_eqb (snake false (c :: r)) name then [] else name) in P.
  assert (EXT : bytes_eqb (if ext then s_true else []) s_true = ext) by (destruct ext; reflexivity).
  assert (NOK : forall g0, g_name g0 = c :: r -> go_name_ok g0 = true).
  { intros g0 Hn. unfold go_name_ok. rewrite Hn. destruct (g_tag_name g0); [exact U|reflexivity]. }
  destruct enum as [|e0 en].
  - destruct t, arr as [n|]; cbn [expected_field_type] in P; inversion P; subst g; clear P;
      (split; [|exact EXT]); unfold gofield_ok; rewrite NOK by reflexivity;
      cbn [g_isarr g_arrlen g_tag_enum g_tname g_kind_string g_tag_len andb];
      try (assert (B1 : (1 <=? n) && (n <=? 255) = true) by lia; rewrite B1);
      try reflexivity.
    (* char[n] *)
    cbn [negb andb]. destruct (utoa n) as [|u0 ut] eqn:Un; [exfalso; exact (utoa_nonempty n Un)|]. rewrite <- Un.
    rewrite (atoi_utoa_small n A). assert (B2 : (1 <=? Z.of_N n)%Z && (Z.of_N n <=? 255)%Z = true) by lia. rewrite B2. reflexivity.
  - specialize (E ltac:(discriminate)).
    destruct t; try discriminate E; destruct arr as [n|]; cbn [expected_field_type] in P; inversion P; subst g; clear P;
      (split; [|exact EXT]); unfold gofield_ok; rewrite NOK by reflexivity;
      cbn [g_isarr g_arrlen g_tag_enum g_tname g_kind_string g_kind_uint64 g_tag_len andb];
      try (assert (B1 : (1 <=? n) && (n <=? 255) = true) by lia; rewrite B1);
      reflexivity.
Qed.

Lemma fields_generated : forall fs i, Forall valid_afield fs ->
  exists gs, process_fields (map render_field fs) = Ok gs /\ def_fields i gs = Some (abstract_fields i fs) /\
             forallb gofield_ok gs = true /\ map (fun g => bytes_eqb (g_tag_ext g) s_true) gs = map af_ext fs.
Proof.
  induction fs as [|a t IH]; intros i V; [exists []; repeat split; reflexivity|].
  inversion V as [|? ? Va Vt]; subst. destruct Va as (L & A & E).
  destruct (field_generated i (af_type a) (af_arr a) (af_name a) (af_enum a) (af_ext a) L A E) as (g & Pg & Dg & Og & Xg).
  destruct (IH (S i) Vt) as (gs & Pgs & Dgs & Ogs & Xgs).
  exists (g :: gs). split; [|split; [|split]].
  - cbn [map process_fields]. unfold render_field at 1. rewrite Pg. cbn [rbind]. rewrite Pgs. reflexivity.
  - cbn [def_fields abstract_fields]. rewrite Dg, Dgs. reflexivity.
  - cbn [forallb]. rewrite Og, Ogs. reflexivity.
  - cbn [map]. rewrite Xg, Xgs. reflexivity.
Qed.

(* the extension flags of a definition can only go from base to extension (the XML has one
   <extensions/> marker), the payload fits 255 bytes, names are bytes *)
Theorem generated_message_follows_spec name id fs :
  valid_msg_name name = true -> Forall valid_afield fs -> exts_last_b (map af_ext fs) = true ->
  spec_size_ext (abstract_fields 0 fs) <= 255 ->
  bytes_ok (spec_crc_text (mkMavDef name (abstract_fields 0 fs))) = true ->
  exists g c, process_message (mkXMsg name id (map render_field fs)) = Ok g /\ initialize g = Ok c /\
              codec_matches_spec c (mkMavDef name (abstract_fields 0 fs)) = true.
Proof.
  intros Vn Vf Xl Sz Bo. destruct (message_name_recovered name Vn) as (c & t & D & U & S & _).
  destruct (fields_generated fs 0 Vf) as (gs & P & Dg & Ok & Xg).
  set (g := mkGoStruct (s_Message ++ c :: t) gs).
  assert (PM : process_message (mkXMsg name id (map render_field fs)) = Result.Ok g).
  { unfold process_message. cbn [xm_name xm_fields]. rewrite (valid_name_ok name Vn). cbn [negb]. rewrite D. cbn [rbind]. rewrite P. reflexivity. }
  assert (DO : def_of g = Some (mkMavDef name (abstract_fields 0 fs))).
  { unfold def_of, g. cbn [gs_name gs_fields]. rewrite has_prefix_app, Dg.
    change (skipn 7 (s_Message ++ c :: t)) with (c :: t). rewrite S. reflexivity. }
  assert (GO : gostruct_ok g = true).
  { unfold gostruct_ok, g. cbn [gs_name gs_fields]. rewrite has_prefix_app.
    change (skipn 7 (s_Message ++ c :: t)) with (c :: t). cbv beta iota. rewrite U, Ok, Xg, Xl. reflexivity. }
  destruct (initialize_is_spec g _ GO DO Sz Bo) as (cd & I & M).
  exists g, cd. auto.
Qed.

(* non-vacuity: the standard HEARTBEAT definition meets every hypothesis, and what the generator
   emits for it initialises to CRC_EXTRA 50 and a 9-byte payload *)
From GM Require Import Tables.
Definition hb_def : list afield :=
  [ mkAField TUint8 None (b "type") (b "MAV_TYPE") false; mkAField TUint8 None (b "autopilot") (b "MAV_AUTOPILOT") false;
    mkAField TUint8 None (b "base_mode") (b "MAV_MODE_FLAG") false; mkAField TUint32 None (b "custom_mode") [] false;
    mkAField TUint8 None (b "system_status") (b "MAV_STATE") false; mkAField TUint8 None (b "mavlink_version") [] false ].
Example heartbeat_hypotheses :
  valid_msg_name (b "HEARTBEAT") = true /\ Forall valid_afield hb_def /\ exts_last_b (map af_ext hb_def) = true /\
  spec_size_ext (abstract_fields 0 hb_def) <= 255 /\
  bytes_ok (spec_crc_text (mkMavDef (b "HEARTBEAT") (abstract_fields 0 hb_def))) = true.
Proof.
  split; [reflexivity|]. split.
  - repeat constructor; try reflexivity; try discriminate; cbn; intros; reflexivity.
  - split; [reflexivity|]. split; [vm_compute; discriminate|vm_compute; reflexivity].
Qed.
Example heartbeat_generated :
  match process_message (mkXMsg (b "HEARTBEAT") 0 (map render_field hb_def)) with
  | Ok g => match initialize g with Ok c => (c_crc c =? 50) && (c_size_normal c =? 9) | _ => false end
  | _ => false
  end = true.
Proof. vm_compute. reflexivity. Qed.
