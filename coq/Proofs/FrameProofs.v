(* C01: the writer's bytes are the spec layout; reading them back returns the frame. *)
From Coq Require Import ZArith Lia ZifyN ZifyNat ZifyBool PeanoNat.
From GM Require Import Bytes BytesProofs Result Codec Frame Wire Stream FlatStream StreamProofs Reader ReaderSim.
Ltac Zify.zify_post_hook ::= Z.div_mod_to_equations.

Lemma nlen_u8 (p : list N) : (length p <= 255)%nat -> u8 (nlen p) = nlen p.
Proof. intros H. unfold u8, nlen. apply N.mod_small. lia. Qed.

Theorem marshal_is_spec f p : frame_wf f p -> marshal f p = Ok (spec_bytes f p).
Proof.
  unfold frame_wf, marshal, spec_bytes, is_signed, frame_id.
  intros (Hm & Hp & Hl & Hs & Hy & Hc & Hk & Hv).
  rewrite (nlen_u8 p Hl), (le_enc_2 _ Hk).
  destruct (f_v2 f).
  - destruct Hv as (Hid & Hcm & [(Hi & Hsg & _ & _) | (Hi & Hlk & Hts & s & Hsg & Hsl & _)]).
    + rewrite Hi, (le_enc_3 _ Hid). cbn. rewrite ?app_nil_r. reflexivity.
    + rewrite Hi, Hsg, (le_enc_3 _ Hid). cbn [N.land N.eqb negb Pos.land].
      unfold sig_block. rewrite Hsg, (le_enc_6 _ Hts). cbn. rewrite <- !app_assoc. reflexivity.
  - destruct Hv as (Hid & _). assert (L : 255 <? msg_id (f_msg f) = false) by (apply N.ltb_ge; lia).
    rewrite L. unfold u8. rewrite (N.mod_small _ _ Hid). reflexivity.
Qed.

Theorem v1_big_id_refused f p : f_v2 f = false -> 255 < frame_id f -> marshal f p = Err err_v1_bigid.
Proof.
  unfold marshal, frame_id. intros V H. rewrite V.
  assert (L : 255 <? msg_id (f_msg f) = true) by (apply N.ltb_lt; exact H). rewrite L. reflexivity.
Qed.

Theorem frame_len_le_280 f p bs : frame_wf f p -> marshal f p = Ok bs -> (length bs <= 280)%nat.
Proof.
  intros W M. rewrite (marshal_is_spec f p W) in M. inversion M; subst bs.
  unfold frame_wf in W. destruct W as (_ & _ & Hl & _ & _ & _ & _ & Hv).
  unfold spec_bytes. destruct (f_v2 f).
  - destruct Hv as (_ & _ & [(Hi & Hsg & _) | (Hi & _ & _ & s & Hsg & Hsl & _)]); rewrite Hi.
    + cbn [N.eqb]. repeat (rewrite ?app_length; cbn [length app]). lia.
    + cbn [N.eqb Pos.eqb]. unfold sig_block. rewrite Hsg.
      repeat (rewrite ?app_length; cbn [length app]). rewrite Hsl. lia.
  - repeat (rewrite ?app_length; cbn [length app]). lia.
Qed.

(* ---------- reading the spec bytes back ---------- *)

Lemma fpd_exact n (h : list N) rest : length h = n ->
  f_peek_discard n (map B h ++ rest) = (Ok h, rest).
Proof.
  intros L. subst n. unfold f_peek_discard. rewrite ftake_bytes by (apply Nat.le_refl).
  rewrite firstn_all, skipn_all. reflexivity.
Qed.
Lemma frf_exact n (h : list N) rest : length h = n ->
  f_read_full n (map B h ++ rest) = (Ok h, rest).
Proof.
  intros L. subst n. unfold f_read_full. rewrite ftake_bytes by (apply Nat.le_refl).
  rewrite firstn_all, skipn_all. reflexivity.
Qed.
Lemma fpayload_exact (p : list N) rest :
  g_read_payload fstream f_read_full (length p) (map B p ++ rest) = (Ok p, rest).
Proof.
  unfold g_read_payload. destruct p as [|x p]; [reflexivity|].
  change (length (x :: p)) with (S (length p)). apply frf_exact. reflexivity.
Qed.

Definition nocfg : rcfg := mkRcfg None None.

Lemma le_dec_2 x : x < 65536 -> le_dec [x mod 256; x / 256] = x.
Proof. intros H. rewrite <- (le_enc_2 x H). apply le_dec_le_enc. exact H. Qed.
Lemma le_dec_3 x : x < 16777216 -> le_dec [x mod 256; (x / 256) mod 256; x / 65536] = x.
Proof. intros H. rewrite <- (le_enc_3 x H). apply le_dec_le_enc. exact H. Qed.
Lemma le_dec_6 x : x < 281474976710656 ->
  le_dec [x mod 256; (x / 256) mod 256; (x / 65536) mod 256; (x / 16777216) mod 256;
          (x / 4294967296) mod 256; x / 1099511627776] = x.
Proof. intros H. rewrite <- (le_enc_6 x H). apply le_dec_le_enc. exact H. Qed.

Lemma frame_ext f v2 inc cmp sq sy co m ck lk ts sg :
  f_v2 f = v2 -> f_inc f = inc -> f_cmp f = cmp -> f_seq f = sq -> f_sys f = sy -> f_comp f = co ->
  f_msg f = m -> f_ck f = ck -> f_link f = lk -> f_ts f = ts -> f_sig f = sg ->
  mkFrame v2 inc cmp sq sy co m ck lk ts sg = f.
Proof. intros; destruct f; cbn in *; subst; reflexivity. Qed.
Ltac close_frame := do 3 f_equal; apply frame_ext; cbn; auto.

Ltac close_um := f_equal; f_equal; apply frame_ext; cbn; auto.

Lemma unmarshal_spec_v2 f p rest : frame_wf f p -> f_v2 f = true ->
  g_unmarshal_v2 fstream f_peek_discard f_read_full (map B (tl (spec_bytes f p)) ++ rest) = (Ok f, rest).
Proof.
  intros W V. unfold frame_wf in W. destruct W as (Hm & Hp & Hl & Hs & Hy & Hc & Hk & Hv).
  unfold spec_bytes, frame_id in *. rewrite V in *. destruct Hv as (Hid & Hcm & Hsig).
  cbn [tl app map]. unfold g_unmarshal_v2.
  match goal with |- context [f_peek_discard 9 ?l] =>
    replace l with (map B [nlen p; f_inc f; f_cmp f; f_seq f; f_sys f; f_comp f;
                           msg_id (f_msg f) mod 256; (msg_id (f_msg f) / 256) mod 256; msg_id (f_msg f) / 65536]
                    ++ (map B p ++ map B [f_ck f mod 256; f_ck f / 256] ++
                        map B (if f_inc f =? 1 then sig_block f else []) ++ rest))
      by (rewrite !map_app; cbn [map app]; rewrite <- !app_assoc; reflexivity) end.
  rewrite fpd_exact by reflexivity.
  assert (Hinc : negb (f_inc f =? 0) && negb (f_inc f =? 1) = false).
  { destruct Hsig as [(Hi & _) | (Hi & _)]; rewrite Hi; reflexivity. }
  rewrite Hinc. unfold nlen. rewrite Nat2N.id. rewrite fpayload_exact.
  rewrite fpd_exact by reflexivity. rewrite le_dec_2, le_dec_3 by assumption.
  destruct Hsig as [(Hi & Hsg & Hlk & Hts) | (Hi & Hlk & Hts & s & Hsg & Hsl & Hsb)].
  - unfold is_signed. cbn [f_inc]. rewrite Hi. cbn [N.land N.eqb negb app map]. close_um.
  - unfold is_signed. cbn [f_inc]. rewrite Hi. cbn [N.land Pos.land N.eqb negb N.eqb Pos.eqb].
    unfold sig_block. rewrite Hsg.
    match goal with |- context [f_peek_discard 13 ?l] =>
      replace l with (map B ([f_link f; f_ts f mod 256; (f_ts f / 256) mod 256; (f_ts f / 65536) mod 256;
                              (f_ts f / 16777216) mod 256; (f_ts f / 4294967296) mod 256;
                              f_ts f / 1099511627776] ++ s) ++ rest) by reflexivity end.
    rewrite fpd_exact by (rewrite app_length, Hsl; reflexivity).
    cbn [hd app skipn firstn]. rewrite le_dec_6 by assumption.
    unfold set_sig. cbn [f_v2 f_inc f_cmp f_seq f_sys f_comp f_msg f_ck]. close_um.
Qed.

Lemma unmarshal_spec_v1 f p rest : frame_wf f p -> f_v2 f = false ->
  g_unmarshal_v1 fstream f_peek_discard f_read_full (map B (tl (spec_bytes f p)) ++ rest) = (Ok f, rest).
Proof.
  intros W V. unfold frame_wf in W. destruct W as (Hm & Hp & Hl & Hs & Hy & Hc & Hk & Hv).
  unfold spec_bytes, frame_id in *. rewrite V in *. destruct Hv as (Hid & Hi & Hcm & Hsg & Hlk & Hts).
  cbn [tl app map]. unfold g_unmarshal_v1.
  match goal with |- context [f_peek_discard 5 ?l] =>
    replace l with (map B [nlen p; f_seq f; f_sys f; f_comp f; msg_id (f_msg f)]
                    ++ (map B p ++ map B [f_ck f mod 256; f_ck f / 256] ++ rest))
      by (rewrite !map_app; cbn [map app]; rewrite <- !app_assoc; reflexivity) end.
  rewrite fpd_exact by reflexivity.
  unfold nlen. rewrite Nat2N.id. rewrite fpayload_exact.
  rewrite fpd_exact by reflexivity. rewrite le_dec_2 by assumption. close_um.
Qed.

(* what Reader.Read does with a frame once it has been parsed *)
Definition post_read (cfg : rcfg) (st : rstate) (f : frame) : rresult * rstate :=
  let '(kerr, st') := match r_inkey cfg with None => (None, st) | Some k => check_key k st f end in
  match kerr with
  | Some code => (RParse code, st')
  | None => match r_dialect cfg with None => (RFrame f, st') | Some d => (check_dialect d f, st') end
  end.

(* reading the spec layout of a well-formed frame, followed by anything, parses exactly that
   frame, leaves exactly what followed, and hands the frame to the key / dialect checks *)
Theorem read_spec_bytes cfg f p st rest : frame_wf f p ->
  flat_reader_read cfg st (map B (spec_bytes f p) ++ rest) =
  (fst (post_read cfg st f), snd (post_read cfg st f), rest).
Proof.
  intros W. unfold flat_reader_read, g_reader_read, post_read.
  destruct (f_v2 f) eqn:V.
  - pose proof (unmarshal_spec_v2 f p rest W V) as U.
    unfold spec_bytes in *. rewrite V in *. cbn [tl app] in U.
    cbn [map app f_read_byte ftake]. cbn [N.eqb Pos.eqb].
    cbn [map app] in U. rewrite U.
    destruct (match r_inkey cfg with Some k => check_key k st f | None => (None, st) end) as [kerr st'].
    destruct kerr; [reflexivity|]. destruct (r_dialect cfg); reflexivity.
  - pose proof (unmarshal_spec_v1 f p rest W V) as U.
    unfold spec_bytes in *. rewrite V in *. cbn [tl app] in U.
    cbn [map app f_read_byte ftake]. cbn [N.eqb Pos.eqb].
    cbn [map app] in U. rewrite U.
    destruct (match r_inkey cfg with Some k => check_key k st f | None => (None, st) end) as [kerr st'].
    destruct kerr; [reflexivity|]. destruct (r_dialect cfg); reflexivity.
Qed.

Theorem roundtrip_flat f p st rest : frame_wf f p ->
  flat_reader_read nocfg st (map B (spec_bytes f p) ++ rest) = (RFrame f, st, rest).
Proof. intros W. rewrite (read_spec_bytes nocfg f p st rest W). reflexivity. Qed.

(* the same on the chunked bufio model, for every way of splitting the bytes into reads *)
Theorem roundtrip_chunked f p st s : frame_wf f p ->
  forall rest, items s = map B (spec_bytes f p) ++ rest ->
  exists s', reader_read nocfg st s = (RFrame f, st, s') /\ items s' = rest.
Proof.
  intros W rest I. pose proof (reader_read_flat nocfg st s) as F.
  rewrite I, (roundtrip_flat f p st rest W) in F.
  destruct (reader_read nocfg st s) as [[r st'] s']. inversion F; subst. eauto.
Qed.
