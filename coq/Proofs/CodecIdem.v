(* Decoded values are canonical: re-encoding what was decoded never panics, and decoding the
   re-encoding returns the same value (C08, C05 totality). *)
From Coq Require Import ZArith Lia PeanoNat.
From GM Require Import Bytes BytesProofs CodecBytes Result Codec CodecProofs.
Local Open Scope nat_scope.

(* indexes of the field table: distinct and inside the struct *)
Definition idx_wf (c : codec) : Prop :=
  NoDup (map fd_index (c_fields c)) /\ Forall (fun f => fd_index f < c_nfields c) (c_fields c).

Lemma set_nth_length {A} : forall n (x : A) l, length (set_nth n x l) = length l.
Proof. induction n; intros x [|h t]; cbn; auto. Qed.
Lemma set_nth_same {A} : forall n (x d : A) l, n < length l -> nth n (set_nth n x l) d = x.
Proof. induction n; intros x d [|h t] H; cbn in *; try lia; auto. apply IHn. lia. Qed.
Lemma set_nth_other {A} : forall n m (x d : A) l, n <> m -> nth m (set_nth n x l) d = nth m l d.
Proof.
  induction n; intros m x d [|h t] H; cbn; auto.
  - destruct m; [lia|reflexivity].
  - destruct m; [reflexivity|]. apply IHn. lia.
Qed.

Lemma zero_value_length c : length (zero_value c) = c_nfields c.
Proof. unfold zero_value. rewrite map_length, seq_length. reflexivity. Qed.

(* ---- pointwise description of dec_all and canon_all ---- *)
Lemma dec_all_length : forall fs v2 q acc, length (dec_all fs v2 q acc) = length acc.
Proof.
  induction fs as [|f t IH]; intros; cbn [dec_all]; [reflexivity|].
  destruct (active v2 f); rewrite IH; [apply set_nth_length|reflexivity].
Qed.
Lemma canon_all_length : forall fs v2 V acc, length (canon_all fs v2 V acc) = length acc.
Proof.
  induction fs as [|f t IH]; intros; cbn [canon_all]; [reflexivity|].
  destruct (active v2 f); rewrite IH; [apply set_nth_length|reflexivity].
Qed.

Lemma dec_all_untouched : forall fs v2 q acc i d,
  (forall f, In f fs -> active v2 f = true -> fd_index f <> i) ->
  nth i (dec_all fs v2 q acc) d = nth i acc d.
Proof.
  induction fs as [|f t IH]; intros v2 q acc i d H; cbn [dec_all]; [reflexivity|].
  destruct (active v2 f) eqn:A.
  - rewrite IH by (intros g Hg; apply H; right; exact Hg).
    apply set_nth_other. apply H; [left; reflexivity|exact A].
  - apply IH. intros g Hg. apply H. right. exact Hg.
Qed.
Lemma canon_all_untouched : forall fs v2 V acc i d,
  (forall f, In f fs -> active v2 f = true -> fd_index f <> i) ->
  nth i (canon_all fs v2 V acc) d = nth i acc d.
Proof.
  induction fs as [|f t IH]; intros v2 V acc i d H; cbn [canon_all]; [reflexivity|].
  destruct (active v2 f) eqn:A.
  - rewrite IH by (intros g Hg; apply H; right; exact Hg).
    apply set_nth_other. apply H; [left; reflexivity|exact A].
  - apply IH. intros g Hg. apply H. right. exact Hg.
Qed.

(* every active field's slot holds the decoding of some bytes of the right length *)
Definition decoded_slot (f : field) (x : fval) : Prop :=
  exists h, flen f <= length h /\ bytes_ok h = true /\ x = dec_fval f h.

Lemma bytes_ok_skipn n : forall l, bytes_ok l = true -> bytes_ok (skipn n l) = true.
Proof. induction n; intros [|b l] H; cbn in *; auto. apply andb_prop in H. apply IHn. tauto. Qed.
Lemma bytes_ok_firstn n : forall l, bytes_ok l = true -> bytes_ok (firstn n l) = true.
Proof. induction n; intros [|b l] H; cbn in *; auto. apply andb_prop in H. destruct H. rewrite H. cbn. auto. Qed.

Lemma dec_all_slots : forall fs v2 q acc d,
  NoDup (map fd_index fs) -> Forall (fun f => fd_index f < length acc) fs ->
  total_len v2 fs <= length q -> bytes_ok q = true ->
  forall f, In f fs -> active v2 f = true -> decoded_slot f (nth (fd_index f) (dec_all fs v2 q acc) d).
Proof.
  induction fs as [|g t IH]; intros v2 q acc d ND Hi Hl Hb f Hf A; [contradiction|].
  cbn [map] in ND. inversion ND as [|? ? NI ND']; subst. inversion Hi as [|? ? Hg Hi']; subst.
  cbn [dec_all total_len fold_right] in *. fold (total_len v2 t) in Hl.
  destruct Hf as [E|Hf].
  - subst g. rewrite A in *. rewrite dec_all_untouched.
    + rewrite set_nth_same by exact Hg. exists q. repeat split; auto. lia.
    + intros h Hh _ Eq. apply NI. rewrite <- Eq. apply in_map. exact Hh.
  - destruct (active v2 g) eqn:Ag.
    + apply IH; auto.
      * apply Forall_forall. intros h Hh. rewrite set_nth_length. rewrite Forall_forall in Hi'. auto.
      * rewrite skipn_length. lia.
      * apply bytes_ok_skipn. exact Hb.
    + apply IH; auto.
Qed.

Lemma canon_all_slots : forall fs v2 V acc d,
  NoDup (map fd_index fs) -> Forall (fun f => fd_index f < length acc) fs ->
  forall f, In f fs -> active v2 f = true ->
  nth (fd_index f) (canon_all fs v2 V acc) d = canon_field f (nth (fd_index f) V (VU 0)).
Proof.
  induction fs as [|g t IH]; intros v2 V acc d ND Hi f Hf A; [contradiction|].
  cbn [map] in ND. inversion ND as [|? ? NI ND']; subst. inversion Hi as [|? ? Hg Hi']; subst.
  cbn [canon_all]. destruct Hf as [E|Hf].
  - subst g. rewrite A. rewrite canon_all_untouched.
    + apply set_nth_same. exact Hg.
    + intros h Hh _ Eq. apply NI. rewrite <- Eq. apply in_map. exact Hh.
  - destruct (active v2 g); apply IH; auto.
    apply Forall_forall. intros h Hh. rewrite set_nth_length. rewrite Forall_forall in Hi'. auto.
Qed.

(* ---- field-level idempotence ---- *)
Lemma cstr_length l : length (cstr l) <= length l.
Proof. induction l as [|b l IH]; cbn; [lia|]. destruct b; cbn; lia. Qed.
Lemma cstr_no_zero l : cstr (cstr l ++ zeros 1) = cstr l /\ forall k, cstr (cstr l ++ zeros k) = cstr l.
Proof.
  assert (G : forall k, cstr (cstr l ++ zeros k) = cstr l).
  { intros k. induction l as [|b l IH]; cbn.
    - destruct k; reflexivity.
    - destruct b; cbn; [destruct k; reflexivity|f_equal; exact IH]. }
  split; [apply G|exact G].
Qed.
Lemma cstr_zpad_cstr n h : length h <= n -> cstr (zpad n (cstr h)) = cstr h.
Proof.
  intros H. rewrite zpad_short by (pose proof (cstr_length h); lia). apply cstr_no_zero.
Qed.

Lemma canon_dec_val f h : length h = elem_len f -> bytes_ok h = true ->
  canon_scalar f (dec_val f h) = dec_val f h.
Proof.
  intros L B. unfold dec_val, canon_scalar.
  destruct (negb (fd_enum f) && ftype_eqb (fd_type f) TChar) eqn:C.
  - f_equal. apply cstr_zpad_cstr. rewrite L. unfold elem_len.
    apply andb_prop in C. destruct C as [C1 C2]. destruct (fd_enum f); [discriminate|].
    destruct (fd_type f); try discriminate. apply Nat.le_refl.
  - f_equal. apply N.mod_small. rewrite <- L. apply le_dec_lt. exact B.
Qed.

Lemma firstn_len_le {A} n (l : list A) : n <= length l -> length (firstn n l) = n.
Proof. intros. rewrite firstn_length. lia. Qed.

Lemma canon_dec_vals f : forall k h, k * elem_len f <= length h -> bytes_ok h = true ->
  map (canon_scalar f) (dec_vals f k h) = dec_vals f k h.
Proof.
  induction k as [|k IH]; intros h L B; [reflexivity|]. cbn [dec_vals map]. cbn in L.
  rewrite canon_dec_val by (try apply firstn_len_le; try apply bytes_ok_firstn; try lia; exact B).
  f_equal. apply IH; [rewrite skipn_length; lia|apply bytes_ok_skipn; exact B].
Qed.

Lemma canon_dec_fval f h : flen f <= length h -> bytes_ok h = true ->
  canon_field f (dec_fval f h) = dec_fval f h.
Proof.
  unfold flen, canon_field, dec_fval. destruct (fd_isarr f); intros L B.
  - f_equal. apply canon_dec_vals; assumption.
  - apply canon_dec_val; [apply firstn_len_le; exact L|apply bytes_ok_firstn; exact B].
Qed.

(* encoding a decoded slot succeeds *)
Lemma enc_dec_val f h : length h = elem_len f -> exists b, enc_scalar f (dec_val f h) = Ok b.
Proof.
  intros L. unfold dec_val, enc_scalar.
  destruct (negb (fd_enum f) && ftype_eqb (fd_type f) TChar) eqn:C.
  - apply andb_prop in C. destruct C as [C1 C2]. destruct (fd_enum f); [discriminate|].
    destruct (fd_type f); try discriminate. eauto.
  - destruct (fd_type f) eqn:T; eauto. destruct (fd_enum f); [eauto|discriminate].
Qed.
Lemma enc_dec_vals f : forall k h, k * elem_len f <= length h ->
  exists b, enc_elems f (dec_vals f k h) = Ok b /\ length (dec_vals f k h) = k.
Proof.
  induction k as [|k IH]; intros h L; [exists []; auto|]. cbn [dec_vals enc_elems length]. cbn in L.
  destruct (enc_dec_val f (firstn (elem_len f) h)) as [a Ea]; [apply firstn_len_le; lia|].
  destruct (IH (skipn (elem_len f) h)) as [r [Er Lr]]; [rewrite skipn_length; lia|].
  rewrite Ea, Er. cbn. eexists. split; [reflexivity|f_equal; exact Lr].
Qed.
Lemma enc_dec_fval f h : flen f <= length h -> exists b, enc_field f (dec_fval f h) = Ok b.
Proof.
  unfold flen, enc_field, dec_fval. destruct (fd_isarr f); intros L.
  - destruct (enc_dec_vals f (fd_golen f) h L) as [b [E Ln]]. rewrite Ln, Nat.eqb_refl. eauto.
  - apply enc_dec_val. apply firstn_len_le. exact L.
Qed.

Lemma enc_fields_ok : forall fs v2 V,
  (forall f, In f fs -> active v2 f = true ->
     exists x, nth_error V (fd_index f) = Some x /\ exists b, enc_field f x = Ok b) ->
  exists e, enc_fields fs v2 V = Ok e.
Proof.
  induction fs as [|f t IH]; intros v2 V H; cbn [enc_fields]; [eauto|].
  rewrite active_neg. destruct (active v2 f) eqn:A; cbn [negb].
  - destruct (H f (or_introl eq_refl) A) as [x [Nx [b Eb]]]. rewrite Nx, Eb. cbn [rbind].
    destruct (IH v2 V) as [e Ee]; [intros g Hg; apply H; right; exact Hg|]. rewrite Ee. cbn. eauto.
  - apply IH. intros g Hg. apply H. right. exact Hg.
Qed.

(* ---- encodings of decoded slots are byte strings ---- *)
Lemma bytes_ok_app a b : bytes_ok (a ++ b) = bytes_ok a && bytes_ok b.
Proof. unfold bytes_ok. apply forallb_app. Qed.
Lemma bytes_ok_zeros k : bytes_ok (zeros k) = true.
Proof. induction k; cbn; auto. Qed.
Lemma bytes_ok_zpad n : forall l, bytes_ok l = true -> bytes_ok (zpad n l) = true.
Proof.
  induction n; intros [|b l] H; cbn [zpad]; auto.
  - cbn [bytes_ok forallb]. change (forallb byte_ok (zpad n [])) with (bytes_ok (zpad n [])). rewrite (IHn []); auto.
  - cbn [bytes_ok forallb] in *. apply andb_prop in H. destruct H as [H1 H2]. rewrite H1. cbn [andb]. apply IHn. exact H2.
Qed.
Lemma bytes_ok_cstr l : bytes_ok l = true -> bytes_ok (cstr l) = true.
Proof.
  induction l as [|b l IH]; intros H; cbn; auto. cbn in H. apply andb_prop in H. destruct H as [H1 H2].
  destruct b; cbn; auto. rewrite H1. cbn. auto.
Qed.
Lemma bytes_ok_strip l : bytes_ok l = true -> bytes_ok (strip_zeros l) = true.
Proof.
  intros H. destruct (strip_spec l) as [k E]. rewrite E in H. rewrite bytes_ok_app in H.
  apply andb_prop in H. tauto.
Qed.
Lemma strip_length l : length (strip_zeros l) <= length l.
Proof. destruct (strip_spec l) as [k E]. rewrite E at 2. rewrite app_length. lia. Qed.

Lemma enc_dec_val_bytes f h b : bytes_ok h = true -> enc_scalar f (dec_val f h) = Ok b -> bytes_ok b = true.
Proof.
  intros Bh. unfold dec_val, enc_scalar.
  destruct (negb (fd_enum f) && ftype_eqb (fd_type f) TChar) eqn:C.
  - apply andb_prop in C. destruct C as [C1 C2]. destruct (fd_enum f); [discriminate|].
    destruct (fd_type f); try discriminate. intros H. apply Ok_inj in H. rewrite <- H.
    apply bytes_ok_zpad. apply bytes_ok_cstr. exact Bh.
  - destruct (fd_type f); try (intros H; apply Ok_inj in H; rewrite <- H; apply le_enc_bytes_ok).
    destruct (fd_enum f); [|discriminate]. intros H; apply Ok_inj in H; rewrite <- H. apply le_enc_bytes_ok.
Qed.
Lemma enc_dec_vals_bytes f : forall k h b, bytes_ok h = true -> enc_elems f (dec_vals f k h) = Ok b -> bytes_ok b = true.
Proof.
  induction k as [|k IH]; intros h b Bh H; cbn [dec_vals enc_elems] in H; [apply Ok_inj in H; rewrite <- H; reflexivity|].
  destruct (enc_scalar f (dec_val f (firstn (elem_len f) h))) as [a| |] eqn:Ea; cbn in H; try discriminate.
  destruct (enc_elems f (dec_vals f k (skipn (elem_len f) h))) as [r| |] eqn:Er; cbn in H; try discriminate.
  apply Ok_inj in H. rewrite <- H. rewrite bytes_ok_app.
  rewrite (enc_dec_val_bytes _ _ _ (bytes_ok_firstn _ _ Bh) Ea). rewrite (IH _ _ (bytes_ok_skipn _ _ Bh) Er). reflexivity.
Qed.
Lemma enc_dec_fval_bytes f h b : bytes_ok h = true -> enc_field f (dec_fval f h) = Ok b -> bytes_ok b = true.
Proof.
  intros Bh. unfold enc_field, dec_fval. destruct (fd_isarr f).
  - destruct (Nat.eqb _ _); [|discriminate]. apply enc_dec_vals_bytes. exact Bh.
  - apply enc_dec_val_bytes. apply bytes_ok_firstn. exact Bh.
Qed.

Lemma enc_fields_bytes : forall fs v2 V e,
  (forall f d, In f fs -> active v2 f = true -> decoded_slot f (nth (fd_index f) V d)) ->
  enc_fields fs v2 V = Ok e -> bytes_ok e = true.
Proof.
  induction fs as [|f t IH]; intros v2 V e H E; cbn [enc_fields] in E; [apply Ok_inj in E; rewrite <- E; reflexivity|].
  rewrite active_neg in E. destruct (active v2 f) eqn:A; cbn [negb] in E.
  - destruct (nth_error V (fd_index f)) as [x|] eqn:Nx; [|discriminate].
    destruct (enc_field f x) as [a| |] eqn:Ea; cbn in E; try discriminate.
    destruct (enc_fields t v2 V) as [r| |] eqn:Er; cbn in E; try discriminate.
    apply Ok_inj in E. rewrite <- E. rewrite bytes_ok_app.
    destruct (H f x (or_introl eq_refl) A) as [h [Lh [Bh Eh]]]. rewrite (nth_error_nth _ _ _ Nx) in Eh. subst x.
    rewrite (enc_dec_fval_bytes _ _ _ Bh Ea). rewrite (IH v2 V r); auto. intros g d Hg. apply H. right. exact Hg.
  - apply (IH v2 V e); auto. intros g d Hg. apply H. right. exact Hg.
Qed.

Definition codec_wf2 (c : codec) : Prop := codec_wf c /\ idx_wf c.

Section Idem.
Variables (c : codec) (v2 : bool) (p : list N) (V : value).
Hypothesis W : codec_wf2 c.
Hypothesis Bp : bytes_ok p = true.
Hypothesis R : msg_read c v2 p = Ok V.

(* V is dec_all over some byte string long enough *)
Lemma read_shape : exists q, bytes_ok q = true /\ total_len v2 (c_fields c) <= length q /\
  V = dec_all (c_fields c) v2 q (zero_value c).
Proof.
  destruct W as [[W2 W1] _]. destruct v2.
  - rewrite read_v2_is_zpad in R by (split; assumption). inversion R.
    exists (zpad (sz c) p). repeat split.
    + destruct (Nat.le_ge_cases (length p) (sz c)).
      * rewrite zpad_short by assumption. unfold bytes_ok in *. rewrite forallb_app, Bp. cbn.
        clear. induction (sz c - length p); cbn; auto.
      * rewrite zpad_long by assumption. apply bytes_ok_firstn. exact Bp.
    + rewrite zpad_length. unfold sz. rewrite W2. apply Nat.le_refl.
  - unfold msg_read in R. destruct (Nat.eqb_spec (length p) (N.to_nat (c_size_normal c))) as [E|E]; [|discriminate].
    rewrite dec_fields_ok in R by (rewrite <- W1, E; apply Nat.le_refl). inversion R.
    exists p. repeat split; auto. rewrite <- W1, E. apply Nat.le_refl.
Qed.

Lemma slots_decoded : forall f d, In f (c_fields c) -> active v2 f = true ->
  decoded_slot f (nth (fd_index f) V d).
Proof.
  destruct read_shape as [q [Bq [Lq EV]]]. destruct W as [_ [ND IB]]. intros f d Hf A. rewrite EV.
  apply dec_all_slots; auto. rewrite zero_value_length. exact IB.
Qed.

Lemma V_length : length V = c_nfields c.
Proof. destruct read_shape as [q [_ [_ EV]]]. rewrite EV, dec_all_length. apply zero_value_length. Qed.

(* re-encoding a decoded message never fails *)
Theorem write_of_read_ok : exists p', msg_write c v2 V = Ok p'.
Proof.
  assert (E : exists e, enc_fields (c_fields c) v2 V = Ok e).
  { apply enc_fields_ok. intros f Hf A. destruct W as [_ [ND IB]]. rewrite Forall_forall in IB.
    exists (nth (fd_index f) V (VU 0)). split.
    - apply nth_error_nth'. rewrite V_length. apply IB. exact Hf.
    - destruct (slots_decoded f (VU 0) Hf A) as [h [Lh [_ Eh]]]. rewrite Eh. apply enc_dec_fval. exact Lh. }
  destruct E as [e Ee]. unfold msg_write. rewrite Ee. cbn [rbind].
  pose proof (enc_fields_len _ _ _ _ Ee) as Le. destruct W as [[W2 W1] _].
  assert (Hs : length e = N.to_nat (codec_size c v2)) by (unfold codec_size; destruct v2; [rewrite W2|rewrite W1]; exact Le).
  rewrite Hs, Nat.leb_refl. eauto.
Qed.

(* decoding the re-encoding returns the same message *)
Theorem read_write_read p' : msg_write c v2 V = Ok p' -> msg_read c v2 p' = Ok V.
Proof.
  intros Wr. destruct W as [Wc [ND IB]]. rewrite (read_write c v2 V p' Wc Wr). f_equal.
  destruct read_shape as [q [Bq [Lq EV]]].
  apply (nth_ext _ _ (VU 0) (VU 0)).
  - rewrite canon_all_length, zero_value_length. symmetry. apply V_length.
  - intros i Hi.
    destruct (existsb (fun f => active v2 f && Nat.eqb (fd_index f) i) (c_fields c)) eqn:Ex.
    + apply existsb_exists in Ex. destruct Ex as [f [Hf C]]. apply andb_prop in C. destruct C as [A Ei].
      apply Nat.eqb_eq in Ei. subst i.
      rewrite canon_all_slots; auto; [|rewrite zero_value_length; exact IB].
      destruct (slots_decoded f (VU 0) Hf A) as [h [Lh [Bh Eh]]]. rewrite Eh. apply canon_dec_fval; assumption.
    + assert (NA : forall f, In f (c_fields c) -> active v2 f = true -> fd_index f <> i).
      { intros f Hf A Eq. assert (T : existsb (fun f => active v2 f && Nat.eqb (fd_index f) i) (c_fields c) = true).
        { apply existsb_exists. exists f. split; [exact Hf|]. rewrite A, Eq, Nat.eqb_refl. reflexivity. }
        rewrite T in Ex. discriminate. }
      rewrite canon_all_untouched by exact NA. rewrite EV. rewrite dec_all_untouched by exact NA. reflexivity.
Qed.
(* the re-encoding is a byte string no longer than the codec's size *)
Theorem write_of_read_bytes p' : msg_write c v2 V = Ok p' ->
  bytes_ok p' = true /\ length p' <= N.to_nat (codec_size c v2).
Proof.
  unfold msg_write. destruct (enc_fields (c_fields c) v2 V) as [e| |] eqn:E; cbn [rbind]; try discriminate.
  assert (Be : bytes_ok e = true).
  { eapply enc_fields_bytes; [|exact E]. intros f d Hf A. apply slots_decoded; assumption. }
  destruct (Nat.leb (length e) (N.to_nat (codec_size c v2))); [|discriminate].
  intros H. apply Ok_inj in H. rewrite <- H.
  pose proof (bytes_ok_zpad (N.to_nat (codec_size c v2)) e Be) as Bz.
  pose proof (zpad_length (N.to_nat (codec_size c v2)) e) as Lz.
  destruct v2.
  - split; [apply bytes_ok_strip; exact Bz|]. pose proof (strip_length (zpad (N.to_nat (codec_size c true)) e)). lia.
  - split; [exact Bz|]. lia.
Qed.
End Idem.
