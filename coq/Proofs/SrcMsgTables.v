(* Tie by translation, pkg/message: the tables fieldTypeFromGo, fieldTypeString and fieldTypeSizes
   regenerated from /repo on every run are the model's functions. *)
From Coq Require Import ZArith NArith List String Ascii Lia Bool Btauto.
From GM Require Import SrcPrelude.
From GM Require Import SrcMessage Bytes Codec Layout.
Import ListNotations.

(* ---------------- the type tables of pkg/message and pkg/conversion ---------------- *)
Definition bytes_of_string (s : string) : list N := map N_of_ascii (list_ascii_of_string s).
Definition all_ftypes := [TDouble; TUint64; TInt64; TFloat; TUint32; TInt32; TUint16; TInt16; TUint8; TInt8; TChar].
Definition ftype_code (t : ftype) : Z :=
  match t with
  | TDouble => c_message_typeDouble | TUint64 => c_message_typeUint64 | TInt64 => c_message_typeInt64
  | TFloat => c_message_typeFloat | TUint32 => c_message_typeUint32 | TInt32 => c_message_typeInt32
  | TUint16 => c_message_typeUint16 | TInt16 => c_message_typeInt16 | TUint8 => c_message_typeUint8
  | TInt8 => c_message_typeInt8 | TChar => c_message_typeChar
  end.
Definition of_code (z : Z) : option ftype := List.find (fun t => Z.eqb (ftype_code t) z) all_ftypes.
Definition opt_ftype_eqb (a b : option ftype) : bool :=
  match a, b with Some x, Some y => ftype_eqb x y | None, None => true | _, _ => false end.
Definition opt_bytes_eqb (a b : option (list N)) : bool :=
  match a, b with Some x, Some y => bytes_eqb x y | None, None => true | _, _ => false end.

Definition tables_ok : bool :=
  (* the eleven codes are distinct and every table has exactly eleven rows *)
  (Nat.eqb (List.length (nodup Z.eq_dec (map ftype_code all_ftypes))) 11) &&
  (Nat.eqb (List.length t_message_fieldTypeSizes) 11) && (Nat.eqb (List.length t_message_fieldTypeString) 11) &&
  (Nat.eqb (List.length t_message_fieldTypeFromGo) 11) &&
  (* fieldTypeSizes = ftype_size *)
  forallb (fun r => match of_code (fst r) with Some t => Z.eqb (Z.of_nat (ftype_size t)) (snd r) | None => false end)
          t_message_fieldTypeSizes &&
  (* fieldTypeString = ftype_string *)
  forallb (fun r => match of_code (fst r) with Some t => bytes_eqb (ftype_string t) (bytes_of_string (snd r)) | None => false end)
          t_message_fieldTypeString &&
  (* fieldTypeFromGo = ftype_from_go *)
  forallb (fun r => opt_ftype_eqb (ftype_from_go (bytes_of_string (fst r))) (of_code (snd r))) t_message_fieldTypeFromGo.

Theorem src_type_tables : tables_ok = true.
Proof. vm_compute. reflexivity. Qed.
