(* C07: the replay window, for all 48-bit timestamps and all histories. *)
From Coq Require Import ZArith Lia ZifyN ZifyNat ZifyBool.
From GM Require Import Bytes Result Frame Reader Writer.

(* the reader's behaviour on a history of correctly signed frames: accepted? per frame *)
Fixpoint win_hist (cur : N) (l : list N) : list bool :=
  match l with
  | [] => []
  | ts :: t => if window_refuse cur ts then false :: win_hist cur t
               else true :: win_hist (window_update cur ts) t
  end.

(* specification, independent of the "newest" register: a frame is refused exactly when some
   frame accepted earlier is more than [window] ticks newer *)
Fixpoint spec_hist (accepted : list N) (l : list N) : list bool :=
  match l with
  | [] => []
  | ts :: t => if existsb (fun a => ts + window <? a) accepted then false :: spec_hist accepted t
               else true :: spec_hist (ts :: accepted) t
  end.

Definition newest (acc : list N) : N := fold_right N.max 0 acc.

Lemma refuse_iff_exists acc ts :
  window_refuse (newest acc) ts = existsb (fun a => ts + window <? a) acc.
Proof.
  unfold window_refuse. induction acc as [|a acc IH]; cbn [newest fold_right existsb].
  - reflexivity.
  - fold (newest acc). rewrite <- IH. unfold window in *.
    destruct (ts + 1000000 <? a) eqn:E1; destruct (0 <? newest acc) eqn:E2;
      destruct (ts + 1000000 <? newest acc) eqn:E3;
      destruct (0 <? N.max a (newest acc)) eqn:E4; destruct (ts + 1000000 <? N.max a (newest acc)) eqn:E5;
      cbn; try reflexivity; lia.
Qed.

Lemma update_is_newest acc ts : window_update (newest acc) ts = newest (ts :: acc).
Proof. unfold window_update. cbn [newest fold_right]. fold (newest acc).
  destruct (newest acc <? ts) eqn:E; lia. Qed.

Theorem window_history_is_spec : forall l acc, win_hist (newest acc) l = spec_hist acc l.
Proof.
  induction l as [|ts l IH]; intros acc; [reflexivity|].
  cbn [win_hist spec_hist]. rewrite refuse_iff_exists.
  destruct (existsb (fun a => ts + window <? a) acc).
  - f_equal. apply IH.
  - f_equal. rewrite update_is_newest. apply IH.
Qed.

(* one step, in words: refused iff more than 10 s (10^6 ticks) older than the newest accepted *)
Theorem window_is_spec cur ts :
  window_refuse cur ts = true <-> (0 < cur /\ ts + 1000000 < cur).
Proof. unfold window_refuse, window. split; intros H; lia. Qed.

(* frames inside the window — reordered and equal ones included — are accepted *)
Theorem window_accepts_inside cur ts : cur <= ts + 1000000 -> window_refuse cur ts = false.
Proof. unfold window_refuse, window. intros H. lia. Qed.

(* the register is the newest accepted timestamp: never decreases, only accepted frames move it *)
Theorem window_update_max cur ts : window_update cur ts = N.max cur ts.
Proof. unfold window_update. destruct (cur <? ts) eqn:E; lia. Qed.

(* outgoing timestamps: 10-microsecond ticks of a duration in ns, monotone in the clock *)
Theorem sig_ticks_units ns : ns < 18446744073709551616 -> sig_ticks_of_ns ns = ns / 10000.
Proof. intros H. unfold sig_ticks_of_ns, u64. rewrite N.mod_small by exact H. reflexivity. Qed.

Theorem sig_ticks_monotone a b : a <= b -> b < 18446744073709551616 ->
  sig_ticks_of_ns a <= sig_ticks_of_ns b.
Proof.
  intros H Hb. rewrite !sig_ticks_units by lia. apply N.div_le_mono; [discriminate|exact H].
Qed.
