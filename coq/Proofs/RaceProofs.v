(* C15: an execution that follows the ownership discipline has no data race. *)
From Coq Require Import Lia.
From GM Require Import Race.

Lemma upd_same {A} (f : nat -> A) k v : upd f k v k = v.
Proof. unfold upd. rewrite Nat.eqb_refl. reflexivity. Qed.
Lemma upd_other {A} (f : nat -> A) k v x : x <> k -> upd f k v x = f x.
Proof. unfold upd. intros H. destruct (Nat.eqb_spec x k); [contradiction|reflexivity]. Qed.

Lemma hb_run_snoc tr e : hb_run (tr ++ [e]) = hb_step (hb_run tr) e.
Proof. unfold hb_run. rewrite fold_left_app. reflexivity. Qed.

Lemma disc_run_app d a b : disc_run d (a ++ b) = match disc_run d a with Some d' => disc_run d' b | None => None end.
Proof. revert d. induction a as [|e a IH]; intros d; cbn; [reflexivity|]. destruct (disc_step d e); [apply IH|reflexivity]. Qed.

(* knowledge only grows *)
Lemma K_mono s e g i : K s g i -> K (hb_step s e) g i.
Proof.
  intros H. destruct e as [g0 l w|g0 g1 gv sh|g0 m|g0 m]; cbn.
  - destruct (Nat.eq_dec g g0) as [->|N]; [rewrite upd_same; left; exact H|rewrite upd_other by exact N; exact H].
  - destruct (Nat.eq_dec g g1) as [->|N1]; [rewrite upd_same; left; exact H|rewrite upd_other by exact N1].
    destruct (Nat.eq_dec g g0) as [->|N0]; [rewrite upd_same; left; exact H|rewrite upd_other by exact N0; exact H].
  - destruct (Nat.eq_dec g g0) as [->|N]; [rewrite upd_same; left; exact H|rewrite upd_other by exact N; exact H].
  - destruct (Nat.eq_dec g g0) as [->|N]; [rewrite upd_same; left; exact H|rewrite upd_other by exact N; exact H].
Qed.

Lemma clk_run tr : clk (hb_run tr) = length tr.
Proof.
  induction tr as [|e tr IH] using rev_ind; [reflexivity|].
  rewrite hb_run_snoc, app_length. cbn [length]. destruct e; cbn; rewrite IH; lia.
Qed.

(* every earlier access to a location is known to whoever may access it next *)
Definition covered (hb : hbstate) (d : dstate) (l : loc) (w : bool) (i : nat) : Prop :=
  match perm d l with
  | Excl g => K hb g i
  | Shared gs => w = true -> forall g, In g gs -> K hb g i
  | Guarded m => match holder d m with Some g => K hb g i | None => KM hb m i end
  end.
Definition Inv (hist : list ev) (hb : hbstate) (d : dstate) : Prop :=
  forall i g0 l w, nth_error hist i = Some (Acc g0 l w) -> covered hb d l w i.

Lemma memn_In x l : memn x l = true <-> In x l.
Proof.
  unfold memn. rewrite existsb_exists. split.
  - intros [y [I E]]. apply Nat.eqb_eq in E. subst. exact I.
  - intros I. exists x. split; [exact I|apply Nat.eqb_refl].
Qed.

Lemma nth_snoc {A} (l : list A) e i x : nth_error (l ++ [e]) i = Some x ->
  (i < length l /\ nth_error l i = Some x) \/ (i = length l /\ x = e).
Proof.
  intros H. destruct (Nat.lt_ge_cases i (length l)) as [L|G].
  - left. split; [exact L|]. rewrite nth_error_app1 in H by exact L. exact H.
  - right. rewrite nth_error_app2 in H by exact G.
    destruct (i - length l) as [|k] eqn:E; cbn in H.
    + inversion H. split; [lia|reflexivity].
    + destruct k; discriminate.
Qed.

Lemma inv_step hist hb d e d' : clk hb = length hist ->
  Inv hist hb d -> disc_step d e = Some d' -> Inv (hist ++ [e]) (hb_step hb e) d'.
Proof.
  intros C I S i g0 l w N. apply nth_snoc in N. destruct N as [[L N]|[Ei Ee]].
  - (* an earlier access *)
    specialize (I i g0 l w N). unfold covered in *.
    destruct e as [g l1 w1|g g' gv sh|g m|g m]; cbn [disc_step] in S.
    + destruct (acc_ok d g l1 w1); [|discriminate]. inversion S; subst d'.
      destruct (perm d l) as [gx|gs|m].
      * apply K_mono. exact I.
      * intros W gx Ig. apply K_mono. auto.
      * destruct (holder d m); [apply K_mono; exact I|exact I].
    + destruct (forallb (give_ok d g) gv && forallb (share_ok d g) sh) eqn:OK; [|discriminate].
      inversion S; subst d'. clear S. cbn [perm holder].
      apply andb_prop in OK. destruct OK as [G Sh]. rewrite forallb_forall in G, Sh.
      destruct (memn l gv) eqn:Mg.
      * apply memn_In in Mg. specialize (G l Mg). unfold give_ok in G.
        destruct (perm d l) as [gx|gs|m]; try discriminate. apply Nat.eqb_eq in G. subst gx.
        cbn. destruct (Nat.eq_dec g' g) as [->|NE]; rewrite upd_same; [left; exact I|right; left; exact I].
      * destruct (memn l sh) eqn:Ms.
        -- apply memn_In in Ms. specialize (Sh l Ms). unfold share_ok in Sh.
           destruct (perm d l) as [gx|gs|m]; try discriminate.
           ++ apply Nat.eqb_eq in Sh. subst gx. cbn [shared_with]. intros W gy [<-|[<-|[]]].
              ** apply K_mono. exact I.
              ** cbn. rewrite upd_same. right; left; exact I.
           ++ apply memn_In in Sh. cbn [shared_with]. intros W gy [<-|Iy].
              ** cbn. rewrite upd_same. right; left. apply I; assumption.
              ** apply K_mono. apply I; assumption.
        -- destruct (perm d l) as [gx|gs|m].
           ++ apply K_mono. exact I.
           ++ intros W gy Iy. apply K_mono. auto.
           ++ destruct (holder d m); [apply K_mono; exact I|exact I].
    + destruct (holder d m) as [gh|] eqn:H; [discriminate|]. inversion S; subst d'. cbn [perm holder].
      destruct (perm d l) as [gx|gs|m1].
      * apply K_mono. exact I.
      * intros W gy Iy. apply K_mono. auto.
      * destruct (Nat.eq_dec m1 m) as [->|NE].
        -- rewrite upd_same. rewrite H in I. cbn. rewrite upd_same. right; left. exact I.
        -- rewrite upd_other by exact NE. destruct (holder d m1); [apply K_mono; exact I|exact I].
    + destruct (holder d m) as [gh|] eqn:H; [|discriminate]. destruct (Nat.eqb_spec gh g) as [->|]; [|discriminate].
      inversion S; subst d'. cbn [perm holder].
      destruct (perm d l) as [gx|gs|m1].
      * apply K_mono. exact I.
      * intros W gy Iy. apply K_mono. auto.
      * destruct (Nat.eq_dec m1 m) as [->|NE].
        -- rewrite upd_same. rewrite H in I. cbn. rewrite upd_same. left. exact I.
        -- rewrite upd_other by exact NE. destruct (holder d m1) eqn:H1.
           ++ apply K_mono. exact I.
           ++ cbn. rewrite upd_other by exact NE. exact I.
  - (* the new access itself *)
    subst e. cbn [disc_step] in S. destruct (acc_ok d g0 l w) eqn:OK; [|discriminate]. inversion S; subst d'.
    unfold covered. unfold acc_ok in OK. cbn. rewrite <- C in Ei. subst i.
    destruct (perm d l) as [gx|gs|m].
    + apply Nat.eqb_eq in OK. subst gx. rewrite upd_same. right. reflexivity.
    + apply andb_prop in OK. destruct OK as [_ NW]. destruct w; [discriminate|]. intros X; discriminate.
    + destruct (holder d m) as [gh|]; [|discriminate]. apply Nat.eqb_eq in OK. subst gh. rewrite upd_same. right. reflexivity.
Qed.

Lemma inv_run d0 : forall tr d, disc_run d0 tr = Some d -> Inv tr (hb_run tr) d.
Proof.
  induction tr as [|e tr IH] using rev_ind; intros d R.
  - intros i g0 l w N. destruct i; discriminate.
  - rewrite disc_run_app in R. destruct (disc_run d0 tr) as [d1|] eqn:R1; [|discriminate].
    cbn in R. destruct (disc_step d1 e) as [d2|] eqn:S; [|discriminate]. inversion R; subst d2.
    rewrite hb_run_snoc. apply (inv_step tr (hb_run tr) d1 e d); [apply clk_run|apply IH; reflexivity|exact S].
Qed.

Lemma nth_firstn {A} (l : list A) : forall j i, i < j -> nth_error (firstn j l) i = nth_error l i.
Proof.
  induction l as [|x l IH]; intros j i H; [destruct j, i; reflexivity|].
  destruct j; [lia|]. destruct i; [reflexivity|]. cbn. apply IH. lia.
Qed.

(* ---- the theorem ---- *)
Theorem disciplined_race_free d0 tr : disciplined d0 tr -> ~ data_race tr.
Proof.
  intros [d R] (i & j & gi & gj & l & wi & wj & Lt & Ni & Nj & NE & W & NHB).
  apply NHB. unfold happens_before.
  (* split the trace at j *)
  assert (Sp : tr = firstn j tr ++ Acc gj l wj :: skipn (S j) tr).
  { clear -Nj. revert tr Nj. induction j as [|j IH]; intros [|e t] H; try discriminate.
    - inversion H. reflexivity.
    - cbn. f_equal. apply IH. exact H. }
  rewrite Sp in R. rewrite disc_run_app in R.
  destruct (disc_run d0 (firstn j tr)) as [dj|] eqn:Rj; [|discriminate].
  cbn [disc_run] in R. destruct (disc_step dj (Acc gj l wj)) as [dj'|] eqn:Sj; [|discriminate].
  pose proof (inv_run d0 _ _ Rj) as I.
  assert (Ni' : nth_error (firstn j tr) i = Some (Acc gi l wi)).
  { rewrite nth_firstn by exact Lt. exact Ni. }
  specialize (I i gi l wi Ni'). unfold covered in I.
  cbn [disc_step] in Sj. destruct (acc_ok dj gj l wj) eqn:OK; [|discriminate]. unfold acc_ok in OK.
  destruct (perm dj l) as [gx|gs|m].
  - apply Nat.eqb_eq in OK. subst gx. exact I.
  - apply andb_prop in OK. destruct OK as [Mem NW]. apply memn_In in Mem.
    destruct wj; [discriminate|]. destruct W as [W|W]; [|discriminate]. apply I; assumption.
  - destruct (holder dj m) as [gh|]; [|discriminate]. apply Nat.eqb_eq in OK. subst gh. exact I.
Qed.

(* ---- non-vacuity: the shape of a node's life follows the discipline ---- *)
(* goroutines: 0 application/init, 1 loop, 2 provider, 3 channel, 4 reader, 5 cleaner
   locations:  0 Node config (init-only), 1 Node.channels, 2 Channel fields set in initialize,
               3 Channel.running, 4 lastRequests (mutex 0), 5 reader state *)
Definition node_life : list ev :=
  [ Acc 0 0 true; Acc 0 1 true; Acc 0 4 true;          (* Initialize fills the configuration and the maps *)
    Sync 0 5 [] [0];                                     (* go nodeStreamRequest.run *)
    Sync 0 2 [2; 3; 5] [0];                              (* go channelProvider.run *)
    Sync 0 1 [1] [0];                                    (* go n.run *)
    Acc 2 2 true; Acc 2 0 false;                         (* Channel.initialize by the provider *)
    Sync 2 1 [3; 5] [2];                                 (* chNewChannel: the channel is handed to the loop *)
    Acc 1 1 true; Acc 1 3 true;                          (* loop: channels[ch] = ..., ch.running = true *)
    Sync 1 3 [5] [0; 2];                                 (* go ch.run *)
    Sync 3 4 [5] [0; 2];                                 (* go reader *)
    Acc 4 5 true; Acc 4 2 false;                         (* reader works on its own state, reads channel fields *)
    Lock 4 0; Acc 4 4 true; Unlock 4 0;                  (* onEventFrame *)
    Lock 5 0; Acc 5 4 true; Unlock 5 0;                  (* cleaner *)
    Acc 1 3 false; Acc 1 1 true ].                       (* loop closes the channel *)
Definition node_d0 : dstate :=
  mkD (fun l => if l =? 4 then Guarded 0 else Excl 0) (fun _ => None).
(* the map guarded by the mutex is filled in by Initialize before anything is spawned: model that
   write as made with the mutex free by treating location 4 as exclusively Initialize's first *)
Definition node_life' : list ev := Lock 0 0 :: Acc 0 0 true :: Acc 0 1 true :: Acc 0 4 true :: Unlock 0 0 :: skipn 3 node_life.
Example node_life_disciplined : disciplined node_d0 node_life'.
Proof. unfold disciplined. vm_compute. eexists. reflexivity. Qed.
Example node_life_race_free : ~ data_race node_life'.
Proof. apply (disciplined_race_free node_d0). exact node_life_disciplined. Qed.

(* and the discipline does reject the unsynchronised variant: the cleaner without the mutex *)
Example unlocked_cleaner_rejected :
  disc_run node_d0 (firstn 19 node_life' ++ [Acc 5 4 true]) = None.
Proof. vm_compute. reflexivity. Qed.
