(* C19: bitmask enums — every combination of defined single-bit flags survives the text round trip. *)
From Coq Require Import ZArith Lia ZifyN ZifyNat ZifyBool PeanoNat.
From GM Require Import Bytes Result Layout Enum SignProofs EnumProofs.

(* ---------- strings.Split(strings.Join(names, " | "), " | ") ---------- *)
Definition no_space (s : list N) : bool := forallb (fun c => negb (c =? 32)) s.

Lemma split_aux_char k cur c t : c <> 32 -> split_aux (S k) cur (c :: t) = split_aux k (c :: cur) t.
Proof.
  intros H. cbn [split_aux]. destruct c as [|p]; [reflexivity|].
  do 6 (destruct p as [p|p|]; try reflexivity). contradiction.
Qed.
Lemma split_aux_word : forall a k cur r, no_space a = true ->
  split_aux (length a + k) cur (a ++ r) = split_aux k (rev a ++ cur) r.
Proof.
  induction a as [|c a IH]; intros k cur r H; [reflexivity|].
  cbn [no_space forallb] in H. apply andb_prop in H. destruct H as [Hc Ha].
  cbn [length app plus]. rewrite split_aux_char by (intros E; subst; discriminate).
  rewrite (IH k (c :: cur) r Ha). cbn [rev]. rewrite <- app_assoc. reflexivity.
Qed.
Lemma split_aux_end k cur : split_aux k cur [] = [rev cur].
Proof. destruct k; reflexivity. Qed.
Lemma split_aux_sep k cur t : split_aux (S k) cur (32 :: 124 :: 32 :: t) = rev cur :: split_aux k [] t.
Proof. reflexivity. Qed.

Lemma split_join_aux : forall names k, names <> [] -> Forall (fun s => no_space s = true) names ->
  split_aux (length (join names) + S k) [] (join names) = names.
Proof.
  induction names as [|a t IH]; intros k NE F; [contradiction|].
  inversion F as [|? ? Fa Ft]; subst. destruct t as [|b t'].
  - cbn [join]. rewrite <- (app_nil_r a) at 2. rewrite split_aux_word by exact Fa.
    rewrite split_aux_end, app_nil_r, rev_involutive. reflexivity.
  - change (join (a :: b :: t')) with (a ++ sep ++ join (b :: t')).
    rewrite app_length. rewrite <- Nat.add_assoc. rewrite split_aux_word by exact Fa. rewrite app_nil_r.
    unfold sep. cbn [app length]. rewrite Nat.add_succ_l. rewrite split_aux_sep. rewrite rev_involutive. f_equal.
    replace (S (S (length (join (b :: t')))) + S k)%nat with (length (join (b :: t')) + S (S (S k)))%nat by lia.
    apply IH; [discriminate|exact Ft].
Qed.
Theorem split_join names : names <> [] -> Forall (fun s => no_space s = true) names -> split (join names) = names.
Proof.
  intros NE F. unfold split. replace (S (length (join names))) with (length (join names) + 1)%nat by lia.
  apply split_join_aux; assumption.
Qed.

(* ---------- bits ---------- *)
Lemma mask_test e i : (N.land e (N.shiftl 1 i) =? N.shiftl 1 i) = N.testbit e i.
Proof.
  rewrite N.shiftl_1_l. destruct (N.testbit e i) eqn:T.
  - apply N.eqb_eq. apply N.bits_inj. intros j. rewrite N.land_spec, N.pow2_bits_eqb.
    destruct (N.eqb_spec i j) as [->|NE]; [rewrite T; reflexivity|apply Bool.andb_false_r].
  - apply N.eqb_neq. intros E. assert (X : N.testbit (N.land e (2 ^ i)) i = N.testbit (2 ^ i) i) by (rewrite E; reflexivity).
    rewrite N.land_spec, N.pow2_bits_true, T in X. discriminate.
Qed.

(* the flags of e below the loop bound, in ascending order *)
Definition set_bits (bound : nat) (e : N) : list nat := filter (fun i => N.testbit e (N.of_nat i)) (seq 0 bound).
Definition label_of (en : enum) (i : nat) : list N :=
  match lookup_label (en_labels en) (N.shiftl 1 (N.of_nat i)) with Some s => s | None => [] end.

Lemma marshal_bitmask en e : en_bitmask en = true -> e <> 0 ->
  marshal_text en e = join (map (label_of en) (set_bits (en_bound en) e)).
Proof.
  intros B NZ. unfold marshal_text. rewrite B. destruct (N.eqb_spec e 0); [contradiction|]. f_equal.
  unfold set_bits. generalize (seq 0 (en_bound en)). induction l as [|i l IH]; [reflexivity|].
  cbn [flat_map filter]. rewrite mask_test. destruct (N.testbit e (N.of_nat i)); cbn [app map]; rewrite IH; reflexivity.
Qed.

Lemma lor_bits_below : forall bound e acc, (forall j, N.testbit e j = true -> j < N.of_nat bound) ->
  fold_left (fun a i => N.lor a (N.shiftl 1 (N.of_nat i))) (set_bits bound e) acc = N.lor acc e.
Proof.
  intros bound e acc H. apply N.bits_inj. intros j.
  assert (G : forall l acc, N.testbit (fold_left (fun a i => N.lor a (N.shiftl 1 (N.of_nat i))) l acc) j =
                            N.testbit acc j || existsb (fun i => N.of_nat i =? j) l).
  { induction l as [|i l IH]; intros a; cbn [fold_left existsb]; [rewrite Bool.orb_false_r; reflexivity|].
    rewrite IH, N.lor_spec, N.shiftl_1_l, N.pow2_bits_eqb. rewrite Bool.orb_assoc. reflexivity. }
  rewrite G, N.lor_spec. f_equal. unfold set_bits.
  destruct (N.testbit e j) eqn:T.
  - apply existsb_exists. exists (N.to_nat j). split; [|lia]. apply filter_In. split.
    + apply in_seq. specialize (H j T). lia.
    + rewrite N2Nat.id. exact T.
  - destruct (existsb (fun i => N.of_nat i =? j) (filter (fun i => N.testbit e (N.of_nat i)) (seq 0 bound))) eqn:X; [|reflexivity].
    apply existsb_exists in X. destruct X as [i [Ii Ei]]. apply filter_In in Ii. destruct Ii as [_ Ti].
    apply N.eqb_eq in Ei. subst j. rewrite T in Ti. discriminate.
Qed.

(* ---------- the round trip ---------- *)
(* a flag position is usable when it has a name without blanks that maps back to the flag *)
Definition flag_ok (en : enum) (i : nat) : Prop :=
  exists s, lookup_label (en_labels en) (N.shiftl 1 (N.of_nat i)) = Some s /\ no_space s = true /\
            lookup_value (en_values en) s = Some (N.shiftl 1 (N.of_nat i)).

Lemma parse_names en : forall l acc, Forall (flag_ok en) l ->
  fold_left (fun acc s => match acc, parse_label en s with Some m, Some v => Some (N.lor m v) | _, _ => None end)
            (map (label_of en) l) (Some acc) =
  Some (fold_left (fun a i => N.lor a (N.shiftl 1 (N.of_nat i))) l acc).
Proof.
  induction l as [|i l IH]; intros acc F; [reflexivity|]. inversion F as [|? ? Fi Fl]; subst.
  destruct Fi as (s & L & NS & V). cbn [map fold_left].
  assert (LS : label_of en i = s) by (unfold label_of; rewrite L; reflexivity). rewrite LS.
  assert (PS : parse_label en s = Some (N.shiftl 1 (N.of_nat i))) by (unfold parse_label; rewrite V; reflexivity). rewrite PS.
  apply IH. exact Fl.
Qed.

(* every non-zero value whose set bits are all usable flags below the loop bound — i.e. every
   combination of defined single-bit flags — is rendered and parsed back to itself *)
Theorem bitmask_roundtrip en e : en_bitmask en = true -> e <> 0 ->
  (forall j, N.testbit e j = true -> j < N.of_nat (en_bound en)) ->
  Forall (flag_ok en) (set_bits (en_bound en) e) ->
  unmarshal_text en (marshal_text en e) = Some e.
Proof.
  intros B NZ Hb F. rewrite (marshal_bitmask en e B NZ). unfold unmarshal_text. rewrite B.
  assert (NE : map (label_of en) (set_bits (en_bound en) e) <> []).
  { destruct (set_bits (en_bound en) e) as [|i l] eqn:S; [|discriminate]. exfalso. apply NZ.
    apply N.bits_inj. intros j. rewrite N.bits_0. destruct (N.testbit e j) eqn:T; [|reflexivity].
    assert (In (N.to_nat j) (set_bits (en_bound en) e)).
    { apply filter_In. split; [apply in_seq; specialize (Hb j T); lia|rewrite N2Nat.id; exact T]. }
    rewrite S in H. contradiction. }
  rewrite split_join; [|exact NE|].
  - rewrite (parse_names en _ 0 F). rewrite (lor_bits_below _ e 0 Hb). rewrite N.lor_0_l. reflexivity.
  - apply Forall_forall. intros s I. apply in_map_iff in I. destruct I as [i [Es Ii]]. subst s.
    rewrite Forall_forall in F. destruct (F i Ii) as (s & L & NS & _). unfold label_of. rewrite L. exact NS.
Qed.
Theorem bitmask_zero en : en_bitmask en = true -> lookup_value (en_values en) [48] = None ->
  unmarshal_text en (marshal_text en 0) = Some 0.
Proof. intros B V. unfold marshal_text, unmarshal_text. rewrite B. cbn. unfold parse_label. rewrite V. reflexivity. Qed.
