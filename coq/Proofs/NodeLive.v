(* C12: after Close() the node can always finish on its own — from every reachable state with
   terminate closed there is a finite sequence of library steps (no application step, no fresh
   input) that ends with Close() having returned.  Together with close_no_deadlock: no deadlock
   and no livelock trap. *)
From Coq Require Import Lia PeanoNat.
From GM Require Import Node NodeBase NodeEvents NodeClose.

(* ---- a measure that every chosen step decreases ---- *)
Definition push_rank (p : push_pc) : nat := match p with PA _ => 1 | PB _ => 0 end.
Definition rd_rank (r : rd_pc) : nat :=
  match r with
  | RdInit => 0
  | RdPush p (Some _) => 6 + push_rank p
  | RdPush p None => 4 + push_rank p
  | RdLoop => 3
  | RdDone _ => 2
  | RdEnd => 1
  end.
Definition un_rank (u : un_pc) : nat :=
  match u with
  | UInit => 20 | UWait => 12 | UR1 _ => 11 | UR2 _ => 10 | UC1 => 9 | UC2 => 8 | UC3 => 7
  | UPush p => 3 + push_rank p | UCloseCh => 2 | UEnd => 0
  end.
Definition wr_rank (w : wr_pc) : nat :=
  match w with WInit => 0 | WBusy _ => 4 | WIdle => 3 | WDone => 2 | WEnd => 1 end.
Definition chan_rank (ch : chan) : nat := un_rank (un ch) + rd_rank (rd ch) + wr_rank (wr ch).
Definition loop_rank (l : loop_pc) : nat :=
  match l with LSelect => 4 | LEpiChannels => 3 | LEpiWait => 2 | LEpiEvents => 1 | LEnd => 0 end.
Definition chans_rank (cs : list chan) : nat := fold_right (fun ch a => chan_rank ch + a) 0 cs.
Definition mu (s : st) : nat := loop_rank (loop s) + chans_rank (chans s).

Lemma chans_rank_upd : forall cs c ch ch', nth_error cs c = Some ch -> chan_rank ch' < chan_rank ch ->
  chans_rank (upd cs c ch') < chans_rank cs.
Proof.
  induction cs as [|x t IH]; intros [|c] ch ch' N L; cbn in N; try discriminate.
  - inversion N; subst. unfold chans_rank. cbn [upd fold_right]. lia.
  - specialize (IH c ch ch' N L). unfold chans_rank in *. cbn [upd fold_right]. lia.
Qed.
Lemma chans_rank_map_ctxd cs : chans_rank (map (fun ch => if registered ch then ch_ctxd ch else ch) cs) = chans_rank cs.
Proof.
  induction cs as [|x t IH]; [reflexivity|]. unfold chans_rank in *. cbn [map fold_right]. rewrite IH.
  destruct (registered x); reflexivity.
Qed.

Ltac fin := eexists _, _; split; [reflexivity|]; split; [reflexivity|]; split; [intros; reflexivity|];
  simp_ch; repeat match goal with H : un _ = _ |- _ => rewrite H | H : wr _ = _ |- _ => rewrite H | H : rd _ = _ |- _ => rewrite H end; cbn; lia.

(* the step chan_progress picks, with the measure *)
Lemma chan_progress_mu ch : s_inv true ch -> pc_ok ch -> ctxd ch = true -> un ch <> UInit -> un ch <> UEnd ->
  exists a ch' evs, sys_act a = true /\ capply true a ch = Some (ch', evs) /\ (forall s, chan_label_ok s a = true) /\
                    chan_rank ch' < chan_rank ch.
Proof.
  intros [W _] P Cx NI NE. unfold wr_ok in W. unfold pc_ok in P. unfold chan_rank.
  destruct (un ch) eqn:U; try contradiction.
  - (* UWait *) exists ACtx. cbn [capply]. rewrite U, Cx. fin.
  - exists ACloseRwc. cbn [capply]. rewrite U. fin.
  - destruct W as [T [Wr|[[it Wr]|Wr]]].
    + exists AWrTerm. cbn [capply]. rewrite Wr, T. fin.
    + exists AWrFail. cbn [capply]. rewrite Wr. fin.
    + exists AWrDone. cbn [capply]. rewrite U, Wr. fin.
  - exists ACloseRwc. cbn [capply]. rewrite U. fin.
  - destruct W as [T [Wr|[[it Wr]|Wr]]].
    + exists AWrTerm. cbn [capply]. rewrite Wr, T. fin.
    + exists AWrFail. cbn [capply]. rewrite Wr. fin.
    + exists AWrDone. cbn [capply]. rewrite U, Wr. fin.
  - (* UC3 *)
    destruct (rd ch) as [|p nx| |e|] eqn:Rd.
    + destruct P as [P|P]; discriminate.
    + destruct p as [ev|ev].
      * exists (APushCheck true). cbn [capply push_check]. rewrite Rd. cbn [push_check].
        destruct nx as [ev'|]; cbn [rd_after_push]; fin.
      * exists (APushDrop true). cbn [capply negb]. rewrite Rd.
        destruct nx as [ev'|]; cbn [rd_after_push]; fin.
    + exists (ARead (RdFatal 0)). cbn [capply]. rewrite Rd. fin.
    + exists ARdDone. cbn [capply]. rewrite U, Rd. fin.
    + destruct P as [[e P]|[[e P]|[[p P]|[P|P]]]]; discriminate.
  - destruct p as [ev|ev].
    + exists (APushCheck false). cbn [capply]. rewrite U. cbn [push_check]. fin.
    + exists (APushDrop false). cbn [capply negb]. rewrite U. fin.
  - exists ACloseChTerm. cbn [capply negb]. rewrite U. fin.
Qed.

Lemma reachable_step s l s' : reachable s -> lstep s l = Some s' -> reachable s'.
Proof.
  intros [ls R] H. exists (ls ++ [l]). rewrite run_app, R. cbn [run]. rewrite H. reflexivity.
Qed.

Lemma with_chan_mu s c f s' ch ch' evs : nth_error (chans s) c = Some ch -> f ch = Some (ch', evs) ->
  chan_rank ch' < chan_rank ch -> with_chan s c f = Some s' -> mu s' < mu s /\ loop s' = loop s.
Proof.
  intros N F L W. unfold with_chan in W. rewrite N, F in W. inversion W; subst. unfold mu. cbn [loop chans].
  pose proof (chans_rank_upd (chans s) c ch ch' N L). split; [lia|reflexivity].
Qed.

(* one library step that brings the end nearer *)
Lemma close_progress s : reachable s -> term s = true -> loop s <> LEnd ->
  exists l s', sys_label l = true /\ lstep s l = Some s' /\ mu s' < mu s /\ loop s' <> LSelect.
Proof.
  intros R T NE. pose proof (g_inv_reachable s R) as [G1 G2 G3 G4].
  destruct (loop s) eqn:Lp; try contradiction.
  - exists LLoopTerm. eexists. split; [reflexivity|]. cbn [lstep]. rewrite Lp, T. split; [reflexivity|].
    unfold mu. cbn [loop chans]. rewrite Lp. cbn. split; [lia|discriminate].
  - exists LEpiCloseChans. eexists. split; [reflexivity|]. cbn [lstep]. rewrite Lp. split; [reflexivity|].
    unfold mu. cbn [loop chans]. rewrite Lp, chans_rank_map_ctxd. cbn. split; [lia|discriminate].
  - destruct (handoff s) as [|c hs] eqn:Hf.
    + destruct (forallb runner_done (chans s)) eqn:Fa.
      * exists LEpiWaited. eexists. split; [reflexivity|]. cbn [lstep]. rewrite Lp, Fa, Hf. cbn [andb]. split; [reflexivity|].
        unfold mu. cbn [loop chans]. rewrite Lp. cbn. split; [lia|discriminate].
      * apply forallb_false in Fa. destruct Fa as [c [ch [N Rd]]].
        assert (NEnd : un ch <> UEnd) by (unfold runner_done in Rd; destruct (un ch); try discriminate; intros X; discriminate X).
        assert (NInit : un ch <> UInit).
        { intros X. assert (I : In c []) by (apply G1; eauto). contradiction. }
        pose proof (s_inv_reachable s R c ch N) as SI. rewrite T in SI.
        pose proof (ei_pc _ _ (ev_inv_reachable s R c ch N)) as PC.
        assert (Rg : registered ch = true).
        { destruct SI as [_ Rg]. unfold reg_ok in Rg. destruct (un ch); try exact Rg; contradiction. }
        assert (Cx : ctxd ch = true) by (apply (G2 eq_refl c ch N Rg)).
        destruct (chan_progress_mu ch SI PC Cx NInit NEnd) as (a & ch' & evs & Sa & Ca & Ok & Lt).
        destruct (with_chan s c (capply (term s) a)) as [s'|] eqn:W.
        2:{ unfold with_chan in W. rewrite N, T, Ca in W. discriminate. }
        assert (Ca' : capply (term s) a ch = Some (ch', evs)) by (rewrite T; exact Ca).
        destruct (with_chan_mu s c _ s' ch ch' evs N Ca' Lt W) as [M Le].
        exists (LChan c a), s'. split; [exact Sa|]. cbn [lstep]. rewrite (Ok s). split; [exact W|]. split; [exact M|].
        rewrite Le, Lp. discriminate.
    + assert (I : In c (c :: hs)) by (left; reflexivity).
      apply G1 in I. destruct I as [ch [N U]].
      pose proof (ei_pc _ _ (ev_inv_reachable s R c ch N)) as PC. unfold pc_ok in PC.
      assert (Rd : rd ch = RdInit).
      { destruct (rd ch); try reflexivity; rewrite U in PC;
          try (destruct PC as [P|[P|[P|P]]]; discriminate);
          destruct PC as [[e P]|[[e P]|[[p P]|[P|P]]]]; discriminate. }
      assert (Ca : capply (term s) AProvTerm ch = Some (ch_un (ch_close_rwc (ch_ctxd ch)) UEnd, [])).
      { cbn [capply]. rewrite T. cbn [negb]. rewrite Rd, U. reflexivity. }
      assert (Lt : chan_rank (ch_un (ch_close_rwc (ch_ctxd ch)) UEnd) < chan_rank ch).
      { unfold chan_rank. simp_ch. rewrite U. cbn. lia. }
      destruct (with_chan s c (capply (term s) AProvTerm)) as [s1|] eqn:W.
      2:{ unfold with_chan in W. rewrite N, Ca in W. discriminate. }
      destruct (with_chan_mu s c _ s1 ch _ _ N Ca Lt W) as [M Le].
      exists (LNewChanTerm c). eexists. split; [reflexivity|]. cbn [lstep]. rewrite Hf. cbn [existsb]. rewrite Nat.eqb_refl. cbn [orb].
      rewrite W. split; [reflexivity|]. unfold mu in *. cbn [loop chans]. split; [exact M|]. rewrite Le, Lp. discriminate.
  - exists LEpiCloseEvents. eexists. split; [reflexivity|]. cbn [lstep]. rewrite Lp. split; [reflexivity|].
    unfold mu. cbn [loop chans]. rewrite Lp. cbn. split; [lia|discriminate].
Qed.

(* After Close() the node can always finish by itself: a finite run of library steps — at most
   [mu s] of them — leads to the state in which Close() has returned and Events() is closed. *)
Theorem close_can_complete : forall n s, mu s <= n -> reachable s -> term s = true ->
  exists ls s', forallb sys_label ls = true /\ length ls <= n /\ run s ls = Some s' /\ loop s' = LEnd /\ events_closed s' = true.
Proof.
  induction n as [|n IH]; intros s M R T.
  - assert (L : loop s = LEnd) by (unfold mu in M; destruct (loop s); cbn in M; try lia; reflexivity).
    exists [], s. split; [reflexivity|]. split; [cbn; lia|]. split; [reflexivity|]. split; [exact L|]. apply (proj2 (e_inv_reachable s R) L).
  - destruct (loop s) eqn:Lp.
    5:{ exists [], s. split; [reflexivity|]. split; [cbn; lia|]. split; [reflexivity|]. split; [exact Lp|]. apply (proj2 (e_inv_reachable s R) Lp). }
    all: (assert (NE : loop s <> LEnd) by (rewrite Lp; discriminate);
          destruct (close_progress s R T NE) as (l & s1 & Sl & St & Mu & NS);
          pose proof (reachable_step s l s1 R St) as R1;
          assert (T1 : term s1 = true) by (apply (gi_term _ (g_inv_reachable s1 R1) NS));
          destruct (IH s1 ltac:(lia) R1 T1) as (ls & s' & Fl & Len & Rn & Le & Ec);
          exists (l :: ls), s'; cbn [forallb run length]; rewrite Sl, St; split; [exact Fl|]; split; [lia|]; split; [exact Rn|]; split; assumption).
Qed.
