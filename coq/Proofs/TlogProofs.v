(* C20: telemetry logs. *)
From Coq Require Import ZArith Lia PeanoNat.
From GM Require Import Bytes BytesProofs CodecBytes Result Codec Frame Wire Stream FlatStream StreamProofs
  Reader Writer ReaderSim FrameProofs ReaderProgress ForwardProofs Tlog.
Local Open Scope nat_scope.

(* ---------- timestamps ---------- *)
Lemma be_dec_be_enc8 x : (x < 2 ^ 64)%N -> be_dec (be_enc8 x) = x.
Proof.
  intros H. unfold be_dec, be_enc8. rewrite rev_involutive. apply le_dec_le_enc. exact H.
Qed.
Lemma ts_bytes_length us : length (ts_bytes us) = 8.
Proof. unfold ts_bytes, be_enc8. rewrite rev_length. apply le_enc_length. Qed.
Lemma ts_roundtrip us : (- 9223372036854775808 <= us < 9223372036854775808)%Z ->
  ts_of_bytes (ts_bytes us) = us.
Proof.
  intros H. unfold ts_of_bytes, ts_bytes, two64.
  assert (R : (0 <= us mod 18446744073709551616 < 18446744073709551616)%Z) by (apply Z.mod_pos_bound; lia).
  rewrite be_dec_be_enc8 by (change (2 ^ 64)%N with 18446744073709551616%N; lia).
  rewrite Z2N.id by lia.
  destruct (Z.ltb_spec (us mod 18446744073709551616) 9223372036854775808).
  - destruct (Z_lt_le_dec us 0).
    + rewrite <- (Z.mod_add us 1) in H0 by lia. rewrite Z.mod_small in H0 by lia. lia.
    + rewrite Z.mod_small in * by lia. reflexivity.
  - destruct (Z_lt_le_dec us 0).
    + rewrite <- (Z.mod_add us 1) by lia. rewrite Z.mod_small by lia. lia.
    + rewrite Z.mod_small in * by lia. lia.
Qed.

(* ---------- writer ---------- *)
(* the file is a concatenation of 8-byte big-endian timestamps each followed by one frame *)
Theorem write_ok d o file e fb f' : frame_write d (e_frame e) = (Ok fb, f') ->
  tlog_write d (true :: true :: o) file e = (Ok tt, o, file ++ ts_bytes (e_time e) ++ fb).
Proof.
  intros W. unfold tlog_write. rewrite W. cbn [uwrite]. rewrite <- app_assoc. reflexivity.
Qed.

(* an entry whose frame cannot be encoded leaves no bytes in the file *)
Theorem no_partial_entry d o file e x f' : frame_write d (e_frame e) = (Err x, f') ->
  tlog_write d o file e = (Err x, o, file).
Proof. intros W. unfold tlog_write. rewrite W. reflexivity. Qed.

(* a failing underlying write is reported to the caller *)
Definition two_ok (o : list bool) : bool := match o with true :: true :: _ => true | _ => false end.
Theorem write_error_reported d o file e fb f' : frame_write d (e_frame e) = (Ok fb, f') -> two_ok o = false ->
  fst (fst (tlog_write d o file e)) = Err err_write.
Proof.
  intros W B. unfold tlog_write. rewrite W. destruct o as [|[|] [|[|] o']]; try discriminate; reflexivity.
Qed.

(* the writer has no memory: after any history of entries — refused, failed at the transport or
   written — the next entry that is written appends exactly its own timestamp and frame *)
Fixpoint after_entries (d : option dialect) (o : list bool) (file : list N) (es : list entry) : list bool * list N :=
  match es with
  | [] => (o, file)
  | x :: t => let '(_, o2, f2) := tlog_write d o file x in after_entries d o2 f2 t
  end.
Theorem write_after_any_history d : forall es o file e fb f' o1 file1,
  frame_write d (e_frame e) = (Ok fb, f') -> after_entries d o file es = (true :: true :: o1, file1) ->
  snd (tlog_write_all d o file (es ++ [e])) = file1 ++ ts_bytes (e_time e) ++ fb.
Proof.
  induction es as [|x t IH]; intros o file e fb f' o1 file1 W A.
  - cbn in A. inversion A; subst. cbn [app tlog_write_all]. rewrite (write_ok d o1 file1 e fb f' W). reflexivity.
  - cbn [app tlog_write_all after_entries] in *. destruct (tlog_write d o file x) as [[r o2] f2].
    specialize (IH o2 f2 e fb f' o1 file1 W A).
    destruct (tlog_write_all d o2 f2 (t ++ [e])) as [rs2 f3]. cbn [snd] in *. exact IH.
Qed.

(* ---------- reader: complete entries ---------- *)
Definition ebytes (e : entry) (p : list N) : list N := ts_bytes (e_time e) ++ spec_bytes (e_frame e) p.
Definition entry_wf (e : entry) (p : list N) : Prop :=
  frame_wf (e_frame e) p /\ (- 9223372036854775808 <= e_time e < 9223372036854775808)%Z.

Lemma entry_eta e : mkEntry (e_time e) (e_frame e) = e.
Proof. destruct e; reflexivity. Qed.

Theorem read_entry e p st rest : entry_wf e p ->
  tlog_read nocfg st (map B (ebytes e p) ++ rest) = (TEntry e, st, rest).
Proof.
  intros [W T]. unfold tlog_read, ebytes. rewrite map_app, <- app_assoc.
  rewrite frf_exact by apply ts_bytes_length.
  unfold flat_rr. fold flat_reader_read. rewrite (roundtrip_flat _ _ st rest W).
  rewrite ts_roundtrip by exact T. rewrite entry_eta. reflexivity.
Qed.

Fixpoint log_bytes (es : list (entry * list N)) : list N :=
  match es with [] => [] | (e, p) :: t => ebytes e p ++ log_bytes t end.

(* any sequence of entries is read back as the same sequence, whatever follows *)
Theorem log_roundtrip : forall es st rest, Forall (fun ep => entry_wf (fst ep) (snd ep)) es ->
  forall m, tlog_read_n (length es + m) nocfg st (map B (log_bytes es) ++ rest) =
            map (fun ep => TEntry (fst ep)) es ++ tlog_read_n m nocfg st rest.
Proof.
  induction es as [|[e p] t IH]; intros st rest H m; [reflexivity|].
  inversion H as [|? ? He Ht]; subst. cbn [length Nat.add log_bytes tlog_read_n map fst snd] in *.
  rewrite map_app, <- app_assoc. rewrite (read_entry e p st _ He). cbn [app]. f_equal. apply IH. exact Ht.
Qed.

(* after the last entry: end of file, forever *)
Lemma read_empty cfg st : tlog_read cfg st [] = (TErr te_eof, st, []).
Proof. reflexivity. Qed.

(* ---------- truncated logs ---------- *)
(* the flat primitives on a pure byte stream (a file) *)
Lemma pd_pure n x : f_peek_discard n (map B x) =
  if Nat.leb n (length x) then (Ok (firstn n x), map B (skipn n x)) else (Err e_eof, map B x).
Proof.
  unfold f_peek_discard. destruct (Nat.leb_spec n (length x)).
  - rewrite <- (app_nil_r (map B x)). rewrite ftake_bytes by assumption. rewrite app_nil_r. reflexivity.
  - rewrite ftake_short_end by assumption. cbn. rewrite app_nil_r. reflexivity.
Qed.
Lemma rf_pure n x : f_read_full n (map B x) =
  if Nat.leb n (length x) then (Ok (firstn n x), map B (skipn n x))
  else (Err (match x with [] => e_eof | _ => e_unexpected_eof end), []).
Proof.
  unfold f_read_full. destruct (Nat.leb_spec n (length x)).
  - rewrite <- (app_nil_r (map B x)). rewrite ftake_bytes by assumption. rewrite app_nil_r. reflexivity.
  - rewrite ftake_short_end by assumption. reflexivity.
Qed.

Definition suffix (y x : list N) : Prop := exists z, x = z ++ y.
Lemma suffix_refl x : suffix x x. Proof. exists []. reflexivity. Qed.
Lemma suffix_nil x : suffix [] x. Proof. exists x. rewrite app_nil_r. reflexivity. Qed.
Lemma suffix_skipn n x : suffix (skipn n x) x. Proof. exists (firstn n x). symmetry. apply firstn_skipn. Qed.
Lemma suffix_trans a b c : suffix a b -> suffix b c -> suffix a c.
Proof. intros [z1 E1] [z2 E2]. exists (z2 ++ z1). rewrite E2, E1, app_assoc. reflexivity. Qed.
Lemma suffix_length y x : suffix y x -> length y <= length x.
Proof. intros [z E]. rewrite E, app_length. lia. Qed.
Lemma suffix_cons b x : suffix x (b :: x). Proof. exists [b]. reflexivity. Qed.

(* results of the primitives on a file: the leftover is a suffix of the input *)
Lemma pd_pure_inv n x r l' : f_peek_discard n (map B x) = (r, l') ->
  exists y, l' = map B y /\ suffix y x /\
    match r with Ok h => h = firstn n x /\ n <= length x /\ y = skipn n x
               | Err e => e = e_eof /\ y = x /\ length x < n | Panic => False end.
Proof.
  rewrite pd_pure. destruct (Nat.leb_spec n (length x)) as [Hl|Hl]; intros H; inversion H; subst.
  - exists (skipn n x). repeat split; auto. apply suffix_skipn.
  - exists x. repeat split; auto. apply suffix_refl.
Qed.
Lemma rf_pure_inv n x r l' : f_read_full n (map B x) = (r, l') ->
  exists y, l' = map B y /\ suffix y x /\
    match r with Ok h => h = firstn n x /\ n <= length x /\ y = skipn n x
               | Err e => y = [] /\ length x < n /\ e <> 2%N | Panic => False end.
Proof.
  rewrite rf_pure. destruct (Nat.leb_spec n (length x)) as [Hl|Hl]; intros H; inversion H; subst.
  - exists (skipn n x). repeat split; auto. apply suffix_skipn.
  - exists []. repeat split; auto; [apply suffix_nil|destruct x; discriminate].
Qed.
Lemma payload_pure_inv n x r l' : g_read_payload fstream f_read_full n (map B x) = (r, l') ->
  exists y, l' = map B y /\ suffix y x /\
    match r with Ok h => h = firstn n x /\ n <= length x /\ y = skipn n x
               | Err e => y = [] /\ e <> 2%N | Panic => False end.
Proof.
  unfold g_read_payload. destruct n.
  - intros H; inversion H; subst. exists x. repeat split; auto; [apply suffix_refl|lia].
  - intros H. apply rf_pure_inv in H. destruct H as [y [E [S M]]]. exists y. repeat split; auto.
    destruct r; tauto.
Qed.

(* a failed v2 parse that is not the incompatibility-flag refusal leaves at most 12 bytes *)
Lemma um2_pure x r l' : g_unmarshal_v2 fstream f_peek_discard f_read_full (map B x) = (r, l') ->
  exists y, l' = map B y /\ suffix y x /\
    match r with Err e => e <> 2%N -> length y <= 12 | _ => True end.
Proof.
  unfold g_unmarshal_v2. intros H.
  destruct (f_peek_discard 9 (map B x)) as [r1 l1] eqn:E1. apply pd_pure_inv in E1.
  destruct E1 as [y1 [El1 [S1 M1]]]. subst l1.
  destruct r1 as [h|e|]; [|inversion H; subst; exists y1; repeat split; auto; intros _; destruct M1 as (_ & -> & L); lia|contradiction].
  do 9 (destruct h as [|? h]; [inversion H; subst; exists y1; auto|]). destruct h; [|inversion H; subst; exists y1; auto].
  destruct (negb (n0 =? 0)%N && negb (n0 =? 1)%N); [inversion H; subst; exists y1; repeat split; auto; intros X; exfalso; apply X; reflexivity|].
  destruct (g_read_payload fstream f_read_full (N.to_nat n) (map B y1)) as [r2 l2] eqn:E2. apply payload_pure_inv in E2.
  destruct E2 as [y2 [El2 [S2 M2]]]. subst l2. pose proof (suffix_trans _ _ _ S2 S1) as S12.
  destruct r2 as [p|e|]; [|inversion H; subst; exists y2; repeat split; auto; intros _; destruct M2 as (-> & _); cbn; lia|contradiction].
  destruct (f_peek_discard 2 (map B y2)) as [r3 l3] eqn:E3. apply pd_pure_inv in E3.
  destruct E3 as [y3 [El3 [S3 M3]]]. subst l3. pose proof (suffix_trans _ _ _ S3 S12) as S123.
  destruct r3 as [ck|e|]; [|inversion H; subst; exists y3; repeat split; auto; intros _; destruct M3 as (_ & -> & L); lia|contradiction].
  match type of H with context [is_signed ?f] => destruct (is_signed f) end; [|inversion H; subst; exists y3; auto].
  destruct (f_peek_discard 13 (map B y3)) as [r4 l4] eqn:E4. apply pd_pure_inv in E4.
  destruct E4 as [y4 [El4 [S4 M4]]]. subst l4. pose proof (suffix_trans _ _ _ S4 S123) as S1234.
  destruct r4 as [sg|e|]; [inversion H; subst; exists y4; auto|inversion H; subst; exists y4; repeat split; auto; intros _; destruct M4 as (_ & -> & L); lia|contradiction].
Qed.

Lemma um1_pure x r l' : g_unmarshal_v1 fstream f_peek_discard f_read_full (map B x) = (r, l') ->
  exists y, l' = map B y /\ suffix y x /\ match r with Err e => length y <= 12 | _ => True end.
Proof.
  unfold g_unmarshal_v1. intros H.
  destruct (f_peek_discard 5 (map B x)) as [r1 l1] eqn:E1. apply pd_pure_inv in E1.
  destruct E1 as [y1 [El1 [S1 M1]]]. subst l1.
  destruct r1 as [h|e|]; [|inversion H; subst; exists y1; repeat split; auto; destruct M1 as (_ & -> & L); lia|contradiction].
  do 5 (destruct h as [|? h]; [inversion H; subst; exists y1; auto|]). destruct h; [|inversion H; subst; exists y1; auto].
  destruct (g_read_payload fstream f_read_full (N.to_nat n) (map B y1)) as [r2 l2] eqn:E2. apply payload_pure_inv in E2.
  destruct E2 as [y2 [El2 [S2 M2]]]. subst l2. pose proof (suffix_trans _ _ _ S2 S1) as S12.
  destruct r2 as [p|e|]; [|inversion H; subst; exists y2; repeat split; auto; destruct M2 as (-> & _); cbn; lia|contradiction].
  destruct (f_peek_discard 2 (map B y2)) as [r3 l3] eqn:E3. apply pd_pure_inv in E3.
  destruct E3 as [y3 [El3 [S3 M3]]]. subst l3. pose proof (suffix_trans _ _ _ S3 S12) as S123.
  destruct r3 as [ck|e|]; [inversion H; subst; exists y3; auto|inversion H; subst; exists y3; repeat split; auto; destruct M3 as (_ & -> & L); lia|contradiction].
Qed.

Lemma um2_err2 x l' : g_unmarshal_v2 fstream f_peek_discard f_read_full (map B x) = (Err 2%N, l') ->
  9 <= length x /\ nth 1 x 0%N <> 0%N /\ nth 1 x 0%N <> 1%N.
Proof.
  unfold g_unmarshal_v2. intros H.
  destruct (f_peek_discard 9 (map B x)) as [r1 l1] eqn:E1. apply pd_pure_inv in E1.
  destruct E1 as [y1 [El1 [S1 M1]]]. subst l1.
  destruct r1 as [h|e|]; [|destruct M1 as (Ee & _); subst e; unfold e_eof in H; discriminate H|contradiction].
  destruct M1 as (Eh & L9 & Ey).
  do 9 (destruct h as [|? h]; [discriminate H|]). destruct h; [|discriminate H].
  assert (N1 : nth 1 x 0%N = n0).
  { rewrite <- (firstn_skipn 9 x), <- Eh. reflexivity. }
  destruct (negb (n0 =? 0)%N && negb (n0 =? 1)%N) eqn:C.
  - apply andb_prop in C. destruct C as [C0 C1]. rewrite N1. split; [exact L9|]. split.
    + intros X. rewrite X in C0. cbn in C0. discriminate C0.
    + intros X. rewrite X in C1. cbn in C1. discriminate C1.
  - exfalso.
    destruct (g_read_payload fstream f_read_full (N.to_nat n) (map B y1)) as [r2 l2] eqn:E2. apply payload_pure_inv in E2.
    destruct E2 as [y2 [El2 [S2 M2]]]. subst l2.
    destruct r2 as [p|e|]; [|inversion H; subst; destruct M2 as (_ & X); apply X; reflexivity|contradiction].
    destruct (f_peek_discard 2 (map B y2)) as [r3 l3] eqn:E3. apply pd_pure_inv in E3.
    destruct E3 as [y3 [El3 [S3 M3]]]. subst l3.
    destruct r3 as [ck|e|]; [|destruct M3 as (X & _); subst e; unfold e_eof in H; discriminate H|contradiction].
    match type of H with context [is_signed ?f] => destruct (is_signed f) end; [|discriminate H].
    destruct (f_peek_discard 13 (map B y3)) as [r4 l4] eqn:E4. apply pd_pure_inv in E4.
    destruct E4 as [y4 [El4 [S4 M4]]]. subst l4.
    destruct r4 as [sg|e|]; [discriminate H|destruct M4 as (X & _); subst e; unfold e_eof in H; discriminate H|contradiction].
Qed.

(* one frame-reader call on a file: the leftover is a suffix *)
Lemma rr_pure cfg st x r st' l' : flat_rr cfg st (map B x) = (r, st', l') ->
  exists y, l' = map B y /\ suffix y x.
Proof.
  unfold flat_rr, g_reader_read. destruct x as [|b x]; cbn [map f_read_byte ftake].
  - intros H; inversion H; subst. exists []. split; [reflexivity|apply suffix_refl].
  - assert (Post : forall f y, suffix y x ->
      (let '(kerr, st'0) := match r_inkey cfg with Some k => check_key k st f | None => (None, st) end in
       match kerr with
       | Some code => (RParse code, st'0, map B y)
       | None => match r_dialect cfg with Some d => (check_dialect d f, st'0, map B y) | None => (RFrame f, st'0, map B y) end
       end) = (r, st', l') -> exists y0, l' = map B y0 /\ suffix y0 (b :: x)).
    { intros f y S HP. destruct (match r_inkey cfg with Some k => check_key k st f | None => (None, st) end) as [kerr st2].
      assert (l' = map B y) by (destruct kerr; [|destruct (r_dialect cfg)]; inversion HP; reflexivity).
      exists y. split; [assumption|]. eapply suffix_trans; [exact S|apply suffix_cons]. }
    destruct (b =? 254)%N.
    + destruct (g_unmarshal_v1 fstream f_peek_discard f_read_full (map B x)) as [ru l2] eqn:U.
      apply um1_pure in U. destruct U as [y [El [S _]]]. subst l2.
      destruct ru as [f|e|]; [apply (Post f y S)| |]; intros H; inversion H; subst; exists y; split; auto;
        (eapply suffix_trans; [exact S|apply suffix_cons]).
    + destruct (b =? 253)%N.
      * destruct (g_unmarshal_v2 fstream f_peek_discard f_read_full (map B x)) as [ru l2] eqn:U.
        apply um2_pure in U. destruct U as [y [El [S _]]]. subst l2.
        destruct ru as [f|e|]; [apply (Post f y S)| |]; intros H; inversion H; subst; exists y; split; auto;
          (eapply suffix_trans; [exact S|apply suffix_cons]).
      * intros H; inversion H; subst. exists x. split; [reflexivity|apply suffix_cons].
Qed.

Lemma spec_bytes_len_ge8 f p : 8 <= length (spec_bytes f p).
Proof. unfold spec_bytes. destruct (f_v2 f); cbn [app length]; rewrite ?app_length; cbn [length]; lia. Qed.

Lemma bytes_ok_fbytes x : bytes_ok x = true -> fbytes_ok (map B x).
Proof.
  intros H b Hb. apply in_map_iff in Hb. destruct Hb as [c [E I]]. inversion E; subst.
  eapply bytes_ok_In; eauto.
Qed.
Lemma suffix_bytes_ok y x : suffix y x -> bytes_ok x = true -> bytes_ok y = true.
Proof. intros [z E] H. subst x. unfold bytes_ok in *. rewrite forallb_app in H. apply andb_prop in H. tauto. Qed.

Definition is_terr (t : tres) : Prop := match t with TErr _ => True | TEntry _ => False end.

(* fewer than 16 bytes cannot hold an entry: the reader reports an error and keeps a suffix *)
Lemma short_read cfg st x : length x < 16 -> bytes_ok x = true ->
  exists code st' y, tlog_read cfg st (map B x) = (TErr code, st', map B y) /\ suffix y x.
Proof.
  intros L Bx. unfold tlog_read.
  destruct (f_read_full 8 (map B x)) as [r1 l1] eqn:E1. apply rf_pure_inv in E1.
  destruct E1 as [y1 [El1 [S1 M1]]]. subst l1.
  destruct r1 as [tsb|e|]; [|exists e, st, y1; auto|contradiction].
  destruct M1 as (_ & L8 & Ey1).
  destruct (flat_rr cfg st (map B y1)) as [[r st2] l2] eqn:R.
  pose proof (rr_pure _ _ _ _ _ _ R) as [y2 [El2 S2]]. subst l2.
  pose proof (suffix_trans _ _ _ S2 S1) as S12.
  destruct r as [f|c|e]; [exfalso|exists te_parse, st2, y2; auto|exists e, st2, y2; auto].
  assert (FB : fbytes_ok (map B y1)) by (apply bytes_ok_fbytes; eapply suffix_bytes_ok; eauto).
  destruct (reader_inv cfg st _ _ _ _ FB R (ex_intro _ f eq_refl)) as (f0 & _ & El & _).
  assert (Len : length (map B y1) = length (map B (spec_bytes f0 (payload_of f0)) ++ map B y2)) by (rewrite El; reflexivity).
  rewrite app_length, !map_length in Len. pose proof (spec_bytes_len_ge8 f0 (payload_of f0)).
  subst y1. rewrite skipn_length in Len. lia.
Qed.

Theorem short_errors_forever cfg : forall m st x, length x < 16 -> bytes_ok x = true ->
  Forall is_terr (tlog_read_n m cfg st (map B x)).
Proof.
  induction m as [|m IH]; intros st x L Bx; [constructor|].
  cbn [tlog_read_n]. destruct (short_read cfg st x L Bx) as (code & st' & y & E & S). rewrite E.
  constructor; [exact I|]. apply IH.
  - pose proof (suffix_length _ _ S). lia.
  - eapply suffix_bytes_ok; eauto.
Qed.

(* ---------- a cut inside an entry ---------- *)
Lemma spec_len f p : frame_wf f p ->
  length (spec_bytes f p) =
  if f_v2 f then 12 + length p + (if (f_inc f =? 1)%N then 13 else 0) else 8 + length p.
Proof.
  intros (Hm & Hp & Hl & Hs & Hy & Hc & Hk & Hv). unfold spec_bytes. destruct (f_v2 f).
  - destruct Hv as (_ & _ & [(Hi & Hsg & _)|(Hi & _ & _ & s & Hsg & Ls & _)]); rewrite Hi; cbn [N.eqb Pos.eqb].
    + repeat (rewrite ?app_length; cbn [length app]). lia.
    + unfold sig_block. rewrite Hsg. repeat (rewrite ?app_length; cbn [length app]). lia.
  - repeat (rewrite ?app_length; cbn [length app]). lia.
Qed.

Lemma nlen_inj (a b : list N) : length a <= 255 -> length b <= 255 -> nlen a = nlen b -> length a = length b.
Proof. unfold nlen. intros. lia. Qed.

(* frame layouts are prefix-free: the first three bytes determine the length *)
Lemma prefix_free f1 p1 f2 p2 a c : frame_wf f1 p1 -> frame_wf f2 p2 ->
  spec_bytes f1 p1 ++ a = spec_bytes f2 p2 ++ c -> length (spec_bytes f1 p1) = length (spec_bytes f2 p2).
Proof.
  intros W1 W2 E. rewrite (spec_len _ _ W1), (spec_len _ _ W2).
  pose proof W1 as (_ & _ & L1 & _). pose proof W2 as (_ & _ & L2 & _).
  assert (N0 : nth 0 (spec_bytes f1 p1 ++ a) 0%N = nth 0 (spec_bytes f2 p2 ++ c) 0%N) by (rewrite E; reflexivity).
  assert (N1 : nth 1 (spec_bytes f1 p1 ++ a) 0%N = nth 1 (spec_bytes f2 p2 ++ c) 0%N) by (rewrite E; reflexivity).
  assert (N2 : nth 2 (spec_bytes f1 p1 ++ a) 0%N = nth 2 (spec_bytes f2 p2 ++ c) 0%N) by (rewrite E; reflexivity).
  unfold spec_bytes in N0, N1, N2.
  destruct (f_v2 f1), (f_v2 f2); cbn [app nth] in N0, N1, N2; try discriminate.
  - apply nlen_inj in N1; try assumption. rewrite N1, N2. reflexivity.
  - apply nlen_inj in N1; try assumption. rewrite N1. reflexivity.
Qed.

Lemma spec_bytes_ok f p : frame_wf f p -> bytes_ok (spec_bytes f p) = true.
Proof.
  intros W. pose proof (marshal_is_spec f p W) as M. pose proof W as (Hm & Hp & Hl & Hs & Hy & Hc & Hk & Hv).
  assert (U8 : forall y, byte_ok (u8 y) = true) by (intros y; unfold byte_ok, u8; apply N.ltb_lt; apply N.mod_lt; discriminate).
  assert (LT : forall y, (y < 256)%N -> byte_ok y = true) by (intros y Hy0; unfold byte_ok; apply N.ltb_lt; exact Hy0).
  unfold marshal in M. apply CodecProofs.Ok_inj in M || idtac.
  revert M. unfold marshal.
  pose proof (le_enc_bytes_ok 3 (msg_id (f_msg f))) as L3. pose proof (le_enc_bytes_ok 2 (f_ck f)) as L2.
  pose proof (le_enc_bytes_ok 6 (f_ts f)) as L6. unfold bytes_ok in *.
  destruct (f_v2 f).
  - destruct Hv as (Hid & Hcm & Hsig). unfold is_signed.
    destruct Hsig as [(Hi & Hsg & _)|(Hi & Hlk & Hts & s & Hsg & Ls & Bs)]; rewrite Hi; cbn [N.land Pos.land N.eqb negb].
    + intros M. apply CodecProofs.Ok_inj in M. rewrite <- M. cbn [app forallb]. rewrite !forallb_app.
      rewrite U8, !LT by (assumption || reflexivity). rewrite L3, Hp, L2. reflexivity.
    + rewrite Hsg. intros M. apply CodecProofs.Ok_inj in M. rewrite <- M. repeat (rewrite ?forallb_app; cbn [forallb app]).
      rewrite U8, !LT by (assumption || reflexivity). rewrite L3, Hp, L2, L6, Bs. reflexivity.
  - destruct Hv as (Hid & _). destruct (255 <? msg_id (f_msg f))%N; [discriminate|].
    intros M. apply CodecProofs.Ok_inj in M. rewrite <- M. cbn [app forallb]. rewrite !forallb_app.
    rewrite !U8, !LT by (assumption || reflexivity). rewrite Hp, L2. reflexivity.
Qed.

Lemma ts_bytes_ok us : bytes_ok (ts_bytes us) = true.
Proof.
  unfold ts_bytes, be_enc8, bytes_ok. rewrite forallb_forall. intros b Hb. apply in_rev in Hb.
  pose proof (le_enc_bytes_ok 8 (Z.to_N (us mod two64))) as L. unfold bytes_ok in L. rewrite forallb_forall in L. auto.
Qed.
Lemma ebytes_ok e p : entry_wf e p -> bytes_ok (ebytes e p) = true.
Proof.
  intros [W _]. unfold ebytes, bytes_ok. rewrite forallb_app. fold (bytes_ok (ts_bytes (e_time e))).
  fold (bytes_ok (spec_bytes (e_frame e) p)). rewrite ts_bytes_ok, spec_bytes_ok by exact W. reflexivity.
Qed.

Lemma prefix_bytes_ok x z : bytes_ok (x ++ z) = true -> bytes_ok x = true.
Proof. unfold bytes_ok. rewrite forallb_app. intros H. apply andb_prop in H. tauto. Qed.

(* a log cut strictly inside an entry: the reader reports an error (never a fabricated entry)
   and is left with at most 12 bytes *)
Lemma cut_in_entry e p x z st : entry_wf e p -> x ++ z = ebytes e p -> z <> [] ->
  exists code st' y, tlog_read nocfg st (map B x) = (TErr code, st', map B y) /\ length y <= 12 /\ suffix y x.
Proof.
  intros We E Nz. pose proof We as [W T].
  assert (Bx : bytes_ok x = true) by (apply (prefix_bytes_ok x z); rewrite E; apply ebytes_ok; exact We).
  unfold tlog_read. rewrite rf_pure. destruct (Nat.leb_spec 8 (length x)) as [L8|L8].
  2:{ exists (match x with [] => e_eof | _ => e_unexpected_eof end), st, []. split; [reflexivity|]. split; [cbn; lia|apply suffix_nil]. }
  set (q := skipn 8 x).
  assert (Eq : q ++ z = spec_bytes (e_frame e) p).
  { assert (X1 : skipn 8 (x ++ z) = skipn 8 x ++ z).
    { rewrite skipn_app. replace (8 - length x) with 0 by lia. reflexivity. }
    assert (X2 : skipn 8 (ts_bytes (e_time e) ++ spec_bytes (e_frame e) p) = spec_bytes (e_frame e) p).
    { rewrite skipn_app, skipn_all2 by (rewrite ts_bytes_length; lia). rewrite ts_bytes_length. reflexivity. }
    unfold q. rewrite <- X1, E. exact X2. }
  assert (Sq : suffix q x) by apply suffix_skipn.
  destruct (flat_rr nocfg st (map B q)) as [[r st2] l2] eqn:R.
  destruct (rr_pure _ _ _ _ _ _ R) as [y [El Sy]]. subst l2.
  assert (NotFrame : forall f', r <> RFrame f').
  { intros f' X. subst r. assert (FB : fbytes_ok (map B q)) by (apply bytes_ok_fbytes; eapply suffix_bytes_ok; eauto).
    destruct (reader_inv nocfg st _ _ _ _ FB R (ex_intro _ f' eq_refl)) as (f0 & W0 & El & _).
    rewrite <- map_app in El. assert (Eq0 : q = spec_bytes f0 (payload_of f0) ++ y).
    { clear -El. revert El. generalize (spec_bytes f0 (payload_of f0) ++ y). intros l. revert l.
      induction q as [|a q IH]; intros [|b l] H; cbn in H; try discriminate; [reflexivity|]. inversion H. f_equal. auto. }
    assert (PF : spec_bytes f0 (payload_of f0) ++ (y ++ z) = spec_bytes (e_frame e) p ++ []) by (rewrite app_nil_r, app_assoc, <- Eq0; exact Eq).
    apply prefix_free in PF; [|exact W0|exact W].
    assert (length (q ++ z) = length (spec_bytes (e_frame e) p)) by (rewrite Eq; reflexivity).
    rewrite app_length, Eq0, app_length in H. destruct z; [contradiction|cbn in H; lia]. }
  assert (Ly : length y <= 12).
  { unfold flat_rr, g_reader_read in R. destruct q as [|b q'] eqn:Dq; cbn [map f_read_byte ftake] in R.
    - inversion R; subst. destruct Sy as [zz Ez]. destruct zz; [|discriminate]. cbn in Ez. subst y. cbn. lia.
    - assert (Hb : b = nth 0 (spec_bytes (e_frame e) p) 0%N) by (rewrite <- Eq; reflexivity).
      assert (Tl : q' ++ z = tl (spec_bytes (e_frame e) p)) by (rewrite <- Eq; reflexivity).
      unfold spec_bytes in Hb, Tl. destruct (f_v2 (e_frame e)) eqn:V; cbn [app nth tl] in Hb, Tl; subst b; cbn [N.eqb Pos.eqb] in R.
      + destruct (g_unmarshal_v2 fstream f_peek_discard f_read_full (map B q')) as [ru l3] eqn:U.
        destruct ru as [f'|e0|].
        * exfalso. unfold nocfg in R. cbn [r_inkey r_dialect] in R. inversion R; subst. eapply NotFrame; reflexivity.
        * inversion R; subst. pose proof (um2_pure _ _ _ U) as [y' [Ey' [_ Bound]]].
          assert (y = y') by (clear -Ey'; revert y' Ey'; induction y as [|a y IH]; intros [|b y'] H; cbn in H; try discriminate; [reflexivity|]; inversion H; f_equal; auto).
          subst y'. apply Bound. intros X. subst e0. apply um2_err2 in U. destruct U as (L9 & I0 & I1).
          assert (N1 : nth 1 q' 0%N = nth 1 (q' ++ z) 0%N) by (rewrite app_nth1 by lia; reflexivity).
          rewrite Tl in N1. cbn [nth] in N1. pose proof W as (_ & _ & _ & _ & _ & _ & _ & Hv). rewrite V in Hv.
          destruct Hv as (_ & _ & [(Hi & _)|(Hi & _)]); rewrite N1, Hi in *; [apply I0|apply I1]; reflexivity.
        * exfalso. exact (um2_no_panic _ _ U).
      + destruct (g_unmarshal_v1 fstream f_peek_discard f_read_full (map B q')) as [ru l3] eqn:U.
        destruct ru as [f'|e0|].
        * exfalso. unfold nocfg in R. cbn [r_inkey r_dialect] in R. inversion R; subst. eapply NotFrame; reflexivity.
        * inversion R; subst. pose proof (um1_pure _ _ _ U) as [y' [Ey' [_ Bound]]].
          assert (y = y') by (clear -Ey'; revert y' Ey'; induction y as [|a y IH]; intros [|b y'] H; cbn in H; try discriminate; [reflexivity|]; inversion H; f_equal; auto).
          subst y'. exact Bound.
        * exfalso. exact (um1_no_panic _ _ U). }
  pose proof (suffix_trans _ _ _ Sy Sq) as Syx.
  destruct r as [f'|c|e0]; [exfalso; eapply NotFrame; reflexivity|exists te_parse, st2, y; auto|exists e0, st2, y; auto].
Qed.

(* ---------- every truncation point ---------- *)
Definition wf_log (es : list (entry * list N)) : Prop := Forall (fun ep => entry_wf (fst ep) (snd ep)) es.

Lemma log_bytes_app a b : log_bytes (a ++ b) = log_bytes a ++ log_bytes b.
Proof. induction a as [|[e p] a IH]; cbn; [reflexivity|]. rewrite IH, app_assoc. reflexivity. Qed.

(* a prefix of a log = some complete entries, then a strict prefix (possibly empty) of the next *)
Lemma cut_shape : forall es k, exists es1 es2 x,
  es = es1 ++ es2 /\ firstn k (log_bytes es) = log_bytes es1 ++ x /\
  (x = [] \/ exists e p rest z, es2 = (e, p) :: rest /\ x ++ z = ebytes e p /\ z <> []).
Proof.
  induction es as [|[e p] t IH]; intros k.
  - exists [], [], []. cbn. rewrite firstn_nil. auto.
  - cbn [log_bytes]. destruct (Nat.lt_ge_cases k (length (ebytes e p))) as [Lt|Ge].
    + exists [], ((e, p) :: t), (firstn k (ebytes e p)). split; [reflexivity|]. split.
      * cbn [log_bytes app]. rewrite firstn_app. replace (k - length (ebytes e p)) with 0 by lia. cbn [firstn]. apply app_nil_r.
      * right. exists e, p, t, (skipn k (ebytes e p)). split; [reflexivity|]. split; [apply firstn_skipn|].
        intros X. assert (length (skipn k (ebytes e p)) = 0) by (rewrite X; reflexivity). rewrite skipn_length in H. lia.
    + destruct (IH (k - length (ebytes e p))) as (es1 & es2 & x & E1 & E2 & E3).
      exists ((e, p) :: es1), es2, x. split; [cbn; rewrite E1; reflexivity|]. split; [|exact E3].
      rewrite firstn_app, firstn_all2 by exact Ge. rewrite E2. cbn [log_bytes]. rewrite app_assoc. reflexivity.
Qed.

(* For every truncation point of a valid log: the reader returns exactly the complete entries
   before the cut, and then only errors, however often it is called — never a fabricated entry. *)
Theorem truncation_safe es k m st : wf_log es ->
  exists es1 es2 errs, es = es1 ++ es2 /\
    length (log_bytes es1) <= k /\ (es2 <> [] -> k < length (log_bytes es1) + length (ebytes (fst (hd (mkEntry 0 (empty_frame false), []) es2)) (snd (hd (mkEntry 0 (empty_frame false), []) es2)))) /\
    tlog_read_n (length es1 + m) nocfg st (map B (firstn k (log_bytes es))) =
      map (fun ep => TEntry (fst ep)) es1 ++ errs /\ Forall is_terr errs.
Proof.
  intros W. destruct (cut_shape es k) as (es1 & es2 & x & E1 & E2 & E3).
  assert (W1 : wf_log es1) by (unfold wf_log in *; rewrite E1 in W; apply Forall_app in W; tauto).
  assert (W2 : wf_log es2) by (unfold wf_log in *; rewrite E1 in W; apply Forall_app in W; tauto).
  assert (Lk : length (firstn k (log_bytes es)) <= k) by (rewrite firstn_length; lia).
  exists es1, es2, (tlog_read_n m nocfg st (map B x)).
  split; [exact E1|]. split; [rewrite E2, app_length in Lk; lia|]. split; [|split].
  - intros Ne. destruct E3 as [Ex|(e & p & rest & z & Ees & Exz & Nz)].
    + subst x. rewrite app_nil_r in E2. destruct es2 as [|[e p] rest]; [contradiction|]. cbn [hd fst snd].
      assert (Len : length (firstn k (log_bytes es)) = length (log_bytes es1)) by (rewrite E2; reflexivity).
      rewrite firstn_length in Len. rewrite E1, log_bytes_app, app_length in Len. cbn [log_bytes] in Len. rewrite app_length in Len.
      pose proof (ts_bytes_length (e_time e)). unfold ebytes in *. rewrite app_length in *. lia.
    + subst es2. cbn [hd fst snd]. rewrite E2, app_length in Lk.
      assert (length (x ++ z) = length (ebytes e p)) by (rewrite Exz; reflexivity). rewrite app_length in H.
      assert (Len : length (firstn k (log_bytes es)) = length (log_bytes es1) + length x) by (rewrite E2, app_length; reflexivity).
      rewrite firstn_length in Len. destruct z; [contradiction|]. cbn [length] in H.
      rewrite E1, log_bytes_app, app_length in Len. cbn [log_bytes] in Len. rewrite app_length in Len. lia.
  - rewrite E2, map_app. apply log_roundtrip. exact W1.
  - destruct E3 as [Ex|(e & p & rest & z & Ees & Exz & Nz)].
    + subst x. apply (short_errors_forever nocfg m st []); [cbn; lia|reflexivity].
    + destruct m as [|m]; [constructor|]. cbn [tlog_read_n].
      assert (We : entry_wf e p) by (subst es2; inversion W2; assumption).
      destruct (cut_in_entry e p x z st We Exz Nz) as (code & st' & y & R & Ly & Sy). rewrite R.
      constructor; [exact I|]. apply short_errors_forever; [lia|].
      eapply suffix_bytes_ok; [exact Sy|]. apply (prefix_bytes_ok x z). rewrite Exz. apply ebytes_ok. exact We.
Qed.
