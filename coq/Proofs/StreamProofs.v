(* The chunked bufio model and the flat item-sequence specification agree. *)
From Coq Require Import Lia PeanoNat.
From GM Require Import Result Stream FlatStream.
Local Open Scope nat_scope.

Lemma map_B_app a b : map B (a ++ b) = map B a ++ map B b.
Proof. apply map_app. Qed.

Lemma ftake_bytes n : forall (b : list N) (rest : fstream), n <= length b ->
  ftake n (map B b ++ rest) = (firstn n b, None, map B (skipn n b) ++ rest).
Proof.
  induction n as [|n IH]; intros b rest H; [reflexivity|].
  destruct b as [|x b]; [cbn in H; lia|].
  cbn [map app ftake firstn skipn]. rewrite IH by (cbn in H; lia). reflexivity.
Qed.

Lemma ftake_short_err n : forall (pre : list N) e post, length pre < n ->
  ftake n (map B pre ++ E e :: post) = (pre, Some (SErr e), post).
Proof.
  induction n as [|n IH]; intros pre e post H; [lia|].
  destruct pre as [|x pre]; [reflexivity|].
  cbn [map app ftake]. rewrite IH by (cbn in H; lia). reflexivity.
Qed.

Lemma ftake_short_end n : forall (pre : list N), length pre < n ->
  ftake n (map B pre) = (pre, Some SEnd, []).
Proof.
  induction n as [|n IH]; intros pre H; [lia|].
  destruct pre as [|x pre]; [reflexivity|].
  cbn [map ftake]. rewrite IH by (cbn in H; lia). reflexivity.
Qed.


Lemma ftake_app_bytes n : forall (b : list N) (l : fstream), length b < n ->
  ftake n (map B b ++ l) =
  let '(x, o, rest) := ftake (n - length b) l in (b ++ x, o, rest).
Proof.
  induction n as [|n IH]; intros b l H; [lia|].
  destruct b as [|y b].
  - cbn [map app length]. replace (S n - 0) with (S n) by lia.
    destruct (ftake (S n) l) as [[x o] rest]. reflexivity.
  - cbn [map app length ftake]. cbn in H.
    assert (NE : length b <> n) by lia.
    rewrite IH by lia. replace (S n - S (length b)) with (n - length b) by lia.
    destruct (ftake (n - length b) l) as [[x o] rest]. reflexivity.
Qed.

(* what fill_until does, in terms of the flat sequence *)
Lemma fill_until_spec n : forall r b oe s', fill_until n b r = (oe, s') ->
  (oe = None /\ items s' = map B b ++ flatten r /\ n <= length (s_buf s'))
  \/ (exists e pre post, oe = Some e /\ map B b ++ flatten r = map B pre ++ E e :: post /\
        length pre < n /\ s_buf s' = pre /\ flatten (s_rest s') = post)
  \/ (oe = Some e_eof /\ map B b ++ flatten r = map B (s_buf s') /\ length (s_buf s') < n /\
        s_rest s' = []).
Proof.
  induction r as [|c r IH]; intros b oe s' H.
  - cbn in H. destruct (Nat.leb n (length b)) eqn:L; inversion H; subst; clear H.
    + left. apply PeanoNat.Nat.leb_le in L. cbn. auto.
    + right. right. apply PeanoNat.Nat.leb_gt in L. cbn. rewrite app_nil_r. auto.
  - cbn [fill_until] in H. destruct (Nat.leb n (length b)) eqn:L.
    + inversion H; subst; clear H. left. apply PeanoNat.Nat.leb_le in L. cbn. auto.
    + apply PeanoNat.Nat.leb_gt in L. destruct c as [d|e].
      * apply IH in H. cbn [flatten]. rewrite map_B_app, <- app_assoc in H. exact H.
      * inversion H; subst; clear H. right. left. exists e, b, (flatten r). cbn. auto.
Qed.

Lemma peek_discard_sim n s :
  f_peek_discard n (items s) = (fst (peek_discard n s), items (snd (peek_discard n s))).
Proof.
  unfold peek_discard, f_peek_discard. destruct s as [b r]. cbn [s_buf s_rest].
  destruct (fill_until n b r) as [oe s'] eqn:F.
  apply fill_until_spec in F. unfold items at 1. cbn [s_buf s_rest].
  destruct F as [[-> [I L]] | [[e [pre [post [-> [I [L [Hb Hr]]]]]]] | [-> [I [L Hr]]]]].
  - rewrite <- I. unfold items. rewrite ftake_bytes by exact L. cbn. reflexivity.
  - rewrite I. rewrite ftake_short_err by exact L. cbn. unfold items. rewrite Hb, Hr. reflexivity.
  - rewrite I. rewrite ftake_short_end by exact L. cbn. unfold items. rewrite Hr. cbn.
    rewrite !app_nil_r. reflexivity.
Qed.

Lemma read_byte_sim s :
  f_read_byte (items s) = (fst (read_byte s), items (snd (read_byte s))).
Proof.
  unfold read_byte, f_read_byte. destruct s as [b r]. cbn [s_buf s_rest].
  destruct (fill_until 1 b r) as [oe s'] eqn:F.
  apply fill_until_spec in F. unfold items at 1. cbn [s_buf s_rest].
  destruct F as [[-> [I L]] | [[e [pre [post [-> [I [L [Hb Hr]]]]]]] | [-> [I [L Hr]]]]].
  - rewrite <- I. destruct s' as [b' r']. cbn [s_buf s_rest] in *.
    destruct b' as [|x b']; [cbn in L; lia|]. unfold items. cbn. reflexivity.
  - rewrite I. destruct pre as [|p0 pre]; [|cbn in L; lia]. cbn. unfold items. rewrite Hb, Hr. reflexivity.
  - rewrite I. rewrite ftake_short_end by exact L. cbn. unfold items. rewrite Hr.
    assert (E0 : s_buf s' = []) by (destruct (s_buf s'); [reflexivity|cbn in L; lia]).
    rewrite E0. reflexivity.
Qed.

Lemma read_full_aux_spec : forall r n acc b,
  let '(res, s') := read_full_aux n acc b r in
  let '(x, o, rest) := ftake n (map B b ++ flatten r) in
  items s' = rest /\
  res = match o with
        | None => Ok (acc ++ x)
        | Some SEnd => Err (match acc ++ x with [] => e_eof | _ => e_unexpected_eof end)
        | Some (SErr e) => Err e
        end.
Proof.
  induction r as [|c r IH]; intros n acc b.
  - cbn [read_full_aux flatten]. rewrite app_nil_r.
    destruct (Nat.leb n (length b)) eqn:L.
    + apply PeanoNat.Nat.leb_le in L. pose proof (ftake_bytes n b [] L) as T.
      rewrite app_nil_r in T. rewrite T. unfold items. cbn. auto.
    + apply PeanoNat.Nat.leb_gt in L. rewrite ftake_short_end by exact L. cbn. auto.
  - cbn [read_full_aux]. destruct (Nat.leb n (length b)) eqn:L.
    + apply PeanoNat.Nat.leb_le in L. rewrite ftake_bytes by exact L. unfold items. cbn. auto.
    + apply PeanoNat.Nat.leb_gt in L. destruct c as [d|e]; cbn [flatten].
      * specialize (IH (n - length b) (acc ++ b) d).
        destruct (read_full_aux (n - length b) (acc ++ b) d r) as [res s'].
        rewrite ftake_app_bytes by exact L.
        destruct (ftake (n - length b) (map B d ++ flatten r)) as [[x o] rest].
        destruct IH as [I R]. split; [exact I|]. rewrite R, <- !app_assoc. reflexivity.
      * rewrite ftake_short_err by exact L. unfold items. cbn. auto.
Qed.

Lemma read_full_sim n s :
  f_read_full n (items s) = (fst (read_full n s), items (snd (read_full n s))).
Proof.
  unfold read_full, f_read_full, items at 1. destruct s as [b r]. cbn [s_buf s_rest].
  pose proof (read_full_aux_spec r n [] b) as H.
  destruct (read_full_aux n [] b r) as [res s'].
  destruct (ftake n (map B b ++ flatten r)) as [[x o] rest].
  destruct H as [I R]. cbn [fst snd]. rewrite I, R. cbn [app].
  destruct o as [[|e]|]; reflexivity.
Qed.
