(* C14: channel lifecycle under faults — the provider / client-endpoint state machine. *)
From Coq Require Import List Lia PeanoNat.
Import ListNotations.
From GM Require Import Provider.

Definition is_oc (a : act) : bool := match a with ChOpen | ChClose _ => true | _ => false end.
Definition lives (script : list env) : list act :=
  flat_map (fun e => match e with ConnOk c => [ChOpen; ChClose c] | ConnFail => [] end) script.

(* open and close events alternate, one pair per successful connection, each close carrying the
   cause of that channel's end: never two channels open at once *)
Lemma alternation_both : forall script,
  (forall b, filter is_oc (provider b script) = lives script) /\ filter is_oc (provider_retry script) = lives script.
Proof.
  induction script as [|e t [IH1 IH2]]; [split; [intros b|]; reflexivity|].
  split; [intros b|]; destruct e as [|c]; cbn [provider provider_retry lives flat_map].
  - rewrite filter_app. destruct b; cbn; exact IH2.
  - rewrite filter_app. destruct b; cbn; rewrite (IH1 false); reflexivity.
  - cbn. exact IH2.
  - cbn. rewrite (IH1 false). reflexivity.
Qed.
Theorem open_close_alternate b script : filter is_oc (provider b script) = lives script.
Proof. apply alternation_both. Qed.

(* every attempt except the very first one comes right after one back-off *)
Fixpoint spaced (ok : bool) (l : list act) : bool :=
  match l with
  | [] => true
  | Attempt :: t => ok && spaced false t
  | Backoff :: t => spaced true t
  | _ :: t => spaced false t
  end.
Lemma spaced_both : forall script,
  spaced true (provider true script) = true /\ spaced false (provider false script) = true /\
  spaced false (provider_retry script) = true.
Proof.
  induction script as [|e t (IH1 & IH2 & IH3)]; [repeat split; reflexivity|].
  destruct e as [|c]; cbn [provider provider_retry app spaced andb]; repeat split; auto.
Qed.
Theorem backoff_before_every_retry script : spaced true (provider true script) = true.
Proof. apply spaced_both. Qed.

(* a fresh attempt follows every outcome, for any number of consecutive failures *)
Definition is_attempt (a : act) : bool := match a with Attempt => true | _ => false end.
Lemma attempts_both : forall script,
  (forall b, length (filter is_attempt (provider b script)) = length script) /\
  length (filter is_attempt (provider_retry script)) = length script.
Proof.
  induction script as [|e t [IH1 IH2]]; [split; [intros b|]; reflexivity|].
  split; [intros b|]; destruct e as [|c]; cbn [provider provider_retry].
  - rewrite filter_app. destruct b; cbn; rewrite IH2; reflexivity.
  - rewrite filter_app. destruct b; cbn; rewrite (IH1 false); reflexivity.
  - cbn. rewrite IH2. reflexivity.
  - cbn. rewrite (IH1 false). reflexivity.
Qed.
Theorem reconnects_after_every_failure b script : length (filter is_attempt (provider b script)) = length script.
Proof. apply attempts_both. Qed.

(* at most one channel open at any point of the trace *)
Fixpoint open_count (n : nat) (l : list act) : list nat :=
  match l with
  | [] => []
  | ChOpen :: t => S n :: open_count (S n) t
  | ChClose _ :: t => pred n :: open_count (pred n) t
  | _ :: t => n :: open_count n t
  end.
Lemma lives_count : forall script, Forall (fun n => n <= 1) (open_count 0 (lives script)).
Proof.
  induction script as [|e t IH]; [constructor|]. destruct e as [|c]; cbn; [exact IH|].
  constructor; [lia|]. constructor; [lia|]. exact IH.
Qed.
Theorem at_most_one_open b script : Forall (fun n => n <= 1) (open_count 0 (filter is_oc (provider b script))).
Proof. rewrite open_close_alternate. apply lives_count. Qed.

(* server endpoints: every peer gets its own channel, in order, and accepting goes on *)
Theorem server_one_channel_per_peer peers : map fst (server peers) = peers /\ length (server peers) = length peers.
Proof. unfold server. rewrite map_map, map_length. split; [|reflexivity]. induction peers; cbn; [reflexivity|f_equal; assumption]. Qed.

(* every read and write on a timed connection is bounded by a deadline armed afresh for that call *)
Fixpoint armed (l : list call) : bool :=
  match l with
  | [] => true
  | SetReadDeadline :: DoRead :: t => armed t
  | SetWriteDeadline :: DoWrite :: t => armed t
  | _ => false
  end.
Theorem deadline_armed_every_call ops : armed (timed_calls ops) = true.
Proof. induction ops as [|o t IH]; [reflexivity|]. destruct o; cbn; exact IH. Qed.
