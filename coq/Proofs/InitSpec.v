(* C03, generic: for ANY Go message struct of the accepted shape, Initialize produces exactly the
   field table, sizes and CRC_EXTRA that the MAVLink rules derive from the definition the struct
   denotes.  (The table theorem all_shipped_follow_spec is the same statement computed on the
   408 shipped structs.) *)
From Coq Require Import ZArith Lia ZifyN ZifyNat ZifyBool PeanoNat.
From GM Require Import Bytes Result Codec X25 Crc Layout LayoutSpec CrcProofs SortProofs SignProofs GenProofs CodecProofs CodecIdem.
Ltac Zify.zify_post_hook ::= Z.div_mod_to_equations.

(* ---- the accepted shape ---- *)
Definition enum_wire (t : ftype) : bool :=
  match t with TUint8 | TInt8 | TUint16 | TUint32 | TInt32 | TUint64 => true | _ => false end.
Definition go_name_ok (g : gofield) : bool :=
  match g_tag_name g with
  | [] => match g_name g with c :: _ => is_upper c | [] => false end
  | _ :: _ => true
  end.
Definition gofield_ok (g : gofield) : bool :=
  go_name_ok g &&
  (if g_isarr g then (1 <=? g_arrlen g) && (g_arrlen g <=? 255) else true) &&
  match g_tag_enum g with
  | _ :: _ => g_kind_uint64 g && match ftype_from_go (g_tag_enum g) with Some t => enum_wire t | None => false end
  | [] => match ftype_from_go (g_tname g) with
          | Some TChar => g_kind_string g && negb (g_isarr g) &&
                          match g_tag_len g with
                          | [] => true
                          | tl => match atoi tl with Some z => (1 <=? z)%Z && (z <=? 255)%Z | None => false end
                          end
          | Some _ => negb (g_kind_string g)
          | None => false
          end
  end.

Ltac fin := repeat split; first [reflexivity | lia | exact I
  | (match goal with |- context [match ?x with N0 => _ | Npos _ => _ end] => destruct x end; reflexivity)
  | (unfold flen, elem_len, mlen, msize, byte_of_Z, u8; cbn [fd_isarr fd_golen fd_enum fd_type fd_alen mf_type mf_arr ftype_size];
     repeat match goal with |- context [ftype_size ?t] => destruct t; try discriminate; cbn [ftype_size] end;
     try rewrite Z.mod_small by lia; try rewrite N.mod_small by lia; lia)].

(* ---- one field ---- *)
Definition arr_bounds (m : mfield) : Prop := match mf_arr m with Some n => 1 <= n <= 255 | None => True end.

Lemma init_field_spec i g : gofield_ok g = true ->
  exists f m, init_field i g = Ok f /\ def_field i g = Some m /\ field_matches f m = true /\ arr_bounds m /\
              fd_index f = i /\ fd_ext f = bytes_eqb (g_tag_ext g) s_true /\ flen f = N.to_nat (mlen m).
Proof.
  unfold gofield_ok. intros H. apply andb_prop in H. destruct H as [H Ht]. apply andb_prop in H. destruct H as [Hn Ha].
  (* the name *)
  assert (NM : exists nm, (match g_tag_name g with [] => field_go_to_def (g_name g) | n0 :: l0 => Ok (n0 :: l0) end) = Ok nm /\
                          nm = match g_tag_name g with [] => snake false (g_name g) | n0 :: l0 => n0 :: l0 end).
  { unfold go_name_ok in Hn. destruct (g_tag_name g) as [|t0 tl].
    - destruct (g_name g) as [|c r]; [discriminate|]. exists (snake false (c :: r)). split; [apply field_go_to_def_snake; exact Hn|reflexivity].
    - eexists. split; reflexivity. }
  destruct NM as (nm & NM1 & NM2).
  unfold init_field, def_field.
  destruct (g_tag_enum g) as [|e0 en] eqn:TE.
  - (* plain *)
    destruct (ftype_from_go (g_tname g)) as [t|] eqn:FT; [|discriminate].
    destruct (ftype_eqb t TChar) eqn:IsC.
    + assert (t = TChar) by (destruct t; try discriminate; reflexivity). subst t.
      apply andb_prop in Ht. destruct Ht as [Ht Hl]. apply andb_prop in Ht. destruct Ht as [Ks Na].
      rewrite Ks. destruct (g_isarr g); [discriminate|].
      destruct (g_tag_len g) as [|t0 tl] eqn:TL.
      * rewrite NM1. eexists _, _. split; [reflexivity|]. split; [reflexivity|].
        unfold field_matches, arr_bounds. cbn. rewrite Nat.eqb_refl, NM2, (proj2 (list_eqb_eq _ _) eq_refl), Bool.eqb_reflx. cbn. fin.
      * destruct (atoi (t0 :: tl)) as [z|] eqn:AZ; [|discriminate]. apply andb_prop in Hl. destruct Hl as [Z1 Z2].
        rewrite NM1. eexists _, _. split; [reflexivity|]. split; [reflexivity|].
        unfold field_matches, arr_bounds. cbn. rewrite Nat.eqb_refl, NM2, (proj2 (list_eqb_eq _ _) eq_refl), Bool.eqb_reflx. cbn.
        unfold byte_of_Z. rewrite Z.mod_small by lia. rewrite N.eqb_refl. cbn. fin.
    + assert (Ks : g_kind_string g = false) by (destruct (g_kind_string g); [destruct t; discriminate|reflexivity]).
      rewrite Ks. rewrite NM1.
      assert (DF : (match t with
                    | TChar => match g_tag_len g with [] => Some (mkMField TChar nm None (bytes_eqb (g_tag_ext g) s_true) false i)
                               | t0 :: tl => match atoi (t0 :: tl) with Some z => Some (mkMField TChar nm (Some (Z.to_N z)) (bytes_eqb (g_tag_ext g) s_true) false i) | None => None end end
                    | _ => Some (mkMField t nm (if g_isarr g then Some (g_arrlen g) else None) (bytes_eqb (g_tag_ext g) s_true) false i)
                    end) = Some (mkMField t nm (if g_isarr g then Some (g_arrlen g) else None) (bytes_eqb (g_tag_ext g) s_true) false i))
        by (destruct t; try discriminate; reflexivity).
      eexists _, _. split; [reflexivity|]. split.
      * rewrite <- NM2. destruct t; try discriminate; reflexivity.
      * unfold field_matches, arr_bounds. cbn. rewrite Nat.eqb_refl, (proj2 (list_eqb_eq _ _) eq_refl), Bool.eqb_reflx.
        assert (TT : ftype_eqb t t = true) by (destruct t; reflexivity). rewrite TT. cbn.
        destruct (g_isarr g).
        -- apply andb_prop in Ha. destruct Ha as [A1 A2]. unfold u8. rewrite N.mod_small by lia. rewrite N.eqb_refl. cbn. fin.
        -- rewrite IsC. cbn. fin.
  - (* enum *)
    apply andb_prop in Ht. destruct Ht as [Ku Hw]. rewrite Ku. cbn [negb].
    destruct (ftype_from_go (e0 :: en)) as [t|] eqn:FT; [|discriminate].
    rewrite NM1.
    assert (EW : match t with TUint8 | TInt8 | TUint16 | TUint32 | TInt32 | TUint64 => True | _ => False end)
      by (destruct t; try discriminate; exact I).
    eexists (mkField true t nm (if g_isarr g then u8 (g_arrlen g) else 0) i (bytes_eqb (g_tag_ext g) s_true)
                     (g_isarr g) (N.to_nat (g_arrlen g)) (g_isarr g)), _.
    split; [destruct t; try contradiction; reflexivity|]. split; [rewrite <- NM2; reflexivity|].
    unfold field_matches, arr_bounds. cbn. rewrite Nat.eqb_refl, (proj2 (list_eqb_eq _ _) eq_refl), Bool.eqb_reflx.
    assert (TT : ftype_eqb t t = true) by (destruct t; reflexivity). rewrite TT. cbn.
    destruct (g_isarr g).
    + apply andb_prop in Ha. destruct Ha as [A1 A2]. unfold u8. rewrite N.mod_small by lia. rewrite N.eqb_refl. cbn. fin.
    + rewrite Bool.andb_false_r. cbn. fin.
Qed.

(* ---- all fields ---- *)
Lemma ftype_eqb_eq a b : ftype_eqb a b = true -> a = b.
Proof. destruct a, b; cbn; intros H; try discriminate; reflexivity. Qed.

Record fm (f : field) (m : mfield) : Prop := mkFm {
  fm_idx : fd_index f = mf_idx m; fm_type : fd_type f = mf_type m; fm_name : fd_name f = mf_name m;
  fm_ext : fd_ext f = mf_ext m; fm_enum : fd_enum f = mf_enum m;
  fm_arr : match mf_arr m with
           | Some n => fd_alen f = n /\ fd_haslen f = true
           | None => fd_haslen f = false /\
                     fd_alen f = (if ftype_eqb (mf_type m) TChar && negb (mf_enum m) then 1 else 0)
           end }.
Lemma fm_of_matches f m : field_matches f m = true -> fm f m.
Proof.
  unfold field_matches. intros H.
  apply andb_prop in H. destruct H as [H Ha]. apply andb_prop in H. destruct H as [H He].
  apply andb_prop in H. destruct H as [H Hx]. apply andb_prop in H. destruct H as [H Hn].
  apply andb_prop in H. destruct H as [Hi Ht].
  apply Nat.eqb_eq in Hi. apply ftype_eqb_eq in Ht. apply list_eqb_eq in Hn.
  apply Bool.eqb_prop in Hx. apply Bool.eqb_prop in He.
  constructor; try assumption.
  destruct (mf_arr m) as [n|].
  - apply andb_prop in Ha. destruct Ha as [A1 A2]. apply N.eqb_eq in A1. auto.
  - apply andb_prop in Ha. destruct Ha as [A1 A2]. apply N.eqb_eq in A2. destruct (fd_haslen f); [discriminate|]. auto.
Qed.

Lemma init_fields_spec : forall gs i, forallb gofield_ok gs = true ->
  exists fs ms, init_fields i gs = Ok fs /\ def_fields i gs = Some ms /\
                Forall2 fm fs ms /\ Forall arr_bounds ms /\ all2 field_matches fs ms = true /\
                Forall (fun f => i <= fd_index f)%nat fs /\ decl_order fs /\
                map fd_ext fs = map (fun g => bytes_eqb (g_tag_ext g) s_true) gs /\
                Forall2 (fun f m => flen f = N.to_nat (mlen m)) fs ms /\
                map fd_index fs = seq i (length fs).
Proof.
  induction gs as [|g t IH]; intros i H.
  - exists [], []. repeat split; constructor.
  - cbn [forallb] in H. apply andb_prop in H. destruct H as [Hg Ht].
    destruct (init_field_spec i g Hg) as (f & m & If & Df & Mf & Bf & Xf & Ef & Fl).
    destruct (IH (S i) Ht) as (fs & ms & Ifs & Dfs & F2 & Bs & A2 & Lo & Do & Ex & Fls & Ix).
    exists (f :: fs), (m :: ms). cbn [init_fields def_fields]. rewrite If, Df. cbn [rbind]. rewrite Ifs, Dfs. cbn [rbind].
    split; [reflexivity|]. split; [reflexivity|]. split; [constructor; [apply fm_of_matches; exact Mf|exact F2]|].
    split; [constructor; assumption|]. split; [cbn [all2]; rewrite Mf; exact A2|].
    split.
    + constructor; [lia|]. eapply Forall_impl; [|exact Lo]. cbn. intros a Ha. lia.
    + split.
      * cbn [decl_order]. split; [|exact Do]. eapply Forall_impl; [|exact Lo]. cbn. intros a Ha. lia.
      * split; [cbn [map]; rewrite Ef, Ex; reflexivity|]. split; [constructor; assumption|].
        cbn [map length seq]. rewrite Xf, Ix. reflexivity.
Qed.

(* ---- the order ---- *)
Definition spec_order_m := spec_order.
Lemma Forall2_filter {A B} (R : A -> B -> Prop) (p : A -> bool) (q : B -> bool) l1 l2 :
  Forall2 R l1 l2 -> (forall a b, R a b -> p a = q b) -> Forall2 R (filter p l1) (filter q l2).
Proof.
  intros F E. induction F as [|a b l1 l2 Rab F IH]; [constructor|]. cbn. rewrite (E a b Rab).
  destruct (q b); [constructor; assumption|exact IH].
Qed.
Lemma Forall2_app' {A B} (R : A -> B -> Prop) a1 a2 b1 b2 : Forall2 R a1 b1 -> Forall2 R a2 b2 -> Forall2 R (a1 ++ a2) (b1 ++ b2).
Proof. intros F1 F2. induction F1; [exact F2|]. cbn. constructor; assumption. Qed.

Lemma order_matches fs ms : Forall2 fm fs ms -> Forall2 fm (spec_order_f fs) (spec_order ms).
Proof.
  intros F. unfold spec_order_f, spec_order. apply Forall2_app'.
  - cbn [map concat]. repeat apply Forall2_app'; try constructor;
      (apply Forall2_filter; [exact F|]; intros a b [Hi Ht Hn Hx He Ha]; unfold is_base, fsize, msize; rewrite Hx, Ht; reflexivity).
  - apply Forall2_filter; [exact F|]. intros a b [Hi Ht Hn Hx He Ha]. exact Hx.
Qed.

Lemma all2_of_Forall2 fs ms : Forall2 fm fs ms -> Forall arr_bounds ms -> all2 field_matches fs ms = true.
Proof.
  intros F. induction F as [|f m fs ms [Hi Ht Hn Hx He Ha] F IH]; intros B; [reflexivity|].
  inversion B as [|? ? Bm Bs]; subst. cbn [all2]. rewrite (IH Bs), Bool.andb_true_r.
  unfold field_matches. rewrite Hi, Ht, Hn, Hx, He, Nat.eqb_refl, (proj2 (list_eqb_eq _ _) eq_refl), !Bool.eqb_reflx.
  assert (TT : ftype_eqb (mf_type m) (mf_type m) = true) by (destruct (mf_type m); reflexivity). rewrite TT. cbn.
  destruct (mf_arr m) as [n|].
  - destruct Ha as [-> ->]. rewrite N.eqb_refl. reflexivity.
  - destruct Ha as [-> ->]. rewrite N.eqb_refl. reflexivity.
Qed.

Lemma Forall_filter' {A} (P : A -> Prop) p (l : list A) : Forall P l -> Forall P (filter p l).
Proof. intros F. induction F; cbn; [constructor|]. destruct (p x); [constructor; assumption|assumption]. Qed.
Lemma bounds_order ms : Forall arr_bounds ms -> Forall arr_bounds (spec_order ms).
Proof.
  intros F. unfold spec_order. apply Forall_app. split.
  - cbn [map concat]. repeat (apply Forall_app; split); try constructor; apply Forall_filter'; exact F.
  - apply Forall_filter'. exact F.
Qed.

(* ---- sizes ---- *)
Lemma field_size_mlen f m : fm f m -> arr_bounds m -> mlen m <= 255 -> field_size f = mlen m.
Proof.
  intros [Hi Ht Hn Hx He Ha] B L. unfold arr_bounds in B. unfold field_size, mlen, msize in *. rewrite Ht.
  destruct (mf_arr m) as [n|].
  - destruct Ha as [-> _]. cbn in B. assert (0 <? n = true) as -> by lia. unfold u8. rewrite N.mod_small by lia. reflexivity.
  - destruct Ha as [_ ->]. destruct (ftype_eqb (mf_type m) TChar && negb (mf_enum m)) eqn:C.
    + apply andb_prop in C. destruct C as [C _]. apply ftype_eqb_eq in C. rewrite C. cbn. reflexivity.
    + cbn. lia.
Qed.

Lemma sizes_ext : forall fs ms acc, Forall2 fm fs ms -> Forall arr_bounds ms -> acc + spec_size_ext ms <= 255 ->
  fold_left (fun a f => u8 (a + field_size f)) fs acc = acc + spec_size_ext ms.
Proof.
  intros fs ms acc F. revert acc. induction F as [|f m fs ms Hfm F IH]; intros acc B L; cbn [fold_left spec_size_ext fold_right].
  - lia.
  - inversion B as [|? ? Bm Bs]; subst. cbn [spec_size_ext fold_right] in L. fold (spec_size_ext ms) in L |- *.
    rewrite (field_size_mlen f m Hfm Bm) by lia.
    replace (u8 (acc + mlen m)) with (acc + mlen m) by (unfold u8; rewrite N.mod_small; lia).
    rewrite IH by (try assumption; lia). lia.
Qed.
Lemma base_le_ext ms : spec_size_base ms <= spec_size_ext ms.
Proof. induction ms as [|m t IH]; cbn; [lia|]. fold (spec_size_base t) (spec_size_ext t). destruct (mf_ext m); lia. Qed.
Lemma sizes_base : forall fs ms acc, Forall2 fm fs ms -> Forall arr_bounds ms -> acc + spec_size_ext ms <= 255 ->
  fold_left (fun a f => if fd_ext f then a else u8 (a + field_size f)) fs acc = acc + spec_size_base ms.
Proof.
  intros fs ms acc F. revert acc. induction F as [|f m fs ms Hfm F IH]; intros acc B L; cbn [fold_left spec_size_base fold_right].
  - lia.
  - inversion B as [|? ? Bm Bs]; subst. cbn [spec_size_ext fold_right] in L. fold (spec_size_ext ms) in L. fold (spec_size_base ms).
    pose proof (base_le_ext ms) as BE. rewrite (fm_ext f m Hfm). destruct (mf_ext m).
    + rewrite IH by (try assumption; lia). reflexivity.
    + rewrite (field_size_mlen f m Hfm Bm) by lia.
      replace (u8 (acc + mlen m)) with (acc + mlen m) by (unfold u8; rewrite N.mod_small; lia).
      rewrite IH by (try assumption; lia). lia.
Qed.

(* ---- CRC_EXTRA ---- *)
Lemma crc_text_field f m : fm f m -> arr_bounds m ->
  crc_field_bytes f = ftype_string (mf_type m) ++ [32] ++ mf_name m ++ [32] ++ match mf_arr m with Some n => [n] | None => [] end.
Proof.
  intros [Hi Ht Hn Hx He Ha] B. unfold crc_field_bytes. rewrite Ht, Hn. unfold arr_bounds in B.
  destruct (mf_arr m) as [n|].
  - destruct Ha as [-> ->]. assert (0 <? n = true) as -> by lia. reflexivity.
  - destruct Ha as [-> _]. rewrite Bool.andb_false_r. reflexivity.
Qed.
Lemma crc_text_fields : forall fs ms, Forall2 fm fs ms -> Forall arr_bounds ms ->
  concat (map crc_field_bytes (filter (fun f => negb (fd_ext f)) fs)) =
  concat (map (fun f => ftype_string (mf_type f) ++ [32] ++ mf_name f ++ [32] ++ match mf_arr f with Some n => [n] | None => [] end)
              (filter (fun f => negb (mf_ext f)) ms)).
Proof.
  intros fs ms F. induction F as [|f m fs ms Hfm F IH]; intros B; [reflexivity|].
  inversion B as [|? ? Bm Bs]; subst. cbn [filter]. rewrite (fm_ext f m Hfm). destruct (mf_ext m); cbn [negb].
  - apply IH. exact Bs.
  - cbn [map concat]. rewrite (crc_text_field f m Hfm Bm), (IH Bs). reflexivity.
Qed.

Lemma fold16 c : c < 65536 -> u8 (N.lxor (N.land c 255) (N.shiftr c 8)) = N.lxor (c mod 256) (c / 256).
Proof.
  intros H. change 255 with (N.ones 8). rewrite N.land_ones. change (2 ^ 8) with 256.
  rewrite N.shiftr_div_pow2. change (2 ^ 8) with 256. unfold u8. apply N.mod_small.
  apply (lxor_lt_pow2 _ _ 8); change (2 ^ 8) with 256; [apply N.mod_lt; discriminate|].
  apply N.div_lt_upper_bound; [discriminate|exact H].
Qed.

(* ---- the whole struct ---- *)
Fixpoint exts_last_b (bs : list bool) : bool :=
  match bs with [] => true | b :: t => (if b then forallb (fun x => x) t else true) && exts_last_b t end.
Lemma ext_after_base_of_map : forall fs, exts_last_b (map fd_ext fs) = true -> ext_after_base fs.
Proof.
  induction fs as [|f t IH]; cbn [map exts_last_b ext_after_base]; intros H; [exact I|].
  apply andb_prop in H. destruct H as [H1 H2]. split; [|apply IH; exact H2].
  intros E. rewrite E in H1. rewrite forallb_forall in H1. apply Forall_forall. intros y Iy.
  apply H1. apply in_map. exact Iy.
Qed.

Definition gostruct_ok (g : gostruct) : bool :=
  has_prefix s_Message (gs_name g) &&
  match skipn 7 (gs_name g) with c :: _ => is_upper c | [] => false end &&
  forallb gofield_ok (gs_fields g) &&
  exts_last_b (map (fun g => bytes_eqb (g_tag_ext g) s_true) (gs_fields g)).

(* For ANY Go struct of the accepted shape — name Message<Capital...>, fields whose names are
   recoverable, types of the table, arrays / strings of 1..255 elements, enum fields of an integer
   wire type, extensions declared after base fields — whose denoted definition fits a payload
   (255 bytes) and is made of bytes: Initialize succeeds and its field table, sizes and CRC_EXTRA
   are exactly those the MAVLink rules derive from that definition. *)
Theorem initialize_is_spec g d :
  gostruct_ok g = true -> def_of g = Some d ->
  spec_size_ext (md_fields d) <= 255 -> bytes_ok (spec_crc_text d) = true ->
  exists c, initialize g = Ok c /\ codec_matches_spec c d = true.
Proof.
  unfold gostruct_ok. intros H D SZ BO.
  apply andb_prop in H. destruct H as [H Hx]. apply andb_prop in H. destruct H as [H Hf]. apply andb_prop in H. destruct H as [Hp Hu].
  destruct (skipn 7 (gs_name g)) as [|c0 r0] eqn:SK; [discriminate|].
  destruct (init_fields_spec (gs_fields g) 0 Hf) as (fs & ms & If & Df & F2 & Bs & A2 & Lo & Do & Ex & Fls & Ix).
  unfold def_of in D. rewrite Hp, Df, SK in D. inversion D; subst d. clear D. cbn [md_fields md_name] in *.
  unfold initialize. rewrite Hp. cbn [negb]. rewrite SK, (msg_go_to_def_snake c0 r0 Hu). cbn [rbind]. rewrite If. cbn [rbind].
  eexists. split; [reflexivity|].
  assert (EA : ext_after_base fs) by (apply ext_after_base_of_map; rewrite Ex; exact Hx).
  assert (SO : sort_fields fs = spec_order_f fs) by (apply sort_is_spec_order; assumption).
  pose proof (order_matches fs ms F2) as OM. pose proof (bounds_order ms Bs) as BO2.
  unfold codec_matches_spec. cbn [c_fields c_size_normal c_size_ext c_crc md_fields].
  rewrite SO. rewrite (all2_of_Forall2 _ _ OM BO2).
  rewrite (sizes_base fs ms 0 F2 Bs) by (cbn; lia). rewrite (sizes_ext fs ms 0 F2 Bs) by (cbn; lia).
  rewrite !N.add_0_l, !N.eqb_refl. cbn [andb].
  assert (SZb : spec_size_ext ms <=? 255 = true) by lia. rewrite SZb, Bool.andb_true_r.
  (* CRC_EXTRA *)
  unfold crc_extra_of, spec_crc_extra. cbn [md_name md_fields].
  assert (TX : snake true (c0 :: r0) ++ [32] ++ concat (map crc_field_bytes (filter (fun f => negb (fd_ext f)) (spec_order_f fs)))
               = spec_crc_text (mkMavDef (snake true (c0 :: r0)) ms)).
  { unfold spec_crc_text. cbn [md_name md_fields]. rewrite (crc_text_fields _ _ OM BO2). reflexivity. }
  rewrite TX. rewrite (x25_sum_is_mcrf4xx _ BO).
  rewrite fold16; [apply N.eqb_refl|].
  rewrite <- (x25_sum_is_mcrf4xx _ BO). unfold x25_sum.
  exact (proj2 (x25_write_is_mcrf4xx _ x25_init ltac:(reflexivity) BO)).
Qed.

(* the same as a boolean, for tables and tests *)
Corollary struct_ok_follows_spec g d : gostruct_ok g = true -> def_of g = Some d ->
  spec_size_ext (md_fields d) <= 255 -> bytes_ok (spec_crc_text d) = true -> struct_follows_spec g = true.
Proof.
  intros H D S B. destruct (initialize_is_spec g d H D S B) as (c & I & M).
  unfold struct_follows_spec. rewrite I, D. exact M.
Qed.

(* ---- the codec of any accepted struct is well-formed: the C04 / C08 theorems apply to it ---- *)
From Coq Require Import Sorting.Permutation.
Lemma total_len_perm v2 l1 l2 : Permutation l1 l2 -> total_len v2 l1 = total_len v2 l2.
Proof.
  intros P. unfold total_len. induction P as [|x l1 l2 P IH|x y l|l1 l2 l3 P1 IH1 P2 IH2]; cbn [fold_right].
  - reflexivity.
  - rewrite IH. reflexivity.
  - destruct (active v2 x), (active v2 y); lia.
  - congruence.
Qed.
Lemma total_len_ext : forall fs ms, Forall2 (fun f m => flen f = N.to_nat (mlen m)) fs ms ->
  total_len true fs = N.to_nat (spec_size_ext ms).
Proof.
  intros fs ms F. induction F as [|f m fs ms Hl F IH]; [reflexivity|].
  cbn [total_len fold_right spec_size_ext]. fold (total_len true fs) (spec_size_ext ms). cbn [active orb]. rewrite Hl, IH. lia.
Qed.
Lemma total_len_base : forall fs ms, Forall2 (fun f m => flen f = N.to_nat (mlen m)) fs ms -> Forall2 fm fs ms ->
  total_len false fs = N.to_nat (spec_size_base ms).
Proof.
  intros fs ms F. induction F as [|f m fs ms Hl F IH]; intros G; [reflexivity|]. inversion G as [|? ? ? ? Gf Gs]; subst.
  cbn [total_len fold_right spec_size_base]. fold (total_len false fs) (spec_size_base ms). unfold active. cbn [orb].
  rewrite (fm_ext f m Gf). destruct (mf_ext m); cbn [negb]; rewrite (IH Gs); [reflexivity|]. rewrite Hl. lia.
Qed.

Theorem accepted_struct_codec_wf g d c :
  gostruct_ok g = true -> def_of g = Some d -> spec_size_ext (md_fields d) <= 255 -> initialize g = Ok c ->
  codec_wf2 c /\ (N.to_nat (c_size_ext c) <= 255)%nat.
Proof.
  unfold gostruct_ok. intros H D SZ I.
  apply andb_prop in H. destruct H as [H Hx]. apply andb_prop in H. destruct H as [H Hf]. apply andb_prop in H. destruct H as [Hp Hu].
  destruct (skipn 7 (gs_name g)) as [|c0 r0] eqn:SK; [discriminate|].
  destruct (init_fields_spec (gs_fields g) 0 Hf) as (fs & ms & If & Df & F2 & Bs & A2 & Lo & Do & Ex & Fls & Ix).
  unfold def_of in D. rewrite Hp, Df, SK in D. inversion D; subst d. clear D. cbn [md_fields] in SZ.
  unfold initialize in I. rewrite Hp in I. cbn [negb] in I. rewrite SK, (msg_go_to_def_snake c0 r0 Hu) in I. cbn [rbind] in I.
  rewrite If in I. cbn [rbind] in I. inversion I; subst c. clear I.
  pose proof (sort_perm fs) as SP.
  rewrite (sizes_ext fs ms 0 F2 Bs) by (cbn; lia). rewrite N.add_0_l.
  split; [split; [split|split]|].
  - cbn [c_size_ext c_fields]. rewrite <- (total_len_perm true _ _ SP). rewrite (total_len_ext fs ms Fls). reflexivity.
  - cbn [c_size_normal c_fields]. rewrite (sizes_base fs ms 0 F2 Bs) by (cbn; lia). rewrite N.add_0_l.
    rewrite <- (total_len_perm false _ _ SP). rewrite (total_len_base fs ms Fls F2). reflexivity.
  - cbn [c_fields]. apply (Permutation_NoDup (Permutation_map fd_index SP)). rewrite Ix. apply seq_NoDup.
  - cbn [c_fields c_nfields]. apply Forall_forall. intros f Inf. apply (Permutation_in _ (Permutation_sym SP)) in Inf.
    assert (I2 : In (fd_index f) (map fd_index fs)) by (apply in_map; exact Inf).
    rewrite Ix in I2. apply in_seq in I2. lia.
  - cbn [c_size_ext]. lia.
Qed.

