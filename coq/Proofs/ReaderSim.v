(* The frame reader over the chunked bufio model computes the same results as the reader
   over the flat item sequence: what the reader returns is a function of the bytes and
   faults in order, not of how the transport splits them (C05). *)
From Coq Require Import Lia PeanoNat.
From GM Require Import Result Stream FlatStream StreamProofs Frame Reader.

Section Sim.
Variables (S1 S2 : Type) (phi : S1 -> S2).
Variables (rb1 : S1 -> res N * S1) (pd1 rf1 : nat -> S1 -> res (list N) * S1).
Variables (rb2 : S2 -> res N * S2) (pd2 rf2 : nat -> S2 -> res (list N) * S2).
Hypothesis Hrb : forall s, rb2 (phi s) = (fst (rb1 s), phi (snd (rb1 s))).
Hypothesis Hpd : forall n s, pd2 n (phi s) = (fst (pd1 n s), phi (snd (pd1 n s))).
Hypothesis Hrf : forall n s, rf2 n (phi s) = (fst (rf1 n s), phi (snd (rf1 n s))).

Definition lift {A} (x : A * S1) : A * S2 := (fst x, phi (snd x)).

Lemma payload_sim n s :
  g_read_payload S2 rf2 n (phi s) = lift (g_read_payload S1 rf1 n s).
Proof. unfold g_read_payload. destruct n; [reflexivity|apply Hrf]. Qed.

Ltac step_pd k s :=
  rewrite (Hpd k s); destruct (pd1 k s) as [[?l|?e|] ?s]; cbn [fst snd]; try reflexivity.

Lemma unmarshal_v1_sim s :
  g_unmarshal_v1 S2 pd2 rf2 (phi s) = lift (g_unmarshal_v1 S1 pd1 rf1 s).
Proof.
  unfold g_unmarshal_v1. step_pd 5%nat s.
  do 5 (destruct l as [|? l]; try reflexivity). destruct l; try reflexivity.
  rewrite payload_sim. destruct (g_read_payload S1 rf1 (N.to_nat n) s0) as [[p|e|] s2]; try reflexivity.
  unfold lift; cbn [fst snd]. step_pd 2%nat s2.
Qed.

Lemma unmarshal_v2_sim s :
  g_unmarshal_v2 S2 pd2 rf2 (phi s) = lift (g_unmarshal_v2 S1 pd1 rf1 s).
Proof.
  unfold g_unmarshal_v2. step_pd 9%nat s.
  do 9 (destruct l as [|? l]; try reflexivity). destruct l; try reflexivity.
  destruct (negb (n0 =? 0)%N && negb (n0 =? 1)%N); [reflexivity|].
  rewrite payload_sim. destruct (g_read_payload S1 rf1 (N.to_nat n) s0) as [[p|e|] s2]; try reflexivity.
  unfold lift; cbn [fst snd]. step_pd 2%nat s2.
  match goal with |- context [is_signed ?f] => destruct (is_signed f) end; [|reflexivity].
  step_pd 13%nat s1.
Qed.

Lemma reader_read_sim cfg st s :
  g_reader_read S2 rb2 pd2 rf2 cfg st (phi s) =
  (let '(r, st', s') := g_reader_read S1 rb1 pd1 rf1 cfg st s in (r, st', phi s')).
Proof.
  unfold g_reader_read. rewrite Hrb.
  destruct (rb1 s) as [[magic|e|] s1]; cbn [fst snd]; try reflexivity.
  destruct (magic =? 254)%N.
  - rewrite unmarshal_v1_sim.
    destruct (g_unmarshal_v1 S1 pd1 rf1 s1) as [[f|e|] s2]; unfold lift; cbn [fst snd]; try reflexivity.
    destruct (match r_inkey cfg with Some k => check_key k st f | None => (None, st) end) as [kerr st'].
    destruct kerr; [reflexivity|]. destruct (r_dialect cfg); reflexivity.
  - destruct (magic =? 253)%N; [|reflexivity].
    rewrite unmarshal_v2_sim.
    destruct (g_unmarshal_v2 S1 pd1 rf1 s1) as [[f|e|] s2]; unfold lift; cbn [fst snd]; try reflexivity.
    destruct (match r_inkey cfg with Some k => check_key k st f | None => (None, st) end) as [kerr st'].
    destruct kerr; [reflexivity|]. destruct (r_dialect cfg); reflexivity.
Qed.
End Sim.

(* the reader over the flat specification stream *)
Definition flat_reader_read := g_reader_read fstream f_read_byte f_peek_discard f_read_full.

Theorem reader_read_flat cfg st s :
  flat_reader_read cfg st (items s) =
  (let '(r, st', s') := reader_read cfg st s in (r, st', items s')).
Proof.
  unfold flat_reader_read, reader_read.
  apply (reader_read_sim stream fstream items read_byte peek_discard read_full
           f_read_byte f_peek_discard f_read_full read_byte_sim peek_discard_sim read_full_sim).
Qed.

(* one call: equal item sequences give equal results and equal residual item sequences *)
Theorem chunking_irrelevant_step cfg st s1 s2 : items s1 = items s2 ->
  let '(r1, st1, s1') := reader_read cfg st s1 in
  let '(r2, st2, s2') := reader_read cfg st s2 in
  r1 = r2 /\ st1 = st2 /\ items s1' = items s2'.
Proof.
  intros H. pose proof (reader_read_flat cfg st s1) as A. pose proof (reader_read_flat cfg st s2) as B.
  rewrite H in A. rewrite A in B.
  destruct (reader_read cfg st s1) as [[r1 st1] s1'].
  destruct (reader_read cfg st s2) as [[r2 st2] s2'].
  inversion B. auto.
Qed.
