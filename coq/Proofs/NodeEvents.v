(* C10: per-channel event stream, for every schedule. *)
From Coq Require Import Lia PeanoNat.
From GM Require Import Node NodeBase.

Definition evs_of_res (r : rdres) : list event :=
  match r with
  | RdFrame f true => [EStreamReq; EFrame f]
  | RdFrame f false => [EFrame f]
  | RdParseErr => [EParse]
  | RdFatal _ => []
  end.

Definition push_ev (p : push_pc) : event := match p with PA e => e | PB e => e end.

(* the event whose pushEvent call is in progress, if any *)
Definition inflight (ch : chan) : list event :=
  match rd ch with
  | RdPush p _ => [push_ev p]
  | _ => match un ch with UPush p => [push_ev p] | _ => [] end
  end.
Definition pending_sr (ch : chan) : list event :=
  match rd ch with RdPush _ (Some e) => [e] | _ => [] end.
Definition is_close (e : event) : bool := match e with EClose _ => true | _ => false end.

Definition pc_ok (ch : chan) : Prop :=
  match rd ch with
  | RdInit => un ch = UInit \/ un ch = UEnd
  | RdLoop | RdPush _ _ | RdDone _ => un ch = UWait \/ un ch = UC1 \/ un ch = UC2 \/ un ch = UC3
  | RdEnd => (exists e, un ch = UR1 e) \/ (exists e, un ch = UR2 e) \/ (exists p, un ch = UPush p) \/ un ch = UCloseCh \/ un ch = UEnd
  end.

Definition close_part (ch : chan) (cl : list event) : Prop :=
  match un ch with
  | UPush p => cl = [push_ev p] /\ is_close (push_ev p) = true
  | UCloseCh | UEnd => exists x, cl = [EClose x]
  | _ => cl = []
  end.

Definition in_phase_b (ch : chan) : Prop :=
  (exists e nx, rd ch = RdPush (PB e) nx) \/ (exists e, un ch = UPush (PB e)).

Record ev_inv (tm : bool) (ch : chan) : Prop := mkEvInv {
  ei_pc : pc_ok ch;
  ei_init : rd ch = RdInit -> started_evs ch = [] /\ delivered ch = [] /\ consumed ch = [] /\ dropped ch = false;
  ei_shape : rd ch <> RdInit -> exists cl,
      started_evs ch ++ pending_sr ch = EOpen :: flat_map evs_of_res (consumed ch) ++ cl /\ close_part ch cl;
  ei_prefix : exists rest, started_evs ch = delivered ch ++ rest /\ (dropped ch = false -> rest = inflight ch);
  ei_drop : dropped ch = true -> tm = true;
  ei_noB : dropped ch = true -> ~ in_phase_b ch
}.

Lemma ev_inv_new tm : ev_inv tm new_chan.
Proof.
  constructor; cbn; auto.
  - intros H; contradiction.
  - exists []. auto.
  - discriminate.
  - discriminate.
Qed.

Lemma ev_inv_mono ch : ev_inv false ch -> ev_inv true ch.
Proof. intros [A B C D E F]. constructor; auto. Qed.

Lemma flat_map_snoc {A B} (f : A -> list B) l x : flat_map f (l ++ [x]) = flat_map f l ++ f x.
Proof. rewrite flat_map_app. cbn. rewrite app_nil_r. reflexivity. Qed.

Ltac inv_some H := inversion H; subst; clear H.

(* the view of a channel that the event invariant talks about *)
Definition evview (ch : chan) := (rd ch, un ch, consumed ch, started_evs ch, delivered ch, dropped ch).
Lemma ev_inv_view tm ch ch' : evview ch = evview ch' -> ev_inv tm ch -> ev_inv tm ch'.
Proof.
  unfold evview. intros E [A B C D F G]. inversion E as [[E1 E2 E3 E4 E5 E6]].
  constructor.
  - unfold pc_ok in *. rewrite <- E1, <- E2. exact A.
  - rewrite <- E1, <- E3, <- E4, <- E5, <- E6. exact B.
  - rewrite <- E1. intros H. destruct (C H) as [cl [S K]]. exists cl. unfold pending_sr, close_part in *.
    rewrite <- E1, <- E2, <- E3, <- E4. auto.
  - destruct D as [rest [S K]]. exists rest. unfold inflight in *. rewrite <- E1, <- E2, <- E4, <- E5, <- E6. auto.
  - rewrite <- E6. exact F.
  - rewrite <- E6. unfold in_phase_b in *. rewrite <- E1, <- E2. exact G.
Qed.

Ltac simp_ch := cbn [rd un wr ctxd rwc_closed wterm registered q consumed started_evs delivered dropped
  accepted dequeued wire closes ch_rd ch_un ch_wr ch_ctxd ch_close_rwc ch_wterm ch_reg ch_q ch_consumed
  ch_started ch_delivered ch_dropped ch_enq ch_deq ch_wire start_ev push_ev] in *.

Lemma pcs_running ch : pc_ok ch -> (un ch = UWait \/ un ch = UC1 \/ un ch = UC2 \/ un ch = UC3) ->
  rd ch <> RdInit /\ rd ch <> RdEnd.
Proof.
  unfold pc_ok. intros P U. destruct (rd ch); split; try discriminate; intros _.
  - destruct P as [P|P]; destruct U as [U|[U|[U|U]]]; rewrite P in U; discriminate.
  - destruct P as [[e P]|[[e P]|[[p P]|[P|P]]]]; destruct U as [U|[U|[U|U]]]; rewrite P in U; discriminate.
Qed.

(* reader side: a pushEvent call of the reader has returned (event delivered or dropped) *)
Lemma reader_push_done tm ch p nx (dl : list event) (dr : bool) :
  ev_inv tm ch -> rd ch = RdPush p nx ->
  (dl = [push_ev p] /\ dr = dropped ch /\ dropped ch = false) \/ (dl = [] /\ dr = true /\ tm = true) ->
  forall ch', evview ch' =
    (fst (rd_after_push nx), un ch, consumed ch,
     started_evs ch ++ match nx with Some e => [e] | None => [] end, delivered ch ++ dl, dr) ->
  ev_inv tm ch'.
Proof.
  intros [A B C D F G] R Hd ch' V. unfold evview in V. inversion V as [[V1 V2 V3 V4 V5 V6]]. clear V.
  assert (Run : un ch = UWait \/ un ch = UC1 \/ un ch = UC2 \/ un ch = UC3) by (unfold pc_ok in A; rewrite R in A; exact A).
  assert (NI : rd ch <> RdInit) by (rewrite R; discriminate).
  destruct C as [cl [S K]]; [first [exact NI | discriminate]|]. unfold pending_sr in S. rewrite R in S.
  assert (Kcl : cl = []) by (unfold close_part in K; destruct Run as [U|[U|[U|U]]]; rewrite U in K; exact K). subst cl.
  destruct D as [rest [Dp Dr]].
  constructor.
  - unfold pc_ok. rewrite V1, V2. destruct nx; cbn; exact Run.
  - rewrite V1. destruct nx; cbn; discriminate.
  - intros _. exists []. unfold pending_sr, close_part. rewrite V1, V2, V3, V4. split.
    + destruct nx as [e|]; cbn [rd_after_push fst]; rewrite app_nil_r; exact S.
    + destruct Run as [U|[U|[U|U]]]; rewrite U; reflexivity.
  - rewrite V4, V5, V6. destruct Hd as [(-> & -> & Nd)|(-> & -> & T)].
    + specialize (Dr Nd). unfold inflight in Dr. rewrite R in Dr. subst rest.
      exists (match nx with Some e => [e] | None => [] end). split; [rewrite Dp, <- app_assoc; reflexivity|].
      intros _. unfold inflight. rewrite V1. destruct nx; cbn; [reflexivity|].
      rewrite V2. destruct Run as [U|[U|[U|U]]]; rewrite U; reflexivity.
    + exists (rest ++ match nx with Some e => [e] | None => [] end). rewrite app_nil_r, Dp, <- app_assoc. split; [reflexivity|discriminate].
  - rewrite V6. destruct Hd as [(-> & -> & Nd)|(-> & -> & T)]; [rewrite Nd; discriminate|auto].
  - rewrite V6. intros Hdr [[e [n' E]]|[e E]].
    + rewrite V1 in E. destruct nx; cbn in E; discriminate.
    + rewrite V2 in E. destruct Run as [U|[U|[U|U]]]; rewrite U in E; discriminate.
Qed.

Lemma ev_inv_step tm a ch ch' evs : ev_inv tm ch -> capply tm a ch = Some (ch', evs) -> ev_inv tm ch'.
Proof.
  intros I H. pose proof I as [A B C D F G]. destruct a; cbn [capply] in H.
  - (* ARead *)
    destruct (rd ch) eqn:R; try discriminate.
    assert (Run : un ch = UWait \/ un ch = UC1 \/ un ch = UC2 \/ un ch = UC3) by (unfold pc_ok in A; rewrite R in A; exact A).
    assert (NI : rd ch <> RdInit) by (rewrite R; discriminate).
    destruct C as [cl [S K]]; [first [exact NI | discriminate]|]. unfold pending_sr in S. rewrite R in S. rewrite app_nil_r in S.
    assert (Kcl : cl = []) by (unfold close_part in K; destruct Run as [U|[U|[U|U]]]; rewrite U in K; exact K). subst cl.
    rewrite app_nil_r in S. destruct D as [rest [Dp Dr]].
    assert (Inf : inflight ch = []) by (unfold inflight; rewrite R; destruct Run as [U|[U|[U|U]]]; rewrite U; reflexivity).
    assert (NB : forall ch2, un ch2 = un ch -> (exists p nx, rd ch2 = RdPush (PA p) nx) \/ (exists e, rd ch2 = RdDone e) -> ~ in_phase_b ch2).
    { intros ch2 U2 R2 [[e [n' E]]|[e E]].
      - destruct R2 as [[p [nx E2]]|[e2 E2]]; rewrite E2 in E; discriminate.
      - rewrite U2 in E. destruct Run as [U|[U|[U|U]]]; rewrite U in E; discriminate. }
    destruct r as [f sr| |e].
    + destruct sr; inv_some H; constructor; simp_ch;
        try (unfold pc_ok; simp_ch; exact Run); try (intros X; discriminate X); try exact F.
      * intros _. exists []. unfold pending_sr, close_part. simp_ch. split.
        -- rewrite flat_map_snoc. cbn [evs_of_res]. rewrite S, app_nil_r. rewrite <- !app_assoc. reflexivity.
        -- destruct Run as [U|[U|[U|U]]]; rewrite U; reflexivity.
      * exists (rest ++ [EStreamReq]). split; [rewrite Dp, app_assoc; reflexivity|].
        intros Nd. rewrite (Dr Nd), Inf. reflexivity.
      * intros Hd. apply NB; [reflexivity|left; do 2 eexists; reflexivity].
      * intros _. exists []. unfold pending_sr, close_part. simp_ch. split.
        -- rewrite flat_map_snoc. cbn [evs_of_res]. rewrite S, !app_nil_r. reflexivity.
        -- destruct Run as [U|[U|[U|U]]]; rewrite U; reflexivity.
      * exists (rest ++ [EFrame f]). split; [rewrite Dp, app_assoc; reflexivity|].
        intros Nd. rewrite (Dr Nd), Inf. reflexivity.
      * intros Hd. apply NB; [reflexivity|left; do 2 eexists; reflexivity].
    + inv_some H. constructor; simp_ch; try (unfold pc_ok; simp_ch; exact Run); try (intros X; discriminate X); try exact F.
      * intros _. exists []. unfold pending_sr, close_part. simp_ch. split.
        -- rewrite flat_map_snoc. cbn [evs_of_res]. rewrite S, !app_nil_r. reflexivity.
        -- destruct Run as [U|[U|[U|U]]]; rewrite U; reflexivity.
      * exists (rest ++ [EParse]). split; [rewrite Dp, app_assoc; reflexivity|].
        intros Nd. rewrite (Dr Nd), Inf. reflexivity.
      * intros Hd. apply NB; [reflexivity|left; do 2 eexists; reflexivity].
    + inv_some H. constructor; simp_ch; try (unfold pc_ok; simp_ch; exact Run); try (intros X; discriminate X); try exact F.
      * intros _. exists []. unfold pending_sr, close_part. simp_ch. split.
        -- rewrite flat_map_snoc. cbn [evs_of_res]. rewrite S, !app_nil_r. reflexivity.
        -- destruct Run as [U|[U|[U|U]]]; rewrite U; reflexivity.
      * exists rest. split; [exact Dp|]. intros Nd. rewrite (Dr Nd), Inf. unfold inflight. simp_ch.
        destruct Run as [U|[U|[U|U]]]; rewrite U; reflexivity.
      * intros Hd. apply NB; [reflexivity|right; eexists; reflexivity].
  - (* APushCheck *)
    destruct who.
    + destruct (rd ch) as [|p nx| | |] eqn:R; try discriminate.
      destruct p as [ev|ev]; cbn [push_check] in H; [|discriminate].
      destruct tm.
      * (* dropped in phase A *)
        destruct (rd_after_push nx) as [pc o] eqn:RA. inv_some H.
        eapply (reader_push_done true ch (PA ev) nx [] true I R); [right; auto|].
        unfold evview. unfold rd_after_push in RA. destruct nx; inv_some RA; simp_ch; rewrite ?app_nil_r; reflexivity.
      * inv_some H.
        assert (Run : un ch = UWait \/ un ch = UC1 \/ un ch = UC2 \/ un ch = UC3) by (unfold pc_ok in A; rewrite R in A; exact A).
        constructor; simp_ch.
        -- unfold pc_ok. simp_ch. exact Run.
        -- discriminate.
        -- intros _. assert (NI : rd ch <> RdInit) by (rewrite R; discriminate). destruct C as [cl [S K]]; [first [exact NI | discriminate]|].
           exists cl. unfold pending_sr, close_part in *. simp_ch. rewrite R in S. split; [exact S|exact K].
        -- destruct D as [rest [Dp Dr]]. exists rest. split; [exact Dp|]. intros Nd. rewrite (Dr Nd).
           unfold inflight. simp_ch. rewrite R. reflexivity.
        -- exact F.
        -- intros Hd. specialize (F Hd). discriminate.
    + destruct (un ch) as [| | | | | | |p| |] eqn:U; try discriminate.
      destruct p as [ev|ev]; cbn [push_check] in H; [|discriminate].
      assert (Re : rd ch = RdEnd).
      { unfold pc_ok in A. destruct (rd ch); rewrite U in A; try (destruct A as [A|A]; discriminate);
          try (destruct A as [A|[A|[A|A]]]; discriminate). reflexivity. }
      assert (NI : rd ch <> RdInit) by (rewrite Re; discriminate).
      destruct C as [cl [S K]]; [first [exact NI | discriminate]|]. unfold close_part in K. rewrite U in K. destruct K as [Kc Kl]. cbn [push_ev] in *. subst cl.
      destruct D as [rest [Dp Dr]].
      destruct tm; inv_some H; constructor; simp_ch; try (intros X; rewrite Re in X; discriminate X).
      * unfold pc_ok. simp_ch. rewrite Re. auto.
      * intros _. exists [ev]. unfold pending_sr, close_part in *. simp_ch. rewrite Re in *. split; [exact S|].
        destruct ev; try discriminate. eauto.
      * exists rest. split; [exact Dp|discriminate].
      * reflexivity.
      * intros _ [[e [n' E]]|[e E]]; simp_ch; [rewrite Re in E; discriminate|discriminate].
      * unfold pc_ok. simp_ch. rewrite Re. eauto 6.
      * intros _. exists [ev]. unfold pending_sr, close_part in *. simp_ch. rewrite Re in *. split; [exact S|auto].
      * exists rest. split; [exact Dp|]. intros Nd. rewrite (Dr Nd). unfold inflight. simp_ch. rewrite Re, U. reflexivity.
      * exact F.
      * intros Hd. specialize (F Hd). discriminate.
  - (* APushDeliver *)
    destruct who.
    + destruct (rd ch) as [|p nx| | |] eqn:R; try discriminate. destruct p as [ev|ev]; [discriminate|].
      destruct (rd_after_push nx) as [pc o] eqn:RA. inv_some H.
      assert (Nd : dropped ch = false).
      { destruct (dropped ch) eqn:Dd; [|reflexivity]. exfalso. apply (G eq_refl). left. eauto. }
      eapply (reader_push_done tm ch (PB ev) nx [ev] (dropped ch) I R); [left; auto|].
      unfold evview. unfold rd_after_push in RA. destruct nx; inv_some RA; simp_ch; rewrite ?app_nil_r; reflexivity.
    + destruct (un ch) as [| | | | | | |p| |] eqn:U; try discriminate. destruct p as [ev|ev]; [discriminate|]. inv_some H.
      assert (Re : rd ch = RdEnd).
      { unfold pc_ok in A. destruct (rd ch); rewrite U in A; try (destruct A as [A|A]; discriminate);
          try (destruct A as [A|[A|[A|A]]]; discriminate). reflexivity. }
      assert (Nd : dropped ch = false).
      { destruct (dropped ch) eqn:Dd; [|reflexivity]. exfalso. apply (G eq_refl). right. eauto. }
      assert (NI : rd ch <> RdInit) by (rewrite Re; discriminate).
      destruct C as [cl [S K]]; [first [exact NI | discriminate]|]. unfold close_part in K. rewrite U in K. destruct K as [Kc Kl]. cbn [push_ev] in *. subst cl.
      destruct D as [rest [Dp Dr]]. specialize (Dr Nd). unfold inflight in Dr. rewrite Re, U in Dr. cbn [push_ev] in Dr. subst rest.
      constructor; simp_ch; try (intros X; rewrite Re in X; discriminate X).
      * unfold pc_ok. simp_ch. rewrite Re. auto.
      * intros _. exists [ev]. unfold pending_sr, close_part in *. simp_ch. rewrite Re in *. split; [exact S|].
        destruct ev; try discriminate. eauto.
      * exists []. split; [rewrite app_nil_r; exact Dp|]. intros _. unfold inflight. simp_ch. rewrite Re. reflexivity.
      * intros X. rewrite Nd in X. discriminate.
      * intros X. rewrite Nd in X. discriminate.
  - (* APushDrop *)
    destruct tm; cbn [negb] in H; [|discriminate]. destruct who.
    + destruct (rd ch) as [|p nx| | |] eqn:R; try discriminate. destruct p as [ev|ev]; [discriminate|].
      destruct (rd_after_push nx) as [pc o] eqn:RA. inv_some H.
      eapply (reader_push_done true ch (PB ev) nx [] true I R); [right; auto|].
      unfold evview. unfold rd_after_push in RA. destruct nx; inv_some RA; simp_ch; rewrite ?app_nil_r; reflexivity.
    + destruct (un ch) as [| | | | | | |p| |] eqn:U; try discriminate. destruct p as [ev|ev]; [discriminate|]. inv_some H.
      assert (Re : rd ch = RdEnd).
      { unfold pc_ok in A. destruct (rd ch); rewrite U in A; try (destruct A as [A|A]; discriminate);
          try (destruct A as [A|[A|[A|A]]]; discriminate). reflexivity. }
      assert (NI : rd ch <> RdInit) by (rewrite Re; discriminate).
      destruct C as [cl [S K]]; [first [exact NI | discriminate]|]. unfold close_part in K. rewrite U in K. destruct K as [Kc Kl]. cbn [push_ev] in *. subst cl.
      destruct D as [rest [Dp Dr]].
      constructor; simp_ch; try (intros X; rewrite Re in X; discriminate X).
      * unfold pc_ok. simp_ch. rewrite Re. auto.
      * intros _. exists [ev]. unfold pending_sr, close_part in *. simp_ch. rewrite Re in *. split; [exact S|].
        destruct ev; try discriminate. eauto.
      * exists rest. split; [exact Dp|discriminate].
      * reflexivity.
      * intros _ [[e [n' E]]|[e E]]; simp_ch; [rewrite Re in E; discriminate|discriminate].
  - (* AGotReader *)
    destruct (un ch) eqn:U; try discriminate. destruct (rd ch) eqn:R; try discriminate. inv_some H.
    assert (NI : rd ch <> RdInit) by (rewrite R; discriminate). destruct C as [cl [S K]]; [first [exact NI | discriminate]|].
    unfold close_part in K. rewrite U in K. subst cl. destruct D as [rest [Dp Dr]].
    constructor; simp_ch; try (intros X; discriminate X).
    + unfold pc_ok. simp_ch. eauto.
    + intros _. exists []. unfold pending_sr, close_part in *. simp_ch. rewrite R in S. auto.
    + exists rest. split; [exact Dp|]. intros Nd. rewrite (Dr Nd). unfold inflight. simp_ch. rewrite R, U. reflexivity.
    + exact F.
    + intros Hd [[e0 [n' E]]|[e0 E]]; simp_ch; discriminate.
  - (* ACtx *)
    destruct (un ch) eqn:U; try discriminate. destruct (ctxd ch); [|discriminate]. inv_some H.
    destruct (pcs_running ch A (or_introl U)) as [NI NE]. destruct C as [cl [S K]]; [first [exact NI | discriminate]|].
    unfold close_part in K. rewrite U in K. subst cl. destruct D as [rest [Dp Dr]].
    constructor; simp_ch.
    + unfold pc_ok in *. simp_ch. destruct (rd ch); try contradiction; auto.
    + intros X. contradiction.
    + intros _. exists []. unfold pending_sr, close_part in *. simp_ch. auto.
    + exists rest. split; [exact Dp|]. intros Nd. rewrite (Dr Nd). unfold inflight. simp_ch. rewrite U. destruct (rd ch); reflexivity.
    + exact F.
    + intros Hd [[e0 [n' E]]|[e0 E]]; simp_ch; [|discriminate]. apply (G Hd). left. eauto.
  - (* ACloseRwc *)
    destruct (un ch) eqn:U; try discriminate; inv_some H.
    + (* UR1 *)
      assert (Re : rd ch = RdEnd).
      { unfold pc_ok in A. destruct (rd ch); rewrite U in A; try (destruct A as [A|A]; discriminate);
          try (destruct A as [A|[A|[A|A]]]; discriminate). reflexivity. }
      assert (NI : rd ch <> RdInit) by (rewrite Re; discriminate). destruct C as [cl [S K]]; [first [exact NI | discriminate]|].
      unfold close_part in K. rewrite U in K. subst cl. destruct D as [rest [Dp Dr]].
      constructor; simp_ch; try (intros X; rewrite Re in X; discriminate X).
      * unfold pc_ok. simp_ch. rewrite Re. eauto.
      * intros _. exists []. unfold pending_sr, close_part in *. simp_ch. auto.
      * exists rest. split; [exact Dp|]. intros Nd. rewrite (Dr Nd). unfold inflight. simp_ch. rewrite Re, U. reflexivity.
      * exact F.
      * intros Hd [[e0 [n' E]]|[e0 E]]; simp_ch; [rewrite Re in E|]; discriminate.
    + (* UC1 *)
      destruct (pcs_running ch A (or_intror (or_introl U))) as [NI NE]. destruct C as [cl [S K]]; [first [exact NI | discriminate]|].
      unfold close_part in K. rewrite U in K. subst cl. destruct D as [rest [Dp Dr]].
      constructor; simp_ch.
      * unfold pc_ok in *. simp_ch. destruct (rd ch); try contradiction; auto.
      * intros X. contradiction.
      * intros _. exists []. unfold pending_sr, close_part in *. simp_ch. auto.
      * exists rest. split; [exact Dp|]. intros Nd. rewrite (Dr Nd). unfold inflight. simp_ch. rewrite U. destruct (rd ch); reflexivity.
      * exact F.
      * intros Hd [[e0 [n' E]]|[e0 E]]; simp_ch; [|discriminate]. apply (G Hd). left. eauto.
  - (* AWrDone *)
    destruct (un ch) eqn:U; try discriminate; destruct (wr ch); try discriminate; inv_some H.
    + (* UR2 -> push close *)
      assert (Re : rd ch = RdEnd).
      { unfold pc_ok in A. destruct (rd ch); rewrite U in A; try (destruct A as [A|A]; discriminate);
          try (destruct A as [A|[A|[A|A]]]; discriminate). reflexivity. }
      assert (NI : rd ch <> RdInit) by (rewrite Re; discriminate). destruct C as [cl [S K]]; [first [exact NI | discriminate]|].
      unfold close_part in K. rewrite U in K. subst cl. destruct D as [rest [Dp Dr]].
      unfold pending_sr in S. rewrite Re in S. rewrite !app_nil_r in S.
      constructor; simp_ch; try (intros X; rewrite Re in X; discriminate X).
      * unfold pc_ok. simp_ch. rewrite Re. eauto.
      * intros _. exists [EClose (Some e)]. unfold pending_sr, close_part. simp_ch. rewrite Re. split; [rewrite app_nil_r, S; reflexivity|auto].
      * exists (rest ++ [EClose (Some e)]). split; [rewrite Dp, app_assoc; reflexivity|]. intros Nd. rewrite (Dr Nd).
        unfold inflight. simp_ch. rewrite Re, U. reflexivity.
      * exact F.
      * intros Hd [[e0 [n' E]]|[e0 E]]; simp_ch; [rewrite Re in E|]; discriminate.
    + (* UC2 -> UC3 *)
      destruct (pcs_running ch A (or_intror (or_intror (or_introl U)))) as [NI NE]. destruct C as [cl [S K]]; [first [exact NI | discriminate]|].
      unfold close_part in K. rewrite U in K. subst cl. destruct D as [rest [Dp Dr]].
      constructor; simp_ch.
      * unfold pc_ok in *. simp_ch. destruct (rd ch); try contradiction; auto.
      * intros X. contradiction.
      * intros _. exists []. unfold pending_sr, close_part in *. simp_ch. auto.
      * exists rest. split; [exact Dp|]. intros Nd. rewrite (Dr Nd). unfold inflight. simp_ch. rewrite U. destruct (rd ch); reflexivity.
      * exact F.
      * intros Hd [[e0 [n' E]]|[e0 E]]; simp_ch; [|discriminate]. apply (G Hd). left. eauto.
  - (* ARdDone *)
    destruct (un ch) eqn:U; try discriminate. destruct (rd ch) eqn:R; try discriminate. inv_some H.
    assert (NI : rd ch <> RdInit) by (rewrite R; discriminate). destruct C as [cl [S K]]; [first [exact NI | discriminate]|].
    unfold close_part in K. rewrite U in K. subst cl. destruct D as [rest [Dp Dr]].
    unfold pending_sr in S. rewrite R in S. rewrite !app_nil_r in S.
    constructor; simp_ch; try (intros X; discriminate X).
    + unfold pc_ok. simp_ch. eauto.
    + intros _. exists [EClose None]. unfold pending_sr, close_part. simp_ch. split; [rewrite app_nil_r, S; reflexivity|auto].
    + exists (rest ++ [EClose None]). split; [rewrite Dp, app_assoc; reflexivity|]. intros Nd. rewrite (Dr Nd).
      unfold inflight. simp_ch. rewrite R, U. reflexivity.
    + exact F.
    + intros Hd [[e0 [n' E]]|[e0 E]]; simp_ch; discriminate.
  - (* ACloseCh *)
    destruct (un ch) eqn:U; try discriminate. inv_some H.
    assert (Re : rd ch = RdEnd).
    { unfold pc_ok in A. destruct (rd ch); rewrite U in A; try (destruct A as [A|A]; discriminate);
        try (destruct A as [A|[A|[A|A]]]; discriminate). reflexivity. }
    assert (NI : rd ch <> RdInit) by (rewrite Re; discriminate). destruct C as [cl [S K]]; [first [exact NI | discriminate]|].
    unfold close_part in K. rewrite U in K. destruct D as [rest [Dp Dr]].
    constructor; simp_ch; try (intros X; rewrite Re in X; discriminate X).
    + unfold pc_ok. simp_ch. rewrite Re. auto 6.
    + intros _. exists cl. unfold pending_sr, close_part in *. simp_ch. auto.
    + exists rest. split; [exact Dp|]. intros Nd. rewrite (Dr Nd). unfold inflight. simp_ch. rewrite Re, U. reflexivity.
    + exact F.
    + intros Hd [[e0 [n' E]]|[e0 E]]; simp_ch; [rewrite Re in E|]; discriminate.
  - (* ACloseChTerm *)
    destruct tm; cbn [negb] in H; [|discriminate]. destruct (un ch) eqn:U; try discriminate. inv_some H.
    assert (Re : rd ch = RdEnd).
    { unfold pc_ok in A. destruct (rd ch); rewrite U in A; try (destruct A as [A|A]; discriminate);
        try (destruct A as [A|[A|[A|A]]]; discriminate). reflexivity. }
    assert (NI : rd ch <> RdInit) by (rewrite Re; discriminate). destruct C as [cl [S K]]; [first [exact NI | discriminate]|].
    unfold close_part in K. rewrite U in K. destruct D as [rest [Dp Dr]].
    constructor; simp_ch; try (intros X; rewrite Re in X; discriminate X).
    + unfold pc_ok. simp_ch. rewrite Re. auto 6.
    + intros _. exists cl. unfold pending_sr, close_part in *. simp_ch. auto.
    + exists rest. split; [exact Dp|]. intros Nd. rewrite (Dr Nd). unfold inflight. simp_ch. rewrite Re, U. reflexivity.
    + reflexivity.
    + intros Hd [[e0 [n' E]]|[e0 E]]; simp_ch; [rewrite Re in E|]; discriminate.
  - (* AWrDeq *) destruct (wr ch); try discriminate. destruct (q ch); try discriminate. inv_some H. eapply ev_inv_view; [|exact I]. reflexivity.
  - (* AWrOk *) destruct (wr ch); try discriminate. destruct (rwc_closed ch); try discriminate. inv_some H. eapply ev_inv_view; [|exact I]. reflexivity.
  - (* AWrFail *) destruct (wr ch); try discriminate. inv_some H. eapply ev_inv_view; [|exact I]. reflexivity.
  - (* AWrTerm *) destruct (wr ch); try discriminate. destruct (wterm ch); try discriminate. inv_some H. eapply ev_inv_view; [|exact I]. reflexivity.
  - (* AStart *)
    destruct (rd ch) eqn:R; try discriminate. destruct (un ch) eqn:U; try discriminate. inv_some H.
    destruct (B eq_refl) as (S0 & D0 & C0 & Dr0).
    constructor; simp_ch; try (intros X; discriminate X).
    + unfold pc_ok. simp_ch. auto.
    + intros _. exists []. unfold pending_sr, close_part. simp_ch. rewrite S0, C0. auto.
    + exists [EOpen]. rewrite S0, D0. split; [reflexivity|]. intros _. unfold inflight. simp_ch. reflexivity.
    + rewrite Dr0. discriminate.
    + rewrite Dr0. discriminate.
  - (* AProvTerm *)
    destruct tm; cbn [negb] in H; [|discriminate].
    destruct (rd ch) eqn:R; try discriminate. destruct (un ch) eqn:U; try discriminate. inv_some H.
    destruct (B eq_refl) as (S0 & D0 & C0 & Dr0).
    constructor; simp_ch.
    + unfold pc_ok. simp_ch. rewrite R. auto.
    + intros _. auto.
    + intros X. rewrite R in X. contradiction.
    + exists []. rewrite S0, D0. split; [reflexivity|]. intros _. unfold inflight. simp_ch. rewrite R. reflexivity.
    + reflexivity.
    + rewrite Dr0. discriminate.
  - (* AEnq *) destruct (registered ch && Nat.ltb (length (q ch)) qcap); [|discriminate]. inv_some H. eapply ev_inv_view; [|exact I]. reflexivity.
  - (* ACtxd *) inv_some H. eapply ev_inv_view; [|exact I]. reflexivity.
Qed.

(* ---------- the theorems: every reachable state, i.e. every schedule and every input ---------- *)
Theorem ev_inv_reachable s : reachable s -> forall c ch, nth_error (chans s) c = Some ch -> ev_inv (term s) ch.
Proof. apply (chan_invariant ev_inv ev_inv_new ev_inv_mono ev_inv_step). Qed.

Section Reachable.
Variables (s : st) (c : cid) (ch : chan).
Hypothesis R : reachable s.
Hypothesis N : nth_error (chans s) c = Some ch.

Lemma I : ev_inv (term s) ch.
Proof. exact (ev_inv_reachable s R c ch N). Qed.
Lemma L : proj c (log s) = delivered ch.
Proof. exact (proj1 (log_projection s R) c ch N). Qed.

(* what the application received from channel c is, in order, a prefix of what the channel's
   goroutines tried to deliver *)
Theorem projection_is_prefix : exists rest, started_evs ch = proj c (log s) ++ rest.
Proof. destruct (ei_prefix _ _ I) as [rest [E _]]. exists rest. rewrite L. exact E. Qed.

(* ... and that sequence is: open, then per read result (in arrival order) its events — one
   frame event per valid frame (preceded by a stream-requested event when it triggered one), one
   parse-error event per rejected input, nothing for the final transport error — then the close
   event.  It is a function of this channel's inputs only. *)
Theorem stream_grammar : rd ch <> RdInit -> exists cl,
  started_evs ch ++ pending_sr ch = EOpen :: flat_map evs_of_res (consumed ch) ++ cl /\ close_part ch cl.
Proof. exact (ei_shape _ _ I). Qed.

(* nothing is lost while the node is not closed: everything attempted has been received, except
   the one event whose delivery is in progress *)
Theorem no_loss : dropped ch = false -> started_evs ch = proj c (log s) ++ inflight ch.
Proof. intros D. destruct (ei_prefix _ _ I) as [rest [E F]]. rewrite L, E, (F D). reflexivity. Qed.
Theorem loss_only_after_close : dropped ch = true -> term s = true.
Proof. exact (ei_drop _ _ I). Qed.

(* exactly one open event before anything else *)
Theorem open_first : proj c (log s) <> [] -> hd EParse (proj c (log s)) = EOpen.
Proof.
  intros NE. destruct projection_is_prefix as [rest E].
  destruct (rd ch) eqn:Rd.
  - destruct (ei_init _ _ I Rd) as (S0 & D0 & _). rewrite L, D0 in NE. contradiction.
  - destruct stream_grammar as [cl [S _]]; [rewrite Rd; discriminate|]. destruct (proj c (log s)) as [|e0 t0]; [contradiction|].
    rewrite E in S. cbn in S. inversion S. reflexivity.
  - destruct stream_grammar as [cl [S _]]; [rewrite Rd; discriminate|]. destruct (proj c (log s)) as [|e0 t0]; [contradiction|].
    rewrite E in S. cbn in S. inversion S. reflexivity.
  - destruct stream_grammar as [cl [S _]]; [rewrite Rd; discriminate|]. destruct (proj c (log s)) as [|e0 t0]; [contradiction|].
    rewrite E in S. cbn in S. inversion S. reflexivity.
  - destruct stream_grammar as [cl [S _]]; [rewrite Rd; discriminate|]. destruct (proj c (log s)) as [|e0 t0]; [contradiction|].
    rewrite E in S. cbn in S. inversion S. reflexivity.
Qed.

Lemma evs_of_res_no_close r : forall x, ~ In (EClose x) (evs_of_res r).
Proof. intros x. destruct r as [f [|]| |e]; cbn; intuition discriminate. Qed.

(* the close event comes last and once: once it has been attempted nothing else is, and
   everything before it is not a close event *)
Theorem close_last : forall x, In (EClose x) (started_evs ch) ->
  exists pre, started_evs ch = pre ++ [EClose x] /\ (forall y, ~ In (EClose y) pre) /\
              ((exists p, un ch = UPush p) \/ un ch = UCloseCh \/ un ch = UEnd).
Proof.
  intros x Hin. destruct (rd ch) eqn:Rd.
  - destruct (ei_init _ _ I Rd) as (S0 & _). rewrite S0 in Hin. contradiction.
  - (* reader still pushing: the runner has not started the close event *)
    destruct stream_grammar as [cl [S K]]; [rewrite Rd; discriminate|].
    pose proof (ei_pc _ _ I) as P. unfold pc_ok in P. rewrite Rd in P.
    assert (cl = []) by (unfold close_part in K; destruct P as [U|[U|[U|U]]]; rewrite U in K; exact K). subst cl.
    exfalso. assert (Hin2 : In (EClose x) (started_evs ch ++ pending_sr ch)) by (apply in_or_app; left; exact Hin).
    rewrite S, app_nil_r in Hin2. destruct Hin2 as [X|X]; [discriminate|].
    apply in_flat_map in X. destruct X as [r [_ X]]. exact (evs_of_res_no_close r x X).
  - destruct stream_grammar as [cl [S K]]; [rewrite Rd; discriminate|].
    pose proof (ei_pc _ _ I) as P. unfold pc_ok in P. rewrite Rd in P.
    assert (cl = []) by (unfold close_part in K; destruct P as [U|[U|[U|U]]]; rewrite U in K; exact K). subst cl.
    exfalso. unfold pending_sr in S. rewrite Rd in S. rewrite !app_nil_r in S. rewrite S in Hin. destruct Hin as [X|X]; [discriminate|].
    apply in_flat_map in X. destruct X as [r [_ X]]. exact (evs_of_res_no_close r x X).
  - destruct stream_grammar as [cl [S K]]; [rewrite Rd; discriminate|].
    pose proof (ei_pc _ _ I) as P. unfold pc_ok in P. rewrite Rd in P.
    assert (cl = []) by (unfold close_part in K; destruct P as [U|[U|[U|U]]]; rewrite U in K; exact K). subst cl.
    exfalso. unfold pending_sr in S. rewrite Rd in S. rewrite !app_nil_r in S. rewrite S in Hin. destruct Hin as [X|X]; [discriminate|].
    apply in_flat_map in X. destruct X as [r [_ X]]. exact (evs_of_res_no_close r x X).
  - destruct stream_grammar as [cl [S K]]; [rewrite Rd; discriminate|].
    unfold pending_sr in S. rewrite Rd in S. rewrite app_nil_r in S.
    assert (NoCl : forall y, ~ In (EClose y) (EOpen :: flat_map evs_of_res (consumed ch))).
    { intros y [X|X]; [discriminate|]. apply in_flat_map in X. destruct X as [r [_ X]]. exact (evs_of_res_no_close r y X). }
    unfold close_part in K. destruct (un ch) eqn:U;
      try (subst cl; rewrite app_nil_r in S; rewrite S in Hin; exfalso; exact (NoCl x Hin)).
    + destruct K as [Kc Kl]. subst cl. rewrite S in Hin. rewrite app_comm_cons in Hin. apply in_app_or in Hin.
      destruct Hin as [X|[X|[]]]; [exfalso; exact (NoCl x X)|].
      exists (EOpen :: flat_map evs_of_res (consumed ch)). rewrite S, <- X. split; [reflexivity|]. split; [exact NoCl|eauto].
    + destruct K as [y Kc]. subst cl. rewrite S in Hin. rewrite app_comm_cons in Hin. apply in_app_or in Hin.
      destruct Hin as [X|[X|[]]]; [exfalso; exact (NoCl x X)|].
      exists (EOpen :: flat_map evs_of_res (consumed ch)). rewrite S, <- X. split; [reflexivity|]. split; [exact NoCl|auto].
    + destruct K as [y Kc]. subst cl. rewrite S in Hin. rewrite app_comm_cons in Hin. apply in_app_or in Hin.
      destruct Hin as [X|[X|[]]]; [exfalso; exact (NoCl x X)|].
      exists (EOpen :: flat_map evs_of_res (consumed ch)). rewrite S, <- X. split; [reflexivity|]. split; [exact NoCl|auto].
Qed.
End Reachable.
