(* byte-level lemmas for the message codec: little-endian encode/decode for every width *)
From Coq Require Import ZArith Lia ZifyN ZifyNat ZifyBool.
From GM Require Import Bytes BytesProofs.
Ltac Zify.zify_post_hook ::= Z.div_mod_to_equations.

Lemma land_small_shiftl a b : a < 256 -> N.land a (N.shiftl b 8) = 0.
Proof.
  intros H. apply N.bits_inj. intros i. rewrite N.land_spec, N.bits_0.
  destruct (N.ltb_spec i 8).
  - rewrite N.shiftl_spec_low by assumption. apply andb_false_r.
  - assert (N.testbit a i = false).
    { destruct (N.eq_dec a 0) as [->|NZ]; [apply N.bits_0|].
      apply N.bits_above_log2. assert (N.log2 a < 8) by (apply N.log2_lt_pow2; lia). lia. }
    rewrite H1. reflexivity.
Qed.

Lemma lor_small_shiftl a b : a < 256 -> N.lor a (N.shiftl b 8) = a + 256 * b.
Proof.
  intros H. rewrite <- N.lxor_lor by (apply land_small_shiftl; exact H).
  rewrite <- N.add_nocarry_lxor by (apply land_small_shiftl; exact H).
  rewrite N.shiftl_mul_pow2. change (2 ^ 8) with 256. lia.
Qed.

Lemma le_dec_le_enc_mod k : forall x, le_dec (le_enc k x) = x mod 2 ^ (8 * N.of_nat k).
Proof.
  induction k as [|k IH]; intros x.
  - cbn. rewrite N.mod_1_r. reflexivity.
  - cbn [le_enc le_dec]. rewrite IH. rewrite lor_small_shiftl by (unfold u8; apply N.mod_lt; discriminate).
    unfold u8. rewrite shiftr8.
    replace (8 * N.of_nat (S k)) with (8 + 8 * N.of_nat k) by lia.
    rewrite N.pow_add_r. change (2 ^ 8) with 256.
    rewrite N.mod_mul_r by (try discriminate; apply N.pow_nonzero; discriminate). reflexivity.
Qed.

Lemma le_dec_lt l : bytes_ok l = true -> le_dec l < 2 ^ (8 * N.of_nat (length l)).
Proof.
  induction l as [|b l IH]; intros H; [cbn; lia|].
  cbn [bytes_ok forallb] in H. apply andb_prop in H. destruct H as [Hb Hl].
  unfold byte_ok in Hb. apply N.ltb_lt in Hb. specialize (IH Hl).
  cbn [le_dec length]. rewrite lor_small_shiftl by exact Hb.
  replace (8 * N.of_nat (S (length l))) with (8 + 8 * N.of_nat (length l)) by lia.
  rewrite N.pow_add_r. change (2 ^ 8) with 256. nia.
Qed.

(* encoding the decoding of k bytes gives the bytes back *)
Lemma le_enc_le_dec : forall l, bytes_ok l = true -> le_enc (length l) (le_dec l) = l.
Proof.
  induction l as [|b l IH]; intros H; [reflexivity|].
  cbn [bytes_ok forallb] in H. apply andb_prop in H. destruct H as [Hb Hl].
  unfold byte_ok in Hb. apply N.ltb_lt in Hb.
  cbn [length le_enc le_dec]. rewrite lor_small_shiftl by exact Hb. f_equal.
  - unfold u8. generalize (le_dec l). intros X. lia.
  - rewrite shiftr8. replace ((b + 256 * le_dec l) / 256) with (le_dec l).
    + apply IH. exact Hl.
    + generalize (le_dec l). intros X. lia.
Qed.
