(* C18: the dialect generator — what it emits denotes the definition it was given. *)
From Coq Require Import ZArith Lia ZifyN ZifyNat ZifyBool PeanoNat.
From GM Require Import Bytes Result Codec Layout LayoutSpec Enum Gen SignProofs EnumProofs.
Ltac Zify.zify_post_hook ::= Z.div_mod_to_equations.

(* ---------- characters ---------- *)
Ltac split_ifs := repeat match goal with
  | |- context [if ?c then _ else _] => let E := fresh "E" in destruct c eqn:E
  | H : context [if ?c then _ else _] |- _ => let E := fresh "E" in destruct c eqn:E
  end.
Definition name_char (b : N) : bool := is_upper b || is_digit b || (b =? 95).   (* [A-Z0-9_] *)
Lemma upper_lower_id b : name_char b = true -> to_upper (to_lower b) = b.
Proof. unfold name_char, to_upper, to_lower, is_upper, is_lower, is_digit. intros H. split_ifs; lia. Qed.
Lemma lower_not_upper b : is_upper (to_lower b) = false.
Proof. unfold to_lower, is_upper. split_ifs; lia. Qed.
Lemma to_upper_is_upper d : is_lower d = true -> is_upper (to_upper d) = true.
Proof. unfold to_upper, is_lower, is_upper. intros H. split_ifs; lia. Qed.
Lemma to_upper_idem b : to_upper (to_upper b) = to_upper b.
Proof. unfold to_upper, is_lower. split_ifs; lia. Qed.
Lemma to_upper_95 : to_upper 95 = 95. Proof. reflexivity. Qed.

(* ---------- names: Go -> definition, both renderings agree ---------- *)
(* [snake]'s inner loop, exposed *)
Fixpoint snake_go (up first : bool) (s : list N) : list N :=
  match s with
  | [] => []
  | c :: t => (if is_upper c && negb first then [95] else []) ++ [if up then to_upper c else to_lower c] ++ snake_go up false t
  end.
Lemma snake_unfold up s : snake up s = snake_go up true s.
Proof. unfold snake. generalize true. induction s as [|c t IH]; intros f; cbn; [reflexivity|]. rewrite IH. reflexivity. Qed.

Lemma under_caps_snake_lower t : map to_lower (under_caps t) = snake_go false false t.
Proof.
  induction t as [|c t IH]; cbn [under_caps snake_go]; [reflexivity|].
  destruct (is_upper c) eqn:U; cbn [andb negb app map]; rewrite IH; reflexivity.
Qed.
Lemma under_caps_snake_upper t : map to_upper (under_caps t) = snake_go true false t.
Proof.
  induction t as [|c t IH]; cbn [under_caps snake_go]; [reflexivity|].
  destruct (is_upper c) eqn:U; cbn [andb negb app map]; rewrite IH; reflexivity.
Qed.

(* the generator's own inversion, the run-time inversions and the specification's rendering agree
   on every Go name that starts with a capital *)
Lemma gen_go_to_def_snake c t : is_upper c = true -> gen_go_to_def (c :: t) = Ok (snake false (c :: t)).
Proof.
  intros U. unfold gen_go_to_def. cbn [under_caps]. rewrite U. cbn [map]. rewrite under_caps_snake_lower.
  rewrite snake_unfold. cbn [snake_go]. rewrite U. reflexivity.
Qed.
Lemma field_go_to_def_snake c t : is_upper c = true -> field_go_to_def (c :: t) = Ok (snake false (c :: t)).
Proof. exact (gen_go_to_def_snake c t). Qed.
Lemma msg_go_to_def_snake c t : is_upper c = true -> msg_go_to_def (c :: t) = Ok (snake true (c :: t)).
Proof.
  intros U. unfold msg_go_to_def. cbn [under_caps]. rewrite U. cbn [map]. rewrite under_caps_snake_upper.
  rewrite snake_unfold. cbn [snake_go]. rewrite U. cbn [andb negb app]. unfold to_upper at 1.
  assert (L : is_lower c = false) by (unfold is_upper, is_lower in *; split_ifs; lia). rewrite L.
  unfold to_upper. rewrite L. reflexivity.
Qed.

(* ---------- names: definition -> Go -> definition ---------- *)
Lemma camel_cons2 c d t : camel (c :: d :: t) = if (c =? 95) && is_lower d then to_upper d :: camel t else c :: camel (d :: t).
Proof. reflexivity. Qed.
(* camel of a string without capitals, rendered back in capitals, is the string in capitals *)
Lemma camel_back : forall n l, (length l <= n)%nat -> forallb (fun b => negb (is_upper b)) l = true ->
  snake_go true false (camel l) = map to_upper l.
Proof.
  induction n as [|n IH]; intros l Hl NU.
  - destruct l; [reflexivity|cbn in Hl; lia].
  - destruct l as [|c r]; [reflexivity|]. cbn [forallb] in NU. apply andb_prop in NU. destruct NU as [Nc Nr].
    destruct r as [|d t].
    + cbn [camel snake_go map]. destruct (is_upper c); [discriminate|]. reflexivity.
    + rewrite camel_cons2. destruct ((c =? 95) && is_lower d) eqn:M.
      * apply andb_prop in M. destruct M as [Mc Md]. apply N.eqb_eq in Mc. subst c.
        cbn [forallb] in Nr. apply andb_prop in Nr. destruct Nr as [_ Nt].
        cbn [snake_go map]. rewrite (to_upper_is_upper d Md). cbn [andb negb app].
        rewrite to_upper_idem. rewrite IH; [reflexivity|cbn in Hl; lia|exact Nt].
      * cbn [snake_go map]. destruct (is_upper c); [discriminate|]. cbn [andb app].
        rewrite IH; [reflexivity|cbn in Hl |- *; lia|exact Nr].
Qed.

Lemma map_lower_no_upper l : forallb (fun b => negb (is_upper b)) (map to_lower l) = true.
Proof. induction l as [|c t IH]; [reflexivity|]. cbn. rewrite lower_not_upper. exact IH. Qed.
Lemma map_upper_lower l : forallb name_char l = true -> map to_upper (map to_lower l) = l.
Proof.
  induction l as [|c t IH]; [reflexivity|]. cbn. intros H. apply andb_prop in H. destruct H as [Hc Ht].
  rewrite upper_lower_id by exact Hc. rewrite IH by exact Ht. reflexivity.
Qed.

(* a MAVLink message name: a capital letter, then capitals, digits, underscores *)
Definition valid_msg_name (s : list N) : bool :=
  match s with c :: t => is_upper c && forallb name_char t | [] => false end.

Lemma valid_name_ok s : valid_msg_name s = true -> msg_name_ok s = true.
Proof.
  destruct s as [|c t]; [discriminate|]. cbn. intros H. apply andb_prop in H. destruct H as [U T].
  rewrite U. cbn. rewrite forallb_forall in T |- *. intros x I. specialize (T x I). exact T.
Qed.

(* the Go type name of a message, read back by the run-time rule, is the definition's name *)
Theorem message_name_recovered s : valid_msg_name s = true ->
  exists c t, def_to_go s = Ok (c :: t) /\ is_upper c = true /\ snake true (c :: t) = s /\
              msg_go_to_def (c :: t) = Ok s.
Proof.
  destruct s as [|c r]; [discriminate|]. cbn [valid_msg_name]. intros H. apply andb_prop in H. destruct H as [U R].
  unfold def_to_go. cbn [map].
  assert (NL : (to_lower c =? 95) = false) by (unfold to_lower, is_upper in *; split_ifs; lia).
  assert (C : camel (to_lower c :: map to_lower r) = to_lower c :: camel (map to_lower r)).
  { destruct (map to_lower r) as [|d t] eqn:E; [reflexivity|]. rewrite camel_cons2. rewrite NL. reflexivity. }
  rewrite C. exists (to_upper (to_lower c)), (camel (map to_lower r)).
  assert (Uc : to_upper (to_lower c) = c) by (apply upper_lower_id; unfold name_char; rewrite U; reflexivity).
  rewrite Uc. split; [reflexivity|]. split; [exact U|].
  assert (S : snake true (c :: camel (map to_lower r)) = c :: r).
  { rewrite snake_unfold. cbn [snake_go]. rewrite U. cbn [andb negb app].
    rewrite (camel_back (length (map to_lower r)) _ (le_n _) (map_lower_no_upper r)).
    rewrite map_upper_lower by exact R.
    unfold to_upper. assert (L : is_lower c = false) by (unfold is_upper, is_lower in *; split_ifs; lia). rewrite L. reflexivity. }
  split; [exact S|]. rewrite msg_go_to_def_snake by exact U. rewrite S. reflexivity.
Qed.

(* a field name: anything that starts with a letter.  Either the Go name converts back (then no
   tag is emitted and the run-time rule recovers the name) or the name is carried by the tag. *)
Definition starts_with_letter (s : list N) : bool :=
  match s with c :: _ => is_upper c || is_lower c | [] => false end.

Lemma def_to_go_head s : starts_with_letter s = true -> exists c t, def_to_go s = Ok (c :: t) /\ is_upper c = true.
Proof.
  destruct s as [|c r]; [discriminate|]. cbn [starts_with_letter]. intros L. unfold def_to_go. cbn [map].
  assert (NL : (to_lower c =? 95) = false) by (unfold to_lower, is_upper, is_lower in *; split_ifs; lia).
  assert (C : camel (to_lower c :: map to_lower r) = to_lower c :: camel (map to_lower r)).
  { destruct (map to_lower r) as [|d t] eqn:E; [reflexivity|]. rewrite camel_cons2. rewrite NL. reflexivity. }
  rewrite C. eexists _, _. split; [reflexivity|]. unfold to_upper, to_lower, is_upper, is_lower in *. split_ifs; lia.
Qed.

(* the name the run-time (and the specification) reads off the generated field *)
Definition denoted_name (g : gofield) : list N := match g_tag_name g with [] => snake false (g_name g) | n => n end.

(* ---------- types: finite, by enumeration ---------- *)
Definition all_ftypes : list ftype := [TDouble; TUint64; TInt64; TFloat; TUint32; TInt32; TUint16; TInt16; TUint8; TInt8; TChar].
Definition render_type (t : ftype) (arr : option N) : list N :=
  match arr with None => ftype_string t | Some n => ftype_string t ++ [91] ++ utoa n ++ [93] end.
Definition go_type_of (t : ftype) : list N :=
  match t with
  | TDouble => s_float64 | TUint64 => s_uint64 | TInt64 => s_int64 | TFloat => s_float32
  | TUint32 => s_uint32 | TInt32 => s_int32 | TUint16 => s_uint16 | TInt16 => s_int16
  | TUint8 => s_uint8 | TInt8 => s_int8 | TChar => s_string
  end.
(* what the type attribute must turn into: char[n] is a string with mavlen n, T[n] an n-element array *)
Definition expected_field_type (t : ftype) (arr : option N) : res (list N * bool * N * list N) :=
  match t, arr with
  | TChar, Some n => Ok (go_type_of TChar, false, 0, utoa n)
  | _, Some n => Ok (go_type_of t, true, n, [])
  | _, None => Ok (go_type_of t, false, 0, [])
  end.
Definition res4_eqb (a b : res (list N * bool * N * list N)) : bool :=
  match a, b with
  | Ok (g1, i1, n1, l1), Ok (g2, i2, n2, l2) => bytes_eqb g1 g2 && Bool.eqb i1 i2 && (n1 =? n2) && bytes_eqb l1 l2
  | _, _ => false
  end.
Definition lens : list N := map N.of_nat (seq 1 255).
Definition type_table_ok : bool :=
  forallb (fun t => res4_eqb (field_type (render_type t None)) (expected_field_type t None) &&
                    forallb (fun n => res4_eqb (field_type (render_type t (Some n))) (expected_field_type t (Some n))) lens)
          all_ftypes.
Lemma type_table : type_table_ok = true.
Proof. vm_compute. reflexivity. Qed.

Lemma res4_eqb_eq a b : res4_eqb a b = true -> a = b.
Proof.
  destruct a as [[[[g1 i1] n1] l1]| |], b as [[[[g2 i2] n2] l2]| |]; cbn; try discriminate. intros H.
  apply andb_prop in H. destruct H as [H Hl]. apply andb_prop in H. destruct H as [H Hn]. apply andb_prop in H. destruct H as [Hg Hi].
  apply list_eqb_eq in Hg. apply list_eqb_eq in Hl. apply N.eqb_eq in Hn. apply Bool.eqb_prop in Hi. subst. reflexivity.
Qed.
Lemma all_ftypes_all t : In t all_ftypes.
Proof. destruct t; cbn; tauto. Qed.
Lemma lens_all n : 1 <= n <= 255 -> In n lens.
Proof.
  intros H. unfold lens. apply in_map_iff. exists (N.to_nat n). split; [lia|]. apply in_seq. lia.
Qed.

(* every type the MAVLink schema allows, every array length 1..255 *)
Theorem field_type_correct t arr : match arr with Some n => 1 <= n <= 255 | None => True end ->
  field_type (render_type t arr) = expected_field_type t arr.
Proof.
  intros H. pose proof type_table as T. unfold type_table_ok in T. rewrite forallb_forall in T.
  specialize (T t (all_ftypes_all t)). apply andb_prop in T. destruct T as [T0 Tn].
  destruct arr as [n|].
  - rewrite forallb_forall in Tn. apply res4_eqb_eq. apply Tn. apply lens_all. exact H.
  - apply res4_eqb_eq. exact T0.
Qed.
(* the mavlink_version pseudo-type is uint8_t *)
Lemma field_type_mavlink_version : field_type s_mavlink_version = Ok (s_uint8, false, 0, []).
Proof. vm_compute. reflexivity. Qed.

(* a type outside the table is refused, whatever the rest of the field says *)
Theorem unknown_type_is_error f newname back :
  def_to_go (xf_name f) = Ok newname -> gen_go_to_def newname = Ok back ->
  field_type (xf_type f) = Err err_gen -> process_field f = Err err_gen.
Proof. intros A B C. unfold process_field. rewrite A, B, C. reflexivity. Qed.
Theorem bad_message_name_is_error m : msg_name_ok (xm_name m) = false -> process_message m = Err err_gen.
Proof. intros H. unfold process_message. rewrite H. reflexivity. Qed.

(* ---------- fields ---------- *)
Definition enum_wire_ok (t : ftype) : bool :=
  match t with TUint8 | TInt8 | TUint16 | TUint32 | TInt32 | TUint64 => true | _ => false end.

Lemma ftype_from_go_of t : ftype_from_go (go_type_of t) = Some t.
Proof. destruct t; vm_compute; reflexivity. Qed.

Lemma atoi_utoa_small n : 1 <= n <= 255 -> atoi (utoa n) = Some (Z.of_N n).
Proof. intros H. apply atoi_utoa; lia. Qed.

Lemma utoa_nonempty n : utoa n <> [].
Proof. unfold utoa. apply digits_of_nonempty. lia. Qed.

(* how the specification reads a Go field (LayoutSpec.def_field), by kind of field *)
Lemma def_field_plain i nm isarr alen t ku ks taglen tagext tagname :
  def_field i (mkGoField nm isarr alen (go_type_of t) ku ks [] taglen tagext tagname) =
  let dn := match tagname with [] => snake false nm | n0 :: l0 => n0 :: l0 end in
  let ext := bytes_eqb tagext s_true in
  match t with
  | TChar => match taglen with
             | [] => Some (mkMField TChar dn None ext false i)
             | t0 :: tl0 => match atoi (t0 :: tl0) with Some z => Some (mkMField TChar dn (Some (Z.to_N z)) ext false i) | None => None end
             end
  | _ => Some (mkMField t dn (if isarr then Some alen else None) ext false i)
  end.
Proof.
  unfold def_field. cbn [g_tag_name g_name g_tag_ext g_tag_enum g_tname g_tag_len g_isarr g_arrlen].
  rewrite ftype_from_go_of. destruct t; reflexivity.
Qed.
Lemma def_field_enum i nm isarr alen t e0 en taglen tagext tagname :
  def_field i (mkGoField nm isarr alen (e0 :: en) true false (go_type_of t) taglen tagext tagname) =
  Some (mkMField t (match tagname with [] => snake false nm | n0 :: l0 => n0 :: l0 end) (if isarr then Some alen else None)
                 (bytes_eqb tagext s_true) true i).
Proof.
  unfold def_field. cbn [g_tag_name g_name g_tag_ext g_tag_enum g_tname g_tag_len g_isarr g_arrlen].
  rewrite ftype_from_go_of. destruct t; reflexivity.
Qed.

(* what a generated field denotes, as the run-time and the specification read it *)
Theorem field_denotes_definition i t arr name enum ext :
  starts_with_letter name = true ->
  match arr with Some n => 1 <= n <= 255 | None => True end ->
  (enum <> [] -> enum_wire_ok t = true) ->
  exists g, process_field (mkXField (render_type t arr) name enum ext) = Ok g /\
            def_field i g = Some (mkMField t name arr ext (match enum with [] => false | _ => true end) i).
Proof.
  intros L A E. destruct (def_to_go_head name L) as (c & r & D & U).
  unfold process_field. cbn [xf_name xf_type xf_enum xf_ext]. rewrite D, (gen_go_to_def_snake c r U).
  rewrite (field_type_correct t arr A).
  set (tag := if bytes_eqb (snake false (c :: r)) name then [] else name).
  assert (X : match tag with [] => snake false (c :: r) | n0 :: l0 => n0 :: l0 end = name).
  { unfold tag. destruct (bytes_eqb (snake false (c :: r)) name) eqn:B.
    - apply list_eqb_eq in B. exact B.
    - destruct name; [discriminate L|reflexivity]. }
  assert (EXT : bytes_eqb (if ext then s_true else []) s_true = ext) by (destruct ext; reflexivity).
  destruct enum as [|e0 en].
  - (* plain field *)
    assert (Shape : exists isarr alen taglen, expected_field_type t arr = Ok (go_type_of t, isarr, alen, taglen) /\
              match t with
              | TChar => match arr with Some n => taglen = utoa n | None => taglen = [] end
              | _ => taglen = [] /\ (if isarr then Some alen else None) = arr
              end).
    { destruct t, arr as [n|]; cbn [expected_field_type]; eexists _, _, _; (split; [reflexivity|]); auto. }
    destruct Shape as (isarr & alen & taglen & Sh & Rest). rewrite Sh.
    eexists. split; [reflexivity|]. rewrite def_field_plain. cbv zeta. rewrite X, EXT.
    destruct t; try (destruct Rest as [-> ->]; reflexivity).
    destruct arr as [n|]; subst taglen; [|reflexivity].
    destruct (utoa n) as [|u0 ut] eqn:Un; [exfalso; exact (utoa_nonempty n Un)|]. rewrite <- Un.
    rewrite (atoi_utoa_small n A), N2Z.id. reflexivity.
  - (* enum-typed field: the wire type comes from the mavenum tag *)
    specialize (E ltac:(discriminate)).
    assert (Shape : exists isarr alen taglen, expected_field_type t arr = Ok (go_type_of t, isarr, alen, taglen) /\
              (if isarr then Some alen else None) = arr).
    { destruct t; try discriminate E; destruct arr as [n|]; cbn [expected_field_type]; eexists _, _, _; (split; [reflexivity|]); reflexivity. }
    destruct Shape as (isarr & alen & taglen & Sh & Rest). rewrite Sh.
    eexists. split; [reflexivity|]. rewrite def_field_enum. rewrite X, EXT, Rest. reflexivity.
Qed.

(* ---------- messages ---------- *)
Record afield := mkAField { af_type : ftype; af_arr : option N; af_name : list N; af_enum : list N; af_ext : bool }.
Definition render_field (a : afield) : xfield :=
  mkXField (render_type (af_type a) (af_arr a)) (af_name a) (af_enum a) (af_ext a).
Definition valid_afield (a : afield) : Prop :=
  starts_with_letter (af_name a) = true /\
  match af_arr a with Some n => 1 <= n <= 255 | None => True end /\
  (af_enum a <> [] -> enum_wire_ok (af_type a) = true).
Fixpoint abstract_fields (i : nat) (l : list afield) : list mfield :=
  match l with
  | [] => []
  | a :: t => mkMField (af_type a) (af_name a) (af_arr a) (af_ext a) (match af_enum a with [] => false | _ => true end) i
              :: abstract_fields (S i) t
  end.

Lemma fields_denote : forall fs i, Forall valid_afield fs ->
  exists gs, process_fields (map render_field fs) = Ok gs /\ def_fields i gs = Some (abstract_fields i fs).
Proof.
  induction fs as [|a t IH]; intros i V; [exists []; split; reflexivity|].
  inversion V as [|? ? Va Vt]; subst. destruct Va as (L & A & E).
  destruct (field_denotes_definition i (af_type a) (af_arr a) (af_name a) (af_enum a) (af_ext a) L A E) as (g & Pg & Dg).
  destruct (IH (S i) Vt) as (gs & Pgs & Dgs).
  exists (g :: gs). split.
  - cbn [map process_fields]. unfold render_field at 1. rewrite Pg. cbn [rbind]. rewrite Pgs. reflexivity.
  - cbn [def_fields abstract_fields]. rewrite Dg, Dgs. reflexivity.
Qed.

Lemma has_prefix_app p s : has_prefix p (p ++ s) = true.
Proof. induction p as [|a p IH]; [reflexivity|]. cbn. rewrite N.eqb_refl. exact IH. Qed.

(* The generated struct of every valid message definition denotes exactly that definition: name,
   and per field the wire type, name, array length, extension flag, enum flag, declaration position. *)
Theorem message_denotes_definition name id fs : valid_msg_name name = true -> Forall valid_afield fs ->
  exists g, process_message (mkXMsg name id (map render_field fs)) = Ok g /\
            def_of g = Some (mkMavDef name (abstract_fields 0 fs)).
Proof.
  intros Vn Vf. destruct (message_name_recovered name Vn) as (c & t & D & U & S & _).
  destruct (fields_denote fs 0 Vf) as (gs & P & Dg).
  unfold process_message. cbn [xm_name xm_fields]. rewrite (valid_name_ok name Vn). cbn [negb].
  rewrite D. cbn [rbind]. rewrite P. cbn [rbind]. eexists. split; [reflexivity|].
  unfold def_of. cbn [gs_name gs_fields]. rewrite has_prefix_app. rewrite Dg.
  change (skipn 7 (s_Message ++ c :: t)) with (c :: t). rewrite S. reflexivity.
Qed.

(* ---------- enum values ---------- *)
Lemma pow_mod_two64 a n : ((a mod two64) ^ n) mod two64 = (a ^ n) mod two64.
Proof.
  assert (T : two64 <> 0) by discriminate.
  induction n as [|n IHn] using N.peano_ind; [reflexivity|].
  rewrite !N.pow_succ_r'. rewrite N.mul_mod_idemp_l by exact T.
  rewrite <- N.mul_mod_idemp_r by exact T. rewrite IHn. rewrite N.mul_mod_idemp_r by exact T. reflexivity.
Qed.
Lemma uint_pow_go_spec : forall fuel base e result,
  e < 2 ^ N.of_nat fuel -> 0 < e -> base < two64 -> result < two64 ->
  uint_pow_go fuel base e result = (result * base ^ e) mod two64.
Proof.
  induction fuel as [|k IH]; intros base e result He Pe Hb Hr.
  - cbn in He. lia.
  - cbn [uint_pow_go].
    assert (T : two64 <> 0) by discriminate.
    assert (Ed : e = 2 * (e / 2) + (if N.odd e then 1 else 0)).
    { pose proof (N.div2_odd e) as X. rewrite N.div2_div in X. destruct (N.odd e); cbn [N.b2n] in X; exact X. }
    destruct (N.eqb_spec (e / 2) 0) as [Z|NZ].
    + (* last bit *)
      assert (e = 1) by (destruct (N.odd e); lia). subst e. cbn [N.odd]. rewrite N.pow_1_r. reflexivity.
    + rewrite IH.
      * destruct (N.odd e) eqn:O.
        -- rewrite (N.mul_mod ((result * base) mod two64) _ two64) by exact T. rewrite N.mod_mod by exact T. rewrite pow_mod_two64.
           replace (base ^ e) with (base * (base * base) ^ (e / 2)).
           2:{ rewrite Ed at 2. rewrite N.pow_add_r, N.pow_1_r, N.pow_mul_r, N.pow_2_r. lia. }
           rewrite N.mul_assoc. rewrite (N.mul_mod (result * base) ((base * base) ^ (e / 2)) two64) by exact T. reflexivity.
        -- rewrite (N.mul_mod result _ two64) by exact T. rewrite pow_mod_two64.
           replace (base ^ e) with ((base * base) ^ (e / 2)).
           2:{ rewrite Ed at 2. rewrite N.add_0_r, N.pow_mul_r, N.pow_2_r. reflexivity. }
           rewrite (N.mul_mod result ((base * base) ^ (e / 2)) two64) by exact T. reflexivity.
      * rewrite Nat2N.inj_succ, N.pow_succ_r' in He. apply N.div_lt_upper_bound; [discriminate|exact He].
      * lia.
      * apply N.mod_lt. exact T.
      * destruct (N.odd e); [apply N.mod_lt; exact T|exact Hr].
Qed.

(* x**y in an enum value is x^y on 64-bit unsigned integers (wrapping) *)
Theorem uint_pow_spec x y : x < two64 -> y < two64 -> uint_pow x y = (x ^ y) mod two64.
Proof.
  intros Hx Hy. unfold uint_pow. destruct (N.eq_dec y 0) as [->|NZ].
  - reflexivity.
  - rewrite uint_pow_go_spec; [rewrite N.mul_1_l; reflexivity| |lia|exact Hx|reflexivity].
    change (2 ^ N.of_nat 64) with two64. exact Hy.
Qed.

(* decimal values are read exactly *)
Lemma digit_hex_val b : is_digit b = true -> hex_val b = Some (b - 48).
Proof. intros H. unfold hex_val. rewrite H. reflexivity. Qed.
Lemma digits_val_mono : forall s acc v, digits_val s acc = Some v -> acc <= v.
Proof.
  induction s as [|b t IH]; intros acc v H; cbn in H; [inversion H; lia|].
  destruct ((48 <=? b) && (b <=? 57)); [|discriminate]. apply IH in H. lia.
Qed.
Lemma parse_uint_go_digits : forall s acc v, digits_val s acc = Some v -> v < two64 -> parse_uint_go 10 s acc = Some v.
Proof.
  induction s as [|b t IH]; intros acc v H V; cbn in H |- *; [exact H|].
  destruct ((48 <=? b) && (b <=? 57)) eqn:D; [|discriminate].
  assert (Dg : is_digit b = true) by exact D. rewrite (digit_hex_val b Dg).
  assert (b - 48 <? 10 = true) as -> by (unfold is_digit in Dg; lia).
  pose proof (digits_val_mono _ _ _ H) as M.
  assert (acc * 10 + (b - 48) <? two64 = true) as -> by lia.
  apply IH; assumption.
Qed.
Theorem decimal_value_parsed n : n < two64 -> parse_enum_value (utoa n) = Some n.
Proof.
  intros H. pose proof (utoa_val n H) as V.
  assert (P : parse_uint 10 (utoa n) = Some n).
  { unfold parse_uint. pose proof (utoa_nonempty n) as NE. destruct (utoa n) as [|u0 ut]; [contradiction|].
    apply parse_uint_go_digits; assumption. }
  (* the rendering has no "0b"/"0x" prefix and no "**" *)
  unfold parse_enum_value.
  assert (Dg : forall fuel m, Forall (fun b => is_digit b = true) (digits_of fuel m)).
  { induction fuel as [|k IHk]; intros m; cbn [digits_of]; [repeat constructor|].
    destruct (N.ltb_spec m 10).
    - constructor; [unfold is_digit; lia|constructor].
    - apply Forall_app. split; [apply IHk|]. constructor; [|constructor].
      pose proof (N.mod_lt m 10 ltac:(discriminate)). unfold is_digit. lia. }
  assert (NS : forall s, Forall (fun b => is_digit b = true) s -> split_pow s = None).
  { induction s as [|c t IHs]; intros F; [reflexivity|]. inversion F as [|? ? Fc Ft]; subst.
    cbn [split_pow]. rewrite (IHs Ft).
    destruct c as [|p]; [reflexivity|]. unfold is_digit in Fc.
    destruct (N.eq_dec (N.pos p) 42) as [E42|NE]; [rewrite E42 in Fc; discriminate|].
    destruct t as [|d t']; [destruct p as [p|p|]; try reflexivity; do 5 (destruct p as [p|p|]; try reflexivity)|].
    destruct (N.eq_dec d 42) as [->|ND].
    - inversion Ft as [|? ? Fd _]. discriminate.
    - do 6 (destruct p as [p|p|]; try reflexivity); destruct d as [|q]; try reflexivity;
        do 6 (destruct q as [q|q|]; try reflexivity); contradiction. }
  specialize (Dg 21%nat n). fold (utoa n) in Dg.
  destruct (utoa n) as [|c0 t0] eqn:Un; [exfalso; exact (utoa_nonempty n Un)|].
  assert (Second : forall d t1, t0 = d :: t1 -> d <> 98 /\ d <> 120).
  { intros d t1 ->. inversion Dg as [|? ? _ F2]; subst. inversion F2 as [|? ? Fd _]; subst. unfold is_digit in Fd. lia. }
  rewrite <- Un in P. rewrite Un in P.
  destruct (N.eq_dec c0 48) as [->|N48].
  - destruct t0 as [|d t1].
    + rewrite (NS _ Dg). exact P.
    + destruct (Second d t1 eq_refl) as [Nb Nx].
      destruct d as [|q]; [rewrite (NS _ Dg); exact P|].
      do 7 (destruct q as [q|q|]; try (rewrite (NS _ Dg); exact P)); contradiction.
  - destruct c0 as [|p]; [rewrite (NS _ Dg); exact P|].
    do 6 (destruct p as [p|p|]; try (rewrite (NS _ Dg); exact P)). contradiction.
Qed.

(* ---------- include traversal: the including file's version wins ---------- *)
Theorem root_version_wins fuel fs root f vs ver out :
  find_file fs root = Some f -> xfl_version f <> [] ->
  process_def fuel fs [] [] root = Some (vs, ver, out) -> ver = xfl_version f.
Proof.
  intros F NV H. destruct fuel as [|k]; [discriminate|]. cbn [process_def visited existsb] in H. rewrite F in H.
  match type of H with
  | match ?X with _ => _ end = _ => destruct X as [[[vs' ver'] out']|]; [|discriminate]
  end.
  inversion H. destruct (xfl_version f); [contradiction|reflexivity].
Qed.
