(* C16: heartbeats and stream requests. *)
From Coq Require Import Lia ZifyN ZifyNat ZifyBool.
From GM Require Import Bytes Result Codec Reader Heartbeat.

(* heartbeats are sent iff not disabled and the dialect holds the standard heartbeat (id 0 whose
   CRC_EXTRA is 50) *)
Theorem hb_iff_enabled_and_standard c :
  hb_enabled c = true <-> (hb_disable c = false /\ hb_has_dialect c = true /\ hb_msg0_crc c = Some 50).
Proof.
  unfold hb_enabled, heartbeat_crc. destruct (hb_disable c), (hb_has_dialect c), (hb_msg0_crc c) as [x|]; cbn;
    split; intros H; try discriminate; try (destruct H as (A & B & C); discriminate).
  - apply N.eqb_eq in H. subst. auto.
  - destruct H as (_ & _ & E). inversion E. reflexivity.
Qed.

Theorem hb_content c : hb_message c =
  [VU (if hb_systype c =? 0 then 6 else hb_systype c); VU (hb_autopilot c); VU 0; VU 0; VU 4; VU (hb_version c)].
Proof. reflexivity. Qed.

(* the seven standard data-stream requests, addressed to the sender, at the configured rate *)
Theorem sr_seven_requests freq sys comp :
  sr_requests freq sys comp =
  map (fun st => [VU sys; VU comp; VU st; VU (if freq =? 0 then 4 else freq); VU 1]) [1; 2; 3; 6; 10; 11; 12].
Proof. reflexivity. Qed.

(* heartbeats from other autopilots trigger nothing; a disabled feature triggers nothing *)
Theorem sr_other_autopilots_nothing s now k ap : ap <> 3 -> sr_on_heartbeat s now k ap = (s, false).
Proof. intros H. unfold sr_on_heartbeat. destruct (N.eqb_spec ap 3); [contradiction|reflexivity]. Qed.
Theorem sr_first_heartbeat_requests s now k : sr_lookup s k = None -> snd (sr_on_heartbeat s now k 3) = true.
Proof. intros H. unfold sr_on_heartbeat. cbn. rewrite H. reflexivity. Qed.

(* ---- not repeated within 30 s, for every history with a non-decreasing clock ---- *)
Lemma key_eqb_eq a b : key_eqb a b = true <-> a = b.
Proof.
  destruct a as [[a1 a2] a3], b as [[b1 b2] b3]. unfold key_eqb. cbn. split.
  - intros H. apply andb_prop in H. destruct H as [H H3]. apply andb_prop in H. destruct H as [H1 H2].
    apply N.eqb_eq in H1. apply N.eqb_eq in H2. apply N.eqb_eq in H3. subst. reflexivity.
  - intros H. inversion H; subst. rewrite !N.eqb_refl. reflexivity.
Qed.
Lemma key_eqb_refl a : key_eqb a a = true.
Proof. apply key_eqb_eq. reflexivity. Qed.

Lemma lookup_set_same s k t : sr_lookup (sr_set s k t) k = Some t.
Proof.
  induction s as [|[k' t'] r IH]; cbn; [rewrite key_eqb_refl; reflexivity|].
  destruct (key_eqb k' k) eqn:E; cbn; [rewrite key_eqb_refl; reflexivity|rewrite E; exact IH].
Qed.
Lemma lookup_set_other s k k2 t : k2 <> k -> sr_lookup (sr_set s k t) k2 = sr_lookup s k2.
Proof.
  intros NE. induction s as [|[k' t'] r IH]; cbn.
  - destruct (key_eqb k k2) eqn:E; [apply key_eqb_eq in E; congruence|reflexivity].
  - destruct (key_eqb k' k) eqn:E; cbn.
    + apply key_eqb_eq in E. subst k'. destruct (key_eqb k k2) eqn:E2; [apply key_eqb_eq in E2; congruence|reflexivity].
    + destruct (key_eqb k' k2); [reflexivity|exact IH].
Qed.
Lemma lookup_notin s k : ~ In k (map fst s) -> sr_lookup s k = None.
Proof.
  induction s as [|[k' t'] r IH]; cbn; [reflexivity|]. intros H.
  destruct (key_eqb k' k) eqn:E; [apply key_eqb_eq in E; subst; exfalso; apply H; left; reflexivity|].
  apply IH. intros X. apply H. right. exact X.
Qed.

Lemma lookup_filter s f k : NoDup (map fst s) ->
  sr_lookup (filter f s) k = match sr_lookup s k with Some t => if f (k, t) then Some t else None | None => None end.
Proof.
  induction s as [|[k' t'] r IH]; intros U; cbn; [reflexivity|]. inversion U as [|? ? NI U']; subst.
  destruct (key_eqb k' k) eqn:E.
  - apply key_eqb_eq in E. subst k'. destruct (f (k, t')) eqn:F; cbn.
    + rewrite key_eqb_refl. reflexivity.
    + apply lookup_notin. intros X. apply NI. apply in_map_iff in X. destruct X as [[k2 t2] [E2 I2]]. apply filter_In in I2.
      cbn in E2. subst k2. apply in_map_iff. exists (k, t2). split; [reflexivity|destruct I2 as [I2 _]; exact I2].
  - destruct (f (k', t')); cbn; [rewrite E|]; apply IH; exact U'.
Qed.

Lemma set_keys s k t : forall x, In x (map fst (sr_set s k t)) <-> x = k \/ In x (map fst s).
Proof.
  induction s as [|[k' t'] r IH]; cbn; intros x; [intuition congruence|].
  destruct (key_eqb k' k) eqn:E; cbn.
  - apply key_eqb_eq in E. subst k'. intuition congruence.
  - rewrite IH. intuition congruence.
Qed.
Lemma set_unique s k t : NoDup (map fst s) -> NoDup (map fst (sr_set s k t)).
Proof.
  induction s as [|[k' t'] r IH]; cbn; intros U; [constructor; [intros []|constructor]|].
  inversion U as [|? ? NI U']; subst. destruct (key_eqb k' k) eqn:E; cbn.
  - apply key_eqb_eq in E. subst k'. constructor; assumption.
  - constructor; [|apply IH; exact U']. intros X. apply set_keys in X. destruct X as [X|X]; [subst; rewrite key_eqb_refl in E; discriminate|contradiction].
Qed.
Lemma filter_unique (s : srstate) f : NoDup (map fst s) -> NoDup (map fst (filter f s)).
Proof.
  induction s as [|[k' t'] r IH]; cbn; intros U; [constructor|]. inversion U as [|? ? NI U']; subst.
  destruct (f (k', t')); cbn; [constructor; [|apply IH; exact U']|apply IH; exact U'].
  intros X. apply NI. apply in_map_iff in X. destruct X as [[k2 t2] [E2 I2]]. apply filter_In in I2. cbn in E2. subst k2.
  apply in_map_iff. exists (k', t2). split; [reflexivity|destruct I2 as [I2 _]; exact I2].
Qed.

(* [last k] = time of the last request burst for k; the map is sound for it at time [clock] *)
Definition sr_sound (s : srstate) (last : srkey -> option N) (clock : N) : Prop :=
  forall k, match sr_lookup s k with
            | Some t => last k = Some t /\ t <= clock
            | None => match last k with Some t => sr_period <= clock - t /\ t <= clock | None => True end
            end.
Definition upd_last (last : srkey -> option N) (k : srkey) (t : N) : srkey -> option N :=
  fun k' => if key_eqb k k' then Some t else last k'.

(* every burst comes at least 30 s after the previous burst for the same (channel, system, component) *)
Fixpoint spaced_out (last : srkey -> option N) (out : list (N * srkey)) : Prop :=
  match out with
  | [] => True
  | (t, k) :: r => match last k with Some t0 => sr_period <= t - t0 /\ t0 <= t | None => True end /\
                   spaced_out (upd_last last k t) r
  end.

Fixpoint clock_mono (clock : N) (ops : list srop) : Prop :=
  match ops with
  | [] => True
  | SrHb now _ _ :: t => clock <= now /\ clock_mono now t
  | SrTick now :: t => clock <= now /\ clock_mono now t
  end.

Lemma sound_advance s last c1 c2 : c1 <= c2 -> sr_sound s last c1 -> sr_sound s last c2.
Proof.
  unfold sr_sound, sr_period. intros H S k. specialize (S k). destruct (sr_lookup s k); [destruct S as [A B]; split; [exact A|lia]|].
  destruct (last k); [lia|exact S].
Qed.

Theorem sr_not_repeated_within_30s : forall ops s last clock,
  NoDup (map fst s) -> sr_sound s last clock -> clock_mono clock ops -> spaced_out last (sr_run s ops).
Proof.
  induction ops as [|op t IH]; intros s last clock U S M; [exact I|].
  destruct op as [now k ap|now]; cbn [clock_mono] in M; destruct M as [Mn Mt]; cbn [sr_run].
  - pose proof (sound_advance s last clock now Mn S) as S'.
    unfold sr_on_heartbeat. destruct (N.eqb_spec ap 3) as [->|Nap]; cbn [negb].
    2:{ apply (IH s last now); assumption. }
    destruct (sr_lookup s k) as [t0|] eqn:Lk.
    + destruct (N.leb_spec sr_period (now - t0)) as [Ge|Lt].
      * (* re-request after at least 30 s *)
        cbn [spaced_out]. pose proof (S' k) as Sk. rewrite Lk in Sk. destruct Sk as [Lk2 Le]. rewrite Lk2. split; [split; assumption|].
        apply (IH (sr_set s k now) (upd_last last k now) now); [apply set_unique; exact U| |exact Mt].
        intros k2. unfold upd_last. destruct (key_eqb k k2) eqn:E.
        -- apply key_eqb_eq in E. subst k2. rewrite lookup_set_same. split; [reflexivity|lia].
        -- rewrite lookup_set_other by (intros X; subst; rewrite key_eqb_refl in E; discriminate). apply (S' k2).
      * apply (IH s last now); assumption.
    + (* first heartbeat, or the entry was cleaned: at least 30 s since the last burst *)
      cbn [spaced_out]. pose proof (S' k) as Sk. rewrite Lk in Sk. split.
      * destruct (last k); [exact Sk|exact I].
      * apply (IH (sr_set s k now) (upd_last last k now) now); [apply set_unique; exact U| |exact Mt].
        intros k2. unfold upd_last. destruct (key_eqb k k2) eqn:E.
        -- apply key_eqb_eq in E. subst k2. rewrite lookup_set_same. split; [reflexivity|lia].
        -- rewrite lookup_set_other by (intros X; subst; rewrite key_eqb_refl in E; discriminate). apply (S' k2).
  - pose proof (sound_advance s last clock now Mn S) as S'.
    apply (IH (sr_cleanup s now) last now); [apply filter_unique; exact U| |exact Mt].
    intros k. unfold sr_cleanup. rewrite lookup_filter by exact U. specialize (S' k).
    destruct (sr_lookup s k) as [t0|]; [|exact S']. cbn [snd].
    destruct (N.leb_spec sr_period (now - t0)); cbn [negb]; [|exact S'].
    destruct S' as [L Le]. rewrite L. split; assumption.
Qed.

(* from the empty map: any history with a non-decreasing clock *)
Corollary sr_history_spaced ops : clock_mono 0 ops -> spaced_out (fun _ => None) (sr_run [] ops).
Proof.
  intros M. apply (sr_not_repeated_within_30s ops [] (fun _ => None) 0); [constructor| |exact M].
  intros k. exact I.
Qed.

(* ---- the observable trace ---- *)
Definition to_srop (i : srin) : list srop :=
  match i with InHb n k a => [SrHb n k a] | InOther _ => [] | InTick n => [SrTick n] end.
Definition is_req (o : srobs) : bool := match o with ObsReq _ => true | ObsFrame _ => false end.

(* the bursts of the trace are exactly those of the rate-limited state machine *)
Theorem trace_bursts : forall ops s,
  filter is_req (sr_trace true s ops) = map (fun p => ObsReq (snd p)) (sr_run s (flat_map to_srop ops)).
Proof.
  induction ops as [|op t IH]; intros s; [reflexivity|].
  destruct op as [now k ap|ch|now]; cbn [sr_trace flat_map to_srop app sr_run].
  - destruct (sr_on_heartbeat s now k ap) as [s' rq]. destruct rq; cbn; rewrite IH; reflexivity.
  - cbn. apply IH.
  - apply IH.
Qed.
(* disabled: nothing but the frames *)
Theorem trace_disabled : forall ops s, filter is_req (sr_trace false s ops) = [].
Proof. induction ops as [|op t IH]; intros s; [reflexivity|]. destruct op; cbn; apply IH. Qed.
(* other messages trigger nothing and leave the state alone *)
Theorem trace_other en s ch t : sr_trace en s (InOther ch :: t) = ObsFrame ch :: sr_trace en s t.
Proof. reflexivity. Qed.
(* a burst is addressed to its sender on its channel only *)
Theorem wire_only_own_channel freq c k : key_chan k <> c -> sr_wire freq c [ObsReq k] = [].
Proof. intros H. unfold sr_wire. cbn. destruct (N.eqb_spec (key_chan k) c); [contradiction|reflexivity]. Qed.
Theorem wire_own_channel freq k : sr_wire freq (key_chan k) [ObsReq k] = sr_requests freq (snd (fst k)) (snd k).
Proof. unfold sr_wire. cbn. rewrite N.eqb_refl, app_nil_r. reflexivity. Qed.
(* the event comes before the frame event of the heartbeat that triggered it *)
Theorem event_before_frame s now k t : snd (sr_on_heartbeat s now k 3) = true ->
  exists s', sr_trace true s (InHb now k 3 :: t) = ObsReq k :: ObsFrame (key_chan k) :: sr_trace true s' t.
Proof. intros H. cbn [sr_trace]. destruct (sr_on_heartbeat s now k 3) as [s' rq]. cbn in H. subst rq. exists s'. reflexivity. Qed.

(* heartbeat ticker: one message per tick, all identical, none when not enabled *)
Theorem hb_ticks_spec c n : hb_ticks c n = if hb_enabled c then repeat (hb_message c) n else [].
Proof. reflexivity. Qed.
Theorem hb_none_when_disabled c n : hb_disable c = true -> hb_ticks c n = [].
Proof. intros H. unfold hb_ticks, hb_enabled. rewrite H. reflexivity. Qed.
Theorem hb_none_without_standard c n : hb_msg0_crc c <> Some 50 -> hb_ticks c n = [].
Proof.
  intros H. unfold hb_ticks. destruct (hb_enabled c) eqn:E; [|reflexivity].
  apply hb_iff_enabled_and_standard in E. destruct E as (_ & _ & E). contradiction.
Qed.
