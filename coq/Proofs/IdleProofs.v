(* C14: a channel that keeps receiving is not closed; one that is silent for the idle time-out is. *)
From Coq Require Import Lia ZifyN ZifyBool.
From GM Require Import Idle.
Local Open Scope N_scope.

(* arrivals are in order, none before the start, and no silence is longer than d *)
Fixpoint steady (d t : N) (arr : list N) : Prop :=
  match arr with [] => True | a :: r => t <= a /\ a <= t + d /\ steady d a r end.

Lemma last_default {A} (x : A) l d1 d2 : last (x :: l) d1 = last (x :: l) d2.
Proof. revert x. induction l as [|y l IH]; intros x; [reflexivity|]. cbn [last] in *. apply IH. Qed.
Lemma last_cons {A} (a : A) l t : last (a :: l) t = last l a.
Proof. destruct l as [|b l]; [reflexivity|]. cbn [last]. apply last_default. Qed.

(* as long as data keeps coming (no gap longer than d) the channel stays open: it is closed
   exactly d after the LAST reception *)
Theorem idle_keeps_open d : forall arr t, steady d t arr -> idle_close d t arr = last arr t + d.
Proof.
  induction arr as [|a r IH]; intros t S; [reflexivity|].
  destruct S as (L1 & L2 & S). cbn [idle_close]. assert (a <=? t + d = true) as -> by lia.
  replace (N.max t a) with a by lia. rewrite (IH a S). rewrite last_cons. reflexivity.
Qed.

(* the first silence longer than d closes the channel d after the last reception before it,
   whatever comes later *)
Theorem idle_closes_on_silence d : forall pre t a post, steady d t pre -> last pre t + d < a ->
  idle_close d t (pre ++ a :: post) = last pre t + d.
Proof.
  induction pre as [|b r IH]; intros t a post S G.
  - cbn [app idle_close last] in *. assert (a <=? t + d = false) as -> by lia. reflexivity.
  - destruct S as (L1 & L2 & S). cbn [app idle_close]. assert (b <=? t + d = true) as -> by lia.
    replace (N.max t b) with b by lia. rewrite last_cons in G |- *. apply (IH b a post S G).
Qed.

(* never before d has passed since the pending Read was called *)
Theorem idle_not_early d : forall arr t, t + d <= idle_close d t arr.
Proof.
  induction arr as [|a r IH]; intros t; cbn [idle_close]; [lia|].
  destruct (a <=? t + d); [|lia]. specialize (IH (N.max t a)). lia.
Qed.

Example bursty : idle_close 400 0 [100; 420; 740] = 1140 /\ idle_close 400 0 [100; 900] = 500.
Proof. split; reflexivity. Qed.
