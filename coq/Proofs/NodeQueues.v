(* C11 / C13: write fan-out, bounded queues, writers — for every schedule. *)
From Coq Require Import Lia PeanoNat.
From GM Require Import Node NodeBase.

Inductive sublist {A} : list A -> list A -> Prop :=
| sub_nil : forall l, sublist [] l
| sub_take : forall x a b, sublist a b -> sublist (x :: a) (x :: b)
| sub_skip : forall x a b, sublist a b -> sublist a (x :: b).

Lemma sublist_refl {A} (l : list A) : sublist l l.
Proof. induction l; constructor; auto. Qed.
Lemma sublist_app_r {A} (a b c : list A) : sublist a b -> sublist a (b ++ c).
Proof. induction 1; cbn; constructor; auto. Qed.
Lemma sublist_snoc {A} (a b : list A) x : sublist a b -> sublist (a ++ [x]) (b ++ [x]).
Proof.
  induction 1; cbn.
  - induction l as [|y l IH]; cbn; [constructor; constructor|constructor; exact IH].
  - constructor; auto.
  - constructor; auto.
Qed.
Lemma sublist_trans {A} (a b c : list A) : sublist a b -> sublist b c -> sublist a c.
Proof.
  intros H1 H2. revert a H1. induction H2; intros a0 H1.
  - inversion H1; constructor.
  - inversion H1; subst; constructor; auto.
  - constructor. auto.
Qed.

Definition busy_item (ch : chan) : list item := match wr ch with WBusy it => [it] | _ => [] end.

Definition closing (ch : chan) : Prop :=
  match un ch with UR2 _ | UC2 | UC3 | UPush _ | UCloseCh | UEnd => True | _ => False end.

Record q_inv (tm : bool) (ch : chan) : Prop := mkQInv {
  qi_split : accepted ch = dequeued ch ++ q ch;
  qi_bound : length (q ch) <= qcap;
  (* what reached the transport is, in order, part of what was taken from the queue, and the
     item being written is the last one taken *)
  qi_wire : exists done, dequeued ch = done ++ busy_item ch /\ sublist (wire ch) done;
  (* the writer ends only when told to, and it is told to only by a runner that is closing *)
  qi_wend : match wr ch with WDone | WEnd => wterm ch = true | _ => True end;
  qi_wterm : wterm ch = true -> closing ch;
  qi_init : wr ch = WInit -> accepted ch = [] /\ (un ch = UInit \/ un ch = UEnd);
  qi_started : wr ch <> WInit -> un ch <> UInit;
  qi_reg : registered ch = true -> wr ch <> WInit
}.

Lemma q_inv_new tm : q_inv tm new_chan.
Proof.
  constructor; cbn; auto; try (unfold qcap; lia); try discriminate; try (intros H; contradiction).
  exists []. split; [reflexivity|constructor].
Qed.
Lemma q_inv_mono ch : q_inv false ch -> q_inv true ch.
Proof. intros [A B C D E F G H]. constructor; auto. Qed.

Ltac simp_ch := cbn [rd un wr ctxd rwc_closed wterm registered q consumed started_evs delivered dropped
  accepted dequeued wire closes ch_rd ch_un ch_wr ch_ctxd ch_close_rwc ch_wterm ch_reg ch_q ch_consumed
  ch_started ch_delivered ch_dropped ch_enq ch_deq ch_wire start_ev busy_item] in *.

Definition qview (ch : chan) := (un ch, wr ch, wterm ch, q ch, accepted ch, dequeued ch, wire ch, registered ch).
Lemma q_inv_view tm ch ch' : qview ch = qview ch' -> q_inv tm ch -> q_inv tm ch'.
Proof.
  unfold qview. intros E [A B C D F G H J]. inversion E as [[E1 E2 E3 E4 E5 E6 E7 E8]].
  constructor; unfold busy_item, closing in *; rewrite <- ?E1, <- ?E2, <- ?E3, <- ?E4, <- ?E5, <- ?E6, <- ?E7, <- ?E8; auto.
Qed.

Lemma start_ev_qview ch o : qview (start_ev ch o) = qview ch.
Proof. destruct o; reflexivity. Qed.

Ltac qfin :=
  first [ solve [intros; discriminate]
        | solve [intros _; unfold closing; simp_ch; exact Logic.I]
        | solve [let W := fresh in intros W;
                 match goal with G : _ = WInit -> _ /\ _ |- _ => destruct (G W) as [_ [X|X]]; discriminate X end]
        | solve [let W := fresh in intros W;
                 match goal with F : wterm _ = true -> closing _, U : un _ = _ |- _ =>
                   specialize (F W); unfold closing in F; rewrite U in F; contradiction end]
        | solve [let W := fresh in intros W;
                 match goal with G : _ = WInit -> _ /\ _ |- _ => destruct (G W) as [X _]; auto end]
        | solve [intros _; match goal with K : _ <> WInit -> _ <> UInit |- _ => apply K; discriminate end]
        | idtac ].

Lemma q_inv_step tm a ch ch' evs : q_inv tm ch -> capply tm a ch = Some (ch', evs) -> q_inv tm ch'.
Proof.
  intros I H. pose proof I as [A B C D F G K J]. destruct a; cbn [capply] in H.
  - (* ARead *) destruct (rd ch); try discriminate. destruct r as [f [|]| |e]; inversion H; subst;
      (eapply q_inv_view; [|exact I]; reflexivity).
  - (* APushCheck *) destruct who.
    + destruct (rd ch) as [|p nx| | |]; try discriminate. destruct (push_check tm p) as [[p'|]|]; try discriminate.
      * inversion H; subst. eapply q_inv_view; [|exact I]; reflexivity.
      * destruct (rd_after_push nx) as [pc o]. inversion H; subst. eapply q_inv_view; [|exact I].
        rewrite start_ev_qview. reflexivity.
    + destruct (un ch) eqn:U; try discriminate. destruct (push_check tm p) as [[p'|]|]; try discriminate; inversion H; subst;
        constructor; simp_ch; auto; qfin.
  - (* APushDeliver *) destruct who.
    + destruct (rd ch) as [|p nx| | |]; try discriminate. destruct p; try discriminate.
      destruct (rd_after_push nx) as [pc o]. inversion H; subst. eapply q_inv_view; [|exact I]. rewrite start_ev_qview. reflexivity.
    + destruct (un ch) eqn:U; try discriminate. destruct p; try discriminate. inversion H; subst.
      constructor; simp_ch; auto; qfin.
  - (* APushDrop *) destruct (negb tm); [discriminate|]. destruct who.
    + destruct (rd ch) as [|p nx| | |]; try discriminate. destruct p; try discriminate.
      destruct (rd_after_push nx) as [pc o]. inversion H; subst. eapply q_inv_view; [|exact I]. rewrite start_ev_qview. reflexivity.
    + destruct (un ch) eqn:U; try discriminate. destruct p; try discriminate. inversion H; subst.
      constructor; simp_ch; auto; qfin.
  - (* AGotReader *) destruct (un ch) eqn:U; try discriminate. destruct (rd ch); try discriminate. inversion H; subst.
    constructor; simp_ch; auto; qfin.
  - (* ACtx *) destruct (un ch) eqn:U; try discriminate. destruct (ctxd ch); try discriminate. inversion H; subst.
    constructor; simp_ch; auto; qfin.
  - (* ACloseRwc *) destruct (un ch) eqn:U; try discriminate; inversion H; subst;
      constructor; simp_ch; auto; qfin; destruct (wr ch); auto.
  - (* AWrDone *) destruct (un ch) eqn:U; try discriminate; destruct (wr ch) eqn:W; try discriminate; inversion H; subst;
      constructor; simp_ch; auto; qfin;
      destruct C as [dn [C1 C2]]; exists dn; unfold busy_item in C1; rewrite W in C1; auto.
  - (* ARdDone *) destruct (un ch) eqn:U; try discriminate. destruct (rd ch); try discriminate. inversion H; subst.
    constructor; simp_ch; auto; qfin.
  - (* ACloseCh *) destruct (un ch) eqn:U; try discriminate. inversion H; subst.
    constructor; simp_ch; auto; qfin.
  - (* ACloseChTerm *) destruct (negb tm); [discriminate|]. destruct (un ch) eqn:U; try discriminate. inversion H; subst.
    constructor; simp_ch; auto; qfin.
  - (* AWrDeq *) destruct (wr ch) eqn:W; try discriminate. destruct (q ch) as [|it rest] eqn:Q; try discriminate. inversion H; subst.
    constructor; simp_ch; auto; qfin.
    + rewrite A, <- app_assoc. reflexivity.
    + cbn in B. lia.
    + destruct C as [dn [C1 C2]]. unfold busy_item in C1. rewrite W in C1. rewrite app_nil_r in C1. subst dn.
      exists (dequeued ch). auto.
  - (* AWrOk *) destruct (wr ch) eqn:W; try discriminate. destruct (rwc_closed ch); try discriminate. inversion H; subst.
    constructor; simp_ch; auto; qfin.
    destruct C as [dn [C1 C2]]. unfold busy_item in C1. rewrite W in C1. exists (dn ++ [it]). rewrite app_nil_r.
    split; [exact C1|apply sublist_snoc; exact C2].
  - (* AWrFail *) destruct (wr ch) eqn:W; try discriminate. inversion H; subst.
    constructor; simp_ch; auto; qfin.
    destruct C as [dn [C1 C2]]. unfold busy_item in C1. rewrite W in C1. exists (dn ++ [it]). rewrite app_nil_r.
    split; [exact C1|apply sublist_app_r; exact C2].
  - (* AWrTerm *) destruct (wr ch) eqn:W; try discriminate. destruct (wterm ch) eqn:T; try discriminate. inversion H; subst.
    constructor; simp_ch; auto; qfin.
    destruct C as [dn [C1 C2]]. exists dn. unfold busy_item in C1. rewrite W in C1. auto.
  - (* AStart *) destruct (rd ch); try discriminate. destruct (un ch) eqn:U; try discriminate. inversion H; subst.
    assert (W : wr ch = WInit).
    { destruct (wr ch) eqn:W; try reflexivity; exfalso; apply K; try discriminate; reflexivity. }
    constructor; simp_ch; auto; qfin.
    destruct C as [dn [C1 C2]]. exists dn. split; [|exact C2]. unfold busy_item in C1. rewrite W in C1. exact C1.
  - (* AProvTerm *) destruct (negb tm); [discriminate|]. destruct (rd ch); try discriminate. destruct (un ch) eqn:U; try discriminate.
    inversion H; subst. constructor; simp_ch; auto; qfin.
  - (* AEnq *) destruct (registered ch) eqn:Rg; cbn [andb] in H; [|discriminate].
    destruct (Nat.ltb_spec (length (q ch)) qcap) as [Lt|Ge]; [|discriminate]. inversion H; subst.
    constructor; simp_ch; auto.
    + rewrite A, app_assoc. reflexivity.
    + rewrite app_length. cbn. unfold qcap in *. lia.
    + intros W. exfalso. apply (J eq_refl W).
  - (* ACtxd *) inversion H; subst. eapply q_inv_view; [|exact I]. reflexivity.
Qed.

Theorem q_inv_reachable s : reachable s -> forall c ch, nth_error (chans s) c = Some ch -> q_inv (term s) ch.
Proof. apply (chan_invariant q_inv q_inv_new q_inv_mono q_inv_step). Qed.

(* ---------- the dispatch log and the per-channel accepted lists ---------- *)
Definition d_item (d : nat * target * item * list cid) : item := snd (fst d).
Definition d_chans (d : nat * target * item * list cid) : list cid := snd d.
Definition d_target (d : nat * target * item * list cid) : target := snd (fst (fst d)).
Definition lists (c : cid) (d : nat * target * item * list cid) : bool := existsb (Nat.eqb c) (d_chans d).

Definition disp_inv (s : st) : Prop :=
  (forall c ch, nth_error (chans s) c = Some ch -> accepted ch = map d_item (filter (lists c) (dispatch s))) /\
  (forall d c, In d (dispatch s) -> In c (d_chans d) -> c < length (chans s) /\ targets (d_target d) c = true) /\
  (forall d, In d (dispatch s) -> NoDup (d_chans d)).

Lemma capply_accepted tm a ch ch' evs : capply tm a ch = Some (ch', evs) ->
  (forall it, a <> AEnq it) -> accepted ch' = accepted ch.
Proof.
  intros H NE. destruct a; cbn [capply] in H;
  repeat match type of H with
  | (if ?b then _ else _) = _ => destruct b
  | (match ?x with _ => _ end) = _ => destruct x
  | (let '(_, _) := ?x in _) = _ => destruct x
  end; try discriminate; inversion H; subst; try reflexivity;
  try (match goal with |- context [start_ev _ ?o] => destruct o end; reflexivity).
  exfalso. eapply NE. reflexivity.
Qed.

Lemma fanout_en : forall cs i t it skip cs' en, fanout cs i t it skip = (cs', en) ->
  (forall k ch', nth_error cs' k = Some ch' ->
     exists ch, nth_error cs k = Some ch /\
       ((In (i + k) en /\ ch' = ch_enq ch it) \/ (~ In (i + k) en /\ ch' = ch))) /\
  (forall c, In c en -> i <= c < i + length cs /\ targets t c = true) /\
  NoDup en.
Proof.
  induction cs as [|ch rest IH]; intros i t it skip cs' en H; cbn in H.
  - inversion H; subst. split; [|split].
    + intros k ch' E. destruct k; discriminate.
    + intros c [].
    + constructor.
  - destruct (fanout rest (S i) t it skip) as [rest' en'] eqn:F. destruct (IH _ _ _ _ _ _ F) as (N & B & D).
    assert (Hi : ~ In i en') by (intros X; apply B in X; lia).
    destruct (targets t i && enq_ok ch (existsb (Nat.eqb i) skip)) eqn:G; inversion H; subst.
    + split; [|split].
      * intros [|k] ch' E; cbn in E.
        -- inversion E; subst. exists ch. split; [reflexivity|]. left. rewrite Nat.add_0_r. split; [left; reflexivity|reflexivity].
        -- destruct (N k ch' E) as [c0 [Hc [[I1 E1]|[I1 E1]]]]; exists c0; (split; [exact Hc|]); replace (i + S k) with (S i + k) by lia.
           ++ left. split; [right; exact I1|exact E1].
           ++ right. split; [|exact E1]. intros [X|X]; [lia|contradiction].
      * intros c [X|X].
        -- subst c. split; [cbn; lia|]. apply andb_prop in G. tauto.
        -- apply B in X. cbn. split; [lia|tauto].
      * constructor; assumption.
    + split; [|split].
      * intros [|k] ch' E; cbn in E.
        -- inversion E; subst. exists ch'. split; [reflexivity|]. right. rewrite Nat.add_0_r. auto.
        -- destruct (N k ch' E) as [c0 [Hc [[I1 E1]|[I1 E1]]]]; exists c0; (split; [exact Hc|]); replace (i + S k) with (S i + k) by lia; auto.
      * intros c X. apply B in X. cbn. split; [lia|tauto].
      * exact D.
Qed.

Lemma disp_keep s0 s1 : disp_inv s0 -> dispatch s1 = dispatch s0 -> length (chans s1) = length (chans s0) ->
  (forall k ch, nth_error (chans s1) k = Some ch -> accepted ch = map d_item (filter (lists k) (dispatch s0))) ->
  disp_inv s1.
Proof.
  intros (A & B & D) E L Acc. unfold disp_inv. rewrite E, L. split; [exact Acc|]. split; [exact B|exact D].
Qed.

Theorem disp_inv_reachable s : reachable s -> disp_inv s.
Proof.
  apply invariant_reachable.
  - split; [|split].
    + intros c ch N. destruct c; discriminate.
    + intros d c [].
    + intros d [].
  - intros s0 l s' Inv H. pose proof Inv as (A & B & D).
    assert (Local : forall c a s1, with_chan s0 c (capply (term s0) a) = Some s1 -> (forall it, a <> AEnq it) ->
                    (forall k ch, nth_error (chans s1) k = Some ch -> accepted ch = map d_item (filter (lists k) (dispatch s0))) /\
                    length (chans s1) = length (chans s0) /\ dispatch s1 = dispatch s0).
    { intros c a s1 W NE. unfold with_chan in W. destruct (nth_error (chans s0) c) as [ch|] eqn:N; [|discriminate].
      destruct (capply (term s0) a ch) as [[ch' evs]|] eqn:C; [|discriminate]. inversion W; subst; clear W. cbn [chans dispatch].
      split; [|split; [apply upd_length|reflexivity]]. intros k x Hk. destruct (Nat.eq_dec c k) as [->|Ne].
      - rewrite (nth_error_upd_same _ _ _ _ N) in Hk. inversion Hk; subst. rewrite (capply_accepted _ _ _ _ _ C NE). apply (A k ch N).
      - rewrite nth_error_upd_other in Hk by exact Ne. apply (A k x Hk). }
    destruct l; cbn in H.
    + inversion H; subst. exact Inv.
    + destruct (term s0); [discriminate|]. inversion H; subst. exact Inv.
    + destruct (provs_closed s0); [discriminate|]. inversion H; subst. unfold disp_inv. cbn [chans dispatch]. split; [|split].
      * intros c ch N. destruct (Nat.lt_ge_cases c (length (chans s0))) as [Lt|Ge].
        -- rewrite nth_error_app1 in N by exact Lt. apply (A c ch N).
        -- rewrite nth_error_app2 in N by exact Ge. destruct (c - length (chans s0)) as [|k]; cbn in N; [|destruct k; discriminate].
           inversion N; subst. cbn [accepted new_chan].
           assert (F : filter (lists c) (dispatch s0) = []).
           { clear -B Ge. induction (dispatch s0) as [|d t IH]; [reflexivity|]. cbn [filter].
             destruct (lists c d) eqn:L.
             - unfold lists in L. apply existsb_exists in L. destruct L as [x [I E]]. apply Nat.eqb_eq in E. subst x.
               destruct (B d c (or_introl eq_refl) I). lia.
             - apply IH. intros d0 c0 I1 I2. apply (B d0 c0); [right; exact I1|exact I2]. }
           rewrite F. reflexivity.
      * intros d c Hd Hc. rewrite app_length. cbn [length]. destruct (B d c Hd Hc). split; [lia|assumption].
      * exact D.
    + destruct (loop s0); try discriminate. destruct (existsb (Nat.eqb c) (handoff s0)); [|discriminate].
      destruct (with_chan s0 c (capply (term s0) AStart)) as [s1|] eqn:W; [|discriminate].
      destruct (Local _ _ _ W ltac:(intros; discriminate)) as (L1 & L2 & L3). inversion H; subst.
      apply (disp_keep s0); [exact Inv|exact L3|exact L2|exact L1].
    + destruct (existsb (Nat.eqb c) (handoff s0)); [|discriminate].
      destruct (with_chan s0 c (capply (term s0) AProvTerm)) as [s1|] eqn:W; [|discriminate].
      destruct (Local _ _ _ W ltac:(intros; discriminate)) as (L1 & L2 & L3). inversion H; subst.
      apply (disp_keep s0); [exact Inv|exact L3|exact L2|exact L1].
    + destruct (loop s0); try discriminate.
      match type of H with (if ?b then _ else _) = _ => destruct b end; [|discriminate].
      destruct (fanout (chans s0) 0 t it skip) as [cs' en] eqn:F. inversion H; subst. clear H.
      destruct (fanout_en _ _ _ _ _ _ _ F) as (N & Bn & Dn). destruct (fanout_spec _ _ _ _ _ _ _ F) as [Len _].
      unfold disp_inv. cbn [chans dispatch]. split; [|split].
      * intros c ch' Hc. destruct (N c ch' Hc) as [ch [Hch [[I1 E1]|[I1 E1]]]]; subst ch'; cbn [Nat.add] in I1.
        -- rewrite filter_app, map_app. cbn [filter]. unfold lists at 2. cbn [d_chans snd].
           assert (X : existsb (Nat.eqb c) en = true) by (apply existsb_exists; exists c; split; [exact I1|apply Nat.eqb_refl]).
           rewrite X. cbn [map d_item snd fst]. rewrite <- (A c ch Hch). reflexivity.
        -- rewrite filter_app, map_app. cbn [filter]. unfold lists at 2. cbn [d_chans snd].
           assert (X : existsb (Nat.eqb c) en = false).
           { destruct (existsb (Nat.eqb c) en) eqn:Y; [|reflexivity]. apply existsb_exists in Y. destruct Y as [x [I E]].
             apply Nat.eqb_eq in E. subst x. contradiction. }
           rewrite X. cbn [map]. rewrite app_nil_r. apply (A c ch Hch).
      * intros d c Hd Hc. rewrite Len. apply in_app_or in Hd. destruct Hd as [Hd|[Hd|[]]]; [apply (B d c Hd Hc)|].
        subst d. cbn [d_chans d_target snd fst] in *. apply Bn in Hc. cbn [Nat.add] in Hc. split; [lia|tauto].
      * intros d Hd. apply in_app_or in Hd. destruct Hd as [Hd|[Hd|[]]]; [apply D; exact Hd|]. subst d. exact Dn.
    + destruct (term s0); inversion H; subst. exact Inv.
    + destruct (loop s0); try discriminate. destruct (term s0); [|discriminate]. inversion H; subst. exact Inv.
    + destruct (loop s0); try discriminate. inversion H; subst.
      apply (disp_keep s0); [exact Inv|reflexivity|apply map_length|].
      intros c ch' N. cbn [chans] in N. rewrite nth_error_map in N. destruct (nth_error (chans s0) c) as [ch|] eqn:Hc; [|discriminate].
      cbn in N. inversion N; subst. rewrite <- (A c ch Hc). destruct (registered ch); reflexivity.
    + destruct (loop s0); try discriminate. destruct (_ && _); [|discriminate]. inversion H; subst. exact Inv.
    + destruct (loop s0); try discriminate. inversion H; subst. exact Inv.
    + destruct (chan_label_ok s0 a) eqn:Ok; [|discriminate].
      assert (NE : forall it, a <> AEnq it) by (intros it X; subst a; discriminate).
      destruct (Local _ _ _ H NE) as (L1 & L2 & L3).
      apply (disp_keep s0); [exact Inv|exact L3|exact L2|exact L1].
Qed.

(* ---------- C11 / C13 theorems ---------- *)
(* a submission is enqueued only on channels its target selects, each at most once *)
Theorem dispatch_targets s : reachable s -> forall d c, In d (dispatch s) -> In c (d_chans d) ->
  targets (d_target d) c = true /\ NoDup (d_chans d).
Proof.
  intros R d c Hd Hc. destruct (disp_inv_reachable s R) as (_ & B & D). split; [apply (B d c Hd Hc)|apply D; exact Hd].
Qed.

(* exactly once: what a channel accepted is, in submission (rendezvous) order, one copy of the item
   of each submission that was enqueued on it — nothing invented, nothing duplicated *)
Theorem exactly_once s : reachable s -> forall c ch, nth_error (chans s) c = Some ch ->
  accepted ch = map d_item (filter (lists c) (dispatch s)).
Proof. intros R. exact (proj1 (disp_inv_reachable s R)). Qed.

Lemma sublist_app_l {A} (a b c : list A) : sublist a b -> sublist a (c ++ b).
Proof. intros H. induction c; cbn; [exact H|constructor; exact IHc]. Qed.
Lemma sublist_appr {A} (a b c : list A) : sublist a b -> sublist a (b ++ c).
Proof. apply sublist_app_r. Qed.

(* FIFO: what reached the wire of a channel is, in order, part of what it accepted — hence, per
   submitter, in that submitter's submission order; each item is one whole transport write *)
Theorem wire_in_order s : reachable s -> forall c ch, nth_error (chans s) c = Some ch ->
  sublist (wire ch) (map d_item (filter (lists c) (dispatch s))).
Proof.
  intros R c ch N. rewrite <- (exactly_once s R c ch N).
  destruct (q_inv_reachable s R c ch N) as [A _ [dn [C1 C2]] _ _ _ _ _].
  rewrite A, C1. apply sublist_appr. apply sublist_appr. exact C2.
Qed.

(* nothing is dropped while the backlog is below the queue size and the channel is open *)
Lemma fanout_enq t it skip ch : registered ch = true -> length (q ch) < qcap ->
  forall cs i cs' en k, fanout cs i t it skip = (cs', en) -> nth_error cs k = Some ch ->
  targets t (i + k) = true -> existsb (Nat.eqb (i + k)) skip = false ->
  nth_error cs' k = Some (ch_enq ch it).
Proof.
  intros Rg Lq. induction cs as [|h rest IH]; intros i cs' en k F N0 T0 S0; [destruct k; discriminate|]. cbn in F.
  destruct (fanout rest (S i) t it skip) as [rest' en'] eqn:F'. destruct k as [|k]; cbn in N0.
  - inversion N0; subst h. rewrite Nat.add_0_r in *. unfold enq_ok in F. rewrite T0, Rg, S0 in F.
    apply Nat.ltb_lt in Lq. rewrite Lq in F. cbn in F. inversion F; subst. reflexivity.
  - replace (i + S k) with (S i + k) in * by lia.
    destruct (targets t i && enq_ok h (existsb (Nat.eqb i) skip)); inversion F; subst; cbn; eapply IH; eauto.
Qed.

Theorem no_drop_below_capacity s g t it skip s' c ch : lstep s (LSubmit g t it skip) = Some s' ->
  nth_error (chans s) c = Some ch -> targets t c = true -> registered ch = true -> ctxd ch = false ->
  length (q ch) < qcap ->
  exists ch', nth_error (chans s') c = Some ch' /\ accepted ch' = accepted ch ++ [it] /\ q ch' = q ch ++ [it].
Proof.
  cbn [lstep]. intros H N T Rg Cx Lq. destruct (loop s); try discriminate.
  destruct (forallb (fun c0 => match nth_error (chans s) c0 with Some ch0 => ctxd ch0 | None => false end) skip) eqn:Sk; [|discriminate].
  destruct (fanout (chans s) 0 t it skip) as [cs' en] eqn:F. inversion H; subst; clear H. cbn [chans].
  assert (NotSk : existsb (Nat.eqb c) skip = false).
  { destruct (existsb (Nat.eqb c) skip) eqn:E; [|reflexivity]. apply existsb_exists in E. destruct E as [x [I E]].
    apply Nat.eqb_eq in E. subst x. rewrite forallb_forall in Sk. specialize (Sk c I). rewrite N, Cx in Sk. discriminate. }
  exists (ch_enq ch it). split; [|split; reflexivity].
  apply (fanout_enq t it skip ch Rg Lq (chans s) 0 cs' en c F N); assumption.
Qed.

(* a write naming a closed (unregistered) channel changes nothing on it *)
Theorem unregistered_ignored s g t it skip s' c ch : lstep s (LSubmit g t it skip) = Some s' ->
  nth_error (chans s) c = Some ch -> registered ch = false -> nth_error (chans s') c = Some ch.
Proof.
  cbn [lstep]. intros H N Rg. destruct (loop s); try discriminate.
  match type of H with (if ?b then _ else _) = _ => destruct b end; [|discriminate].
  destruct (fanout (chans s) 0 t it skip) as [cs' en] eqn:F. inversion H; subst; clear H. cbn [chans].
  destruct (fanout_spec _ _ _ _ _ _ _ F) as [Len Sp].
  destruct (nth_error cs' c) as [ch'|] eqn:N'.
  - destruct (Sp c ch' N') as [ch0 [N0 [E|(E & Rg0 & _)]]]; rewrite N in N0; inversion N0; subst ch0; [subst; reflexivity|congruence].
  - exfalso. apply nth_error_None in N'. assert (c < length (chans s)) by (apply nth_error_Some; rewrite N; discriminate). lia.
Qed.

(* C13: the backlog of a channel is bounded *)
Theorem backlog_bounded s : reachable s -> forall c ch, nth_error (chans s) c = Some ch -> length (q ch) <= qcap.
Proof. intros R c ch N. apply (qi_bound _ _ (q_inv_reachable s R c ch N)). Qed.

(* C13: a writer never dies silently: it ends only when the channel's runner is closing the
   channel (after the repair, a failed write makes the writer go on with the next item) *)
Theorem no_silent_death s : reachable s -> forall c ch, nth_error (chans s) c = Some ch ->
  (wr ch = WDone \/ wr ch = WEnd) -> wterm ch = true /\ closing ch.
Proof.
  intros R c ch N W. pose proof (q_inv_reachable s R c ch N) as I.
  assert (T : wterm ch = true) by (pose proof (qi_wend _ _ I) as D; destruct W as [W|W]; rewrite W in D; exact D).
  split; [exact T|apply (qi_wterm _ _ I T)].
Qed.

(* C13: a stalled channel cannot stall the node: whatever state the channels are in, the loop
   accepts the next submission (a full queue drops, never blocks) ... *)
Theorem submit_never_blocks s g t it : loop s = LSelect -> exists s', lstep s (LSubmit g t it []) = Some s'.
Proof.
  intros L. cbn [lstep]. rewrite L. cbn [forallb]. destruct (fanout (chans s) 0 t it []) as [cs' en]. eauto.
Qed.

(* ... and whether a goroutine of channel c can step depends only on channel c and the node-wide
   flags, never on another channel (a writer blocked in a transport delays nobody else) *)
Theorem chan_step_local s1 s2 c a :
  term s1 = term s2 -> consuming s1 = consuming s2 -> events_closed s1 = events_closed s2 -> loop s1 = loop s2 ->
  nth_error (chans s1) c = nth_error (chans s2) c ->
  (lstep s1 (LChan c a) = None <-> lstep s2 (LChan c a) = None).
Proof.
  intros T Cn Ev Lp N. cbn [lstep]. unfold chan_label_ok, with_chan. rewrite T, Cn, Ev, Lp, N.
  destruct (match a with APushDeliver _ => consuming s2 && negb (events_closed s2) | ACloseCh => match loop s2 with LSelect => true | _ => false end | AStart | AProvTerm | AEnq _ | ACtxd => false | _ => true end);
    [|tauto].
  destruct (nth_error (chans s2) c) as [ch|]; [|tauto].
  destruct (capply (term s2) a ch) as [[ch' evs]|]; split; intros X; try discriminate; reflexivity.
Qed.
