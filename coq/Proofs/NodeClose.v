(* C12: after Close() the node can always make progress until everything has ended. *)
From Coq Require Import Lia PeanoNat.
From GM Require Import Node NodeBase NodeEvents.

(* ---------- per-channel consistency of runner / writer program counters ---------- *)
Definition wr_ok (ch : chan) : Prop :=
  match un ch with
  | UInit => wr ch = WInit /\ wterm ch = false
  | UWait | UR1 _ | UC1 => wterm ch = false /\ (wr ch = WIdle \/ exists it, wr ch = WBusy it)
  | UR2 _ | UC2 => wterm ch = true /\ (wr ch = WIdle \/ (exists it, wr ch = WBusy it) \/ wr ch = WDone)
  | UC3 | UPush _ | UCloseCh => wr ch = WEnd
  | UEnd => wr ch = WEnd \/ wr ch = WInit
  end.
Definition reg_ok (ch : chan) : Prop :=
  match un ch with UInit | UEnd => True | _ => registered ch = true end.

Record s_inv (tm : bool) (ch : chan) : Prop := mkSInv { si_wr : wr_ok ch; si_reg : reg_ok ch }.

Ltac simp_ch := cbn [rd un wr ctxd rwc_closed wterm registered q consumed started_evs delivered dropped
  accepted dequeued wire closes ch_rd ch_un ch_wr ch_ctxd ch_close_rwc ch_wterm ch_reg ch_q ch_consumed
  ch_started ch_delivered ch_dropped ch_enq ch_deq ch_wire start_ev] in *.

Definition sview (ch : chan) := (un ch, wr ch, wterm ch, registered ch).
Lemma s_inv_view tm ch ch' : sview ch = sview ch' -> s_inv tm ch -> s_inv tm ch'.
Proof.
  unfold sview. intros E [A B]. inversion E as [[E1 E2 E3 E4]].
  constructor; unfold wr_ok, reg_ok in *; rewrite <- ?E1, <- ?E2, <- ?E3, <- ?E4; auto.
Qed.
Lemma start_ev_sview ch o : sview (start_ev ch o) = sview ch.
Proof. destruct o; reflexivity. Qed.

Lemma s_inv_new tm : s_inv tm new_chan.
Proof. constructor; cbn; auto. Qed.
Lemma s_inv_mono ch : s_inv false ch -> s_inv true ch.
Proof. intros [A B]. constructor; auto. Qed.

Lemma s_inv_step tm a ch ch' evs : s_inv tm ch -> capply tm a ch = Some (ch', evs) -> s_inv tm ch'.
Proof.
  intros I H. pose proof I as [A B]. unfold wr_ok, reg_ok in A, B. destruct a; cbn [capply] in H.
  - destruct (rd ch); try discriminate. destruct r as [f [|]| |e]; inversion H; subst; (eapply s_inv_view; [|exact I]; reflexivity).
  - destruct who.
    + destruct (rd ch) as [|p nx| | |]; try discriminate. destruct (push_check tm p) as [[p'|]|]; try discriminate.
      * inversion H; subst. eapply s_inv_view; [|exact I]; reflexivity.
      * destruct (rd_after_push nx) as [pc o]. inversion H; subst. eapply s_inv_view; [|exact I]. rewrite start_ev_sview. reflexivity.
    + destruct (un ch) eqn:U; try discriminate. destruct (push_check tm p) as [[p'|]|]; try discriminate; inversion H; subst;
        constructor; unfold wr_ok, reg_ok; simp_ch; auto.
  - destruct who.
    + destruct (rd ch) as [|p nx| | |]; try discriminate. destruct p; try discriminate.
      destruct (rd_after_push nx) as [pc o]. inversion H; subst. eapply s_inv_view; [|exact I]. rewrite start_ev_sview. reflexivity.
    + destruct (un ch) eqn:U; try discriminate. destruct p; try discriminate. inversion H; subst.
      constructor; unfold wr_ok, reg_ok; simp_ch; auto.
  - destruct (negb tm); [discriminate|]. destruct who.
    + destruct (rd ch) as [|p nx| | |]; try discriminate. destruct p; try discriminate.
      destruct (rd_after_push nx) as [pc o]. inversion H; subst. eapply s_inv_view; [|exact I]. rewrite start_ev_sview. reflexivity.
    + destruct (un ch) eqn:U; try discriminate. destruct p; try discriminate. inversion H; subst.
      constructor; unfold wr_ok, reg_ok; simp_ch; auto.
  - destruct (un ch) eqn:U; try discriminate. destruct (rd ch); try discriminate. inversion H; subst.
    constructor; unfold wr_ok, reg_ok; simp_ch; auto.
  - destruct (un ch) eqn:U; try discriminate. destruct (ctxd ch); try discriminate. inversion H; subst.
    constructor; unfold wr_ok, reg_ok; simp_ch; auto.
  - destruct (un ch) eqn:U; try discriminate; inversion H; subst; constructor; unfold wr_ok, reg_ok; simp_ch; auto;
      destruct A as [_ [W|[it W]]]; (split; [reflexivity|]); eauto.
  - destruct (un ch) eqn:U; try discriminate; destruct (wr ch) eqn:W; try discriminate; inversion H; subst;
      constructor; unfold wr_ok, reg_ok; simp_ch; auto.
  - destruct (un ch) eqn:U; try discriminate. destruct (rd ch); try discriminate. inversion H; subst.
    constructor; unfold wr_ok, reg_ok; simp_ch; auto.
  - destruct (un ch) eqn:U; try discriminate. inversion H; subst. constructor; unfold wr_ok, reg_ok; simp_ch; auto.
  - destruct (negb tm); [discriminate|]. destruct (un ch) eqn:U; try discriminate. inversion H; subst.
    constructor; unfold wr_ok, reg_ok; simp_ch; auto.
  - (* AWrDeq *) destruct (wr ch) eqn:W; try discriminate. destruct (q ch); try discriminate. inversion H; subst.
    constructor; unfold wr_ok, reg_ok; simp_ch; auto.
    destruct (un ch);
      first [ solve [destruct A as [X _]; discriminate X]
            | solve [discriminate A]
            | solve [destruct A as [X|X]; discriminate X]
            | solve [destruct A as [T0 _]; split; [exact T0|eauto 6]] ].
  - (* AWrOk *) destruct (wr ch) eqn:W; try discriminate. destruct (rwc_closed ch); try discriminate. inversion H; subst.
    constructor; unfold wr_ok, reg_ok; simp_ch; auto.
    destruct (un ch);
      first [ solve [destruct A as [X _]; discriminate X]
            | solve [discriminate A]
            | solve [destruct A as [X|X]; discriminate X]
            | solve [destruct A as [T0 _]; split; [exact T0|eauto 6]] ].
  - (* AWrFail *) destruct (wr ch) eqn:W; try discriminate. inversion H; subst.
    constructor; unfold wr_ok, reg_ok; simp_ch; auto.
    destruct (un ch);
      first [ solve [destruct A as [X _]; discriminate X]
            | solve [discriminate A]
            | solve [destruct A as [X|X]; discriminate X]
            | solve [destruct A as [T0 _]; split; [exact T0|eauto 6]] ].
  - (* AWrTerm *) destruct (wr ch) eqn:W; try discriminate. destruct (wterm ch) eqn:T; try discriminate. inversion H; subst.
    constructor; unfold wr_ok, reg_ok; simp_ch; auto.
    destruct (un ch); try discriminate A;
      try (destruct A as [T' _]; discriminate T');
      try (destruct A as [A|A]; discriminate A);
      try (split; [exact T|right; right; reflexivity]).
  - (* AStart *) destruct (rd ch); try discriminate. destruct (un ch) eqn:U; try discriminate. inversion H; subst.
    constructor; unfold wr_ok, reg_ok; simp_ch; auto. destruct A as [_ T]. auto.
  - (* AProvTerm *) destruct (negb tm); [discriminate|]. destruct (rd ch); try discriminate. destruct (un ch) eqn:U; try discriminate.
    inversion H; subst. constructor; unfold wr_ok, reg_ok; simp_ch; auto. destruct A as [W _]. auto.
  - (* AEnq *) destruct (registered ch && Nat.ltb (length (q ch)) qcap); [|discriminate]. inversion H; subst.
    eapply s_inv_view; [|exact I]. reflexivity.
  - (* ACtxd *) inversion H; subst. eapply s_inv_view; [|exact I]. reflexivity.
Qed.

Theorem s_inv_reachable s : reachable s -> forall c ch, nth_error (chans s) c = Some ch -> s_inv (term s) ch.
Proof. apply (chan_invariant s_inv s_inv_new s_inv_mono s_inv_step). Qed.

(* ---------- global consistency: hand-over list, epilogue stages ---------- *)
Definition loop_after_chans (l : loop_pc) : bool :=
  match l with LEpiWait | LEpiEvents | LEnd => true | _ => false end.

Record g_inv (s : st) : Prop := mkGInv {
  gi_handoff : forall c, In c (handoff s) <-> exists ch, nth_error (chans s) c = Some ch /\ un ch = UInit;
  gi_ctxd : loop_after_chans (loop s) = true ->
            forall c ch, nth_error (chans s) c = Some ch -> registered ch = true -> ctxd ch = true;
  gi_term : loop s <> LSelect -> term s = true /\ provs_closed s = true;
  gi_events : events_closed s = true -> loop s = LEnd
}.

Lemma rm_In c x l : In x (rm c l) <-> x <> c /\ In x l.
Proof.
  unfold rm. rewrite filter_In. destruct (Nat.eqb_spec x c); cbn; split; intros H; try tauto; try (destruct H; discriminate).
Qed.

Lemma capply_un_init tm a ch ch' evs : capply tm a ch = Some (ch', evs) ->
  (un ch' = UInit <-> (un ch = UInit /\ a <> AStart /\ a <> AProvTerm)).
Proof.
  intros H. destruct a; cbn [capply] in H;
  repeat match type of H with
  | (if ?b then _ else _) = _ => destruct b
  | (match ?x with _ => _ end) = _ => destruct x eqn:?
  | (let '(_, _) := ?x in _) = _ => destruct x
  end; try discriminate; inversion H; subst; cbn;
  try (match goal with |- context [start_ev _ ?o] => destruct o end; cbn);
  split; intros X; try discriminate; try (destruct X as (X1 & X2 & X3)); try congruence; try (repeat split; try discriminate; congruence).
Qed.

Lemma capply_reg_ctxd tm a ch ch' evs : capply tm a ch = Some (ch', evs) -> a <> AStart ->
  (registered ch' = true -> registered ch = true) /\ (ctxd ch = true -> ctxd ch' = true).
Proof.
  intros H NE. destruct a; cbn [capply] in H;
  repeat match type of H with
  | (if ?b then _ else _) = _ => destruct b eqn:?
  | (match ?x with _ => _ end) = _ => destruct x eqn:?
  | (let '(_, _) := ?x in _) = _ => destruct x
  end; try discriminate; inversion H; subst; cbn;
  try (match goal with |- context [start_ev _ ?o] => destruct o end; cbn); try (split; auto; discriminate); try contradiction.
  all: try (split; auto; intros; congruence).
Qed.

Lemma with_chan_g s c a s1 : g_inv s -> with_chan s c (capply (term s) a) = Some s1 ->
  a <> AStart -> a <> AProvTerm ->
  (forall k, (exists ch, nth_error (chans s1) k = Some ch /\ un ch = UInit) <->
             (exists ch, nth_error (chans s) k = Some ch /\ un ch = UInit)) /\
  (forall k ch', nth_error (chans s1) k = Some ch' -> registered ch' = true ->
     exists ch, nth_error (chans s) k = Some ch /\ registered ch = true /\ (ctxd ch = true -> ctxd ch' = true)) /\
  term s1 = term s /\ loop s1 = loop s /\ handoff s1 = handoff s /\ provs_closed s1 = provs_closed s /\ events_closed s1 = events_closed s.
Proof.
  intros G W N1 N2. unfold with_chan in W. destruct (nth_error (chans s) c) as [ch|] eqn:N; [|discriminate].
  destruct (capply (term s) a ch) as [[ch' evs]|] eqn:C; [|discriminate]. inversion W; subst; clear W. cbn.
  split; [|split; [|repeat split]].
  - intros k. destruct (Nat.eq_dec c k) as [->|Ne].
    + rewrite (nth_error_upd_same _ _ _ _ N). rewrite N. split; intros [x [E U]]; inversion E; subst.
      * apply (capply_un_init _ _ _ _ _ C) in U. exists ch. tauto.
      * exists ch'. split; [reflexivity|]. apply (capply_un_init _ _ _ _ _ C). auto.
    + rewrite nth_error_upd_other by exact Ne. tauto.
  - intros k x Hk Rg. destruct (Nat.eq_dec c k) as [->|Ne].
    + rewrite (nth_error_upd_same _ _ _ _ N) in Hk. inversion Hk; subst. exists ch.
      destruct (capply_reg_ctxd _ _ _ _ _ C N1) as [R1 R2]. auto.
    + rewrite nth_error_upd_other in Hk by exact Ne. exists x. auto.
Qed.

Theorem g_inv_reachable s : reachable s -> g_inv s.
Proof.
  apply invariant_reachable.
  - constructor; cbn; try discriminate; try tauto;
      try (intros c; split; [intros []|intros [ch [E _]]; destruct c; discriminate]);
      try (intros _ c ch E; destruct c; discriminate); try (intros H; contradiction).
  - intros s0 l s' G H. pose proof G as [G1 G2 G3 G4]. destruct l; cbn in H.
    + inversion H; subst. constructor; cbn [handoff chans loop term provs_closed events_closed consuming log dispatch]; auto.
    + destruct (term s0) eqn:T; [discriminate|]. inversion H; subst. constructor; cbn [handoff chans loop term provs_closed events_closed consuming log dispatch]; auto.
      intros NL. destruct (G3 NL) as [X _]. congruence.
    + destruct (provs_closed s0) eqn:PC; [discriminate|]. inversion H; subst. constructor; cbn [handoff chans loop term provs_closed events_closed consuming log dispatch].
      * intros c. rewrite in_app_iff. cbn [In]. split.
        -- intros [I|[E|[]]].
           ++ apply G1 in I. destruct I as [ch [E U]]. exists ch. split; [|exact U].
              rewrite nth_error_app1; [exact E|apply nth_error_Some; rewrite E; discriminate].
           ++ subst c. exists new_chan. rewrite nth_error_app2 by apply Nat.le_refl. rewrite Nat.sub_diag. auto.
        -- intros [ch [E U]]. destruct (Nat.lt_ge_cases c (length (chans s0))) as [Lt|Ge].
           ++ rewrite nth_error_app1 in E by exact Lt. left. apply G1. eauto.
           ++ rewrite nth_error_app2 in E by exact Ge. destruct (c - length (chans s0)) as [|k] eqn:D; cbn in E; [|destruct k; discriminate].
              right. left. lia.
      * intros LA c ch E Rg. destruct (Nat.lt_ge_cases c (length (chans s0))) as [Lt|Ge].
        -- rewrite nth_error_app1 in E by exact Lt. apply (G2 LA c ch E Rg).
        -- rewrite nth_error_app2 in E by exact Ge. destruct (c - length (chans s0)) as [|k]; cbn in E; [|destruct k; discriminate].
           inversion E; subst. discriminate.
      * intros NL. destruct (G3 NL) as [_ X]. congruence.
      * exact G4.
    + (* LNewChan *)
      destruct (loop s0) eqn:Lp; try discriminate. destruct (existsb (Nat.eqb c) (handoff s0)) eqn:Hc; [|discriminate].
      destruct (with_chan s0 c (capply (term s0) AStart)) as [s1|] eqn:W; [|discriminate]. inversion H; subst; clear H.
      unfold with_chan in W. destruct (nth_error (chans s0) c) as [ch|] eqn:N; [|discriminate].
      cbn [capply] in W. destruct (rd ch) eqn:Rd; try discriminate. destruct (un ch) eqn:U; try discriminate.
      inversion W; subst; clear W. constructor; cbn [handoff chans loop term provs_closed events_closed consuming log dispatch].
      * intros k. rewrite rm_In. destruct (Nat.eq_dec c k) as [->|Ne].
        -- rewrite (nth_error_upd_same _ _ _ _ N). split; [tauto|]. intros [x [E Ux]]. inversion E; subst. discriminate.
        -- rewrite nth_error_upd_other by exact Ne. rewrite G1. split; [tauto|]. intros X. split; [auto|exact X].
      * try rewrite Lp; discriminate.
      * try rewrite Lp; intros X; contradiction.
      * intros X. specialize (G4 X). first [discriminate G4 | rewrite G4 in Lp; discriminate Lp].
    + (* LNewChanTerm *)
      destruct (existsb (Nat.eqb c) (handoff s0)) eqn:Hc; [|discriminate].
      destruct (with_chan s0 c (capply (term s0) AProvTerm)) as [s1|] eqn:W; [|discriminate]. inversion H; subst; clear H.
      unfold with_chan in W. destruct (nth_error (chans s0) c) as [ch|] eqn:N; [|discriminate].
      cbn [capply] in W. destruct (negb (term s0)); [discriminate|]. destruct (rd ch) eqn:Rd; try discriminate. destruct (un ch) eqn:U; try discriminate.
      inversion W; subst; clear W. constructor; cbn [handoff chans loop term provs_closed events_closed consuming log dispatch]; auto.
      * intros k. rewrite rm_In. destruct (Nat.eq_dec c k) as [->|Ne].
        -- rewrite (nth_error_upd_same _ _ _ _ N). split; [tauto|]. intros [x [E Ux]]. inversion E; subst. discriminate.
        -- rewrite nth_error_upd_other by exact Ne. rewrite G1. split; [tauto|]. intros X. split; [auto|exact X].
      * intros LA k x Hk Rg. destruct (Nat.eq_dec c k) as [->|Ne].
        -- rewrite (nth_error_upd_same _ _ _ _ N) in Hk. inversion Hk; subst. reflexivity.
        -- rewrite nth_error_upd_other in Hk by exact Ne. apply (G2 LA k x Hk Rg).
    + (* LSubmit *)
      destruct (loop s0) eqn:Lp; try discriminate.
      match type of H with (if ?b then _ else _) = _ => destruct b end; [|discriminate].
      destruct (fanout (chans s0) 0 t it skip) as [cs' en] eqn:F. inversion H; subst. clear H.
      destruct (fanout_spec _ _ _ _ _ _ _ F) as [Len Sp]. constructor; cbn [handoff chans loop term provs_closed events_closed consuming log dispatch].
      * intros c. rewrite G1. split; intros [ch [E U]].
        -- assert (Lt : c < length cs') by (rewrite Len; apply nth_error_Some; rewrite E; discriminate).
           destruct (nth_error cs' c) as [ch'|] eqn:E'; [|apply nth_error_None in E'; lia].
           destruct (Sp c ch' E') as [ch0 [E0 [X|(X & _)]]]; rewrite E in E0; inversion E0; subst ch0; subst ch'; eauto.
        -- destruct (Sp c ch E) as [ch0 [E0 [X|(X & _)]]]; subst ch; eauto.
      * try rewrite Lp; discriminate.
      * try rewrite Lp; intros X; contradiction.
      * intros X. specialize (G4 X). first [discriminate G4 | rewrite G4 in Lp; discriminate Lp].
    + destruct (term s0); inversion H; subst. exact G.
    + (* LLoopTerm *)
      destruct (loop s0) eqn:Lp; try discriminate. destruct (term s0) eqn:T; [|discriminate]. inversion H; subst.
      constructor; cbn [handoff chans loop term provs_closed events_closed consuming log dispatch]; auto; try discriminate.
      intros X. specialize (G4 X). first [discriminate G4 | rewrite G4 in Lp; discriminate Lp].
    + (* LEpiCloseChans *)
      destruct (loop s0) eqn:Lp; try discriminate. inversion H; subst. constructor; cbn [handoff chans loop term provs_closed events_closed consuming log dispatch].
      * intros c. rewrite G1. rewrite nth_error_map. split; intros [ch [E U]].
        -- rewrite E. cbn. exists (if registered ch then ch_ctxd ch else ch). split; [reflexivity|]. destruct (registered ch); exact U.
        -- destruct (nth_error (chans s0) c) as [ch0|]; [|discriminate]. cbn in E. inversion E; subst. exists ch0. split; [reflexivity|].
           destruct (registered ch0); exact U.
      * intros _ c ch' E Rg. rewrite nth_error_map in E. destruct (nth_error (chans s0) c) as [ch0|]; [|discriminate].
        cbn in E. inversion E; subst. destruct (registered ch0) eqn:R0; [reflexivity|congruence].
      * intros _. apply G3. try rewrite Lp; discriminate.
      * intros X. specialize (G4 X). first [discriminate G4 | rewrite G4 in Lp; discriminate Lp].
    + destruct (loop s0) eqn:Lp; try discriminate. destruct (_ && _); [|discriminate]. inversion H; subst.
      constructor; cbn [handoff chans loop term provs_closed events_closed consuming log dispatch].
      * exact G1.
      * intros _. apply G2. reflexivity.
      * intros _. apply G3. discriminate.
      * intros X. specialize (G4 X). discriminate G4.
    + destruct (loop s0) eqn:Lp; try discriminate. inversion H; subst.
      constructor; cbn [handoff chans loop term provs_closed events_closed consuming log dispatch].
      * exact G1.
      * intros _. apply G2. reflexivity.
      * intros _. apply G3. discriminate.
      * reflexivity.
    + (* LChan *)
      destruct (chan_label_ok s0 a) eqn:Ok; [|discriminate].
      assert (N1 : a <> AStart) by (intros X; subst a; discriminate).
      assert (N2 : a <> AProvTerm) by (intros X; subst a; discriminate).
      destruct (with_chan_g s0 c a s' G H N1 N2) as (Hu & Hr & E1 & E2 & E3 & E4 & E5).
      constructor.
      * intros k. rewrite E3, G1. symmetry. apply Hu.
      * rewrite E2. intros LA k ch' Hk Rg. destruct (Hr k ch' Hk Rg) as [ch [E [R0 Cx]]]. apply Cx. apply (G2 LA k ch E R0).
      * rewrite E1, E2, E4. exact G3.
      * rewrite E2, E5. exact G4.
Qed.

(* ---------- after Close(): no deadlock ---------- *)
(* steps the library takes on its own — they need neither the application (consumer, Write*
   callers) nor fresh input: the only environment facts used are (A1) a transport Read returns
   an error once the node is shutting down (its transport gets closed), and (A2) a transport
   Write returns *)
Definition sys_act (a : cact) : bool :=
  match a with
  | ARead (RdFatal _) | APushCheck _ | APushDrop _ | AGotReader | ACtx | ACloseRwc | AWrDone | ARdDone
  | ACloseChTerm | AWrDeq | AWrFail | AWrTerm => true
  | _ => false
  end.
Definition sys_label (l : label) : bool :=
  match l with
  | LLoopTerm | LEpiCloseChans | LEpiWaited | LEpiCloseEvents | LNewChanTerm _ => true
  | LChan _ a => sys_act a
  | _ => false
  end.

Lemma chan_progress ch : s_inv true ch -> pc_ok ch -> ctxd ch = true -> un ch <> UInit -> un ch <> UEnd ->
  exists a, sys_act a = true /\ (exists r, capply true a ch = Some r) /\
            (forall s, chan_label_ok s a = true).
Proof.
  intros [W _] P Cx NI NE. unfold wr_ok in W. unfold pc_ok in P.
  destruct (un ch) eqn:U; try contradiction.
  - (* UWait *) exists ACtx. cbn [capply]. rewrite U, Cx. repeat split; eauto.
  - (* UR1 *) exists ACloseRwc. cbn [capply]. rewrite U. repeat split; eauto.
  - (* UR2 *) destruct W as [T [Wr|[[it Wr]|Wr]]].
    + exists AWrTerm. cbn [capply]. rewrite Wr, T. repeat split; eauto.
    + exists AWrFail. cbn [capply]. rewrite Wr. repeat split; eauto.
    + exists AWrDone. cbn [capply]. rewrite U, Wr. repeat split; eauto.
  - (* UC1 *) exists ACloseRwc. cbn [capply]. rewrite U. repeat split; eauto.
  - (* UC2 *) destruct W as [T [Wr|[[it Wr]|Wr]]].
    + exists AWrTerm. cbn [capply]. rewrite Wr, T. repeat split; eauto.
    + exists AWrFail. cbn [capply]. rewrite Wr. repeat split; eauto.
    + exists AWrDone. cbn [capply]. rewrite U, Wr. repeat split; eauto.
  - (* UC3: waiting for the reader *)
    destruct (rd ch) as [|p nx| |e|] eqn:Rd.
    + destruct P as [P|P]; discriminate.
    + destruct p as [ev|ev].
      * exists (APushCheck true). cbn [capply push_check]. rewrite Rd. cbn [push_check].
        destruct (rd_after_push nx). repeat split; eauto.
      * exists (APushDrop true). cbn [capply negb]. rewrite Rd. destruct (rd_after_push nx). repeat split; eauto.
    + exists (ARead (RdFatal 0)). cbn [capply]. rewrite Rd. repeat split; eauto.
    + exists ARdDone. cbn [capply]. rewrite U, Rd. repeat split; eauto.
    + destruct P as [[e P]|[[e P]|[[p P]|[P|P]]]]; discriminate.
  - (* UPush *) destruct p as [ev|ev].
    + exists (APushCheck false). cbn [capply]. rewrite U. cbn [push_check]. repeat split; eauto.
    + exists (APushDrop false). cbn [capply negb]. rewrite U. repeat split; eauto.
  - (* UCloseCh *) exists ACloseChTerm. cbn [capply negb]. rewrite U. repeat split; eauto.
Qed.

Lemma forallb_false {A} (f : A -> bool) l : forallb f l = false -> exists k x, nth_error l k = Some x /\ f x = false.
Proof.
  induction l as [|a l IH]; cbn; [discriminate|]. destruct (f a) eqn:F.
  - intros H. destruct (IH H) as [k [x [N E]]]. exists (S k), x. auto.
  - intros _. exists 0, a. auto.
Qed.

(* Once Close() has been called the node is never stuck before everything has ended: whatever
   the application does or does not do (consuming events or not, writers running or not) and
   whatever state the channels are in (reader blocked on an undelivered event, writer in the
   transport, channel mid-close, provider about to hand over a channel) *)
Theorem close_no_deadlock s : reachable s -> term s = true -> loop s <> LEnd ->
  exists l, sys_label l = true /\ exists s', lstep s l = Some s'.
Proof.
  intros R T NE. pose proof (g_inv_reachable s R) as [G1 G2 G3 G4].
  destruct (loop s) eqn:Lp; try contradiction.
  - exists LLoopTerm. split; [reflexivity|]. cbn [lstep]. rewrite Lp, T. eauto.
  - exists LEpiCloseChans. split; [reflexivity|]. cbn [lstep]. rewrite Lp. eauto.
  - (* waiting for the goroutines *)
    destruct (handoff s) as [|c hs] eqn:Hf.
    + destruct (forallb runner_done (chans s)) eqn:Fa.
      * exists LEpiWaited. split; [reflexivity|]. cbn [lstep]. rewrite Lp, Fa, Hf. cbn [andb]. eauto.
      * apply forallb_false in Fa. destruct Fa as [c [ch [N Rd]]].
        assert (NEnd : un ch <> UEnd) by (unfold runner_done in Rd; destruct (un ch); try discriminate; intros X; discriminate X).
        assert (NInit : un ch <> UInit).
        { intros X. assert (I : In c []) by (apply G1; eauto). contradiction. }
        pose proof (s_inv_reachable s R c ch N) as SI. rewrite T in SI.
        pose proof (ei_pc _ _ (ev_inv_reachable s R c ch N)) as PC.
        assert (Rg : registered ch = true).
        { destruct SI as [_ Rg]. unfold reg_ok in Rg. destruct (un ch); try exact Rg; contradiction. }
        assert (Cx : ctxd ch = true) by (apply (G2 eq_refl c ch N Rg)).
        destruct (chan_progress ch SI PC Cx NInit NEnd) as [a [Sa [[r Ca] Ok]]].
        exists (LChan c a). split; [exact Sa|]. cbn [lstep]. rewrite (Ok s). unfold with_chan. rewrite N, T, Ca.
        destruct r. eauto.
    + (* a provider still holds a channel it created: it sees terminate and closes it *)
      assert (I : In c (c :: hs)) by (left; reflexivity).
      apply G1 in I. destruct I as [ch [N U]].
      pose proof (ei_pc _ _ (ev_inv_reachable s R c ch N)) as PC. unfold pc_ok in PC.
      assert (Rd : rd ch = RdInit).
      { destruct (rd ch); try reflexivity; rewrite U in PC;
          try (destruct PC as [P|[P|[P|P]]]; discriminate);
          destruct PC as [[e P]|[[e P]|[[p P]|[P|P]]]]; discriminate. }
      exists (LNewChanTerm c). split; [reflexivity|]. cbn [lstep]. rewrite Hf. cbn [existsb]. rewrite Nat.eqb_refl. cbn [orb].
      unfold with_chan. rewrite N. cbn [capply]. rewrite T. cbn [negb]. rewrite Rd, U. eauto.
  - exists LEpiCloseEvents. split; [reflexivity|]. cbn [lstep]. rewrite Lp. eauto.
Qed.


(* ---------- when Close() returns ---------- *)
Lemma capply_done tm a ch ch' evs : capply tm a ch = Some (ch', evs) -> runner_done ch = true -> runner_done ch' = true.
Proof.
  unfold runner_done. intros H D. destruct (un ch) eqn:U; try discriminate.
  destruct a; cbn [capply] in H;
  repeat match type of H with
  | (if ?b then _ else _) = _ => destruct b eqn:?
  | (match ?x with _ => _ end) = _ => destruct x eqn:?
  | (let '(_, _) := ?x in _) = _ => destruct x
  end; try discriminate; try congruence; inversion H; subst; cbn;
  try (match goal with |- context [start_ev _ ?o] => destruct o end; cbn); try rewrite U; try reflexivity; try congruence.
Qed.

Definition after_wait (l : loop_pc) : bool := match l with LEpiEvents | LEnd => true | _ => false end.

Definition e_inv (s : st) : Prop :=
  (after_wait (loop s) = true -> forallb runner_done (chans s) = true /\ handoff s = []) /\
  (loop s = LEnd -> events_closed s = true).

Lemma forallb_upd {A} (f : A -> bool) l n x : forallb f l = true -> f x = true -> forallb f (upd l n x) = true.
Proof.
  revert n. induction l as [|a l IH]; intros [|n] H F; cbn in *; auto.
  - apply andb_prop in H. destruct H as [_ H]. rewrite F, H. reflexivity.
  - apply andb_prop in H. destruct H as [H1 H2]. rewrite H1. cbn. apply IH; assumption.
Qed.
Lemma forallb_nth {A} (f : A -> bool) l n x : forallb f l = true -> nth_error l n = Some x -> f x = true.
Proof. intros H N. rewrite forallb_forall in H. apply H. eapply nth_error_In; eauto. Qed.

Theorem e_inv_reachable s : reachable s -> e_inv s.
Proof.
  apply invariant_reachable'.
  - split; cbn; intros X; discriminate X.
  - intros s0 l s' R [E1 E2] H. pose proof (g_inv_reachable s0 R) as [G1 G2 G3 G4]. destruct l; cbn in H.
    + inversion H; subst. split; assumption.
    + destruct (term s0); [discriminate|]. inversion H; subst. split; assumption.
    + destruct (provs_closed s0) eqn:PC; [discriminate|]. inversion H; subst. split; cbn [loop chans handoff events_closed].
      * intros A. assert (NL : loop s0 <> LSelect) by (destruct (loop s0); try discriminate; intros X; discriminate X).
        destruct (G3 NL) as [_ X]. congruence.
      * exact E2.
    + destruct (loop s0) eqn:Lp; try discriminate. destruct (existsb _ _); [|discriminate].
      destruct (with_chan s0 c (capply (term s0) AStart)) as [s1|] eqn:W; [|discriminate]. inversion H; subst.
      unfold with_chan in W. destruct (nth_error (chans s0) c); [|discriminate]. destruct (capply _ _ _) as [[? ?]|]; [|discriminate].
      inversion W; subst. split; cbn [loop after_wait]; intros X; rewrite ?Lp in X; cbn [after_wait] in X; discriminate X.
    + destruct (existsb (Nat.eqb c) (handoff s0)) eqn:Hc; [|discriminate].
      destruct (with_chan s0 c (capply (term s0) AProvTerm)) as [s1|] eqn:W; [|discriminate]. inversion H; subst.
      unfold with_chan in W. destruct (nth_error (chans s0) c); [|discriminate]. destruct (capply _ _ _) as [[? ?]|]; [|discriminate].
      inversion W; subst. split; cbn [loop chans handoff events_closed].
      * intros A. destruct (E1 A) as [_ Hn]. rewrite Hn in Hc. discriminate.
      * exact E2.
    + destruct (loop s0) eqn:Lp; try discriminate.
      match type of H with (if ?b then _ else _) = _ => destruct b end; [|discriminate].
      destruct (fanout _ _ _ _ _). inversion H; subst. split; cbn [loop after_wait]; intros X; rewrite ?Lp in X; cbn [after_wait] in X; discriminate X.
    + destruct (term s0); inversion H; subst. split; assumption.
    + destruct (loop s0) eqn:Lp; try discriminate. destruct (term s0); [|discriminate]. inversion H; subst.
      split; cbn [loop after_wait]; intros X; rewrite ?Lp in X; cbn [after_wait] in X; discriminate X.
    + destruct (loop s0) eqn:Lp; try discriminate. inversion H; subst. split; cbn [loop after_wait]; intros X; rewrite ?Lp in X; cbn [after_wait] in X; discriminate X.
    + destruct (loop s0) eqn:Lp; try discriminate.
      destruct (forallb runner_done (chans s0)) eqn:Fa; cbn [andb] in H; [|discriminate].
      destruct (handoff s0) eqn:Hf; [|discriminate]. inversion H; subst. split; cbn [loop chans handoff]; [auto|discriminate].
    + destruct (loop s0) eqn:Lp; try discriminate. inversion H; subst. split; cbn [loop chans handoff events_closed]; [|reflexivity].
      intros _. apply E1. reflexivity.
    + destruct (chan_label_ok s0 a); [|discriminate]. unfold with_chan in H.
      destruct (nth_error (chans s0) c) as [ch|] eqn:N; [|discriminate].
      destruct (capply (term s0) a ch) as [[ch' evs]|] eqn:C; [|discriminate]. inversion H; subst.
      split; cbn [loop chans handoff events_closed]; [|exact E2].
      intros A. destruct (E1 A) as [Fa Hn]. split; [|exact Hn].
      apply forallb_upd; [exact Fa|]. eapply capply_done; [exact C|]. eapply forallb_nth; eauto.
Qed.

(* when everything has ended (Close() returns): the event channel is closed, so ranging over
   Events() ends; every runner has ended; no channel is left in a provider's hands *)
Theorem all_done_means s : reachable s -> loop s = LEnd ->
  events_closed s = true /\ forallb runner_done (chans s) = true /\ handoff s = [].
Proof.
  intros R L. destruct (e_inv_reachable s R) as [E1 E2]. split; [apply E2; exact L|]. apply E1. rewrite L. reflexivity.
Qed.

(* a Write* call racing with or following Close() returns without blocking *)
Theorem write_after_close_returns s : term s = true -> exists s', lstep s LSubmitTerm = Some s'.
Proof. intros T. cbn [lstep]. rewrite T. eauto. Qed.

(* ---------- the transport of a channel is closed at most once ---------- *)
Definition c_inv (tm : bool) (ch : chan) : Prop :=
  closes ch = (if rwc_closed ch then 1 else 0) /\
  (rwc_closed ch = true -> match un ch with UInit | UWait | UR1 _ | UC1 => False | _ => True end).

Lemma c_inv_step tm a ch ch' evs : c_inv tm ch -> capply tm a ch = Some (ch', evs) -> c_inv tm ch'.
Proof.
  intros [A B] H. unfold c_inv.
  assert (Close : forall ch2, (un ch = UInit \/ (exists e, un ch = UR1 e) \/ un ch = UC1) ->
            closes ch2 = S (closes ch) -> rwc_closed ch2 = true ->
            (match un ch2 with UInit | UWait | UR1 _ | UC1 => False | _ => True end) ->
            closes ch2 = (if rwc_closed ch2 then 1 else 0) /\
            (rwc_closed ch2 = true -> match un ch2 with UInit | UWait | UR1 _ | UC1 => False | _ => True end)).
  { intros ch2 Hu C2 R2 Ok. rewrite R2, C2. destruct (rwc_closed ch) eqn:RC.
    - exfalso. specialize (B eq_refl). destruct Hu as [E|[[e E]|E]]; rewrite E in B; contradiction.
    - split; [rewrite A; reflexivity|intros _; exact Ok]. }
  destruct a; cbn [capply] in H;
  repeat match type of H with
  | (if ?b then _ else _) = _ => destruct b eqn:?
  | (match ?x with _ => _ end) = _ => destruct x eqn:?
  | (let '(_, _) := ?x in _) = _ => destruct x
  end; try discriminate; inversion H; subst;
  try (apply Close; [eauto|reflexivity|reflexivity|exact Logic.I]);
  cbn; try (match goal with |- context [start_ev _ ?o] => destruct o end; cbn);
  (split; [first [exact A | (match goal with E : rwc_closed _ = _ |- _ => rewrite E end; exact A)]|]);
  intros X; try congruence; specialize (B X);
  repeat match goal with E : un _ = _ |- _ => rewrite E in B; clear E end; try exact B; try exact Logic.I; try contradiction.
Qed.

Lemma c_inv_new tm : c_inv tm new_chan.
Proof. split; cbn; [reflexivity|discriminate]. Qed.
Lemma c_inv_mono ch : c_inv false ch -> c_inv true ch.
Proof. intros X; exact X. Qed.

Theorem closed_at_most_once s : reachable s -> forall c ch, nth_error (chans s) c = Some ch -> closes ch <= 1.
Proof.
  intros R c ch N.
  pose proof (chan_invariant c_inv c_inv_new c_inv_mono c_inv_step s R c ch N) as [A _].
  rewrite A. destruct (rwc_closed ch); lia.
Qed.
