(* C18: hexadecimal and binary enum values are read exactly. *)
From Coq Require Import ZArith Lia ZifyN ZifyNat ZifyBool PeanoNat.
From GM Require Import Bytes Result Layout Gen GenProofs.
Ltac Zify.zify_post_hook ::= Z.div_mod_to_equations.

Definition digit_char (d : N) : N := if d <? 10 then 48 + d else 87 + d.   (* 0-9, a-f *)
Fixpoint render_base (fuel : nat) (base n : N) : list N :=
  match fuel with
  | O => []
  | S k => if n <? base then [digit_char n] else render_base k base (n / base) ++ [digit_char (n mod base)]
  end.

Lemma hex_val_digit d : d < 16 -> hex_val (digit_char d) = Some d.
Proof.
  intros H. unfold hex_val, digit_char, is_digit. destruct (N.ltb_spec d 10).
  - assert ((48 <=? 48 + d) && (48 + d <=? 57) = true) as -> by lia. f_equal. lia.
  - assert ((48 <=? 87 + d) && (87 + d <=? 57) = false) as -> by lia.
    assert ((97 <=? 87 + d) && (87 + d <=? 102) = true) as -> by lia. f_equal. lia.
Qed.

Lemma parse_uint_go_app base : forall a c acc,
  parse_uint_go base (a ++ [c]) acc =
  match parse_uint_go base a acc with Some x => parse_uint_go base [c] x | None => None end.
Proof.
  induction a as [|b t IH]; intros c acc; [reflexivity|]. cbn [app parse_uint_go].
  destruct (hex_val b) as [d|]; [|reflexivity]. destruct (d <? base); [|reflexivity].
  destruct (acc * base + d <? two64); [apply IH|reflexivity].
Qed.

Lemma render_nonempty fuel base n : (0 < fuel)%nat -> render_base fuel base n <> [].
Proof.
  intros F. destruct fuel; [lia|]. cbn. destruct (n <? base); [discriminate|].
  intros H. apply app_eq_nil in H. destruct H; discriminate.
Qed.

Lemma parse_render base : 2 <= base <= 16 -> forall fuel n, n < base ^ N.of_nat fuel -> n < two64 -> (0 < fuel)%nat ->
  parse_uint_go base (render_base fuel base n) 0 = Some n.
Proof.
  intros Hb. induction fuel as [|k IH]; intros n Hn Hm F; [lia|].
  cbn [render_base]. destruct (N.ltb_spec n base) as [L|G].
  - cbn [parse_uint_go]. rewrite hex_val_digit by lia. assert (n <? base = true) as -> by lia.
    rewrite N.mul_0_l, N.add_0_l. assert (n <? two64 = true) as -> by lia. reflexivity.
  - destruct k as [|k'].
    + change (N.of_nat 1) with 1 in Hn. rewrite N.pow_1_r in Hn. lia.
    + rewrite parse_uint_go_app. rewrite IH.
      * cbn [parse_uint_go]. assert (Mb : n mod base < base) by (apply N.mod_lt; lia).
        rewrite hex_val_digit by lia. assert (n mod base <? base = true) as -> by lia.
        assert (E : n / base * base + n mod base = n) by (pose proof (N.div_mod n base ltac:(lia)); lia).
        rewrite E. assert (n <? two64 = true) as -> by lia. reflexivity.
      * rewrite Nat2N.inj_succ, N.pow_succ_r' in Hn. apply N.div_lt_upper_bound; lia.
      * assert (n / base <= n) by (apply N.div_le_upper_bound; nia). lia.
      * lia.
Qed.

Theorem hex_value_parsed n : n < two64 -> parse_enum_value ([48; 120] ++ render_base 17 16 n) = Some n.
Proof.
  intros H. cbn [app parse_enum_value]. unfold parse_uint.
  pose proof (render_nonempty 17 16 n ltac:(lia)) as NE.
  destruct (render_base 17 16 n) as [|c t] eqn:R; [contradiction|]. rewrite <- R.
  apply parse_render; [lia| |exact H|lia].
  change (16 ^ N.of_nat 17) with 295147905179352825856. unfold two64 in H. lia.
Qed.
Theorem binary_value_parsed n : n < two64 -> parse_enum_value ([48; 98] ++ render_base 65 2 n) = Some n.
Proof.
  intros H. cbn [app parse_enum_value]. unfold parse_uint.
  pose proof (render_nonempty 65 2 n ltac:(lia)) as NE.
  destruct (render_base 65 2 n) as [|c t] eqn:R; [contradiction|]. rewrite <- R.
  apply parse_render; [lia| |exact H|lia].
  change (2 ^ N.of_nat 65) with 36893488147419103232. unfold two64 in H. lia.
Qed.
(* the renderings are the usual ones *)
Example render_examples :
  render_base 17 16 255 = [102; 102] /\ render_base 65 2 5 = [49; 48; 49] /\ render_base 17 16 0 = [48].
Proof. repeat split; reflexivity. Qed.
