From Coq Require Import ZArith Lia ZifyN ZifyNat ZifyBool.
From GM Require Import Bytes.
Ltac Zify.zify_post_hook ::= Z.div_mod_to_equations.

Lemma u8_land x : u8 x = N.land x (N.ones 8).
Proof. unfold u8. rewrite N.land_ones. reflexivity. Qed.

Lemma split8 x : N.lor (u8 x) (N.shiftl (N.shiftr x 8) 8) = x.
Proof.
  rewrite u8_land, <- N.ldiff_ones_r, N.lor_comm. apply N.lor_ldiff_and.
Qed.

Lemma le_dec_le_enc k : forall x, x < 2 ^ (8 * N.of_nat k) -> le_dec (le_enc k x) = x.
Proof.
  induction k as [|k IH]; intros x H.
  - cbn in *. lia.
  - cbn [le_enc le_dec]. rewrite IH.
    + apply split8.
    + rewrite N.shiftr_div_pow2. apply N.div_lt_upper_bound; [discriminate|].
      rewrite <- N.pow_add_r. replace (8 + 8 * N.of_nat k) with (8 * N.of_nat (S k)) by lia. exact H.
Qed.

Lemma le_enc_length k : forall x, length (le_enc k x) = k.
Proof. induction k; intros; cbn; [reflexivity|f_equal; apply IHk]. Qed.

Lemma le_enc_bytes_ok k : forall x, bytes_ok (le_enc k x) = true.
Proof.
  induction k; intros x; cbn; [reflexivity|].
  rewrite IHk, andb_true_r. unfold byte_ok, u8. apply N.ltb_lt. apply N.mod_lt. discriminate.
Qed.

Lemma shiftr8 x : N.shiftr x 8 = x / 256.
Proof. rewrite N.shiftr_div_pow2. reflexivity. Qed.

Lemma le_enc_2 x : x < 65536 -> le_enc 2 x = [x mod 256; x / 256].
Proof.
  intros H. cbn [le_enc]. unfold u8. rewrite !shiftr8. f_equal. f_equal.
  apply N.mod_small. apply N.div_lt_upper_bound; lia.
Qed.

Lemma le_enc_3 x : x < 16777216 -> le_enc 3 x = [x mod 256; (x / 256) mod 256; x / 65536].
Proof.
  intros H. cbn [le_enc]. unfold u8. rewrite !shiftr8. rewrite N.div_div by discriminate.
  change (256 * 256) with 65536. f_equal. f_equal. f_equal.
  apply N.mod_small. apply N.div_lt_upper_bound; lia.
Qed.

Lemma le_enc_6 x : x < 281474976710656 ->
  le_enc 6 x = [x mod 256; (x / 256) mod 256; (x / 65536) mod 256; (x / 16777216) mod 256;
                (x / 4294967296) mod 256; x / 1099511627776].
Proof.
  intros H. cbn [le_enc]. unfold u8. rewrite !shiftr8. rewrite !N.div_div by discriminate.
  change (256 * 256) with 65536. change (65536 * 256) with 16777216.
  change (16777216 * 256) with 4294967296. change (4294967296 * 256) with 1099511627776.
  do 5 f_equal. f_equal. apply N.mod_small. apply N.div_lt_upper_bound; lia.
Qed.

Lemma firstn_all2 {A} (l : list A) n : n = length l -> firstn n l = l.
Proof. intros ->. apply firstn_all. Qed.
Lemma skipn_all3 {A} (l : list A) n : n = length l -> skipn n l = [].
Proof. intros ->. apply skipn_all. Qed.
