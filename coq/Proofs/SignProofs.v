(* C06: link signing. *)
From Coq Require Import ZArith Lia.
From GM Require Import Bytes Result Codec Sha256 Frame Stream Reader Writer.

Lemma list_eqb_eq (a : list N) : forall b, bytes_eqb a b = true <-> a = b.
Proof.
  unfold bytes_eqb. induction a as [|x a IH]; intros [|y b]; cbn; split; intros H; try reflexivity; try discriminate.
  - apply andb_prop in H. destruct H as [H1 H2]. apply N.eqb_eq in H1. apply IH in H2. subst. reflexivity.
  - inversion H; subst. rewrite N.eqb_refl. cbn. apply IH. reflexivity.
Qed.

(* the keyed branch accepts exactly: v2, signature present, signature = first 48 bits of
   SHA-256(key | 0xFD header | payload | checksum | link id | timestamp), inside the window *)
Theorem keyed_accept_iff key st f st' :
  check_key key st f = (None, st') <->
  (f_v2 f = true /\ exists sg, f_sig f = Some sg /\
   gen_signature key f (fst (raw_of f)) (snd (raw_of f)) = sg /\
   window_refuse (r_cur_ts st) (f_ts f) = false /\
   st' = mkRstate (window_update (r_cur_ts st) (f_ts f))).
Proof.
  unfold check_key. destruct (f_v2 f); cbn [negb].
  2:{ split; [discriminate|]. intros [H _]. discriminate. }
  destruct (f_sig f) as [sg|].
  2:{ split; [discriminate|]. intros [_ [sg [H _]]]. discriminate. }
  destruct (raw_of f) as [id p]. cbn [fst snd].
  destruct (bytes_eqb (gen_signature key f id p) sg) eqn:E; cbn [negb].
  - apply list_eqb_eq in E.
    destruct (window_refuse (r_cur_ts st) (f_ts f)) eqn:Wn.
    + split; [discriminate|]. intros [_ [sg' [H1 [H2 [H3 _]]]]]. discriminate.
    + split.
      * intros H. inversion H. split; [reflexivity|]. exists sg. auto.
      * intros [_ [sg' [H1 [H2 [H3 H4]]]]]. rewrite H4. reflexivity.
  - split; [discriminate|]. intros [_ [sg' [H1 [H2 _]]]]. inversion H1 as [Hs]. rewrite <- Hs in H2.
    assert (T : bytes_eqb (gen_signature key f id p) sg = true) by (apply list_eqb_eq; exact H2).
    rewrite T in E. discriminate.
Qed.

(* a refused frame — unsigned, v1, wrongly signed, too old — leaves the register alone: only
   authenticated frames can move the window *)
Theorem refused_keeps_register key st f code st' : check_key key st f = (Some code, st') -> st' = st.
Proof.
  unfold check_key. destruct (f_v2 f); cbn [negb]; [|intros H; inversion H; reflexivity].
  destruct (f_sig f) as [sg|]; [|intros H; inversion H; reflexivity].
  destruct (raw_of f) as [id p].
  destruct (bytes_eqb (gen_signature key f id p) sg); cbn [negb]; [|intros H; inversion H; reflexivity].
  destruct (window_refuse (r_cur_ts st) (f_ts f)); intros H; inversion H; reflexivity.
Qed.

Corollary v1_refused key st f : f_v2 f = false -> fst (check_key key st f) = Some pe_not_v2.
Proof. intros H. unfold check_key. rewrite H. reflexivity. Qed.

Corollary unsigned_refused key st f : f_v2 f = true -> f_sig f = None ->
  fst (check_key key st f) = Some pe_no_sig.
Proof. intros H1 H2. unfold check_key. rewrite H1, H2. reflexivity. Qed.

(* any frame whose carried signature differs from the formula under the configured key — a
   different key, or any alteration of a covered byte or of the signature itself, unless the
   48-bit SHA-256 prefixes coincide — is refused *)
Corollary bad_signature_refused key st f sg :
  f_v2 f = true -> f_sig f = Some sg ->
  gen_signature key f (fst (raw_of f)) (snd (raw_of f)) <> sg ->
  fst (check_key key st f) = Some pe_wrong_sig.
Proof.
  intros H1 H2 H3. unfold check_key. rewrite H1, H2. cbn [negb].
  destruct (raw_of f) as [id p]. cbn [fst snd] in H3.
  destruct (bytes_eqb (gen_signature key f id p) sg) eqn:E; [apply list_eqb_eq in E; contradiction|reflexivity].
Qed.

(* a keyed reader delivers nothing that did not pass the keyed branch *)
Theorem keyed_frames_authenticated cfg st s r st' s' key :
  reader_read cfg st s = (r, st', s') -> r_inkey cfg = Some key ->
  (exists f, r = RFrame f) ->
  exists f0, check_key key st f0 = (None, st') /\
             match r_dialect cfg with None => r = RFrame f0 | Some d => r = check_dialect d f0 end.
Proof.
  unfold reader_read, g_reader_read. intros H K [f R]. rewrite K in H. subst r.
  destruct (read_byte s) as [[magic|e|] s1]; try discriminate.
  destruct (magic =? 254).
  - destruct (g_unmarshal_v1 stream peek_discard read_full s1) as [[f0|e|] s2]; try discriminate.
    destruct (check_key key st f0) as [kerr st2] eqn:CK.
    destruct kerr; [discriminate|]. exists f0.
    destruct (r_dialect cfg); inversion H; subst; auto.
  - destruct (magic =? 253); [|discriminate].
    destruct (g_unmarshal_v2 stream peek_discard read_full s1) as [[f0|e|] s2]; try discriminate.
    destruct (check_key key st f0) as [kerr st2] eqn:CK.
    destruct kerr; [discriminate|]. exists f0.
    destruct (r_dialect cfg); inversion H; subst; auto.
Qed.

(* the signature does not cover itself *)
Lemma gen_signature_ignores_sig key f l t s1 s2 id p :
  gen_signature key (set_sig f l t s1) id p = gen_signature key (set_sig f l t s2) id p.
Proof. reflexivity. Qed.
