(* C04: message encode/decode — no panic, prefix dependence (v2 truncation / extension
   semantics), round trip in canonical form. *)
From Coq Require Import ZArith Lia PeanoNat.
From GM Require Import Bytes BytesProofs CodecBytes Result Codec.
Local Open Scope nat_scope.

Lemma Ok_inj {A} (a b : A) : Ok a = Ok b -> a = b.
Proof. intros H; inversion H; reflexivity. Qed.

Definition elem_len (f : field) : nat :=
  if fd_enum f then ftype_size (fd_type f)
  else match fd_type f with TChar => N.to_nat (fd_alen f) | t => ftype_size t end.
Definition flen (f : field) : nat := if fd_isarr f then fd_golen f * elem_len f else elem_len f.
Definition active (v2 : bool) (f : field) : bool := v2 || negb (fd_ext f).
Definition total_len (v2 : bool) (fs : list field) : nat :=
  fold_right (fun f a => if active v2 f then flen f + a else a) 0 fs.

(* an initialised codec whose byte sizes did not wrap *)
Definition codec_wf (c : codec) : Prop :=
  N.to_nat (c_size_ext c) = total_len true (c_fields c) /\
  N.to_nat (c_size_normal c) = total_len false (c_fields c).

(* ---------- zpad / strip ---------- *)
Lemma zpad_length n : forall l, length (zpad n l) = n.
Proof. induction n; intros [|b l]; cbn; auto. Qed.
Lemma zpad_exact : forall l, zpad (length l) l = l.
Proof. induction l; cbn; [reflexivity|f_equal; assumption]. Qed.
Lemma zpad_nil n : zpad n [] = zeros n.
Proof. induction n; cbn; [reflexivity|f_equal; assumption]. Qed.
Lemma zpad_app_zeros n : forall l k, zpad n (l ++ zeros k) = zpad n l.
Proof.
  induction n as [|n IH]; intros l k; [reflexivity|].
  destruct l as [|b l]; cbn [app].
  - destruct k as [|k]; [reflexivity|]. cbn [zeros zpad]. f_equal. apply (IH [] k).
  - cbn [zpad]. f_equal. apply IH.
Qed.
Lemma zpad_short n l : length l <= n -> zpad n l = l ++ zeros (n - length l).
Proof.
  revert l. induction n as [|n IH]; intros [|b l] H; cbn in *; try lia; try reflexivity.
  - f_equal. apply zpad_nil.
  - f_equal. apply IH. lia.
Qed.
Lemma zpad_long n l : n <= length l -> zpad n l = firstn n l.
Proof.
  revert l. induction n as [|n IH]; intros [|b l] H; cbn in *; try lia; try reflexivity.
  f_equal. apply IH. lia.
Qed.

Lemma strip_rev_spec r : exists k, r = zeros k ++ strip_rev r.
Proof.
  induction r as [|b r IH]; [exists 0; reflexivity|].
  cbn [strip_rev]. destruct b as [|p]; [|exists 0; reflexivity].
  destruct r as [|c r']; [exists 0; reflexivity|].
  destruct IH as [k E]. exists (S k). cbn [zeros app]. f_equal. exact E.
Qed.
Lemma zeros_rev k : rev (zeros k) = zeros k.
Proof.
  induction k; [reflexivity|]. cbn [zeros rev]. rewrite IHk. clear. induction k; cbn; [reflexivity|f_equal; assumption].
Qed.
Lemma strip_spec l : exists k, l = strip_zeros l ++ zeros k.
Proof.
  unfold strip_zeros. destruct (strip_rev_spec (rev l)) as [k E]. exists k.
  rewrite <- (rev_involutive l) at 1. rewrite E at 1. rewrite rev_app_distr, zeros_rev. reflexivity.
Qed.
Lemma zpad_strip n l : zpad n (strip_zeros l) = zpad n l.
Proof. destruct (strip_spec l) as [k E]. rewrite E at 2. rewrite zpad_app_zeros. reflexivity. Qed.

Lemma strip_rev_nonempty r : r <> [] -> strip_rev r <> [].
Proof.
  induction r as [|b r IH]; intros H; [contradiction|]. cbn [strip_rev].
  destruct b; [|discriminate]. destruct r; [discriminate|]. apply IH. discriminate.
Qed.
(* the encoder strips trailing zeros but never below one byte *)
Lemma strip_at_least_one l : l <> [] -> 1 <= length (strip_zeros l).
Proof.
  intros H. unfold strip_zeros. rewrite rev_length.
  assert (rev l <> []) by (intros E; apply H; rewrite <- (rev_involutive l), E; reflexivity).
  apply strip_rev_nonempty in H0. destruct (strip_rev (rev l)); [contradiction|cbn; lia].
Qed.

(* ---------- decoding never panics when enough bytes are there ---------- *)
Lemma take_ok {A} n (l : list A) : n <= length l -> take n l = Some (firstn n l).
Proof. intros H. unfold take. apply Nat.leb_le in H. rewrite H. reflexivity. Qed.
Lemma drop_ok {A} n (l : list A) : n <= length l -> drop n l = Some (skipn n l).
Proof. intros H. unfold drop. apply Nat.leb_le in H. rewrite H. reflexivity. Qed.

Lemma skipn_skipn' {A} : forall b a (l : list A), skipn a (skipn b l) = skipn (b + a) l.
Proof.
  induction b as [|b IH]; intros a l; [reflexivity|]. destruct l as [|x l]; cbn [skipn plus].
  - destruct a; reflexivity.
  - apply IH.
Qed.

Definition dec_val (f : field) (h : list N) : fval :=
  if negb (fd_enum f) && ftype_eqb (fd_type f) TChar then VS (cstr h) else VU (le_dec h).

Lemma dec_scalar_ok f p : elem_len f <= length p ->
  dec_scalar f p = Ok (dec_val f (firstn (elem_len f) p), skipn (elem_len f) p).
Proof.
  intros H. unfold dec_scalar. fold (elem_len f). rewrite take_ok, drop_ok by exact H.
  unfold dec_val. destruct (negb (fd_enum f) && ftype_eqb (fd_type f) TChar); reflexivity.
Qed.

Fixpoint dec_vals (f : field) (k : nat) (p : list N) : list fval :=
  match k with
  | O => []
  | S k' => dec_val f (firstn (elem_len f) p) :: dec_vals f k' (skipn (elem_len f) p)
  end.

Lemma dec_elems_ok f : forall k p, k * elem_len f <= length p ->
  dec_elems f k p = Ok (dec_vals f k p, skipn (k * elem_len f) p).
Proof.
  induction k as [|k IH]; intros p H; [reflexivity|].
  cbn [dec_elems dec_vals]. rewrite dec_scalar_ok by (cbn in H; lia). cbn [rbind].
  rewrite IH by (rewrite skipn_length; cbn in H; lia). cbn [rbind].
  rewrite skipn_skipn'. do 3 f_equal.
Qed.

Definition dec_fval (f : field) (p : list N) : fval :=
  if fd_isarr f then VA (dec_vals f (fd_golen f) p) else dec_val f (firstn (elem_len f) p).

Lemma dec_field_ok f p : flen f <= length p -> dec_field f p = Ok (dec_fval f p, skipn (flen f) p).
Proof.
  unfold dec_field, flen, dec_fval. destruct (fd_isarr f); intros H.
  - rewrite dec_elems_ok by exact H. reflexivity.
  - apply dec_scalar_ok. exact H.
Qed.

Fixpoint dec_all (fs : list field) (v2 : bool) (p : list N) (acc : value) : value :=
  match fs with
  | [] => acc
  | f :: t => if active v2 f then dec_all t v2 (skipn (flen f) p) (set_nth (fd_index f) (dec_fval f p) acc)
              else dec_all t v2 p acc
  end.

Lemma active_neg v2 f : negb v2 && fd_ext f = negb (active v2 f).
Proof. unfold active. destruct v2, (fd_ext f); reflexivity. Qed.

Lemma dec_fields_ok : forall fs v2 p acc, total_len v2 fs <= length p ->
  dec_fields fs v2 p acc = Ok (dec_all fs v2 p acc).
Proof.
  induction fs as [|f t IH]; intros v2 p acc H; [reflexivity|].
  cbn [dec_fields dec_all total_len fold_right] in *. rewrite active_neg.
  destruct (active v2 f); cbn [negb].
  - rewrite dec_field_ok by lia. cbn [rbind]. apply IH. rewrite skipn_length. fold (total_len v2 t) in H. lia.
  - apply IH. exact H.
Qed.

(* ---------- the decoder reads only the first total_len bytes ---------- *)
Lemma firstn_app_le {A} n (a b : list A) : n <= length a -> firstn n (a ++ b) = firstn n a.
Proof. intros H. rewrite firstn_app. replace (n - length a) with 0 by lia. cbn. apply app_nil_r. Qed.

Lemma dec_vals_prefix f : forall k a b, k * elem_len f <= length a ->
  dec_vals f k (a ++ b) = dec_vals f k a.
Proof.
  induction k as [|k IH]; intros a b H; [reflexivity|]. cbn [dec_vals]. cbn in H.
  rewrite firstn_app_le by lia. f_equal.
  rewrite skipn_app. replace (elem_len f - length a) with 0 by lia. cbn [skipn].
  apply IH. rewrite skipn_length. lia.
Qed.

Lemma dec_fval_prefix f a b : flen f <= length a -> dec_fval f (a ++ b) = dec_fval f a.
Proof.
  unfold dec_fval, flen. destruct (fd_isarr f); intros H.
  - f_equal. apply dec_vals_prefix. exact H.
  - rewrite firstn_app_le by exact H. reflexivity.
Qed.

Lemma dec_all_prefix : forall fs v2 a b acc, total_len v2 fs <= length a ->
  dec_all fs v2 (a ++ b) acc = dec_all fs v2 a acc.
Proof.
  induction fs as [|f t IH]; intros v2 a b acc H; [reflexivity|].
  cbn [dec_all total_len fold_right] in *. fold (total_len v2 t) in H. destruct (active v2 f).
  - rewrite dec_fval_prefix by lia. rewrite skipn_app. replace (flen f - length a) with 0 by lia. cbn [skipn].
    apply IH. rewrite skipn_length. lia.
  - apply IH. exact H.
Qed.

(* ---------- Read ---------- *)
Definition sz (c : codec) : nat := N.to_nat (c_size_ext c).

(* v2: the result is a function of the payload cut / zero-padded to the extended size *)
Lemma zeros_length k : length (zeros k) = k.
Proof. induction k; cbn; [reflexivity|f_equal; assumption]. Qed.

Theorem read_v2_is_zpad c p : codec_wf c ->
  msg_read c true p = Ok (dec_all (c_fields c) true (zpad (sz c) p) (zero_value c)).
Proof.
  intros [W _]. unfold msg_read, sz. destruct (Nat.ltb_spec (length p) (N.to_nat (c_size_ext c))) as [H|H].
  - rewrite dec_fields_ok by (rewrite app_length, zeros_length, <- W; lia).
    rewrite zpad_short by lia. reflexivity.
  - rewrite dec_fields_ok by (rewrite <- W; exact H).
    rewrite zpad_long by exact H.
    rewrite <- (firstn_skipn (N.to_nat (c_size_ext c)) p) at 1.
    rewrite dec_all_prefix by (rewrite firstn_length, <- W; lia). reflexivity.
Qed.

(* never a panic, on any payload of any length, in either version *)
Theorem read_never_panics c v2 p : codec_wf c -> msg_read c v2 p <> Panic.
Proof.
  intros W. destruct v2.
  - rewrite read_v2_is_zpad by exact W. discriminate.
  - destruct W as [_ W]. unfold msg_read. destruct (Nat.eqb_spec (length p) (N.to_nat (c_size_normal c))) as [E|E]; [|discriminate].
    rewrite dec_fields_ok by (rewrite <- W, E; apply Nat.le_refl). discriminate.
Qed.

(* v1 accepts only the exact base payload length *)
Theorem v1_exact_length c p : length p <> N.to_nat (c_size_normal c) -> msg_read c false p = Err err_wrong_size.
Proof. intros H. unfold msg_read. destruct (Nat.eqb_spec (length p) (N.to_nat (c_size_normal c))); [contradiction|reflexivity]. Qed.

(* v2: any number of zero bytes appended to or removed from the end changes nothing *)
Theorem read_zeros_appended c p k : codec_wf c -> msg_read c true (p ++ zeros k) = msg_read c true p.
Proof. intros W. rewrite !read_v2_is_zpad by exact W. rewrite zpad_app_zeros. reflexivity. Qed.
Theorem read_zeros_stripped c p : codec_wf c -> msg_read c true (strip_zeros p) = msg_read c true p.
Proof. intros W. rewrite !read_v2_is_zpad by exact W. rewrite zpad_strip. reflexivity. Qed.
(* v2: unknown trailing bytes beyond the extended size are ignored *)
Theorem read_trailing_ignored c p extra : codec_wf c -> sz c <= length p ->
  msg_read c true (p ++ extra) = msg_read c true p.
Proof.
  intros W H. rewrite !read_v2_is_zpad by exact W.
  rewrite !zpad_long by (rewrite ?app_length; lia). rewrite firstn_app_le by exact H. reflexivity.
Qed.

(* ---------- Write, then Read ---------- *)
Lemma enc_scalar_len f v b : enc_scalar f v = Ok b -> length b = elem_len f.
Proof.
  unfold enc_scalar, elem_len. destruct v as [n|s|l]; [| |discriminate].
  - destruct (fd_type f) eqn:T;
      try (intros H; apply Ok_inj in H; rewrite <- H, le_enc_length; destruct (fd_enum f); reflexivity).
    destruct (fd_enum f); [|discriminate]. intros H; apply Ok_inj in H; rewrite <- H. reflexivity.
  - destruct (fd_enum f); [discriminate|]. destruct (fd_type f); try discriminate.
    intros H; apply Ok_inj in H; rewrite <- H. apply zpad_length.
Qed.

Lemma enc_elems_len f : forall l b, enc_elems f l = Ok b -> length b = length l * elem_len f.
Proof.
  induction l as [|v l IH]; intros b H; cbn in H; [inversion H; reflexivity|].
  destruct (enc_scalar f v) as [a| |] eqn:E; cbn in H; try discriminate.
  destruct (enc_elems f l) as [r| |] eqn:R; cbn in H; try discriminate.
  inversion H; subst. rewrite app_length, (enc_scalar_len _ _ _ E), (IH r eq_refl). cbn. lia.
Qed.

Lemma enc_field_len f v b : enc_field f v = Ok b -> length b = flen f.
Proof.
  unfold enc_field, flen. destruct (fd_isarr f).
  - destruct v as [n|s|l]; try discriminate. destruct (Nat.eqb_spec (length l) (fd_golen f)) as [E|E]; [|discriminate].
    intros H. rewrite (enc_elems_len _ _ _ H), E. reflexivity.
  - apply enc_scalar_len.
Qed.

Lemma enc_fields_len : forall fs v2 val e, enc_fields fs v2 val = Ok e -> length e = total_len v2 fs.
Proof.
  induction fs as [|f t IH]; intros v2 val e H; cbn [enc_fields total_len fold_right] in *; [inversion H; reflexivity|].
  rewrite active_neg in H. fold (total_len v2 t). destruct (active v2 f); cbn [negb] in H.
  - destruct (nth_error val (fd_index f)) as [fv|]; [|discriminate].
    destruct (enc_field f fv) as [a| |] eqn:E; cbn in H; try discriminate.
    destruct (enc_fields t v2 val) as [r| |] eqn:R; cbn in H; try discriminate.
    inversion H; subst. rewrite app_length, (enc_field_len _ _ _ E), (IH _ _ _ R). reflexivity.
  - apply IH with (val := val). exact H.
Qed.

(* the canonical form the wire imposes on a value *)
Definition canon_scalar (f : field) (v : fval) : fval :=
  match v with
  | VU n => VU (n mod 2 ^ (8 * N.of_nat (elem_len f)))%N
  | VS s => VS (cstr (zpad (N.to_nat (fd_alen f)) s))      (* cut at the declared length or first NUL *)
  | VA _ => v
  end.
Definition canon_field (f : field) (v : fval) : fval :=
  if fd_isarr f then match v with VA l => VA (map (canon_scalar f) l) | _ => v end
  else canon_scalar f v.
Fixpoint canon_all (fs : list field) (v2 : bool) (val acc : value) : value :=
  match fs with
  | [] => acc
  | f :: t => if active v2 f
              then canon_all t v2 val (set_nth (fd_index f) (canon_field f (nth (fd_index f) val (VU 0))) acc)
              else canon_all t v2 val acc
  end.

Lemma dec_val_enc f v b : enc_scalar f v = Ok b -> dec_val f b = canon_scalar f v.
Proof.
  unfold enc_scalar, dec_val, canon_scalar, elem_len. destruct v as [n|s|l]; [| |discriminate].
  - destruct (fd_type f) eqn:T;
      try (intros H; apply Ok_inj in H; rewrite <- H; cbn [ftype_eqb]; rewrite andb_false_r; rewrite le_dec_le_enc_mod;
           destruct (fd_enum f); reflexivity).
    destruct (fd_enum f); [|discriminate]. intros H; apply Ok_inj in H; rewrite <- H. cbn [negb andb].
    rewrite le_dec_le_enc_mod. reflexivity.
  - destruct (fd_enum f); [discriminate|]. destruct (fd_type f); try discriminate.
    intros H; apply Ok_inj in H; rewrite <- H. reflexivity.
Qed.

Lemma dec_vals_enc f : forall l b rest, enc_elems f l = Ok b ->
  dec_vals f (length l) (b ++ rest) = map (canon_scalar f) l.
Proof.
  induction l as [|v l IH]; intros b rest H; cbn in H; [reflexivity|].
  destruct (enc_scalar f v) as [a| |] eqn:E; cbn in H; try discriminate.
  destruct (enc_elems f l) as [r| |] eqn:R; cbn in H; try discriminate.
  inversion H; subst. cbn [length dec_vals map]. pose proof (enc_scalar_len _ _ _ E) as La.
  rewrite <- app_assoc. rewrite firstn_app_le by lia. rewrite <- La, firstn_all. rewrite (dec_val_enc _ _ _ E). f_equal.
  rewrite skipn_app, skipn_all. replace (length a - length a) with 0 by lia. cbn [skipn app]. apply IH. reflexivity.
Qed.

Lemma dec_fval_enc f v b rest : enc_field f v = Ok b -> dec_fval f (b ++ rest) = canon_field f v.
Proof.
  unfold enc_field, dec_fval, canon_field. destruct (fd_isarr f).
  - destruct v as [n|s|l]; try discriminate. destruct (Nat.eqb_spec (length l) (fd_golen f)) as [E|E]; [|discriminate].
    intros H. rewrite <- E. f_equal. apply dec_vals_enc. exact H.
  - intros H. pose proof (enc_scalar_len _ _ _ H) as L. rewrite firstn_app_le by lia.
    rewrite <- L, firstn_all. apply dec_val_enc. exact H.
Qed.

Lemma dec_all_enc : forall fs v2 val e rest acc, enc_fields fs v2 val = Ok e ->
  dec_all fs v2 (e ++ rest) acc = canon_all fs v2 val acc.
Proof.
  induction fs as [|f t IH]; intros v2 val e rest acc H; cbn [enc_fields dec_all canon_all] in *; [reflexivity|].
  rewrite active_neg in H. destruct (active v2 f); cbn [negb] in H.
  - destruct (nth_error val (fd_index f)) as [fv|] eqn:Nth; [|discriminate].
    destruct (enc_field f fv) as [a| |] eqn:E; cbn in H; try discriminate.
    destruct (enc_fields t v2 val) as [r| |] eqn:R; cbn in H; try discriminate.
    inversion H; subst. rewrite <- app_assoc. rewrite (dec_fval_enc _ _ _ _ E).
    rewrite skipn_app. rewrite (enc_field_len _ _ _ E), skipn_all2 by (rewrite (enc_field_len _ _ _ E); apply Nat.le_refl).
    replace (flen f - flen f) with 0 by lia. cbn [skipn app].
    rewrite (nth_error_nth _ _ _ Nth). apply IH. exact R.
  - apply IH. exact H.
Qed.

(* decoding the encoding of any value returns it in canonical form, in both versions
   (v1: extension fields are not touched, i.e. stay zero) *)
Theorem read_write c v2 val b : codec_wf c -> msg_write c v2 val = Ok b ->
  msg_read c v2 b = Ok (canon_all (c_fields c) v2 val (zero_value c)).
Proof.
  intros W. pose proof W as [W2 W1]. unfold msg_write.
  destruct (enc_fields (c_fields c) v2 val) as [e| |] eqn:E; cbn [rbind]; try discriminate.
  pose proof (enc_fields_len _ _ _ _ E) as Le.
  assert (Hs : length e = N.to_nat (codec_size c v2)).
  { unfold codec_size. destruct v2; [rewrite W2|rewrite W1]; exact Le. }
  rewrite Hs, Nat.leb_refl. rewrite <- Hs, zpad_exact.
  destruct v2; intros H; inversion H; subst.
  - rewrite read_zeros_stripped by exact W. rewrite read_v2_is_zpad by exact W.
    unfold sz. unfold codec_size in Hs. rewrite <- Hs, zpad_exact.
    rewrite <- (app_nil_r e) at 1. rewrite (dec_all_enc _ _ _ _ _ _ E). reflexivity.
  - unfold msg_read. unfold codec_size in Hs. rewrite Hs, Nat.eqb_refl.
    rewrite dec_fields_ok by (rewrite <- Le, Hs; apply Nat.le_refl).
    rewrite <- (app_nil_r b) at 1. rewrite (dec_all_enc _ _ _ _ _ _ E). reflexivity.
Qed.

(* v2 encoder: the payload is the full encoding with trailing zeros stripped, never below one byte *)
Theorem write_v2_stripped c val b : codec_wf c -> msg_write c true val = Ok b ->
  exists full, length full = sz c /\ b = strip_zeros full /\ (0 < sz c -> 1 <= length b).
Proof.
  intros [W2 _]. unfold msg_write.
  destruct (enc_fields (c_fields c) true val) as [e| |] eqn:E; cbn [rbind]; try discriminate.
  pose proof (enc_fields_len _ _ _ _ E) as Le. unfold codec_size. rewrite W2, <- Le, Nat.leb_refl, zpad_exact.
  intros H; inversion H; subst. exists e. unfold sz. rewrite W2. split; [exact Le|]. split; [reflexivity|].
  intros P. apply strip_at_least_one. destruct e; [cbn in Le; lia|discriminate].
Qed.
