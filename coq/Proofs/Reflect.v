(* Finite-domain reflection: enumerate all n-bit numbers by binary recursion. *)
From Coq Require Import List NArith Bool Lia ZifyN ZifyNat ZifyBool.
Open Scope N_scope.

Fixpoint allbits (n : nat) (p : N -> bool) : bool :=
  match n with
  | O => p 0
  | S k => allbits k (fun v => p (2 * v)) && allbits k (fun v => p (2 * v + 1))
  end.

Lemma allbits_sound : forall n p, allbits n p = true ->
  forall v, v < 2 ^ N.of_nat n -> p v = true.
Proof.
  induction n as [|n IH]; intros p H v Hv.
  - cbn in Hv. assert (v = 0) by lia. subst. exact H.
  - cbn [allbits] in H. apply andb_prop in H. destruct H as [H0 H1].
    rewrite Nat2N.inj_succ, N.pow_succ_r' in Hv.
    pose proof (N.div_mod' v 2) as D.
    assert (M : v mod 2 = 0 \/ v mod 2 = 1) by lia.
    destruct M as [M|M]; rewrite M in D.
    + rewrite D. replace (2 * (v / 2) + 0) with (2 * (v / 2)) by lia.
      apply (IH _ H0). lia.
    + rewrite D. apply (IH _ H1). lia.
Qed.
