(* C09 / C06: frames originated by streamwriter.Writer (and frame.Writer.WriteMessage). *)
From Coq Require Import ZArith Lia ZifyN ZifyNat ZifyBool PeanoNat.
From GM Require Import Bytes Result Codec Sha256 Frame Stream Reader Writer SignProofs.

(* ---- initialisation ---- *)
Theorem init_missing_version sys comp key : writer_init 0 sys comp key = Err err_init_conf.
Proof. reflexivity. Qed.
Theorem init_zero_sysid v comp key : v <> 0 -> writer_init v 0 comp key = Err err_init_conf.
Proof. intros H. unfold writer_init. destruct (v =? 0) eqn:E; [apply N.eqb_eq in E; contradiction|reflexivity]. Qed.
Theorem init_key_needs_v2 v sys comp : v <> 2 -> writer_init v sys comp true = Err err_init_conf.
Proof.
  intros H. unfold writer_init. destruct (v =? 0); [reflexivity|]. destruct (sys <? 1); [reflexivity|].
  destruct (v =? 2) eqn:E; [apply N.eqb_eq in E; contradiction|reflexivity].
Qed.
Theorem init_component_default v sys key c : writer_init v sys 0 key = Ok c -> c = 1.
Proof.
  unfold writer_init. destruct (v =? 0); [discriminate|]. destruct (sys <? 1); [discriminate|].
  destruct (key && negb (v =? 2)); [discriminate|]. cbn. intros H; inversion H; reflexivity.
Qed.
Theorem init_ok v sys comp key c : writer_init v sys comp key = Ok c ->
  v <> 0 /\ 1 <= sys /\ (key = true -> v = 2) /\ c = (if comp <? 1 then 1 else comp).
Proof.
  unfold writer_init. destruct (v =? 0) eqn:E0; [discriminate|]. destruct (sys <? 1) eqn:E1; [discriminate|].
  destruct key; cbn [andb].
  - destruct (v =? 2) eqn:E2; cbn [negb]; [|discriminate]. intros H; inversion H. repeat split; try lia.
  - intros H; inversion H. repeat split; try lia.
Qed.

(* ---- the frame that is built ---- *)
Lemma encode_in_frame_fields d f f' : encode_in_frame d f = Ok f' ->
  f_v2 f' = f_v2 f /\ f_inc f' = f_inc f /\ f_cmp f' = f_cmp f /\ f_seq f' = f_seq f /\
  f_sys f' = f_sys f /\ f_comp f' = f_comp f /\ f_ck f' = f_ck f /\ f_link f' = f_link f /\
  f_ts f' = f_ts f /\ f_sig f' = f_sig f /\ msg_id (f_msg f') = msg_id (f_msg f) /\
  exists p, f_msg f' = MRaw (msg_id (f_msg f)) p.
Proof.
  unfold encode_in_frame. destruct (f_msg f) as [id p|id v] eqn:M.
  - intros H; inversion H; subst. rewrite M. cbn. repeat split; eauto.
  - destruct d as [dl|]; [|discriminate]. destruct (dlookup dl id); [|discriminate].
    destruct (msg_write c (f_v2 f) v) as [p| |]; cbn; try discriminate.
    intros H; inversion H; subst. cbn. repeat split; eauto.
Qed.

Definition signs (cfg : wcfg) : bool := w_v2 cfg && match w_key cfg with Some _ => true | None => false end.

(* every originated frame carries the configured identity and version, compatibility flags
   zero, the link's sequence counter, a checksum correct for the message's CRC_EXTRA, and —
   with a key — the signed flag, the link id, the clock reading and a verifying signature *)
Theorem originated_fields cfg st m now f p : stream_build cfg st m now = Ok (f, p) ->
  f_v2 f = w_v2 cfg /\ f_cmp f = 0 /\ f_seq f = w_seq st /\ f_sys f = w_sys cfg /\ f_comp f = w_comp cfg /\
  f_inc f = (if signs cfg then 1 else 0) /\
  f_msg f = MRaw (msg_id m) p /\
  (exists dl c, w_dialect cfg = Some dl /\ dlookup dl (msg_id m) = Some c /\
                f_ck f = gen_checksum f (msg_id m) p (c_crc c)) /\
  (forall k, w_key cfg = Some k -> w_v2 cfg = true ->
     f_link f = w_link cfg /\ f_ts f = u48 now /\ f_sig f = Some (gen_signature k f (msg_id m) p)) /\
  (signs cfg = false -> f_sig f = None /\ f_link f = 0 /\ f_ts f = 0).
Proof.
  unfold stream_build. destruct (w_dialect cfg) as [dl|] eqn:D; [|discriminate].
  destruct (dlookup dl (msg_id m)) as [c|] eqn:L; [|discriminate].
  match goal with |- context [encode_in_frame _ ?f0] => set (f0' := f0) end.
  destruct (encode_in_frame (Some dl) f0') as [f1| |] eqn:En; try discriminate.
  apply encode_in_frame_fields in En.
  destruct En as (E1 & E2 & E3 & E4 & E5 & E6 & E7 & E8 & E9 & E10 & E11 & pp & E12).
  unfold raw_of. rewrite E12. subst f0'. cbn [f_v2 f_inc f_cmp f_seq f_sys f_comp f_ck f_link f_ts f_sig f_msg msg_id] in *.
  unfold signs. destruct (w_key cfg) as [k|] eqn:K; destruct (w_v2 cfg) eqn:V; intros H; inversion H; subst; clear H;
    unfold set_sig, set_ck; cbn [f_v2 f_inc f_cmp f_seq f_sys f_comp f_ck f_link f_ts f_sig f_msg msg_id andb];
    (repeat split; auto;
     try (exists dl, c; repeat split; auto; unfold gen_checksum, checksum_input; cbn; rewrite ?E1, ?E2, ?E3, ?E4, ?E5, ?E6; reflexivity);
     try (intros k0 Hk Hv; try discriminate; inversion Hk; subst; repeat split; auto;
          unfold gen_signature, signature_input; cbn; rewrite ?E1, ?E2, ?E3, ?E4, ?E5, ?E6; reflexivity);
     try (intros; discriminate)).
  all: match goal with H : Some _ = Some _ |- _ => inversion H; reflexivity end.
Qed.

(* ---- sequence numbers over any history of writes ---- *)
Definition seq_byte (v2 : bool) (bs : list N) : N := nth (if v2 then 4 else 2)%nat bs 0.

Lemma Ok_inj {A} (a b : A) : Ok a = Ok b -> a = b.
Proof. intros H; inversion H; reflexivity. Qed.

Lemma marshal_seq f p bs : marshal f p = Ok bs -> seq_byte (f_v2 f) bs = f_seq f.
Proof.
  unfold marshal, seq_byte. destruct (f_v2 f).
  - cbv zeta. destruct (is_signed f).
    + destruct (f_sig f); [|discriminate]. intros H. apply Ok_inj in H. rewrite <- H. reflexivity.
    + intros H. apply Ok_inj in H. rewrite <- H. reflexivity.
  - destruct (255 <? msg_id (f_msg f)); [discriminate|]. intros H. apply Ok_inj in H. rewrite <- H. reflexivity.
Qed.

Lemma stream_write_ok cfg st m now st' bs : stream_write cfg st m now = (st', Ok bs) ->
  seq_byte (w_v2 cfg) bs = w_seq st /\ w_seq st' = u8 (w_seq st + 1).
Proof.
  unfold stream_write. destruct (stream_build cfg st m now) as [[f p]| |] eqn:B; try discriminate.
  destruct (marshal f p) as [bs'| |] eqn:M; try discriminate.
  intros H; inversion H; subst. apply originated_fields in B.
  destruct B as (V & _ & S & _). apply marshal_seq in M. rewrite V, S in M. auto.
Qed.

Lemma stream_write_rejected cfg st m now st' r : stream_write cfg st m now = (st', r) ->
  (forall bs, r <> Ok bs) -> st' = st.
Proof.
  unfold stream_write. destruct (stream_build cfg st m now) as [[f p]| |]; try (intros H; inversion H; reflexivity).
  destruct (marshal f p) as [bs'| |]; intros H N0; inversion H; subst; try reflexivity.
  exfalso. apply (N0 bs'). reflexivity.
Qed.

(* the emitted frames of any history of writes — accepted and rejected ones interleaved in any
   way — carry s, s+1, s+2, ... modulo 256, without gap or repeat *)
Theorem seq_gapless cfg : forall ops st, w_seq st < 256 ->
  map (seq_byte (w_v2 cfg)) (stream_run cfg st ops) =
  map (fun k => u8 (w_seq st + N.of_nat k)) (seq 0 (length (stream_run cfg st ops))).
Proof.
  induction ops as [|[m now] ops IH]; intros st Hs; [reflexivity|].
  cbn [stream_run]. destruct (stream_write cfg st m now) as [st' r] eqn:W.
  destruct r as [bs|e|].
  - apply stream_write_ok in W. destruct W as [Sb Sn].
    cbn [map length seq]. f_equal.
    + rewrite Sb. unfold u8. rewrite N.add_0_r. symmetry. apply N.mod_small. exact Hs.
    + rewrite IH by (rewrite Sn; unfold u8; apply N.mod_lt; discriminate).
      rewrite <- seq_shift, map_map. apply map_ext. intros k. rewrite Sn. unfold u8.
      rewrite Nat2N.inj_succ. rewrite N.add_mod_idemp_l by discriminate. f_equal. lia.
  - apply stream_write_rejected in W; [|intros bs H; discriminate]. subst st'. apply IH. exact Hs.
  - apply stream_write_rejected in W; [|intros bs H; discriminate]. subst st'. apply IH. exact Hs.
Qed.

(* v1 output refuses ids above 255: nothing is emitted and the counter does not move *)
Theorem v1_refuses_big_ids cfg st m now : w_v2 cfg = false -> 255 < msg_id m ->
  forall st' r, stream_write cfg st m now = (st', r) -> st' = st /\ forall bs, r <> Ok bs.
Proof.
  intros V Hid st' r W. unfold stream_write in W.
  destruct (stream_build cfg st m now) as [[f p]| |] eqn:B.
  - pose proof (originated_fields _ _ _ _ _ _ B) as (Vf & _ & _ & _ & _ & _ & Mf & _).
    assert (Mr : marshal f p = Err err_v1_bigid).
    { unfold marshal. rewrite Vf, V, Mf. cbn [msg_id].
      assert (L : 255 <? msg_id m = true) by (apply N.ltb_lt; exact Hid). rewrite L. reflexivity. }
    rewrite Mr in W. inversion W; subst. split; [reflexivity|]. intros bs H; discriminate.
  - inversion W; subst. split; [reflexivity|]. intros bs H; discriminate.
  - inversion W; subst. split; [reflexivity|]. intros bs H; discriminate.
Qed.

(* C06: what a keyed writer emits passes the keyed reader configured with the same key
   (whenever its timestamp is inside the reader's window) *)
Theorem writer_output_accepted cfg st m now f p k rst :
  stream_build cfg st m now = Ok (f, p) -> w_key cfg = Some k -> w_v2 cfg = true ->
  window_refuse (r_cur_ts rst) (u48 now) = false ->
  check_key k rst f = (None, mkRstate (window_update (r_cur_ts rst) (u48 now))).
Proof.
  intros B K V Wn. apply originated_fields in B.
  destruct B as (Vf & _ & _ & _ & _ & _ & Mf & _ & Sg & _).
  destruct (Sg k K V) as (_ & Ts & Sig).
  apply keyed_accept_iff. split; [rewrite Vf; exact V|].
  eexists. split; [exact Sig|]. unfold raw_of. rewrite Mf. cbn [fst snd]. rewrite Ts. auto.
Qed.
