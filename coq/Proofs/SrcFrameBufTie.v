(* Tie by translation, pkg/frame: the buffer the frame reader hands to the transport. *)
From Coq Require Import ZArith NArith List String Ascii Lia Bool Btauto.
From GM Require Import SrcPrelude.
From GM Require Import SrcFrame.
Local Open Scope Z_scope.

Theorem src_read_buffer :
  65507 <= c_frame_readBufferSize /\ c_frame_readBufferSize = a_frame_Reader_Initialize_NewReaderSize.
Proof. split; [vm_compute; discriminate|reflexivity]. Qed.
