(* C19: enum text round trip. *)
From Coq Require Import ZArith Lia ZifyN ZifyNat ZifyBool PeanoNat.
From GM Require Import Bytes Result Layout Enum SignProofs.
Ltac Zify.zify_post_hook ::= Z.div_mod_to_equations.

(* ---------- decimal rendering and parsing ---------- *)
Lemma digits_val_app : forall a d acc, digits_val (a ++ d) acc =
  match digits_val a acc with Some x => digits_val d x | None => None end.
Proof.
  induction a as [|c a IH]; intros d acc; cbn [app digits_val]; [reflexivity|].
  destruct ((48 <=? c) && (c <=? 57)); [apply IH|reflexivity].
Qed.

Lemma digit_ok n : n < 10 -> (48 <=? 48 + n) && (48 + n <=? 57) = true.
Proof. intros H. lia. Qed.

Lemma digits_of_val : forall fuel n, n < 10 ^ N.of_nat fuel -> (0 < fuel)%nat ->
  digits_val (digits_of fuel n) 0 = Some n.
Proof.
  induction fuel as [|k IH]; intros n H F; [lia|].
  cbn [digits_of]. destruct (N.ltb_spec n 10) as [L|L].
  - cbn [digits_val]. rewrite digit_ok by exact L. f_equal. lia.
  - destruct k as [|k'].
    + cbn in H. lia.
    + rewrite digits_val_app. rewrite IH.
      * cbn [digits_val]. rewrite digit_ok by (apply N.mod_lt; discriminate). f_equal.
        replace (48 + n mod 10 - 48) with (n mod 10) by lia. lia.
      * rewrite Nat2N.inj_succ, N.pow_succ_r' in H. apply N.div_lt_upper_bound; [discriminate|exact H].
      * lia.
Qed.

Lemma digits_of_nonempty fuel n : (0 < fuel)%nat -> digits_of fuel n <> [].
Proof.
  intros F. destruct fuel; [lia|]. clear F. cbn. destruct (n <? 10); [discriminate|].
  intros H. apply app_eq_nil in H. destruct H; discriminate.
Qed.

Lemma digits_first_not_sign fuel n : hd 0 (digits_of fuel n) <> 43 /\ hd 0 (digits_of fuel n) <> 45.
Proof.
  revert n. induction fuel as [|k IH]; intros n; cbn [digits_of]; [cbn [hd]; split; discriminate|].
  destruct (N.ltb_spec n 10); [cbn [hd]; lia|].
  destruct (digits_of k (n / 10)) eqn:E; cbn [app hd].
  - assert (n mod 10 < 10) by (apply N.mod_lt; discriminate). lia.
  - specialize (IH (n / 10)). rewrite E in IH. exact IH.
Qed.

Lemma utoa_val n : n < 18446744073709551616 -> digits_val (utoa n) 0 = Some n.
Proof.
  intros H. unfold utoa. apply digits_of_val; [|apply Nat.lt_0_succ].
  assert (P21 : 10 ^ N.of_nat 21 = 1000000000000000000000) by (vm_compute; reflexivity).
  rewrite P21. eapply N.lt_trans; [exact H|reflexivity].
Qed.

Lemma atoi_utoa n : n <= 9223372036854775807 -> 0 < n -> atoi (utoa n) = Some (Z.of_N n).
Proof.
  intros H P. unfold atoi, utoa.
  pose proof (digits_first_not_sign 21 n) as [N1 N2].
  pose proof (digits_of_nonempty 21 n ltac:(lia)) as NE.
  destruct (digits_of 21 n) as [|c t] eqn:E; [contradiction|]. cbn [hd] in N1, N2.
  assert (V : digits_val (c :: t) 0 = Some n) by (rewrite <- E; apply utoa_val; lia).
  destruct (N.eq_dec c 43) as [->|_]; [contradiction|]. destruct (N.eq_dec c 45) as [->|_]; [contradiction|].
  assert (M : match c :: t with 43 :: t0 => (false, t0) | 45 :: t0 => (true, t0) | _ => (false, c :: t) end = (false, c :: t)).
  { destruct c as [|p]; [reflexivity|]. do 6 (destruct p as [p|p|]; try reflexivity); try contradiction. }
  rewrite M, V. destruct (N.leb_spec n 9223372036854775807); [reflexivity|lia].
Qed.

Lemma atoi_neg_utoa n : n <= 9223372036854775808 -> 0 < n -> atoi (45 :: utoa n) = Some (- Z.of_N n)%Z.
Proof.
  intros H P. unfold atoi, utoa.
  pose proof (digits_of_nonempty 21 n ltac:(lia)) as NE.
  assert (V : digits_val (digits_of 21 n) 0 = Some n) by (apply utoa_val; lia).
  destruct (digits_of 21 n) as [|c t] eqn:E; [contradiction|]. rewrite V.
  destruct (N.leb_spec n 9223372036854775808); [reflexivity|lia].
Qed.

(* strconv.Atoi(strconv.Itoa(z)) = z on the int64 range *)
Theorem atoi_itoa z : (- 9223372036854775808 <= z <= 9223372036854775807)%Z -> atoi (itoa z) = Some z.
Proof.
  intros H. destruct z as [|p|p]; cbn [itoa].
  - reflexivity.
  - rewrite atoi_utoa by lia. reflexivity.
  - rewrite atoi_neg_utoa by lia. reflexivity.
Qed.

Lemma u64_int64 e : e < 18446744073709551616 -> u64_of_int64 (int64_of_u64 e) = e.
Proof.
  intros H. unfold u64_of_int64, int64_of_u64. destruct (N.ltb_spec e 9223372036854775808).
  - rewrite Z.mod_small by lia. lia.
  - rewrite <- (Z.mod_add _ 1) by lia. rewrite Z.mod_small by lia. lia.
Qed.
Lemma int64_range e : e < 18446744073709551616 ->
  (- 9223372036854775808 <= int64_of_u64 e <= 9223372036854775807)%Z.
Proof. intros H. unfold int64_of_u64. destruct (N.ltb_spec e 9223372036854775808); lia. Qed.

(* ---------- ordinary enums ---------- *)
(* what the generated maps must satisfy (checked on the regenerated table):
   every label maps back to its value, and no name is a numeral *)
Definition labels_consistent (en : enum) : bool :=
  forallb (fun p => match lookup_label (en_labels en) (fst p) with
                    | Some s => match lookup_value (en_values en) s with Some v => v =? fst p | None => false end
                    | None => false end) (en_labels en).
Definition names_not_numerals (en : enum) : bool :=
  forallb (fun p => match atoi (fst p) with None => true | Some _ => false end) (en_values en).

Lemma lookup_label_In l v s : lookup_label l v = Some s -> exists k, In (k, s) l /\ k = v /\ lookup_label l k = Some s.
Proof.
  induction l as [|[k s0] t IH]; cbn; [discriminate|]. destruct (N.eqb_spec k v).
  - intros H; inversion H; subst. exists v. split; [left; reflexivity|]. split; [reflexivity|]. rewrite N.eqb_refl. reflexivity.
  - intros H. destruct (IH H) as [k' [I [E L]]]. exists k'. split; [right; exact I|]. split; [exact E|].
    subst k'. destruct (N.eqb_spec k v); [contradiction|exact H].
Qed.

Lemma lookup_value_numeral l s : forallb (fun p => match atoi (fst p) with None => true | Some _ => false end) l = true ->
  (exists z, atoi s = Some z) -> lookup_value l s = None.
Proof.
  induction l as [|[k v] t IH]; intros H [z A]; [reflexivity|]. cbn in *.
  apply andb_prop in H. destruct H as [H1 H2].
  destruct (bytes_eqb k s) eqn:E.
  - apply SignProofs.list_eqb_eq in E. subst k. rewrite A in H1. discriminate.
  - apply IH; eauto.
Qed.

(* every 64-bit value survives MarshalText / UnmarshalText: a defined constant as its name,
   any other value as a (signed) decimal number *)
Theorem plain_roundtrip en e : en_bitmask en = false ->
  labels_consistent en = true -> names_not_numerals en = true ->
  e < 18446744073709551616 -> unmarshal_text en (marshal_text en e) = Some e.
Proof.
  intros B LC NN He. unfold unmarshal_text, marshal_text. rewrite B.
  destruct (lookup_label (en_labels en) e) as [s|] eqn:L.
  - unfold parse_label. destruct (lookup_label_In _ _ _ L) as [k [I [Ek Lk]]]. subst k.
    unfold labels_consistent in LC. rewrite forallb_forall in LC. specialize (LC (e, s) I). cbn [fst] in LC.
    rewrite L in LC. destruct (lookup_value (en_values en) s) as [v|]; [|discriminate].
    apply N.eqb_eq in LC. subst v. reflexivity.
  - unfold parse_label.
    rewrite (lookup_value_numeral (en_values en) (itoa (int64_of_u64 e)) NN)
      by (eexists; apply atoi_itoa; apply int64_range; exact He).
    rewrite atoi_itoa by (apply int64_range; exact He). rewrite u64_int64 by exact He. reflexivity.
Qed.

(* parsing rejects text that is neither a known name nor a number *)
Theorem parse_rejects en s : lookup_value (en_values en) s = None -> atoi s = None -> parse_label en s = None.
Proof. intros A B0. unfold parse_label. rewrite A, B0. reflexivity. Qed.
Corollary plain_rejects en s : en_bitmask en = false ->
  lookup_value (en_values en) s = None -> atoi s = None -> unmarshal_text en s = None.
Proof. intros B0 A C. unfold unmarshal_text. rewrite B0. apply parse_rejects; assumption. Qed.
