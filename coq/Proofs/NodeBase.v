(* Generic machinery for invariants of the node LTS. *)
From Coq Require Import Lia PeanoNat.
From GM Require Import Node.

Lemma nth_error_upd_same {A} : forall (l : list A) n x y, nth_error l n = Some y -> nth_error (upd l n x) n = Some x.
Proof.
  induction l as [|h t IH]; intros n x y H; destruct n; cbn in *; try discriminate.
  - reflexivity.
  - eapply IH; eauto.
Qed.
Lemma nth_error_upd_other {A} : forall (l : list A) n m x, n <> m -> nth_error (upd l n x) m = nth_error l m.
Proof.
  induction l as [|h t IH]; intros [|n] [|m] x H; cbn; auto; try lia; try (apply IH; lia).
Qed.
Lemma upd_length {A} : forall (l : list A) n x, length (upd l n x) = length l.
Proof. induction l; intros [|n] x; cbn; auto. Qed.

(* projection of the application's log on a channel *)
Definition proj (c : cid) (lg : list (cid * event)) : list event :=
  map snd (filter (fun p => Nat.eqb (fst p) c) lg).
Lemma proj_app c a b : proj c (a ++ b) = proj c a ++ proj c b.
Proof. unfold proj. rewrite filter_app, map_app. reflexivity. Qed.
Lemma proj_same c evs : proj c (map (fun e => (c, e)) evs) = evs.
Proof. unfold proj. induction evs; cbn; [reflexivity|]. rewrite Nat.eqb_refl. cbn. f_equal. exact IHevs. Qed.
Lemma proj_other c c' evs : c <> c' -> proj c' (map (fun e => (c, e)) evs) = [].
Proof.
  intros H. unfold proj. induction evs; cbn; [reflexivity|].
  destruct (Nat.eqb_spec c c'); [contradiction|exact IHevs].
Qed.

(* a run is a sequence of steps: invariants by induction *)
Lemma run_app s : forall l1 l2, run s (l1 ++ l2) = match run s l1 with Some s' => run s' l2 | None => None end.
Proof.
  intros l1. revert s. induction l1 as [|l t IH]; intros s l2; cbn; [reflexivity|].
  destruct (lstep s l); [apply IH|reflexivity].
Qed.

Theorem invariant_reachable (I : st -> Prop) :
  I init -> (forall s l s', I s -> lstep s l = Some s' -> I s') -> forall s, reachable s -> I s.
Proof.
  intros H0 Hs s [ls R]. revert s R.
  induction ls as [|l ls IH] using rev_ind; intros s R.
  - cbn in R. inversion R; subst. exact H0.
  - rewrite run_app in R. destruct (run init ls) as [s1|] eqn:R1; [|discriminate].
    cbn in R. destruct (lstep s1 l) as [s2|] eqn:L; [|discriminate]. inversion R; subst.
    eapply Hs; [apply IH; reflexivity|exact L].
Qed.

(* ---------- how a step changes the channels ---------- *)
Lemma fanout_spec : forall cs i t it skip cs' en, fanout cs i t it skip = (cs', en) ->
  length cs' = length cs /\
  forall k ch', nth_error cs' k = Some ch' ->
    exists ch, nth_error cs k = Some ch /\
      (ch' = ch \/ (ch' = ch_enq ch it /\ registered ch = true /\ length (q ch) < qcap)).
Proof.
  induction cs as [|ch rest IH]; intros i t it skip cs' en H; cbn in H.
  - inversion H; subst. split; [reflexivity|]. intros k ch' E. destruct k; discriminate.
  - destruct (fanout rest (S i) t it skip) as [rest' en'] eqn:F. destruct (IH _ _ _ _ _ _ F) as [L N].
    destruct (targets t i && enq_ok ch (existsb (Nat.eqb i) skip)) eqn:G; inversion H; subst; (split; [cbn; f_equal; exact L|]);
      intros [|k] ch' E; cbn in *; try (apply N; exact E).
    + inversion E; subst. eexists; split; [reflexivity|]. right. apply andb_prop in G. destruct G as [_ G].
      unfold enq_ok in G. apply andb_prop in G. destruct G as [G G3]. apply andb_prop in G. destruct G as [G1 G2].
      apply Nat.ltb_lt in G3. auto.
    + inversion E; subst. eexists; split; [reflexivity|auto].
Qed.

Lemma capply_enq tm ch it : registered ch = true -> length (q ch) < qcap ->
  capply tm (AEnq it) ch = Some (ch_enq ch it, []).
Proof. intros R L. cbn [capply]. rewrite R. apply Nat.ltb_lt in L. rewrite L. reflexivity. Qed.

Section ChanInvariant.
Variable P : bool -> chan -> Prop.
Hypothesis P_new : forall tm, P tm new_chan.
Hypothesis P_mono : forall ch, P false ch -> P true ch.
Hypothesis P_step : forall tm a ch ch' evs, P tm ch -> capply tm a ch = Some (ch', evs) -> P tm ch'.

Definition all_chans (s : st) : Prop := forall c ch, nth_error (chans s) c = Some ch -> P (term s) ch.

Lemma with_chan_all s c a s' : all_chans s -> with_chan s c (capply (term s) a) = Some s' ->
  all_chans s' /\ term s' = term s.
Proof.
  unfold with_chan. intros A H. destruct (nth_error (chans s) c) as [ch|] eqn:N; [|discriminate].
  destruct (capply (term s) a ch) as [[ch' evs]|] eqn:C; [|discriminate]. inversion H; subst; clear H.
  split; [|reflexivity]. intros k x Hk. cbn in *.
  destruct (Nat.eq_dec c k) as [->|Ne].
  - rewrite (nth_error_upd_same _ _ _ _ N) in Hk. inversion Hk; subst. eapply P_step; [apply (A k ch N)|exact C].
  - rewrite nth_error_upd_other in Hk by exact Ne. apply (A k x Hk).
Qed.

Lemma step_all s l s' : all_chans s -> lstep s l = Some s' -> all_chans s'.
Proof.
  intros A H. destruct l; cbn in H.
  - inversion H; subst. exact A.
  - destruct (term s) eqn:T; [discriminate|]. inversion H; subst. intros c ch N. cbn in *. apply P_mono.
    specialize (A c ch N). rewrite T in A. exact A.
  - destruct (provs_closed s); [discriminate|]. inversion H; subst. intros c ch N. cbn in *.
    destruct (Nat.lt_ge_cases c (length (chans s))) as [Lt|Ge].
    + rewrite nth_error_app1 in N by exact Lt. apply (A c ch N).
    + rewrite nth_error_app2 in N by exact Ge. destruct (c - length (chans s)) as [|k]; cbn in N; [|destruct k; discriminate].
      inversion N; subst. apply P_new.
  - destruct (loop s); try discriminate. destruct (existsb (Nat.eqb c) (handoff s)); [|discriminate].
    destruct (with_chan s c (capply (term s) AStart)) as [s1|] eqn:W; [|discriminate].
    destruct (with_chan_all _ _ _ _ A W) as [A1 T1]. inversion H; subst. exact A1.
  - destruct (existsb (Nat.eqb c) (handoff s)); [|discriminate].
    destruct (with_chan s c (capply (term s) AProvTerm)) as [s1|] eqn:W; [|discriminate].
    destruct (with_chan_all _ _ _ _ A W) as [A1 T1]. inversion H; subst. exact A1.
  - destruct (loop s); try discriminate.
    match type of H with (if ?b then _ else _) = _ => destruct b end; [|discriminate].
    destruct (fanout (chans s) 0 t it skip) as [cs' en] eqn:F. inversion H; subst. clear H.
    destruct (fanout_spec _ _ _ _ _ _ _ F) as [_ N]. intros c ch' Hc. cbn in *.
    destruct (N c ch' Hc) as [ch [Hch [E|(E & Rg & Lq)]]]; subst ch'; [apply (A c ch Hch)|].
    eapply (P_step (term s) (AEnq it)); [apply (A c ch Hch)|apply capply_enq; assumption].
  - destruct (term s); inversion H; subst. exact A.
  - destruct (loop s); try discriminate. destruct (term s) eqn:T; [|discriminate]. inversion H; subst.
    intros c ch N. cbn in *. specialize (A c ch N). rewrite T in A. exact A.
  - destruct (loop s); try discriminate. inversion H; subst. intros c ch' N. cbn in *.
    rewrite nth_error_map in N. destruct (nth_error (chans s) c) as [ch|] eqn:Hc; [|discriminate]. cbn in N.
    inversion N; subst. destruct (registered ch); [|apply (A c ch Hc)].
    eapply (P_step (term s) ACtxd); [apply (A c ch Hc)|reflexivity].
  - destruct (loop s); try discriminate. destruct (_ && _); [|discriminate]. inversion H; subst. exact A.
  - destruct (loop s); try discriminate. inversion H; subst. exact A.
  - destruct (chan_label_ok s a); [|discriminate]. apply (with_chan_all _ _ _ _ A H).
Qed.

Theorem chan_invariant s : reachable s -> all_chans s.
Proof.
  apply invariant_reachable.
  - intros c ch N. destruct c; discriminate.
  - intros s0 l s' A H. eapply step_all; eauto.
Qed.
End ChanInvariant.

(* ---------- the application's log, per channel, is that channel's delivered list ---------- *)
Lemma capply_delivered tm a ch ch' evs : capply tm a ch = Some (ch', evs) -> delivered ch' = delivered ch ++ evs.
Proof.
  destruct a; cbn [capply]; intros H;
  repeat match type of H with
  | (if ?b then _ else _) = _ => destruct b
  | (match ?x with _ => _ end) = _ => destruct x
  | (let '(_, _) := ?x in _) = _ => destruct x
  end; try discriminate; inversion H; subst; cbn; rewrite ?app_nil_r; try reflexivity;
  try (match goal with |- context [start_ev _ ?o] => destruct o end; cbn; rewrite ?app_nil_r; reflexivity).
Qed.

Definition log_ok (s : st) : Prop :=
  (forall c ch, nth_error (chans s) c = Some ch -> proj c (log s) = delivered ch) /\
  (forall c e, In (c, e) (log s) -> c < length (chans s)).

Lemma with_chan_log s c f s' : (forall ch ch' evs, f ch = Some (ch', evs) -> delivered ch' = delivered ch ++ evs) ->
  log_ok s -> with_chan s c f = Some s' -> log_ok s'.
Proof.
  unfold with_chan. intros Hf [L B] H. destruct (nth_error (chans s) c) as [ch|] eqn:N; [|discriminate].
  destruct (f ch) as [[ch' evs]|] eqn:C; [|discriminate]. inversion H; subst; clear H. unfold log_ok. cbn [log chans]. split.
  - intros k x Hk. rewrite proj_app. destruct (Nat.eq_dec c k) as [->|Ne].
    + rewrite (nth_error_upd_same _ _ _ _ N) in Hk. inversion Hk; subst. rewrite proj_same, (L k ch N). symmetry. eapply Hf; eauto.
    + rewrite nth_error_upd_other in Hk by exact Ne. rewrite proj_other by exact Ne. rewrite app_nil_r. apply (L k x Hk).
  - intros k e I. rewrite upd_length. apply in_app_or in I. destruct I as [I|I]; [apply (B k e I)|].
    apply in_map_iff in I. destruct I as [e' [E _]]. inversion E; subst. apply nth_error_Some. rewrite N. discriminate.
Qed.

Lemma proj_nil_above s c : (forall k e, In (k, e) (log s) -> k < length (chans s)) -> length (chans s) <= c -> proj c (log s) = [].
Proof.
  intros B Ge. unfold proj. assert (F : filter (fun p => Nat.eqb (fst p) c) (log s) = []).
  { revert B. generalize (log s). intros lg. induction lg as [|[k e] t IH]; intros B; [reflexivity|]. cbn. destruct (Nat.eqb_spec k c).
    - subst. specialize (B c e (or_introl eq_refl)). lia.
    - apply IH. intros k' e' I. apply (B k' e'). right. exact I. }
  rewrite F. reflexivity.
Qed.

Theorem log_projection s : reachable s -> log_ok s.
Proof.
  apply invariant_reachable.
  - split; [intros c ch N; destruct c; discriminate|intros c e []].
  - intros s0 l s' [L B] H. destruct l; cbn in H.
    + inversion H; subst. split; assumption.
    + destruct (term s0); [discriminate|]. inversion H; subst. split; assumption.
    + destruct (provs_closed s0); [discriminate|]. inversion H; subst. unfold log_ok. cbn [log chans]. split.
      * intros c ch N. destruct (Nat.lt_ge_cases c (length (chans s0))) as [Lt|Ge].
        -- rewrite nth_error_app1 in N by exact Lt. apply (L c ch N).
        -- rewrite nth_error_app2 in N by exact Ge. destruct (c - length (chans s0)) as [|k]; cbn in N; [|destruct k; discriminate].
           inversion N; subst. cbn. apply (proj_nil_above s0 c B Ge).
      * intros c e I. rewrite app_length. cbn. specialize (B c e I). lia.
    + destruct (loop s0); try discriminate. destruct (existsb (Nat.eqb c) (handoff s0)); [|discriminate].
      destruct (with_chan s0 c (capply (term s0) AStart)) as [s1|] eqn:W; [|discriminate].
      pose proof (with_chan_log _ _ _ _ (capply_delivered _ _) (conj L B) W) as [L1 B1]. inversion H; subst. split; assumption.
    + destruct (existsb (Nat.eqb c) (handoff s0)); [|discriminate].
      destruct (with_chan s0 c (capply (term s0) AProvTerm)) as [s1|] eqn:W; [|discriminate].
      pose proof (with_chan_log _ _ _ _ (capply_delivered _ _) (conj L B) W) as [L1 B1]. inversion H; subst. split; assumption.
    + destruct (loop s0); try discriminate.
      match type of H with (if ?b then _ else _) = _ => destruct b end; [|discriminate].
      destruct (fanout (chans s0) 0 t it skip) as [cs' en] eqn:F. inversion H; subst. clear H.
      destruct (fanout_spec _ _ _ _ _ _ _ F) as [Len N]. unfold log_ok. cbn [log chans]. split.
      * intros c ch' Hc. destruct (N c ch' Hc) as [ch [Hch [E|(E & _)]]]; subst ch'; rewrite (L c ch Hch); reflexivity.
      * intros c e I. rewrite Len. apply (B c e I).
    + destruct (term s0); inversion H; subst. split; assumption.
    + destruct (loop s0); try discriminate. destruct (term s0); [|discriminate]. inversion H; subst. split; assumption.
    + destruct (loop s0); try discriminate. inversion H; subst. unfold log_ok. cbn [log chans]. split.
      * intros c ch' N. rewrite nth_error_map in N. destruct (nth_error (chans s0) c) as [ch|] eqn:Hc; [|discriminate].
        cbn in N. inversion N; subst. rewrite (L c ch Hc). destruct (registered ch); reflexivity.
      * intros c e I. rewrite map_length. apply (B c e I).
    + destruct (loop s0); try discriminate. destruct (_ && _); [|discriminate]. inversion H; subst. split; assumption.
    + destruct (loop s0); try discriminate. inversion H; subst. split; assumption.
    + destruct (chan_label_ok s0 a); [|discriminate].
      apply (with_chan_log _ _ _ _ (capply_delivered _ _) (conj L B) H).
Qed.

(* induction over runs with the reachability of the source state at hand *)
Theorem invariant_reachable' (I : st -> Prop) :
  I init -> (forall s l s', reachable s -> I s -> lstep s l = Some s' -> I s') -> forall s, reachable s -> I s.
Proof.
  intros H0 Hs s [ls R]. revert s R.
  induction ls as [|l ls IH] using rev_ind; intros s R.
  - cbn in R. inversion R; subst. exact H0.
  - rewrite run_app in R. destruct (run init ls) as [s1|] eqn:R1; [|discriminate].
    cbn in R. destruct (lstep s1 l) as [s2|] eqn:L; [|discriminate]. inversion R; subst.
    eapply Hs; [exists ls; exact R1|apply IH; reflexivity|exact L].
Qed.
