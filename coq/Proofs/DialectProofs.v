(* C17: dialect initialisation and lookup, generic part. *)
From Coq Require Import Lia.
From GM Require Import Bytes Result Codec Layout Reader Dialect.

Lemma dlookup_In d : forall id c, dlookup d id = Some c -> In (id, c) d.
Proof.
  induction d as [|[i c0] d IH]; intros id c H; [discriminate|]. cbn in H.
  destruct (i =? id) eqn:E; [apply N.eqb_eq in E; inversion H; subst; left; reflexivity|right; auto].
Qed.

Definition ids (d : dialect) : list N := map fst d.

Lemma dlookup_none d id : dlookup d id = None <-> ~ In id (ids d).
Proof.
  induction d as [|[i c0] d IH]; cbn; [tauto|].
  destruct (i =? id) eqn:E.
  - apply N.eqb_eq in E. split; [discriminate|]. intros H. exfalso. apply H. left. exact E.
  - apply N.eqb_neq in E. rewrite IH. tauto.
Qed.

(* invariant of the accumulation: what is in the map is exactly the processed prefix *)
Lemma init_aux_spec : forall msgs acc d, dialect_init_aux msgs acc = Ok d ->
  NoDup (ids acc) ->
  NoDup (ids d) /\
  (forall id c, In (id, c) d <-> In (id, c) acc \/ exists g, In (id, g) msgs /\ initialize g = Ok c) /\
  (forall id g, In (id, g) msgs -> ~ In id (ids acc) /\ exists c, initialize g = Ok c) /\
  NoDup (map fst msgs).
Proof.
  induction msgs as [|[id g] t IH]; intros acc d H ND.
  - cbn in H. inversion H; subst. repeat split; auto; try (intros; contradiction); try constructor.
    + intros [H0|[g [[] _]]]. exact H0.
  - cbn [dialect_init_aux] in H. destruct (dlookup acc id) eqn:L; [discriminate|].
    apply dlookup_none in L. destruct (initialize g) as [c| |] eqn:I; try discriminate.
    apply IH in H; [|cbn; constructor; assumption].
    destruct H as (ND' & Hin & Hmsgs & NDm). split; [exact ND'|]. split; [|split].
    + intros id0 c0. rewrite Hin. cbn [In]. split.
      * intros [[E|A]|[g0 [G I0]]]; [inversion E; subst; right; exists g; auto|left; exact A|right; exists g0; auto].
      * intros [A|[g0 [[E|G] I0]]]; [left; right; exact A|inversion E; subst; left; left; f_equal; congruence|right; exists g0; auto].
    + intros id0 g0 [E|G].
      * inversion E; subst. split; [exact L|eauto].
      * destruct (Hmsgs id0 g0 G) as [NI Ex]. split; [|exact Ex]. intros X. apply NI. cbn. right. exact X.
    + cbn. constructor; [|exact NDm]. intros X. apply in_map_iff in X. destruct X as [[i0 g0] [E G]]. cbn in E. subst i0.
      destruct (Hmsgs id g0 G) as [NI _]. apply NI. cbn. left. reflexivity.
Qed.

(* an initialised dialect: ids unique, every struct initialised, and for EVERY id the lookup
   returns the codec of the message with that id and nothing for absent ids *)
Theorem dialect_init_ok msgs d : dialect_init msgs = Ok d ->
  NoDup (map fst msgs) /\
  (forall id g, In (id, g) msgs -> exists c, initialize g = Ok c) /\
  (forall id c, dlookup d id = Some c -> exists g, In (id, g) msgs /\ initialize g = Ok c) /\
  (forall id g c, In (id, g) msgs -> initialize g = Ok c -> dlookup d id = Some c) /\
  (forall id, ~ In id (map fst msgs) -> dlookup d id = None).
Proof.
  unfold dialect_init. intros H. apply init_aux_spec in H; [|constructor].
  destruct H as (ND & Hin & Hmsgs & NDm). split; [exact NDm|]. split; [|split; [|split]].
  - intros id g G. apply (Hmsgs id g G).
  - intros id c L. apply dlookup_In in L. apply Hin in L. destruct L as [[]|L]. exact L.
  - intros id g c G I.
    assert (A : In (id, c) d) by (apply Hin; right; eauto).
    destruct (dlookup d id) as [c'|] eqn:L.
    + apply dlookup_In in L. f_equal.
      (* unique ids in d *)
      clear - ND A L. induction d as [|[i c0] d IH]; [contradiction|].
      cbn in ND. inversion ND; subst. destruct A as [A|A]; destruct L as [L|L].
      * congruence.
      * inversion A; subst. exfalso. apply H1. apply in_map_iff. exists (id, c'). auto.
      * inversion L; subst. exfalso. apply H1. apply in_map_iff. exists (id, c). auto.
      * auto.
    + apply dlookup_none in L. exfalso. apply L. apply in_map_iff. exists (id, c). auto.
  - intros id NI. apply dlookup_none. intros X. apply in_map_iff in X. destruct X as [[i c] [E X]]. cbn in E. subst i.
    apply Hin in X. destruct X as [[]|[g [G _]]]. apply NI. apply in_map_iff. exists (id, g). auto.
Qed.

(* rejected at initialisation, not at first use *)
Corollary duplicate_id_rejected msgs : ~ NoDup (map fst msgs) -> forall d, dialect_init msgs <> Ok d.
Proof. intros H d I. apply dialect_init_ok in I. tauto. Qed.

Corollary malformed_struct_rejected msgs id g : In (id, g) msgs -> (forall c, initialize g <> Ok c) ->
  forall d, dialect_init msgs <> Ok d.
Proof.
  intros G B d I. apply dialect_init_ok in I. destruct I as (_ & A & _).
  destruct (A id g G) as [c C]. exact (B c C).
Qed.
