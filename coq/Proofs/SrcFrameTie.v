(* Tie by translation, pkg/frame and pkg/streamwriter: markers, offsets, the 24/48-bit helpers,
   the signed flag, the signature clock and window, as regenerated from /repo on every run. *)
From Coq Require Import ZArith NArith List String Ascii Lia Bool Btauto.
From GM Require Import SrcPrelude.
From GM Require Import SrcFrame SrcStreamwriter Bytes Frame Reader Writer.
Import ListNotations.
Local Open Scope N_scope.

Lemma wrap8_u8 x : wrap 8 x = u8 x.
Proof. reflexivity. Qed.

(* ---------------- v2_frame.go: 24- and 48-bit little-endian helpers, IsSigned ---------------- *)
Lemma wrap_small w x : x < 2 ^ w -> wrap w x = x.
Proof. intros H. unfold wrap. apply N.mod_small. exact H. Qed.

Lemma shl_lt b k n : b < 256 -> 8 + k <= n -> N.shiftl b k < 2 ^ n.
Proof.
  intros Hb Hk. rewrite N.shiftl_mul_pow2.
  apply N.lt_le_trans with (2 ^ 8 * 2 ^ k).
  - apply N.mul_lt_mono_pos_r; [apply N.neq_0_lt_0; apply N.pow_nonzero; discriminate|exact Hb].
  - rewrite <- N.pow_add_r. apply N.pow_le_mono_r; [discriminate|exact Hk].
Qed.

Ltac lor_trees := apply N.bits_inj; intros n; rewrite !N.lor_spec; btauto.

Theorem src_uint24_decode a b c : a < 256 -> b < 256 -> c < 256 ->
  src_frame_uint24Decode [a; b; c] = le_dec [a; b; c].
Proof.
  intros Ha Hb Hc. unfold src_frame_uint24Decode. cbn [nth le_dec].
  rewrite !wrap_small by (apply shl_lt; [assumption|discriminate]).
  rewrite N.shiftl_0_l, N.lor_0_r. rewrite !N.shiftl_lor, !N.shiftl_shiftl.
  change (8 + 8) with 16. lor_trees.
Qed.

Theorem src_uint48_decode a b c d e f : a < 256 -> b < 256 -> c < 256 -> d < 256 -> e < 256 -> f < 256 ->
  src_frame_uint48Decode [a; b; c; d; e; f] = le_dec [a; b; c; d; e; f].
Proof.
  intros Ha Hb Hc Hd He Hf. unfold src_frame_uint48Decode. cbn [nth le_dec].
  rewrite !wrap_small by (apply shl_lt; [assumption|discriminate]).
  rewrite N.shiftl_0_l, N.lor_0_r. rewrite !N.shiftl_lor, !N.shiftl_shiftl.
  change (8 + 8) with 16. change (8 + 16) with 24. change (8 + 24) with 32. change (8 + 32) with 40.
  lor_trees.
Qed.

Theorem src_uint24_encode x0 x1 x2 rest v :
  src_frame_uint24Encode (x0 :: x1 :: x2 :: rest) v = (le_enc 3 v ++ rest)%list.
Proof. unfold src_frame_uint24Encode. cbn [set_nth le_enc app]. rewrite !wrap8_u8, N.shiftr_shiftr. reflexivity. Qed.

Theorem src_uint48_encode x0 x1 x2 x3 x4 x5 rest v :
  src_frame_uint48Encode (x0 :: x1 :: x2 :: x3 :: x4 :: x5 :: rest) v = (le_enc 6 v ++ rest)%list.
Proof. unfold src_frame_uint48Encode. cbn [set_nth le_enc app]. rewrite !wrap8_u8, !N.shiftr_shiftr. reflexivity. Qed.

Theorem src_is_signed f : src_frame_V2Frame_IsSigned (f_inc f) = is_signed f.
Proof. reflexivity. Qed.


Local Open Scope Z_scope.

(* markers, the signed flag, header offsets; the marshal buffer holds the longest frame (10 + 255 + 2 + 13), the read buffer the longest UDP datagram (65507 bytes) *)
Theorem src_frame_layout :
  c_frame_V1MagicByte = 254 /\ c_frame_V2MagicByte = 253 /\ c_frame_V2FlagSigned = 1 /\
  280 <= c_frame_bufferSize /\ 65507 <= c_frame_readBufferSize /\
   c_frame_readBufferSize = a_frame_Reader_Initialize_NewReaderSize /\
  k_frame_V1Frame_marshalTo = [255; 0; 0; 254; 1; 2; 3; 4; 5; 6; 0; 2] /\
  k_frame_V2Frame_marshalTo = [0; 253; 1; 2; 3; 4; 5; 6; 7; 10; 0; 2; 6] /\
  d_frame_Writer_Initialize_OutComponentID = 1 /\ d_streamwriter_Writer_Initialize_ComponentID = 1.
Proof. repeat split; try reflexivity; vm_compute; discriminate. Qed.

(* signature time: 10 microsecond ticks since 1st January 2015; the one-minute window of the reader *)
Theorem src_frame_signing :
  v_frame_signatureReferenceDate_args = [2015; 1; 1; 0; 0; 0; 0] /\
  v_streamwriter_signatureReferenceDate_args = [2015; 1; 1; 0; 0; 0; 0] /\
  k_frame_Writer_writeFrameAndFill = [0; 0; 1; 10000] /\ k_streamwriter_Writer_writeInner = [0; 0; 1; 10000] /\
  k_frame_Reader_Read = [254; 253; 0; Z.of_N window].
Proof. repeat split; reflexivity. Qed.

(* a whole UDP datagram (at most 65507 bytes of payload over IPv4) fits into the buffer the frame
   reader hands to the transport: no part of a datagram is cut off by the size of the read *)
Theorem src_read_buffer :
  65507 <= c_frame_readBufferSize /\ c_frame_readBufferSize = a_frame_Reader_Initialize_NewReaderSize.
Proof. split; [vm_compute; discriminate|reflexivity]. Qed.
