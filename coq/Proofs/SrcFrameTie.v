(* Tie by translation, pkg/frame and pkg/streamwriter: markers, flags and offsets, and marshalTo of
   both frame versions, as regenerated from /repo on every run. *)
From Coq Require Import ZArith NArith List String Ascii Lia Bool Btauto.
From GM Require Import SrcPrelude.
From GM Require Import SrcFrame SrcStreamwriter Bytes Result Frame SrcFrameLemmas.
Import ListNotations.
Local Open Scope N_scope.

(* ---------------- marshalTo of both frame versions ----------------
   The translations store into a buffer; the models return the bytes.  For every frame and payload,
   in a buffer long enough, the translated function leaves exactly the model's bytes at the front of
   the buffer, the rest of the buffer untouched, and returns their number; a v1 frame with an id above
   255 is refused without touching the buffer. *)
Local Open Scope list_scope.

Theorem src_v1_marshal : forall f p buf, f_v2 f = false -> (8 + length p <= length buf)%nat ->
  src_frame_V1Frame_marshalTo (f_seq f) (f_sys f) (f_comp f) (f_ck f) (msg_id (f_msg f)) buf p =
  match marshal f p with
  | Ok bs => (nlen bs, false, (bs ++ skipn (length bs) buf)%list)
  | _ => (0, true, buf)
  end.
Proof.
  intros f p buf V2 L. unfold src_frame_V1Frame_marshalTo, marshal. rewrite V2.
  destruct (255 <? msg_id (f_msg f)) eqn:Big; [reflexivity|].
  destruct buf as [|h0 [|h1 [|h2 [|h3 [|h4 [|h5 rest]]]]]]; cbn [length] in L; try lia.
  cbn [SrcPrelude.set_nth].
  set (hdr := [254; wrap 8 (N.of_nat (length p)); f_seq f; f_sys f; f_comp f; wrap 8 (msg_id (f_msg f))]).
  change (254 :: wrap 8 (N.of_nat (length p)) :: f_seq f :: f_sys f :: f_comp f :: wrap 8 (msg_id (f_msg f)) :: rest)
    with (hdr ++ rest).
  assert (E : (if 0 <? N.of_nat (length p)
               then let '(buf, copied_) := copy_at (hdr ++ rest) (N.to_nat 6) p in (6 + copied_, buf)
               else (6, hdr ++ rest)) = (6 + nlen p, hdr ++ p ++ skipn (length p) rest)).
  { change (N.to_nat 6) with (length hdr). rewrite copy_at_app by lia.
    destruct p as [|b p']; [reflexivity|].
    replace (0 <? N.of_nat (length (b :: p'))) with true by (symmetry; apply N.ltb_lt; cbn [length]; lia).
    reflexivity. }
  rewrite E. clear E.
  replace (N.to_nat (6 + nlen p)) with (length (hdr ++ p)) by (rewrite app_length; unfold nlen; cbn [length hdr]; lia).
  rewrite app_assoc. rewrite on_suffix_app. rewrite put_le_spec by (rewrite skipn_length; lia).
  rewrite skipn_add.
  subst hdr. rewrite !wrap8_u8. fold (nlen p).
  f_equal; [f_equal|].
  - unfold nlen. rewrite !app_length. cbn [length le_enc]. lia.
  - rewrite <- !app_assoc. cbn [app length skipn]. rewrite app_length. cbn [le_enc length].
    reflexivity.
Qed.

Theorem src_v2_marshal : forall f p buf s, f_v2 f = true -> (25 + length p <= length buf)%nat ->
  (is_signed f = true -> f_sig f = Some s /\ length s = 6%nat) ->
  src_frame_V2Frame_marshalTo (f_inc f) (f_cmp f) (f_seq f) (f_sys f) (f_comp f) (f_ck f) (f_link f) (f_ts f) s
    (msg_id (f_msg f)) buf p =
  match marshal f p with
  | Ok bs => (nlen bs, false, bs ++ skipn (length bs) buf)
  | _ => (0, true, buf)
  end.
Proof.
  intros f p buf s V2 L SG. unfold src_frame_V2Frame_marshalTo, marshal. rewrite V2.
  destruct buf as [|h0 [|h1 [|h2 [|h3 [|h4 [|h5 [|h6 rest]]]]]]]; cbn [length] in L; try lia.
  cbn [SrcPrelude.set_nth].
  set (hdr7 := [253; wrap 8 (N.of_nat (length p)); f_inc f; f_cmp f; f_seq f; f_sys f; f_comp f]).
  change (253 :: wrap 8 (N.of_nat (length p)) :: f_inc f :: f_cmp f :: f_seq f :: f_sys f :: f_comp f :: rest)
    with (hdr7 ++ rest).
  change 7%nat with (length hdr7). rewrite on_suffix_app. rewrite uint24_gen by lia.
  set (hdr := hdr7 ++ le_enc 3 (msg_id (f_msg f))).
  rewrite (app_assoc hdr7). fold hdr.
  assert (LH : length hdr = 10%nat) by reflexivity.
  assert (E : (if 0 <? N.of_nat (length p)
               then let '(buf, copied_) := copy_at (hdr ++ skipn 3 rest) (N.to_nat 10) p in (10 + copied_, buf)
               else (10, hdr ++ skipn 3 rest)) = (10 + nlen p, hdr ++ p ++ skipn (length p) (skipn 3 rest))).
  { change (N.to_nat 10) with (length hdr). rewrite copy_at_app by (rewrite skipn_length; lia).
    destruct p as [|b p']; [reflexivity|].
    replace (0 <? N.of_nat (length (b :: p'))) with true by (symmetry; apply N.ltb_lt; cbn [length]; lia).
    reflexivity. }
  rewrite E. clear E.
  replace (N.to_nat (10 + nlen p)) with (length (hdr ++ p)) by (rewrite app_length, LH; unfold nlen; lia).
  rewrite app_assoc. rewrite on_suffix_app. rewrite put_le_spec by (rewrite !skipn_length; lia).
  rewrite !skipn_add.
  change (src_frame_V2Frame_IsSigned (f_inc f)) with (is_signed f).
  subst hdr hdr7. rewrite !wrap8_u8. fold (nlen p).
  set (A := (([253; u8 (nlen p); f_inc f; f_cmp f; f_seq f; f_sys f; f_comp f] ++ le_enc 3 (msg_id (f_msg f))) ++ p) ++
            le_enc 2 (f_ck f)).
  assert (LA : length A = (12 + length p)%nat).
  { unfold A. rewrite !app_length. cbn [length le_enc]. lia. }
  assert (EA : [253; u8 (nlen p); f_inc f; f_cmp f; f_seq f; f_sys f; f_comp f] ++
               le_enc 3 (msg_id (f_msg f)) ++ p ++ le_enc 2 (f_ck f) = A).
  { unfold A. rewrite <- !app_assoc. reflexivity. }
  rewrite EA. rewrite (app_assoc _ (le_enc 2 (f_ck f))). fold A.
  assert (SK : forall m, skipn (7 + m) (h0 :: h1 :: h2 :: h3 :: h4 :: h5 :: h6 :: rest) = skipn m rest) by reflexivity.
  destruct (is_signed f) eqn:Sg.
  - destruct (SG eq_refl) as [Es Ls]. rewrite Es.
    remember (skipn (3 + (length p + 2)) rest) as tail eqn:Et.
    assert (LT : (13 <= length tail)%nat) by (rewrite Et, skipn_length; lia).
    destruct tail as [|x t]; [cbn in LT; lia|]. cbn [length] in LT.
    replace (N.to_nat (10 + nlen p + 2)) with (length A) by (rewrite LA; unfold nlen; lia).
    rewrite set_nth_app.
    replace (N.to_nat (10 + nlen p + 2 + 1)) with (length (A ++ [f_link f])) by (rewrite app_length, LA; unfold nlen; cbn [length]; lia).
    change (A ++ f_link f :: t) with (A ++ [f_link f] ++ t). rewrite (app_assoc A). rewrite on_suffix_app.
    rewrite uint48_gen by lia.
    replace (N.to_nat (10 + nlen p + 2 + 1 + 6)) with (length ((A ++ [f_link f]) ++ le_enc 6 (f_ts f)))
      by (rewrite !app_length, LA; unfold nlen; cbn [length le_enc]; lia).
    rewrite (app_assoc (A ++ [f_link f])). rewrite copy_at_app by (rewrite skipn_length; lia).
    f_equal; [f_equal|].
    + unfold nlen. rewrite !app_length, LA, Ls. cbn [length le_enc]. lia.
    + rewrite <- !app_assoc. do 4 f_equal.
      replace (length (A ++ [f_link f] ++ le_enc 6 (f_ts f) ++ s)) with (7 + (3 + (length p + 2) + 13))%nat
        by (rewrite !app_length, LA, Ls; cbn [length le_enc]; lia).
      rewrite SK. rewrite Ls. rewrite skipn_add.
      rewrite <- (skipn_add 13 (3 + (length p + 2)) rest). rewrite <- Et. reflexivity.
  - f_equal; [f_equal|].
    + unfold nlen. rewrite LA. lia.
    + f_equal. replace (length A) with (7 + (3 + (length p + 2)))%nat by (rewrite LA; lia).
      rewrite SK. reflexivity.
Qed.


Local Open Scope Z_scope.

(* markers, the signed flag; the marshal buffer holds the longest frame (10 + 255 + 2 + 13), the read buffer the longest UDP datagram (65507 bytes) *)
Theorem src_frame_layout :
  c_frame_V1MagicByte = 254 /\ c_frame_V2MagicByte = 253 /\ c_frame_V2FlagSigned = 1 /\
  280 <= c_frame_bufferSize /\ 65507 <= c_frame_readBufferSize /\
   c_frame_readBufferSize = a_frame_Reader_Initialize_NewReaderSize /\
  d_frame_Writer_Initialize_OutComponentID = 1 /\ d_streamwriter_Writer_Initialize_ComponentID = 1.
Proof. repeat split; try reflexivity; vm_compute; discriminate. Qed.

(* signature time: 10 microsecond ticks since 1st January 2015; the one-minute window of the reader *)