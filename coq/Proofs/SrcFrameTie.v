(* Tie by translation, pkg/frame and pkg/streamwriter: markers, offsets, the 24/48-bit helpers,
   the signed flag, the signature clock and window, as regenerated from /repo on every run. *)
From Coq Require Import ZArith NArith List String Ascii Lia Bool Btauto.
From GM Require Import SrcPrelude.
From GM Require Import SrcFrame SrcStreamwriter Bytes Result Frame Reader Writer.
Import ListNotations.
Local Open Scope N_scope.

Lemma wrap8_u8 x : wrap 8 x = u8 x.
Proof. reflexivity. Qed.

(* ---------------- v2_frame.go: 24- and 48-bit little-endian helpers, IsSigned ---------------- *)
Lemma wrap_small w x : x < 2 ^ w -> wrap w x = x.
Proof. intros H. unfold wrap. apply N.mod_small. exact H. Qed.

Lemma shl_lt b k n : b < 256 -> 8 + k <= n -> N.shiftl b k < 2 ^ n.
Proof.
  intros Hb Hk. rewrite N.shiftl_mul_pow2.
  apply N.lt_le_trans with (2 ^ 8 * 2 ^ k).
  - apply N.mul_lt_mono_pos_r; [apply N.neq_0_lt_0; apply N.pow_nonzero; discriminate|exact Hb].
  - rewrite <- N.pow_add_r. apply N.pow_le_mono_r; [discriminate|exact Hk].
Qed.

Ltac lor_trees := apply N.bits_inj; intros n; rewrite !N.lor_spec; btauto.

Theorem src_uint24_decode a b c : a < 256 -> b < 256 -> c < 256 ->
  src_frame_uint24Decode [a; b; c] = le_dec [a; b; c].
Proof.
  intros Ha Hb Hc. unfold src_frame_uint24Decode. cbn [nth le_dec].
  rewrite !wrap_small by (apply shl_lt; [assumption|discriminate]).
  rewrite N.shiftl_0_l, N.lor_0_r. rewrite !N.shiftl_lor, !N.shiftl_shiftl.
  change (8 + 8) with 16. lor_trees.
Qed.

Theorem src_uint48_decode a b c d e f : a < 256 -> b < 256 -> c < 256 -> d < 256 -> e < 256 -> f < 256 ->
  src_frame_uint48Decode [a; b; c; d; e; f] = le_dec [a; b; c; d; e; f].
Proof.
  intros Ha Hb Hc Hd He Hf. unfold src_frame_uint48Decode. cbn [nth le_dec].
  rewrite !wrap_small by (apply shl_lt; [assumption|discriminate]).
  rewrite N.shiftl_0_l, N.lor_0_r. rewrite !N.shiftl_lor, !N.shiftl_shiftl.
  change (8 + 8) with 16. change (8 + 16) with 24. change (8 + 24) with 32. change (8 + 32) with 40.
  lor_trees.
Qed.

Theorem src_uint24_encode x0 x1 x2 rest v :
  src_frame_uint24Encode (x0 :: x1 :: x2 :: rest) v = (le_enc 3 v ++ rest)%list.
Proof. unfold src_frame_uint24Encode. cbn [set_nth le_enc app]. rewrite !wrap8_u8, N.shiftr_shiftr. reflexivity. Qed.

Theorem src_uint48_encode x0 x1 x2 x3 x4 x5 rest v :
  src_frame_uint48Encode (x0 :: x1 :: x2 :: x3 :: x4 :: x5 :: rest) v = (le_enc 6 v ++ rest)%list.
Proof. unfold src_frame_uint48Encode. cbn [set_nth le_enc app]. rewrite !wrap8_u8, !N.shiftr_shiftr. reflexivity. Qed.

Theorem src_is_signed f : src_frame_V2Frame_IsSigned (f_inc f) = is_signed f.
Proof. reflexivity. Qed.


(* ---------------- marshalTo of both frame versions ----------------
   The translations store into a buffer; the models return the bytes.  For every frame and payload,
   in a buffer long enough, the translated function leaves exactly the model's bytes at the front of
   the buffer, the rest of the buffer untouched, and returns their number; a v1 frame with an id above
   255 is refused without touching the buffer. *)
Local Open Scope list_scope.

Lemma put_le_spec : forall k l v, (k <= length l)%nat -> put_le l k v = (le_enc k v ++ skipn k l)%list.
Proof.
  induction k as [|k IH]; intros l v H; [destruct l; reflexivity|].
  destruct l as [|x t]; [cbn in H; lia|]. cbn [put_le le_enc skipn app].
  rewrite IH by (cbn in H; lia). rewrite N.shiftr_div_pow2. reflexivity.
Qed.

Lemma overwrite_fits : forall src dst, (length src <= length dst)%nat ->
  overwrite dst src = (src ++ skipn (length src) dst)%list.
Proof.
  induction src as [|s r IH]; intros dst H; [destruct dst; reflexivity|].
  destruct dst as [|d t]; [cbn in H; lia|]. cbn. f_equal. apply IH. cbn in H. lia.
Qed.

Lemma on_suffix_app a b g : on_suffix (a ++ b) (length a) g = (a ++ g b)%list.
Proof. unfold on_suffix. rewrite firstn_app, firstn_all, Nat.sub_diag, skipn_app, skipn_all, Nat.sub_diag. cbn. rewrite app_nil_r. reflexivity. Qed.

Lemma set_nth_app : forall a x t v, SrcPrelude.set_nth (a ++ x :: t) (length a) v = (a ++ v :: t)%list.
Proof. induction a as [|y a IH]; intros; cbn; [reflexivity|]. f_equal. apply IH. Qed.

Lemma copy_at_app a b src : (length src <= length b)%nat ->
  copy_at (a ++ b) (length a) src = ((a ++ src ++ skipn (length src) b)%list, nlen src).
Proof.
  intros H. unfold copy_at. rewrite on_suffix_app, overwrite_fits by exact H. f_equal.
  unfold nlen. f_equal. rewrite app_length. lia.
Qed.

Lemma skipn_add {A} : forall a b (l : list A), skipn a (skipn b l) = skipn (b + a) l.
Proof. intros a b. induction b as [|b IH]; intros l; [reflexivity|]. destruct l; [destruct a; reflexivity|]. cbn. apply IH. Qed.

Theorem src_v1_marshal : forall f p buf, f_v2 f = false -> (8 + length p <= length buf)%nat ->
  src_frame_V1Frame_marshalTo (f_seq f) (f_sys f) (f_comp f) (f_ck f) (msg_id (f_msg f)) buf p =
  match marshal f p with
  | Ok bs => (nlen bs, false, (bs ++ skipn (length bs) buf)%list)
  | _ => (0, true, buf)
  end.
Proof.
  intros f p buf V2 L. unfold src_frame_V1Frame_marshalTo, marshal. rewrite V2.
  destruct (255 <? msg_id (f_msg f)) eqn:Big; [reflexivity|].
  destruct buf as [|h0 [|h1 [|h2 [|h3 [|h4 [|h5 rest]]]]]]; cbn [length] in L; try lia.
  cbn [SrcPrelude.set_nth].
  set (hdr := [254; wrap 8 (N.of_nat (length p)); f_seq f; f_sys f; f_comp f; wrap 8 (msg_id (f_msg f))]).
  change (254 :: wrap 8 (N.of_nat (length p)) :: f_seq f :: f_sys f :: f_comp f :: wrap 8 (msg_id (f_msg f)) :: rest)
    with (hdr ++ rest).
  assert (E : (if 0 <? N.of_nat (length p)
               then let '(buf, copied_) := copy_at (hdr ++ rest) (N.to_nat 6) p in (6 + copied_, buf)
               else (6, hdr ++ rest)) = (6 + nlen p, hdr ++ p ++ skipn (length p) rest)).
  { change (N.to_nat 6) with (length hdr). rewrite copy_at_app by lia.
    destruct p as [|b p']; [reflexivity|].
    replace (0 <? N.of_nat (length (b :: p'))) with true by (symmetry; apply N.ltb_lt; cbn [length]; lia).
    reflexivity. }
  rewrite E. clear E.
  replace (N.to_nat (6 + nlen p)) with (length (hdr ++ p)) by (rewrite app_length; unfold nlen; cbn [length hdr]; lia).
  rewrite app_assoc. rewrite on_suffix_app. rewrite put_le_spec by (rewrite skipn_length; lia).
  rewrite skipn_add.
  subst hdr. rewrite !wrap8_u8. fold (nlen p).
  f_equal; [f_equal|].
  - unfold nlen. rewrite !app_length. cbn [length le_enc]. lia.
  - rewrite <- !app_assoc. cbn [app length skipn]. rewrite app_length. cbn [le_enc length].
    reflexivity.
Qed.

Lemma uint24_gen l v : (3 <= length l)%nat -> src_frame_uint24Encode l v = le_enc 3 v ++ skipn 3 l.
Proof.
  intros H. destruct l as [|x0 [|x1 [|x2 r]]]; cbn [length] in H; try lia. apply src_uint24_encode.
Qed.
Lemma uint48_gen l v : (6 <= length l)%nat -> src_frame_uint48Encode l v = le_enc 6 v ++ skipn 6 l.
Proof.
  intros H. destruct l as [|x0 [|x1 [|x2 [|x3 [|x4 [|x5 r]]]]]]; cbn [length] in H; try lia. apply src_uint48_encode.
Qed.

Theorem src_v2_marshal : forall f p buf s, f_v2 f = true -> (25 + length p <= length buf)%nat ->
  (is_signed f = true -> f_sig f = Some s /\ length s = 6%nat) ->
  src_frame_V2Frame_marshalTo (f_inc f) (f_cmp f) (f_seq f) (f_sys f) (f_comp f) (f_ck f) (f_link f) (f_ts f) s
    (msg_id (f_msg f)) buf p =
  match marshal f p with
  | Ok bs => (nlen bs, false, bs ++ skipn (length bs) buf)
  | _ => (0, true, buf)
  end.
Proof.
  intros f p buf s V2 L SG. unfold src_frame_V2Frame_marshalTo, marshal. rewrite V2.
  destruct buf as [|h0 [|h1 [|h2 [|h3 [|h4 [|h5 [|h6 rest]]]]]]]; cbn [length] in L; try lia.
  cbn [SrcPrelude.set_nth].
  set (hdr7 := [253; wrap 8 (N.of_nat (length p)); f_inc f; f_cmp f; f_seq f; f_sys f; f_comp f]).
  change (253 :: wrap 8 (N.of_nat (length p)) :: f_inc f :: f_cmp f :: f_seq f :: f_sys f :: f_comp f :: rest)
    with (hdr7 ++ rest).
  change 7%nat with (length hdr7). rewrite on_suffix_app. rewrite uint24_gen by lia.
  set (hdr := hdr7 ++ le_enc 3 (msg_id (f_msg f))).
  rewrite (app_assoc hdr7). fold hdr.
  assert (LH : length hdr = 10%nat) by reflexivity.
  assert (E : (if 0 <? N.of_nat (length p)
               then let '(buf, copied_) := copy_at (hdr ++ skipn 3 rest) (N.to_nat 10) p in (10 + copied_, buf)
               else (10, hdr ++ skipn 3 rest)) = (10 + nlen p, hdr ++ p ++ skipn (length p) (skipn 3 rest))).
  { change (N.to_nat 10) with (length hdr). rewrite copy_at_app by (rewrite skipn_length; lia).
    destruct p as [|b p']; [reflexivity|].
    replace (0 <? N.of_nat (length (b :: p'))) with true by (symmetry; apply N.ltb_lt; cbn [length]; lia).
    reflexivity. }
  rewrite E. clear E.
  replace (N.to_nat (10 + nlen p)) with (length (hdr ++ p)) by (rewrite app_length, LH; unfold nlen; lia).
  rewrite app_assoc. rewrite on_suffix_app. rewrite put_le_spec by (rewrite !skipn_length; lia).
  rewrite !skipn_add.
  change (src_frame_V2Frame_IsSigned (f_inc f)) with (is_signed f).
  subst hdr hdr7. rewrite !wrap8_u8. fold (nlen p).
  set (A := (([253; u8 (nlen p); f_inc f; f_cmp f; f_seq f; f_sys f; f_comp f] ++ le_enc 3 (msg_id (f_msg f))) ++ p) ++
            le_enc 2 (f_ck f)).
  assert (LA : length A = (12 + length p)%nat).
  { unfold A. rewrite !app_length. cbn [length le_enc]. lia. }
  assert (EA : [253; u8 (nlen p); f_inc f; f_cmp f; f_seq f; f_sys f; f_comp f] ++
               le_enc 3 (msg_id (f_msg f)) ++ p ++ le_enc 2 (f_ck f) = A).
  { unfold A. rewrite <- !app_assoc. reflexivity. }
  rewrite EA. rewrite (app_assoc _ (le_enc 2 (f_ck f))). fold A.
  assert (SK : forall m, skipn (7 + m) (h0 :: h1 :: h2 :: h3 :: h4 :: h5 :: h6 :: rest) = skipn m rest) by reflexivity.
  destruct (is_signed f) eqn:Sg.
  - destruct (SG eq_refl) as [Es Ls]. rewrite Es.
    remember (skipn (3 + (length p + 2)) rest) as tail eqn:Et.
    assert (LT : (13 <= length tail)%nat) by (rewrite Et, skipn_length; lia).
    destruct tail as [|x t]; [cbn in LT; lia|]. cbn [length] in LT.
    replace (N.to_nat (10 + nlen p + 2)) with (length A) by (rewrite LA; unfold nlen; lia).
    rewrite set_nth_app.
    replace (N.to_nat (10 + nlen p + 2 + 1)) with (length (A ++ [f_link f])) by (rewrite app_length, LA; unfold nlen; cbn [length]; lia).
    change (A ++ f_link f :: t) with (A ++ [f_link f] ++ t). rewrite (app_assoc A). rewrite on_suffix_app.
    rewrite uint48_gen by lia.
    replace (N.to_nat (10 + nlen p + 2 + 1 + 6)) with (length ((A ++ [f_link f]) ++ le_enc 6 (f_ts f)))
      by (rewrite !app_length, LA; unfold nlen; cbn [length le_enc]; lia).
    rewrite (app_assoc (A ++ [f_link f])). rewrite copy_at_app by (rewrite skipn_length; lia).
    f_equal; [f_equal|].
    + unfold nlen. rewrite !app_length, LA, Ls. cbn [length le_enc]. lia.
    + rewrite <- !app_assoc. do 4 f_equal.
      replace (length (A ++ [f_link f] ++ le_enc 6 (f_ts f) ++ s)) with (7 + (3 + (length p + 2) + 13))%nat
        by (rewrite !app_length, LA, Ls; cbn [length le_enc]; lia).
      rewrite SK. rewrite Ls. rewrite skipn_add.
      rewrite <- (skipn_add 13 (3 + (length p + 2)) rest). rewrite <- Et. reflexivity.
  - f_equal; [f_equal|].
    + unfold nlen. rewrite LA. lia.
    + f_equal. replace (length A) with (7 + (3 + (length p + 2)))%nat by (rewrite LA; lia).
      rewrite SK. reflexivity.
Qed.


Local Open Scope Z_scope.

(* markers, the signed flag, header offsets; the marshal buffer holds the longest frame (10 + 255 + 2 + 13), the read buffer the longest UDP datagram (65507 bytes) *)
Theorem src_frame_layout :
  c_frame_V1MagicByte = 254 /\ c_frame_V2MagicByte = 253 /\ c_frame_V2FlagSigned = 1 /\
  280 <= c_frame_bufferSize /\ 65507 <= c_frame_readBufferSize /\
   c_frame_readBufferSize = a_frame_Reader_Initialize_NewReaderSize /\
  k_frame_V1Frame_marshalTo = [255; 0; 0; 254; 1; 2; 3; 4; 5; 6; 0; 2] /\
  k_frame_V2Frame_marshalTo = [0; 253; 1; 2; 3; 4; 5; 6; 7; 10; 0; 2; 6] /\
  d_frame_Writer_Initialize_OutComponentID = 1 /\ d_streamwriter_Writer_Initialize_ComponentID = 1.
Proof. repeat split; try reflexivity; vm_compute; discriminate. Qed.

(* signature time: 10 microsecond ticks since 1st January 2015; the one-minute window of the reader *)
Theorem src_frame_signing :
  v_frame_signatureReferenceDate_args = [2015; 1; 1; 0; 0; 0; 0] /\
  v_streamwriter_signatureReferenceDate_args = [2015; 1; 1; 0; 0; 0; 0] /\
  k_frame_Writer_writeFrameAndFill = [0; 0; 1; 10000] /\ k_streamwriter_Writer_writeInner = [0; 0; 1; 10000] /\
  k_frame_Reader_Read = [254; 253; 0; Z.of_N window].
Proof. repeat split; reflexivity. Qed.

(* a whole UDP datagram (at most 65507 bytes of payload over IPv4) fits into the buffer the frame
   reader hands to the transport: no part of a datagram is cut off by the size of the read *)
Theorem src_read_buffer :
  65507 <= c_frame_readBufferSize /\ c_frame_readBufferSize = a_frame_Reader_Initialize_NewReaderSize.
Proof. split; [vm_compute; discriminate|reflexivity]. Qed.
