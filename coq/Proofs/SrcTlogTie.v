(* Tie by translation, pkg/tlog: the numerals of the entry header (8-byte big-endian microseconds). *)
From Coq Require Import ZArith NArith List String Ascii Lia Bool Btauto.
From GM Require Import SrcPrelude.
From GM Require Import SrcTlog.
Import ListNotations.
Local Open Scope Z_scope.

Theorem src_tlog_numerals :
  k_tlog_Writer_Write = [56; 48; 40; 32; 24; 16; 8] /\
  k_tlog_Reader_Read = [8; 0; 56; 1; 48; 2; 40; 3; 32; 4; 24; 5; 16; 6; 8; 7; 1000000; 1000000; 1000].
Proof. repeat split; reflexivity. Qed.
