(* C03 / C17 on the regenerated table of all shipped message definitions. *)
From GM Require Import Tables LayoutSpec Dialects.

Definition all_gostructs : list gostruct := map to_gostruct structs.

(* witness search used by bin/check when the obligation below fails *)
Definition find_bad_struct (l : list gstruct) : list (string * string) :=
  map (fun g => (gs_pkg g, gs_tname g)) (filter (fun g => negb (struct_follows_spec (to_gostruct g))) l).

Theorem all_shipped_follow_spec : forallb struct_follows_spec all_gostructs = true.
Proof. vm_compute. reflexivity. Qed.
