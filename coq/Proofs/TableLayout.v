(* C03 / C17 on the regenerated table of all shipped message definitions. *)
From GM Require Import Tables LayoutSpec Dialects.

Definition all_gostructs : list gostruct := map to_gostruct structs.

(* witness search used by bin/check when the obligation below fails *)
Definition find_bad_struct (l : list gstruct) : list (string * string) :=
  map (fun g => (gs_pkg g, gs_tname g)) (filter (fun g => negb (struct_follows_spec (to_gostruct g))) l).

Theorem all_shipped_follow_spec : forallb struct_follows_spec all_gostructs = true.
Proof. vm_compute. reflexivity. Qed.

(* every shipped codec is well-formed in the sense of CodecProofs (sizes did not wrap), so the
   C04 theorems apply to every shipped message type *)
From GM Require Import CodecProofs.
Definition codec_wf_b (c : codec) : bool :=
  Nat.eqb (N.to_nat (c_size_ext c)) (total_len true (c_fields c)) &&
  Nat.eqb (N.to_nat (c_size_normal c)) (total_len false (c_fields c)).
Lemma codec_wf_b_sound c : codec_wf_b c = true -> codec_wf c.
Proof.
  unfold codec_wf_b, codec_wf. intros H. apply andb_prop in H. destruct H as [A B].
  apply PeanoNat.Nat.eqb_eq in A. apply PeanoNat.Nat.eqb_eq in B. auto.
Qed.
Definition struct_codec_wf (g : gostruct) : bool :=
  match initialize g with Ok c => codec_wf_b c | _ => false end.
Theorem all_shipped_codecs_wf : forallb struct_codec_wf all_gostructs = true.
Proof. vm_cast_no_check (eq_refl true). Qed.

(* ---- the stronger well-formedness used by C08 (CodecIdem, ForwardProofs) ---- *)
From GM Require Import CodecIdem.
Fixpoint nodupb (l : list nat) : bool :=
  match l with [] => true | x :: t => negb (existsb (Nat.eqb x) t) && nodupb t end.
Lemma nodupb_sound l : nodupb l = true -> NoDup l.
Proof.
  induction l as [|x t IH]; intros H; [constructor|]. cbn in H. apply andb_prop in H. destruct H as [A B0].
  constructor; [|auto]. intros X. assert (existsb (Nat.eqb x) t = true).
  { apply existsb_exists. exists x. split; [exact X|apply PeanoNat.Nat.eqb_refl]. }
  rewrite H in A. discriminate.
Qed.
Definition codec_full_b (c : codec) : bool :=
  codec_wf_b c && nodupb (map fd_index (c_fields c)) &&
  forallb (fun f => Nat.ltb (fd_index f) (c_nfields c)) (c_fields c) &&
  (c_size_ext c <=? 255)%N && (c_size_normal c <=? 255)%N && (c_crc c <? 256)%N.
Lemma codec_full_b_sound c : codec_full_b c = true ->
  codec_wf2 c /\ (N.to_nat (c_size_ext c) <= 255)%nat /\ (N.to_nat (c_size_normal c) <= 255)%nat /\ (c_crc c < 256)%N.
Proof.
  unfold codec_full_b. intros H. repeat (apply andb_prop in H; let X := fresh "X" in destruct H as [H X]).
  split; [split; [apply codec_wf_b_sound; unfold codec_wf_b; rewrite H, X4; reflexivity|split; [apply nodupb_sound; assumption|]]|].
  - apply Forall_forall. intros f Hf. rewrite forallb_forall in X2. apply PeanoNat.Nat.ltb_lt. apply X2. exact Hf.
  - apply N.leb_le in X1. apply N.leb_le in X0. apply N.ltb_lt in X. repeat split; try Lia.lia; exact X.
Qed.
Definition struct_codec_full (g : gostruct) : bool :=
  match initialize g with Ok c => codec_full_b c | _ => false end.
Theorem all_shipped_codecs_full : forallb struct_codec_full all_gostructs = true.
Proof. vm_cast_no_check (eq_refl true). Qed.
