(* C03 / C17 on the regenerated table of all shipped message definitions. *)
From GM Require Import Tables LayoutSpec Dialects.

Definition all_gostructs : list gostruct := map to_gostruct structs.

(* witness search used by bin/check when the obligation below fails *)
Definition find_bad_struct (l : list gstruct) : list (string * string) :=
  map (fun g => (gs_pkg g, gs_tname g)) (filter (fun g => negb (struct_follows_spec (to_gostruct g))) l).

Theorem all_shipped_follow_spec : forallb struct_follows_spec all_gostructs = true.
Proof. vm_compute. reflexivity. Qed.

(* every shipped codec is well-formed in the sense of CodecProofs (sizes did not wrap), so the
   C04 theorems apply to every shipped message type *)
From GM Require Import CodecProofs.
Definition codec_wf_b (c : codec) : bool :=
  Nat.eqb (N.to_nat (c_size_ext c)) (total_len true (c_fields c)) &&
  Nat.eqb (N.to_nat (c_size_normal c)) (total_len false (c_fields c)).
Lemma codec_wf_b_sound c : codec_wf_b c = true -> codec_wf c.
Proof.
  unfold codec_wf_b, codec_wf. intros H. apply andb_prop in H. destruct H as [A B].
  apply PeanoNat.Nat.eqb_eq in A. apply PeanoNat.Nat.eqb_eq in B. auto.
Qed.
Definition struct_codec_wf (g : gostruct) : bool :=
  match initialize g with Ok c => codec_wf_b c | _ => false end.
Theorem all_shipped_codecs_wf : forallb struct_codec_wf all_gostructs = true.
Proof. vm_cast_no_check (eq_refl true). Qed.
