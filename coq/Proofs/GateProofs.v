(* The checksum gate of Reader.Read (C02). *)
From Coq Require Import Lia.
From GM Require Import Result Crc X25 CrcProofs Codec Frame Stream Reader.

Lemma checksum_is_spec f id p extra :
  bytes_ok (checksum_input f id p extra) = true ->
  gen_checksum f id p extra = mcrf4xx (checksum_input f id p extra).
Proof. intros H. unfold gen_checksum. apply x25_sum_is_mcrf4xx. exact H. Qed.

Lemma gate_sound d f0 f id p c :
  check_dialect d f0 = RFrame f -> raw_of f0 = (id, p) -> dlookup d id = Some c ->
  gen_checksum f0 id p (c_crc c) = f_ck f0 /\
  exists v, msg_read c (f_v2 f0) p = Ok v /\ f_msg f = MDec id v.
Proof.
  unfold check_dialect. intros H R L. rewrite R, L in H.
  destruct (gen_checksum f0 id p (c_crc c) =? f_ck f0) eqn:E; cbn [negb] in H; [|discriminate].
  apply N.eqb_eq in E. split; [exact E|].
  destruct (msg_read c (f_v2 f0) p) as [v| |]; try discriminate.
  exists v. split; [reflexivity|].
  destruct (msg_write c (f_v2 f0) v) as [p'| |]; try discriminate.
  destruct (bytes_eqb p' p); inversion H; reflexivity.
Qed.

Lemma gate_reject d f0 id p c :
  raw_of f0 = (id, p) -> dlookup d id = Some c ->
  gen_checksum f0 id p (c_crc c) <> f_ck f0 ->
  check_dialect d f0 = RParse pe_checksum.
Proof.
  unfold check_dialect. intros R L NE. rewrite R, L.
  destruct (gen_checksum f0 id p (c_crc c) =? f_ck f0) eqn:E; [apply N.eqb_eq in E; contradiction|reflexivity].
Qed.

Lemma gate_complete d f0 id p c v p' :
  raw_of f0 = (id, p) -> dlookup d id = Some c ->
  gen_checksum f0 id p (c_crc c) = f_ck f0 -> msg_read c (f_v2 f0) p = Ok v ->
  msg_write c (f_v2 f0) v = Ok p' ->
  exists f, check_dialect d f0 = RFrame f /\ f_msg f = MDec id v /\
            f_seq f = f_seq f0 /\ f_sys f = f_sys f0 /\ f_comp f = f_comp f0.
Proof.
  unfold check_dialect. intros R L E M Wr. rewrite R, L, M, Wr.
  apply N.eqb_eq in E. rewrite E. cbn [negb].
  destruct (bytes_eqb p' p); eexists; (split; [reflexivity|cbn; auto]).
Qed.

Lemma gate_passthrough d f0 id p :
  raw_of f0 = (id, p) -> dlookup d id = None -> check_dialect d f0 = RFrame f0.
Proof. unfold check_dialect. intros R L. rewrite R, L. reflexivity. Qed.

(* Every frame a dialect-configured reader returns went through the gate. *)
Lemma reader_frame_from_gate cfg st s f st' s' d :
  reader_read cfg st s = (RFrame f, st', s') -> r_dialect cfg = Some d ->
  exists f0, check_dialect d f0 = RFrame f.
Proof.
  unfold reader_read, g_reader_read. intros H D. rewrite D in H.
  destruct (read_byte s) as [[magic|e|] s1]; try discriminate.
  destruct (magic =? 254).
  - destruct (g_unmarshal_v1 stream peek_discard read_full s1) as [[f0|e|] s2]; try discriminate.
    destruct (match r_inkey cfg with Some k => check_key k st f0 | None => (None, st) end) as [kerr st2].
    destruct kerr; [discriminate|]. inversion H. eauto.
  - destruct (magic =? 253); [|discriminate].
    destruct (g_unmarshal_v2 stream peek_discard read_full s1) as [[f0|e|] s2]; try discriminate.
    destruct (match r_inkey cfg with Some k => check_key k st f0 | None => (None, st) end) as [kerr st2].
    destruct kerr; [discriminate|]. inversion H. eauto.
Qed.
