(* Tie by translation, pkg/frame: facts about the translated helper functions of v2_frame.go and the
   list lemmas the ties of marshalTo, GenerateChecksum and GenerateSignature share. *)
From Coq Require Import ZArith NArith List String Ascii Lia Bool Btauto.
From GM Require Import SrcPrelude.
From GM Require Import SrcFrame Bytes Result Frame.
Import ListNotations.
Local Open Scope N_scope.

Lemma wrap8_u8 x : wrap 8 x = u8 x.
Proof. reflexivity. Qed.

(* ---------------- v2_frame.go: 24- and 48-bit little-endian helpers, IsSigned ---------------- *)
Lemma wrap_small w x : x < 2 ^ w -> wrap w x = x.
Proof. intros H. unfold wrap. apply N.mod_small. exact H. Qed.

Lemma shl_lt b k n : b < 256 -> 8 + k <= n -> N.shiftl b k < 2 ^ n.
Proof.
  intros Hb Hk. rewrite N.shiftl_mul_pow2.
  apply N.lt_le_trans with (2 ^ 8 * 2 ^ k).
  - apply N.mul_lt_mono_pos_r; [apply N.neq_0_lt_0; apply N.pow_nonzero; discriminate|exact Hb].
  - rewrite <- N.pow_add_r. apply N.pow_le_mono_r; [discriminate|exact Hk].
Qed.

Ltac lor_trees := apply N.bits_inj; intros n; rewrite !N.lor_spec; btauto.

Theorem src_uint24_decode a b c : a < 256 -> b < 256 -> c < 256 ->
  src_frame_uint24Decode [a; b; c] = le_dec [a; b; c].
Proof.
  intros Ha Hb Hc. unfold src_frame_uint24Decode. cbn [nth le_dec].
  rewrite !wrap_small by (apply shl_lt; [assumption|discriminate]).
  rewrite N.shiftl_0_l, N.lor_0_r. rewrite !N.shiftl_lor, !N.shiftl_shiftl.
  change (8 + 8) with 16. lor_trees.
Qed.

Theorem src_uint48_decode a b c d e f : a < 256 -> b < 256 -> c < 256 -> d < 256 -> e < 256 -> f < 256 ->
  src_frame_uint48Decode [a; b; c; d; e; f] = le_dec [a; b; c; d; e; f].
Proof.
  intros Ha Hb Hc Hd He Hf. unfold src_frame_uint48Decode. cbn [nth le_dec].
  rewrite !wrap_small by (apply shl_lt; [assumption|discriminate]).
  rewrite N.shiftl_0_l, N.lor_0_r. rewrite !N.shiftl_lor, !N.shiftl_shiftl.
  change (8 + 8) with 16. change (8 + 16) with 24. change (8 + 24) with 32. change (8 + 32) with 40.
  lor_trees.
Qed.

Theorem src_uint24_encode x0 x1 x2 rest v :
  src_frame_uint24Encode (x0 :: x1 :: x2 :: rest) v = (le_enc 3 v ++ rest)%list.
Proof. unfold src_frame_uint24Encode. cbn [set_nth le_enc app]. rewrite !wrap8_u8, N.shiftr_shiftr. reflexivity. Qed.

Theorem src_uint48_encode x0 x1 x2 x3 x4 x5 rest v :
  src_frame_uint48Encode (x0 :: x1 :: x2 :: x3 :: x4 :: x5 :: rest) v = (le_enc 6 v ++ rest)%list.
Proof. unfold src_frame_uint48Encode. cbn [set_nth le_enc app]. rewrite !wrap8_u8, !N.shiftr_shiftr. reflexivity. Qed.

Theorem src_is_signed f : src_frame_V2Frame_IsSigned (f_inc f) = is_signed f.
Proof. reflexivity. Qed.


Local Open Scope list_scope.

Lemma put_le_spec : forall k l v, (k <= length l)%nat -> put_le l k v = (le_enc k v ++ skipn k l)%list.
Proof.
  induction k as [|k IH]; intros l v H; [destruct l; reflexivity|].
  destruct l as [|x t]; [cbn in H; lia|]. cbn [put_le le_enc skipn app].
  rewrite IH by (cbn in H; lia). rewrite N.shiftr_div_pow2. reflexivity.
Qed.

Lemma overwrite_fits : forall src dst, (length src <= length dst)%nat ->
  overwrite dst src = (src ++ skipn (length src) dst)%list.
Proof.
  induction src as [|s r IH]; intros dst H; [destruct dst; reflexivity|].
  destruct dst as [|d t]; [cbn in H; lia|]. cbn. f_equal. apply IH. cbn in H. lia.
Qed.

Lemma on_suffix_app a b g : on_suffix (a ++ b) (length a) g = (a ++ g b)%list.
Proof. unfold on_suffix. rewrite firstn_app, firstn_all, Nat.sub_diag, skipn_app, skipn_all, Nat.sub_diag. cbn. rewrite app_nil_r. reflexivity. Qed.

Lemma set_nth_app : forall a x t v, SrcPrelude.set_nth (a ++ x :: t) (length a) v = (a ++ v :: t)%list.
Proof. induction a as [|y a IH]; intros; cbn; [reflexivity|]. f_equal. apply IH. Qed.

Lemma copy_at_app a b src : (length src <= length b)%nat ->
  copy_at (a ++ b) (length a) src = ((a ++ src ++ skipn (length src) b)%list, nlen src).
Proof.
  intros H. unfold copy_at. rewrite on_suffix_app, overwrite_fits by exact H. f_equal.
  unfold nlen. f_equal. rewrite app_length. lia.
Qed.

Lemma skipn_add {A} : forall a b (l : list A), skipn a (skipn b l) = skipn (b + a) l.
Proof. intros a b. induction b as [|b IH]; intros l; [reflexivity|]. destruct l; [destruct a; reflexivity|]. cbn. apply IH. Qed.

Lemma uint24_gen l v : (3 <= length l)%nat -> src_frame_uint24Encode l v = le_enc 3 v ++ skipn 3 l.
Proof.
  intros H. destruct l as [|x0 [|x1 [|x2 r]]]; cbn [length] in H; try lia. apply src_uint24_encode.
Qed.
Lemma uint48_gen l v : (6 <= length l)%nat -> src_frame_uint48Encode l v = le_enc 6 v ++ skipn 6 l.
Proof.
  intros H. destruct l as [|x0 [|x1 [|x2 [|x3 [|x4 [|x5 r]]]]]]; cbn [length] in H; try lia. apply src_uint48_encode.
Qed.
