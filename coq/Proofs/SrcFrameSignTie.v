(* Tie by translation, pkg/frame and pkg/streamwriter: the signature clock, the reader's window and
   GenerateSignature, as regenerated from /repo on every run. *)
From Coq Require Import ZArith NArith List String Ascii Lia Bool Btauto.
From GM Require Import SrcPrelude.
From GM Require Import SrcFrame SrcStreamwriter Bytes Result Sha256 Frame Reader Writer SrcFrameLemmas.
Import ListNotations.
Local Open Scope Z_scope.

Theorem src_frame_signing :
  v_frame_signatureReferenceDate_args = [2015; 1; 1; 0; 0; 0; 0] /\
  v_streamwriter_signatureReferenceDate_args = [2015; 1; 1; 0; 0; 0; 0] /\
  k_frame_Writer_writeFrameAndFill = [0; 0; 1; 10000] /\ k_streamwriter_Writer_writeInner = [0; 0; 1; 10000] /\
  k_frame_Reader_Read = [254; 253; 0; Z.of_N window].
Proof. repeat split; reflexivity. Qed.

(* a whole UDP datagram (at most 65507 bytes of payload over IPv4) fits into the buffer the frame
   reader hands to the transport: no part of a datagram is cut off by the size of the read *)
Local Open Scope N_scope.
Local Open Scope list_scope.

(* SHA-256 yields 32 bytes *)
Lemma round_len st kw : length st = 8%nat -> length (round st kw) = 8%nat.
Proof.
  intros H. destruct st as [|a [|b [|c [|d [|e [|f0 [|g [|h [|x t]]]]]]]]]; cbn in H; try discriminate.
  destruct kw. reflexivity.
Qed.
Lemma rounds_len : forall l st, length st = 8%nat -> length (fold_left round l st) = 8%nat.
Proof. induction l as [|kw l IH]; intros st H; [exact H|]. cbn. apply IH. apply round_len. exact H. Qed.
Lemma compress_len h b : length h = 8%nat -> length (compress h b) = 8%nat.
Proof. intros H. unfold compress. rewrite map_length, combine_length, rounds_len by exact H. rewrite H. reflexivity. Qed.
Lemma blocks_len : forall fuel h ws, length h = 8%nat -> length (blocks fuel h ws) = 8%nat.
Proof.
  induction fuel as [|k IH]; intros h ws H; [exact H|]. cbn [blocks]. destruct ws; [exact H|].
  apply IH. apply compress_len. exact H.
Qed.
Lemma concat_words_len : forall l, length (concat (map word_bytes l)) = (4 * length l)%nat.
Proof. induction l as [|w l IH]; [reflexivity|]. cbn [map concat]. rewrite app_length, IH. unfold word_bytes. rewrite rev_length. cbn. lia. Qed.
Lemma sha256_length m : length (sha256 m) = 32%nat.
Proof. unfold sha256. rewrite concat_words_len, blocks_len by reflexivity. reflexivity. Qed.

Theorem src_v2_signature f key id p :
  src_frame_V2Frame_GenerateSignature (f_inc f) (f_cmp f) (f_seq f) (f_sys f) (f_comp f) (f_ck f) (f_link f) (f_ts f)
    key p id = gen_signature key f id p.
Proof.
  unfold src_frame_V2Frame_GenerateSignature, gen_signature, signature_input.
  assert (OS : forall l g, on_suffix l 0 g = g l) by reflexivity.
  rewrite !OS.
  change (repeat 0 6) with [0; 0; 0; 0; 0; 0].
  rewrite src_uint24_encode.
  rewrite put_le_spec by (rewrite app_length; cbn; lia).
  rewrite uint48_gen by (rewrite !app_length, skipn_length, app_length; cbn; lia).
  assert (F3 : firstn 3 (le_enc 3 id ++ [0; 0; 0]) = le_enc 3 id) by reflexivity.
  assert (F2 : firstn 2 (le_enc 2 (f_ck f) ++ skipn 2 (le_enc 3 id ++ [0; 0; 0])) = le_enc 2 (f_ck f)) by reflexivity.
  assert (S6 : skipn 6 (le_enc 2 (f_ck f) ++ skipn 2 (le_enc 3 id ++ [0; 0; 0])) = []) by reflexivity.
  rewrite F3, F2, S6, app_nil_r. rewrite wrap8_u8. fold (nlen p).
  set (inp := ((((((((((((([] ++ key) ++ [253]) ++ [u8 (nlen p)]) ++ [f_inc f]) ++ [f_cmp f]) ++ [f_seq f]) ++ [f_sys f]) ++
                   [f_comp f]) ++ le_enc 3 id) ++ p) ++ le_enc 2 (f_ck f)) ++ [f_link f]) ++ le_enc 6 (f_ts f))).
  assert (EI : inp = key ++ [253; u8 (nlen p); f_inc f; f_cmp f; f_seq f; f_sys f; f_comp f] ++ le_enc 3 id ++ p ++
                     le_enc 2 (f_ck f) ++ [f_link f] ++ le_enc 6 (f_ts f)).
  { unfold inp. rewrite <- !app_assoc. reflexivity. }
  rewrite <- EI.
  unfold copy_at. rewrite OS. rewrite overwrite_fits by (rewrite firstn_length, sha256_length; cbn; lia).
  rewrite firstn_length, sha256_length. cbn [Nat.min length repeat skipn]. apply app_nil_r.
Qed.
