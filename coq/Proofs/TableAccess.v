(* C15: the regenerated field-access table of package gomavlib passes the ownership policy. *)
From GM Require Import Policy NodePolicy Access PolicyProofs.

Definition node_check := check_policy first_spawn_line post_spawn_funcs call_edges fn_roots select_alt_calls node_policy node_mpolicy.

Theorem access_table_ok : node_check access_rows = true.
Proof. vm_compute. reflexivity. Qed.

(* rows that fail the policy (for the witness search when the obligation breaks) *)
Definition failing_rows (rows : list arow) : list (string * string * string * string * list string) :=
  map (fun r => (r_struct r, r_field r, r_fn r, r_kind r, r_roots r))
      (filter (fun r => negb (check_row first_spawn_line post_spawn_funcs call_edges fn_roots select_alt_calls node_policy node_mpolicy r)) rows).

Theorem conflicting_accesses_protected a b :
  In a access_rows -> In b access_rows -> same_loc a b = true -> conflicting a b = true ->
  protected_pair first_spawn_line post_spawn_funcs (node_policy (r_struct a) (r_field a)) a b.
Proof.
  exact (checked_pairs_protected first_spawn_line post_spawn_funcs call_edges fn_roots select_alt_calls
           node_policy node_mpolicy access_rows a b access_table_ok).
Qed.

Theorem stateful_methods_confined r l :
  In r access_rows -> node_mpolicy (r_struct r) (r_field r) = Some l -> String.prefix "M:" (r_kind r) = true ->
  exists p, In p l /\ ("M:" ++ fst p)%string = r_kind r /\ roots_are r [snd p] = true /\ snd p <> "api"%string.
Proof.
  exact (checked_methods_confined first_spawn_line post_spawn_funcs call_edges fn_roots select_alt_calls
           node_policy node_mpolicy access_rows r l access_table_ok).
Qed.

(* the table is not empty and does contain conflicting accesses from different goroutines *)
Example table_has_cross_goroutine_conflicts :
  existsb (fun a => existsb (fun b => same_loc a b && conflicting a b &&
            negb (forallb (fun x => mem x (r_roots b)) (r_roots a))) access_rows) access_rows = true.
Proof. vm_compute. reflexivity. Qed.
