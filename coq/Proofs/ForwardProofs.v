(* C08: routing transparency. *)
From Coq Require Import ZArith Lia PeanoNat.
From GM Require Import Bytes BytesProofs CodecBytes Result Crc X25 CrcProofs Codec CodecProofs CodecIdem
  Frame Wire Stream FlatStream StreamProofs Reader Writer ReaderSim FrameProofs GateProofs SignProofs WriterProofs.

(* ---------- inversion of the flat stream primitives ---------- *)
Lemma ftake_inv n : forall l x r, ftake n l = (x, None, r) -> l = map B x ++ r /\ length x = n.
Proof.
  induction n as [|n IH]; intros l x r H.
  - cbn in H. inversion H; subst. auto.
  - destruct l as [|[b|e] t]; cbn [ftake] in H; try discriminate.
    destruct (ftake n t) as [[x' o'] r'] eqn:T. inversion H; subst.
    destruct (IH _ _ _ T) as [E L]. subst t. cbn. auto.
Qed.
Lemma fpd_inv n l h l' : f_peek_discard n l = (Ok h, l') -> l = map B h ++ l' /\ length h = n.
Proof.
  unfold f_peek_discard. destruct (ftake n l) as [[x o] t] eqn:T.
  destruct o as [[|e]|]; intros H; inversion H; subst. apply ftake_inv. exact T.
Qed.
Lemma frf_inv n l h l' : f_read_full n l = (Ok h, l') -> l = map B h ++ l' /\ length h = n.
Proof.
  unfold f_read_full. destruct (ftake n l) as [[x o] t] eqn:T.
  destruct o as [[|e]|]; intros H; inversion H; subst. apply ftake_inv. exact T.
Qed.
Lemma frb_inv l b l' : f_read_byte l = (Ok b, l') -> l = B b :: l'.
Proof.
  unfold f_read_byte. destruct (ftake 1 l) as [[x o] t] eqn:T.
  destruct x as [|y [|z x]]; destruct o as [[|e]|]; try discriminate.
  intros H; inversion H; subst.
  apply ftake_inv in T. destruct T as [E _]. exact E.
Qed.
Lemma fpayload_inv n l p l' : g_read_payload fstream f_read_full n l = (Ok p, l') ->
  l = map B p ++ l' /\ length p = n.
Proof.
  unfold g_read_payload. destruct n; [intros H; inversion H; subst; auto|apply frf_inv].
Qed.

Definition fbytes_ok (l : fstream) : Prop := forall b, In (B b) l -> (b < 256)%N.
Lemma fbytes_app_l a r : fbytes_ok (map B a ++ r) -> bytes_ok a = true /\ fbytes_ok r.
Proof.
  intros H. split.
  - apply forallb_forall. intros b Hb. apply N.ltb_lt. apply H. apply in_or_app. left. apply in_map. exact Hb.
  - intros b Hb. apply H. apply in_or_app. right. exact Hb.
Qed.
Lemma bytes_ok_In a b : bytes_ok a = true -> In b a -> (b < 256)%N.
Proof. intros H Hb. unfold bytes_ok in H. rewrite forallb_forall in H. apply N.ltb_lt. apply (H b Hb). Qed.

Lemma le_dec_bound l k : bytes_ok l = true -> length l = k -> (le_dec l < 2 ^ (8 * N.of_nat k))%N.
Proof. intros B L. subst k. apply le_dec_lt. exact B. Qed.

Ltac split_ok H := cbn [bytes_ok forallb] in H;
  repeat (let a := fresh "Ok" in apply andb_prop in H; destruct H as [a H]).
Ltac solve_ok := cbn [bytes_ok forallb];
  repeat (match goal with H : byte_ok ?x = true |- context [byte_ok ?x] => rewrite H end); reflexivity.
Ltac solve_lt := match goal with H : byte_ok ?x = true |- (?x < 256)%N => apply N.ltb_lt; exact H end.

(* ---------- a parsed frame is well-formed and its bytes are what was consumed ---------- *)
Definition payload_of (f : frame) : list N := snd (raw_of f).

Lemma um2_inv l f l' : fbytes_ok l ->
  g_unmarshal_v2 fstream f_peek_discard f_read_full l = (Ok f, l') ->
  frame_wf f (payload_of f) /\ f_v2 f = true /\ l = map B (tl (spec_bytes f (payload_of f))) ++ l' /\ fbytes_ok l'.
Proof.
  intros FB. unfold g_unmarshal_v2.
  destruct (f_peek_discard 9 l) as [r1 l1] eqn:E1. destruct r1 as [h| |]; try discriminate.
  apply fpd_inv in E1. destruct E1 as [El Lh]. subst l.
  do 9 (destruct h as [|? h]; [discriminate|]). destruct h; [|discriminate]. clear Lh.
  apply fbytes_app_l in FB. destruct FB as [Bh FB1].
  destruct (negb (n0 =? 0)%N && negb (n0 =? 1)%N) eqn:Inc; [discriminate|].
  destruct (g_read_payload fstream f_read_full (N.to_nat n) l1) as [r2 l2] eqn:E2. destruct r2 as [p| |]; try discriminate.
  apply fpayload_inv in E2. destruct E2 as [El1 Lp]. subst l1.
  apply fbytes_app_l in FB1. destruct FB1 as [Bp FB2].
  destruct (f_peek_discard 2 l2) as [r3 l3] eqn:E3. destruct r3 as [ck| |]; try discriminate.
  apply fpd_inv in E3. destruct E3 as [El2 Lck]. subst l2.
  apply fbytes_app_l in FB2. destruct FB2 as [Bck FB3].
  destruct ck as [|c0 [|c1 [|c2 ck]]]; try discriminate.
  split_ok Bh.
  assert (Hn : (n < 256)%N) by solve_lt.
  assert (Hlen : nlen p = n) by (unfold nlen; rewrite Lp, N2Nat.id; reflexivity).
  assert (B3 : bytes_ok [n5; n6; n7] = true) by solve_ok.
  assert (Hid : (le_dec [n5; n6; n7] < 16777216)%N) by (apply (le_dec_bound _ 3); [exact B3|reflexivity]).
  assert (Hck : (le_dec [c0; c1] < 65536)%N) by (apply (le_dec_bound _ 2); [exact Bck|reflexivity]).
  assert (Hid3 : [le_dec [n5; n6; n7] mod 256; (le_dec [n5; n6; n7] / 256) mod 256; le_dec [n5; n6; n7] / 65536]%N = [n5; n6; n7]).
  { rewrite <- le_enc_3 by exact Hid. apply (le_enc_le_dec [n5; n6; n7]). exact B3. }
  assert (Hck2 : [le_dec [c0; c1] mod 256; le_dec [c0; c1] / 256]%N = [c0; c1]).
  { rewrite <- le_enc_2 by exact Hck. apply (le_enc_le_dec [c0; c1]). exact Bck. }
  injection Hid3 as I1 I2 I3. injection Hck2 as K1 K2.
  assert (Hinc : n0 = 0%N \/ n0 = 1%N).
  { destruct (n0 =? 0)%N eqn:A; [left; apply N.eqb_eq; exact A|]. destruct (n0 =? 1)%N eqn:A1; [right; apply N.eqb_eq; exact A1|discriminate]. }
  unfold is_signed. cbn [f_inc].
  destruct Hinc as [Hi|Hi]; subst n0; cbn [N.land Pos.land N.eqb negb].
  - intros H; inversion H; subst f l3. unfold payload_of, raw_of. cbn [f_msg snd].
    split; [|split; [reflexivity|split; [|exact FB3]]].
    + unfold frame_wf, frame_id. cbn [f_msg f_v2 f_inc f_cmp f_seq f_sys f_comp f_ck f_link f_ts f_sig msg_id].
      repeat split; auto; try lia; try solve_lt; try (left; auto).
    + unfold spec_bytes, frame_id. cbn [f_msg f_v2 f_inc f_cmp f_seq f_sys f_comp f_ck f_link f_ts f_sig msg_id N.eqb tl app].
      rewrite Hlen, I1, I2, I3, K1, K2. rewrite ?app_nil_r. cbn [map app]. rewrite ?map_app. cbn [map app]. rewrite <- ?app_assoc. cbn [map app]. reflexivity.
  - destruct (f_peek_discard 13 l3) as [r4 l4] eqn:E4. destruct r4 as [sg| |]; try discriminate.
    apply fpd_inv in E4. destruct E4 as [El3 Lsg]. subst l3.
    apply fbytes_app_l in FB3. destruct FB3 as [Bsg FB4].
    do 13 (destruct sg as [|? sg]; [discriminate|]). destruct sg; [|discriminate].
    intros H; inversion H; subst f l4. unfold payload_of, raw_of, set_sig. cbn [f_msg snd hd skipn firstn].
    split_ok Bsg.
    assert (Bts : bytes_ok [n8; n9; n10; n11; n12; n13] = true) by solve_ok.
    assert (Hts : (le_dec [n8; n9; n10; n11; n12; n13] < 281474976710656)%N) by (apply (le_dec_bound _ 6); [exact Bts|reflexivity]).
    assert (Hts6 : le_enc 6 (le_dec [n8; n9; n10; n11; n12; n13]) = [n8; n9; n10; n11; n12; n13]) by (apply (le_enc_le_dec _ Bts)).
    split; [|split; [reflexivity|split; [|exact FB4]]].
    + unfold frame_wf, frame_id. cbn [f_msg f_v2 f_inc f_cmp f_seq f_sys f_comp f_ck f_link f_ts f_sig msg_id].
      repeat split; auto; try lia; try solve_lt.
      right. repeat split; auto; try solve_lt.
      exists [n14; n15; n16; n17; n18; n19]. repeat split. solve_ok.
    + unfold spec_bytes, frame_id, sig_block.
      cbn [f_msg f_v2 f_inc f_cmp f_seq f_sys f_comp f_ck f_link f_ts f_sig msg_id N.eqb Pos.eqb tl app].
      pose proof (le_enc_6 _ Hts) as T6. rewrite Hts6 in T6. injection T6 as T1 T2 T3 T4 T5 T6.
      rewrite <- T1, <- T2, <- T3, <- T4, <- T5, <- T6.
      rewrite Hlen, I1, I2, I3, K1, K2. cbn [map app]. rewrite ?map_app. cbn [map app]. rewrite <- ?app_assoc. cbn [map app]. reflexivity.
Qed.

Lemma um1_inv l f l' : fbytes_ok l ->
  g_unmarshal_v1 fstream f_peek_discard f_read_full l = (Ok f, l') ->
  frame_wf f (payload_of f) /\ f_v2 f = false /\ l = map B (tl (spec_bytes f (payload_of f))) ++ l' /\ fbytes_ok l'.
Proof.
  intros FB. unfold g_unmarshal_v1.
  destruct (f_peek_discard 5 l) as [r1 l1] eqn:E1. destruct r1 as [h| |]; try discriminate.
  apply fpd_inv in E1. destruct E1 as [El Lh]. subst l.
  do 5 (destruct h as [|? h]; [discriminate|]). destruct h; [|discriminate]. clear Lh.
  apply fbytes_app_l in FB. destruct FB as [Bh FB1].
  destruct (g_read_payload fstream f_read_full (N.to_nat n) l1) as [r2 l2] eqn:E2. destruct r2 as [p| |]; try discriminate.
  apply fpayload_inv in E2. destruct E2 as [El1 Lp]. subst l1.
  apply fbytes_app_l in FB1. destruct FB1 as [Bp FB2].
  destruct (f_peek_discard 2 l2) as [r3 l3] eqn:E3. destruct r3 as [ck| |]; try discriminate.
  apply fpd_inv in E3. destruct E3 as [El2 Lck]. subst l2.
  apply fbytes_app_l in FB2. destruct FB2 as [Bck FB3].
  destruct ck as [|c0 [|c1 [|c2 ck]]]; try discriminate.
  split_ok Bh.
  assert (Hn : (n < 256)%N) by solve_lt.
  assert (Hlen : nlen p = n) by (unfold nlen; rewrite Lp, N2Nat.id; reflexivity).
  assert (Hck : (le_dec [c0; c1] < 65536)%N) by (apply (le_dec_bound _ 2); [exact Bck|reflexivity]).
  assert (Hck2 : [le_dec [c0; c1] mod 256; le_dec [c0; c1] / 256]%N = [c0; c1]).
  { rewrite <- le_enc_2 by exact Hck. apply (le_enc_le_dec [c0; c1]). exact Bck. }
  injection Hck2 as K1 K2.
  intros H; inversion H; subst f l3. unfold payload_of, raw_of. cbn [f_msg snd].
  split; [|split; [reflexivity|split; [|exact FB3]]].
  - unfold frame_wf, frame_id. cbn [f_msg f_v2 f_inc f_cmp f_seq f_sys f_comp f_ck f_link f_ts f_sig msg_id].
    repeat split; auto; try lia; try solve_lt.
  - unfold spec_bytes, frame_id. cbn [f_msg f_v2 f_inc f_cmp f_seq f_sys f_comp f_ck f_link f_ts f_sig msg_id tl app].
    rewrite Hlen, K1, K2. cbn [map app]. rewrite ?map_app. cbn [map app]. rewrite <- ?app_assoc. cbn [map app]. reflexivity.
Qed.

(* Every frame the reader returns was parsed from exactly the spec bytes of a well-formed
   frame: what the call consumed is that frame's layout, and the result is what the key and
   dialect checks make of it. *)
Theorem reader_inv cfg st l r st' l' : fbytes_ok l ->
  flat_reader_read cfg st l = (r, st', l') ->
  (exists f, r = RFrame f) ->
  exists f0, frame_wf f0 (payload_of f0) /\ l = map B (spec_bytes f0 (payload_of f0)) ++ l' /\
             post_read cfg st f0 = (r, st').
Proof.
  intros FB H [f R]. unfold flat_reader_read, g_reader_read in H.
  destruct (f_read_byte l) as [rb l1] eqn:Bq. destruct rb as [magic|e|]; [|inversion H; subst; discriminate|inversion H; subst; discriminate].
  apply frb_inv in Bq. subst l.
  assert (FB1 : fbytes_ok l1) by (intros b Hb; apply FB; right; exact Hb).
  destruct (magic =? 254)%N eqn:M1.
  - apply N.eqb_eq in M1. subst magic.
    destruct (g_unmarshal_v1 fstream f_peek_discard f_read_full l1) as [ru l2] eqn:U.
    destruct ru as [f0|e|]; [|inversion H; subst; discriminate|inversion H; subst; discriminate].
    apply um1_inv in U; [|exact FB1]. destruct U as (W & V & El & _).
    assert (HP : post_read cfg st f0 = (r, st') /\ l2 = l').
    { unfold post_read.
      destruct (match r_inkey cfg with Some k => check_key k st f0 | None => (None, st) end) as [kerr st2].
      destruct kerr; [inversion H; auto|]. destruct (r_dialect cfg); inversion H; auto. }
    destruct HP as [HP El2]. subst l2.
    exists f0. split; [exact W|]. split; [|exact HP].
    rewrite El. unfold spec_bytes. rewrite V. cbn [tl app map]. reflexivity.
  - destruct (magic =? 253)%N eqn:M2; [|inversion H; subst; discriminate].
    apply N.eqb_eq in M2. subst magic.
    destruct (g_unmarshal_v2 fstream f_peek_discard f_read_full l1) as [ru l2] eqn:U.
    destruct ru as [f0|e|]; [|inversion H; subst; discriminate|inversion H; subst; discriminate].
    apply um2_inv in U; [|exact FB1]. destruct U as (W & V & El & _).
    assert (HP : post_read cfg st f0 = (r, st') /\ l2 = l').
    { unfold post_read.
      destruct (match r_inkey cfg with Some k => check_key k st f0 | None => (None, st) end) as [kerr st2].
      destruct kerr; [inversion H; auto|]. destruct (r_dialect cfg); inversion H; auto. }
    destruct HP as [HP El2]. subst l2.
    exists f0. split; [exact W|]. split; [|exact HP].
    rewrite El. unfold spec_bytes. rewrite V. cbn [tl app map]. reflexivity.
Qed.

(* Without a dialect: writing a received frame unchanged emits exactly the bytes that were
   consumed for it — for every frame the reader returns, keyed or not. *)
Theorem forward_raw_identity cfg st l f st' l' : fbytes_ok l -> r_dialect cfg = None ->
  flat_reader_read cfg st l = (RFrame f, st', l') ->
  exists bs, frame_write None f = (Ok bs, f) /\ l = map B bs ++ l'.
Proof.
  intros FB D H. destruct (reader_inv cfg st l _ st' l' FB H (ex_intro _ f eq_refl)) as (f0 & W & El & P).
  unfold post_read in P. rewrite D in P.
  destruct (match r_inkey cfg with Some k => check_key k st f0 | None => (None, st) end) as [kerr st2].
  destruct kerr; [discriminate|]. inversion P; subst f0 st2.
  exists (spec_bytes f (payload_of f)). split; [|exact El].
  unfold frame_write, encode_in_frame. pose proof W as W'. destruct W' as (Hm & _). rewrite Hm.
  unfold raw_of. rewrite Hm. unfold payload_of, raw_of in *. rewrite Hm in *. cbn [snd] in *.
  rewrite (marshal_is_spec f _ W). reflexivity.
Qed.

(* any number of hops: the bytes never change *)
Corollary forward_raw_hops cfg st l f st' l' : fbytes_ok l -> r_dialect cfg = None ->
  flat_reader_read cfg st l = (RFrame f, st', l') ->
  forall cfg2 st2 rest, r_dialect cfg2 = None -> r_inkey cfg2 = None ->
  exists bs, frame_write None f = (Ok bs, f) /\
             flat_reader_read cfg2 st2 (map B bs ++ rest) = (RFrame f, st2, rest).
Proof.
  intros FB D H cfg2 st2 rest D2 K2.
  destruct (reader_inv cfg st l _ st' l' FB H (ex_intro _ f eq_refl)) as (f0 & W & El & P).
  destruct (forward_raw_identity cfg st l f st' l' FB D H) as (bs & Wr & _).
  assert (f0 = f).
  { unfold post_read in P. rewrite D in P.
    destruct (match r_inkey cfg with Some k => check_key k st f0 | None => (None, st) end) as [kerr st3].
    destruct kerr; [discriminate|]. inversion P; reflexivity. }
  subst f0. exists bs. split; [exact Wr|].
  assert (bs = spec_bytes f (payload_of f)).
  { unfold frame_write, encode_in_frame in Wr. pose proof W as (Hm & _). rewrite Hm in Wr.
    unfold raw_of in Wr. rewrite Hm in Wr. unfold payload_of, raw_of in *. rewrite Hm in *. cbn [snd] in *.
    rewrite (marshal_is_spec f _ W) in Wr. inversion Wr. reflexivity. }
  subst bs. rewrite (read_spec_bytes cfg2 f _ st2 rest W). unfold post_read. rewrite K2, D2. reflexivity.
Qed.

(* ---------- with a dialect ---------- *)
Lemma bytes_eqb_refl l : bytes_eqb l l = true.
Proof. unfold bytes_eqb. induction l; cbn; [reflexivity|]. rewrite N.eqb_refl. exact IHl. Qed.

Lemma x25_sum_lt p : bytes_ok p = true -> (x25_sum p < 65536)%N.
Proof. intros H. unfold x25_sum. apply x25_write_is_mcrf4xx; [reflexivity|exact H]. Qed.

(* what the theorem needs of the dialect: every codec well-formed (proved by vm_compute for all
   shipped messages), payload size within 255 bytes, CRC_EXTRA a byte *)
Definition dialect_wf (d : dialect) : Prop :=
  forall id c, dlookup d id = Some c ->
    codec_wf2 c /\ (N.to_nat (c_size_ext c) <= 255)%nat /\ (N.to_nat (c_size_normal c) <= 255)%nat /\ (c_crc c < 256)%N.

Lemma gen_checksum_hdr f g id p x :
  f_v2 f = f_v2 g -> f_inc f = f_inc g -> f_cmp f = f_cmp g -> f_seq f = f_seq g ->
  f_sys f = f_sys g -> f_comp f = f_comp g -> gen_checksum f id p x = gen_checksum g id p x.
Proof. intros A B C D E F. unfold gen_checksum, checksum_input. rewrite A, B, C, D, E, F. reflexivity. Qed.

Lemma checksum_input_ok f id p x : frame_wf f (payload_of f) -> bytes_ok p = true -> (x < 256)%N ->
  id = frame_id f -> bytes_ok (checksum_input f id p x) = true.
Proof.
  intros (Hm & Hp & Hl & Hs & Hy & Hc & Hk & Hv) Bp Hx Eid. unfold checksum_input.
  assert (U8 : forall y, byte_ok (u8 y) = true) by (intros y; unfold byte_ok, u8; apply N.ltb_lt; apply N.mod_lt; discriminate).
  assert (LT : forall y, (y < 256)%N -> byte_ok y = true) by (intros y Hy0; unfold byte_ok; apply N.ltb_lt; exact Hy0).
  pose proof (le_enc_bytes_ok 3 id) as L3. unfold bytes_ok in *.
  destruct (f_v2 f).
  - destruct Hv as (Hid & Hcm & Hsig).
    assert (Hi : (f_inc f < 256)%N) by (destruct Hsig as [(Hi & _)|(Hi & _)]; rewrite Hi; reflexivity).
    cbn [app forallb]. rewrite !forallb_app. cbn [forallb]. rewrite U8, !LT by assumption. rewrite L3, Bp. reflexivity.
  - cbn [app forallb]. rewrite !forallb_app. cbn [forallb]. rewrite !U8, !LT by assumption. rewrite Bp. reflexivity.
Qed.

(* A frame accepted by a dialect-configured reader and written unchanged: the forwarded bytes,
   read at the next hop with the same dialect, yield exactly the same frame — same header
   fields, same decoded message, checksum correct for the payload actually sent — whatever the
   received payload encoding was (not zero-truncated, bytes after a string terminator, unknown
   trailing bytes). *)
Theorem forward_dialect_fixpoint d f0 f id c :
  dialect_wf d -> frame_wf f0 (payload_of f0) -> frame_id f0 = id -> dlookup d id = Some c ->
  check_dialect d f0 = RFrame f ->
  exists bs f', frame_write (Some d) f = (Ok bs, f') /\
    forall st2 rest, flat_reader_read (mkRcfg (Some d) None) st2 (map B bs ++ rest) = (RFrame f, st2, rest).
Proof.
  intros DW W Eid L H. destruct (DW id c L) as (Wc & S2 & S1 & Cx).
  pose proof W as (Hm & Hp & Hl & Hs & Hy & Hc & Hk & Hv).
  unfold check_dialect in H. unfold raw_of in H. rewrite Hm, Eid, L in H.
  set (p := payload_of f0) in *.
  destruct (gen_checksum f0 id p (c_crc c) =? f_ck f0)%N eqn:G; cbn [negb] in H; [|discriminate].
  apply N.eqb_eq in G.
  destruct (msg_read c (f_v2 f0) p) as [v| |] eqn:Rd; try discriminate.
  destruct (msg_write c (f_v2 f0) v) as [p'| |] eqn:Wr; try discriminate.
  pose proof (read_write_read c (f_v2 f0) p v Wc Hp Rd p' Wr) as RR.
  destruct (write_of_read_bytes c (f_v2 f0) p v Wc Hp Rd p' Wr) as [Bp' Lp'].
  assert (Lp255 : (length p' <= 255)%nat) by (unfold codec_size in Lp'; destruct (f_v2 f0); lia).
  (* the frame delivered at the first hop *)
  set (ck' := if bytes_eqb p' p then f_ck f0 else gen_checksum f0 id p' (c_crc c)).
  assert (Ef : f = set_msg (set_ck f0 ck') (MDec id v)).
  { unfold ck'. destruct (bytes_eqb p' p); inversion H; [destruct f0|]; reflexivity. }
  assert (Eck : ck' = gen_checksum f0 id p' (c_crc c)).
  { unfold ck'. destruct (bytes_eqb p' p) eqn:Eq; [|reflexivity]. apply list_eqb_eq in Eq. subst p'. symmetry. exact G. }
  assert (Hck' : (ck' < 65536)%N).
  { rewrite Eck. unfold gen_checksum. apply x25_sum_lt. apply checksum_input_ok; auto. }
  set (f' := set_msg f (MRaw id p')).
  assert (W' : frame_wf f' p').
  { subst f' f. unfold frame_wf, frame_id, set_msg, set_ck.
    cbn [f_msg f_v2 f_inc f_cmp f_seq f_sys f_comp f_ck f_link f_ts f_sig msg_id].
    unfold frame_id in *. rewrite Eid in *. repeat split; auto. }
  exists (spec_bytes f' p'), f'. split.
  - assert (Vf : f_v2 f = f_v2 f0) by (rewrite Ef; reflexivity).
    assert (Mf : f_msg f = MDec id v) by (rewrite Ef; reflexivity).
    unfold frame_write, encode_in_frame. rewrite Mf, L, Vf, Wr. cbn [rbind].
    fold f'. unfold raw_of. subst f'. cbn [set_msg f_msg]. fold (set_msg f (MRaw id p')).
    rewrite (marshal_is_spec _ _ W'). reflexivity.
  - intros st2 rest. rewrite (read_spec_bytes _ f' p' st2 rest W'). unfold post_read. cbn [r_inkey r_dialect fst snd].
    f_equal. f_equal. unfold check_dialect. subst f'. unfold raw_of. cbn [set_msg f_msg]. rewrite L.
    assert (Hdr : gen_checksum (set_msg f (MRaw id p')) id p' (c_crc c) = gen_checksum f0 id p' (c_crc c)).
    { apply gen_checksum_hdr; subst f; reflexivity. }
    cbn [f_v2 f_ck]. rewrite Hdr. subst f. cbn [set_msg set_ck f_ck f_v2]. rewrite <- Eck, N.eqb_refl. cbn [negb].
    rewrite RR, Wr, bytes_eqb_refl. reflexivity.
Qed.

(* ---------- FixFrame ---------- *)
(* after any edit of the decoded message, FixFrame leaves a raw frame whose checksum is the one
   the gate computes for the payload it carries and — v2 frame, outgoing key — whose signature
   is the one the keyed reader computes *)
Theorem fixframe_valid d k f f' id p :
  fix_frame (Some d) k f = Ok f' -> raw_of f' = (id, p) ->
  exists c, dlookup d id = Some c /\ f_ck f' = gen_checksum f' id p (c_crc c) /\
    (forall key, k = Some key -> f_v2 f' = true -> f_sig f' = Some (gen_signature key f' id p)) /\
    f_v2 f' = f_v2 f /\ f_inc f' = f_inc f /\ f_cmp f' = f_cmp f /\ f_seq f' = f_seq f /\
    f_sys f' = f_sys f /\ f_comp f' = f_comp f /\ f_link f' = f_link f /\ f_ts f' = f_ts f.
Proof.
  unfold fix_frame. destruct (encode_in_frame (Some d) f) as [f1| |] eqn:E; cbn [rbind]; try discriminate.
  apply encode_in_frame_fields in E.
  destruct E as (E1 & E2 & E3 & E4 & E5 & E6 & E7 & E8 & E9 & E10 & E11 & pp & E12).
  unfold raw_of at 1. rewrite E12.
  destruct (dlookup d (msg_id (f_msg f))) as [c|] eqn:L; [|discriminate].
  intros H R. apply CodecProofs.Ok_inj in H. cbn [set_ck f_v2] in H.
  exists c. 
  destruct k as [key|]; [destruct (f_v2 f1) eqn:V|]; subst f';
    unfold raw_of, set_sig, set_ck in R; cbn [f_msg] in R; rewrite E12 in R; inversion R; subst id pp;
    (split; [exact L|]); unfold set_sig, set_ck;
    cbn [f_ck f_v2 f_inc f_cmp f_seq f_sys f_comp f_link f_ts f_sig];
    (split; [reflexivity|]); (split; [|repeat split; congruence]).
  - intros key0 K _. inversion K; subst. reflexivity.
  - intros key0 _ X. rewrite V in X. discriminate.
  - intros key0 X. discriminate.
Qed.
