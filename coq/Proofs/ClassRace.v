(* C15: an execution in which every location is used as its class allows has no data race.
   Links the classes of the field policy (checked against the access table) to happens-before. *)
From Coq Require Import Lia.
From GM Require Import Race RaceProofs ClassSem.

(* ---- generic facts about traces ---- *)
Lemma nth_split {A} (l : list A) : forall j e, nth_error l j = Some e -> l = firstn j l ++ e :: skipn (S j) l.
Proof.
  induction l as [|x l IH]; intros [|j] e H; try discriminate.
  - inversion H. reflexivity.
  - cbn. f_equal. apply IH. exact H.
Qed.

Lemma nth_lt {A} (l : list A) i e : nth_error l i = Some e -> i < length l.
Proof. intros H. apply nth_error_Some. rewrite H. discriminate. Qed.

Lemma firstn_snoc_le {A} (p : list A) e i : i <= length p -> firstn i (p ++ [e]) = firstn i p.
Proof. intros H. rewrite firstn_app. replace (i - length p) with 0 by lia. cbn. apply app_nil_r. Qed.

(* program order: every event is known to its own goroutine afterwards *)
Lemma step_own s e : K (hb_step s e) (actor e) (clk s).
Proof.
  destruct e as [g l w|g g' gv sh|g m|g m]; cbn.
  - rewrite upd_same. right. reflexivity.
  - destruct (Nat.eq_dec g g') as [<-|N].
    + rewrite upd_same. right; right. reflexivity.
    + rewrite upd_other by exact N. rewrite upd_same. right. reflexivity.
  - rewrite upd_same. right; right. reflexivity.
  - rewrite upd_same. right. reflexivity.
Qed.

Lemma own_known : forall p i e, nth_error p i = Some e -> K (hb_run p) (actor e) i.
Proof.
  induction p as [|x p IH] using rev_ind; intros i e H; [destruct i; discriminate|].
  rewrite hb_run_snoc. apply nth_snoc in H. destruct H as [[L H]|[Ei Ee]].
  - apply K_mono. apply IH. exact H.
  - subst. rewrite <- (clk_run p). apply step_own.
Qed.

(* an edge carries what its source knows *)
Lemma step_sync s a b gv sh i : K s a i -> K (hb_step s (Sync a b gv sh)) b i.
Proof. intros H. cbn. rewrite upd_same. right; left. exact H. Qed.

Lemma sync_known : forall p h a b gv sh i e,
  nth_error p h = Some (Sync a b gv sh) -> nth_error p i = Some e -> actor e = a -> i < h -> K (hb_run p) b i.
Proof.
  induction p as [|x p IH] using rev_ind; intros h a b gv sh i e Hh Hi Ea Lt; [destruct h; discriminate|].
  rewrite hb_run_snoc. apply nth_snoc in Hh. destruct Hh as [[Lh Hh]|[Eh Ex]].
  - apply K_mono. apply nth_snoc in Hi. destruct Hi as [[Li Hi]|[Ei _]]; [|lia].
    apply (IH h a b gv sh i e); assumption.
  - subst x. apply nth_snoc in Hi. destruct Hi as [[Li Hi]|[Ei _]]; [|lia].
    apply step_sync. rewrite <- Ea. apply own_known. exact Hi.
Qed.

(* ---- accesses ---- *)
Lemma all_acc_from_spec : forall tr c l P i g w,
  all_acc_from c tr l P = true -> nth_error tr i = Some (Acc g l w) -> P (c + i) g w = true.
Proof.
  induction tr as [|e tr IH]; intros c l P i g w H N; [destruct i; discriminate|].
  cbn [all_acc_from] in H. apply andb_prop in H. destruct H as [H1 H2]. destruct i as [|i].
  - inversion N. subst e. rewrite Nat.eqb_refl in H1. rewrite Nat.add_0_r. exact H1.
  - cbn in N. replace (c + S i) with (S c + i) by lia. apply (IH (S c) l P i g w H2 N).
Qed.
Lemma all_acc_spec tr l P i g w : all_acc tr l P = true -> nth_error tr i = Some (Acc g l w) -> P i g w = true.
Proof. intros H N. apply (all_acc_from_spec tr 0 l P i g w H N). Qed.

Lemma locs_of_in : forall tr i g l w, nth_error tr i = Some (Acc g l w) -> In l (locs_of tr).
Proof.
  induction tr as [|e tr IH]; intros i g l w N; [destruct i; discriminate|].
  destruct i as [|i].
  - inversion N. subst e. left. reflexivity.
  - cbn in N. specialize (IH i g l w N). destruct e; cbn; auto.
Qed.

(* ---- the initialisation phase ---- *)
Definition is_sync (e : ev) : bool := match e with Sync _ _ _ _ => true | _ => false end.

Lemma init_len_le : forall p, init_len p <= length p.
Proof. induction p as [|x p IH]; cbn; [lia|]. destruct x; cbn; lia. Qed.

Lemma init_len_snoc : forall p e,
  init_len (p ++ [e]) =
  if init_len p <? length p then init_len p else if is_sync e then length p else S (length p).
Proof.
  induction p as [|x p IH]; intros e.
  - cbn. destruct e; reflexivity.
  - destruct x as [g l w|a b gv sh|g m|g m]; cbn [app init_len length]; try reflexivity;
      rewrite IH; change (S (init_len p) <? S (length p)) with (init_len p <? length p);
      destruct (init_len p <? length p); try reflexivity; destruct (is_sync e); reflexivity.
Qed.

Lemma init_len_firstn : forall tr j, init_len (firstn j tr) = Nat.min j (init_len tr).
Proof.
  induction tr as [|x tr IH]; intros j; [destruct j; reflexivity|].
  destruct j as [|j]; [reflexivity|].
  destruct x as [g l w|a b gv sh|g m|g m]; cbn [firstn init_len]; try rewrite IH; try reflexivity.
Qed.

Lemma st_nosync : forall p st, init_len p = length p -> fold_left st_step p st = st.
Proof.
  induction p as [|x p IH]; intros st H; [reflexivity|].
  destruct x as [g l w|a b gv sh|g m|g m]; cbn in H; try discriminate; cbn; apply IH; lia.
Qed.

Lemma wf_from_app : forall p q st,
  wf_from st (p ++ q) = wf_from st p && wf_from (fold_left st_step p st) q.
Proof.
  induction p as [|x p IH]; intros q st; [reflexivity|].
  cbn. rewrite IH. rewrite andb_assoc. reflexivity.
Qed.

Lemma init_inv g0 : forall p, wf_from [g0] p = true ->
  forall g, In g (fold_left st_step p [g0]) -> forall i, i < init_len p -> K (hb_run p) g i.
Proof.
  induction p as [|e p IH] using rev_ind; intros WF g Ig i Li; [cbn in Li; lia|].
  rewrite wf_from_app in WF. apply andb_prop in WF. destruct WF as [WFp WFe].
  cbn in WFe. rewrite andb_true_r in WFe. apply memn_In in WFe.
  rewrite fold_left_app in Ig. cbn [fold_left] in Ig.
  rewrite hb_run_snoc. rewrite init_len_snoc in Li.
  specialize (IH WFp).
  destruct e as [g1 l w|a b gv sh|g1 m|g1 m].
  2:{ (* an edge: the initialisation phase is over and stays as long as it was *)
    assert (Li' : i < init_len p).
    { destruct (init_len p <? length p) eqn:E; [exact Li|]. cbn in Li.
      apply Nat.ltb_ge in E. pose proof (init_len_le p). lia. }
    cbn [st_step] in Ig. destruct Ig as [<-|Ig].
    - apply step_sync. apply IH; assumption.
    - apply K_mono. apply IH; assumption. }
  all: cbn [st_step] in Ig; cbn [is_sync] in Li;
    destruct (init_len p <? length p) eqn:E;
    [apply K_mono; apply IH; assumption|];
    apply Nat.ltb_ge in E; pose proof (init_len_le p) as LE;
    assert (EQ : init_len p = length p) by lia;
    pose proof (st_nosync p [g0] EQ) as ST; rewrite ST in Ig, WFe;
    destruct Ig as [<-|[]]; destruct WFe as [WFe|[]];
    (destruct (Nat.eq_dec i (length p)) as [->|NE];
     [ rewrite <- (clk_run p); rewrite WFe; match goal with |- K (hb_step _ ?e) _ _ => apply (step_own (hb_run p) e) end
     | apply K_mono; apply IH; [rewrite ST; left; reflexivity|lia] ]).
Qed.

(* what was done before the first edge is known to every goroutine when it acts *)
Lemma init_known g0 tr i j e : well_spawned g0 tr = true -> nth_error tr j = Some e ->
  i < init_len tr -> i < j -> K (hb_run (firstn j tr)) (actor e) i.
Proof.
  intros WF Nj Li Lt. unfold well_spawned in WF.
  rewrite (nth_split tr j e Nj) in WF. rewrite wf_from_app in WF. apply andb_prop in WF. destruct WF as [WFp WFe].
  cbn in WFe. apply andb_prop in WFe. destruct WFe as [WFe _]. apply memn_In in WFe.
  apply (init_inv g0 (firstn j tr) WFp _ WFe). rewrite init_len_firstn. lia.
Qed.

Lemma init_actor g0 tr i e : well_spawned g0 tr = true -> nth_error tr i = Some e -> i < init_len tr -> actor e = g0.
Proof.
  intros WF Ni Li. unfold well_spawned in WF.
  rewrite (nth_split tr i e Ni) in WF. rewrite wf_from_app in WF. apply andb_prop in WF. destruct WF as [_ WFe].
  cbn in WFe. apply andb_prop in WFe. destruct WFe as [WFe _]. apply memn_In in WFe.
  rewrite st_nosync in WFe.
  - destruct WFe as [<-|[]]. reflexivity.
  - rewrite init_len_firstn. rewrite firstn_length. apply nth_lt in Ni. lia.
Qed.

(* ---- objects handed on along edges ---- *)
Lemma reach_fst h : forall p c R, fst (fold_left (rs_step h) p (c, R)) = c + length p.
Proof.
  induction p as [|x p IH]; intros c R; [cbn; lia|].
  cbn [fold_left length]. unfold rs_step at 2. rewrite IH. lia.
Qed.

Lemma reach_before h gc : forall p, length p <= h -> fold_left (rs_step h) p (0, [gc]) = (length p, [gc]).
Proof.
  induction p as [|x p IH] using rev_ind; intros L; [reflexivity|].
  rewrite app_length in L. cbn in L. rewrite fold_left_app. rewrite IH by lia. cbn [fold_left].
  rewrite app_length. cbn [length]. unfold rs_step.
  replace (h <=? length p) with false by (symmetry; apply Nat.leb_gt; lia).
  rewrite Nat.add_1_r. destruct x; reflexivity.
Qed.

Lemma reach_inv h gc : forall p g, In g (snd (fold_left (rs_step h) p (0, [gc]))) ->
  forall i e, i < h -> nth_error p i = Some e -> actor e = gc -> K (hb_run p) g i.
Proof.
  induction p as [|x p IH] using rev_ind; intros g Ig i e Lh Ni Ea; [destruct i; discriminate|].
  rewrite hb_run_snoc. rewrite fold_left_app in Ig. cbn [fold_left] in Ig.
  pose proof (reach_fst h p 0 [gc]) as F.
  destruct (fold_left (rs_step h) p (0, [gc])) as [c R] eqn:FR. cbn in F. subst c.
  cbn [rs_step snd] in Ig.
  apply nth_snoc in Ni. destruct Ni as [[Li Ni]|[Ei Ee]].
  - (* an earlier event *)
    destruct x as [g1 l w|a b gv sh|g1 m|g1 m]; try (apply K_mono; apply (IH g Ig i e Lh Ni Ea)).
    destruct ((h <=? length p) && memn a R) eqn:C.
    + apply andb_prop in C. destruct C as [_ Ma]. apply memn_In in Ma.
      destruct Ig as [<-|Ig].
      * apply step_sync. apply (IH a Ma i e Lh Ni Ea).
      * apply K_mono. apply (IH g Ig i e Lh Ni Ea).
    + apply K_mono. apply (IH g Ig i e Lh Ni Ea).
  - (* the new event, before h: nothing has been handed on yet *)
    subst i e.
    assert (RR : R = [gc]).
    { pose proof (reach_before h gc p) as B. rewrite FR in B. assert (length p <= h) by lia.
      specialize (B H). inversion B. reflexivity. }
    assert (Ig' : In g R).
    { destruct x as [g1 l w|a b gv sh|g1 m|g1 m]; try exact Ig.
      replace (h <=? length p) with false in Ig by (symmetry; apply Nat.leb_gt; lia). exact Ig. }
    rewrite RR in Ig'. destruct Ig' as [<-|[]]. rewrite <- Ea. rewrite <- (clk_run p). apply step_own.
Qed.

(* ---- mutexes ---- *)
Lemma lk_run_app : forall a b hd,
  lk_run hd (a ++ b) = match lk_run hd a with Some hd' => lk_run hd' b | None => None end.
Proof.
  induction a as [|e a IH]; intros b hd; [reflexivity|].
  cbn. destruct (lk_step hd e); [apply IH|reflexivity].
Qed.

Lemma lock_inv m : forall p hd, lk_run (fun _ => None) p = Some hd ->
  forall i g l w, nth_error p i = Some (Acc g l w) -> holder_at p i m = Some g ->
  match hd m with Some g' => K (hb_run p) g' i | None => KM (hb_run p) m i end.
Proof.
  induction p as [|x p IH] using rev_ind; intros hd R i g l w Ni Hi; [destruct i; discriminate|].
  rewrite lk_run_app in R. destruct (lk_run (fun _ => None) p) as [hd0|] eqn:R0; [|discriminate].
  cbn [lk_run] in R. destruct (lk_step hd0 x) as [hd1|] eqn:S1; [|discriminate]. inversion R; subst hd1. clear R.
  rewrite hb_run_snoc. apply nth_snoc in Ni. destruct Ni as [[Li Ni]|[Ei Ee]].
  - assert (Hi' : holder_at p i m = Some g).
    { unfold holder_at in *. rewrite firstn_snoc_le in Hi by lia. exact Hi. }
    specialize (IH hd0 eq_refl i g l w Ni Hi').
    destruct x as [g1 l1 w1|a b gv sh|g1 m1|g1 m1]; cbn [lk_step] in S1.
    + inversion S1; subst hd. destruct (hd0 m); [apply K_mono; exact IH|exact IH].
    + inversion S1; subst hd. destruct (hd0 m); [apply K_mono; exact IH|exact IH].
    + destruct (hd0 m1) eqn:H1; [discriminate|]. inversion S1; subst hd.
      destruct (Nat.eq_dec m m1) as [->|NE].
      * rewrite upd_same. rewrite H1 in IH. cbn. rewrite upd_same. right; left. exact IH.
      * rewrite upd_other by exact NE. destruct (hd0 m); [apply K_mono; exact IH|exact IH].
    + destruct (hd0 m1) as [gh|] eqn:H1; [|discriminate]. destruct (Nat.eqb_spec gh g1) as [->|]; [|discriminate].
      inversion S1; subst hd.
      destruct (Nat.eq_dec m m1) as [->|NE].
      * rewrite upd_same. rewrite H1 in IH. cbn. rewrite upd_same. left. exact IH.
      * rewrite upd_other by exact NE. destruct (hd0 m) eqn:H0.
        -- apply K_mono. exact IH.
        -- cbn. rewrite upd_other by exact NE. exact IH.
  - subst i. inversion Ee; subst x. cbn [lk_step] in S1. inversion S1; subst hd.
    unfold holder_at in Hi. rewrite firstn_app, firstn_all, Nat.sub_diag in Hi. cbn [firstn] in Hi.
    rewrite app_nil_r, R0 in Hi. rewrite Hi.
    rewrite <- (clk_run p). apply (step_own (hb_run p) (Acc g l w)).
Qed.

Lemma lk_prefix tr j : lock_wf tr = true -> exists hd, lk_run (fun _ => None) (firstn j tr) = Some hd.
Proof.
  unfold lock_wf. intros H. rewrite <- (firstn_skipn j tr) in H. rewrite lk_run_app in H.
  destruct (lk_run (fun _ => None) (firstn j tr)) as [hd|]; [exists hd; reflexivity|discriminate].
Qed.

(* ---- the theorem ---- *)
Theorem conforming_race_free g0 cls tr : conforming g0 cls tr = true -> ~ data_race tr.
Proof.
  unfold conforming. intros C. apply andb_prop in C. destruct C as [C CL]. apply andb_prop in C. destruct C as [WF LW].
  rewrite forallb_forall in CL.
  intros (i & j & gi & gj & l & wi & wj & Lt & Ni & Nj & NE & W & NHB).
  apply NHB. unfold happens_before. clear NHB.
  specialize (CL l (locs_of_in tr j gj l wj Nj)).
  assert (Ni' : nth_error (firstn j tr) i = Some (Acc gi l wi)) by (rewrite nth_firstn by exact Lt; exact Ni).
  (* two accesses inside the initialisation phase are by the same goroutine *)
  assert (BothInit : j < init_len tr -> False).
  { intros Lj. apply NE.
    pose proof (init_actor g0 tr i _ WF Ni ltac:(lia)) as A1. pose proof (init_actor g0 tr j _ WF Nj Lj) as A2.
    cbn in A1, A2. congruence. }
  assert (InitK : i < init_len tr -> K (hb_run (firstn j tr)) gj i).
  { intros Li. apply (init_known g0 tr i j (Acc gj l wj) WF Nj Li Lt). }
  destruct (cls l) as [|gc h|g1|m|o1 o2 h]; cbn [conformsb] in CL.
  - (* written only during initialisation *)
    pose proof (all_acc_spec _ _ _ _ _ _ CL Ni) as Pi. pose proof (all_acc_spec _ _ _ _ _ _ CL Nj) as Pj.
    cbn beta in Pi, Pj. destruct W as [->| ->]; cbn in Pi, Pj.
    + apply Nat.ltb_lt in Pi. apply InitK. exact Pi.
    + apply Nat.ltb_lt in Pj. exfalso. apply BothInit. exact Pj.
  - (* written by the creator before the hand-over *)
    pose proof (all_acc_spec _ _ _ _ _ _ CL Ni) as Pi. pose proof (all_acc_spec _ _ _ _ _ _ CL Nj) as Pj.
    cbn beta in Pi, Pj. apply andb_prop in Pi, Pj. destruct Pi as [Wi Ri], Pj as [Wj Rj].
    destruct W as [->| ->].
    + apply andb_prop in Wi. destruct Wi as [Ei Li]. apply Nat.eqb_eq in Ei. apply Nat.ltb_lt in Li. subst gi.
      apply orb_prop in Rj. destruct Rj as [Ej|Rj]; [apply Nat.eqb_eq in Ej; congruence|].
      apply memn_In in Rj. unfold reach_at in Rj.
      apply (reach_inv h gc (firstn j tr) gj Rj i (Acc gc l true) Li Ni' eq_refl).
    + apply andb_prop in Wj. destruct Wj as [Ej Lj]. apply Nat.eqb_eq in Ej. apply Nat.ltb_lt in Lj. subst gj.
      apply orb_prop in Ri. destruct Ri as [Ei|Ri]; [apply Nat.eqb_eq in Ei; congruence|].
      apply memn_In in Ri. unfold reach_at in Ri. rewrite reach_before in Ri.
      * destruct Ri as [<-|[]]. congruence.
      * rewrite firstn_length. lia.
  - (* confined to one goroutine *)
    pose proof (all_acc_spec _ _ _ _ _ _ CL Ni) as Pi. pose proof (all_acc_spec _ _ _ _ _ _ CL Nj) as Pj.
    cbn beta in Pi, Pj. apply orb_prop in Pi, Pj.
    destruct Pj as [Pj|Pj]; [apply Nat.ltb_lt in Pj; exfalso; apply BothInit; exact Pj|].
    destruct Pi as [Pi|Pi]; [apply Nat.ltb_lt in Pi; apply InitK; exact Pi|].
    apply Nat.eqb_eq in Pi, Pj. congruence.
  - (* guarded by a mutex *)
    pose proof (all_acc_spec _ _ _ _ _ _ CL Ni) as Pi. pose proof (all_acc_spec _ _ _ _ _ _ CL Nj) as Pj.
    cbn beta in Pi, Pj. apply orb_prop in Pi, Pj.
    destruct Pj as [Pj|Pj]; [apply Nat.ltb_lt in Pj; exfalso; apply BothInit; exact Pj|].
    destruct Pi as [Pi|Pi]; [apply Nat.ltb_lt in Pi; apply InitK; exact Pi|].
    destruct (holder_at tr i m) as [hi|] eqn:Hi; [|discriminate]. apply Nat.eqb_eq in Pi. subst hi.
    destruct (holder_at tr j m) as [hj|] eqn:Hj; [|discriminate]. apply Nat.eqb_eq in Pj. subst hj.
    destruct (lk_prefix tr j LW) as [hd R].
    assert (Hi' : holder_at (firstn j tr) i m = Some gi).
    { unfold holder_at in *. rewrite firstn_firstn. replace (Nat.min i j) with i by lia. exact Hi. }
    pose proof (lock_inv m (firstn j tr) hd R i gi l wi Ni' Hi') as Cov.
    unfold holder_at in Hj. rewrite R in Hj. rewrite Hj in Cov. exact Cov.
  - (* handed from one owner to the next *)
    apply andb_prop in CL. destruct CL as [Hh CL].
    pose proof (all_acc_spec _ _ _ _ _ _ CL Ni) as Pi. pose proof (all_acc_spec _ _ _ _ _ _ CL Nj) as Pj.
    cbn beta in Pi, Pj.
    destruct (nth_error tr h) as [[| a b gv sh | |]|] eqn:Nh; try discriminate.
    apply andb_prop in Hh. destruct Hh as [Ea Eb]. apply Nat.eqb_eq in Ea, Eb. subst a b.
    apply orb_prop in Pi, Pj.
    destruct Pi as [Pi|Pi], Pj as [Pj|Pj]; apply andb_prop in Pi, Pj; destruct Pi as [Li Gi], Pj as [Lj Gj];
      apply Nat.eqb_eq in Gi, Gj; apply Nat.ltb_lt in Li, Lj; try congruence; try lia.
    subst gi gj.
    assert (Nh' : nth_error (firstn j tr) h = Some (Sync o1 o2 gv sh)) by (rewrite nth_firstn by exact Lj; exact Nh).
    apply (sync_known (firstn j tr) h o1 o2 gv sh i (Acc o1 l wi) Nh' Ni' eq_refl Li).
Qed.

(* ---- non-vacuity: the life of a node, location by location ---- *)
(* node_life' (RaceProofs.v): goroutines 0 init/application, 1 loop, 2 provider, 3 channel, 4 reader, 5 cleaner;
   locations 0 configuration, 1 Node.channels, 2 Channel fields set in initialize, 3 Channel.running,
   4 lastRequests (mutex 0), 5 reader state.  Event 10 is the hand-over of the channel to the loop. *)
Definition node_classes (l : loc) : rclass :=
  match l with
  | 0 => RInit
  | 1 => RConfined 1
  | 2 => RWriteOnce 2 10
  | 3 => RTransfer 2 1 10
  | 4 => RLocked 0
  | _ => RConfined 4
  end.
Example node_life_conforming : conforming 0 node_classes node_life' = true.
Proof. vm_compute. reflexivity. Qed.
Example node_life_race_free_by_class : ~ data_race node_life'.
Proof. apply (conforming_race_free 0 node_classes). exact node_life_conforming. Qed.

(* and each class does reject its violation *)
Example late_config_write_rejected : conforming 0 node_classes (node_life' ++ [Acc 0 0 true]) = false.
Proof. vm_compute. reflexivity. Qed.
Example foreign_channels_access_rejected : conforming 0 node_classes (node_life' ++ [Acc 2 1 false]) = false.
Proof. vm_compute. reflexivity. Qed.
Example write_after_hand_over_rejected : conforming 0 node_classes (node_life' ++ [Acc 2 2 true]) = false.
Proof. vm_compute. reflexivity. Qed.
Example unlocked_access_rejected : conforming 0 node_classes (node_life' ++ [Acc 5 4 false]) = false.
Proof. vm_compute. reflexivity. Qed.
Example old_owner_after_transfer_rejected : conforming 0 node_classes (node_life' ++ [Acc 2 3 false]) = false.
Proof. vm_compute. reflexivity. Qed.
Example unstarted_goroutine_rejected : conforming 0 node_classes (Acc 7 9 false :: node_life') = false.
Proof. vm_compute. reflexivity. Qed.
