(* C05: totality, progress, exhaustion, resynchronisation — proved on the flat stream
   specification and transferred to the chunked bufio model by ReaderSim. *)
From Coq Require Import ZArith Lia PeanoNat.
From GM Require Import Bytes Result Codec Frame Wire Stream FlatStream StreamProofs Reader ReaderSim FrameProofs.
Local Open Scope nat_scope.

(* ---- lengths ---- *)
Lemma ftake_len n : forall l x o r, ftake n l = (x, o, r) ->
  match o with
  | None => length l = length x + length r /\ length x = n
  | Some SEnd => length l = length x /\ r = [] /\ length x < n
  | Some (SErr _) => length l = length x + 1 + length r /\ length x < n
  end.
Proof.
  induction n as [|n IH]; intros l x o r H.
  - cbn in H. inversion H; subst. cbn. auto.
  - destruct l as [|[b|e] t]; cbn [ftake] in H.
    + inversion H; subst. cbn. repeat split; lia.
    + destruct (ftake n t) as [[x' o'] r'] eqn:T. inversion H; subst. apply IH in T.
      destruct o as [[|e]|]; cbn [length]; intuition lia.
    + inversion H; subst. cbn. split; lia.
Qed.

Lemma flatten_len r : length (flatten r) = chunks_len r.
Proof.
  induction r as [|[d|e] t IH]; cbn [flatten chunks_len length]; [reflexivity| |lia].
  rewrite app_length, map_length, IH. reflexivity.
Qed.
Lemma items_len s : length (items s) = stream_left s.
Proof. unfold items, stream_left. rewrite app_length, map_length, flatten_len. reflexivity. Qed.

Lemma fpd_len n l r l' : f_peek_discard n l = (r, l') -> length l' <= length l.
Proof.
  unfold f_peek_discard. destruct (ftake n l) as [[x o] t] eqn:T. apply ftake_len in T.
  destruct o as [[|e]|]; intros H; inversion H; subst; rewrite ?app_length, ?map_length; cbn [length]; intuition (subst; cbn [length]; lia).
Qed.
Lemma frf_len n l r l' : f_read_full n l = (r, l') -> length l' <= length l.
Proof.
  unfold f_read_full. destruct (ftake n l) as [[x o] t] eqn:T. apply ftake_len in T.
  destruct o as [[|e]|]; intros H; inversion H; subst; intuition (subst; cbn [length]; lia).
Qed.
Lemma frb_len l r l' : f_read_byte l = (r, l') ->
  match r with
  | Ok _ => length l' < length l
  | Err e => length l' < length l \/ (e = e_eof /\ l = [] /\ l' = [])
  | Panic => False
  end.
Proof.
  unfold f_read_byte. destruct (ftake 1 l) as [[x o] t] eqn:T. apply ftake_len in T.
  destruct o as [[|e]|].
  - destruct T as (A & B0 & C). intros H. destruct x as [|b x]; [|cbn in C; lia].
    destruct l as [|i l]; [|cbn in A; lia]. inversion H; subst. right; repeat split; reflexivity.
  - destruct T as [A B0]. destruct x as [|b x]; [|cbn in B0; lia]. intros H. inversion H; subst. left. cbn in A. lia.
  - destruct T as [A B0]. destruct x as [|b [|c x]]; cbn in B0; try lia.
    intros H; inversion H; subst. cbn in A. lia.
Qed.

Lemma fpayload_len n l r l' : g_read_payload fstream f_read_full n l = (r, l') -> length l' <= length l.
Proof. unfold g_read_payload. destruct n; [intros H; inversion H; lia|apply frf_len]. Qed.

Ltac pd_step H n l :=
  let r := fresh "r" in let l1 := fresh "l" in let E := fresh "E" in
  destruct (f_peek_discard n l) as [r l1] eqn:E; apply fpd_len in E.

Lemma um1_len l r l' : g_unmarshal_v1 fstream f_peek_discard f_read_full l = (r, l') -> length l' <= length l.
Proof.
  unfold g_unmarshal_v1. intros H.
  destruct (f_peek_discard 5 l) as [r1 l1] eqn:E1. apply fpd_len in E1.
  destruct r1 as [h| |]; try (inversion H; subst; lia).
  do 5 (destruct h as [|? h]; try (inversion H; subst; lia)). destruct h; try (inversion H; subst; lia).
  destruct (g_read_payload fstream f_read_full (N.to_nat n) l1) as [r2 l2] eqn:E2. apply fpayload_len in E2.
  destruct r2 as [p| |]; try (inversion H; subst; lia).
  destruct (f_peek_discard 2 l2) as [r3 l3] eqn:E3. apply fpd_len in E3.
  destruct r3; inversion H; subst; lia.
Qed.

Lemma um2_len l r l' : g_unmarshal_v2 fstream f_peek_discard f_read_full l = (r, l') -> length l' <= length l.
Proof.
  unfold g_unmarshal_v2. intros H.
  destruct (f_peek_discard 9 l) as [r1 l1] eqn:E1. apply fpd_len in E1.
  destruct r1 as [h| |]; try (inversion H; subst; lia).
  do 9 (destruct h as [|? h]; try (inversion H; subst; lia)). destruct h; try (inversion H; subst; lia).
  destruct (negb (n0 =? 0)%N && negb (n0 =? 1)%N); [inversion H; subst; lia|].
  destruct (g_read_payload fstream f_read_full (N.to_nat n) l1) as [r2 l2] eqn:E2. apply fpayload_len in E2.
  destruct r2 as [p| |]; try (inversion H; subst; lia).
  destruct (f_peek_discard 2 l2) as [r3 l3] eqn:E3. apply fpd_len in E3.
  destruct r3 as [ck| |]; try (inversion H; subst; lia).
  match type of H with context [is_signed ?f] => destruct (is_signed f) end; [|inversion H; subst; lia].
  destruct (f_peek_discard 13 l3) as [r4 l4] eqn:E4. apply fpd_len in E4.
  destruct r4; inversion H; subst; lia.
Qed.

(* progress: every call that does not report a transport error consumes at least one item;
   a transport error consumes the fault, or is EOF on the empty stream *)
Theorem flat_progress cfg st l r st' l' : flat_reader_read cfg st l = (r, st', l') ->
  match r with
  | RTransport e => length l' < length l \/ (e = e_eof /\ l = [] /\ l' = [])
  | _ => length l' < length l
  end.
Proof.
  unfold flat_reader_read, g_reader_read. intros H.
  destruct (f_read_byte l) as [rb l1] eqn:B. apply frb_len in B.
  destruct rb as [magic|e|]; [|inversion H; subst; exact B|contradiction].
  destruct (magic =? 254)%N.
  - destruct (g_unmarshal_v1 fstream f_peek_discard f_read_full l1) as [ru l2] eqn:U. apply um1_len in U.
    destruct ru as [f|e|]; try (inversion H; subst; lia).
    destruct (match r_inkey cfg with Some k => check_key k st f | None => (None, st) end) as [kerr st2].
    destruct kerr; [inversion H; subst; lia|].
    destruct (r_dialect cfg) as [d|]; inversion H; subst; [|lia].
    destruct (check_dialect d f); lia.
  - destruct (magic =? 253)%N; [|inversion H; subst; lia].
    destruct (g_unmarshal_v2 fstream f_peek_discard f_read_full l1) as [ru l2] eqn:U. apply um2_len in U.
    destruct ru as [f|e|]; try (inversion H; subst; lia).
    destruct (match r_inkey cfg with Some k => check_key k st f | None => (None, st) end) as [kerr st2].
    destruct kerr; [inversion H; subst; lia|].
    destruct (r_dialect cfg) as [d|]; inversion H; subst; [|lia].
    destruct (check_dialect d f); lia.
Qed.

Theorem progress cfg st s r st' s' : reader_read cfg st s = (r, st', s') ->
  match r with
  | RTransport e => stream_left s' < stream_left s \/ (e = e_eof /\ stream_left s = 0 /\ stream_left s' = 0)
  | _ => stream_left s' < stream_left s
  end.
Proof.
  intros H. pose proof (reader_read_flat cfg st s) as F. rewrite H in F.
  apply flat_progress in F. rewrite !items_len in F.
  destruct r; try exact F. destruct F as [F|(A & B & C)]; [left; exact F|right].
  rewrite <- !items_len. rewrite B, C. auto.
Qed.

(* ---- whole runs ---- *)
Fixpoint flat_read_all (fuel : nat) (cfg : rcfg) (st : rstate) (l : fstream) : list rresult :=
  match fuel with
  | O => []
  | S k =>
    let '(r, st', l') := flat_reader_read cfg st l in
    match r with
    | RTransport e => if (e =? e_eof)%N && Nat.eqb (length l') 0 then [r]
                      else r :: flat_read_all k cfg st' l'
    | _ => r :: flat_read_all k cfg st' l'
    end
  end.

Theorem read_all_flat fuel : forall cfg st s, read_all fuel cfg st s = flat_read_all fuel cfg st (items s).
Proof.
  induction fuel as [|k IH]; intros cfg st s; [reflexivity|].
  cbn [read_all flat_read_all]. rewrite reader_read_flat.
  destruct (reader_read cfg st s) as [[r st'] s']. rewrite items_len.
  destruct r; try (f_equal; apply IH).
  destruct ((e =? e_eof)%N && Nat.eqb (stream_left s') 0); [reflexivity|f_equal; apply IH].
Qed.

(* the sequence of results does not depend on how the transport splits the stream *)
Theorem chunking_irrelevant fuel cfg st s1 s2 : items s1 = items s2 ->
  read_all fuel cfg st s1 = read_all fuel cfg st s2.
Proof. intros H. rewrite !read_all_flat, H. reflexivity. Qed.

(* a stream of n items is exhausted in at most n+1 calls: with fuel n+1 the run ends by
   itself, on EOF with nothing left *)
Theorem exhausts_in_n_plus_1 : forall fuel cfg st l, length l < fuel ->
  exists rs, flat_read_all fuel cfg st l = rs ++ [RTransport e_eof] /\ length rs <= length l.
Proof.
  induction fuel as [|k IH]; intros cfg st l Hl; [lia|].
  cbn [flat_read_all]. destruct (flat_reader_read cfg st l) as [[r st'] l'] eqn:R.
  pose proof (flat_progress _ _ _ _ _ _ R) as P.
  assert (Step : length l' < length l -> exists rs, r :: flat_read_all k cfg st' l' = rs ++ [RTransport e_eof] /\ length rs <= length l).
  { intros Lt. destruct (IH cfg st' l') as [rs [E Le]]; [lia|]. exists (r :: rs). rewrite E. cbn. split; [reflexivity|lia]. }
  destruct r as [f|c|e]; try (apply Step; exact P).
  destruct P as [P|(A & B & C)].
  - destruct ((e =? e_eof)%N && Nat.eqb (length l') 0) eqn:T; [|apply Step; exact P].
    apply andb_prop in T. destruct T as [T _]. apply N.eqb_eq in T. subst e.
    exists []. cbn. split; [reflexivity|lia].
  - subst. cbn. exists []. cbn. split; [reflexivity|lia].
Qed.

Theorem read_all_exhausts cfg st s :
  exists rs, read_all (S (stream_left s)) cfg st s = rs ++ [RTransport e_eof] /\ length rs <= stream_left s.
Proof. rewrite read_all_flat, <- items_len. apply exhausts_in_n_plus_1. lia. Qed.

(* ---- resynchronisation ---- *)
Definition not_marker (b : N) : bool := negb (b =? 254)%N && negb (b =? 253)%N.

Lemma junk_byte cfg st b rest : not_marker b = true ->
  flat_reader_read cfg st (B b :: rest) = (RParse pe_magic, st, rest).
Proof.
  unfold not_marker. intros H. apply andb_prop in H. destruct H as [H1 H2].
  unfold flat_reader_read, g_reader_read. cbn [f_read_byte ftake].
  destruct (b =? 254)%N; [discriminate|]. destruct (b =? 253)%N; [discriminate|]. reflexivity.
Qed.

(* a stream made of valid frames, each preceded by junk bytes that are not frame markers:
   the results are one parse error per junk byte and every frame, in order *)
Fixpoint seg_items (segs : list (list N * (frame * list N))) : fstream :=
  match segs with
  | [] => []
  | (junk, (f, p)) :: t => map B junk ++ map B (spec_bytes f p) ++ seg_items t
  end.
Fixpoint seg_results (segs : list (list N * (frame * list N))) : list rresult :=
  match segs with
  | [] => []
  | (junk, (f, _)) :: t => map (fun _ => RParse pe_magic) junk ++ RFrame f :: seg_results t
  end.

Lemma junk_run : forall junk fuel st rest,
  Forall (fun b => not_marker b = true) junk ->
  flat_read_all (length junk + fuel) nocfg st (map B junk ++ rest) =
  map (fun _ => RParse pe_magic) junk ++ flat_read_all fuel nocfg st rest.
Proof.
  induction junk as [|b junk IH]; intros fuel st rest Hj; [reflexivity|].
  inversion Hj; subst. cbn [length Nat.add map app flat_read_all].
  rewrite junk_byte by assumption. f_equal. apply IH; assumption.
Qed.

Theorem valid_frames_with_junk_all_delivered : forall segs tail fuel st,
  Forall (fun '(junk, (f, p)) => Forall (fun b => not_marker b = true) junk /\ frame_wf f p) segs ->
  Forall (fun b => not_marker b = true) tail ->
  length (seg_items segs) + length tail < fuel ->
  flat_read_all fuel nocfg st (seg_items segs ++ map B tail) =
  seg_results segs ++ map (fun _ => RParse pe_magic) tail ++ [RTransport e_eof].
Proof.
  induction segs as [|[junk [f p]] segs IH]; intros tail fuel st Hs Ht Hf.
  - cbn [seg_items seg_results app] in *.
    replace fuel with (length tail + (fuel - length tail)) by lia.
    rewrite <- (app_nil_r (map B tail)). rewrite junk_run by assumption.
    f_equal. destruct (fuel - length tail) eqn:E; [lia|]. reflexivity.
  - inversion Hs as [|x y Hh Hrest]; subst. cbn beta iota in Hh. destruct Hh as [Hj Hw]. cbn [seg_items seg_results] in *.
    rewrite !app_length, !map_length in Hf.
    replace fuel with (length junk + (fuel - length junk)) by lia.
    rewrite <- !app_assoc. rewrite junk_run by assumption.
    f_equal.
    destruct (fuel - length junk) as [|k] eqn:E; [lia|]. cbn [flat_read_all].
    rewrite (read_spec_bytes nocfg f p st _ Hw). cbn [fst snd post_read nocfg r_inkey r_dialect]. cbn [app]. f_equal.
    apply IH; try assumption.
    assert (1 <= length (spec_bytes f p)) by (unfold spec_bytes; destruct (f_v2 f); cbn [app length]; lia). lia.
Qed.

(* ---- totality: the reader never panics ---- *)
Lemma fpd_ok_len n l h l' : f_peek_discard n l = (Ok h, l') -> length h = n.
Proof.
  unfold f_peek_discard. destruct (ftake n l) as [[x o] t] eqn:T. apply ftake_len in T.
  destruct o as [[|e]|]; intros H; inversion H; subst. tauto.
Qed.
Lemma fpd_no_panic n l l' : f_peek_discard n l <> (Panic, l').
Proof. unfold f_peek_discard. destruct (ftake n l) as [[x [[|e]|]] t]; discriminate. Qed.
Lemma frf_no_panic n l l' : f_read_full n l <> (Panic, l').
Proof. unfold f_read_full. destruct (ftake n l) as [[x [[|e]|]] t]; discriminate. Qed.
Lemma fpayload_no_panic n l l' : g_read_payload fstream f_read_full n l <> (Panic, l').
Proof. unfold g_read_payload. destruct n; [discriminate|apply frf_no_panic]. Qed.

Lemma um1_no_panic l l' : g_unmarshal_v1 fstream f_peek_discard f_read_full l <> (Panic, l').
Proof.
  unfold g_unmarshal_v1. intros H.
  destruct (f_peek_discard 5 l) as [r1 l1] eqn:E1.
  destruct r1 as [h| |]; [|discriminate|exact (fpd_no_panic _ _ _ E1)].
  apply fpd_ok_len in E1.
  do 5 (destruct h as [|? h]; [cbn in E1; lia|]). destruct h; [|cbn in E1; lia].
  destruct (g_read_payload fstream f_read_full (N.to_nat n) l1) as [r2 l2] eqn:E2.
  destruct r2 as [p| |]; [|discriminate|exact (fpayload_no_panic _ _ _ E2)].
  destruct (f_peek_discard 2 l2) as [r3 l3] eqn:E3.
  destruct r3; [discriminate|discriminate|exact (fpd_no_panic _ _ _ E3)].
Qed.

Lemma um2_no_panic l l' : g_unmarshal_v2 fstream f_peek_discard f_read_full l <> (Panic, l').
Proof.
  unfold g_unmarshal_v2. intros H.
  destruct (f_peek_discard 9 l) as [r1 l1] eqn:E1.
  destruct r1 as [h| |]; [|discriminate|exact (fpd_no_panic _ _ _ E1)].
  apply fpd_ok_len in E1.
  do 9 (destruct h as [|? h]; [cbn in E1; lia|]). destruct h; [|cbn in E1; lia].
  destruct (negb (n0 =? 0)%N && negb (n0 =? 1)%N); [discriminate|].
  destruct (g_read_payload fstream f_read_full (N.to_nat n) l1) as [r2 l2] eqn:E2.
  destruct r2 as [p| |]; [|discriminate|exact (fpayload_no_panic _ _ _ E2)].
  destruct (f_peek_discard 2 l2) as [r3 l3] eqn:E3.
  destruct r3 as [ck| |]; [|discriminate|exact (fpd_no_panic _ _ _ E3)].
  match type of H with context [is_signed ?f] => destruct (is_signed f) end; [|discriminate].
  destruct (f_peek_discard 13 l3) as [r4 l4] eqn:E4.
  destruct r4; [discriminate|discriminate|exact (fpd_no_panic _ _ _ E4)].
Qed.

(* what totality needs of the configured dialect: decoding never panics and re-encoding a
   decoded message never panics (both proved for well-formed codecs: CodecProofs, CodecIdem) *)
Definition codecs_total (cfg : rcfg) : Prop :=
  forall d id c, r_dialect cfg = Some d -> dlookup d id = Some c ->
  forall v2 p, msg_read c v2 p <> Panic /\
               forall v, msg_read c v2 p = Ok v -> exists p', msg_write c v2 v = Ok p'.

Lemma check_key_no_panic k st f : fst (check_key k st f) <> Some pe_panic.
Proof.
  unfold check_key. destruct (f_v2 f); cbn [negb]; [|discriminate].
  destruct (f_sig f); [|discriminate]. destruct (raw_of f) as [id p].
  destruct (negb _); [discriminate|]. destruct (window_refuse _ _); discriminate.
Qed.

Theorem flat_read_total cfg st l r st' l' : codecs_total cfg ->
  flat_reader_read cfg st l = (r, st', l') -> r <> RParse pe_panic.
Proof.
  unfold flat_reader_read, g_reader_read. intros CT H.
  destruct (f_read_byte l) as [rb l1] eqn:B0. pose proof (frb_len _ _ _ B0) as BL.
  destruct rb as [magic|e|]; [|inversion H; discriminate|contradiction].
  assert (Post : forall f l2, (let '(kerr, st'0) := match r_inkey cfg with
                                 | Some k => check_key k st f | None => (None, st) end in
                 match kerr with
                 | Some code => (RParse code, st'0, l2)
                 | None => match r_dialect cfg with
                           | Some d => (check_dialect d f, st'0, l2)
                           | None => (RFrame f, st'0, l2) end end) = (r, st', l') -> r <> RParse pe_panic).
  { intros f l2 HP. destruct (r_inkey cfg) as [k|].
    - pose proof (check_key_no_panic k st f) as NK. destruct (check_key k st f) as [kerr st2]. cbn [fst] in NK.
      destruct kerr as [code|].
      + inversion HP; subst. intros X; inversion X; subst. apply NK. reflexivity.
      + destruct (r_dialect cfg) as [d|] eqn:D; inversion HP; subst; [|discriminate].
        unfold check_dialect. destruct (raw_of f) as [id p]. destruct (dlookup d id) as [c|] eqn:L; [|discriminate].
        destruct (negb _); [discriminate|]. pose proof (CT d id c D L (f_v2 f) p) as [NP WP].
        destruct (msg_read c (f_v2 f) p) as [v| |]; [|discriminate|contradiction].
        destruct (WP v eq_refl) as [p' Ep]. rewrite Ep. destruct (bytes_eqb p' p); discriminate.
    - destruct (r_dialect cfg) as [d|] eqn:D; inversion HP; subst; [|discriminate].
      unfold check_dialect. destruct (raw_of f) as [id p]. destruct (dlookup d id) as [c|] eqn:L; [|discriminate].
      destruct (negb _); [discriminate|]. pose proof (CT d id c D L (f_v2 f) p) as [NP WP].
      destruct (msg_read c (f_v2 f) p) as [v| |]; [|discriminate|contradiction].
      destruct (WP v eq_refl) as [p' Ep]. rewrite Ep. destruct (bytes_eqb p' p); discriminate. }
  destruct (magic =? 254)%N.
  - destruct (g_unmarshal_v1 fstream f_peek_discard f_read_full l1) as [ru l2] eqn:U.
    destruct ru as [f|e|]; [exact (Post f l2 H)|inversion H; discriminate|exfalso; exact (um1_no_panic _ _ U)].
  - destruct (magic =? 253)%N; [|inversion H; discriminate].
    destruct (g_unmarshal_v2 fstream f_peek_discard f_read_full l1) as [ru l2] eqn:U.
    destruct ru as [f|e|]; [exact (Post f l2 H)|inversion H; discriminate|exfalso; exact (um2_no_panic _ _ U)].
Qed.

Theorem read_total cfg st s r st' s' : codecs_total cfg ->
  reader_read cfg st s = (r, st', s') -> r <> RParse pe_panic.
Proof.
  intros CT H. pose proof (reader_read_flat cfg st s) as F. rewrite H in F.
  exact (flat_read_total _ _ _ _ _ _ CT F).
Qed.
