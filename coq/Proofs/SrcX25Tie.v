(* Tie by translation, pkg/x25: gen/SrcX25.v is regenerated from /repo on every run by
   /verif/access; the hash the source computes, statement by statement, is the model's, hence
   CRC-16/MCRF4XX. *)
From Coq Require Import ZArith NArith List String Ascii Lia Bool Btauto.
From AAC_tactics Require Import AAC.
From GM Require Import SrcPrelude.
From GM Require Import SrcX25 Bytes X25 CrcProofs.
Import ListNotations.
Local Open Scope N_scope.

(* ---------------- x25.go ---------------- *)
Lemma wrap16_u16 x : wrap 16 x = u16 x.
Proof. reflexivity. Qed.
Lemma wrap8_u8 x : wrap 8 x = u8 x.
Proof. reflexivity. Qed.

Theorem src_x25_reset c : src_x25_X25_Reset c = x25_init.
Proof. reflexivity. Qed.

(* proved modulo associativity and commutativity of XOR and AND at every depth (AAC tactics), so that
   it does not depend on the order in which the source writes its operands *)
#[local] Instance lxor_A : Associative eq N.lxor := fun a b c => eq_sym (N.lxor_assoc a b c).
#[local] Instance lxor_C : Commutative eq N.lxor := N.lxor_comm.
#[local] Instance land_A : Associative eq N.land := N.land_assoc.
#[local] Instance land_C : Commutative eq N.land := N.land_comm.
Theorem src_x25_step c b : src_x25_X25_Write_loop1 c b = x25_step c b.
Proof.
  unfold src_x25_X25_Write_loop1, x25_step, x25_tmp, x25_tab, wrap, u16. change (2 ^ 16) with 65536.
  cbv zeta. aac_reflexivity.
Qed.

Theorem src_x25_write : forall p c, src_x25_X25_Write c p = x25_write c p.
Proof.
  unfold src_x25_X25_Write, x25_write. induction p as [|b p IH]; intros c; [reflexivity|].
  cbn [fold_left]. rewrite src_x25_step. apply IH.
Qed.

Theorem src_x25_sum16 c : src_x25_X25_Sum16 c = c.
Proof. reflexivity. Qed.

Theorem src_x25_sum c b : src_x25_X25_Sum c b = (b ++ x25_sum_bytes c)%list.
Proof. reflexivity. Qed.

(* the hash of the source is CRC-16/MCRF4XX (composition with Proofs/CrcProofs.v) *)
Theorem src_x25_is_mcrf4xx p : bytes_ok p = true ->
  src_x25_X25_Write (src_x25_X25_Reset 0) p = GM.Spec.Crc.mcrf4xx p.
Proof. intros H. rewrite src_x25_reset, src_x25_write. apply (x25_sum_is_mcrf4xx p H). Qed.


Theorem src_x25_new : src_x25_New = x25_init.
Proof. reflexivity. Qed.

Theorem src_x25_constants : Z.of_N x25_init = d_x25_X25_Reset_crc.
Proof. reflexivity. Qed.
