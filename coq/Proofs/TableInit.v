(* every shipped message struct has the shape the generic theorem initialize_is_spec is about
   (so its hypotheses are met by 408 real structs, regenerated from /repo on every run) *)
From GM Require Import Bytes Result Codec Layout Tables LayoutSpec Dialects TableLayout InitSpec.

Theorem all_shipped_accepted_shape : forallb gostruct_ok all_gostructs = true.
Proof. vm_compute. reflexivity. Qed.
