From Coq Require Import Lia ZifyN ZifyNat ZifyBool.
From GM Require Import Bytes X25 Crc Reflect.
Open Scope N_scope.

(* ---- the code's step is the catalogue's bit-serial register, on all 2^24 pairs ---- *)

(* 1. the 8-round register splits: bit8 v = (v >> 8) xor bit8 (v land 255), for all 16-bit v *)
Definition p_split (v : N) : bool :=
  crc_bit8 v =? N.lxor (N.shiftr v 8) (crc_bit8 (N.land v 255)).
Lemma split_chk : allbits 16 p_split = true.
Proof. vm_compute. reflexivity. Qed.
Lemma crc_bit8_split v : v < 2 ^ N.of_nat 16 ->
  crc_bit8 v = N.lxor (N.shiftr v 8) (crc_bit8 (N.land v 255)).
Proof. intros H. apply N.eqb_eq. exact (allbits_sound 16 p_split split_chk v H). Qed.

(* 2. the code's table-free byte formula is bit8 on bytes *)
Definition p_tab (x : N) : bool := x25_tab (x25_tmp x) =? crc_bit8 x.
Lemma tab_chk : allbits 8 p_tab = true.
Proof. vm_compute. reflexivity. Qed.
Lemma x25_tab_is_bit8 x : x < 2 ^ N.of_nat 8 -> x25_tab (x25_tmp x) = crc_bit8 x.
Proof. intros H. apply N.eqb_eq. exact (allbits_sound 8 p_tab tab_chk x H). Qed.

Lemma lxor_lt_pow2 a b n : a < 2 ^ n -> b < 2 ^ n -> N.lxor a b < 2 ^ n.
Proof.
  intros Ha Hb.
  destruct (N.eq_dec (N.lxor a b) 0) as [E|NE]; [rewrite E; apply N.neq_0_lt_0, N.pow_nonzero; lia|].
  apply N.log2_lt_pow2; [lia|].
  eapply N.le_lt_trans; [apply N.log2_lxor|].
  apply N.max_lub_lt.
  - destruct (N.eq_dec a 0) as [->|Na]; [cbn|apply N.log2_lt_pow2; lia].
    destruct (N.eq_dec n 0) as [->|]; [cbn in Hb; assert (b = 0) by lia; subst; cbn in NE; lia|lia].
  - destruct (N.eq_dec b 0) as [->|Nb]; [cbn|apply N.log2_lt_pow2; lia].
    destruct (N.eq_dec n 0) as [->|]; [cbn in Ha; assert (a = 0) by lia; subst; cbn in NE; lia|lia].
Qed.

Lemma land_lxor_distr_l a b m : N.land (N.lxor a b) m = N.lxor (N.land a m) (N.land b m).
Proof.
  apply N.bits_inj. intros n. rewrite N.land_spec, !N.lxor_spec, !N.land_spec.
  destruct (N.testbit a n), (N.testbit b n), (N.testbit m n); reflexivity.
Qed.

Lemma land255_lt x : N.land x 255 < 256.
Proof. change 255 with (N.ones 8). rewrite N.land_ones. apply N.mod_lt. discriminate. Qed.

Theorem x25_step_is_mcrf4xx c b :
  c < 65536 -> b < 256 -> x25_step c b = mcrf4xx_step c b.
Proof.
  intros Hc Hb. unfold x25_step, mcrf4xx_step.
  assert (Hx : N.lxor c b < 2 ^ N.of_nat 16).
  { change (2 ^ N.of_nat 16) with (2 ^ 16). apply lxor_lt_pow2; [exact Hc|].
    eapply N.lt_trans; [exact Hb|reflexivity]. }
  rewrite (crc_bit8_split _ Hx).
  assert (Hs : N.shiftr (N.lxor c b) 8 = N.shiftr c 8).
  { rewrite N.shiftr_lxor. rewrite (N.shiftr_div_pow2 b 8).
    change (2 ^ 8) with 256. rewrite (N.div_small b 256 Hb). apply N.lxor_0_r. }
  assert (Hl : N.land (N.lxor c b) 255 = N.lxor b (N.land c 255)).
  { rewrite land_lxor_distr_l. rewrite N.lxor_comm. f_equal.
    change 255 with (N.ones 8). rewrite N.land_ones. apply N.mod_small. exact Hb. }
  rewrite Hs, Hl. f_equal.
  apply x25_tab_is_bit8. change (2 ^ N.of_nat 8) with (2 ^ 8).
  apply lxor_lt_pow2; [exact Hb|apply land255_lt].
Qed.

Lemma crc_bit_lt v : v < 65536 -> crc_bit v < 65536.
Proof.
  intros H. unfold crc_bit.
  assert (N.shiftr v 1 < 2 ^ 16).
  { rewrite N.shiftr_div_pow2. change (2 ^ 1) with 2. change (2 ^ 16) with 65536.
    apply N.div_lt_upper_bound; lia. }
  destruct (N.odd v); [|exact H0].
  change 65536 with (2 ^ 16). apply lxor_lt_pow2; [exact H0|reflexivity].
Qed.

Lemma mcrf4xx_step_lt c b : c < 65536 -> b < 256 -> mcrf4xx_step c b < 65536.
Proof.
  intros Hc Hb. unfold mcrf4xx_step, crc_bit8. cbn [iter].
  assert (N.lxor c b < 65536).
  { change 65536 with (2 ^ 16). apply lxor_lt_pow2; [exact Hc|].
    eapply N.lt_trans; [exact Hb|reflexivity]. }
  repeat apply crc_bit_lt. exact H.
Qed.

Lemma x25_step_lt c b : c < 65536 -> b < 256 -> x25_step c b < 65536.
Proof. intros. rewrite x25_step_is_mcrf4xx by assumption. apply mcrf4xx_step_lt; assumption. Qed.

Lemma x25_write_app a b c : x25_write c (a ++ b) = x25_write (x25_write c a) b.
Proof. unfold x25_write. apply fold_left_app. Qed.

Lemma x25_write_is_mcrf4xx p : forall c, c < 65536 -> bytes_ok p = true ->
  x25_write c p = fold_left mcrf4xx_step p c /\ x25_write c p < 65536.
Proof.
  induction p as [|b p IH]; intros c Hc Hp; cbn [x25_write fold_left].
  - split; [reflexivity|exact Hc].
  - cbn [bytes_ok forallb] in Hp. apply andb_prop in Hp. destruct Hp as [Hb Hp].
    unfold byte_ok in Hb. apply N.ltb_lt in Hb.
    rewrite (x25_step_is_mcrf4xx c b Hc Hb).
    apply (IH (mcrf4xx_step c b)); [apply mcrf4xx_step_lt; assumption|exact Hp].
Qed.

Theorem x25_sum_is_mcrf4xx p : bytes_ok p = true -> x25_sum p = mcrf4xx p.
Proof. intros H. unfold x25_sum, mcrf4xx. apply x25_write_is_mcrf4xx; [reflexivity|exact H]. Qed.
