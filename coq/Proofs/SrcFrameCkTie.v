(* Tie by translation, pkg/frame: GenerateChecksum of both frame versions, translated statement by
   statement (x25.New, the Write calls in their order, Sum16), computes the model's gen_checksum:
   the X.25 hash over length .. payload followed by CRC_EXTRA. *)
From Coq Require Import ZArith NArith List Lia Bool.
From GM Require Import SrcPrelude SrcX25 SrcFrame Bytes Result X25 Frame SrcX25Tie SrcFrameLemmas.
Import ListNotations.
Local Open Scope N_scope.
Local Open Scope list_scope.

Lemma x25_write_app' a b c : x25_write c (a ++ b) = x25_write (x25_write c a) b.
Proof. unfold x25_write. apply fold_left_app. Qed.

Theorem src_v1_checksum f id p extra : f_v2 f = false ->
  src_frame_V1Frame_GenerateChecksum (f_seq f) (f_sys f) (f_comp f) extra p id = gen_checksum f id p extra.
Proof.
  intros V. unfold src_frame_V1Frame_GenerateChecksum, gen_checksum, checksum_input, x25_sum. rewrite V.
  rewrite !src_x25_write, src_x25_new, src_x25_sum16, !wrap8_u8.
  rewrite <- !x25_write_app'. reflexivity.
Qed.

Theorem src_v2_checksum f id p extra : f_v2 f = true ->
  src_frame_V2Frame_GenerateChecksum (f_inc f) (f_cmp f) (f_seq f) (f_sys f) (f_comp f) extra p id = gen_checksum f id p extra.
Proof.
  intros V. unfold src_frame_V2Frame_GenerateChecksum, gen_checksum, checksum_input, x25_sum. rewrite V.
  rewrite !src_x25_write, src_x25_new, src_x25_sum16, !wrap8_u8.
  change (on_suffix (repeat 0 3) 0 (fun s_ => src_frame_uint24Encode s_ id)) with (src_frame_uint24Encode [0;0;0] id).
  rewrite src_uint24_encode. rewrite app_nil_r.
  rewrite <- !x25_write_app'. reflexivity.
Qed.

