(* Extraction of the executable models for the correspondence driver.
   ExtrOcamlBasic only: bool, option, unit, list, prod, sumbool -> OCaml's; N, Z, positive,
   nat stay the extracted inductive types (2^64 exceeds OCaml int). *)
From Coq Require Import Extraction ExtrOcamlBasic ZArith.
From GM Require Import Bytes X25 Crc Result Codec Layout Sha256 Frame Stream Reader Writer Dialect Tlog Enum NodeSpec Provider Heartbeat Gen Idle.
Extraction Language OCaml.
Extraction "mdl.ml"
  N.add N.mul N.of_nat N.to_nat N.eqb N.ltb N.div N.modulo N.shiftl N.shiftr Z.of_N Z.to_N
  x25_step x25_write x25_sum mcrf4xx
  msg_read msg_write read_backing_after initialize
  sha256 marshal gen_checksum gen_signature
  idle_close
  process_message parse_enum_value dialect_of def_to_go
  hb_ticks hb_message hb_enabled hbcfg_of srcfg_of sr_observe sr_enabled
  provider timed_calls fan_ok fan_sub_ok sublist_b list_eqb_nat marshal_text unmarshal_text tlog_write_all tlog_read_n fix_frame dialect_init dlookup reader_read read_all read_all_c stream_left frame_write stream_write writer_init nondec.
