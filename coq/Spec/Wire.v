(* The MAVLink serialization layout of a frame, in plain arithmetic (no shifts, no code). *)
From GM Require Export Frame.

Definition frame_id (f : frame) : N := msg_id (f_msg f).

Definition sig_block (f : frame) : list N :=
  match f_sig f with
  | Some s =>
    let t := f_ts f in
    [f_link f; t mod 256; (t / 256) mod 256; (t / 65536) mod 256; (t / 16777216) mod 256;
     (t / 4294967296) mod 256; t / 1099511627776] ++ s
  | None => []
  end.

Definition spec_bytes (f : frame) (p : list N) : list N :=
  let id := frame_id f in
  let ck := f_ck f in
  if f_v2 f then
    [253; nlen p; f_inc f; f_cmp f; f_seq f; f_sys f; f_comp f; id mod 256; (id / 256) mod 256; id / 65536]
      ++ p ++ [ck mod 256; ck / 256] ++ (if f_inc f =? 1 then sig_block f else [])
  else
    [254; nlen p; f_seq f; f_sys f; f_comp f; id] ++ p ++ [ck mod 256; ck / 256].

(* well-formed frames: the domain of C01 *)
Definition frame_wf (f : frame) (p : list N) : Prop :=
  f_msg f = MRaw (frame_id f) p /\
  bytes_ok p = true /\ (length p <= 255)%nat /\
  f_seq f < 256 /\ f_sys f < 256 /\ f_comp f < 256 /\ f_ck f < 65536 /\
  if f_v2 f then
    frame_id f < 16777216 /\ f_cmp f < 256 /\
    ((f_inc f = 0 /\ f_sig f = None /\ f_link f = 0 /\ f_ts f = 0) \/
     (f_inc f = 1 /\ f_link f < 256 /\ f_ts f < 281474976710656 /\
      exists s, f_sig f = Some s /\ length s = 6%nat /\ bytes_ok s = true))
  else
    frame_id f < 256 /\ f_inc f = 0 /\ f_cmp f = 0 /\ f_sig f = None /\ f_link f = 0 /\ f_ts f = 0.
