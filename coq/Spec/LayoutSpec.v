(* What the MAVLink serialization rules derive from a message definition: field order,
   payload sizes, CRC_EXTRA.  Written from the specification (mavlink.io serialization guide,
   pymavlink mavparse), not from the code: arithmetic on unbounded numbers, the bit-serial CRC
   of Spec/Crc.v, a filter-based stable ordering. *)
From Coq Require Import ZArith.
From GM Require Export Codec Layout Crc.

Record mfield := mkMField {
  mf_type : ftype;            (* wire type *)
  mf_name : list N;           (* definition name *)
  mf_arr : option N;          (* array length of the definition, if it has one *)
  mf_ext : bool;
  mf_enum : bool;
  mf_idx : nat                (* declaration position *)
}.
Record mavdef := mkMavDef { md_name : list N; md_fields : list mfield }.

(* ---- the definition a Go message struct denotes ---- *)
Definition snake (up : bool) (s : list N) : list N :=
  let fix go (first : bool) (s : list N) : list N :=
    match s with
    | [] => []
    | c :: t => (if is_upper c && negb first then [95] else []) ++
                [if up then to_upper c else to_lower c] ++ go false t
    end in go true s.

Definition def_field (i : nat) (g : gofield) : option mfield :=
  let name := match g_tag_name g with [] => snake false (g_name g) | n => n end in
  let ext := bytes_eqb (g_tag_ext g) s_true in
  match g_tag_enum g with
  | _ :: _ =>
    match ftype_from_go (g_tag_enum g) with
    | Some t => Some (mkMField t name (if g_isarr g then Some (g_arrlen g) else None) ext true i)
    | None => None
    end
  | [] =>
    match ftype_from_go (g_tname g) with
    | Some TChar =>
      match g_tag_len g with
      | [] => Some (mkMField TChar name None ext false i)                 (* plain char *)
      | tl => match atoi tl with
              | Some z => Some (mkMField TChar name (Some (Z.to_N z)) ext false i)   (* char[n] *)
              | None => None
              end
      end
    | Some t => Some (mkMField t name (if g_isarr g then Some (g_arrlen g) else None) ext false i)
    | None => None
    end
  end.

Fixpoint def_fields (i : nat) (gs : list gofield) : option (list mfield) :=
  match gs with
  | [] => Some []
  | g :: t => match def_field i g, def_fields (S i) t with
              | Some f, Some r => Some (f :: r)
              | _, _ => None
              end
  end.

Definition def_of (g : gostruct) : option mavdef :=
  if has_prefix s_Message (gs_name g) then
    match def_fields 0 (gs_fields g) with
    | Some fs => Some (mkMavDef (snake true (skipn 7 (gs_name g))) fs)
    | None => None
    end
  else None.

(* ---- the rules ---- *)
Definition msize (f : mfield) : nat := ftype_size (mf_type f).

(* base fields by descending primitive size, declaration order kept among equals;
   extension fields last, in declaration order *)
Definition spec_order (fs : list mfield) : list mfield :=
  concat (map (fun s => filter (fun f => negb (mf_ext f) && Nat.eqb (msize f) s) fs) [8; 4; 2; 1]%nat)
  ++ filter mf_ext fs.

Definition mlen (f : mfield) : N :=
  N.of_nat (msize f) * match mf_arr f with Some n => n | None => 1 end.
Definition spec_size_ext (fs : list mfield) : N := fold_right (fun f a => mlen f + a) 0 fs.
Definition spec_size_base (fs : list mfield) : N :=
  fold_right (fun f a => if mf_ext f then a else mlen f + a) 0 fs.

(* CRC_EXTRA: CRC-16/MCRF4XX over "NAME " then, per base field in wire order, "type name "
   and the array length byte when the field is an array; low byte xor high byte *)
Definition spec_crc_text (d : mavdef) : list N :=
  md_name d ++ [32] ++
  concat (map (fun f => ftype_string (mf_type f) ++ [32] ++ mf_name f ++ [32] ++
                        match mf_arr f with Some n => [n] | None => [] end)
              (filter (fun f => negb (mf_ext f)) (spec_order (md_fields d)))).
Definition spec_crc_extra (d : mavdef) : N :=
  let c := mcrf4xx (spec_crc_text d) in N.lxor (c mod 256) (c / 256).

(* ---- comparison of an initialised codec with the spec ---- *)
Definition field_matches (f : field) (m : mfield) : bool :=
  Nat.eqb (fd_index f) (mf_idx m) && ftype_eqb (fd_type f) (mf_type m) &&
  bytes_eqb (fd_name f) (mf_name m) && Bool.eqb (fd_ext f) (mf_ext m) && Bool.eqb (fd_enum f) (mf_enum m) &&
  match mf_arr m with
  | Some n => (fd_alen f =? n) && fd_haslen f
  | None => negb (fd_haslen f) && (fd_alen f =? (if ftype_eqb (mf_type m) TChar && negb (mf_enum m) then 1 else 0))
  end.

Fixpoint all2 {A B} (p : A -> B -> bool) (l1 : list A) (l2 : list B) : bool :=
  match l1, l2 with
  | [], [] => true
  | a :: t1, b :: t2 => p a b && all2 p t1 t2
  | _, _ => false
  end.

Definition codec_matches_spec (c : codec) (d : mavdef) : bool :=
  all2 field_matches (c_fields c) (spec_order (md_fields d)) &&
  (c_size_normal c =? spec_size_base (md_fields d)) &&
  (c_size_ext c =? spec_size_ext (md_fields d)) &&
  (c_crc c =? spec_crc_extra d) &&
  (spec_size_ext (md_fields d) <=? 255).

(* a Go struct follows the spec when it initialises, denotes a definition, and the codec is
   the one the rules derive from that definition *)
Definition struct_follows_spec (g : gostruct) : bool :=
  match initialize g, def_of g with
  | Ok c, Some d => codec_matches_spec c d
  | _, _ => false
  end.
