(* Specification of a byte stream independently of how the transport chops it: a sequence of
   items, each a byte or a transport fault; after the sequence every read reports EOF. *)
From GM Require Export Result Stream.

Inductive item := B (b : N) | E (e : N).
Definition fstream := list item.

Fixpoint flatten (r : list chunk) : fstream :=
  match r with
  | [] => []
  | Data d :: t => map B d ++ flatten t
  | Fail e :: t => E e :: flatten t
  end.
Definition items (s : stream) : fstream := map B (s_buf s) ++ flatten (s_rest s).

Inductive stop := SEnd | SErr (e : N).

(* take n bytes; stops at the end of the stream or at a fault (which is removed) *)
Fixpoint ftake (n : nat) (l : fstream) : list N * option stop * fstream :=
  match n with
  | O => ([], None, l)
  | S k => match l with
           | [] => ([], Some SEnd, [])
           | B b :: t => let '(x, o, r) := ftake k t in (b :: x, o, r)
           | E e :: t => ([], Some (SErr e), t)
           end
  end.

Definition f_read_byte (l : fstream) : res N * fstream :=
  match ftake 1 l with
  | ([b], None, r) => (Ok b, r)
  | (_, Some SEnd, r) => (Err e_eof, r)
  | (_, Some (SErr e), r) => (Err e, r)
  | (_, None, r) => (Panic, r)
  end.

(* a short stream: the fault (if any) is consumed, the bytes stay *)
Definition f_peek_discard (n : nat) (l : fstream) : res (list N) * fstream :=
  match ftake n l with
  | (x, None, r) => (Ok x, r)
  | (x, Some SEnd, r) => (Err e_eof, map B x ++ r)
  | (x, Some (SErr e), r) => (Err e, map B x ++ r)
  end.

(* a short stream: the bytes are consumed too *)
Definition f_read_full (n : nat) (l : fstream) : res (list N) * fstream :=
  match ftake n l with
  | (x, None, r) => (Ok x, r)
  | (x, Some SEnd, r) => (Err (match x with [] => e_eof | _ => e_unexpected_eof end), r)
  | (x, Some (SErr e), r) => (Err e, r)
  end.
