(* CRC-16/MCRF4XX as the catalogue defines it: reflected polynomial 0x1021 (0x8408),
   init 0xFFFF, no final xor; bit-at-a-time register.  Independent of the code's shape. *)
From GM Require Export Bytes.

Definition crc_bit (v : N) : N :=
  if N.odd v then N.lxor (N.shiftr v 1) 33800 (* 0x8408 *) else N.shiftr v 1.
Fixpoint iter {A} (n : nat) (f : A -> A) (x : A) : A :=
  match n with O => x | S k => iter k f (f x) end.
Definition crc_bit8 (v : N) : N := iter 8 crc_bit v.
Definition mcrf4xx_step (crc b : N) : N := crc_bit8 (N.lxor crc b).
Definition mcrf4xx (p : list N) : N := fold_left mcrf4xx_step p 65535.
