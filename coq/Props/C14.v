(* C14 — Channel lifecycle under faults.  Statements only (partial: enforcement of deadlines is the
   operating system's; measured by the scenario harness over loopback). *)
From Coq Require Import List.
Import ListNotations.
From GM Require Import Provider ProviderProofs Node NodeBase NodeEvents Idle IdleProofs.

(* client-type endpoints, any script of connection outcomes and channel ends: open and close
   events alternate, one pair per successful connection, each close carrying that channel's cause *)
Theorem C14_open_close_alternate : forall b script, filter is_oc (provider b script) = lives script.
Proof. exact open_close_alternate. Qed.
Print Assumptions C14_open_close_alternate.

Theorem C14_at_most_one_open : forall b script,
  Forall (fun n => n <= 1) (open_count 0 (filter is_oc (provider b script))).
Proof. exact at_most_one_open. Qed.
Print Assumptions C14_at_most_one_open.

(* a fresh attempt follows every outcome — any number of consecutive failures, failed connection
   attempts included — and every attempt but the very first comes right after one back-off *)
Theorem C14_reconnects_after_every_failure : forall b script,
  length (filter is_attempt (provider b script)) = length script.
Proof. exact reconnects_after_every_failure. Qed.
Print Assumptions C14_reconnects_after_every_failure.
Theorem C14_backoff_before_every_retry : forall script, spaced true (provider true script) = true.
Proof. exact backoff_before_every_retry. Qed.
Print Assumptions C14_backoff_before_every_retry.

Theorem C14_server_one_channel_per_peer : forall peers,
  map fst (server peers) = peers /\ length (server peers) = length peers.
Proof. exact server_one_channel_per_peer. Qed.
Print Assumptions C14_server_one_channel_per_peer.

Theorem C14_deadline_armed_every_call : forall ops, armed (timed_calls ops) = true.
Proof. exact deadline_armed_every_call. Qed.
Print Assumptions C14_deadline_armed_every_call.

(* on the node LTS: the close event a channel attempts carries the error its reader returned *)
Theorem C14_close_event_carries_cause : forall s c ch, reachable s -> nth_error (chans s) c = Some ch ->
  rd ch <> RdInit -> exists cl,
  started_evs ch ++ pending_sr ch = EOpen :: flat_map evs_of_res (consumed ch) ++ cl /\ close_part ch cl.
Proof. exact stream_grammar. Qed.
Print Assumptions C14_close_event_carries_cause.

(* idle expiry (times in ms, every Read arms a fresh deadline d after the moment it is called): a
   channel that keeps receiving — no silence longer than d — is not closed before d after its LAST
   reception; the first silence longer than d closes it d after the reception that preceded it;
   never earlier than d after the pending Read was called.  (That the operating system fires the
   deadline is measured by the scenarios within a bracket.) *)
Theorem C14_idle_keeps_open : forall d arr t, steady d t arr -> idle_close d t arr = (last arr t + d)%N.
Proof. exact idle_keeps_open. Qed.
Print Assumptions C14_idle_keeps_open.
Theorem C14_idle_closes_on_silence : forall d pre t a post, steady d t pre -> (last pre t + d < a)%N ->
  idle_close d t (pre ++ a :: post) = (last pre t + d)%N.
Proof. exact idle_closes_on_silence. Qed.
Print Assumptions C14_idle_closes_on_silence.
Theorem C14_idle_not_early : forall d arr t, (t + d <= idle_close d t arr)%N.
Proof. exact idle_not_early. Qed.
Print Assumptions C14_idle_not_early.


(* ---- tie by translation (gen/SrcGomavlib.v regenerated from the source on every run) ---- the
   time-outs a node falls back to are constants of the source, independent of one another: reads and
   writes 10 s, idle expiry 60 s whatever ReadTimeout is, reconnect delay 2 s *)
From Coq Require Import ZArith.
From GM Require Import SrcGomavlib SrcNodeTie.
Theorem C14_source_timeout_defaults :
  (d_gomavlib_Node_Initialize_ReadTimeout = 10000000000 /\ d_gomavlib_Node_Initialize_WriteTimeout = 10000000000 /\
   d_gomavlib_Node_Initialize_IdleTimeout = 60000000000 /\ d_gomavlib_Node_Initialize_HeartbeatPeriod = 5000000000 /\
   v_gomavlib_reconnectPeriod = 2000000000)%Z.
Proof. exact src_timeout_defaults. Qed.
Print Assumptions C14_source_timeout_defaults.
