(* C05 — Frame reader: total, makes progress, resynchronises.  Statements only. *)
From GM Require Import Bytes Result Codec Frame Wire Stream FlatStream Reader ReaderSim FrameProofs ReaderProgress.

(* the sequence of results does not depend on how the transport splits the stream: equal item
   sequences (bytes and faults in order) give equal result sequences *)
Theorem C05_chunking_irrelevant : forall fuel cfg st s1 s2, items s1 = items s2 ->
  read_all fuel cfg st s1 = read_all fuel cfg st s2.
Proof. exact chunking_irrelevant. Qed.
Print Assumptions C05_chunking_irrelevant.

(* one call agrees with the reader over the flat specification stream *)
Theorem C05_reader_is_flat_reader : forall cfg st s,
  flat_reader_read cfg st (items s) = (let '(r, st', s') := reader_read cfg st s in (r, st', items s')).
Proof. exact reader_read_flat. Qed.
Print Assumptions C05_reader_is_flat_reader.

(* never a panic: each call returns a frame, a parse error or the transport's error *)
Theorem C05_read_total : forall cfg st s r st' s', codecs_total cfg ->
  reader_read cfg st s = (r, st', s') -> r <> RParse pe_panic.
Proof. exact read_total. Qed.
Print Assumptions C05_read_total.

(* each call that does not report a transport error consumes at least one byte *)
Theorem C05_progress : forall cfg st s r st' s', reader_read cfg st s = (r, st', s') ->
  match r with
  | RTransport e => (stream_left s' < stream_left s)%nat \/ (e = e_eof /\ stream_left s = 0%nat /\ stream_left s' = 0%nat)
  | _ => (stream_left s' < stream_left s)%nat
  end.
Proof. exact progress. Qed.
Print Assumptions C05_progress.

(* a stream of n items is exhausted in at most n+1 calls *)
Theorem C05_exhausts_in_n_plus_1 : forall cfg st s,
  exists rs, read_all (S (stream_left s)) cfg st s = rs ++ [RTransport e_eof] /\ (length rs <= stream_left s)%nat.
Proof. exact read_all_exhausts. Qed.
Print Assumptions C05_exhausts_in_n_plus_1.

(* valid frames separated by non-marker junk: one parse error per junk byte, every frame, in order *)
Theorem C05_valid_frames_with_junk_all_delivered : forall segs tail fuel st,
  Forall (fun '(junk, (f, p)) => Forall (fun b => not_marker b = true) junk /\ frame_wf f p) segs ->
  Forall (fun b => not_marker b = true) tail ->
  (length (seg_items segs) + length tail < fuel)%nat ->
  flat_read_all fuel nocfg st (seg_items segs ++ map B tail) =
  seg_results segs ++ map (fun _ => RParse pe_magic) tail ++ [RTransport e_eof].
Proof. exact valid_frames_with_junk_all_delivered. Qed.
Print Assumptions C05_valid_frames_with_junk_all_delivered.

(* what a frame call consumed is exactly that frame's bytes: the spec bytes of a well-formed
   frame are parsed to that frame and what followed is left *)
Theorem C05_frame_matches_consumed : forall cfg f p st rest, frame_wf f p ->
  flat_reader_read cfg st (map B (spec_bytes f p) ++ rest) =
  (fst (post_read cfg st f), snd (post_read cfg st f), rest).
Proof. exact read_spec_bytes. Qed.
Print Assumptions C05_frame_matches_consumed.
