(* C18 — Dialect generator: generated Go means what the XML says.  Statements only.
   Partial: the model stops at the Go declarations the generator emits, described the way reflection
   reports them once compiled; that the Go compiler turns the emitted text into exactly those types
   is checked by compiling what the real generator wrote for random definitions and reflecting on it
   (correspondence), as are includes, enum merging, determinism of the written files. *)
From Coq Require Import List NArith ZArith.
Import ListNotations.
From GM Require Import Bytes Result Codec Layout LayoutSpec Enum Gen GenProofs InitSpec GenSpec GenEnumProofs.
Local Open Scope N_scope.

(* every valid message definition — name [A-Z][A-Z0-9_]*, fields of any MAVLink scalar type, arrays
   and strings of 1..255 elements, enum-typed integer fields, extensions, any field name that starts
   with a letter (snake case or not) — is accepted, and the struct generated for it denotes exactly
   that definition when read by the run-time rules (LayoutSpec.def_of): message name, and per field
   wire type, definition name, array length, extension flag, enum flag, declaration position *)
Theorem C18_message_denotes_definition : forall name id fs,
  valid_msg_name name = true -> Forall valid_afield fs ->
  exists g, process_message (mkXMsg name id (map render_field fs)) = Ok g /\
            def_of g = Some (mkMavDef name (abstract_fields 0 fs)).
Proof. exact message_denotes_definition. Qed.
Print Assumptions C18_message_denotes_definition.

(* composed with the run-time (C03, generic): the struct generated for a valid definition whose
   extension flags only go from base to extension, whose payload fits 255 bytes and whose names are
   bytes, initialises, and its field order, sizes and CRC_EXTRA are the ones the MAVLink rules
   assign to the XML definition *)
Theorem C18_generated_message_follows_spec : forall name id fs,
  valid_msg_name name = true -> Forall valid_afield fs -> exts_last_b (map af_ext fs) = true ->
  spec_size_ext (abstract_fields 0 fs) <= 255 ->
  bytes_ok (spec_crc_text (mkMavDef name (abstract_fields 0 fs))) = true ->
  exists g c, process_message (mkXMsg name id (map render_field fs)) = Ok g /\ initialize g = Ok c /\
              codec_matches_spec c (mkMavDef name (abstract_fields 0 fs)) = true.
Proof. exact generated_message_follows_spec. Qed.
Print Assumptions C18_generated_message_follows_spec.

(* the Go type name read back by the run-time inversion is the definition's message name *)
Theorem C18_message_name_recovered : forall s, valid_msg_name s = true ->
  exists c t, def_to_go s = Ok (c :: t) /\ is_upper c = true /\ snake true (c :: t) = s /\ msg_go_to_def (c :: t) = Ok s.
Proof. exact message_name_recovered. Qed.
Print Assumptions C18_message_name_recovered.

(* every type attribute of the schema, every length 1..255 *)
Theorem C18_field_type_correct : forall t arr, match arr with Some n => 1 <= n <= 255 | None => True end ->
  field_type (render_type t arr) = expected_field_type t arr.
Proof. exact field_type_correct. Qed.
Print Assumptions C18_field_type_correct.

(* enum values: decimal numerals are read exactly, x**y is x^y on uint64 *)
Theorem C18_decimal_enum_value : forall n, n < two64 -> parse_enum_value (utoa n) = Some n.
Proof. exact decimal_value_parsed. Qed.
Print Assumptions C18_decimal_enum_value.
Theorem C18_hex_enum_value : forall n, n < two64 -> parse_enum_value ([48; 120] ++ render_base 17 16 n) = Some n.
Proof. exact hex_value_parsed. Qed.
Print Assumptions C18_hex_enum_value.
Theorem C18_binary_enum_value : forall n, n < two64 -> parse_enum_value ([48; 98] ++ render_base 65 2 n) = Some n.
Proof. exact binary_value_parsed. Qed.
Print Assumptions C18_binary_enum_value.
Theorem C18_power_enum_value : forall x y, x < two64 -> y < two64 -> uint_pow x y = (x ^ y) mod two64.
Proof. exact uint_pow_spec. Qed.
Print Assumptions C18_power_enum_value.

(* what the generator cannot express is an error *)
Theorem C18_unknown_type_is_error : forall f newname back,
  def_to_go (xf_name f) = Ok newname -> gen_go_to_def newname = Ok back ->
  field_type (xf_type f) = Err err_gen -> process_field f = Err err_gen.
Proof. exact unknown_type_is_error. Qed.
Print Assumptions C18_unknown_type_is_error.
Theorem C18_bad_message_name_is_error : forall m, msg_name_ok (xm_name m) = false -> process_message m = Err err_gen.
Proof. exact bad_message_name_is_error. Qed.
Print Assumptions C18_bad_message_name_is_error.

(* the dialect version is the including file's when it states one *)
Theorem C18_root_version_wins : forall fuel fs root f vs ver out,
  find_file fs root = Some f -> xfl_version f <> [] ->
  process_def fuel fs [] [] root = Some (vs, ver, out) -> ver = xfl_version f.
Proof. exact root_version_wins. Qed.
Print Assumptions C18_root_version_wins.

(* ---- tie by translation (gen/SrcConversion.v regenerated from pkg/conversion on every run) ----
   dialectTypeToGo of the source is the model's type_to_go, and composed with the run-time table
   fieldTypeFromGo / fieldTypeString it is the identity on the eleven wire types *)
From GM Require Import SrcConversion SrcMessage SrcMsgTables SrcGenTables.
Theorem C18_source_type_table : gen_tables_ok = true.
Proof. exact src_generator_type_table. Qed.
Print Assumptions C18_source_type_table.
