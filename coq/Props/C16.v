(* C16 — Automatic heartbeats and stream requests do what is configured, no more.  Statements only
   (partial: the spacing of ticks is the Go runtime's ticker; measured by the scenario harness). *)
From Coq Require Import List NArith.
Import ListNotations.
From GM Require Import Bytes Codec Heartbeat HeartbeatProofs.
Local Open Scope N_scope.

(* heartbeats are sent iff not disabled and the dialect's message 0 is the standard heartbeat *)
Theorem C16_heartbeats_iff_enabled_and_standard : forall c,
  hb_enabled c = true <-> (hb_disable c = false /\ hb_has_dialect c = true /\ hb_msg0_crc c = Some 50).
Proof. exact hb_iff_enabled_and_standard. Qed.
Print Assumptions C16_heartbeats_iff_enabled_and_standard.

(* every tick submits one message to all channels; it carries the configured system type and autopilot
   type, zero modes, active status (4) and the dialect version *)
Theorem C16_heartbeat_per_tick : forall c n, hb_ticks c n = if hb_enabled c then repeat (hb_message c) n else [].
Proof. exact hb_ticks_spec. Qed.
Print Assumptions C16_heartbeat_per_tick.
Theorem C16_heartbeat_content : forall c, hb_message c =
  [VU (if hb_systype c =? 0 then 6 else hb_systype c); VU (hb_autopilot c); VU 0; VU 0; VU 4; VU (hb_version c)].
Proof. exact hb_content. Qed.
Print Assumptions C16_heartbeat_content.
Theorem C16_none_when_disabled : forall c n, hb_disable c = true -> hb_ticks c n = [].
Proof. exact hb_none_when_disabled. Qed.
Print Assumptions C16_none_when_disabled.
Theorem C16_none_without_standard_message : forall c n, hb_msg0_crc c <> Some 50 -> hb_ticks c n = [].
Proof. exact hb_none_without_standard. Qed.
Print Assumptions C16_none_without_standard_message.

(* stream requests: exactly the seven standard streams, addressed to the sender, at the configured rate *)
Theorem C16_seven_requests : forall freq sys comp, sr_requests freq sys comp =
  map (fun st => [VU sys; VU comp; VU st; VU (if freq =? 0 then 4 else freq); VU 1]) [1; 2; 3; 6; 10; 11; 12].
Proof. exact sr_seven_requests. Qed.
Print Assumptions C16_seven_requests.
Theorem C16_first_heartbeat_requests : forall s now k, sr_lookup s k = None -> snd (sr_on_heartbeat s now k 3) = true.
Proof. exact sr_first_heartbeat_requests. Qed.
Print Assumptions C16_first_heartbeat_requests.
Theorem C16_on_senders_channel_only : forall freq c k, key_chan k <> c -> sr_wire freq c [ObsReq k] = [].
Proof. exact wire_only_own_channel. Qed.
Print Assumptions C16_on_senders_channel_only.
Theorem C16_on_senders_channel : forall freq k, sr_wire freq (key_chan k) [ObsReq k] = sr_requests freq (snd (fst k)) (snd k).
Proof. exact wire_own_channel. Qed.
Print Assumptions C16_on_senders_channel.
Theorem C16_event_before_frame : forall s now k t, snd (sr_on_heartbeat s now k 3) = true ->
  exists s', sr_trace true s (InHb now k 3 :: t) = ObsReq k :: ObsFrame (key_chan k) :: sr_trace true s' t.
Proof. exact event_before_frame. Qed.
Print Assumptions C16_event_before_frame.

(* all arrival histories with a non-decreasing clock: every burst for a (channel, system, component)
   comes at least 30 s after the previous one for the same key *)
Theorem C16_not_repeated_within_30s : forall ops, clock_mono 0 ops -> spaced_out (fun _ => None) (sr_run [] ops).
Proof. exact sr_history_spaced. Qed.
Print Assumptions C16_not_repeated_within_30s.
Theorem C16_trace_bursts_are_the_rate_limited_ones : forall ops s,
  filter is_req (sr_trace true s ops) = map (fun p => ObsReq (snd p)) (sr_run s (flat_map to_srop ops)).
Proof. exact trace_bursts. Qed.
Print Assumptions C16_trace_bursts_are_the_rate_limited_ones.

(* heartbeats from other autopilots, other messages and a disabled module trigger nothing *)
Theorem C16_other_autopilots_nothing : forall s now k ap, ap <> 3 -> sr_on_heartbeat s now k ap = (s, false).
Proof. exact sr_other_autopilots_nothing. Qed.
Print Assumptions C16_other_autopilots_nothing.
Theorem C16_other_messages_nothing : forall en s ch t, sr_trace en s (InOther ch :: t) = ObsFrame ch :: sr_trace en s t.
Proof. exact trace_other. Qed.
Print Assumptions C16_other_messages_nothing.
Theorem C16_disabled_nothing : forall ops s, filter is_req (sr_trace false s ops) = [].
Proof. exact trace_disabled. Qed.
Print Assumptions C16_disabled_nothing.

(* ---- tie by translation (gen/SrcGomavlib.v regenerated from the source on every run) ---- the
   constants of node_heartbeat.go and node_stream_request.go and the defaults of Node.Initialize
   are the model's: CRC_EXTRA 50 and 148, ids 0 and 66, 30 s (period and cleaner tick), system type
   6, rate 4, ArduPilot = 3, the seven streams, start = 1, state 4 *)
From Coq Require Import ZArith.
From GM Require Import SrcGomavlib SrcNodeTie.
Theorem C16_source_constants :
  (Z.of_N heartbeat_crc = c_gomavlib_heartbeatCRC /\ c_gomavlib_heartbeatID = 0 /\
   Z.of_N rds_crc = c_gomavlib_requestDataStreamCRC /\ c_gomavlib_requestDataStreamID = 66 /\
   Z.of_N sr_period * 1000000000 = c_gomavlib_streamRequestPeriod /\
   Z.of_N sr_period * 1000000000 = a_gomavlib_nodeStreamRequest_run_NewTicker /\
   Z.of_N (eff_systype 0) = d_gomavlib_Node_Initialize_HeartbeatSystemType /\
   Z.of_N (eff_freq 0) = d_gomavlib_Node_Initialize_StreamRequestFrequency /\
   k_gomavlib_nodeStreamRequest_onEventFrame = [0; 3; 30000000000; 1; 2; 3; 6; 10; 11; 12; 1] /\
   k_gomavlib_nodeHeartbeat_run = [0; 0; 4])%Z.
Proof. exact src_heartbeat_constants. Qed.
Print Assumptions C16_source_constants.
