(* C11 — Write fan-out.  Statements only; every reachable state of the node LTS (all schedules). *)
From GM Require Import Node NodeBase NodeQueues.

(* all / one / all-but-one: a submission is enqueued only on channels its target selects, on each
   at most once *)
Theorem C11_dispatch_targets : forall s, reachable s -> forall d c, In d (dispatch s) -> In c (d_chans d) ->
  targets (d_target d) c = true /\ NoDup (d_chans d).
Proof. exact dispatch_targets. Qed.
Print Assumptions C11_dispatch_targets.

(* exactly once: what a channel accepted is, in submission order, one copy of the item of each
   submission enqueued on it *)
Theorem C11_exactly_once : forall s, reachable s -> forall c ch, nth_error (chans s) c = Some ch ->
  accepted ch = map d_item (filter (lists c) (dispatch s)).
Proof. exact exactly_once. Qed.
Print Assumptions C11_exactly_once.

(* FIFO per channel (hence per submitter), one whole transport write per item *)
Theorem C11_wire_in_order : forall s, reachable s -> forall c ch, nth_error (chans s) c = Some ch ->
  sublist (wire ch) (map d_item (filter (lists c) (dispatch s))).
Proof. exact wire_in_order. Qed.
Print Assumptions C11_wire_in_order.

(* nothing is dropped while the backlog stays below the queue size (64) on an open channel *)
Theorem C11_no_drop_below_capacity : forall s g t it skip s' c ch, lstep s (LSubmit g t it skip) = Some s' ->
  nth_error (chans s) c = Some ch -> targets t c = true -> registered ch = true -> ctxd ch = false ->
  length (q ch) < qcap ->
  exists ch', nth_error (chans s') c = Some ch' /\ accepted ch' = accepted ch ++ [it] /\ q ch' = q ch ++ [it].
Proof. exact no_drop_below_capacity. Qed.
Print Assumptions C11_no_drop_below_capacity.

(* writes naming a closed channel are ignored *)
Theorem C11_unregistered_ignored : forall s g t it skip s' c ch, lstep s (LSubmit g t it skip) = Some s' ->
  nth_error (chans s) c = Some ch -> registered ch = false -> nth_error (chans s') c = Some ch.
Proof. exact unregistered_ignored. Qed.
Print Assumptions C11_unregistered_ignored.

(* ---- tie by translation (gen/SrcGomavlib.v regenerated from the source on every run) ---- the
   queue length the transition system is proved for is the source's writeBufferSize *)
From Coq Require Import ZArith.
From GM Require Import SrcGomavlib SrcNodeTie.
Theorem C11_source_queue_length : Z.of_nat Node.qcap = c_gomavlib_writeBufferSize.
Proof. exact src_queue_length. Qed.
Print Assumptions C11_source_queue_length.
