(* C03 — Message payload layout, sizes and CRC_EXTRA follow the MAVLink spec.  Statements only. *)
From Coq Require Import Sorting.Permutation Sorting.Sorted.
From GM Require Import Bytes Result Codec Layout Tables LayoutSpec Dialects SortProofs TableLayout.

(* every message definition of every shipped dialect (regenerated from /repo on every run):
   the library's field table, sizes and CRC_EXTRA are those the MAVLink rules derive from the
   definition the struct denotes, and the payload fits 255 bytes *)
Theorem C03_all_shipped_follow_spec : forallb struct_follows_spec all_gostructs = true.
Proof. exact all_shipped_follow_spec. Qed.
Print Assumptions C03_all_shipped_follow_spec.

(* any struct (extensions declared after base fields): the executable sort yields the MAVLink
   order — base fields by descending primitive size, declaration order among equals,
   extensions last in declaration order *)
Theorem C03_sort_is_spec_order : forall fs, decl_order fs -> ext_after_base fs ->
  sort_fields fs = spec_order_f fs.
Proof. exact sort_is_spec_order. Qed.
Print Assumptions C03_sort_is_spec_order.

(* sort.Slice is not stable and its algorithm is unspecified: ANY permutation of the fields that
   is sorted for the library's comparator is that same order *)
Theorem C03_order_is_spec : forall fs l, decl_order fs -> ext_after_base fs -> NoDup (map fd_index fs) ->
  Permutation fs l -> StronglySorted R l -> l = spec_order_f fs.
Proof. exact order_is_spec. Qed.
Print Assumptions C03_order_is_spec.

Theorem C03_sorted_perm_unique : forall l1 l2,
  NoDup (map fd_index l1) -> Permutation l1 l2 -> StronglySorted R l1 -> StronglySorted R l2 -> l1 = l2.
Proof. exact sorted_perm_unique. Qed.
Print Assumptions C03_sorted_perm_unique.
