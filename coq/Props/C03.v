(* C03 — Message payload layout, sizes and CRC_EXTRA follow the MAVLink spec.  Statements only. *)
From Coq Require Import Sorting.Permutation Sorting.Sorted.
From GM Require Import Bytes Result Codec Layout Tables LayoutSpec Dialects SortProofs TableLayout InitSpec TableInit.

(* every message definition of every shipped dialect (regenerated from /repo on every run):
   the library's field table, sizes and CRC_EXTRA are those the MAVLink rules derive from the
   definition the struct denotes, and the payload fits 255 bytes *)
Theorem C03_all_shipped_follow_spec : forallb struct_follows_spec all_gostructs = true.
Proof. exact all_shipped_follow_spec. Qed.
Print Assumptions C03_all_shipped_follow_spec.

(* any struct (extensions declared after base fields): the executable sort yields the MAVLink
   order — base fields by descending primitive size, declaration order among equals,
   extensions last in declaration order *)
Theorem C03_sort_is_spec_order : forall fs, decl_order fs -> ext_after_base fs ->
  sort_fields fs = spec_order_f fs.
Proof. exact sort_is_spec_order. Qed.
Print Assumptions C03_sort_is_spec_order.

(* sort.Slice is not stable and its algorithm is unspecified: ANY permutation of the fields that
   is sorted for the library's comparator is that same order *)
Theorem C03_order_is_spec : forall fs l, decl_order fs -> ext_after_base fs -> NoDup (map fd_index fs) ->
  Permutation fs l -> StronglySorted R l -> l = spec_order_f fs.
Proof. exact order_is_spec. Qed.
Print Assumptions C03_order_is_spec.

Theorem C03_sorted_perm_unique : forall l1 l2,
  NoDup (map fd_index l1) -> Permutation l1 l2 -> StronglySorted R l1 -> StronglySorted R l2 -> l1 = l2.
Proof. exact sorted_perm_unique. Qed.
Print Assumptions C03_sorted_perm_unique.

(* ANY Go message struct of the accepted shape (user structs included): name Message<Capital...>,
   field names recoverable (capitalised, or carried by a mavname tag), types of the table, arrays
   and strings of 1..255 elements, enum fields of an integer wire type, extensions declared after
   base fields; whose denoted definition fits a 255-byte payload and is made of bytes:
   Initialize succeeds and the field table (order, types, names, lengths), both payload sizes and
   CRC_EXTRA are exactly those the MAVLink rules derive from the definition the struct denotes *)
Theorem C03_initialize_is_spec : forall g d,
  gostruct_ok g = true -> def_of g = Some d ->
  (spec_size_ext (md_fields d) <= 255)%N -> bytes_ok (spec_crc_text d) = true ->
  exists c, initialize g = Ok c /\ codec_matches_spec c d = true.
Proof. exact initialize_is_spec. Qed.
Print Assumptions C03_initialize_is_spec.

(* the shape is not vacuous: all 408 shipped structs have it *)
Theorem C03_all_shipped_accepted_shape : forallb gostruct_ok all_gostructs = true.
Proof. exact all_shipped_accepted_shape. Qed.
Print Assumptions C03_all_shipped_accepted_shape.

(* ---- tie by translation (gen/SrcMessage.v regenerated from pkg/message/readwriter.go on every
   run) ---- the tables fieldTypeFromGo, fieldTypeString and fieldTypeSizes of the source, read as
   constants, are the functions ftype_from_go, ftype_string and ftype_size of the model (eleven
   types, distinct codes) *)
From GM Require Import SrcMessage SrcMsgTables.
Theorem C03_source_type_tables : tables_ok = true.
Proof. exact src_type_tables. Qed.
Print Assumptions C03_source_type_tables.
