(* C06 — Link signing.  Statements only. *)
From GM Require Import Bytes Result Codec Sha256 Frame Stream Reader Writer SignProofs WriterProofs.

(* the signature is the first 48 bits of SHA-256(key | 0xFD header | payload | checksum | link id | timestamp) *)
Theorem C06_signature_formula : forall key f id p,
  gen_signature key f id p =
  firstn 6 (sha256 (key ++ [253; u8 (nlen p); f_inc f; f_cmp f; f_seq f; f_sys f; f_comp f] ++ le_enc 3 id ++ p
                        ++ le_enc 2 (f_ck f) ++ [f_link f] ++ le_enc 6 (f_ts f))).
Proof. reflexivity. Qed.
Print Assumptions C06_signature_formula.

Theorem C06_keyed_accept_iff : forall key st f st',
  check_key key st f = (None, st') <->
  (f_v2 f = true /\ exists sg, f_sig f = Some sg /\
   gen_signature key f (fst (raw_of f)) (snd (raw_of f)) = sg /\
   window_refuse (r_cur_ts st) (f_ts f) = false /\
   st' = mkRstate (window_update (r_cur_ts st) (f_ts f))).
Proof. exact keyed_accept_iff. Qed.
Print Assumptions C06_keyed_accept_iff.

Theorem C06_v1_refused : forall key st f, f_v2 f = false -> fst (check_key key st f) = Some pe_not_v2.
Proof. exact v1_refused. Qed.
Print Assumptions C06_v1_refused.

Theorem C06_unsigned_refused : forall key st f, f_v2 f = true -> f_sig f = None ->
  fst (check_key key st f) = Some pe_no_sig.
Proof. exact unsigned_refused. Qed.
Print Assumptions C06_unsigned_refused.

(* wrong key / any alteration: refused unless the 48-bit digests coincide (cryptographic residual) *)
Theorem C06_bad_signature_refused : forall key st f sg,
  f_v2 f = true -> f_sig f = Some sg ->
  gen_signature key f (fst (raw_of f)) (snd (raw_of f)) <> sg ->
  fst (check_key key st f) = Some pe_wrong_sig.
Proof. exact bad_signature_refused. Qed.
Print Assumptions C06_bad_signature_refused.

(* a keyed reader delivers only frames that passed the keyed branch *)
Theorem C06_keyed_frames_authenticated : forall cfg st s r st' s' key,
  reader_read cfg st s = (r, st', s') -> r_inkey cfg = Some key ->
  (exists f, r = RFrame f) ->
  exists f0, check_key key st f0 = (None, st') /\
             match r_dialect cfg with None => r = RFrame f0 | Some d => r = check_dialect d f0 end.
Proof. exact keyed_frames_authenticated. Qed.
Print Assumptions C06_keyed_frames_authenticated.

(* a keyed writer's frame carries flag, link id, clock reading and a verifying signature *)
Theorem C06_writer_signs : forall cfg st m now f p, stream_build cfg st m now = Ok (f, p) ->
  forall k, w_key cfg = Some k -> w_v2 cfg = true ->
  f_inc f = 1 /\ f_link f = w_link cfg /\ f_ts f = u48 now /\ f_sig f = Some (gen_signature k f (msg_id m) p).
Proof.
  intros cfg st m now f p B k K V. pose proof (originated_fields _ _ _ _ _ _ B) as (_ & _ & _ & _ & _ & I & _ & _ & S & _).
  destruct (S k K V) as (A1 & A2 & A3). unfold signs in I. rewrite K, V in I. auto.
Qed.
Print Assumptions C06_writer_signs.

Theorem C06_writer_output_accepted : forall cfg st m now f p k rst,
  stream_build cfg st m now = Ok (f, p) -> w_key cfg = Some k -> w_v2 cfg = true ->
  window_refuse (r_cur_ts rst) (u48 now) = false ->
  check_key k rst f = (None, mkRstate (window_update (r_cur_ts rst) (u48 now))).
Proof. exact writer_output_accepted. Qed.
Print Assumptions C06_writer_output_accepted.

(* ---- tie by translation (gen/SrcFrame.v, gen/SrcStreamwriter.v regenerated from the source on
   every run) ---- the signature clock counts 10 microsecond ticks since 1st January 2015 in both
   writers, and the reader's window is the model's *)
From Coq Require Import ZArith List.
Import ListNotations.
From GM Require Import SrcFrame SrcStreamwriter SrcFrameSignTie.
Theorem C06_source_signature_constants :
  (v_frame_signatureReferenceDate_args = [2015; 1; 1; 0; 0; 0; 0] /\
   v_streamwriter_signatureReferenceDate_args = [2015; 1; 1; 0; 0; 0; 0] /\
   k_frame_Writer_writeFrameAndFill = [0; 0; 1; 10000] /\ k_streamwriter_Writer_writeInner = [0; 0; 1; 10000] /\
   k_frame_Reader_Read = [254; 253; 0; Z.of_N Reader.window])%Z.
Proof. exact src_frame_signing. Qed.
Print Assumptions C06_source_signature_constants.

(* GenerateSignature translated statement by statement from the source on every run (sha256.New, the
   Write calls in their order — key, marker, length, header, 24-bit id, payload, checksum, link id,
   48-bit timestamp — and the first six bytes of the sum): it is the model's gen_signature, for every
   frame, key and payload; SHA-256 itself is the Gallina model compared with crypto/sha256 on every run *)
Theorem C06_source_signature : forall f key id p,
  src_frame_V2Frame_GenerateSignature (f_inc f) (f_cmp f) (f_seq f) (f_sys f) (f_comp f) (f_ck f) (f_link f) (f_ts f)
    key p id = gen_signature key f id p.
Proof. exact src_v2_signature. Qed.
Print Assumptions C06_source_signature.
