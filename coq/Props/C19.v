(* C19 — Enum values survive conversion to text and back.  Statements only. *)
From Coq Require Import ZArith.
From GM Require Import Bytes Result Layout Enum EnumProofs Tables Enums TableEnums BitmaskProofs TableBitmask.
Open Scope list_scope.

(* strconv.Atoi (strconv.Itoa z) = z on the whole int64 range *)
Theorem C19_atoi_itoa : forall z, (- 9223372036854775808 <= z <= 9223372036854775807)%Z -> atoi (itoa z) = Some z.
Proof. exact atoi_itoa. Qed.
Print Assumptions C19_atoi_itoa.

(* ordinary enums: EVERY 64-bit value round-trips (a defined constant as its name, any other
   value as a decimal number) when the generated maps are consistent and no name is a numeral *)
Theorem C19_plain_roundtrip : forall en e, en_bitmask en = false ->
  labels_consistent en = true -> names_not_numerals en = true ->
  e < 18446744073709551616 -> unmarshal_text en (marshal_text en e) = Some e.
Proof. exact plain_roundtrip. Qed.
Print Assumptions C19_plain_roundtrip.

(* ... and those hypotheses hold of every ordinary enum of every shipped dialect (regenerated table) *)
Theorem C19_all_plain_enums_ok : forallb plain_ok enums = true.
Proof. exact all_plain_enums_ok. Qed.
Print Assumptions C19_all_plain_enums_ok.

(* bitmask enums (regenerated table): zero, every defined constant and the union of all
   constants round-trip for every shipped bitmask enum; every exception is an instance of the
   recorded finding (RALLY_FLAGS values containing the two-bit ALT_FRAME field) *)
Theorem C19_bitmask_failures_are_known : forallb known_failure (bitmask_failures enums) = true.
Proof. exact bitmask_failures_are_known. Qed.
Print Assumptions C19_bitmask_failures_are_known.

(* bitmask enums, generically: zero and EVERY non-zero value all of whose set bits are usable flags
   (a name without blanks that maps back to the flag) below the loop bound — i.e. every
   combination of defined single-bit flags — is rendered as the names joined by " | " and parsed
   back to itself *)
Theorem C19_bitmask_roundtrip : forall en e, en_bitmask en = true -> e <> 0%N ->
  (forall j, N.testbit e j = true -> (j < N.of_nat (en_bound en))%N) ->
  Forall (flag_ok en) (set_bits (en_bound en) e) ->
  unmarshal_text en (marshal_text en e) = Some e.
Proof. exact bitmask_roundtrip. Qed.
Print Assumptions C19_bitmask_roundtrip.

(* every shipped bitmask enum (regenerated table), every 64-bit combination of its named
   single-bit flags, zero included *)
Theorem C19_shipped_bitmask_combinations : forall g e, In g enums -> ge_bitmask g = true -> (e < 2 ^ 64)%N ->
  (forall j, N.testbit e j = true -> lookup_label (en_labels (to_enum g)) (N.shiftl 1 j) <> None) ->
  unmarshal_text (to_enum g) (marshal_text (to_enum g) e) = Some e.
Proof. exact shipped_bitmask_combinations. Qed.
Print Assumptions C19_shipped_bitmask_combinations.

(* parsing rejects text that is neither a known name nor a number *)
Theorem C19_parse_rejects : forall en s, lookup_value (en_values en) s = None -> atoi s = None -> parse_label en s = None.
Proof. exact parse_rejects. Qed.
Print Assumptions C19_parse_rejects.
