(* C12 — Close always terminates and releases everything.  Statements only (partial: fairness of
   the Go scheduler, OS release of ports and real goroutine exit are measured by the scenario
   harness, not proved). *)
From GM Require Import Node NodeBase NodeEvents NodeClose NodeLive.

(* after Close() the node is never stuck before everything has ended, whatever the application
   does (consuming events or not, Write* callers running or not) and whatever the channels are
   doing: some step of the library itself is enabled.  Environment assumptions, explicit in
   [sys_act]: a transport Read returns an error once the node is shutting down; a transport
   Write returns. *)
Theorem C12_close_no_deadlock : forall s, reachable s -> term s = true -> loop s <> LEnd ->
  exists l, sys_label l = true /\ exists s', lstep s l = Some s'.
Proof. exact close_no_deadlock. Qed.
Print Assumptions C12_close_no_deadlock.

(* when Close() returns: the event channel is closed (ranging over it ends), every channel
   runner has ended, no channel is left in a provider's hands *)
Theorem C12_all_done_means : forall s, reachable s -> loop s = LEnd ->
  events_closed s = true /\ forallb runner_done (chans s) = true /\ handoff s = [].
Proof. exact all_done_means. Qed.
Print Assumptions C12_all_done_means.

(* Write* calls racing with or following Close() return *)
Theorem C12_write_after_close_returns : forall s, term s = true -> exists s', lstep s LSubmitTerm = Some s'.
Proof. exact write_after_close_returns. Qed.
Print Assumptions C12_write_after_close_returns.

(* a channel's transport is closed at most once by the library *)
Theorem C12_closed_at_most_once : forall s, reachable s -> forall c ch, nth_error (chans s) c = Some ch -> closes ch <= 1.
Proof. exact closed_at_most_once. Qed.
Print Assumptions C12_closed_at_most_once.

(* consistency of the program counters used by the progress argument, in every reachable state *)
Theorem C12_pcs_consistent : forall s, reachable s -> forall c ch, nth_error (chans s) c = Some ch ->
  s_inv (term s) ch /\ pc_ok ch.
Proof. intros s R c ch N. split; [apply (s_inv_reachable s R c ch N)|apply (ei_pc _ _ (ev_inv_reachable s R c ch N))]. Qed.
Print Assumptions C12_pcs_consistent.

(* ... and can always finish by itself: from EVERY reachable state in which Close() has been called
   there is a run of at most [mu s] library steps (no application step, no fresh input; the only
   environment facts used are that a Read on a closed transport fails and that a Write returns)
   that ends with Close() returned and Events() closed.  With close_no_deadlock: neither a
   deadlock nor a livelock trap exists.  (Termination under every fair schedule is not proved:
   the model lets a transport deliver input for ever.) *)
Theorem C12_close_can_complete : forall n s, mu s <= n -> reachable s -> term s = true ->
  exists ls s', forallb sys_label ls = true /\ length ls <= n /\ run s ls = Some s' /\ loop s' = LEnd /\ events_closed s' = true.
Proof. exact close_can_complete. Qed.
Print Assumptions C12_close_can_complete.
