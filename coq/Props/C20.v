(* C20 — Telemetry logs.  Statements only. *)
From Coq Require Import ZArith.
From GM Require Import Bytes Result Codec Frame Wire Stream FlatStream Reader Writer FrameProofs Tlog TlogProofs.

(* format: an entry is the 8-byte big-endian microsecond timestamp followed by one frame *)
Theorem C20_write_ok : forall d o file e fb f', frame_write d (e_frame e) = (Ok fb, f') ->
  tlog_write d (true :: true :: o) file e = (Ok tt, o, file ++ ts_bytes (e_time e) ++ fb).
Proof. exact write_ok. Qed.
Print Assumptions C20_write_ok.

(* an entry whose frame cannot be encoded leaves no bytes in the file *)
Theorem C20_no_partial_entry : forall d o file e x f', frame_write d (e_frame e) = (Err x, f') ->
  tlog_write d o file e = (Err x, o, file).
Proof. exact no_partial_entry. Qed.
Print Assumptions C20_no_partial_entry.

(* transport write errors are reported (the oracle says, call by call, whether a Write succeeds) *)
Theorem C20_write_error_reported : forall d o file e fb f', frame_write d (e_frame e) = (Ok fb, f') -> two_ok o = false ->
  fst (fst (tlog_write d o file e)) = Err err_write.
Proof. exact write_error_reported. Qed.
Print Assumptions C20_write_error_reported.

(* after ANY history of entries — refused, failed at the transport (also transiently), written —
   the next entry that is written appends exactly its own timestamp and frame *)
Theorem C20_write_after_any_history : forall d es o file e fb f' o1 file1,
  frame_write d (e_frame e) = (Ok fb, f') -> after_entries d o file es = (true :: true :: o1, file1) ->
  snd (tlog_write_all d o file (es ++ [e])) = file1 ++ ts_bytes (e_time e) ++ fb.
Proof. exact write_after_any_history. Qed.
Print Assumptions C20_write_after_any_history.

(* timestamps round-trip to the microsecond over the whole int64 range (pre-1970 included) *)
Theorem C20_ts_roundtrip : forall us, (- 9223372036854775808 <= us < 9223372036854775808)%Z ->
  ts_of_bytes (ts_bytes us) = us.
Proof. exact ts_roundtrip. Qed.
Print Assumptions C20_ts_roundtrip.

(* any sequence of entries is read back as the same sequence *)
Theorem C20_log_roundtrip : forall es st rest, Forall (fun ep => entry_wf (fst ep) (snd ep)) es ->
  forall m, tlog_read_n (length es + m) nocfg st (map B (log_bytes es) ++ rest) =
            map (fun ep => TEntry (fst ep)) es ++ tlog_read_n m nocfg st rest.
Proof. exact log_roundtrip. Qed.
Print Assumptions C20_log_roundtrip.

(* every truncation point: exactly the complete entries before the cut, then only errors *)
Theorem C20_truncation_safe : forall es k m st, wf_log es ->
  exists es1 es2 errs, es = es1 ++ es2 /\
    (length (log_bytes es1) <= k)%nat /\ (es2 <> [] -> (k < length (log_bytes es1) + length (ebytes (fst (hd (mkEntry 0 (empty_frame false), []) es2)) (snd (hd (mkEntry 0 (empty_frame false), []) es2))))%nat) /\
    tlog_read_n (length es1 + m) nocfg st (map B (firstn k (log_bytes es))) =
      map (fun ep => TEntry (fst ep)) es1 ++ errs /\ Forall is_terr errs.
Proof. exact truncation_safe. Qed.
Print Assumptions C20_truncation_safe.

(* fewer than 16 bytes never yield an entry, however often the reader is called *)
Theorem C20_short_errors_forever : forall cfg m st x, (length x < 16)%nat -> bytes_ok x = true ->
  Forall is_terr (tlog_read_n m cfg st (map B x)).
Proof. exact short_errors_forever. Qed.
Print Assumptions C20_short_errors_forever.

(* ---- tie by translation (gen/SrcTlog.v regenerated from pkg/tlog on every run) ---- the numerals
   of the entry header code: eight bytes, most significant first, microseconds *)
From Coq Require Import ZArith List.
Import ListNotations.
From GM Require Import SrcTlog SrcTlogTie.
Theorem C20_source_numerals :
  (k_tlog_Writer_Write = [56; 48; 40; 32; 24; 16; 8] /\
   k_tlog_Reader_Read = [8; 0; 56; 1; 48; 2; 40; 3; 32; 4; 24; 5; 16; 6; 8; 7; 1000000; 1000000; 1000])%Z.
Proof. exact src_tlog_numerals. Qed.
Print Assumptions C20_source_numerals.
