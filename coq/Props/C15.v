(* C15 — Concurrent use of a node is free of data races.  Statements only.
   Partial: (1) is a theorem about executions in the abstract (Go memory model edges as [Sync],
   [Lock], [Unlock]); (2)-(4) are obligations on the field-access table regenerated from /repo on
   every run; that every dynamic access is an instance of a row run by one of the row's goroutine
   roots is the extractor's call graph (trusted), and accesses inside other packages, through
   reflection and by the application are outside the table (the race detector runs over the
   scenario suite as the search for a concrete racy schedule). *)
From Coq Require Import String List.
Import ListNotations.
From GM Require Import Race RaceProofs ClassSem ClassRace Policy NodePolicy Access PolicyProofs TableAccess.

(* (1) every execution that follows the ownership discipline — each location exclusively owned
   and handed over only along synchronisation edges, or published read-only along them, or
   accessed with its mutex held — has no data race, for all traces of any length *)
Theorem C15_disciplined_executions_race_free : forall d0 tr, disciplined d0 tr -> ~ data_race tr.
Proof. exact disciplined_race_free. Qed.
Print Assumptions C15_disciplined_executions_race_free.

(* (2) every field selection in package gomavlib obeys its field's class of the discipline *)
Theorem C15_access_table_follows_policy : node_check access_rows = true.
Proof. exact access_table_ok. Qed.
Print Assumptions C15_access_table_follows_policy.

(* (3) hence any two conflicting accesses of one field are ordered by one of the discipline's
   patterns: initialisation phase, pre-hand-over write, same single goroutine, same mutex, or
   ownership transfer *)
Theorem C15_conflicting_accesses_protected : forall a b,
  In a access_rows -> In b access_rows -> same_loc a b = true -> conflicting a b = true ->
  protected_pair first_spawn_line post_spawn_funcs (node_policy (r_struct a) (r_field a)) a b.
Proof. exact conflicting_accesses_protected. Qed.
Print Assumptions C15_conflicting_accesses_protected.

(* (4) the frame reader, frame writer and stream writer (objects with per-call mutable state) are
   each driven by one goroutine only *)
Theorem C15_stateful_methods_confined : forall r l,
  In r access_rows -> node_mpolicy (r_struct r) (r_field r) = Some l -> String.prefix "M:" (r_kind r) = true ->
  exists p, In p l /\ ("M:" ++ fst p)%string = r_kind r /\ roots_are r [snd p] = true /\ snd p <> "api"%string.
Proof. exact stateful_methods_confined. Qed.
Print Assumptions C15_stateful_methods_confined.

(* (5) the classes of the policy read as rules for an execution — a field written only in the
   initialisation phase (InitOnly), written only by its creator before the object is handed on and
   reached by others only along edges after that (PreHandOver), touched by one goroutine only
   (Confined), touched only with its mutex held (Locked), or passed from one owner to the next at
   an edge (OwnerTransfer), initialisation-phase accesses by the constructing goroutine being
   allowed for the confined and locked ones — exclude a data race: for every execution, of any
   length, in which goroutines act only once started and mutexes are used as mutexes *)
Theorem C15_class_conforming_executions_race_free : forall g0 cls tr,
  conforming g0 cls tr = true -> ~ data_race tr.
Proof. exact conforming_race_free. Qed.
Print Assumptions C15_class_conforming_executions_race_free.
