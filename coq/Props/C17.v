(* C17 — Shipped dialects are well-formed and mutually consistent.  Statements only. *)
From GM Require Import Bytes Result Codec Layout Reader Dialect Tables LayoutSpec Dialects Enums
  DialectProofs TableLayout TableDialects.

(* every shipped dialect initialises *)
Theorem C17_all_initialize : forallb dialect_ok shipped = true.
Proof. exact all_initialize. Qed.
Print Assumptions C17_all_initialize.

(* initialisation succeeds only with unique ids and well-formed structs, and then, for EVERY id,
   lookup returns the codec of the message with that id and nothing for absent ids *)
Theorem C17_init_and_lookup : forall msgs d, dialect_init msgs = Ok d ->
  NoDup (map fst msgs) /\
  (forall id g, In (id, g) msgs -> exists c, initialize g = Ok c) /\
  (forall id c, dlookup d id = Some c -> exists g, In (id, g) msgs /\ initialize g = Ok c) /\
  (forall id g c, In (id, g) msgs -> initialize g = Ok c -> dlookup d id = Some c) /\
  (forall id, ~ In id (map fst msgs) -> dlookup d id = None).
Proof. exact dialect_init_ok. Qed.
Print Assumptions C17_init_and_lookup.

Theorem C17_duplicate_id_rejected : forall msgs, ~ NoDup (map fst msgs) -> forall d, dialect_init msgs <> Ok d.
Proof. exact duplicate_id_rejected. Qed.
Print Assumptions C17_duplicate_id_rejected.

Theorem C17_malformed_struct_rejected : forall msgs id g, In (id, g) msgs -> (forall c, initialize g <> Ok c) ->
  forall d, dialect_init msgs <> Ok d.
Proof. exact malformed_struct_rejected. Qed.
Print Assumptions C17_malformed_struct_rejected.

(* every message of every shipped dialect follows the layout rules and fits 255 bytes *)
Theorem C17_all_fit_and_follow_spec : forallb struct_follows_spec all_gostructs = true.
Proof. exact all_shipped_follow_spec. Qed.
Print Assumptions C17_all_fit_and_follow_spec.

(* a message present in two dialects (same id, same struct name) is the very same Go type *)
Theorem C17_aliases_share_type : forall e1 e2, In e1 all_entries -> In e2 all_entries ->
  same_msg_same_type e1 e2 = true.
Proof. exact aliases_share_type. Qed.
Print Assumptions C17_aliases_share_type.

Theorem C17_enum_values_agree : forallb const_agrees enum_consts = true.
Proof. exact enum_values_agree. Qed.
Print Assumptions C17_enum_values_agree.

(* CRC_EXTRA of 57 standard messages equal the values published with the reference C library *)
Theorem C17_golden_crc_extras : golden_mismatches "common" = [].
Proof. exact golden_crc_extras. Qed.
Print Assumptions C17_golden_crc_extras.

(* every released message of the shipped dialects (395 rows keyed by id and Go type name, the
   "development" dialect left out) keeps the CRC_EXTRA it was released with: a different value is a
   different message on the wire (Spec/CrcSnapshot.v) *)
Theorem C17_released_messages_keep_crc_extra :
  snapshot_mismatches = [] /\ Nat.leb 350 snapshot_rows_found = true.
Proof. exact released_messages_keep_crc_extra. Qed.
Print Assumptions C17_released_messages_keep_crc_extra.
