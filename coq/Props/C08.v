(* C08 — Routing transparency.  Statements only. *)
From GM Require Import Bytes Result Codec CodecProofs CodecIdem Frame Wire Stream FlatStream Reader Writer
  ReaderSim FrameProofs ForwardProofs Tables Dialects TableLayout.
Open Scope list_scope.

(* every frame the reader returns was parsed from exactly the layout bytes of a well-formed frame *)
Theorem C08_reader_inv : forall cfg st l r st' l', fbytes_ok l ->
  flat_reader_read cfg st l = (r, st', l') -> (exists f, r = RFrame f) ->
  exists f0, frame_wf f0 (payload_of f0) /\ l = map B (spec_bytes f0 (payload_of f0)) ++ l' /\
             post_read cfg st f0 = (r, st').
Proof. exact reader_inv. Qed.
Print Assumptions C08_reader_inv.

(* without a dialect the forwarded bytes are identical to the received bytes, for every frame *)
Theorem C08_forward_raw_identity : forall cfg st l f st' l', fbytes_ok l -> r_dialect cfg = None ->
  flat_reader_read cfg st l = (RFrame f, st', l') ->
  exists bs, frame_write None f = (Ok bs, f) /\ l = map B bs ++ l'.
Proof. exact forward_raw_identity. Qed.
Print Assumptions C08_forward_raw_identity.

(* ... so the next hop reads the very same frame (by induction: any number of hops) *)
Theorem C08_forward_raw_hops : forall cfg st l f st' l', fbytes_ok l -> r_dialect cfg = None ->
  flat_reader_read cfg st l = (RFrame f, st', l') ->
  forall cfg2 st2 rest, r_dialect cfg2 = None -> r_inkey cfg2 = None ->
  exists bs, frame_write None f = (Ok bs, f) /\
             flat_reader_read cfg2 st2 (map B bs ++ rest) = (RFrame f, st2, rest).
Proof. exact forward_raw_hops. Qed.
Print Assumptions C08_forward_raw_hops.

(* with a dialect: whatever the received payload encoding, the forwarded bytes are read at the
   next hop as exactly the frame delivered at this hop (same header fields, same decoded
   message, checksum correct for the payload actually sent) *)
Theorem C08_forward_dialect_fixpoint : forall d f0 f id c,
  dialect_wf d -> frame_wf f0 (payload_of f0) -> frame_id f0 = id -> dlookup d id = Some c ->
  check_dialect d f0 = RFrame f ->
  exists bs f', frame_write (Some d) f = (Ok bs, f') /\
    forall st2 rest, flat_reader_read (mkRcfg (Some d) None) st2 (map B bs ++ rest) = (RFrame f, st2, rest).
Proof. exact forward_dialect_fixpoint. Qed.
Print Assumptions C08_forward_dialect_fixpoint.

(* decoding is idempotent through re-encoding, and re-encoding a decoded message cannot fail *)
Theorem C08_read_write_read : forall c v2 p V, codec_wf2 c -> bytes_ok p = true -> msg_read c v2 p = Ok V ->
  forall p', msg_write c v2 V = Ok p' -> msg_read c v2 p' = Ok V.
Proof. exact read_write_read. Qed.
Print Assumptions C08_read_write_read.
Theorem C08_write_of_read_ok : forall c v2 p V, codec_wf2 c -> bytes_ok p = true -> msg_read c v2 p = Ok V ->
  exists p', msg_write c v2 V = Ok p'.
Proof. exact write_of_read_ok. Qed.
Print Assumptions C08_write_of_read_ok.

(* FixFrame: checksum (and, v2 frame with an outgoing key, signature) are those the next hop computes *)
Theorem C08_fixframe_valid : forall d k f f' id p,
  fix_frame (Some d) k f = Ok f' -> raw_of f' = (id, p) ->
  exists c, dlookup d id = Some c /\ f_ck f' = gen_checksum f' id p (c_crc c) /\
    (forall key, k = Some key -> f_v2 f' = true -> f_sig f' = Some (gen_signature key f' id p)) /\
    f_v2 f' = f_v2 f /\ f_inc f' = f_inc f /\ f_cmp f' = f_cmp f /\ f_seq f' = f_seq f /\
    f_sys f' = f_sys f /\ f_comp f' = f_comp f /\ f_link f' = f_link f /\ f_ts f' = f_ts f.
Proof. exact fixframe_valid. Qed.
Print Assumptions C08_fixframe_valid.

(* the hypotheses on codecs hold of every shipped message type (regenerated table) *)
Theorem C08_all_shipped_codecs_full : forallb struct_codec_full all_gostructs = true.
Proof. exact all_shipped_codecs_full. Qed.
Print Assumptions C08_all_shipped_codecs_full.
