(* C04 — Message encode/decode round trip, v2 truncation and extension semantics.  Statements only. *)
From GM Require Import Bytes Result Codec Layout LayoutSpec Tables Dialects CodecProofs CodecIdem TableLayout InitSpec.

(* decoding the encoding of any value returns it in the canonical form the wire imposes, in both
   versions (v1: extension fields untouched, i.e. zero) *)
Theorem C04_read_write : forall c v2 val b, codec_wf c -> msg_write c v2 val = Ok b ->
  msg_read c v2 b = Ok (canon_all (c_fields c) v2 val (zero_value c)).
Proof. exact read_write. Qed.
Print Assumptions C04_read_write.

(* the canonical form: integers (and enums, float bit patterns) reduced to the wire width,
   strings cut at the declared length or first NUL *)
Theorem C04_canon_form : forall f v, canon_scalar f v =
  match v with
  | VU n => VU (n mod 2 ^ (8 * N.of_nat (elem_len f)))
  | VS s => VS (cstr (zpad (N.to_nat (fd_alen f)) s))
  | VA _ => v
  end.
Proof. reflexivity. Qed.
Print Assumptions C04_canon_form.

Theorem C04_v1_exact_length : forall c p, length p <> N.to_nat (c_size_normal c) ->
  msg_read c false p = Err err_wrong_size.
Proof. exact v1_exact_length. Qed.
Print Assumptions C04_v1_exact_length.

(* v2 encoder strips trailing zeros, never below one byte *)
Theorem C04_write_v2_stripped : forall c val b, codec_wf c -> msg_write c true val = Ok b ->
  exists full, length full = sz c /\ b = strip_zeros full /\ ((0 < sz c)%nat -> (1 <= length b)%nat).
Proof. exact write_v2_stripped. Qed.
Print Assumptions C04_write_v2_stripped.

(* v2 decoder: a function of the payload cut / zero-padded to the extended size ... *)
Theorem C04_read_v2_is_zpad : forall c p, codec_wf c ->
  msg_read c true p = Ok (dec_all (c_fields c) true (zpad (sz c) p) (zero_value c)).
Proof. exact read_v2_is_zpad. Qed.
Print Assumptions C04_read_v2_is_zpad.
(* ... hence the same result with zero bytes appended or removed, and trailing bytes ignored *)
Theorem C04_zeros_appended : forall c p k, codec_wf c -> msg_read c true (p ++ zeros k) = msg_read c true p.
Proof. exact read_zeros_appended. Qed.
Print Assumptions C04_zeros_appended.
Theorem C04_zeros_stripped : forall c p, codec_wf c -> msg_read c true (strip_zeros p) = msg_read c true p.
Proof. exact read_zeros_stripped. Qed.
Print Assumptions C04_zeros_stripped.
Theorem C04_trailing_ignored : forall c p extra, codec_wf c -> (sz c <= length p)%nat ->
  msg_read c true (p ++ extra) = msg_read c true p.
Proof. exact read_trailing_ignored. Qed.
Print Assumptions C04_trailing_ignored.

(* never a panic: any payload of any length (not only 0..255), either version *)
Theorem C04_read_never_panics : forall c v2 p, codec_wf c -> msg_read c v2 p <> Panic.
Proof. exact read_never_panics. Qed.
Print Assumptions C04_read_never_panics.

(* the caller's backing array is returned untouched *)
Theorem C04_read_preserves_caller_buffer : forall c v2 backing len, read_backing_after c v2 backing len = backing.
Proof. reflexivity. Qed.
Print Assumptions C04_read_preserves_caller_buffer.

(* the hypothesis codec_wf holds of every message type of every shipped dialect (regenerated table) *)
Theorem C04_all_shipped_codecs_wf : forallb struct_codec_wf all_gostructs = true.
Proof. exact all_shipped_codecs_wf. Qed.
Print Assumptions C04_all_shipped_codecs_wf.

(* ... and, generically, of the codec of ANY struct of the accepted shape (InitSpec.gostruct_ok: user
   structs included) whose definition fits a 255-byte payload: all theorems above, and C08's, apply
   to every message type the library accepts, not only to the shipped ones *)
Theorem C04_accepted_struct_codec_wf : forall g d c,
  gostruct_ok g = true -> def_of g = Some d -> (spec_size_ext (md_fields d) <= 255)%N -> initialize g = Ok c ->
  codec_wf2 c /\ (N.to_nat (c_size_ext c) <= 255)%nat.
Proof. exact accepted_struct_codec_wf. Qed.
Print Assumptions C04_accepted_struct_codec_wf.
