(* C10 — Per-channel event stream.  Statements only: every reachable state of the node LTS,
   i.e. every interleaving of readers, writers, the node loop, providers, the application's
   event consumer, Write* callers and Close(), and every input history. *)
From GM Require Import Node NodeBase NodeEvents.

(* what the application received from a channel, in order, is that channel's delivered list *)
Theorem C10_log_projection : forall s, reachable s ->
  forall c ch, nth_error (chans s) c = Some ch -> proj c (log s) = delivered ch.
Proof. intros s R. exact (proj1 (log_projection s R)). Qed.
Print Assumptions C10_log_projection.

(* it is a prefix of what the channel's goroutines tried to deliver: nothing reordered,
   nothing duplicated, nothing from another channel *)
Theorem C10_projection_is_prefix : forall s c ch, reachable s -> nth_error (chans s) c = Some ch ->
  exists rest, started_evs ch = proj c (log s) ++ rest.
Proof. exact projection_is_prefix. Qed.
Print Assumptions C10_projection_is_prefix.

(* and that sequence is: open, then per read result in arrival order its events (one frame event
   per valid frame, preceded by a stream-requested event when it triggered requests; one
   parse-error event per rejected input), then the close event — a function of this channel's
   inputs only, whatever happens on other channels *)
Theorem C10_stream_grammar : forall s c ch, reachable s -> nth_error (chans s) c = Some ch ->
  rd ch <> RdInit -> exists cl,
  started_evs ch ++ pending_sr ch = EOpen :: flat_map evs_of_res (consumed ch) ++ cl /\ close_part ch cl.
Proof. exact stream_grammar. Qed.
Print Assumptions C10_stream_grammar.

(* nothing is lost while the application keeps receiving and the node is not closed *)
Theorem C10_no_loss : forall s c ch, reachable s -> nth_error (chans s) c = Some ch ->
  dropped ch = false -> started_evs ch = proj c (log s) ++ inflight ch.
Proof. exact no_loss. Qed.
Print Assumptions C10_no_loss.
Theorem C10_loss_only_after_close : forall s c ch, reachable s -> nth_error (chans s) c = Some ch ->
  dropped ch = true -> term s = true.
Proof. exact loss_only_after_close. Qed.
Print Assumptions C10_loss_only_after_close.

(* exactly one open event before anything else from the channel *)
Theorem C10_open_first : forall s c ch, reachable s -> nth_error (chans s) c = Some ch ->
  proj c (log s) <> [] -> hd EParse (proj c (log s)) = EOpen.
Proof. exact open_first. Qed.
Print Assumptions C10_open_first.

(* the close event comes once and last: nothing of the channel is attempted after it *)
Theorem C10_close_last : forall s c ch, reachable s -> nth_error (chans s) c = Some ch ->
  forall x, In (EClose x) (started_evs ch) ->
  exists pre, started_evs ch = pre ++ [EClose x] /\ (forall y, ~ In (EClose y) pre) /\
              ((exists p, un ch = UPush p) \/ un ch = UCloseCh \/ un ch = UEnd).
Proof. exact close_last. Qed.
Print Assumptions C10_close_last.

(* ---- tie by translation (gen/SrcFrame.v regenerated from pkg/frame on every run) ---- the buffer
   the frame reader hands to the transport holds a whole UDP datagram, so that what arrives in one
   datagram is one chunk of the byte stream the theorems above speak about (finding F13: with the
   former 512-byte buffer the rest of a longer datagram was discarded) *)
From Coq Require Import ZArith.
From GM Require Import SrcFrame SrcFrameBufTie.
Theorem C10_source_read_buffer_holds_a_datagram :
  (65507 <= c_frame_readBufferSize /\ c_frame_readBufferSize = a_frame_Reader_Initialize_NewReaderSize)%Z.
Proof. exact src_read_buffer. Qed.
Print Assumptions C10_source_read_buffer_holds_a_datagram.
