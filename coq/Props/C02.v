(* C02 — Checksum gate: X.25 CRC with CRC_EXTRA decides delivery.  Statements only. *)
From GM Require Import Result Crc X25 CrcProofs Codec Frame Stream Reader GateProofs.

(* the code's checksum step is the CRC-16/MCRF4XX bit-serial register on all 2^24 pairs *)
Theorem C02_step_is_mcrf4xx : forall c b, c < 65536 -> b < 256 -> x25_step c b = mcrf4xx_step c b.
Proof. exact x25_step_is_mcrf4xx. Qed.
Print Assumptions C02_step_is_mcrf4xx.

(* feeding the hash in any split gives the same register *)
Theorem C02_any_split : forall a b c, x25_write c (a ++ b) = x25_write (x25_write c a) b.
Proof. exact x25_write_app. Qed.
Print Assumptions C02_any_split.

(* the hash of any byte string is the catalogue CRC (init 0xFFFF, no final xor) *)
Theorem C02_sum_is_mcrf4xx : forall p, bytes_ok p = true -> x25_sum p = mcrf4xx p.
Proof. exact x25_sum_is_mcrf4xx. Qed.
Print Assumptions C02_sum_is_mcrf4xx.

(* the frame checksum is that CRC over length..payload followed by CRC_EXTRA *)
Theorem C02_checksum_is_spec : forall f id p extra,
  bytes_ok (checksum_input f id p extra) = true ->
  gen_checksum f id p extra = mcrf4xx (checksum_input f id p extra).
Proof. exact checksum_is_spec. Qed.
Print Assumptions C02_checksum_is_spec.

(* delivered only if the carried checksum equals the computed one (and the payload decodes) *)
Theorem C02_gate_sound : forall d f0 f id p c,
  check_dialect d f0 = RFrame f -> raw_of f0 = (id, p) -> dlookup d id = Some c ->
  gen_checksum f0 id p (c_crc c) = f_ck f0 /\
  exists v, msg_read c (f_v2 f0) p = Ok v /\ f_msg f = MDec id v.
Proof. exact gate_sound. Qed.
Print Assumptions C02_gate_sound.

(* a frame of a dialect message whose checksum differs is a non-fatal parse error *)
Theorem C02_gate_reject : forall d f0 id p c,
  raw_of f0 = (id, p) -> dlookup d id = Some c ->
  gen_checksum f0 id p (c_crc c) <> f_ck f0 -> check_dialect d f0 = RParse pe_checksum.
Proof. exact gate_reject. Qed.
Print Assumptions C02_gate_reject.

(* every frame that carries the right checksum and decodes is delivered, decoded *)
Theorem C02_gate_complete : forall d f0 id p c v p',
  raw_of f0 = (id, p) -> dlookup d id = Some c ->
  gen_checksum f0 id p (c_crc c) = f_ck f0 -> msg_read c (f_v2 f0) p = Ok v ->
  msg_write c (f_v2 f0) v = Ok p' ->
  exists f, check_dialect d f0 = RFrame f /\ f_msg f = MDec id v /\
            f_seq f = f_seq f0 /\ f_sys f = f_sys f0 /\ f_comp f = f_comp f0.
Proof. exact gate_complete. Qed.
Print Assumptions C02_gate_complete.

(* nothing reaches the application from a dialect-configured reader except through the gate *)
Theorem C02_reader_frames_pass_gate : forall cfg st s f st' s' d,
  reader_read cfg st s = (RFrame f, st', s') -> r_dialect cfg = Some d ->
  exists f0, check_dialect d f0 = RFrame f.
Proof. exact reader_frame_from_gate. Qed.
Print Assumptions C02_reader_frames_pass_gate.

(* ---- tie by translation (gen/SrcX25.v is regenerated from pkg/x25/x25.go on every run) ----
   the hash as the source computes it, statement by statement (Reset, then the loop of Write over
   the bytes), is CRC-16/MCRF4XX for every byte string; Sum appends it low byte first *)
From Coq Require Import NArith List.
From GM Require Import SrcPrelude SrcX25 SrcX25Tie.
Theorem C02_source_hash_is_mcrf4xx : forall p, Bytes.bytes_ok p = true ->
  src_x25_X25_Write (src_x25_X25_Reset 0%N) p = Crc.mcrf4xx p.
Proof. exact src_x25_is_mcrf4xx. Qed.
Print Assumptions C02_source_hash_is_mcrf4xx.

Theorem C02_source_sum_bytes : forall c b, src_x25_X25_Sum c b = (b ++ X25.x25_sum_bytes c)%list.
Proof. exact src_x25_sum. Qed.
Print Assumptions C02_source_sum_bytes.

(* GenerateChecksum of V1Frame and V2Frame, translated statement by statement from the source on
   every run (x25.New, the Write calls in their order, the 24-bit id through uint24Encode, Sum16):
   for every frame holding a raw message it is the model's gen_checksum — the X.25 hash over
   length .. payload followed by the CRC_EXTRA byte — which the theorems above prove to be
   CRC-16/MCRF4XX and to be what the reader's gate compares *)
From GM Require Import SrcFrame SrcFrameCkTie.
Theorem C02_source_checksum_v1 : forall f id p extra, Frame.f_v2 f = false ->
  src_frame_V1Frame_GenerateChecksum (Frame.f_seq f) (Frame.f_sys f) (Frame.f_comp f) extra p id =
  Frame.gen_checksum f id p extra.
Proof. exact src_v1_checksum. Qed.
Print Assumptions C02_source_checksum_v1.

Theorem C02_source_checksum_v2 : forall f id p extra, Frame.f_v2 f = true ->
  src_frame_V2Frame_GenerateChecksum (Frame.f_inc f) (Frame.f_cmp f) (Frame.f_seq f) (Frame.f_sys f) (Frame.f_comp f)
    extra p id = Frame.gen_checksum f id p extra.
Proof. exact src_v2_checksum. Qed.
Print Assumptions C02_source_checksum_v2.
