(* C07 — Signature replay window.  Statements only. *)
From GM Require Import Bytes Result Frame Reader Writer WindowProofs SignProofs.

(* one correctly signed frame: refused iff more than 10^6 ticks older than the newest accepted *)
Theorem C07_window_is_spec : forall cur ts,
  window_refuse cur ts = true <-> (0 < cur /\ ts + 1000000 < cur).
Proof. exact window_is_spec. Qed.
Print Assumptions C07_window_is_spec.

(* frames inside the window, reordered and equal ones included, are accepted *)
Theorem C07_accepts_inside : forall cur ts, cur <= ts + 1000000 -> window_refuse cur ts = false.
Proof. exact window_accepts_inside. Qed.
Print Assumptions C07_accepts_inside.

(* the register holds the newest accepted timestamp *)
Theorem C07_register_is_max : forall cur ts, window_update cur ts = N.max cur ts.
Proof. exact window_update_max. Qed.
Print Assumptions C07_register_is_max.

(* every history: the reader refuses exactly the frames more than 10^6 ticks older than some
   frame it accepted earlier (specification without the register) *)
Theorem C07_history_is_spec : forall l acc, win_hist (newest acc) l = spec_hist acc l.
Proof. exact window_history_is_spec. Qed.
Print Assumptions C07_history_is_spec.

(* the keyed reader's decision is that window function of its register *)
Theorem C07_reader_uses_window : forall key st f st',
  check_key key st f = (None, st') <->
  (f_v2 f = true /\ exists sg, f_sig f = Some sg /\
   gen_signature key f (fst (raw_of f)) (snd (raw_of f)) = sg /\
   window_refuse (r_cur_ts st) (f_ts f) = false /\
   st' = mkRstate (window_update (r_cur_ts st) (f_ts f))).
Proof. exact keyed_accept_iff. Qed.
Print Assumptions C07_reader_uses_window.

(* a frame the keyed reader refuses (not v2, unsigned, wrongly signed, too old) never moves the window *)
Theorem C07_refused_frames_keep_register : forall key st f code st', check_key key st f = (Some code, st') -> st' = st.
Proof. exact refused_keeps_register. Qed.
Print Assumptions C07_refused_frames_keep_register.

(* outgoing timestamps are 10-microsecond ticks of the elapsed time, monotone in the clock *)
Theorem C07_out_ts_units : forall ns, ns < 18446744073709551616 -> sig_ticks_of_ns ns = ns / 10000.
Proof. exact sig_ticks_units. Qed.
Print Assumptions C07_out_ts_units.
Theorem C07_out_ts_monotone : forall a b, a <= b -> b < 18446744073709551616 ->
  sig_ticks_of_ns a <= sig_ticks_of_ns b.
Proof. exact sig_ticks_monotone. Qed.
Print Assumptions C07_out_ts_monotone.

(* non-vacuity: the defect input of the unrepaired code (newest = 5, then 6) is accepted *)
Example C07_small_register : win_hist 0 [5; 5; 6; 2000000; 1500000; 999999] = [true; true; true; true; true; false].
Proof. vm_compute. reflexivity. Qed.

(* ---- tie by translation (gen/SrcFrame.v, gen/SrcStreamwriter.v regenerated from the source on
   every run) ---- the signature clock counts 10 microsecond ticks since 1st January 2015 in both
   writers, and the reader's window is the model's *)
From Coq Require Import ZArith List.
Import ListNotations.
From GM Require Import SrcFrame SrcStreamwriter SrcFrameSignTie.
Theorem C07_source_signature_constants :
  (v_frame_signatureReferenceDate_args = [2015; 1; 1; 0; 0; 0; 0] /\
   v_streamwriter_signatureReferenceDate_args = [2015; 1; 1; 0; 0; 0; 0] /\
   k_frame_Writer_writeFrameAndFill = [0; 0; 1; 10000] /\ k_streamwriter_Writer_writeInner = [0; 0; 1; 10000] /\
   k_frame_Reader_Read = [254; 253; 0; Z.of_N Reader.window])%Z.
Proof. exact src_frame_signing. Qed.
Print Assumptions C07_source_signature_constants.
