(* C09 — Originated frames.  Statements only. *)
From GM Require Import Bytes Result Codec Frame Stream Reader Writer WriterProofs.

Theorem C09_init_missing_version : forall sys comp key, writer_init 0 sys comp key = Err err_init_conf.
Proof. exact init_missing_version. Qed.
Print Assumptions C09_init_missing_version.
Theorem C09_init_zero_sysid : forall v comp key, v <> 0 -> writer_init v 0 comp key = Err err_init_conf.
Proof. exact init_zero_sysid. Qed.
Print Assumptions C09_init_zero_sysid.
Theorem C09_init_key_needs_v2 : forall v sys comp, v <> 2 -> writer_init v sys comp true = Err err_init_conf.
Proof. exact init_key_needs_v2. Qed.
Print Assumptions C09_init_key_needs_v2.
Theorem C09_init_component_default : forall v sys key c, writer_init v sys 0 key = Ok c -> c = 1.
Proof. exact init_component_default. Qed.
Print Assumptions C09_init_component_default.

Theorem C09_originated_fields : forall cfg st m now f p, stream_build cfg st m now = Ok (f, p) ->
  f_v2 f = w_v2 cfg /\ f_cmp f = 0 /\ f_seq f = w_seq st /\ f_sys f = w_sys cfg /\ f_comp f = w_comp cfg /\
  f_inc f = (if signs cfg then 1 else 0) /\
  f_msg f = MRaw (msg_id m) p /\
  (exists dl c, w_dialect cfg = Some dl /\ dlookup dl (msg_id m) = Some c /\
                f_ck f = gen_checksum f (msg_id m) p (c_crc c)) /\
  (forall k, w_key cfg = Some k -> w_v2 cfg = true ->
     f_link f = w_link cfg /\ f_ts f = u48 now /\ f_sig f = Some (gen_signature k f (msg_id m) p)) /\
  (signs cfg = false -> f_sig f = None /\ f_link f = 0 /\ f_ts f = 0).
Proof. exact originated_fields. Qed.
Print Assumptions C09_originated_fields.

(* any history of writes, accepted and rejected interleaved: emitted sequence numbers are
   s, s+1, s+2, ... modulo 256 *)
Theorem C09_seq_gapless : forall cfg ops st, w_seq st < 256 ->
  map (seq_byte (w_v2 cfg)) (stream_run cfg st ops) =
  map (fun k => u8 (w_seq st + N.of_nat k)) (seq 0 (length (stream_run cfg st ops))).
Proof. exact seq_gapless. Qed.
Print Assumptions C09_seq_gapless.

Theorem C09_v1_refuses_big_ids : forall cfg st m now, w_v2 cfg = false -> 255 < msg_id m ->
  forall st' r, stream_write cfg st m now = (st', r) -> st' = st /\ forall bs, r <> Ok bs.
Proof. exact v1_refuses_big_ids. Qed.
Print Assumptions C09_v1_refuses_big_ids.

(* ---- tie by translation (regenerated from the source on every run) ---- the component id used
   when none is configured, in Node.Initialize, frame.Writer and streamwriter.Writer *)
From Coq Require Import ZArith.
From GM Require Import SrcGomavlib SrcFrame SrcStreamwriter SrcNodeTie SrcFrameTie.
Theorem C09_source_default_component :
  (d_gomavlib_Node_Initialize_OutComponentID = 1 /\ d_frame_Writer_Initialize_OutComponentID = 1 /\
   d_streamwriter_Writer_Initialize_ComponentID = 1)%Z.
Proof. split; [exact src_node_defaults|]. split; apply src_frame_layout. Qed.
Print Assumptions C09_source_default_component.
