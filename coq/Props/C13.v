(* C13 — A stalled or failing channel neither stalls the node nor dies silently.  Statements only. *)
From GM Require Import Node NodeBase NodeQueues.

Theorem C13_backlog_bounded : forall s, reachable s -> forall c ch, nth_error (chans s) c = Some ch -> length (q ch) <= qcap.
Proof. exact backlog_bounded. Qed.
Print Assumptions C13_backlog_bounded.

(* items beyond the backlog are discarded for that channel only, order preserved *)
Theorem C13_overflow_preserves_order : forall s, reachable s -> forall c ch, nth_error (chans s) c = Some ch ->
  sublist (wire ch) (map d_item (filter (lists c) (dispatch s))).
Proof. exact wire_in_order. Qed.
Print Assumptions C13_overflow_preserves_order.

(* the loop never blocks on a channel: the next submission is always accepted *)
Theorem C13_submit_never_blocks : forall s g t it, loop s = LSelect -> exists s', lstep s (LSubmit g t it []) = Some s'.
Proof. exact submit_never_blocks. Qed.
Print Assumptions C13_submit_never_blocks.

(* whether a goroutine of a channel can step depends on that channel and node-wide flags only *)
Theorem C13_chan_step_local : forall s1 s2 c a,
  term s1 = term s2 -> consuming s1 = consuming s2 -> events_closed s1 = events_closed s2 -> loop s1 = loop s2 ->
  nth_error (chans s1) c = nth_error (chans s2) c ->
  (lstep s1 (LChan c a) = None <-> lstep s2 (LChan c a) = None).
Proof. exact chan_step_local. Qed.
Print Assumptions C13_chan_step_local.

(* a writer ends only while its channel is being closed: never open-and-discarding *)
Theorem C13_no_silent_death : forall s, reachable s -> forall c ch, nth_error (chans s) c = Some ch ->
  (wr ch = WDone \/ wr ch = WEnd) -> wterm ch = true /\ closing ch.
Proof. exact no_silent_death. Qed.
Print Assumptions C13_no_silent_death.

(* ---- tie by translation (gen/SrcGomavlib.v regenerated from the source on every run) ---- the
   queue length the transition system is proved for is the source's writeBufferSize *)
From Coq Require Import ZArith.
From GM Require Import SrcGomavlib SrcNodeTie.
Theorem C13_source_queue_length : Z.of_nat Node.qcap = c_gomavlib_writeBufferSize.
Proof. exact src_queue_length. Qed.
Print Assumptions C13_source_queue_length.
