(* C01 — Frame wire format: spec layout and lossless round trip.  Statements only. *)
From GM Require Import Result Codec Frame Wire Stream FlatStream Reader ReaderSim FrameProofs.

(* the bytes handed to the transport are exactly the MAVLink layout, for every well-formed frame *)
Theorem C01_marshal_is_spec : forall f p, frame_wf f p -> marshal f p = Ok (spec_bytes f p).
Proof. exact marshal_is_spec. Qed.
Print Assumptions C01_marshal_is_spec.

(* a v1 frame whose id exceeds 255 is refused with an error: nothing is emitted *)
Theorem C01_v1_big_id_refused : forall f p,
  f_v2 f = false -> 255 < frame_id f -> marshal f p = Err err_v1_bigid.
Proof. exact v1_big_id_refused. Qed.
Print Assumptions C01_v1_big_id_refused.

Theorem C01_frame_len_le_280 : forall f p bs,
  frame_wf f p -> marshal f p = Ok bs -> (length bs <= 280)%nat.
Proof. exact frame_len_le_280. Qed.
Print Assumptions C01_frame_len_le_280.

(* reading the layout back (whatever follows it) returns the frame field for field *)
Theorem C01_roundtrip_flat : forall f p st rest, frame_wf f p ->
  flat_reader_read nocfg st (map B (spec_bytes f p) ++ rest) = (RFrame f, st, rest).
Proof. exact roundtrip_flat. Qed.
Print Assumptions C01_roundtrip_flat.

(* ... on the bufio model, for every way the transport splits the bytes into reads *)
Theorem C01_roundtrip_chunked : forall f p st s, frame_wf f p ->
  forall rest, items s = map B (spec_bytes f p) ++ rest ->
  exists s', reader_read nocfg st s = (RFrame f, st, s') /\ items s' = rest.
Proof. exact roundtrip_chunked. Qed.
Print Assumptions C01_roundtrip_chunked.

(* non-vacuity: a signed v2 frame with extreme field values is well-formed *)
Example C01_wf_example :
  frame_wf (mkFrame true 1 255 255 255 255 (MRaw 16777215 [0; 255]) 65535 255 281474976710655
                    (Some [1; 2; 3; 4; 5; 6])) [0; 255].
Proof. unfold frame_wf, frame_id; cbn. repeat split; try reflexivity; try (apply le_S_n; repeat constructor).
  right. repeat split; try reflexivity. exists [1;2;3;4;5;6]. repeat split. Qed.
