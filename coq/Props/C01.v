(* C01 — Frame wire format: spec layout and lossless round trip.  Statements only. *)
From GM Require Import Result Codec Frame Wire Stream FlatStream Reader ReaderSim FrameProofs.

(* the bytes handed to the transport are exactly the MAVLink layout, for every well-formed frame *)
Theorem C01_marshal_is_spec : forall f p, frame_wf f p -> marshal f p = Ok (spec_bytes f p).
Proof. exact marshal_is_spec. Qed.
Print Assumptions C01_marshal_is_spec.

(* a v1 frame whose id exceeds 255 is refused with an error: nothing is emitted *)
Theorem C01_v1_big_id_refused : forall f p,
  f_v2 f = false -> 255 < frame_id f -> marshal f p = Err err_v1_bigid.
Proof. exact v1_big_id_refused. Qed.
Print Assumptions C01_v1_big_id_refused.

Theorem C01_frame_len_le_280 : forall f p bs,
  frame_wf f p -> marshal f p = Ok bs -> (length bs <= 280)%nat.
Proof. exact frame_len_le_280. Qed.
Print Assumptions C01_frame_len_le_280.

(* reading the layout back (whatever follows it) returns the frame field for field *)
Theorem C01_roundtrip_flat : forall f p st rest, frame_wf f p ->
  flat_reader_read nocfg st (map B (spec_bytes f p) ++ rest) = (RFrame f, st, rest).
Proof. exact roundtrip_flat. Qed.
Print Assumptions C01_roundtrip_flat.

(* ... on the bufio model, for every way the transport splits the bytes into reads *)
Theorem C01_roundtrip_chunked : forall f p st s, frame_wf f p ->
  forall rest, items s = map B (spec_bytes f p) ++ rest ->
  exists s', reader_read nocfg st s = (RFrame f, st, s') /\ items s' = rest.
Proof. exact roundtrip_chunked. Qed.
Print Assumptions C01_roundtrip_chunked.

(* non-vacuity: a signed v2 frame with extreme field values is well-formed *)
Example C01_wf_example :
  frame_wf (mkFrame true 1 255 255 255 255 (MRaw 16777215 [0; 255]) 65535 255 281474976710655
                    (Some [1; 2; 3; 4; 5; 6])) [0; 255].
Proof. unfold frame_wf, frame_id; cbn. repeat split; try reflexivity; try (apply le_S_n; repeat constructor).
  right. repeat split; try reflexivity. exists [1;2;3;4;5;6]. repeat split. Qed.

(* ---- tie by translation (gen/SrcFrame.v, gen/SrcStreamwriter.v are regenerated from the source on
   every run) ---- markers, the signed flag, the
   marshal buffer that must hold the longest frame and the read buffer that must hold the longest UDP datagram; the 24- and 48-bit helpers and IsSigned, translated
   statement by statement, are the model's little-endian codec and flag test *)
From Coq Require Import ZArith NArith List.
Import ListNotations.
From GM Require Import SrcPrelude SrcFrame SrcStreamwriter SrcFrameLemmas SrcFrameTie.
Theorem C01_source_layout_constants :
  (c_frame_V1MagicByte = 254 /\ c_frame_V2MagicByte = 253 /\ c_frame_V2FlagSigned = 1 /\
   280 <= c_frame_bufferSize /\ 65507 <= c_frame_readBufferSize /\
   c_frame_readBufferSize = a_frame_Reader_Initialize_NewReaderSize /\
   d_frame_Writer_Initialize_OutComponentID = 1 /\ d_streamwriter_Writer_Initialize_ComponentID = 1)%Z.
Proof. exact src_frame_layout. Qed.
Print Assumptions C01_source_layout_constants.

Theorem C01_source_uint24 :
  (forall x0 x1 x2 rest v, src_frame_uint24Encode (x0 :: x1 :: x2 :: rest) v = (Bytes.le_enc 3 v ++ rest)%list) /\
  (forall a b c, a < 256 -> b < 256 -> c < 256 -> src_frame_uint24Decode [a; b; c] = Bytes.le_dec [a; b; c])%N.
Proof. split; [exact src_uint24_encode|exact src_uint24_decode]. Qed.
Print Assumptions C01_source_uint24.

Theorem C01_source_uint48 :
  (forall x0 x1 x2 x3 x4 x5 rest v,
     src_frame_uint48Encode (x0 :: x1 :: x2 :: x3 :: x4 :: x5 :: rest) v = (Bytes.le_enc 6 v ++ rest)%list) /\
  (forall a b c d e f, a < 256 -> b < 256 -> c < 256 -> d < 256 -> e < 256 -> f < 256 ->
     src_frame_uint48Decode [a; b; c; d; e; f] = Bytes.le_dec [a; b; c; d; e; f])%N.
Proof. split; [exact src_uint48_encode|exact src_uint48_decode]. Qed.
Print Assumptions C01_source_uint48.

Theorem C01_source_is_signed : forall f, src_frame_V2Frame_IsSigned (Frame.f_inc f) = Frame.is_signed f.
Proof. exact src_is_signed. Qed.
Print Assumptions C01_source_is_signed.


(* marshalTo of V1Frame and V2Frame, translated statement by statement from the source on every run
   (stores into the 512-byte buffer, the 24/48-bit helpers, copy, PutUint16, the signature block):
   for every frame and payload, in a buffer long enough, it leaves exactly the bytes of the model's
   [marshal] at the front of the buffer, the rest untouched, and returns their number; a v1 frame
   with an id above 255 is refused and the buffer is not touched *)
Theorem C01_source_marshal_v1 : forall f p buf, f_v2 f = false -> (8 + length p <= length buf)%nat ->
  src_frame_V1Frame_marshalTo (f_seq f) (f_sys f) (f_comp f) (f_ck f) (msg_id (f_msg f)) buf p =
  match marshal f p with
  | Result.Ok bs => (Bytes.nlen bs, false, (bs ++ skipn (length bs) buf)%list)
  | _ => (0%N, true, buf)
  end.
Proof. exact src_v1_marshal. Qed.
Print Assumptions C01_source_marshal_v1.

Theorem C01_source_marshal_v2 : forall f p buf s, f_v2 f = true -> (25 + length p <= length buf)%nat ->
  (is_signed f = true -> f_sig f = Some s /\ length s = 6%nat) ->
  src_frame_V2Frame_marshalTo (f_inc f) (f_cmp f) (f_seq f) (f_sys f) (f_comp f) (f_ck f) (f_link f) (f_ts f) s
    (msg_id (f_msg f)) buf p =
  match marshal f p with
  | Result.Ok bs => (Bytes.nlen bs, false, (bs ++ skipn (length bs) buf)%list)
  | _ => (0%N, true, buf)
  end.
Proof. exact src_v2_marshal. Qed.
Print Assumptions C01_source_marshal_v2.
