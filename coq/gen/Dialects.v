(* GENERATED from /repo by harness/cmd/extract on every run. Do not edit. *)
From GM Require Import Tables.
Open Scope string_scope.

Definition S0 : gstruct := mkGS "minimal" "MessageHeartbeat" [
  gf "Type" false 0 "MAV_TYPE" true false "uint8" "" "" "";
  gf "Autopilot" false 0 "MAV_AUTOPILOT" true false "uint8" "" "" "";
  gf "BaseMode" false 0 "MAV_MODE_FLAG" true false "uint8" "" "" "";
  gf "CustomMode" false 0 "uint32" false false "" "" "" "";
  gf "SystemStatus" false 0 "MAV_STATE" true false "uint8" "" "" "";
  gf "MavlinkVersion" false 0 "uint8" false false "" "" "" ""
].
Definition S1 : gstruct := mkGS "minimal" "MessageProtocolVersion" [
  gf "Version" false 0 "uint16" false false "" "" "" "";
  gf "MinVersion" false 0 "uint16" false false "" "" "" "";
  gf "MaxVersion" false 0 "uint16" false false "" "" "" "";
  gf "SpecVersionHash" true 8 "uint8" false false "" "" "" "";
  gf "LibraryVersionHash" true 8 "uint8" false false "" "" "" ""
].
Definition S2 : gstruct := mkGS "common" "MessageSysStatus" [
  gf "OnboardControlSensorsPresent" false 0 "MAV_SYS_STATUS_SENSOR" true false "uint32" "" "" "";
  gf "OnboardControlSensorsEnabled" false 0 "MAV_SYS_STATUS_SENSOR" true false "uint32" "" "" "";
  gf "OnboardControlSensorsHealth" false 0 "MAV_SYS_STATUS_SENSOR" true false "uint32" "" "" "";
  gf "Load" false 0 "uint16" false false "" "" "" "";
  gf "VoltageBattery" false 0 "uint16" false false "" "" "" "";
  gf "CurrentBattery" false 0 "int16" false false "" "" "" "";
  gf "BatteryRemaining" false 0 "int8" false false "" "" "" "";
  gf "DropRateComm" false 0 "uint16" false false "" "" "" "";
  gf "ErrorsComm" false 0 "uint16" false false "" "" "" "";
  gf "ErrorsCount1" false 0 "uint16" false false "" "" "" "";
  gf "ErrorsCount2" false 0 "uint16" false false "" "" "" "";
  gf "ErrorsCount3" false 0 "uint16" false false "" "" "" "";
  gf "ErrorsCount4" false 0 "uint16" false false "" "" "" "";
  gf "OnboardControlSensorsPresentExtended" false 0 "MAV_SYS_STATUS_SENSOR_EXTENDED" true false "uint32" "" "true" "";
  gf "OnboardControlSensorsEnabledExtended" false 0 "MAV_SYS_STATUS_SENSOR_EXTENDED" true false "uint32" "" "true" "";
  gf "OnboardControlSensorsHealthExtended" false 0 "MAV_SYS_STATUS_SENSOR_EXTENDED" true false "uint32" "" "true" ""
].
Definition S3 : gstruct := mkGS "common" "MessageSystemTime" [
  gf "TimeUnixUsec" false 0 "uint64" true false "" "" "" "";
  gf "TimeBootMs" false 0 "uint32" false false "" "" "" ""
].
Definition S4 : gstruct := mkGS "common" "MessagePing" [
  gf "TimeUsec" false 0 "uint64" true false "" "" "" "";
  gf "Seq" false 0 "uint32" false false "" "" "" "";
  gf "TargetSystem" false 0 "uint8" false false "" "" "" "";
  gf "TargetComponent" false 0 "uint8" false false "" "" "" ""
].
Definition S5 : gstruct := mkGS "common" "MessageChangeOperatorControl" [
  gf "TargetSystem" false 0 "uint8" false false "" "" "" "";
  gf "ControlRequest" false 0 "uint8" false false "" "" "" "";
  gf "Version" false 0 "uint8" false false "" "" "" "";
  gf "Passkey" false 0 "string" false true "" "25" "" ""
].
Definition S6 : gstruct := mkGS "common" "MessageChangeOperatorControlAck" [
  gf "GcsSystemId" false 0 "uint8" false false "" "" "" "";
  gf "ControlRequest" false 0 "uint8" false false "" "" "" "";
  gf "Ack" false 0 "uint8" false false "" "" "" ""
].
Definition S7 : gstruct := mkGS "common" "MessageAuthKey" [
  gf "Key" false 0 "string" false true "" "32" "" ""
].
Definition S8 : gstruct := mkGS "common" "MessageLinkNodeStatus" [
  gf "Timestamp" false 0 "uint64" true false "" "" "" "";
  gf "TxBuf" false 0 "uint8" false false "" "" "" "";
  gf "RxBuf" false 0 "uint8" false false "" "" "" "";
  gf "TxRate" false 0 "uint32" false false "" "" "" "";
  gf "RxRate" false 0 "uint32" false false "" "" "" "";
  gf "RxParseErr" false 0 "uint16" false false "" "" "" "";
  gf "TxOverflows" false 0 "uint16" false false "" "" "" "";
  gf "RxOverflows" false 0 "uint16" false false "" "" "" "";
  gf "MessagesSent" false 0 "uint32" false false "" "" "" "";
  gf "MessagesReceived" false 0 "uint32" false false "" "" "" "";
  gf "MessagesLost" false 0 "uint32" false false "" "" "" ""
].
Definition S9 : gstruct := mkGS "common" "MessageSetMode" [
  gf "TargetSystem" false 0 "uint8" false false "" "" "" "";
  gf "BaseMode" false 0 "MAV_MODE" true false "uint8" "" "" "";
  gf "CustomMode" false 0 "uint32" false false "" "" "" ""
].
Definition S10 : gstruct := mkGS "common" "MessageParamRequestRead" [
  gf "TargetSystem" false 0 "uint8" false false "" "" "" "";
  gf "TargetComponent" false 0 "uint8" false false "" "" "" "";
  gf "ParamId" false 0 "string" false true "" "16" "" "";
  gf "ParamIndex" false 0 "int16" false false "" "" "" ""
].
Definition S11 : gstruct := mkGS "common" "MessageParamRequestList" [
  gf "TargetSystem" false 0 "uint8" false false "" "" "" "";
  gf "TargetComponent" false 0 "uint8" false false "" "" "" ""
].
Definition S12 : gstruct := mkGS "common" "MessageParamValue" [
  gf "ParamId" false 0 "string" false true "" "16" "" "";
  gf "ParamValue" false 0 "float32" false false "" "" "" "";
  gf "ParamType" false 0 "MAV_PARAM_TYPE" true false "uint8" "" "" "";
  gf "ParamCount" false 0 "uint16" false false "" "" "" "";
  gf "ParamIndex" false 0 "uint16" false false "" "" "" ""
].
Definition S13 : gstruct := mkGS "common" "MessageParamSet" [
  gf "TargetSystem" false 0 "uint8" false false "" "" "" "";
  gf "TargetComponent" false 0 "uint8" false false "" "" "" "";
  gf "ParamId" false 0 "string" false true "" "16" "" "";
  gf "ParamValue" false 0 "float32" false false "" "" "" "";
  gf "ParamType" false 0 "MAV_PARAM_TYPE" true false "uint8" "" "" ""
].
Definition S14 : gstruct := mkGS "common" "MessageGpsRawInt" [
  gf "TimeUsec" false 0 "uint64" true false "" "" "" "";
  gf "FixType" false 0 "GPS_FIX_TYPE" true false "uint8" "" "" "";
  gf "Lat" false 0 "int32" false false "" "" "" "";
  gf "Lon" false 0 "int32" false false "" "" "" "";
  gf "Alt" false 0 "int32" false false "" "" "" "";
  gf "Eph" false 0 "uint16" false false "" "" "" "";
  gf "Epv" false 0 "uint16" false false "" "" "" "";
  gf "Vel" false 0 "uint16" false false "" "" "" "";
  gf "Cog" false 0 "uint16" false false "" "" "" "";
  gf "SatellitesVisible" false 0 "uint8" false false "" "" "" "";
  gf "AltEllipsoid" false 0 "int32" false false "" "" "true" "";
  gf "HAcc" false 0 "uint32" false false "" "" "true" "";
  gf "VAcc" false 0 "uint32" false false "" "" "true" "";
  gf "VelAcc" false 0 "uint32" false false "" "" "true" "";
  gf "HdgAcc" false 0 "uint32" false false "" "" "true" "";
  gf "Yaw" false 0 "uint16" false false "" "" "true" ""
].
Definition S15 : gstruct := mkGS "common" "MessageGpsStatus" [
  gf "SatellitesVisible" false 0 "uint8" false false "" "" "" "";
  gf "SatellitePrn" true 20 "uint8" false false "" "" "" "";
  gf "SatelliteUsed" true 20 "uint8" false false "" "" "" "";
  gf "SatelliteElevation" true 20 "uint8" false false "" "" "" "";
  gf "SatelliteAzimuth" true 20 "uint8" false false "" "" "" "";
  gf "SatelliteSnr" true 20 "uint8" false false "" "" "" ""
].
Definition S16 : gstruct := mkGS "common" "MessageScaledImu" [
  gf "TimeBootMs" false 0 "uint32" false false "" "" "" "";
  gf "Xacc" false 0 "int16" false false "" "" "" "";
  gf "Yacc" false 0 "int16" false false "" "" "" "";
  gf "Zacc" false 0 "int16" false false "" "" "" "";
  gf "Xgyro" false 0 "int16" false false "" "" "" "";
  gf "Ygyro" false 0 "int16" false false "" "" "" "";
  gf "Zgyro" false 0 "int16" false false "" "" "" "";
  gf "Xmag" false 0 "int16" false false "" "" "" "";
  gf "Ymag" false 0 "int16" false false "" "" "" "";
  gf "Zmag" false 0 "int16" false false "" "" "" "";
  gf "Temperature" false 0 "int16" false false "" "" "true" ""
].
Definition S17 : gstruct := mkGS "common" "MessageRawImu" [
  gf "TimeUsec" false 0 "uint64" true false "" "" "" "";
  gf "Xacc" false 0 "int16" false false "" "" "" "";
  gf "Yacc" false 0 "int16" false false "" "" "" "";
  gf "Zacc" false 0 "int16" false false "" "" "" "";
  gf "Xgyro" false 0 "int16" false false "" "" "" "";
  gf "Ygyro" false 0 "int16" false false "" "" "" "";
  gf "Zgyro" false 0 "int16" false false "" "" "" "";
  gf "Xmag" false 0 "int16" false false "" "" "" "";
  gf "Ymag" false 0 "int16" false false "" "" "" "";
  gf "Zmag" false 0 "int16" false false "" "" "" "";
  gf "Id" false 0 "uint8" false false "" "" "true" "";
  gf "Temperature" false 0 "int16" false false "" "" "true" ""
].
Definition S18 : gstruct := mkGS "common" "MessageRawPressure" [
  gf "TimeUsec" false 0 "uint64" true false "" "" "" "";
  gf "PressAbs" false 0 "int16" false false "" "" "" "";
  gf "PressDiff1" false 0 "int16" false false "" "" "" "";
  gf "PressDiff2" false 0 "int16" false false "" "" "" "";
  gf "Temperature" false 0 "int16" false false "" "" "" ""
].
Definition S19 : gstruct := mkGS "common" "MessageScaledPressure" [
  gf "TimeBootMs" false 0 "uint32" false false "" "" "" "";
  gf "PressAbs" false 0 "float32" false false "" "" "" "";
  gf "PressDiff" false 0 "float32" false false "" "" "" "";
  gf "Temperature" false 0 "int16" false false "" "" "" "";
  gf "TemperaturePressDiff" false 0 "int16" false false "" "" "true" ""
].
Definition S20 : gstruct := mkGS "common" "MessageAttitude" [
  gf "TimeBootMs" false 0 "uint32" false false "" "" "" "";
  gf "Roll" false 0 "float32" false false "" "" "" "";
  gf "Pitch" false 0 "float32" false false "" "" "" "";
  gf "Yaw" false 0 "float32" false false "" "" "" "";
  gf "Rollspeed" false 0 "float32" false false "" "" "" "";
  gf "Pitchspeed" false 0 "float32" false false "" "" "" "";
  gf "Yawspeed" false 0 "float32" false false "" "" "" ""
].
Definition S21 : gstruct := mkGS "common" "MessageAttitudeQuaternion" [
  gf "TimeBootMs" false 0 "uint32" false false "" "" "" "";
  gf "Q1" false 0 "float32" false false "" "" "" "";
  gf "Q2" false 0 "float32" false false "" "" "" "";
  gf "Q3" false 0 "float32" false false "" "" "" "";
  gf "Q4" false 0 "float32" false false "" "" "" "";
  gf "Rollspeed" false 0 "float32" false false "" "" "" "";
  gf "Pitchspeed" false 0 "float32" false false "" "" "" "";
  gf "Yawspeed" false 0 "float32" false false "" "" "" "";
  gf "ReprOffsetQ" true 4 "float32" false false "" "" "true" ""
].
Definition S22 : gstruct := mkGS "common" "MessageLocalPositionNed" [
  gf "TimeBootMs" false 0 "uint32" false false "" "" "" "";
  gf "X" false 0 "float32" false false "" "" "" "";
  gf "Y" false 0 "float32" false false "" "" "" "";
  gf "Z" false 0 "float32" false false "" "" "" "";
  gf "Vx" false 0 "float32" false false "" "" "" "";
  gf "Vy" false 0 "float32" false false "" "" "" "";
  gf "Vz" false 0 "float32" false false "" "" "" ""
].
Definition S23 : gstruct := mkGS "common" "MessageGlobalPositionInt" [
  gf "TimeBootMs" false 0 "uint32" false false "" "" "" "";
  gf "Lat" false 0 "int32" false false "" "" "" "";
  gf "Lon" false 0 "int32" false false "" "" "" "";
  gf "Alt" false 0 "int32" false false "" "" "" "";
  gf "RelativeAlt" false 0 "int32" false false "" "" "" "";
  gf "Vx" false 0 "int16" false false "" "" "" "";
  gf "Vy" false 0 "int16" false false "" "" "" "";
  gf "Vz" false 0 "int16" false false "" "" "" "";
  gf "Hdg" false 0 "uint16" false false "" "" "" ""
].
Definition S24 : gstruct := mkGS "common" "MessageRcChannelsScaled" [
  gf "TimeBootMs" false 0 "uint32" false false "" "" "" "";
  gf "Port" false 0 "uint8" false false "" "" "" "";
  gf "Chan1Scaled" false 0 "int16" false false "" "" "" "";
  gf "Chan2Scaled" false 0 "int16" false false "" "" "" "";
  gf "Chan3Scaled" false 0 "int16" false false "" "" "" "";
  gf "Chan4Scaled" false 0 "int16" false false "" "" "" "";
  gf "Chan5Scaled" false 0 "int16" false false "" "" "" "";
  gf "Chan6Scaled" false 0 "int16" false false "" "" "" "";
  gf "Chan7Scaled" false 0 "int16" false false "" "" "" "";
  gf "Chan8Scaled" false 0 "int16" false false "" "" "" "";
  gf "Rssi" false 0 "uint8" false false "" "" "" ""
].
Definition S25 : gstruct := mkGS "common" "MessageRcChannelsRaw" [
  gf "TimeBootMs" false 0 "uint32" false false "" "" "" "";
  gf "Port" false 0 "uint8" false false "" "" "" "";
  gf "Chan1Raw" false 0 "uint16" false false "" "" "" "";
  gf "Chan2Raw" false 0 "uint16" false false "" "" "" "";
  gf "Chan3Raw" false 0 "uint16" false false "" "" "" "";
  gf "Chan4Raw" false 0 "uint16" false false "" "" "" "";
  gf "Chan5Raw" false 0 "uint16" false false "" "" "" "";
  gf "Chan6Raw" false 0 "uint16" false false "" "" "" "";
  gf "Chan7Raw" false 0 "uint16" false false "" "" "" "";
  gf "Chan8Raw" false 0 "uint16" false false "" "" "" "";
  gf "Rssi" false 0 "uint8" false false "" "" "" ""
].
Definition S26 : gstruct := mkGS "common" "MessageServoOutputRaw" [
  gf "TimeUsec" false 0 "uint32" false false "" "" "" "";
  gf "Port" false 0 "uint8" false false "" "" "" "";
  gf "Servo1Raw" false 0 "uint16" false false "" "" "" "";
  gf "Servo2Raw" false 0 "uint16" false false "" "" "" "";
  gf "Servo3Raw" false 0 "uint16" false false "" "" "" "";
  gf "Servo4Raw" false 0 "uint16" false false "" "" "" "";
  gf "Servo5Raw" false 0 "uint16" false false "" "" "" "";
  gf "Servo6Raw" false 0 "uint16" false false "" "" "" "";
  gf "Servo7Raw" false 0 "uint16" false false "" "" "" "";
  gf "Servo8Raw" false 0 "uint16" false false "" "" "" "";
  gf "Servo9Raw" false 0 "uint16" false false "" "" "true" "";
  gf "Servo10Raw" false 0 "uint16" false false "" "" "true" "";
  gf "Servo11Raw" false 0 "uint16" false false "" "" "true" "";
  gf "Servo12Raw" false 0 "uint16" false false "" "" "true" "";
  gf "Servo13Raw" false 0 "uint16" false false "" "" "true" "";
  gf "Servo14Raw" false 0 "uint16" false false "" "" "true" "";
  gf "Servo15Raw" false 0 "uint16" false false "" "" "true" "";
  gf "Servo16Raw" false 0 "uint16" false false "" "" "true" ""
].
Definition S27 : gstruct := mkGS "common" "MessageMissionRequestPartialList" [
  gf "TargetSystem" false 0 "uint8" false false "" "" "" "";
  gf "TargetComponent" false 0 "uint8" false false "" "" "" "";
  gf "StartIndex" false 0 "int16" false false "" "" "" "";
  gf "EndIndex" false 0 "int16" false false "" "" "" "";
  gf "MissionType" false 0 "MAV_MISSION_TYPE" true false "uint8" "" "true" ""
].
Definition S28 : gstruct := mkGS "common" "MessageMissionWritePartialList" [
  gf "TargetSystem" false 0 "uint8" false false "" "" "" "";
  gf "TargetComponent" false 0 "uint8" false false "" "" "" "";
  gf "StartIndex" false 0 "int16" false false "" "" "" "";
  gf "EndIndex" false 0 "int16" false false "" "" "" "";
  gf "MissionType" false 0 "MAV_MISSION_TYPE" true false "uint8" "" "true" ""
].
Definition S29 : gstruct := mkGS "common" "MessageMissionItem" [
  gf "TargetSystem" false 0 "uint8" false false "" "" "" "";
  gf "TargetComponent" false 0 "uint8" false false "" "" "" "";
  gf "Seq" false 0 "uint16" false false "" "" "" "";
  gf "Frame" false 0 "MAV_FRAME" true false "uint8" "" "" "";
  gf "Command" false 0 "MAV_CMD" true false "uint16" "" "" "";
  gf "Current" false 0 "uint8" false false "" "" "" "";
  gf "Autocontinue" false 0 "uint8" false false "" "" "" "";
  gf "Param1" false 0 "float32" false false "" "" "" "";
  gf "Param2" false 0 "float32" false false "" "" "" "";
  gf "Param3" false 0 "float32" false false "" "" "" "";
  gf "Param4" false 0 "float32" false false "" "" "" "";
  gf "X" false 0 "float32" false false "" "" "" "";
  gf "Y" false 0 "float32" false false "" "" "" "";
  gf "Z" false 0 "float32" false false "" "" "" "";
  gf "MissionType" false 0 "MAV_MISSION_TYPE" true false "uint8" "" "true" ""
].
Definition S30 : gstruct := mkGS "common" "MessageMissionRequest" [
  gf "TargetSystem" false 0 "uint8" false false "" "" "" "";
  gf "TargetComponent" false 0 "uint8" false false "" "" "" "";
  gf "Seq" false 0 "uint16" false false "" "" "" "";
  gf "MissionType" false 0 "MAV_MISSION_TYPE" true false "uint8" "" "true" ""
].
Definition S31 : gstruct := mkGS "common" "MessageMissionSetCurrent" [
  gf "TargetSystem" false 0 "uint8" false false "" "" "" "";
  gf "TargetComponent" false 0 "uint8" false false "" "" "" "";
  gf "Seq" false 0 "uint16" false false "" "" "" ""
].
Definition S32 : gstruct := mkGS "common" "MessageMissionCurrent" [
  gf "Seq" false 0 "uint16" false false "" "" "" "";
  gf "Total" false 0 "uint16" false false "" "" "true" "";
  gf "MissionState" false 0 "MISSION_STATE" true false "uint8" "" "true" "";
  gf "MissionMode" false 0 "uint8" false false "" "" "true" "";
  gf "MissionId" false 0 "uint32" false false "" "" "true" "";
  gf "FenceId" false 0 "uint32" false false "" "" "true" "";
  gf "RallyPointsId" false 0 "uint32" false false "" "" "true" ""
].
Definition S33 : gstruct := mkGS "common" "MessageMissionRequestList" [
  gf "TargetSystem" false 0 "uint8" false false "" "" "" "";
  gf "TargetComponent" false 0 "uint8" false false "" "" "" "";
  gf "MissionType" false 0 "MAV_MISSION_TYPE" true false "uint8" "" "true" ""
].
Definition S34 : gstruct := mkGS "common" "MessageMissionCount" [
  gf "TargetSystem" false 0 "uint8" false false "" "" "" "";
  gf "TargetComponent" false 0 "uint8" false false "" "" "" "";
  gf "Count" false 0 "uint16" false false "" "" "" "";
  gf "MissionType" false 0 "MAV_MISSION_TYPE" true false "uint8" "" "true" "";
  gf "OpaqueId" false 0 "uint32" false false "" "" "true" ""
].
Definition S35 : gstruct := mkGS "common" "MessageMissionClearAll" [
  gf "TargetSystem" false 0 "uint8" false false "" "" "" "";
  gf "TargetComponent" false 0 "uint8" false false "" "" "" "";
  gf "MissionType" false 0 "MAV_MISSION_TYPE" true false "uint8" "" "true" ""
].
Definition S36 : gstruct := mkGS "common" "MessageMissionItemReached" [
  gf "Seq" false 0 "uint16" false false "" "" "" ""
].
Definition S37 : gstruct := mkGS "common" "MessageMissionAck" [
  gf "TargetSystem" false 0 "uint8" false false "" "" "" "";
  gf "TargetComponent" false 0 "uint8" false false "" "" "" "";
  gf "Type" false 0 "MAV_MISSION_RESULT" true false "uint8" "" "" "";
  gf "MissionType" false 0 "MAV_MISSION_TYPE" true false "uint8" "" "true" "";
  gf "OpaqueId" false 0 "uint32" false false "" "" "true" ""
].
Definition S38 : gstruct := mkGS "common" "MessageSetGpsGlobalOrigin" [
  gf "TargetSystem" false 0 "uint8" false false "" "" "" "";
  gf "Latitude" false 0 "int32" false false "" "" "" "";
  gf "Longitude" false 0 "int32" false false "" "" "" "";
  gf "Altitude" false 0 "int32" false false "" "" "" "";
  gf "TimeUsec" false 0 "uint64" true false "" "" "true" ""
].
Definition S39 : gstruct := mkGS "common" "MessageGpsGlobalOrigin" [
  gf "Latitude" false 0 "int32" false false "" "" "" "";
  gf "Longitude" false 0 "int32" false false "" "" "" "";
  gf "Altitude" false 0 "int32" false false "" "" "" "";
  gf "TimeUsec" false 0 "uint64" true false "" "" "true" ""
].
Definition S40 : gstruct := mkGS "common" "MessageParamMapRc" [
  gf "TargetSystem" false 0 "uint8" false false "" "" "" "";
  gf "TargetComponent" false 0 "uint8" false false "" "" "" "";
  gf "ParamId" false 0 "string" false true "" "16" "" "";
  gf "ParamIndex" false 0 "int16" false false "" "" "" "";
  gf "ParameterRcChannelIndex" false 0 "uint8" false false "" "" "" "";
  gf "ParamValue0" false 0 "float32" false false "" "" "" "";
  gf "Scale" false 0 "float32" false false "" "" "" "";
  gf "ParamValueMin" false 0 "float32" false false "" "" "" "";
  gf "ParamValueMax" false 0 "float32" false false "" "" "" ""
].
Definition S41 : gstruct := mkGS "common" "MessageMissionRequestInt" [
  gf "TargetSystem" false 0 "uint8" false false "" "" "" "";
  gf "TargetComponent" false 0 "uint8" false false "" "" "" "";
  gf "Seq" false 0 "uint16" false false "" "" "" "";
  gf "MissionType" false 0 "MAV_MISSION_TYPE" true false "uint8" "" "true" ""
].
Definition S42 : gstruct := mkGS "common" "MessageSafetySetAllowedArea" [
  gf "TargetSystem" false 0 "uint8" false false "" "" "" "";
  gf "TargetComponent" false 0 "uint8" false false "" "" "" "";
  gf "Frame" false 0 "MAV_FRAME" true false "uint8" "" "" "";
  gf "P1x" false 0 "float32" false false "" "" "" "";
  gf "P1y" false 0 "float32" false false "" "" "" "";
  gf "P1z" false 0 "float32" false false "" "" "" "";
  gf "P2x" false 0 "float32" false false "" "" "" "";
  gf "P2y" false 0 "float32" false false "" "" "" "";
  gf "P2z" false 0 "float32" false false "" "" "" ""
].
Definition S43 : gstruct := mkGS "common" "MessageSafetyAllowedArea" [
  gf "Frame" false 0 "MAV_FRAME" true false "uint8" "" "" "";
  gf "P1x" false 0 "float32" false false "" "" "" "";
  gf "P1y" false 0 "float32" false false "" "" "" "";
  gf "P1z" false 0 "float32" false false "" "" "" "";
  gf "P2x" false 0 "float32" false false "" "" "" "";
  gf "P2y" false 0 "float32" false false "" "" "" "";
  gf "P2z" false 0 "float32" false false "" "" "" ""
].
Definition S44 : gstruct := mkGS "common" "MessageAttitudeQuaternionCov" [
  gf "TimeUsec" false 0 "uint64" true false "" "" "" "";
  gf "Q" true 4 "float32" false false "" "" "" "";
  gf "Rollspeed" false 0 "float32" false false "" "" "" "";
  gf "Pitchspeed" false 0 "float32" false false "" "" "" "";
  gf "Yawspeed" false 0 "float32" false false "" "" "" "";
  gf "Covariance" true 9 "float32" false false "" "" "" ""
].
Definition S45 : gstruct := mkGS "common" "MessageNavControllerOutput" [
  gf "NavRoll" false 0 "float32" false false "" "" "" "";
  gf "NavPitch" false 0 "float32" false false "" "" "" "";
  gf "NavBearing" false 0 "int16" false false "" "" "" "";
  gf "TargetBearing" false 0 "int16" false false "" "" "" "";
  gf "WpDist" false 0 "uint16" false false "" "" "" "";
  gf "AltError" false 0 "float32" false false "" "" "" "";
  gf "AspdError" false 0 "float32" false false "" "" "" "";
  gf "XtrackError" false 0 "float32" false false "" "" "" ""
].
Definition S46 : gstruct := mkGS "common" "MessageGlobalPositionIntCov" [
  gf "TimeUsec" false 0 "uint64" true false "" "" "" "";
  gf "EstimatorType" false 0 "MAV_ESTIMATOR_TYPE" true false "uint8" "" "" "";
  gf "Lat" false 0 "int32" false false "" "" "" "";
  gf "Lon" false 0 "int32" false false "" "" "" "";
  gf "Alt" false 0 "int32" false false "" "" "" "";
  gf "RelativeAlt" false 0 "int32" false false "" "" "" "";
  gf "Vx" false 0 "float32" false false "" "" "" "";
  gf "Vy" false 0 "float32" false false "" "" "" "";
  gf "Vz" false 0 "float32" false false "" "" "" "";
  gf "Covariance" true 36 "float32" false false "" "" "" ""
].
Definition S47 : gstruct := mkGS "common" "MessageLocalPositionNedCov" [
  gf "TimeUsec" false 0 "uint64" true false "" "" "" "";
  gf "EstimatorType" false 0 "MAV_ESTIMATOR_TYPE" true false "uint8" "" "" "";
  gf "X" false 0 "float32" false false "" "" "" "";
  gf "Y" false 0 "float32" false false "" "" "" "";
  gf "Z" false 0 "float32" false false "" "" "" "";
  gf "Vx" false 0 "float32" false false "" "" "" "";
  gf "Vy" false 0 "float32" false false "" "" "" "";
  gf "Vz" false 0 "float32" false false "" "" "" "";
  gf "Ax" false 0 "float32" false false "" "" "" "";
  gf "Ay" false 0 "float32" false false "" "" "" "";
  gf "Az" false 0 "float32" false false "" "" "" "";
  gf "Covariance" true 45 "float32" false false "" "" "" ""
].
Definition S48 : gstruct := mkGS "common" "MessageRcChannels" [
  gf "TimeBootMs" false 0 "uint32" false false "" "" "" "";
  gf "Chancount" false 0 "uint8" false false "" "" "" "";
  gf "Chan1Raw" false 0 "uint16" false false "" "" "" "";
  gf "Chan2Raw" false 0 "uint16" false false "" "" "" "";
  gf "Chan3Raw" false 0 "uint16" false false "" "" "" "";
  gf "Chan4Raw" false 0 "uint16" false false "" "" "" "";
  gf "Chan5Raw" false 0 "uint16" false false "" "" "" "";
  gf "Chan6Raw" false 0 "uint16" false false "" "" "" "";
  gf "Chan7Raw" false 0 "uint16" false false "" "" "" "";
  gf "Chan8Raw" false 0 "uint16" false false "" "" "" "";
  gf "Chan9Raw" false 0 "uint16" false false "" "" "" "";
  gf "Chan10Raw" false 0 "uint16" false false "" "" "" "";
  gf "Chan11Raw" false 0 "uint16" false false "" "" "" "";
  gf "Chan12Raw" false 0 "uint16" false false "" "" "" "";
  gf "Chan13Raw" false 0 "uint16" false false "" "" "" "";
  gf "Chan14Raw" false 0 "uint16" false false "" "" "" "";
  gf "Chan15Raw" false 0 "uint16" false false "" "" "" "";
  gf "Chan16Raw" false 0 "uint16" false false "" "" "" "";
  gf "Chan17Raw" false 0 "uint16" false false "" "" "" "";
  gf "Chan18Raw" false 0 "uint16" false false "" "" "" "";
  gf "Rssi" false 0 "uint8" false false "" "" "" ""
].
Definition S49 : gstruct := mkGS "common" "MessageRequestDataStream" [
  gf "TargetSystem" false 0 "uint8" false false "" "" "" "";
  gf "TargetComponent" false 0 "uint8" false false "" "" "" "";
  gf "ReqStreamId" false 0 "uint8" false false "" "" "" "";
  gf "ReqMessageRate" false 0 "uint16" false false "" "" "" "";
  gf "StartStop" false 0 "uint8" false false "" "" "" ""
].
Definition S50 : gstruct := mkGS "common" "MessageDataStream" [
  gf "StreamId" false 0 "uint8" false false "" "" "" "";
  gf "MessageRate" false 0 "uint16" false false "" "" "" "";
  gf "OnOff" false 0 "uint8" false false "" "" "" ""
].
Definition S51 : gstruct := mkGS "common" "MessageManualControl" [
  gf "Target" false 0 "uint8" false false "" "" "" "";
  gf "X" false 0 "int16" false false "" "" "" "";
  gf "Y" false 0 "int16" false false "" "" "" "";
  gf "Z" false 0 "int16" false false "" "" "" "";
  gf "R" false 0 "int16" false false "" "" "" "";
  gf "Buttons" false 0 "uint16" false false "" "" "" "";
  gf "Buttons2" false 0 "uint16" false false "" "" "true" "";
  gf "EnabledExtensions" false 0 "uint8" false false "" "" "true" "";
  gf "S" false 0 "int16" false false "" "" "true" "";
  gf "T" false 0 "int16" false false "" "" "true" "";
  gf "Aux1" false 0 "int16" false false "" "" "true" "";
  gf "Aux2" false 0 "int16" false false "" "" "true" "";
  gf "Aux3" false 0 "int16" false false "" "" "true" "";
  gf "Aux4" false 0 "int16" false false "" "" "true" "";
  gf "Aux5" false 0 "int16" false false "" "" "true" "";
  gf "Aux6" false 0 "int16" false false "" "" "true" ""
].
Definition S52 : gstruct := mkGS "common" "MessageRcChannelsOverride" [
  gf "TargetSystem" false 0 "uint8" false false "" "" "" "";
  gf "TargetComponent" false 0 "uint8" false false "" "" "" "";
  gf "Chan1Raw" false 0 "uint16" false false "" "" "" "";
  gf "Chan2Raw" false 0 "uint16" false false "" "" "" "";
  gf "Chan3Raw" false 0 "uint16" false false "" "" "" "";
  gf "Chan4Raw" false 0 "uint16" false false "" "" "" "";
  gf "Chan5Raw" false 0 "uint16" false false "" "" "" "";
  gf "Chan6Raw" false 0 "uint16" false false "" "" "" "";
  gf "Chan7Raw" false 0 "uint16" false false "" "" "" "";
  gf "Chan8Raw" false 0 "uint16" false false "" "" "" "";
  gf "Chan9Raw" false 0 "uint16" false false "" "" "true" "";
  gf "Chan10Raw" false 0 "uint16" false false "" "" "true" "";
  gf "Chan11Raw" false 0 "uint16" false false "" "" "true" "";
  gf "Chan12Raw" false 0 "uint16" false false "" "" "true" "";
  gf "Chan13Raw" false 0 "uint16" false false "" "" "true" "";
  gf "Chan14Raw" false 0 "uint16" false false "" "" "true" "";
  gf "Chan15Raw" false 0 "uint16" false false "" "" "true" "";
  gf "Chan16Raw" false 0 "uint16" false false "" "" "true" "";
  gf "Chan17Raw" false 0 "uint16" false false "" "" "true" "";
  gf "Chan18Raw" false 0 "uint16" false false "" "" "true" ""
].
Definition S53 : gstruct := mkGS "common" "MessageMissionItemInt" [
  gf "TargetSystem" false 0 "uint8" false false "" "" "" "";
  gf "TargetComponent" false 0 "uint8" false false "" "" "" "";
  gf "Seq" false 0 "uint16" false false "" "" "" "";
  gf "Frame" false 0 "MAV_FRAME" true false "uint8" "" "" "";
  gf "Command" false 0 "MAV_CMD" true false "uint16" "" "" "";
  gf "Current" false 0 "uint8" false false "" "" "" "";
  gf "Autocontinue" false 0 "uint8" false false "" "" "" "";
  gf "Param1" false 0 "float32" false false "" "" "" "";
  gf "Param2" false 0 "float32" false false "" "" "" "";
  gf "Param3" false 0 "float32" false false "" "" "" "";
  gf "Param4" false 0 "float32" false false "" "" "" "";
  gf "X" false 0 "int32" false false "" "" "" "";
  gf "Y" false 0 "int32" false false "" "" "" "";
  gf "Z" false 0 "float32" false false "" "" "" "";
  gf "MissionType" false 0 "MAV_MISSION_TYPE" true false "uint8" "" "true" ""
].
Definition S54 : gstruct := mkGS "common" "MessageVfrHud" [
  gf "Airspeed" false 0 "float32" false false "" "" "" "";
  gf "Groundspeed" false 0 "float32" false false "" "" "" "";
  gf "Heading" false 0 "int16" false false "" "" "" "";
  gf "Throttle" false 0 "uint16" false false "" "" "" "";
  gf "Alt" false 0 "float32" false false "" "" "" "";
  gf "Climb" false 0 "float32" false false "" "" "" ""
].
Definition S55 : gstruct := mkGS "common" "MessageCommandInt" [
  gf "TargetSystem" false 0 "uint8" false false "" "" "" "";
  gf "TargetComponent" false 0 "uint8" false false "" "" "" "";
  gf "Frame" false 0 "MAV_FRAME" true false "uint8" "" "" "";
  gf "Command" false 0 "MAV_CMD" true false "uint16" "" "" "";
  gf "Current" false 0 "uint8" false false "" "" "" "";
  gf "Autocontinue" false 0 "uint8" false false "" "" "" "";
  gf "Param1" false 0 "float32" false false "" "" "" "";
  gf "Param2" false 0 "float32" false false "" "" "" "";
  gf "Param3" false 0 "float32" false false "" "" "" "";
  gf "Param4" false 0 "float32" false false "" "" "" "";
  gf "X" false 0 "int32" false false "" "" "" "";
  gf "Y" false 0 "int32" false false "" "" "" "";
  gf "Z" false 0 "float32" false false "" "" "" ""
].
Definition S56 : gstruct := mkGS "common" "MessageCommandLong" [
  gf "TargetSystem" false 0 "uint8" false false "" "" "" "";
  gf "TargetComponent" false 0 "uint8" false false "" "" "" "";
  gf "Command" false 0 "MAV_CMD" true false "uint16" "" "" "";
  gf "Confirmation" false 0 "uint8" false false "" "" "" "";
  gf "Param1" false 0 "float32" false false "" "" "" "";
  gf "Param2" false 0 "float32" false false "" "" "" "";
  gf "Param3" false 0 "float32" false false "" "" "" "";
  gf "Param4" false 0 "float32" false false "" "" "" "";
  gf "Param5" false 0 "float32" false false "" "" "" "";
  gf "Param6" false 0 "float32" false false "" "" "" "";
  gf "Param7" false 0 "float32" false false "" "" "" ""
].
Definition S57 : gstruct := mkGS "common" "MessageCommandAck" [
  gf "Command" false 0 "MAV_CMD" true false "uint16" "" "" "";
  gf "Result" false 0 "MAV_RESULT" true false "uint8" "" "" "";
  gf "Progress" false 0 "uint8" false false "" "" "true" "";
  gf "ResultParam2" false 0 "int32" false false "" "" "true" "";
  gf "TargetSystem" false 0 "uint8" false false "" "" "true" "";
  gf "TargetComponent" false 0 "uint8" false false "" "" "true" ""
].
Definition S58 : gstruct := mkGS "common" "MessageCommandCancel" [
  gf "TargetSystem" false 0 "uint8" false false "" "" "" "";
  gf "TargetComponent" false 0 "uint8" false false "" "" "" "";
  gf "Command" false 0 "MAV_CMD" true false "uint16" "" "" ""
].
Definition S59 : gstruct := mkGS "common" "MessageManualSetpoint" [
  gf "TimeBootMs" false 0 "uint32" false false "" "" "" "";
  gf "Roll" false 0 "float32" false false "" "" "" "";
  gf "Pitch" false 0 "float32" false false "" "" "" "";
  gf "Yaw" false 0 "float32" false false "" "" "" "";
  gf "Thrust" false 0 "float32" false false "" "" "" "";
  gf "ModeSwitch" false 0 "uint8" false false "" "" "" "";
  gf "ManualOverrideSwitch" false 0 "uint8" false false "" "" "" ""
].
Definition S60 : gstruct := mkGS "common" "MessageSetAttitudeTarget" [
  gf "TimeBootMs" false 0 "uint32" false false "" "" "" "";
  gf "TargetSystem" false 0 "uint8" false false "" "" "" "";
  gf "TargetComponent" false 0 "uint8" false false "" "" "" "";
  gf "TypeMask" false 0 "ATTITUDE_TARGET_TYPEMASK" true false "uint8" "" "" "";
  gf "Q" true 4 "float32" false false "" "" "" "";
  gf "BodyRollRate" false 0 "float32" false false "" "" "" "";
  gf "BodyPitchRate" false 0 "float32" false false "" "" "" "";
  gf "BodyYawRate" false 0 "float32" false false "" "" "" "";
  gf "Thrust" false 0 "float32" false false "" "" "" "";
  gf "ThrustBody" true 3 "float32" false false "" "" "true" ""
].
Definition S61 : gstruct := mkGS "common" "MessageAttitudeTarget" [
  gf "TimeBootMs" false 0 "uint32" false false "" "" "" "";
  gf "TypeMask" false 0 "ATTITUDE_TARGET_TYPEMASK" true false "uint8" "" "" "";
  gf "Q" true 4 "float32" false false "" "" "" "";
  gf "BodyRollRate" false 0 "float32" false false "" "" "" "";
  gf "BodyPitchRate" false 0 "float32" false false "" "" "" "";
  gf "BodyYawRate" false 0 "float32" false false "" "" "" "";
  gf "Thrust" false 0 "float32" false false "" "" "" ""
].
Definition S62 : gstruct := mkGS "common" "MessageSetPositionTargetLocalNed" [
  gf "TimeBootMs" false 0 "uint32" false false "" "" "" "";
  gf "TargetSystem" false 0 "uint8" false false "" "" "" "";
  gf "TargetComponent" false 0 "uint8" false false "" "" "" "";
  gf "CoordinateFrame" false 0 "MAV_FRAME" true false "uint8" "" "" "";
  gf "TypeMask" false 0 "POSITION_TARGET_TYPEMASK" true false "uint16" "" "" "";
  gf "X" false 0 "float32" false false "" "" "" "";
  gf "Y" false 0 "float32" false false "" "" "" "";
  gf "Z" false 0 "float32" false false "" "" "" "";
  gf "Vx" false 0 "float32" false false "" "" "" "";
  gf "Vy" false 0 "float32" false false "" "" "" "";
  gf "Vz" false 0 "float32" false false "" "" "" "";
  gf "Afx" false 0 "float32" false false "" "" "" "";
  gf "Afy" false 0 "float32" false false "" "" "" "";
  gf "Afz" false 0 "float32" false false "" "" "" "";
  gf "Yaw" false 0 "float32" false false "" "" "" "";
  gf "YawRate" false 0 "float32" false false "" "" "" ""
].
Definition S63 : gstruct := mkGS "common" "MessagePositionTargetLocalNed" [
  gf "TimeBootMs" false 0 "uint32" false false "" "" "" "";
  gf "CoordinateFrame" false 0 "MAV_FRAME" true false "uint8" "" "" "";
  gf "TypeMask" false 0 "POSITION_TARGET_TYPEMASK" true false "uint16" "" "" "";
  gf "X" false 0 "float32" false false "" "" "" "";
  gf "Y" false 0 "float32" false false "" "" "" "";
  gf "Z" false 0 "float32" false false "" "" "" "";
  gf "Vx" false 0 "float32" false false "" "" "" "";
  gf "Vy" false 0 "float32" false false "" "" "" "";
  gf "Vz" false 0 "float32" false false "" "" "" "";
  gf "Afx" false 0 "float32" false false "" "" "" "";
  gf "Afy" false 0 "float32" false false "" "" "" "";
  gf "Afz" false 0 "float32" false false "" "" "" "";
  gf "Yaw" false 0 "float32" false false "" "" "" "";
  gf "YawRate" false 0 "float32" false false "" "" "" ""
].
Definition S64 : gstruct := mkGS "common" "MessageSetPositionTargetGlobalInt" [
  gf "TimeBootMs" false 0 "uint32" false false "" "" "" "";
  gf "TargetSystem" false 0 "uint8" false false "" "" "" "";
  gf "TargetComponent" false 0 "uint8" false false "" "" "" "";
  gf "CoordinateFrame" false 0 "MAV_FRAME" true false "uint8" "" "" "";
  gf "TypeMask" false 0 "POSITION_TARGET_TYPEMASK" true false "uint16" "" "" "";
  gf "LatInt" false 0 "int32" false false "" "" "" "";
  gf "LonInt" false 0 "int32" false false "" "" "" "";
  gf "Alt" false 0 "float32" false false "" "" "" "";
  gf "Vx" false 0 "float32" false false "" "" "" "";
  gf "Vy" false 0 "float32" false false "" "" "" "";
  gf "Vz" false 0 "float32" false false "" "" "" "";
  gf "Afx" false 0 "float32" false false "" "" "" "";
  gf "Afy" false 0 "float32" false false "" "" "" "";
  gf "Afz" false 0 "float32" false false "" "" "" "";
  gf "Yaw" false 0 "float32" false false "" "" "" "";
  gf "YawRate" false 0 "float32" false false "" "" "" ""
].
Definition S65 : gstruct := mkGS "common" "MessagePositionTargetGlobalInt" [
  gf "TimeBootMs" false 0 "uint32" false false "" "" "" "";
  gf "CoordinateFrame" false 0 "MAV_FRAME" true false "uint8" "" "" "";
  gf "TypeMask" false 0 "POSITION_TARGET_TYPEMASK" true false "uint16" "" "" "";
  gf "LatInt" false 0 "int32" false false "" "" "" "";
  gf "LonInt" false 0 "int32" false false "" "" "" "";
  gf "Alt" false 0 "float32" false false "" "" "" "";
  gf "Vx" false 0 "float32" false false "" "" "" "";
  gf "Vy" false 0 "float32" false false "" "" "" "";
  gf "Vz" false 0 "float32" false false "" "" "" "";
  gf "Afx" false 0 "float32" false false "" "" "" "";
  gf "Afy" false 0 "float32" false false "" "" "" "";
  gf "Afz" false 0 "float32" false false "" "" "" "";
  gf "Yaw" false 0 "float32" false false "" "" "" "";
  gf "YawRate" false 0 "float32" false false "" "" "" ""
].
Definition S66 : gstruct := mkGS "common" "MessageLocalPositionNedSystemGlobalOffset" [
  gf "TimeBootMs" false 0 "uint32" false false "" "" "" "";
  gf "X" false 0 "float32" false false "" "" "" "";
  gf "Y" false 0 "float32" false false "" "" "" "";
  gf "Z" false 0 "float32" false false "" "" "" "";
  gf "Roll" false 0 "float32" false false "" "" "" "";
  gf "Pitch" false 0 "float32" false false "" "" "" "";
  gf "Yaw" false 0 "float32" false false "" "" "" ""
].
Definition S67 : gstruct := mkGS "common" "MessageHilState" [
  gf "TimeUsec" false 0 "uint64" true false "" "" "" "";
  gf "Roll" false 0 "float32" false false "" "" "" "";
  gf "Pitch" false 0 "float32" false false "" "" "" "";
  gf "Yaw" false 0 "float32" false false "" "" "" "";
  gf "Rollspeed" false 0 "float32" false false "" "" "" "";
  gf "Pitchspeed" false 0 "float32" false false "" "" "" "";
  gf "Yawspeed" false 0 "float32" false false "" "" "" "";
  gf "Lat" false 0 "int32" false false "" "" "" "";
  gf "Lon" false 0 "int32" false false "" "" "" "";
  gf "Alt" false 0 "int32" false false "" "" "" "";
  gf "Vx" false 0 "int16" false false "" "" "" "";
  gf "Vy" false 0 "int16" false false "" "" "" "";
  gf "Vz" false 0 "int16" false false "" "" "" "";
  gf "Xacc" false 0 "int16" false false "" "" "" "";
  gf "Yacc" false 0 "int16" false false "" "" "" "";
  gf "Zacc" false 0 "int16" false false "" "" "" ""
].
Definition S68 : gstruct := mkGS "common" "MessageHilControls" [
  gf "TimeUsec" false 0 "uint64" true false "" "" "" "";
  gf "RollAilerons" false 0 "float32" false false "" "" "" "";
  gf "PitchElevator" false 0 "float32" false false "" "" "" "";
  gf "YawRudder" false 0 "float32" false false "" "" "" "";
  gf "Throttle" false 0 "float32" false false "" "" "" "";
  gf "Aux1" false 0 "float32" false false "" "" "" "";
  gf "Aux2" false 0 "float32" false false "" "" "" "";
  gf "Aux3" false 0 "float32" false false "" "" "" "";
  gf "Aux4" false 0 "float32" false false "" "" "" "";
  gf "Mode" false 0 "MAV_MODE" true false "uint8" "" "" "";
  gf "NavMode" false 0 "uint8" false false "" "" "" ""
].
Definition S69 : gstruct := mkGS "common" "MessageHilRcInputsRaw" [
  gf "TimeUsec" false 0 "uint64" true false "" "" "" "";
  gf "Chan1Raw" false 0 "uint16" false false "" "" "" "";
  gf "Chan2Raw" false 0 "uint16" false false "" "" "" "";
  gf "Chan3Raw" false 0 "uint16" false false "" "" "" "";
  gf "Chan4Raw" false 0 "uint16" false false "" "" "" "";
  gf "Chan5Raw" false 0 "uint16" false false "" "" "" "";
  gf "Chan6Raw" false 0 "uint16" false false "" "" "" "";
  gf "Chan7Raw" false 0 "uint16" false false "" "" "" "";
  gf "Chan8Raw" false 0 "uint16" false false "" "" "" "";
  gf "Chan9Raw" false 0 "uint16" false false "" "" "" "";
  gf "Chan10Raw" false 0 "uint16" false false "" "" "" "";
  gf "Chan11Raw" false 0 "uint16" false false "" "" "" "";
  gf "Chan12Raw" false 0 "uint16" false false "" "" "" "";
  gf "Rssi" false 0 "uint8" false false "" "" "" ""
].
Definition S70 : gstruct := mkGS "common" "MessageHilActuatorControls" [
  gf "TimeUsec" false 0 "uint64" true false "" "" "" "";
  gf "Controls" true 16 "float32" false false "" "" "" "";
  gf "Mode" false 0 "MAV_MODE_FLAG" true false "uint8" "" "" "";
  gf "Flags" false 0 "uint64" true false "" "" "" ""
].
Definition S71 : gstruct := mkGS "common" "MessageOpticalFlow" [
  gf "TimeUsec" false 0 "uint64" true false "" "" "" "";
  gf "SensorId" false 0 "uint8" false false "" "" "" "";
  gf "FlowX" false 0 "int16" false false "" "" "" "";
  gf "FlowY" false 0 "int16" false false "" "" "" "";
  gf "FlowCompMX" false 0 "float32" false false "" "" "" "";
  gf "FlowCompMY" false 0 "float32" false false "" "" "" "";
  gf "Quality" false 0 "uint8" false false "" "" "" "";
  gf "GroundDistance" false 0 "float32" false false "" "" "" "";
  gf "FlowRateX" false 0 "float32" false false "" "" "true" "";
  gf "FlowRateY" false 0 "float32" false false "" "" "true" ""
].
Definition S72 : gstruct := mkGS "common" "MessageGlobalVisionPositionEstimate" [
  gf "Usec" false 0 "uint64" true false "" "" "" "";
  gf "X" false 0 "float32" false false "" "" "" "";
  gf "Y" false 0 "float32" false false "" "" "" "";
  gf "Z" false 0 "float32" false false "" "" "" "";
  gf "Roll" false 0 "float32" false false "" "" "" "";
  gf "Pitch" false 0 "float32" false false "" "" "" "";
  gf "Yaw" false 0 "float32" false false "" "" "" "";
  gf "Covariance" true 21 "float32" false false "" "" "true" "";
  gf "ResetCounter" false 0 "uint8" false false "" "" "true" ""
].
Definition S73 : gstruct := mkGS "common" "MessageVisionPositionEstimate" [
  gf "Usec" false 0 "uint64" true false "" "" "" "";
  gf "X" false 0 "float32" false false "" "" "" "";
  gf "Y" false 0 "float32" false false "" "" "" "";
  gf "Z" false 0 "float32" false false "" "" "" "";
  gf "Roll" false 0 "float32" false false "" "" "" "";
  gf "Pitch" false 0 "float32" false false "" "" "" "";
  gf "Yaw" false 0 "float32" false false "" "" "" "";
  gf "Covariance" true 21 "float32" false false "" "" "true" "";
  gf "ResetCounter" false 0 "uint8" false false "" "" "true" ""
].
Definition S74 : gstruct := mkGS "common" "MessageVisionSpeedEstimate" [
  gf "Usec" false 0 "uint64" true false "" "" "" "";
  gf "X" false 0 "float32" false false "" "" "" "";
  gf "Y" false 0 "float32" false false "" "" "" "";
  gf "Z" false 0 "float32" false false "" "" "" "";
  gf "Covariance" true 9 "float32" false false "" "" "true" "";
  gf "ResetCounter" false 0 "uint8" false false "" "" "true" ""
].
Definition S75 : gstruct := mkGS "common" "MessageViconPositionEstimate" [
  gf "Usec" false 0 "uint64" true false "" "" "" "";
  gf "X" false 0 "float32" false false "" "" "" "";
  gf "Y" false 0 "float32" false false "" "" "" "";
  gf "Z" false 0 "float32" false false "" "" "" "";
  gf "Roll" false 0 "float32" false false "" "" "" "";
  gf "Pitch" false 0 "float32" false false "" "" "" "";
  gf "Yaw" false 0 "float32" false false "" "" "" "";
  gf "Covariance" true 21 "float32" false false "" "" "true" ""
].
Definition S76 : gstruct := mkGS "common" "MessageHighresImu" [
  gf "TimeUsec" false 0 "uint64" true false "" "" "" "";
  gf "Xacc" false 0 "float32" false false "" "" "" "";
  gf "Yacc" false 0 "float32" false false "" "" "" "";
  gf "Zacc" false 0 "float32" false false "" "" "" "";
  gf "Xgyro" false 0 "float32" false false "" "" "" "";
  gf "Ygyro" false 0 "float32" false false "" "" "" "";
  gf "Zgyro" false 0 "float32" false false "" "" "" "";
  gf "Xmag" false 0 "float32" false false "" "" "" "";
  gf "Ymag" false 0 "float32" false false "" "" "" "";
  gf "Zmag" false 0 "float32" false false "" "" "" "";
  gf "AbsPressure" false 0 "float32" false false "" "" "" "";
  gf "DiffPressure" false 0 "float32" false false "" "" "" "";
  gf "PressureAlt" false 0 "float32" false false "" "" "" "";
  gf "Temperature" false 0 "float32" false false "" "" "" "";
  gf "FieldsUpdated" false 0 "HIGHRES_IMU_UPDATED_FLAGS" true false "uint16" "" "" "";
  gf "Id" false 0 "uint8" false false "" "" "true" ""
].
Definition S77 : gstruct := mkGS "common" "MessageOpticalFlowRad" [
  gf "TimeUsec" false 0 "uint64" true false "" "" "" "";
  gf "SensorId" false 0 "uint8" false false "" "" "" "";
  gf "IntegrationTimeUs" false 0 "uint32" false false "" "" "" "";
  gf "IntegratedX" false 0 "float32" false false "" "" "" "";
  gf "IntegratedY" false 0 "float32" false false "" "" "" "";
  gf "IntegratedXgyro" false 0 "float32" false false "" "" "" "";
  gf "IntegratedYgyro" false 0 "float32" false false "" "" "" "";
  gf "IntegratedZgyro" false 0 "float32" false false "" "" "" "";
  gf "Temperature" false 0 "int16" false false "" "" "" "";
  gf "Quality" false 0 "uint8" false false "" "" "" "";
  gf "TimeDeltaDistanceUs" false 0 "uint32" false false "" "" "" "";
  gf "Distance" false 0 "float32" false false "" "" "" ""
].
Definition S78 : gstruct := mkGS "common" "MessageHilSensor" [
  gf "TimeUsec" false 0 "uint64" true false "" "" "" "";
  gf "Xacc" false 0 "float32" false false "" "" "" "";
  gf "Yacc" false 0 "float32" false false "" "" "" "";
  gf "Zacc" false 0 "float32" false false "" "" "" "";
  gf "Xgyro" false 0 "float32" false false "" "" "" "";
  gf "Ygyro" false 0 "float32" false false "" "" "" "";
  gf "Zgyro" false 0 "float32" false false "" "" "" "";
  gf "Xmag" false 0 "float32" false false "" "" "" "";
  gf "Ymag" false 0 "float32" false false "" "" "" "";
  gf "Zmag" false 0 "float32" false false "" "" "" "";
  gf "AbsPressure" false 0 "float32" false false "" "" "" "";
  gf "DiffPressure" false 0 "float32" false false "" "" "" "";
  gf "PressureAlt" false 0 "float32" false false "" "" "" "";
  gf "Temperature" false 0 "float32" false false "" "" "" "";
  gf "FieldsUpdated" false 0 "HIL_SENSOR_UPDATED_FLAGS" true false "uint32" "" "" "";
  gf "Id" false 0 "uint8" false false "" "" "true" ""
].
Definition S79 : gstruct := mkGS "common" "MessageSimState" [
  gf "Q1" false 0 "float32" false false "" "" "" "";
  gf "Q2" false 0 "float32" false false "" "" "" "";
  gf "Q3" false 0 "float32" false false "" "" "" "";
  gf "Q4" false 0 "float32" false false "" "" "" "";
  gf "Roll" false 0 "float32" false false "" "" "" "";
  gf "Pitch" false 0 "float32" false false "" "" "" "";
  gf "Yaw" false 0 "float32" false false "" "" "" "";
  gf "Xacc" false 0 "float32" false false "" "" "" "";
  gf "Yacc" false 0 "float32" false false "" "" "" "";
  gf "Zacc" false 0 "float32" false false "" "" "" "";
  gf "Xgyro" false 0 "float32" false false "" "" "" "";
  gf "Ygyro" false 0 "float32" false false "" "" "" "";
  gf "Zgyro" false 0 "float32" false false "" "" "" "";
  gf "Lat" false 0 "float32" false false "" "" "" "";
  gf "Lon" false 0 "float32" false false "" "" "" "";
  gf "Alt" false 0 "float32" false false "" "" "" "";
  gf "StdDevHorz" false 0 "float32" false false "" "" "" "";
  gf "StdDevVert" false 0 "float32" false false "" "" "" "";
  gf "Vn" false 0 "float32" false false "" "" "" "";
  gf "Ve" false 0 "float32" false false "" "" "" "";
  gf "Vd" false 0 "float32" false false "" "" "" "";
  gf "LatInt" false 0 "int32" false false "" "" "true" "";
  gf "LonInt" false 0 "int32" false false "" "" "true" ""
].
Definition S80 : gstruct := mkGS "common" "MessageRadioStatus" [
  gf "Rssi" false 0 "uint8" false false "" "" "" "";
  gf "Remrssi" false 0 "uint8" false false "" "" "" "";
  gf "Txbuf" false 0 "uint8" false false "" "" "" "";
  gf "Noise" false 0 "uint8" false false "" "" "" "";
  gf "Remnoise" false 0 "uint8" false false "" "" "" "";
  gf "Rxerrors" false 0 "uint16" false false "" "" "" "";
  gf "Fixed" false 0 "uint16" false false "" "" "" ""
].
Definition S81 : gstruct := mkGS "common" "MessageFileTransferProtocol" [
  gf "TargetNetwork" false 0 "uint8" false false "" "" "" "";
  gf "TargetSystem" false 0 "uint8" false false "" "" "" "";
  gf "TargetComponent" false 0 "uint8" false false "" "" "" "";
  gf "Payload" true 251 "uint8" false false "" "" "" ""
].
Definition S82 : gstruct := mkGS "common" "MessageTimesync" [
  gf "Tc1" false 0 "int64" false false "" "" "" "";
  gf "Ts1" false 0 "int64" false false "" "" "" "";
  gf "TargetSystem" false 0 "uint8" false false "" "" "true" "";
  gf "TargetComponent" false 0 "uint8" false false "" "" "true" ""
].
Definition S83 : gstruct := mkGS "common" "MessageCameraTrigger" [
  gf "TimeUsec" false 0 "uint64" true false "" "" "" "";
  gf "Seq" false 0 "uint32" false false "" "" "" ""
].
Definition S84 : gstruct := mkGS "common" "MessageHilGps" [
  gf "TimeUsec" false 0 "uint64" true false "" "" "" "";
  gf "FixType" false 0 "uint8" false false "" "" "" "";
  gf "Lat" false 0 "int32" false false "" "" "" "";
  gf "Lon" false 0 "int32" false false "" "" "" "";
  gf "Alt" false 0 "int32" false false "" "" "" "";
  gf "Eph" false 0 "uint16" false false "" "" "" "";
  gf "Epv" false 0 "uint16" false false "" "" "" "";
  gf "Vel" false 0 "uint16" false false "" "" "" "";
  gf "Vn" false 0 "int16" false false "" "" "" "";
  gf "Ve" false 0 "int16" false false "" "" "" "";
  gf "Vd" false 0 "int16" false false "" "" "" "";
  gf "Cog" false 0 "uint16" false false "" "" "" "";
  gf "SatellitesVisible" false 0 "uint8" false false "" "" "" "";
  gf "Id" false 0 "uint8" false false "" "" "true" "";
  gf "Yaw" false 0 "uint16" false false "" "" "true" ""
].
Definition S85 : gstruct := mkGS "common" "MessageHilOpticalFlow" [
  gf "TimeUsec" false 0 "uint64" true false "" "" "" "";
  gf "SensorId" false 0 "uint8" false false "" "" "" "";
  gf "IntegrationTimeUs" false 0 "uint32" false false "" "" "" "";
  gf "IntegratedX" false 0 "float32" false false "" "" "" "";
  gf "IntegratedY" false 0 "float32" false false "" "" "" "";
  gf "IntegratedXgyro" false 0 "float32" false false "" "" "" "";
  gf "IntegratedYgyro" false 0 "float32" false false "" "" "" "";
  gf "IntegratedZgyro" false 0 "float32" false false "" "" "" "";
  gf "Temperature" false 0 "int16" false false "" "" "" "";
  gf "Quality" false 0 "uint8" false false "" "" "" "";
  gf "TimeDeltaDistanceUs" false 0 "uint32" false false "" "" "" "";
  gf "Distance" false 0 "float32" false false "" "" "" ""
].
Definition S86 : gstruct := mkGS "common" "MessageHilStateQuaternion" [
  gf "TimeUsec" false 0 "uint64" true false "" "" "" "";
  gf "AttitudeQuaternion" true 4 "float32" false false "" "" "" "";
  gf "Rollspeed" false 0 "float32" false false "" "" "" "";
  gf "Pitchspeed" false 0 "float32" false false "" "" "" "";
  gf "Yawspeed" false 0 "float32" false false "" "" "" "";
  gf "Lat" false 0 "int32" false false "" "" "" "";
  gf "Lon" false 0 "int32" false false "" "" "" "";
  gf "Alt" false 0 "int32" false false "" "" "" "";
  gf "Vx" false 0 "int16" false false "" "" "" "";
  gf "Vy" false 0 "int16" false false "" "" "" "";
  gf "Vz" false 0 "int16" false false "" "" "" "";
  gf "IndAirspeed" false 0 "uint16" false false "" "" "" "";
  gf "TrueAirspeed" false 0 "uint16" false false "" "" "" "";
  gf "Xacc" false 0 "int16" false false "" "" "" "";
  gf "Yacc" false 0 "int16" false false "" "" "" "";
  gf "Zacc" false 0 "int16" false false "" "" "" ""
].
Definition S87 : gstruct := mkGS "common" "MessageScaledImu2" [
  gf "TimeBootMs" false 0 "uint32" false false "" "" "" "";
  gf "Xacc" false 0 "int16" false false "" "" "" "";
  gf "Yacc" false 0 "int16" false false "" "" "" "";
  gf "Zacc" false 0 "int16" false false "" "" "" "";
  gf "Xgyro" false 0 "int16" false false "" "" "" "";
  gf "Ygyro" false 0 "int16" false false "" "" "" "";
  gf "Zgyro" false 0 "int16" false false "" "" "" "";
  gf "Xmag" false 0 "int16" false false "" "" "" "";
  gf "Ymag" false 0 "int16" false false "" "" "" "";
  gf "Zmag" false 0 "int16" false false "" "" "" "";
  gf "Temperature" false 0 "int16" false false "" "" "true" ""
].
Definition S88 : gstruct := mkGS "common" "MessageLogRequestList" [
  gf "TargetSystem" false 0 "uint8" false false "" "" "" "";
  gf "TargetComponent" false 0 "uint8" false false "" "" "" "";
  gf "Start" false 0 "uint16" false false "" "" "" "";
  gf "End" false 0 "uint16" false false "" "" "" ""
].
Definition S89 : gstruct := mkGS "common" "MessageLogEntry" [
  gf "Id" false 0 "uint16" false false "" "" "" "";
  gf "NumLogs" false 0 "uint16" false false "" "" "" "";
  gf "LastLogNum" false 0 "uint16" false false "" "" "" "";
  gf "TimeUtc" false 0 "uint32" false false "" "" "" "";
  gf "Size" false 0 "uint32" false false "" "" "" ""
].
Definition S90 : gstruct := mkGS "common" "MessageLogRequestData" [
  gf "TargetSystem" false 0 "uint8" false false "" "" "" "";
  gf "TargetComponent" false 0 "uint8" false false "" "" "" "";
  gf "Id" false 0 "uint16" false false "" "" "" "";
  gf "Ofs" false 0 "uint32" false false "" "" "" "";
  gf "Count" false 0 "uint32" false false "" "" "" ""
].
Definition S91 : gstruct := mkGS "common" "MessageLogData" [
  gf "Id" false 0 "uint16" false false "" "" "" "";
  gf "Ofs" false 0 "uint32" false false "" "" "" "";
  gf "Count" false 0 "uint8" false false "" "" "" "";
  gf "Data" true 90 "uint8" false false "" "" "" ""
].
Definition S92 : gstruct := mkGS "common" "MessageLogErase" [
  gf "TargetSystem" false 0 "uint8" false false "" "" "" "";
  gf "TargetComponent" false 0 "uint8" false false "" "" "" ""
].
Definition S93 : gstruct := mkGS "common" "MessageLogRequestEnd" [
  gf "TargetSystem" false 0 "uint8" false false "" "" "" "";
  gf "TargetComponent" false 0 "uint8" false false "" "" "" ""
].
Definition S94 : gstruct := mkGS "common" "MessageGpsInjectData" [
  gf "TargetSystem" false 0 "uint8" false false "" "" "" "";
  gf "TargetComponent" false 0 "uint8" false false "" "" "" "";
  gf "Len" false 0 "uint8" false false "" "" "" "";
  gf "Data" true 110 "uint8" false false "" "" "" ""
].
Definition S95 : gstruct := mkGS "common" "MessageGps2Raw" [
  gf "TimeUsec" false 0 "uint64" true false "" "" "" "";
  gf "FixType" false 0 "GPS_FIX_TYPE" true false "uint8" "" "" "";
  gf "Lat" false 0 "int32" false false "" "" "" "";
  gf "Lon" false 0 "int32" false false "" "" "" "";
  gf "Alt" false 0 "int32" false false "" "" "" "";
  gf "Eph" false 0 "uint16" false false "" "" "" "";
  gf "Epv" false 0 "uint16" false false "" "" "" "";
  gf "Vel" false 0 "uint16" false false "" "" "" "";
  gf "Cog" false 0 "uint16" false false "" "" "" "";
  gf "SatellitesVisible" false 0 "uint8" false false "" "" "" "";
  gf "DgpsNumch" false 0 "uint8" false false "" "" "" "";
  gf "DgpsAge" false 0 "uint32" false false "" "" "" "";
  gf "Yaw" false 0 "uint16" false false "" "" "true" "";
  gf "AltEllipsoid" false 0 "int32" false false "" "" "true" "";
  gf "HAcc" false 0 "uint32" false false "" "" "true" "";
  gf "VAcc" false 0 "uint32" false false "" "" "true" "";
  gf "VelAcc" false 0 "uint32" false false "" "" "true" "";
  gf "HdgAcc" false 0 "uint32" false false "" "" "true" ""
].
Definition S96 : gstruct := mkGS "common" "MessagePowerStatus" [
  gf "Vcc" false 0 "uint16" false false "" "" "" "Vcc";
  gf "Vservo" false 0 "uint16" false false "" "" "" "Vservo";
  gf "Flags" false 0 "MAV_POWER_STATUS" true false "uint16" "" "" ""
].
Definition S97 : gstruct := mkGS "common" "MessageSerialControl" [
  gf "Device" false 0 "SERIAL_CONTROL_DEV" true false "uint8" "" "" "";
  gf "Flags" false 0 "SERIAL_CONTROL_FLAG" true false "uint8" "" "" "";
  gf "Timeout" false 0 "uint16" false false "" "" "" "";
  gf "Baudrate" false 0 "uint32" false false "" "" "" "";
  gf "Count" false 0 "uint8" false false "" "" "" "";
  gf "Data" true 70 "uint8" false false "" "" "" "";
  gf "TargetSystem" false 0 "uint8" false false "" "" "true" "";
  gf "TargetComponent" false 0 "uint8" false false "" "" "true" ""
].
Definition S98 : gstruct := mkGS "common" "MessageGpsRtk" [
  gf "TimeLastBaselineMs" false 0 "uint32" false false "" "" "" "";
  gf "RtkReceiverId" false 0 "uint8" false false "" "" "" "";
  gf "Wn" false 0 "uint16" false false "" "" "" "";
  gf "Tow" false 0 "uint32" false false "" "" "" "";
  gf "RtkHealth" false 0 "uint8" false false "" "" "" "";
  gf "RtkRate" false 0 "uint8" false false "" "" "" "";
  gf "Nsats" false 0 "uint8" false false "" "" "" "";
  gf "BaselineCoordsType" false 0 "RTK_BASELINE_COORDINATE_SYSTEM" true false "uint8" "" "" "";
  gf "BaselineAMm" false 0 "int32" false false "" "" "" "";
  gf "BaselineBMm" false 0 "int32" false false "" "" "" "";
  gf "BaselineCMm" false 0 "int32" false false "" "" "" "";
  gf "Accuracy" false 0 "uint32" false false "" "" "" "";
  gf "IarNumHypotheses" false 0 "int32" false false "" "" "" ""
].
Definition S99 : gstruct := mkGS "common" "MessageGps2Rtk" [
  gf "TimeLastBaselineMs" false 0 "uint32" false false "" "" "" "";
  gf "RtkReceiverId" false 0 "uint8" false false "" "" "" "";
  gf "Wn" false 0 "uint16" false false "" "" "" "";
  gf "Tow" false 0 "uint32" false false "" "" "" "";
  gf "RtkHealth" false 0 "uint8" false false "" "" "" "";
  gf "RtkRate" false 0 "uint8" false false "" "" "" "";
  gf "Nsats" false 0 "uint8" false false "" "" "" "";
  gf "BaselineCoordsType" false 0 "RTK_BASELINE_COORDINATE_SYSTEM" true false "uint8" "" "" "";
  gf "BaselineAMm" false 0 "int32" false false "" "" "" "";
  gf "BaselineBMm" false 0 "int32" false false "" "" "" "";
  gf "BaselineCMm" false 0 "int32" false false "" "" "" "";
  gf "Accuracy" false 0 "uint32" false false "" "" "" "";
  gf "IarNumHypotheses" false 0 "int32" false false "" "" "" ""
].
Definition S100 : gstruct := mkGS "common" "MessageScaledImu3" [
  gf "TimeBootMs" false 0 "uint32" false false "" "" "" "";
  gf "Xacc" false 0 "int16" false false "" "" "" "";
  gf "Yacc" false 0 "int16" false false "" "" "" "";
  gf "Zacc" false 0 "int16" false false "" "" "" "";
  gf "Xgyro" false 0 "int16" false false "" "" "" "";
  gf "Ygyro" false 0 "int16" false false "" "" "" "";
  gf "Zgyro" false 0 "int16" false false "" "" "" "";
  gf "Xmag" false 0 "int16" false false "" "" "" "";
  gf "Ymag" false 0 "int16" false false "" "" "" "";
  gf "Zmag" false 0 "int16" false false "" "" "" "";
  gf "Temperature" false 0 "int16" false false "" "" "true" ""
].
Definition S101 : gstruct := mkGS "common" "MessageDataTransmissionHandshake" [
  gf "Type" false 0 "MAVLINK_DATA_STREAM_TYPE" true false "uint8" "" "" "";
  gf "Size" false 0 "uint32" false false "" "" "" "";
  gf "Width" false 0 "uint16" false false "" "" "" "";
  gf "Height" false 0 "uint16" false false "" "" "" "";
  gf "Packets" false 0 "uint16" false false "" "" "" "";
  gf "Payload" false 0 "uint8" false false "" "" "" "";
  gf "JpgQuality" false 0 "uint8" false false "" "" "" ""
].
Definition S102 : gstruct := mkGS "common" "MessageEncapsulatedData" [
  gf "Seqnr" false 0 "uint16" false false "" "" "" "";
  gf "Data" true 253 "uint8" false false "" "" "" ""
].
Definition S103 : gstruct := mkGS "common" "MessageDistanceSensor" [
  gf "TimeBootMs" false 0 "uint32" false false "" "" "" "";
  gf "MinDistance" false 0 "uint16" false false "" "" "" "";
  gf "MaxDistance" false 0 "uint16" false false "" "" "" "";
  gf "CurrentDistance" false 0 "uint16" false false "" "" "" "";
  gf "Type" false 0 "MAV_DISTANCE_SENSOR" true false "uint8" "" "" "";
  gf "Id" false 0 "uint8" false false "" "" "" "";
  gf "Orientation" false 0 "MAV_SENSOR_ORIENTATION" true false "uint8" "" "" "";
  gf "Covariance" false 0 "uint8" false false "" "" "" "";
  gf "HorizontalFov" false 0 "float32" false false "" "" "true" "";
  gf "VerticalFov" false 0 "float32" false false "" "" "true" "";
  gf "Quaternion" true 4 "float32" false false "" "" "true" "";
  gf "SignalQuality" false 0 "uint8" false false "" "" "true" ""
].
Definition S104 : gstruct := mkGS "common" "MessageTerrainRequest" [
  gf "Lat" false 0 "int32" false false "" "" "" "";
  gf "Lon" false 0 "int32" false false "" "" "" "";
  gf "GridSpacing" false 0 "uint16" false false "" "" "" "";
  gf "Mask" false 0 "uint64" true false "" "" "" ""
].
Definition S105 : gstruct := mkGS "common" "MessageTerrainData" [
  gf "Lat" false 0 "int32" false false "" "" "" "";
  gf "Lon" false 0 "int32" false false "" "" "" "";
  gf "GridSpacing" false 0 "uint16" false false "" "" "" "";
  gf "Gridbit" false 0 "uint8" false false "" "" "" "";
  gf "Data" true 16 "int16" false false "" "" "" ""
].
Definition S106 : gstruct := mkGS "common" "MessageTerrainCheck" [
  gf "Lat" false 0 "int32" false false "" "" "" "";
  gf "Lon" false 0 "int32" false false "" "" "" ""
].
Definition S107 : gstruct := mkGS "common" "MessageTerrainReport" [
  gf "Lat" false 0 "int32" false false "" "" "" "";
  gf "Lon" false 0 "int32" false false "" "" "" "";
  gf "Spacing" false 0 "uint16" false false "" "" "" "";
  gf "TerrainHeight" false 0 "float32" false false "" "" "" "";
  gf "CurrentHeight" false 0 "float32" false false "" "" "" "";
  gf "Pending" false 0 "uint16" false false "" "" "" "";
  gf "Loaded" false 0 "uint16" false false "" "" "" ""
].
Definition S108 : gstruct := mkGS "common" "MessageScaledPressure2" [
  gf "TimeBootMs" false 0 "uint32" false false "" "" "" "";
  gf "PressAbs" false 0 "float32" false false "" "" "" "";
  gf "PressDiff" false 0 "float32" false false "" "" "" "";
  gf "Temperature" false 0 "int16" false false "" "" "" "";
  gf "TemperaturePressDiff" false 0 "int16" false false "" "" "true" ""
].
Definition S109 : gstruct := mkGS "common" "MessageAttPosMocap" [
  gf "TimeUsec" false 0 "uint64" true false "" "" "" "";
  gf "Q" true 4 "float32" false false "" "" "" "";
  gf "X" false 0 "float32" false false "" "" "" "";
  gf "Y" false 0 "float32" false false "" "" "" "";
  gf "Z" false 0 "float32" false false "" "" "" "";
  gf "Covariance" true 21 "float32" false false "" "" "true" ""
].
Definition S110 : gstruct := mkGS "common" "MessageSetActuatorControlTarget" [
  gf "TimeUsec" false 0 "uint64" true false "" "" "" "";
  gf "GroupMlx" false 0 "uint8" false false "" "" "" "";
  gf "TargetSystem" false 0 "uint8" false false "" "" "" "";
  gf "TargetComponent" false 0 "uint8" false false "" "" "" "";
  gf "Controls" true 8 "float32" false false "" "" "" ""
].
Definition S111 : gstruct := mkGS "common" "MessageActuatorControlTarget" [
  gf "TimeUsec" false 0 "uint64" true false "" "" "" "";
  gf "GroupMlx" false 0 "uint8" false false "" "" "" "";
  gf "Controls" true 8 "float32" false false "" "" "" ""
].
Definition S112 : gstruct := mkGS "common" "MessageAltitude" [
  gf "TimeUsec" false 0 "uint64" true false "" "" "" "";
  gf "AltitudeMonotonic" false 0 "float32" false false "" "" "" "";
  gf "AltitudeAmsl" false 0 "float32" false false "" "" "" "";
  gf "AltitudeLocal" false 0 "float32" false false "" "" "" "";
  gf "AltitudeRelative" false 0 "float32" false false "" "" "" "";
  gf "AltitudeTerrain" false 0 "float32" false false "" "" "" "";
  gf "BottomClearance" false 0 "float32" false false "" "" "" ""
].
Definition S113 : gstruct := mkGS "common" "MessageResourceRequest" [
  gf "RequestId" false 0 "uint8" false false "" "" "" "";
  gf "UriType" false 0 "uint8" false false "" "" "" "";
  gf "Uri" true 120 "uint8" false false "" "" "" "";
  gf "TransferType" false 0 "uint8" false false "" "" "" "";
  gf "Storage" true 120 "uint8" false false "" "" "" ""
].
Definition S114 : gstruct := mkGS "common" "MessageScaledPressure3" [
  gf "TimeBootMs" false 0 "uint32" false false "" "" "" "";
  gf "PressAbs" false 0 "float32" false false "" "" "" "";
  gf "PressDiff" false 0 "float32" false false "" "" "" "";
  gf "Temperature" false 0 "int16" false false "" "" "" "";
  gf "TemperaturePressDiff" false 0 "int16" false false "" "" "true" ""
].
Definition S115 : gstruct := mkGS "common" "MessageFollowTarget" [
  gf "Timestamp" false 0 "uint64" true false "" "" "" "";
  gf "EstCapabilities" false 0 "uint8" false false "" "" "" "";
  gf "Lat" false 0 "int32" false false "" "" "" "";
  gf "Lon" false 0 "int32" false false "" "" "" "";
  gf "Alt" false 0 "float32" false false "" "" "" "";
  gf "Vel" true 3 "float32" false false "" "" "" "";
  gf "Acc" true 3 "float32" false false "" "" "" "";
  gf "AttitudeQ" true 4 "float32" false false "" "" "" "";
  gf "Rates" true 3 "float32" false false "" "" "" "";
  gf "PositionCov" true 3 "float32" false false "" "" "" "";
  gf "CustomState" false 0 "uint64" true false "" "" "" ""
].
Definition S116 : gstruct := mkGS "common" "MessageControlSystemState" [
  gf "TimeUsec" false 0 "uint64" true false "" "" "" "";
  gf "XAcc" false 0 "float32" false false "" "" "" "";
  gf "YAcc" false 0 "float32" false false "" "" "" "";
  gf "ZAcc" false 0 "float32" false false "" "" "" "";
  gf "XVel" false 0 "float32" false false "" "" "" "";
  gf "YVel" false 0 "float32" false false "" "" "" "";
  gf "ZVel" false 0 "float32" false false "" "" "" "";
  gf "XPos" false 0 "float32" false false "" "" "" "";
  gf "YPos" false 0 "float32" false false "" "" "" "";
  gf "ZPos" false 0 "float32" false false "" "" "" "";
  gf "Airspeed" false 0 "float32" false false "" "" "" "";
  gf "VelVariance" true 3 "float32" false false "" "" "" "";
  gf "PosVariance" true 3 "float32" false false "" "" "" "";
  gf "Q" true 4 "float32" false false "" "" "" "";
  gf "RollRate" false 0 "float32" false false "" "" "" "";
  gf "PitchRate" false 0 "float32" false false "" "" "" "";
  gf "YawRate" false 0 "float32" false false "" "" "" ""
].
Definition S117 : gstruct := mkGS "common" "MessageBatteryStatus" [
  gf "Id" false 0 "uint8" false false "" "" "" "";
  gf "BatteryFunction" false 0 "MAV_BATTERY_FUNCTION" true false "uint8" "" "" "";
  gf "Type" false 0 "MAV_BATTERY_TYPE" true false "uint8" "" "" "";
  gf "Temperature" false 0 "int16" false false "" "" "" "";
  gf "Voltages" true 10 "uint16" false false "" "" "" "";
  gf "CurrentBattery" false 0 "int16" false false "" "" "" "";
  gf "CurrentConsumed" false 0 "int32" false false "" "" "" "";
  gf "EnergyConsumed" false 0 "int32" false false "" "" "" "";
  gf "BatteryRemaining" false 0 "int8" false false "" "" "" "";
  gf "TimeRemaining" false 0 "int32" false false "" "" "true" "";
  gf "ChargeState" false 0 "MAV_BATTERY_CHARGE_STATE" true false "uint8" "" "true" "";
  gf "VoltagesExt" true 4 "uint16" false false "" "" "true" "";
  gf "Mode" false 0 "MAV_BATTERY_MODE" true false "uint8" "" "true" "";
  gf "FaultBitmask" false 0 "MAV_BATTERY_FAULT" true false "uint32" "" "true" ""
].
Definition S118 : gstruct := mkGS "common" "MessageAutopilotVersion" [
  gf "Capabilities" false 0 "MAV_PROTOCOL_CAPABILITY" true false "uint64" "" "" "";
  gf "FlightSwVersion" false 0 "uint32" false false "" "" "" "";
  gf "MiddlewareSwVersion" false 0 "uint32" false false "" "" "" "";
  gf "OsSwVersion" false 0 "uint32" false false "" "" "" "";
  gf "BoardVersion" false 0 "uint32" false false "" "" "" "";
  gf "FlightCustomVersion" true 8 "uint8" false false "" "" "" "";
  gf "MiddlewareCustomVersion" true 8 "uint8" false false "" "" "" "";
  gf "OsCustomVersion" true 8 "uint8" false false "" "" "" "";
  gf "VendorId" false 0 "uint16" false false "" "" "" "";
  gf "ProductId" false 0 "uint16" false false "" "" "" "";
  gf "Uid" false 0 "uint64" true false "" "" "" "";
  gf "Uid2" true 18 "uint8" false false "" "" "true" ""
].
Definition S119 : gstruct := mkGS "common" "MessageLandingTarget" [
  gf "TimeUsec" false 0 "uint64" true false "" "" "" "";
  gf "TargetNum" false 0 "uint8" false false "" "" "" "";
  gf "Frame" false 0 "MAV_FRAME" true false "uint8" "" "" "";
  gf "AngleX" false 0 "float32" false false "" "" "" "";
  gf "AngleY" false 0 "float32" false false "" "" "" "";
  gf "Distance" false 0 "float32" false false "" "" "" "";
  gf "SizeX" false 0 "float32" false false "" "" "" "";
  gf "SizeY" false 0 "float32" false false "" "" "" "";
  gf "X" false 0 "float32" false false "" "" "true" "";
  gf "Y" false 0 "float32" false false "" "" "true" "";
  gf "Z" false 0 "float32" false false "" "" "true" "";
  gf "Q" true 4 "float32" false false "" "" "true" "";
  gf "Type" false 0 "LANDING_TARGET_TYPE" true false "uint8" "" "true" "";
  gf "PositionValid" false 0 "uint8" false false "" "" "true" ""
].
Definition S120 : gstruct := mkGS "common" "MessageFenceStatus" [
  gf "BreachStatus" false 0 "uint8" false false "" "" "" "";
  gf "BreachCount" false 0 "uint16" false false "" "" "" "";
  gf "BreachType" false 0 "FENCE_BREACH" true false "uint8" "" "" "";
  gf "BreachTime" false 0 "uint32" false false "" "" "" "";
  gf "BreachMitigation" false 0 "FENCE_MITIGATE" true false "uint8" "" "true" ""
].
Definition S121 : gstruct := mkGS "common" "MessageMagCalReport" [
  gf "CompassId" false 0 "uint8" false false "" "" "" "";
  gf "CalMask" false 0 "uint8" false false "" "" "" "";
  gf "CalStatus" false 0 "MAG_CAL_STATUS" true false "uint8" "" "" "";
  gf "Autosaved" false 0 "uint8" false false "" "" "" "";
  gf "Fitness" false 0 "float32" false false "" "" "" "";
  gf "OfsX" false 0 "float32" false false "" "" "" "";
  gf "OfsY" false 0 "float32" false false "" "" "" "";
  gf "OfsZ" false 0 "float32" false false "" "" "" "";
  gf "DiagX" false 0 "float32" false false "" "" "" "";
  gf "DiagY" false 0 "float32" false false "" "" "" "";
  gf "DiagZ" false 0 "float32" false false "" "" "" "";
  gf "OffdiagX" false 0 "float32" false false "" "" "" "";
  gf "OffdiagY" false 0 "float32" false false "" "" "" "";
  gf "OffdiagZ" false 0 "float32" false false "" "" "" "";
  gf "OrientationConfidence" false 0 "float32" false false "" "" "true" "";
  gf "OldOrientation" false 0 "MAV_SENSOR_ORIENTATION" true false "uint8" "" "true" "";
  gf "NewOrientation" false 0 "MAV_SENSOR_ORIENTATION" true false "uint8" "" "true" "";
  gf "ScaleFactor" false 0 "float32" false false "" "" "true" ""
].
Definition S122 : gstruct := mkGS "common" "MessageEfiStatus" [
  gf "Health" false 0 "uint8" false false "" "" "" "";
  gf "EcuIndex" false 0 "float32" false false "" "" "" "";
  gf "Rpm" false 0 "float32" false false "" "" "" "";
  gf "FuelConsumed" false 0 "float32" false false "" "" "" "";
  gf "FuelFlow" false 0 "float32" false false "" "" "" "";
  gf "EngineLoad" false 0 "float32" false false "" "" "" "";
  gf "ThrottlePosition" false 0 "float32" false false "" "" "" "";
  gf "SparkDwellTime" false 0 "float32" false false "" "" "" "";
  gf "BarometricPressure" false 0 "float32" false false "" "" "" "";
  gf "IntakeManifoldPressure" false 0 "float32" false false "" "" "" "";
  gf "IntakeManifoldTemperature" false 0 "float32" false false "" "" "" "";
  gf "CylinderHeadTemperature" false 0 "float32" false false "" "" "" "";
  gf "IgnitionTiming" false 0 "float32" false false "" "" "" "";
  gf "InjectionTime" false 0 "float32" false false "" "" "" "";
  gf "ExhaustGasTemperature" false 0 "float32" false false "" "" "" "";
  gf "ThrottleOut" false 0 "float32" false false "" "" "" "";
  gf "PtCompensation" false 0 "float32" false false "" "" "" "";
  gf "IgnitionVoltage" false 0 "float32" false false "" "" "true" "";
  gf "FuelPressure" false 0 "float32" false false "" "" "true" ""
].
Definition S123 : gstruct := mkGS "common" "MessageEstimatorStatus" [
  gf "TimeUsec" false 0 "uint64" true false "" "" "" "";
  gf "Flags" false 0 "ESTIMATOR_STATUS_FLAGS" true false "uint16" "" "" "";
  gf "VelRatio" false 0 "float32" false false "" "" "" "";
  gf "PosHorizRatio" false 0 "float32" false false "" "" "" "";
  gf "PosVertRatio" false 0 "float32" false false "" "" "" "";
  gf "MagRatio" false 0 "float32" false false "" "" "" "";
  gf "HaglRatio" false 0 "float32" false false "" "" "" "";
  gf "TasRatio" false 0 "float32" false false "" "" "" "";
  gf "PosHorizAccuracy" false 0 "float32" false false "" "" "" "";
  gf "PosVertAccuracy" false 0 "float32" false false "" "" "" ""
].
Definition S124 : gstruct := mkGS "common" "MessageWindCov" [
  gf "TimeUsec" false 0 "uint64" true false "" "" "" "";
  gf "WindX" false 0 "float32" false false "" "" "" "";
  gf "WindY" false 0 "float32" false false "" "" "" "";
  gf "WindZ" false 0 "float32" false false "" "" "" "";
  gf "VarHoriz" false 0 "float32" false false "" "" "" "";
  gf "VarVert" false 0 "float32" false false "" "" "" "";
  gf "WindAlt" false 0 "float32" false false "" "" "" "";
  gf "HorizAccuracy" false 0 "float32" false false "" "" "" "";
  gf "VertAccuracy" false 0 "float32" false false "" "" "" ""
].
Definition S125 : gstruct := mkGS "common" "MessageGpsInput" [
  gf "TimeUsec" false 0 "uint64" true false "" "" "" "";
  gf "GpsId" false 0 "uint8" false false "" "" "" "";
  gf "IgnoreFlags" false 0 "GPS_INPUT_IGNORE_FLAGS" true false "uint16" "" "" "";
  gf "TimeWeekMs" false 0 "uint32" false false "" "" "" "";
  gf "TimeWeek" false 0 "uint16" false false "" "" "" "";
  gf "FixType" false 0 "uint8" false false "" "" "" "";
  gf "Lat" false 0 "int32" false false "" "" "" "";
  gf "Lon" false 0 "int32" false false "" "" "" "";
  gf "Alt" false 0 "float32" false false "" "" "" "";
  gf "Hdop" false 0 "float32" false false "" "" "" "";
  gf "Vdop" false 0 "float32" false false "" "" "" "";
  gf "Vn" false 0 "float32" false false "" "" "" "";
  gf "Ve" false 0 "float32" false false "" "" "" "";
  gf "Vd" false 0 "float32" false false "" "" "" "";
  gf "SpeedAccuracy" false 0 "float32" false false "" "" "" "";
  gf "HorizAccuracy" false 0 "float32" false false "" "" "" "";
  gf "VertAccuracy" false 0 "float32" false false "" "" "" "";
  gf "SatellitesVisible" false 0 "uint8" false false "" "" "" "";
  gf "Yaw" false 0 "uint16" false false "" "" "true" ""
].
Definition S126 : gstruct := mkGS "common" "MessageGpsRtcmData" [
  gf "Flags" false 0 "uint8" false false "" "" "" "";
  gf "Len" false 0 "uint8" false false "" "" "" "";
  gf "Data" true 180 "uint8" false false "" "" "" ""
].
Definition S127 : gstruct := mkGS "common" "MessageHighLatency" [
  gf "BaseMode" false 0 "MAV_MODE_FLAG" true false "uint8" "" "" "";
  gf "CustomMode" false 0 "uint32" false false "" "" "" "";
  gf "LandedState" false 0 "MAV_LANDED_STATE" true false "uint8" "" "" "";
  gf "Roll" false 0 "int16" false false "" "" "" "";
  gf "Pitch" false 0 "int16" false false "" "" "" "";
  gf "Heading" false 0 "uint16" false false "" "" "" "";
  gf "Throttle" false 0 "int8" false false "" "" "" "";
  gf "HeadingSp" false 0 "int16" false false "" "" "" "";
  gf "Latitude" false 0 "int32" false false "" "" "" "";
  gf "Longitude" false 0 "int32" false false "" "" "" "";
  gf "AltitudeAmsl" false 0 "int16" false false "" "" "" "";
  gf "AltitudeSp" false 0 "int16" false false "" "" "" "";
  gf "Airspeed" false 0 "uint8" false false "" "" "" "";
  gf "AirspeedSp" false 0 "uint8" false false "" "" "" "";
  gf "Groundspeed" false 0 "uint8" false false "" "" "" "";
  gf "ClimbRate" false 0 "int8" false false "" "" "" "";
  gf "GpsNsat" false 0 "uint8" false false "" "" "" "";
  gf "GpsFixType" false 0 "GPS_FIX_TYPE" true false "uint8" "" "" "";
  gf "BatteryRemaining" false 0 "uint8" false false "" "" "" "";
  gf "Temperature" false 0 "int8" false false "" "" "" "";
  gf "TemperatureAir" false 0 "int8" false false "" "" "" "";
  gf "Failsafe" false 0 "uint8" false false "" "" "" "";
  gf "WpNum" false 0 "uint8" false false "" "" "" "";
  gf "WpDistance" false 0 "uint16" false false "" "" "" ""
].
Definition S128 : gstruct := mkGS "common" "MessageHighLatency2" [
  gf "Timestamp" false 0 "uint32" false false "" "" "" "";
  gf "Type" false 0 "MAV_TYPE" true false "uint8" "" "" "";
  gf "Autopilot" false 0 "MAV_AUTOPILOT" true false "uint8" "" "" "";
  gf "CustomMode" false 0 "uint16" false false "" "" "" "";
  gf "Latitude" false 0 "int32" false false "" "" "" "";
  gf "Longitude" false 0 "int32" false false "" "" "" "";
  gf "Altitude" false 0 "int16" false false "" "" "" "";
  gf "TargetAltitude" false 0 "int16" false false "" "" "" "";
  gf "Heading" false 0 "uint8" false false "" "" "" "";
  gf "TargetHeading" false 0 "uint8" false false "" "" "" "";
  gf "TargetDistance" false 0 "uint16" false false "" "" "" "";
  gf "Throttle" false 0 "uint8" false false "" "" "" "";
  gf "Airspeed" false 0 "uint8" false false "" "" "" "";
  gf "AirspeedSp" false 0 "uint8" false false "" "" "" "";
  gf "Groundspeed" false 0 "uint8" false false "" "" "" "";
  gf "Windspeed" false 0 "uint8" false false "" "" "" "";
  gf "WindHeading" false 0 "uint8" false false "" "" "" "";
  gf "Eph" false 0 "uint8" false false "" "" "" "";
  gf "Epv" false 0 "uint8" false false "" "" "" "";
  gf "TemperatureAir" false 0 "int8" false false "" "" "" "";
  gf "ClimbRate" false 0 "int8" false false "" "" "" "";
  gf "Battery" false 0 "int8" false false "" "" "" "";
  gf "WpNum" false 0 "uint16" false false "" "" "" "";
  gf "FailureFlags" false 0 "HL_FAILURE_FLAG" true false "uint16" "" "" "";
  gf "Custom0" false 0 "int8" false false "" "" "" "";
  gf "Custom1" false 0 "int8" false false "" "" "" "";
  gf "Custom2" false 0 "int8" false false "" "" "" ""
].
Definition S129 : gstruct := mkGS "common" "MessageVibration" [
  gf "TimeUsec" false 0 "uint64" true false "" "" "" "";
  gf "VibrationX" false 0 "float32" false false "" "" "" "";
  gf "VibrationY" false 0 "float32" false false "" "" "" "";
  gf "VibrationZ" false 0 "float32" false false "" "" "" "";
  gf "Clipping_0" false 0 "uint32" false false "" "" "" "";
  gf "Clipping_1" false 0 "uint32" false false "" "" "" "";
  gf "Clipping_2" false 0 "uint32" false false "" "" "" ""
].
Definition S130 : gstruct := mkGS "common" "MessageHomePosition" [
  gf "Latitude" false 0 "int32" false false "" "" "" "";
  gf "Longitude" false 0 "int32" false false "" "" "" "";
  gf "Altitude" false 0 "int32" false false "" "" "" "";
  gf "X" false 0 "float32" false false "" "" "" "";
  gf "Y" false 0 "float32" false false "" "" "" "";
  gf "Z" false 0 "float32" false false "" "" "" "";
  gf "Q" true 4 "float32" false false "" "" "" "";
  gf "ApproachX" false 0 "float32" false false "" "" "" "";
  gf "ApproachY" false 0 "float32" false false "" "" "" "";
  gf "ApproachZ" false 0 "float32" false false "" "" "" "";
  gf "TimeUsec" false 0 "uint64" true false "" "" "true" ""
].
Definition S131 : gstruct := mkGS "common" "MessageSetHomePosition" [
  gf "TargetSystem" false 0 "uint8" false false "" "" "" "";
  gf "Latitude" false 0 "int32" false false "" "" "" "";
  gf "Longitude" false 0 "int32" false false "" "" "" "";
  gf "Altitude" false 0 "int32" false false "" "" "" "";
  gf "X" false 0 "float32" false false "" "" "" "";
  gf "Y" false 0 "float32" false false "" "" "" "";
  gf "Z" false 0 "float32" false false "" "" "" "";
  gf "Q" true 4 "float32" false false "" "" "" "";
  gf "ApproachX" false 0 "float32" false false "" "" "" "";
  gf "ApproachY" false 0 "float32" false false "" "" "" "";
  gf "ApproachZ" false 0 "float32" false false "" "" "" "";
  gf "TimeUsec" false 0 "uint64" true false "" "" "true" ""
].
Definition S132 : gstruct := mkGS "common" "MessageMessageInterval" [
  gf "MessageId" false 0 "uint16" false false "" "" "" "";
  gf "IntervalUs" false 0 "int32" false false "" "" "" ""
].
Definition S133 : gstruct := mkGS "common" "MessageExtendedSysState" [
  gf "VtolState" false 0 "MAV_VTOL_STATE" true false "uint8" "" "" "";
  gf "LandedState" false 0 "MAV_LANDED_STATE" true false "uint8" "" "" ""
].
Definition S134 : gstruct := mkGS "common" "MessageAdsbVehicle" [
  gf "IcaoAddress" false 0 "uint32" false false "" "" "" "ICAO_address";
  gf "Lat" false 0 "int32" false false "" "" "" "";
  gf "Lon" false 0 "int32" false false "" "" "" "";
  gf "AltitudeType" false 0 "ADSB_ALTITUDE_TYPE" true false "uint8" "" "" "";
  gf "Altitude" false 0 "int32" false false "" "" "" "";
  gf "Heading" false 0 "uint16" false false "" "" "" "";
  gf "HorVelocity" false 0 "uint16" false false "" "" "" "";
  gf "VerVelocity" false 0 "int16" false false "" "" "" "";
  gf "Callsign" false 0 "string" false true "" "9" "" "";
  gf "EmitterType" false 0 "ADSB_EMITTER_TYPE" true false "uint8" "" "" "";
  gf "Tslc" false 0 "uint8" false false "" "" "" "";
  gf "Flags" false 0 "ADSB_FLAGS" true false "uint16" "" "" "";
  gf "Squawk" false 0 "uint16" false false "" "" "" ""
].
Definition S135 : gstruct := mkGS "common" "MessageCollision" [
  gf "Src" false 0 "MAV_COLLISION_SRC" true false "uint8" "" "" "";
  gf "Id" false 0 "uint32" false false "" "" "" "";
  gf "Action" false 0 "MAV_COLLISION_ACTION" true false "uint8" "" "" "";
  gf "ThreatLevel" false 0 "MAV_COLLISION_THREAT_LEVEL" true false "uint8" "" "" "";
  gf "TimeToMinimumDelta" false 0 "float32" false false "" "" "" "";
  gf "AltitudeMinimumDelta" false 0 "float32" false false "" "" "" "";
  gf "HorizontalMinimumDelta" false 0 "float32" false false "" "" "" ""
].
Definition S136 : gstruct := mkGS "common" "MessageV2Extension" [
  gf "TargetNetwork" false 0 "uint8" false false "" "" "" "";
  gf "TargetSystem" false 0 "uint8" false false "" "" "" "";
  gf "TargetComponent" false 0 "uint8" false false "" "" "" "";
  gf "MessageType" false 0 "uint16" false false "" "" "" "";
  gf "Payload" true 249 "uint8" false false "" "" "" ""
].
Definition S137 : gstruct := mkGS "common" "MessageMemoryVect" [
  gf "Address" false 0 "uint16" false false "" "" "" "";
  gf "Ver" false 0 "uint8" false false "" "" "" "";
  gf "Type" false 0 "uint8" false false "" "" "" "";
  gf "Value" true 32 "int8" false false "" "" "" ""
].
Definition S138 : gstruct := mkGS "common" "MessageDebugVect" [
  gf "Name" false 0 "string" false true "" "10" "" "";
  gf "TimeUsec" false 0 "uint64" true false "" "" "" "";
  gf "X" false 0 "float32" false false "" "" "" "";
  gf "Y" false 0 "float32" false false "" "" "" "";
  gf "Z" false 0 "float32" false false "" "" "" ""
].
Definition S139 : gstruct := mkGS "common" "MessageNamedValueFloat" [
  gf "TimeBootMs" false 0 "uint32" false false "" "" "" "";
  gf "Name" false 0 "string" false true "" "10" "" "";
  gf "Value" false 0 "float32" false false "" "" "" ""
].
Definition S140 : gstruct := mkGS "common" "MessageNamedValueInt" [
  gf "TimeBootMs" false 0 "uint32" false false "" "" "" "";
  gf "Name" false 0 "string" false true "" "10" "" "";
  gf "Value" false 0 "int32" false false "" "" "" ""
].
Definition S141 : gstruct := mkGS "common" "MessageStatustext" [
  gf "Severity" false 0 "MAV_SEVERITY" true false "uint8" "" "" "";
  gf "Text" false 0 "string" false true "" "50" "" "";
  gf "Id" false 0 "uint16" false false "" "" "true" "";
  gf "ChunkSeq" false 0 "uint8" false false "" "" "true" ""
].
Definition S142 : gstruct := mkGS "common" "MessageDebug" [
  gf "TimeBootMs" false 0 "uint32" false false "" "" "" "";
  gf "Ind" false 0 "uint8" false false "" "" "" "";
  gf "Value" false 0 "float32" false false "" "" "" ""
].
Definition S143 : gstruct := mkGS "common" "MessageSetupSigning" [
  gf "TargetSystem" false 0 "uint8" false false "" "" "" "";
  gf "TargetComponent" false 0 "uint8" false false "" "" "" "";
  gf "SecretKey" true 32 "uint8" false false "" "" "" "";
  gf "InitialTimestamp" false 0 "uint64" true false "" "" "" ""
].
Definition S144 : gstruct := mkGS "common" "MessageButtonChange" [
  gf "TimeBootMs" false 0 "uint32" false false "" "" "" "";
  gf "LastChangeMs" false 0 "uint32" false false "" "" "" "";
  gf "State" false 0 "uint8" false false "" "" "" ""
].
Definition S145 : gstruct := mkGS "common" "MessagePlayTune" [
  gf "TargetSystem" false 0 "uint8" false false "" "" "" "";
  gf "TargetComponent" false 0 "uint8" false false "" "" "" "";
  gf "Tune" false 0 "string" false true "" "30" "" "";
  gf "Tune2" false 0 "string" false true "" "200" "true" ""
].
Definition S146 : gstruct := mkGS "common" "MessageCameraInformation" [
  gf "TimeBootMs" false 0 "uint32" false false "" "" "" "";
  gf "VendorName" true 32 "uint8" false false "" "" "" "";
  gf "ModelName" true 32 "uint8" false false "" "" "" "";
  gf "FirmwareVersion" false 0 "uint32" false false "" "" "" "";
  gf "FocalLength" false 0 "float32" false false "" "" "" "";
  gf "SensorSizeH" false 0 "float32" false false "" "" "" "";
  gf "SensorSizeV" false 0 "float32" false false "" "" "" "";
  gf "ResolutionH" false 0 "uint16" false false "" "" "" "";
  gf "ResolutionV" false 0 "uint16" false false "" "" "" "";
  gf "LensId" false 0 "uint8" false false "" "" "" "";
  gf "Flags" false 0 "CAMERA_CAP_FLAGS" true false "uint32" "" "" "";
  gf "CamDefinitionVersion" false 0 "uint16" false false "" "" "" "";
  gf "CamDefinitionUri" false 0 "string" false true "" "140" "" "";
  gf "GimbalDeviceId" false 0 "uint8" false false "" "" "true" "";
  gf "CameraDeviceId" false 0 "uint8" false false "" "" "true" ""
].
Definition S147 : gstruct := mkGS "common" "MessageCameraSettings" [
  gf "TimeBootMs" false 0 "uint32" false false "" "" "" "";
  gf "ModeId" false 0 "CAMERA_MODE" true false "uint8" "" "" "";
  gf "Zoomlevel" false 0 "float32" false false "" "" "true" "zoomLevel";
  gf "Focuslevel" false 0 "float32" false false "" "" "true" "focusLevel";
  gf "CameraDeviceId" false 0 "uint8" false false "" "" "true" ""
].
Definition S148 : gstruct := mkGS "common" "MessageStorageInformation" [
  gf "TimeBootMs" false 0 "uint32" false false "" "" "" "";
  gf "StorageId" false 0 "uint8" false false "" "" "" "";
  gf "StorageCount" false 0 "uint8" false false "" "" "" "";
  gf "Status" false 0 "STORAGE_STATUS" true false "uint8" "" "" "";
  gf "TotalCapacity" false 0 "float32" false false "" "" "" "";
  gf "UsedCapacity" false 0 "float32" false false "" "" "" "";
  gf "AvailableCapacity" false 0 "float32" false false "" "" "" "";
  gf "ReadSpeed" false 0 "float32" false false "" "" "" "";
  gf "WriteSpeed" false 0 "float32" false false "" "" "" "";
  gf "Type" false 0 "STORAGE_TYPE" true false "uint8" "" "true" "";
  gf "Name" false 0 "string" false true "" "32" "true" "";
  gf "StorageUsage" false 0 "STORAGE_USAGE_FLAG" true false "uint8" "" "true" ""
].
Definition S149 : gstruct := mkGS "common" "MessageCameraCaptureStatus" [
  gf "TimeBootMs" false 0 "uint32" false false "" "" "" "";
  gf "ImageStatus" false 0 "uint8" false false "" "" "" "";
  gf "VideoStatus" false 0 "uint8" false false "" "" "" "";
  gf "ImageInterval" false 0 "float32" false false "" "" "" "";
  gf "RecordingTimeMs" false 0 "uint32" false false "" "" "" "";
  gf "AvailableCapacity" false 0 "float32" false false "" "" "" "";
  gf "ImageCount" false 0 "int32" false false "" "" "true" "";
  gf "CameraDeviceId" false 0 "uint8" false false "" "" "true" ""
].
Definition S150 : gstruct := mkGS "common" "MessageCameraImageCaptured" [
  gf "TimeBootMs" false 0 "uint32" false false "" "" "" "";
  gf "TimeUtc" false 0 "uint64" true false "" "" "" "";
  gf "CameraId" false 0 "uint8" false false "" "" "" "";
  gf "Lat" false 0 "int32" false false "" "" "" "";
  gf "Lon" false 0 "int32" false false "" "" "" "";
  gf "Alt" false 0 "int32" false false "" "" "" "";
  gf "RelativeAlt" false 0 "int32" false false "" "" "" "";
  gf "Q" true 4 "float32" false false "" "" "" "";
  gf "ImageIndex" false 0 "int32" false false "" "" "" "";
  gf "CaptureResult" false 0 "int8" false false "" "" "" "";
  gf "FileUrl" false 0 "string" false true "" "205" "" ""
].
Definition S151 : gstruct := mkGS "common" "MessageFlightInformation" [
  gf "TimeBootMs" false 0 "uint32" false false "" "" "" "";
  gf "ArmingTimeUtc" false 0 "uint64" true false "" "" "" "";
  gf "TakeoffTimeUtc" false 0 "uint64" true false "" "" "" "";
  gf "FlightUuid" false 0 "uint64" true false "" "" "" "";
  gf "LandingTime" false 0 "uint32" false false "" "" "true" ""
].
Definition S152 : gstruct := mkGS "common" "MessageMountOrientation" [
  gf "TimeBootMs" false 0 "uint32" false false "" "" "" "";
  gf "Roll" false 0 "float32" false false "" "" "" "";
  gf "Pitch" false 0 "float32" false false "" "" "" "";
  gf "Yaw" false 0 "float32" false false "" "" "" "";
  gf "YawAbsolute" false 0 "float32" false false "" "" "true" ""
].
Definition S153 : gstruct := mkGS "common" "MessageLoggingData" [
  gf "TargetSystem" false 0 "uint8" false false "" "" "" "";
  gf "TargetComponent" false 0 "uint8" false false "" "" "" "";
  gf "Sequence" false 0 "uint16" false false "" "" "" "";
  gf "Length" false 0 "uint8" false false "" "" "" "";
  gf "FirstMessageOffset" false 0 "uint8" false false "" "" "" "";
  gf "Data" true 249 "uint8" false false "" "" "" ""
].
Definition S154 : gstruct := mkGS "common" "MessageLoggingDataAcked" [
  gf "TargetSystem" false 0 "uint8" false false "" "" "" "";
  gf "TargetComponent" false 0 "uint8" false false "" "" "" "";
  gf "Sequence" false 0 "uint16" false false "" "" "" "";
  gf "Length" false 0 "uint8" false false "" "" "" "";
  gf "FirstMessageOffset" false 0 "uint8" false false "" "" "" "";
  gf "Data" true 249 "uint8" false false "" "" "" ""
].
Definition S155 : gstruct := mkGS "common" "MessageLoggingAck" [
  gf "TargetSystem" false 0 "uint8" false false "" "" "" "";
  gf "TargetComponent" false 0 "uint8" false false "" "" "" "";
  gf "Sequence" false 0 "uint16" false false "" "" "" ""
].
Definition S156 : gstruct := mkGS "common" "MessageVideoStreamInformation" [
  gf "StreamId" false 0 "uint8" false false "" "" "" "";
  gf "Count" false 0 "uint8" false false "" "" "" "";
  gf "Type" false 0 "VIDEO_STREAM_TYPE" true false "uint8" "" "" "";
  gf "Flags" false 0 "VIDEO_STREAM_STATUS_FLAGS" true false "uint16" "" "" "";
  gf "Framerate" false 0 "float32" false false "" "" "" "";
  gf "ResolutionH" false 0 "uint16" false false "" "" "" "";
  gf "ResolutionV" false 0 "uint16" false false "" "" "" "";
  gf "Bitrate" false 0 "uint32" false false "" "" "" "";
  gf "Rotation" false 0 "uint16" false false "" "" "" "";
  gf "Hfov" false 0 "uint16" false false "" "" "" "";
  gf "Name" false 0 "string" false true "" "32" "" "";
  gf "Uri" false 0 "string" false true "" "160" "" "";
  gf "Encoding" false 0 "VIDEO_STREAM_ENCODING" true false "uint8" "" "true" "";
  gf "CameraDeviceId" false 0 "uint8" false false "" "" "true" ""
].
Definition S157 : gstruct := mkGS "common" "MessageVideoStreamStatus" [
  gf "StreamId" false 0 "uint8" false false "" "" "" "";
  gf "Flags" false 0 "VIDEO_STREAM_STATUS_FLAGS" true false "uint16" "" "" "";
  gf "Framerate" false 0 "float32" false false "" "" "" "";
  gf "ResolutionH" false 0 "uint16" false false "" "" "" "";
  gf "ResolutionV" false 0 "uint16" false false "" "" "" "";
  gf "Bitrate" false 0 "uint32" false false "" "" "" "";
  gf "Rotation" false 0 "uint16" false false "" "" "" "";
  gf "Hfov" false 0 "uint16" false false "" "" "" "";
  gf "CameraDeviceId" false 0 "uint8" false false "" "" "true" ""
].
Definition S158 : gstruct := mkGS "common" "MessageCameraFovStatus" [
  gf "TimeBootMs" false 0 "uint32" false false "" "" "" "";
  gf "LatCamera" false 0 "int32" false false "" "" "" "";
  gf "LonCamera" false 0 "int32" false false "" "" "" "";
  gf "AltCamera" false 0 "int32" false false "" "" "" "";
  gf "LatImage" false 0 "int32" false false "" "" "" "";
  gf "LonImage" false 0 "int32" false false "" "" "" "";
  gf "AltImage" false 0 "int32" false false "" "" "" "";
  gf "Q" true 4 "float32" false false "" "" "" "";
  gf "Hfov" false 0 "float32" false false "" "" "" "";
  gf "Vfov" false 0 "float32" false false "" "" "" "";
  gf "CameraDeviceId" false 0 "uint8" false false "" "" "true" ""
].
Definition S159 : gstruct := mkGS "common" "MessageCameraTrackingImageStatus" [
  gf "TrackingStatus" false 0 "CAMERA_TRACKING_STATUS_FLAGS" true false "uint8" "" "" "";
  gf "TrackingMode" false 0 "CAMERA_TRACKING_MODE" true false "uint8" "" "" "";
  gf "TargetData" false 0 "CAMERA_TRACKING_TARGET_DATA" true false "uint8" "" "" "";
  gf "PointX" false 0 "float32" false false "" "" "" "";
  gf "PointY" false 0 "float32" false false "" "" "" "";
  gf "Radius" false 0 "float32" false false "" "" "" "";
  gf "RecTopX" false 0 "float32" false false "" "" "" "";
  gf "RecTopY" false 0 "float32" false false "" "" "" "";
  gf "RecBottomX" false 0 "float32" false false "" "" "" "";
  gf "RecBottomY" false 0 "float32" false false "" "" "" "";
  gf "CameraDeviceId" false 0 "uint8" false false "" "" "true" ""
].
Definition S160 : gstruct := mkGS "common" "MessageCameraTrackingGeoStatus" [
  gf "TrackingStatus" false 0 "CAMERA_TRACKING_STATUS_FLAGS" true false "uint8" "" "" "";
  gf "Lat" false 0 "int32" false false "" "" "" "";
  gf "Lon" false 0 "int32" false false "" "" "" "";
  gf "Alt" false 0 "float32" false false "" "" "" "";
  gf "HAcc" false 0 "float32" false false "" "" "" "";
  gf "VAcc" false 0 "float32" false false "" "" "" "";
  gf "VelN" false 0 "float32" false false "" "" "" "";
  gf "VelE" false 0 "float32" false false "" "" "" "";
  gf "VelD" false 0 "float32" false false "" "" "" "";
  gf "VelAcc" false 0 "float32" false false "" "" "" "";
  gf "Dist" false 0 "float32" false false "" "" "" "";
  gf "Hdg" false 0 "float32" false false "" "" "" "";
  gf "HdgAcc" false 0 "float32" false false "" "" "" "";
  gf "CameraDeviceId" false 0 "uint8" false false "" "" "true" ""
].
Definition S161 : gstruct := mkGS "common" "MessageCameraThermalRange" [
  gf "TimeBootMs" false 0 "uint32" false false "" "" "" "";
  gf "StreamId" false 0 "uint8" false false "" "" "" "";
  gf "CameraDeviceId" false 0 "uint8" false false "" "" "" "";
  gf "Max" false 0 "float32" false false "" "" "" "";
  gf "MaxPointX" false 0 "float32" false false "" "" "" "";
  gf "MaxPointY" false 0 "float32" false false "" "" "" "";
  gf "Min" false 0 "float32" false false "" "" "" "";
  gf "MinPointX" false 0 "float32" false false "" "" "" "";
  gf "MinPointY" false 0 "float32" false false "" "" "" ""
].
Definition S162 : gstruct := mkGS "common" "MessageGimbalManagerInformation" [
  gf "TimeBootMs" false 0 "uint32" false false "" "" "" "";
  gf "CapFlags" false 0 "GIMBAL_MANAGER_CAP_FLAGS" true false "uint32" "" "" "";
  gf "GimbalDeviceId" false 0 "uint8" false false "" "" "" "";
  gf "RollMin" false 0 "float32" false false "" "" "" "";
  gf "RollMax" false 0 "float32" false false "" "" "" "";
  gf "PitchMin" false 0 "float32" false false "" "" "" "";
  gf "PitchMax" false 0 "float32" false false "" "" "" "";
  gf "YawMin" false 0 "float32" false false "" "" "" "";
  gf "YawMax" false 0 "float32" false false "" "" "" ""
].
Definition S163 : gstruct := mkGS "common" "MessageGimbalManagerStatus" [
  gf "TimeBootMs" false 0 "uint32" false false "" "" "" "";
  gf "Flags" false 0 "GIMBAL_MANAGER_FLAGS" true false "uint32" "" "" "";
  gf "GimbalDeviceId" false 0 "uint8" false false "" "" "" "";
  gf "PrimaryControlSysid" false 0 "uint8" false false "" "" "" "";
  gf "PrimaryControlCompid" false 0 "uint8" false false "" "" "" "";
  gf "SecondaryControlSysid" false 0 "uint8" false false "" "" "" "";
  gf "SecondaryControlCompid" false 0 "uint8" false false "" "" "" ""
].
Definition S164 : gstruct := mkGS "common" "MessageGimbalManagerSetAttitude" [
  gf "TargetSystem" false 0 "uint8" false false "" "" "" "";
  gf "TargetComponent" false 0 "uint8" false false "" "" "" "";
  gf "Flags" false 0 "GIMBAL_MANAGER_FLAGS" true false "uint32" "" "" "";
  gf "GimbalDeviceId" false 0 "uint8" false false "" "" "" "";
  gf "Q" true 4 "float32" false false "" "" "" "";
  gf "AngularVelocityX" false 0 "float32" false false "" "" "" "";
  gf "AngularVelocityY" false 0 "float32" false false "" "" "" "";
  gf "AngularVelocityZ" false 0 "float32" false false "" "" "" ""
].
Definition S165 : gstruct := mkGS "common" "MessageGimbalDeviceInformation" [
  gf "TimeBootMs" false 0 "uint32" false false "" "" "" "";
  gf "VendorName" false 0 "string" false true "" "32" "" "";
  gf "ModelName" false 0 "string" false true "" "32" "" "";
  gf "CustomName" false 0 "string" false true "" "32" "" "";
  gf "FirmwareVersion" false 0 "uint32" false false "" "" "" "";
  gf "HardwareVersion" false 0 "uint32" false false "" "" "" "";
  gf "Uid" false 0 "uint64" true false "" "" "" "";
  gf "CapFlags" false 0 "GIMBAL_DEVICE_CAP_FLAGS" true false "uint16" "" "" "";
  gf "CustomCapFlags" false 0 "uint16" false false "" "" "" "";
  gf "RollMin" false 0 "float32" false false "" "" "" "";
  gf "RollMax" false 0 "float32" false false "" "" "" "";
  gf "PitchMin" false 0 "float32" false false "" "" "" "";
  gf "PitchMax" false 0 "float32" false false "" "" "" "";
  gf "YawMin" false 0 "float32" false false "" "" "" "";
  gf "YawMax" false 0 "float32" false false "" "" "" "";
  gf "GimbalDeviceId" false 0 "uint8" false false "" "" "true" ""
].
Definition S166 : gstruct := mkGS "common" "MessageGimbalDeviceSetAttitude" [
  gf "TargetSystem" false 0 "uint8" false false "" "" "" "";
  gf "TargetComponent" false 0 "uint8" false false "" "" "" "";
  gf "Flags" false 0 "GIMBAL_DEVICE_FLAGS" true false "uint16" "" "" "";
  gf "Q" true 4 "float32" false false "" "" "" "";
  gf "AngularVelocityX" false 0 "float32" false false "" "" "" "";
  gf "AngularVelocityY" false 0 "float32" false false "" "" "" "";
  gf "AngularVelocityZ" false 0 "float32" false false "" "" "" ""
].
Definition S167 : gstruct := mkGS "common" "MessageGimbalDeviceAttitudeStatus" [
  gf "TargetSystem" false 0 "uint8" false false "" "" "" "";
  gf "TargetComponent" false 0 "uint8" false false "" "" "" "";
  gf "TimeBootMs" false 0 "uint32" false false "" "" "" "";
  gf "Flags" false 0 "GIMBAL_DEVICE_FLAGS" true false "uint16" "" "" "";
  gf "Q" true 4 "float32" false false "" "" "" "";
  gf "AngularVelocityX" false 0 "float32" false false "" "" "" "";
  gf "AngularVelocityY" false 0 "float32" false false "" "" "" "";
  gf "AngularVelocityZ" false 0 "float32" false false "" "" "" "";
  gf "FailureFlags" false 0 "GIMBAL_DEVICE_ERROR_FLAGS" true false "uint32" "" "" "";
  gf "DeltaYaw" false 0 "float32" false false "" "" "true" "";
  gf "DeltaYawVelocity" false 0 "float32" false false "" "" "true" "";
  gf "GimbalDeviceId" false 0 "uint8" false false "" "" "true" ""
].
Definition S168 : gstruct := mkGS "common" "MessageAutopilotStateForGimbalDevice" [
  gf "TargetSystem" false 0 "uint8" false false "" "" "" "";
  gf "TargetComponent" false 0 "uint8" false false "" "" "" "";
  gf "TimeBootUs" false 0 "uint64" true false "" "" "" "";
  gf "Q" true 4 "float32" false false "" "" "" "";
  gf "QEstimatedDelayUs" false 0 "uint32" false false "" "" "" "";
  gf "Vx" false 0 "float32" false false "" "" "" "";
  gf "Vy" false 0 "float32" false false "" "" "" "";
  gf "Vz" false 0 "float32" false false "" "" "" "";
  gf "VEstimatedDelayUs" false 0 "uint32" false false "" "" "" "";
  gf "FeedForwardAngularVelocityZ" false 0 "float32" false false "" "" "" "";
  gf "EstimatorStatus" false 0 "ESTIMATOR_STATUS_FLAGS" true false "uint16" "" "" "";
  gf "LandedState" false 0 "MAV_LANDED_STATE" true false "uint8" "" "" "";
  gf "AngularVelocityZ" false 0 "float32" false false "" "" "true" ""
].
Definition S169 : gstruct := mkGS "common" "MessageGimbalManagerSetPitchyaw" [
  gf "TargetSystem" false 0 "uint8" false false "" "" "" "";
  gf "TargetComponent" false 0 "uint8" false false "" "" "" "";
  gf "Flags" false 0 "GIMBAL_MANAGER_FLAGS" true false "uint32" "" "" "";
  gf "GimbalDeviceId" false 0 "uint8" false false "" "" "" "";
  gf "Pitch" false 0 "float32" false false "" "" "" "";
  gf "Yaw" false 0 "float32" false false "" "" "" "";
  gf "PitchRate" false 0 "float32" false false "" "" "" "";
  gf "YawRate" false 0 "float32" false false "" "" "" ""
].
Definition S170 : gstruct := mkGS "common" "MessageGimbalManagerSetManualControl" [
  gf "TargetSystem" false 0 "uint8" false false "" "" "" "";
  gf "TargetComponent" false 0 "uint8" false false "" "" "" "";
  gf "Flags" false 0 "GIMBAL_MANAGER_FLAGS" true false "uint32" "" "" "";
  gf "GimbalDeviceId" false 0 "uint8" false false "" "" "" "";
  gf "Pitch" false 0 "float32" false false "" "" "" "";
  gf "Yaw" false 0 "float32" false false "" "" "" "";
  gf "PitchRate" false 0 "float32" false false "" "" "" "";
  gf "YawRate" false 0 "float32" false false "" "" "" ""
].
Definition S171 : gstruct := mkGS "common" "MessageEscInfo" [
  gf "Index" false 0 "uint8" false false "" "" "" "";
  gf "TimeUsec" false 0 "uint64" true false "" "" "" "";
  gf "Counter" false 0 "uint16" false false "" "" "" "";
  gf "Count" false 0 "uint8" false false "" "" "" "";
  gf "ConnectionType" false 0 "ESC_CONNECTION_TYPE" true false "uint8" "" "" "";
  gf "Info" false 0 "uint8" false false "" "" "" "";
  gf "FailureFlags" true 4 "ESC_FAILURE_FLAGS" true false "uint16" "" "" "";
  gf "ErrorCount" true 4 "uint32" false false "" "" "" "";
  gf "Temperature" true 4 "int16" false false "" "" "" ""
].
Definition S172 : gstruct := mkGS "common" "MessageEscStatus" [
  gf "Index" false 0 "uint8" false false "" "" "" "";
  gf "TimeUsec" false 0 "uint64" true false "" "" "" "";
  gf "Rpm" true 4 "int32" false false "" "" "" "";
  gf "Voltage" true 4 "float32" false false "" "" "" "";
  gf "Current" true 4 "float32" false false "" "" "" ""
].
Definition S173 : gstruct := mkGS "common" "MessageWifiConfigAp" [
  gf "Ssid" false 0 "string" false true "" "32" "" "";
  gf "Password" false 0 "string" false true "" "64" "" "";
  gf "Mode" false 0 "WIFI_CONFIG_AP_MODE" true false "int8" "" "true" "";
  gf "Response" false 0 "WIFI_CONFIG_AP_RESPONSE" true false "int8" "" "true" ""
].
Definition S174 : gstruct := mkGS "common" "MessageAisVessel" [
  gf "Mmsi" false 0 "uint32" false false "" "" "" "MMSI";
  gf "Lat" false 0 "int32" false false "" "" "" "";
  gf "Lon" false 0 "int32" false false "" "" "" "";
  gf "Cog" false 0 "uint16" false false "" "" "" "COG";
  gf "Heading" false 0 "uint16" false false "" "" "" "";
  gf "Velocity" false 0 "uint16" false false "" "" "" "";
  gf "TurnRate" false 0 "int8" false false "" "" "" "";
  gf "NavigationalStatus" false 0 "AIS_NAV_STATUS" true false "uint8" "" "" "";
  gf "Type" false 0 "AIS_TYPE" true false "uint8" "" "" "";
  gf "DimensionBow" false 0 "uint16" false false "" "" "" "";
  gf "DimensionStern" false 0 "uint16" false false "" "" "" "";
  gf "DimensionPort" false 0 "uint8" false false "" "" "" "";
  gf "DimensionStarboard" false 0 "uint8" false false "" "" "" "";
  gf "Callsign" false 0 "string" false true "" "7" "" "";
  gf "Name" false 0 "string" false true "" "20" "" "";
  gf "Tslc" false 0 "uint16" false false "" "" "" "";
  gf "Flags" false 0 "AIS_FLAGS" true false "uint16" "" "" ""
].
Definition S175 : gstruct := mkGS "common" "MessageUavcanNodeStatus" [
  gf "TimeUsec" false 0 "uint64" true false "" "" "" "";
  gf "UptimeSec" false 0 "uint32" false false "" "" "" "";
  gf "Health" false 0 "UAVCAN_NODE_HEALTH" true false "uint8" "" "" "";
  gf "Mode" false 0 "UAVCAN_NODE_MODE" true false "uint8" "" "" "";
  gf "SubMode" false 0 "uint8" false false "" "" "" "";
  gf "VendorSpecificStatusCode" false 0 "uint16" false false "" "" "" ""
].
Definition S176 : gstruct := mkGS "common" "MessageUavcanNodeInfo" [
  gf "TimeUsec" false 0 "uint64" true false "" "" "" "";
  gf "UptimeSec" false 0 "uint32" false false "" "" "" "";
  gf "Name" false 0 "string" false true "" "80" "" "";
  gf "HwVersionMajor" false 0 "uint8" false false "" "" "" "";
  gf "HwVersionMinor" false 0 "uint8" false false "" "" "" "";
  gf "HwUniqueId" true 16 "uint8" false false "" "" "" "";
  gf "SwVersionMajor" false 0 "uint8" false false "" "" "" "";
  gf "SwVersionMinor" false 0 "uint8" false false "" "" "" "";
  gf "SwVcsCommit" false 0 "uint32" false false "" "" "" ""
].
Definition S177 : gstruct := mkGS "common" "MessageParamExtRequestRead" [
  gf "TargetSystem" false 0 "uint8" false false "" "" "" "";
  gf "TargetComponent" false 0 "uint8" false false "" "" "" "";
  gf "ParamId" false 0 "string" false true "" "16" "" "";
  gf "ParamIndex" false 0 "int16" false false "" "" "" ""
].
Definition S178 : gstruct := mkGS "common" "MessageParamExtRequestList" [
  gf "TargetSystem" false 0 "uint8" false false "" "" "" "";
  gf "TargetComponent" false 0 "uint8" false false "" "" "" ""
].
Definition S179 : gstruct := mkGS "common" "MessageParamExtValue" [
  gf "ParamId" false 0 "string" false true "" "16" "" "";
  gf "ParamValue" false 0 "string" false true "" "128" "" "";
  gf "ParamType" false 0 "MAV_PARAM_EXT_TYPE" true false "uint8" "" "" "";
  gf "ParamCount" false 0 "uint16" false false "" "" "" "";
  gf "ParamIndex" false 0 "uint16" false false "" "" "" ""
].
Definition S180 : gstruct := mkGS "common" "MessageParamExtSet" [
  gf "TargetSystem" false 0 "uint8" false false "" "" "" "";
  gf "TargetComponent" false 0 "uint8" false false "" "" "" "";
  gf "ParamId" false 0 "string" false true "" "16" "" "";
  gf "ParamValue" false 0 "string" false true "" "128" "" "";
  gf "ParamType" false 0 "MAV_PARAM_EXT_TYPE" true false "uint8" "" "" ""
].
Definition S181 : gstruct := mkGS "common" "MessageParamExtAck" [
  gf "ParamId" false 0 "string" false true "" "16" "" "";
  gf "ParamValue" false 0 "string" false true "" "128" "" "";
  gf "ParamType" false 0 "MAV_PARAM_EXT_TYPE" true false "uint8" "" "" "";
  gf "ParamResult" false 0 "PARAM_ACK" true false "uint8" "" "" ""
].
Definition S182 : gstruct := mkGS "common" "MessageObstacleDistance" [
  gf "TimeUsec" false 0 "uint64" true false "" "" "" "";
  gf "SensorType" false 0 "MAV_DISTANCE_SENSOR" true false "uint8" "" "" "";
  gf "Distances" true 72 "uint16" false false "" "" "" "";
  gf "Increment" false 0 "uint8" false false "" "" "" "";
  gf "MinDistance" false 0 "uint16" false false "" "" "" "";
  gf "MaxDistance" false 0 "uint16" false false "" "" "" "";
  gf "IncrementF" false 0 "float32" false false "" "" "true" "";
  gf "AngleOffset" false 0 "float32" false false "" "" "true" "";
  gf "Frame" false 0 "MAV_FRAME" true false "uint8" "" "true" ""
].
Definition S183 : gstruct := mkGS "common" "MessageOdometry" [
  gf "TimeUsec" false 0 "uint64" true false "" "" "" "";
  gf "FrameId" false 0 "MAV_FRAME" true false "uint8" "" "" "";
  gf "ChildFrameId" false 0 "MAV_FRAME" true false "uint8" "" "" "";
  gf "X" false 0 "float32" false false "" "" "" "";
  gf "Y" false 0 "float32" false false "" "" "" "";
  gf "Z" false 0 "float32" false false "" "" "" "";
  gf "Q" true 4 "float32" false false "" "" "" "";
  gf "Vx" false 0 "float32" false false "" "" "" "";
  gf "Vy" false 0 "float32" false false "" "" "" "";
  gf "Vz" false 0 "float32" false false "" "" "" "";
  gf "Rollspeed" false 0 "float32" false false "" "" "" "";
  gf "Pitchspeed" false 0 "float32" false false "" "" "" "";
  gf "Yawspeed" false 0 "float32" false false "" "" "" "";
  gf "PoseCovariance" true 21 "float32" false false "" "" "" "";
  gf "VelocityCovariance" true 21 "float32" false false "" "" "" "";
  gf "ResetCounter" false 0 "uint8" false false "" "" "true" "";
  gf "EstimatorType" false 0 "MAV_ESTIMATOR_TYPE" true false "uint8" "" "true" "";
  gf "Quality" false 0 "int8" false false "" "" "true" ""
].
Definition S184 : gstruct := mkGS "common" "MessageTrajectoryRepresentationWaypoints" [
  gf "TimeUsec" false 0 "uint64" true false "" "" "" "";
  gf "ValidPoints" false 0 "uint8" false false "" "" "" "";
  gf "PosX" true 5 "float32" false false "" "" "" "";
  gf "PosY" true 5 "float32" false false "" "" "" "";
  gf "PosZ" true 5 "float32" false false "" "" "" "";
  gf "VelX" true 5 "float32" false false "" "" "" "";
  gf "VelY" true 5 "float32" false false "" "" "" "";
  gf "VelZ" true 5 "float32" false false "" "" "" "";
  gf "AccX" true 5 "float32" false false "" "" "" "";
  gf "AccY" true 5 "float32" false false "" "" "" "";
  gf "AccZ" true 5 "float32" false false "" "" "" "";
  gf "PosYaw" true 5 "float32" false false "" "" "" "";
  gf "VelYaw" true 5 "float32" false false "" "" "" "";
  gf "Command" true 5 "MAV_CMD" true false "uint16" "" "" ""
].
Definition S185 : gstruct := mkGS "common" "MessageTrajectoryRepresentationBezier" [
  gf "TimeUsec" false 0 "uint64" true false "" "" "" "";
  gf "ValidPoints" false 0 "uint8" false false "" "" "" "";
  gf "PosX" true 5 "float32" false false "" "" "" "";
  gf "PosY" true 5 "float32" false false "" "" "" "";
  gf "PosZ" true 5 "float32" false false "" "" "" "";
  gf "Delta" true 5 "float32" false false "" "" "" "";
  gf "PosYaw" true 5 "float32" false false "" "" "" ""
].
Definition S186 : gstruct := mkGS "common" "MessageCellularStatus" [
  gf "Status" false 0 "CELLULAR_STATUS_FLAG" true false "uint8" "" "" "";
  gf "FailureReason" false 0 "CELLULAR_NETWORK_FAILED_REASON" true false "uint8" "" "" "";
  gf "Type" false 0 "CELLULAR_NETWORK_RADIO_TYPE" true false "uint8" "" "" "";
  gf "Quality" false 0 "uint8" false false "" "" "" "";
  gf "Mcc" false 0 "uint16" false false "" "" "" "";
  gf "Mnc" false 0 "uint16" false false "" "" "" "";
  gf "Lac" false 0 "uint16" false false "" "" "" ""
].
Definition S187 : gstruct := mkGS "common" "MessageIsbdLinkStatus" [
  gf "Timestamp" false 0 "uint64" true false "" "" "" "";
  gf "LastHeartbeat" false 0 "uint64" true false "" "" "" "";
  gf "FailedSessions" false 0 "uint16" false false "" "" "" "";
  gf "SuccessfulSessions" false 0 "uint16" false false "" "" "" "";
  gf "SignalQuality" false 0 "uint8" false false "" "" "" "";
  gf "RingPending" false 0 "uint8" false false "" "" "" "";
  gf "TxSessionPending" false 0 "uint8" false false "" "" "" "";
  gf "RxSessionPending" false 0 "uint8" false false "" "" "" ""
].
Definition S188 : gstruct := mkGS "common" "MessageCellularConfig" [
  gf "EnableLte" false 0 "uint8" false false "" "" "" "";
  gf "EnablePin" false 0 "uint8" false false "" "" "" "";
  gf "Pin" false 0 "string" false true "" "16" "" "";
  gf "NewPin" false 0 "string" false true "" "16" "" "";
  gf "Apn" false 0 "string" false true "" "32" "" "";
  gf "Puk" false 0 "string" false true "" "16" "" "";
  gf "Roaming" false 0 "uint8" false false "" "" "" "";
  gf "Response" false 0 "CELLULAR_CONFIG_RESPONSE" true false "uint8" "" "" ""
].
Definition S189 : gstruct := mkGS "common" "MessageRawRpm" [
  gf "Index" false 0 "uint8" false false "" "" "" "";
  gf "Frequency" false 0 "float32" false false "" "" "" ""
].
Definition S190 : gstruct := mkGS "common" "MessageUtmGlobalPosition" [
  gf "Time" false 0 "uint64" true false "" "" "" "";
  gf "UasId" true 18 "uint8" false false "" "" "" "";
  gf "Lat" false 0 "int32" false false "" "" "" "";
  gf "Lon" false 0 "int32" false false "" "" "" "";
  gf "Alt" false 0 "int32" false false "" "" "" "";
  gf "RelativeAlt" false 0 "int32" false false "" "" "" "";
  gf "Vx" false 0 "int16" false false "" "" "" "";
  gf "Vy" false 0 "int16" false false "" "" "" "";
  gf "Vz" false 0 "int16" false false "" "" "" "";
  gf "HAcc" false 0 "uint16" false false "" "" "" "";
  gf "VAcc" false 0 "uint16" false false "" "" "" "";
  gf "VelAcc" false 0 "uint16" false false "" "" "" "";
  gf "NextLat" false 0 "int32" false false "" "" "" "";
  gf "NextLon" false 0 "int32" false false "" "" "" "";
  gf "NextAlt" false 0 "int32" false false "" "" "" "";
  gf "UpdateRate" false 0 "uint16" false false "" "" "" "";
  gf "FlightState" false 0 "UTM_FLIGHT_STATE" true false "uint8" "" "" "";
  gf "Flags" false 0 "UTM_DATA_AVAIL_FLAGS" true false "uint8" "" "" ""
].
Definition S191 : gstruct := mkGS "common" "MessageDebugFloatArray" [
  gf "TimeUsec" false 0 "uint64" true false "" "" "" "";
  gf "Name" false 0 "string" false true "" "10" "" "";
  gf "ArrayId" false 0 "uint16" false false "" "" "" "";
  gf "Data" true 58 "float32" false false "" "" "true" ""
].
Definition S192 : gstruct := mkGS "common" "MessageOrbitExecutionStatus" [
  gf "TimeUsec" false 0 "uint64" true false "" "" "" "";
  gf "Radius" false 0 "float32" false false "" "" "" "";
  gf "Frame" false 0 "MAV_FRAME" true false "uint8" "" "" "";
  gf "X" false 0 "int32" false false "" "" "" "";
  gf "Y" false 0 "int32" false false "" "" "" "";
  gf "Z" false 0 "float32" false false "" "" "" ""
].
Definition S193 : gstruct := mkGS "common" "MessageSmartBatteryInfo" [
  gf "Id" false 0 "uint8" false false "" "" "" "";
  gf "BatteryFunction" false 0 "MAV_BATTERY_FUNCTION" true false "uint8" "" "" "";
  gf "Type" false 0 "MAV_BATTERY_TYPE" true false "uint8" "" "" "";
  gf "CapacityFullSpecification" false 0 "int32" false false "" "" "" "";
  gf "CapacityFull" false 0 "int32" false false "" "" "" "";
  gf "CycleCount" false 0 "uint16" false false "" "" "" "";
  gf "SerialNumber" false 0 "string" false true "" "16" "" "";
  gf "DeviceName" false 0 "string" false true "" "50" "" "";
  gf "Weight" false 0 "uint16" false false "" "" "" "";
  gf "DischargeMinimumVoltage" false 0 "uint16" false false "" "" "" "";
  gf "ChargingMinimumVoltage" false 0 "uint16" false false "" "" "" "";
  gf "RestingMinimumVoltage" false 0 "uint16" false false "" "" "" "";
  gf "ChargingMaximumVoltage" false 0 "uint16" false false "" "" "true" "";
  gf "CellsInSeries" false 0 "uint8" false false "" "" "true" "";
  gf "DischargeMaximumCurrent" false 0 "uint32" false false "" "" "true" "";
  gf "DischargeMaximumBurstCurrent" false 0 "uint32" false false "" "" "true" "";
  gf "ManufactureDate" false 0 "string" false true "" "11" "true" ""
].
Definition S194 : gstruct := mkGS "common" "MessageFuelStatus" [
  gf "Id" false 0 "uint8" false false "" "" "" "";
  gf "MaximumFuel" false 0 "float32" false false "" "" "" "";
  gf "ConsumedFuel" false 0 "float32" false false "" "" "" "";
  gf "RemainingFuel" false 0 "float32" false false "" "" "" "";
  gf "PercentRemaining" false 0 "uint8" false false "" "" "" "";
  gf "FlowRate" false 0 "float32" false false "" "" "" "";
  gf "Temperature" false 0 "float32" false false "" "" "" "";
  gf "FuelType" false 0 "MAV_FUEL_TYPE" true false "uint32" "" "" ""
].
Definition S195 : gstruct := mkGS "common" "MessageBatteryInfo" [
  gf "Id" false 0 "uint8" false false "" "" "" "";
  gf "BatteryFunction" false 0 "MAV_BATTERY_FUNCTION" true false "uint8" "" "" "";
  gf "Type" false 0 "MAV_BATTERY_TYPE" true false "uint8" "" "" "";
  gf "StateOfHealth" false 0 "uint8" false false "" "" "" "";
  gf "CellsInSeries" false 0 "uint8" false false "" "" "" "";
  gf "CycleCount" false 0 "uint16" false false "" "" "" "";
  gf "Weight" false 0 "uint16" false false "" "" "" "";
  gf "DischargeMinimumVoltage" false 0 "float32" false false "" "" "" "";
  gf "ChargingMinimumVoltage" false 0 "float32" false false "" "" "" "";
  gf "RestingMinimumVoltage" false 0 "float32" false false "" "" "" "";
  gf "ChargingMaximumVoltage" false 0 "float32" false false "" "" "" "";
  gf "ChargingMaximumCurrent" false 0 "float32" false false "" "" "" "";
  gf "NominalVoltage" false 0 "float32" false false "" "" "" "";
  gf "DischargeMaximumCurrent" false 0 "float32" false false "" "" "" "";
  gf "DischargeMaximumBurstCurrent" false 0 "float32" false false "" "" "" "";
  gf "DesignCapacity" false 0 "float32" false false "" "" "" "";
  gf "FullChargeCapacity" false 0 "float32" false false "" "" "" "";
  gf "ManufactureDate" false 0 "string" false true "" "9" "" "";
  gf "SerialNumber" false 0 "string" false true "" "32" "" "";
  gf "Name" false 0 "string" false true "" "50" "" ""
].
Definition S196 : gstruct := mkGS "common" "MessageGeneratorStatus" [
  gf "Status" false 0 "MAV_GENERATOR_STATUS_FLAG" true false "uint64" "" "" "";
  gf "GeneratorSpeed" false 0 "uint16" false false "" "" "" "";
  gf "BatteryCurrent" false 0 "float32" false false "" "" "" "";
  gf "LoadCurrent" false 0 "float32" false false "" "" "" "";
  gf "PowerGenerated" false 0 "float32" false false "" "" "" "";
  gf "BusVoltage" false 0 "float32" false false "" "" "" "";
  gf "RectifierTemperature" false 0 "int16" false false "" "" "" "";
  gf "BatCurrentSetpoint" false 0 "float32" false false "" "" "" "";
  gf "GeneratorTemperature" false 0 "int16" false false "" "" "" "";
  gf "Runtime" false 0 "uint32" false false "" "" "" "";
  gf "TimeUntilMaintenance" false 0 "int32" false false "" "" "" ""
].
Definition S197 : gstruct := mkGS "common" "MessageActuatorOutputStatus" [
  gf "TimeUsec" false 0 "uint64" true false "" "" "" "";
  gf "Active" false 0 "uint32" false false "" "" "" "";
  gf "Actuator" true 32 "float32" false false "" "" "" ""
].
Definition S198 : gstruct := mkGS "common" "MessageTimeEstimateToTarget" [
  gf "SafeReturn" false 0 "int32" false false "" "" "" "";
  gf "Land" false 0 "int32" false false "" "" "" "";
  gf "MissionNextItem" false 0 "int32" false false "" "" "" "";
  gf "MissionEnd" false 0 "int32" false false "" "" "" "";
  gf "CommandedAction" false 0 "int32" false false "" "" "" ""
].
Definition S199 : gstruct := mkGS "common" "MessageTunnel" [
  gf "TargetSystem" false 0 "uint8" false false "" "" "" "";
  gf "TargetComponent" false 0 "uint8" false false "" "" "" "";
  gf "PayloadType" false 0 "MAV_TUNNEL_PAYLOAD_TYPE" true false "uint16" "" "" "";
  gf "PayloadLength" false 0 "uint8" false false "" "" "" "";
  gf "Payload" true 128 "uint8" false false "" "" "" ""
].
Definition S200 : gstruct := mkGS "common" "MessageCanFrame" [
  gf "TargetSystem" false 0 "uint8" false false "" "" "" "";
  gf "TargetComponent" false 0 "uint8" false false "" "" "" "";
  gf "Bus" false 0 "uint8" false false "" "" "" "";
  gf "Len" false 0 "uint8" false false "" "" "" "";
  gf "Id" false 0 "uint32" false false "" "" "" "";
  gf "Data" true 8 "uint8" false false "" "" "" ""
].
Definition S201 : gstruct := mkGS "common" "MessageOnboardComputerStatus" [
  gf "TimeUsec" false 0 "uint64" true false "" "" "" "";
  gf "Uptime" false 0 "uint32" false false "" "" "" "";
  gf "Type" false 0 "uint8" false false "" "" "" "";
  gf "CpuCores" true 8 "uint8" false false "" "" "" "";
  gf "CpuCombined" true 10 "uint8" false false "" "" "" "";
  gf "GpuCores" true 4 "uint8" false false "" "" "" "";
  gf "GpuCombined" true 10 "uint8" false false "" "" "" "";
  gf "TemperatureBoard" false 0 "int8" false false "" "" "" "";
  gf "TemperatureCore" true 8 "int8" false false "" "" "" "";
  gf "FanSpeed" true 4 "int16" false false "" "" "" "";
  gf "RamUsage" false 0 "uint32" false false "" "" "" "";
  gf "RamTotal" false 0 "uint32" false false "" "" "" "";
  gf "StorageType" true 4 "uint32" false false "" "" "" "";
  gf "StorageUsage" true 4 "uint32" false false "" "" "" "";
  gf "StorageTotal" true 4 "uint32" false false "" "" "" "";
  gf "LinkType" true 6 "uint32" false false "" "" "" "";
  gf "LinkTxRate" true 6 "uint32" false false "" "" "" "";
  gf "LinkRxRate" true 6 "uint32" false false "" "" "" "";
  gf "LinkTxMax" true 6 "uint32" false false "" "" "" "";
  gf "LinkRxMax" true 6 "uint32" false false "" "" "" ""
].
Definition S202 : gstruct := mkGS "common" "MessageComponentInformation" [
  gf "TimeBootMs" false 0 "uint32" false false "" "" "" "";
  gf "GeneralMetadataFileCrc" false 0 "uint32" false false "" "" "" "";
  gf "GeneralMetadataUri" false 0 "string" false true "" "100" "" "";
  gf "PeripheralsMetadataFileCrc" false 0 "uint32" false false "" "" "" "";
  gf "PeripheralsMetadataUri" false 0 "string" false true "" "100" "" ""
].
Definition S203 : gstruct := mkGS "common" "MessageComponentInformationBasic" [
  gf "TimeBootMs" false 0 "uint32" false false "" "" "" "";
  gf "Capabilities" false 0 "MAV_PROTOCOL_CAPABILITY" true false "uint64" "" "" "";
  gf "TimeManufactureS" false 0 "uint32" false false "" "" "" "";
  gf "VendorName" false 0 "string" false true "" "32" "" "";
  gf "ModelName" false 0 "string" false true "" "32" "" "";
  gf "SoftwareVersion" false 0 "string" false true "" "24" "" "";
  gf "HardwareVersion" false 0 "string" false true "" "24" "" "";
  gf "SerialNumber" false 0 "string" false true "" "32" "" ""
].
Definition S204 : gstruct := mkGS "common" "MessageComponentMetadata" [
  gf "TimeBootMs" false 0 "uint32" false false "" "" "" "";
  gf "FileCrc" false 0 "uint32" false false "" "" "" "";
  gf "Uri" false 0 "string" false true "" "100" "" ""
].
Definition S205 : gstruct := mkGS "common" "MessagePlayTuneV2" [
  gf "TargetSystem" false 0 "uint8" false false "" "" "" "";
  gf "TargetComponent" false 0 "uint8" false false "" "" "" "";
  gf "Format" false 0 "TUNE_FORMAT" true false "uint32" "" "" "";
  gf "Tune" false 0 "string" false true "" "248" "" ""
].
Definition S206 : gstruct := mkGS "common" "MessageSupportedTunes" [
  gf "TargetSystem" false 0 "uint8" false false "" "" "" "";
  gf "TargetComponent" false 0 "uint8" false false "" "" "" "";
  gf "Format" false 0 "TUNE_FORMAT" true false "uint32" "" "" ""
].
Definition S207 : gstruct := mkGS "common" "MessageEvent" [
  gf "DestinationComponent" false 0 "uint8" false false "" "" "" "";
  gf "DestinationSystem" false 0 "uint8" false false "" "" "" "";
  gf "Id" false 0 "uint32" false false "" "" "" "";
  gf "EventTimeBootMs" false 0 "uint32" false false "" "" "" "";
  gf "Sequence" false 0 "uint16" false false "" "" "" "";
  gf "LogLevels" false 0 "uint8" false false "" "" "" "";
  gf "Arguments" true 40 "uint8" false false "" "" "" ""
].
Definition S208 : gstruct := mkGS "common" "MessageCurrentEventSequence" [
  gf "Sequence" false 0 "uint16" false false "" "" "" "";
  gf "Flags" false 0 "MAV_EVENT_CURRENT_SEQUENCE_FLAGS" true false "uint8" "" "" ""
].
Definition S209 : gstruct := mkGS "common" "MessageRequestEvent" [
  gf "TargetSystem" false 0 "uint8" false false "" "" "" "";
  gf "TargetComponent" false 0 "uint8" false false "" "" "" "";
  gf "FirstSequence" false 0 "uint16" false false "" "" "" "";
  gf "LastSequence" false 0 "uint16" false false "" "" "" ""
].
Definition S210 : gstruct := mkGS "common" "MessageResponseEventError" [
  gf "TargetSystem" false 0 "uint8" false false "" "" "" "";
  gf "TargetComponent" false 0 "uint8" false false "" "" "" "";
  gf "Sequence" false 0 "uint16" false false "" "" "" "";
  gf "SequenceOldestAvailable" false 0 "uint16" false false "" "" "" "";
  gf "Reason" false 0 "MAV_EVENT_ERROR_REASON" true false "uint8" "" "" ""
].
Definition S211 : gstruct := mkGS "common" "MessageAvailableModes" [
  gf "NumberModes" false 0 "uint8" false false "" "" "" "";
  gf "ModeIndex" false 0 "uint8" false false "" "" "" "";
  gf "StandardMode" false 0 "MAV_STANDARD_MODE" true false "uint8" "" "" "";
  gf "CustomMode" false 0 "uint32" false false "" "" "" "";
  gf "Properties" false 0 "MAV_MODE_PROPERTY" true false "uint32" "" "" "";
  gf "ModeName" false 0 "string" false true "" "35" "" ""
].
Definition S212 : gstruct := mkGS "common" "MessageCurrentMode" [
  gf "StandardMode" false 0 "MAV_STANDARD_MODE" true false "uint8" "" "" "";
  gf "CustomMode" false 0 "uint32" false false "" "" "" "";
  gf "IntendedCustomMode" false 0 "uint32" false false "" "" "" ""
].
Definition S213 : gstruct := mkGS "common" "MessageAvailableModesMonitor" [
  gf "Seq" false 0 "uint8" false false "" "" "" ""
].
Definition S214 : gstruct := mkGS "common" "MessageIlluminatorStatus" [
  gf "UptimeMs" false 0 "uint32" false false "" "" "" "";
  gf "Enable" false 0 "uint8" false false "" "" "" "";
  gf "ModeBitmask" false 0 "ILLUMINATOR_MODE" true false "uint8" "" "" "";
  gf "ErrorStatus" false 0 "ILLUMINATOR_ERROR_FLAGS" true false "uint32" "" "" "";
  gf "Mode" false 0 "ILLUMINATOR_MODE" true false "uint8" "" "" "";
  gf "Brightness" false 0 "float32" false false "" "" "" "";
  gf "StrobePeriod" false 0 "float32" false false "" "" "" "";
  gf "StrobeDutyCycle" false 0 "float32" false false "" "" "" "";
  gf "TempC" false 0 "float32" false false "" "" "" "";
  gf "MinStrobePeriod" false 0 "float32" false false "" "" "" "";
  gf "MaxStrobePeriod" false 0 "float32" false false "" "" "" ""
].
Definition S215 : gstruct := mkGS "common" "MessageCanfdFrame" [
  gf "TargetSystem" false 0 "uint8" false false "" "" "" "";
  gf "TargetComponent" false 0 "uint8" false false "" "" "" "";
  gf "Bus" false 0 "uint8" false false "" "" "" "";
  gf "Len" false 0 "uint8" false false "" "" "" "";
  gf "Id" false 0 "uint32" false false "" "" "" "";
  gf "Data" true 64 "uint8" false false "" "" "" ""
].
Definition S216 : gstruct := mkGS "common" "MessageCanFilterModify" [
  gf "TargetSystem" false 0 "uint8" false false "" "" "" "";
  gf "TargetComponent" false 0 "uint8" false false "" "" "" "";
  gf "Bus" false 0 "uint8" false false "" "" "" "";
  gf "Operation" false 0 "CAN_FILTER_OP" true false "uint8" "" "" "";
  gf "NumIds" false 0 "uint8" false false "" "" "" "";
  gf "Ids" true 16 "uint16" false false "" "" "" ""
].
Definition S217 : gstruct := mkGS "common" "MessageWheelDistance" [
  gf "TimeUsec" false 0 "uint64" true false "" "" "" "";
  gf "Count" false 0 "uint8" false false "" "" "" "";
  gf "Distance" true 16 "float64" false false "" "" "" ""
].
Definition S218 : gstruct := mkGS "common" "MessageWinchStatus" [
  gf "TimeUsec" false 0 "uint64" true false "" "" "" "";
  gf "LineLength" false 0 "float32" false false "" "" "" "";
  gf "Speed" false 0 "float32" false false "" "" "" "";
  gf "Tension" false 0 "float32" false false "" "" "" "";
  gf "Voltage" false 0 "float32" false false "" "" "" "";
  gf "Current" false 0 "float32" false false "" "" "" "";
  gf "Temperature" false 0 "int16" false false "" "" "" "";
  gf "Status" false 0 "MAV_WINCH_STATUS_FLAG" true false "uint32" "" "" ""
].
Definition S219 : gstruct := mkGS "common" "MessageOpenDroneIdBasicId" [
  gf "TargetSystem" false 0 "uint8" false false "" "" "" "";
  gf "TargetComponent" false 0 "uint8" false false "" "" "" "";
  gf "IdOrMac" true 20 "uint8" false false "" "" "" "";
  gf "IdType" false 0 "MAV_ODID_ID_TYPE" true false "uint8" "" "" "";
  gf "UaType" false 0 "MAV_ODID_UA_TYPE" true false "uint8" "" "" "";
  gf "UasId" true 20 "uint8" false false "" "" "" ""
].
Definition S220 : gstruct := mkGS "common" "MessageOpenDroneIdLocation" [
  gf "TargetSystem" false 0 "uint8" false false "" "" "" "";
  gf "TargetComponent" false 0 "uint8" false false "" "" "" "";
  gf "IdOrMac" true 20 "uint8" false false "" "" "" "";
  gf "Status" false 0 "MAV_ODID_STATUS" true false "uint8" "" "" "";
  gf "Direction" false 0 "uint16" false false "" "" "" "";
  gf "SpeedHorizontal" false 0 "uint16" false false "" "" "" "";
  gf "SpeedVertical" false 0 "int16" false false "" "" "" "";
  gf "Latitude" false 0 "int32" false false "" "" "" "";
  gf "Longitude" false 0 "int32" false false "" "" "" "";
  gf "AltitudeBarometric" false 0 "float32" false false "" "" "" "";
  gf "AltitudeGeodetic" false 0 "float32" false false "" "" "" "";
  gf "HeightReference" false 0 "MAV_ODID_HEIGHT_REF" true false "uint8" "" "" "";
  gf "Height" false 0 "float32" false false "" "" "" "";
  gf "HorizontalAccuracy" false 0 "MAV_ODID_HOR_ACC" true false "uint8" "" "" "";
  gf "VerticalAccuracy" false 0 "MAV_ODID_VER_ACC" true false "uint8" "" "" "";
  gf "BarometerAccuracy" false 0 "MAV_ODID_VER_ACC" true false "uint8" "" "" "";
  gf "SpeedAccuracy" false 0 "MAV_ODID_SPEED_ACC" true false "uint8" "" "" "";
  gf "Timestamp" false 0 "float32" false false "" "" "" "";
  gf "TimestampAccuracy" false 0 "MAV_ODID_TIME_ACC" true false "uint8" "" "" ""
].
Definition S221 : gstruct := mkGS "common" "MessageOpenDroneIdAuthentication" [
  gf "TargetSystem" false 0 "uint8" false false "" "" "" "";
  gf "TargetComponent" false 0 "uint8" false false "" "" "" "";
  gf "IdOrMac" true 20 "uint8" false false "" "" "" "";
  gf "AuthenticationType" false 0 "MAV_ODID_AUTH_TYPE" true false "uint8" "" "" "";
  gf "DataPage" false 0 "uint8" false false "" "" "" "";
  gf "LastPageIndex" false 0 "uint8" false false "" "" "" "";
  gf "Length" false 0 "uint8" false false "" "" "" "";
  gf "Timestamp" false 0 "uint32" false false "" "" "" "";
  gf "AuthenticationData" true 23 "uint8" false false "" "" "" ""
].
Definition S222 : gstruct := mkGS "common" "MessageOpenDroneIdSelfId" [
  gf "TargetSystem" false 0 "uint8" false false "" "" "" "";
  gf "TargetComponent" false 0 "uint8" false false "" "" "" "";
  gf "IdOrMac" true 20 "uint8" false false "" "" "" "";
  gf "DescriptionType" false 0 "MAV_ODID_DESC_TYPE" true false "uint8" "" "" "";
  gf "Description" false 0 "string" false true "" "23" "" ""
].
Definition S223 : gstruct := mkGS "common" "MessageOpenDroneIdSystem" [
  gf "TargetSystem" false 0 "uint8" false false "" "" "" "";
  gf "TargetComponent" false 0 "uint8" false false "" "" "" "";
  gf "IdOrMac" true 20 "uint8" false false "" "" "" "";
  gf "OperatorLocationType" false 0 "MAV_ODID_OPERATOR_LOCATION_TYPE" true false "uint8" "" "" "";
  gf "ClassificationType" false 0 "MAV_ODID_CLASSIFICATION_TYPE" true false "uint8" "" "" "";
  gf "OperatorLatitude" false 0 "int32" false false "" "" "" "";
  gf "OperatorLongitude" false 0 "int32" false false "" "" "" "";
  gf "AreaCount" false 0 "uint16" false false "" "" "" "";
  gf "AreaRadius" false 0 "uint16" false false "" "" "" "";
  gf "AreaCeiling" false 0 "float32" false false "" "" "" "";
  gf "AreaFloor" false 0 "float32" false false "" "" "" "";
  gf "CategoryEu" false 0 "MAV_ODID_CATEGORY_EU" true false "uint8" "" "" "";
  gf "ClassEu" false 0 "MAV_ODID_CLASS_EU" true false "uint8" "" "" "";
  gf "OperatorAltitudeGeo" false 0 "float32" false false "" "" "" "";
  gf "Timestamp" false 0 "uint32" false false "" "" "" ""
].
Definition S224 : gstruct := mkGS "common" "MessageOpenDroneIdOperatorId" [
  gf "TargetSystem" false 0 "uint8" false false "" "" "" "";
  gf "TargetComponent" false 0 "uint8" false false "" "" "" "";
  gf "IdOrMac" true 20 "uint8" false false "" "" "" "";
  gf "OperatorIdType" false 0 "MAV_ODID_OPERATOR_ID_TYPE" true false "uint8" "" "" "";
  gf "OperatorId" false 0 "string" false true "" "20" "" ""
].
Definition S225 : gstruct := mkGS "common" "MessageOpenDroneIdMessagePack" [
  gf "TargetSystem" false 0 "uint8" false false "" "" "" "";
  gf "TargetComponent" false 0 "uint8" false false "" "" "" "";
  gf "IdOrMac" true 20 "uint8" false false "" "" "" "";
  gf "SingleMessageSize" false 0 "uint8" false false "" "" "" "";
  gf "MsgPackSize" false 0 "uint8" false false "" "" "" "";
  gf "Messages" true 225 "uint8" false false "" "" "" ""
].
Definition S226 : gstruct := mkGS "common" "MessageOpenDroneIdArmStatus" [
  gf "Status" false 0 "MAV_ODID_ARM_STATUS" true false "uint8" "" "" "";
  gf "Error" false 0 "string" false true "" "50" "" ""
].
Definition S227 : gstruct := mkGS "common" "MessageOpenDroneIdSystemUpdate" [
  gf "TargetSystem" false 0 "uint8" false false "" "" "" "";
  gf "TargetComponent" false 0 "uint8" false false "" "" "" "";
  gf "OperatorLatitude" false 0 "int32" false false "" "" "" "";
  gf "OperatorLongitude" false 0 "int32" false false "" "" "" "";
  gf "OperatorAltitudeGeo" false 0 "float32" false false "" "" "" "";
  gf "Timestamp" false 0 "uint32" false false "" "" "" ""
].
Definition S228 : gstruct := mkGS "common" "MessageHygrometerSensor" [
  gf "Id" false 0 "uint8" false false "" "" "" "";
  gf "Temperature" false 0 "int16" false false "" "" "" "";
  gf "Humidity" false 0 "uint16" false false "" "" "" ""
].
Definition S229 : gstruct := mkGS "uavionix" "MessageUavionixAdsbOutCfg" [
  gf "Icao" false 0 "uint32" false false "" "" "" "ICAO";
  gf "Callsign" false 0 "string" false true "" "9" "" "";
  gf "Emittertype" false 0 "ADSB_EMITTER_TYPE" true false "uint8" "" "" "emitterType";
  gf "Aircraftsize" false 0 "UAVIONIX_ADSB_OUT_CFG_AIRCRAFT_SIZE" true false "uint8" "" "" "aircraftSize";
  gf "Gpsoffsetlat" false 0 "UAVIONIX_ADSB_OUT_CFG_GPS_OFFSET_LAT" true false "uint8" "" "" "gpsOffsetLat";
  gf "Gpsoffsetlon" false 0 "UAVIONIX_ADSB_OUT_CFG_GPS_OFFSET_LON" true false "uint8" "" "" "gpsOffsetLon";
  gf "Stallspeed" false 0 "uint16" false false "" "" "" "stallSpeed";
  gf "Rfselect" false 0 "UAVIONIX_ADSB_OUT_RF_SELECT" true false "uint8" "" "" "rfSelect"
].
Definition S230 : gstruct := mkGS "uavionix" "MessageUavionixAdsbOutDynamic" [
  gf "Utctime" false 0 "uint32" false false "" "" "" "utcTime";
  gf "Gpslat" false 0 "int32" false false "" "" "" "gpsLat";
  gf "Gpslon" false 0 "int32" false false "" "" "" "gpsLon";
  gf "Gpsalt" false 0 "int32" false false "" "" "" "gpsAlt";
  gf "Gpsfix" false 0 "UAVIONIX_ADSB_OUT_DYNAMIC_GPS_FIX" true false "uint8" "" "" "gpsFix";
  gf "Numsats" false 0 "uint8" false false "" "" "" "numSats";
  gf "Baroaltmsl" false 0 "int32" false false "" "" "" "baroAltMSL";
  gf "Accuracyhor" false 0 "uint32" false false "" "" "" "accuracyHor";
  gf "Accuracyvert" false 0 "uint16" false false "" "" "" "accuracyVert";
  gf "Accuracyvel" false 0 "uint16" false false "" "" "" "accuracyVel";
  gf "Velvert" false 0 "int16" false false "" "" "" "velVert";
  gf "Velns" false 0 "int16" false false "" "" "" "velNS";
  gf "Velew" false 0 "int16" false false "" "" "" "VelEW";
  gf "Emergencystatus" false 0 "UAVIONIX_ADSB_EMERGENCY_STATUS" true false "uint8" "" "" "emergencyStatus";
  gf "State" false 0 "UAVIONIX_ADSB_OUT_DYNAMIC_STATE" true false "uint16" "" "" "";
  gf "Squawk" false 0 "uint16" false false "" "" "" ""
].
Definition S231 : gstruct := mkGS "uavionix" "MessageUavionixAdsbTransceiverHealthReport" [
  gf "Rfhealth" false 0 "UAVIONIX_ADSB_RF_HEALTH" true false "uint8" "" "" "rfHealth"
].
Definition S232 : gstruct := mkGS "uavionix" "MessageUavionixAdsbOutCfgRegistration" [
  gf "Registration" false 0 "string" false true "" "9" "" ""
].
Definition S233 : gstruct := mkGS "uavionix" "MessageUavionixAdsbOutCfgFlightid" [
  gf "FlightId" false 0 "string" false true "" "9" "" ""
].
Definition S234 : gstruct := mkGS "uavionix" "MessageUavionixAdsbGet" [
  gf "Reqmessageid" false 0 "uint32" false false "" "" "" "ReqMessageId"
].
Definition S235 : gstruct := mkGS "uavionix" "MessageUavionixAdsbOutControl" [
  gf "State" false 0 "UAVIONIX_ADSB_OUT_CONTROL_STATE" true false "uint8" "" "" "";
  gf "Baroaltmsl" false 0 "int32" false false "" "" "" "baroAltMSL";
  gf "Squawk" false 0 "uint16" false false "" "" "" "";
  gf "Emergencystatus" false 0 "UAVIONIX_ADSB_EMERGENCY_STATUS" true false "uint8" "" "" "emergencyStatus";
  gf "FlightId" false 0 "string" false true "" "8" "" "";
  gf "XBit" false 0 "UAVIONIX_ADSB_XBIT" true false "uint8" "" "" ""
].
Definition S236 : gstruct := mkGS "uavionix" "MessageUavionixAdsbOutStatus" [
  gf "State" false 0 "UAVIONIX_ADSB_OUT_STATUS_STATE" true false "uint8" "" "" "";
  gf "Squawk" false 0 "uint16" false false "" "" "" "";
  gf "NicNacp" false 0 "UAVIONIX_ADSB_OUT_STATUS_NIC_NACP" true false "uint8" "" "" "NIC_NACp";
  gf "Boardtemp" false 0 "uint8" false false "" "" "" "boardTemp";
  gf "Fault" false 0 "UAVIONIX_ADSB_OUT_STATUS_FAULT" true false "uint8" "" "" "";
  gf "FlightId" false 0 "string" false true "" "8" "" ""
].
Definition S237 : gstruct := mkGS "icarous" "MessageIcarousHeartbeat" [
  gf "Status" false 0 "ICAROUS_FMS_STATE" true false "uint8" "" "" ""
].
Definition S238 : gstruct := mkGS "icarous" "MessageIcarousKinematicBands" [
  gf "Numbands" false 0 "int8" false false "" "" "" "numBands";
  gf "Type1" false 0 "ICAROUS_TRACK_BAND_TYPES" true false "uint8" "" "" "";
  gf "Min1" false 0 "float32" false false "" "" "" "";
  gf "Max1" false 0 "float32" false false "" "" "" "";
  gf "Type2" false 0 "ICAROUS_TRACK_BAND_TYPES" true false "uint8" "" "" "";
  gf "Min2" false 0 "float32" false false "" "" "" "";
  gf "Max2" false 0 "float32" false false "" "" "" "";
  gf "Type3" false 0 "ICAROUS_TRACK_BAND_TYPES" true false "uint8" "" "" "";
  gf "Min3" false 0 "float32" false false "" "" "" "";
  gf "Max3" false 0 "float32" false false "" "" "" "";
  gf "Type4" false 0 "ICAROUS_TRACK_BAND_TYPES" true false "uint8" "" "" "";
  gf "Min4" false 0 "float32" false false "" "" "" "";
  gf "Max4" false 0 "float32" false false "" "" "" "";
  gf "Type5" false 0 "ICAROUS_TRACK_BAND_TYPES" true false "uint8" "" "" "";
  gf "Min5" false 0 "float32" false false "" "" "" "";
  gf "Max5" false 0 "float32" false false "" "" "" ""
].
Definition S239 : gstruct := mkGS "loweheiser" "MessageLoweheiserGovEfi" [
  gf "VoltBatt" false 0 "float32" false false "" "" "" "";
  gf "CurrBatt" false 0 "float32" false false "" "" "" "";
  gf "CurrGen" false 0 "float32" false false "" "" "" "";
  gf "CurrRot" false 0 "float32" false false "" "" "" "";
  gf "FuelLevel" false 0 "float32" false false "" "" "" "";
  gf "Throttle" false 0 "float32" false false "" "" "" "";
  gf "Runtime" false 0 "uint32" false false "" "" "" "";
  gf "UntilMaintenance" false 0 "int32" false false "" "" "" "";
  gf "RectifierTemp" false 0 "float32" false false "" "" "" "";
  gf "GeneratorTemp" false 0 "float32" false false "" "" "" "";
  gf "EfiBatt" false 0 "float32" false false "" "" "" "";
  gf "EfiRpm" false 0 "float32" false false "" "" "" "";
  gf "EfiPw" false 0 "float32" false false "" "" "" "";
  gf "EfiFuelFlow" false 0 "float32" false false "" "" "" "";
  gf "EfiFuelConsumed" false 0 "float32" false false "" "" "" "";
  gf "EfiBaro" false 0 "float32" false false "" "" "" "";
  gf "EfiMat" false 0 "float32" false false "" "" "" "";
  gf "EfiClt" false 0 "float32" false false "" "" "" "";
  gf "EfiTps" false 0 "float32" false false "" "" "" "";
  gf "EfiExhaustGasTemperature" false 0 "float32" false false "" "" "" "";
  gf "EfiIndex" false 0 "uint8" false false "" "" "" "";
  gf "GeneratorStatus" false 0 "uint16" false false "" "" "" "";
  gf "EfiStatus" false 0 "uint16" false false "" "" "" ""
].
Definition S240 : gstruct := mkGS "cubepilot" "MessageCubepilotRawRc" [
  gf "RcRaw" true 32 "uint8" false false "" "" "" ""
].
Definition S241 : gstruct := mkGS "cubepilot" "MessageHerelinkVideoStreamInformation" [
  gf "CameraId" false 0 "uint8" false false "" "" "" "";
  gf "Status" false 0 "uint8" false false "" "" "" "";
  gf "Framerate" false 0 "float32" false false "" "" "" "";
  gf "ResolutionH" false 0 "uint16" false false "" "" "" "";
  gf "ResolutionV" false 0 "uint16" false false "" "" "" "";
  gf "Bitrate" false 0 "uint32" false false "" "" "" "";
  gf "Rotation" false 0 "uint16" false false "" "" "" "";
  gf "Uri" false 0 "string" false true "" "230" "" ""
].
Definition S242 : gstruct := mkGS "cubepilot" "MessageHerelinkTelem" [
  gf "Rssi" false 0 "uint8" false false "" "" "" "";
  gf "Snr" false 0 "int16" false false "" "" "" "";
  gf "RfFreq" false 0 "uint32" false false "" "" "" "";
  gf "LinkBw" false 0 "uint32" false false "" "" "" "";
  gf "LinkRate" false 0 "uint32" false false "" "" "" "";
  gf "CpuTemp" false 0 "int16" false false "" "" "" "";
  gf "BoardTemp" false 0 "int16" false false "" "" "" ""
].
Definition S243 : gstruct := mkGS "cubepilot" "MessageCubepilotFirmwareUpdateStart" [
  gf "TargetSystem" false 0 "uint8" false false "" "" "" "";
  gf "TargetComponent" false 0 "uint8" false false "" "" "" "";
  gf "Size" false 0 "uint32" false false "" "" "" "";
  gf "Crc" false 0 "uint32" false false "" "" "" ""
].
Definition S244 : gstruct := mkGS "cubepilot" "MessageCubepilotFirmwareUpdateResp" [
  gf "TargetSystem" false 0 "uint8" false false "" "" "" "";
  gf "TargetComponent" false 0 "uint8" false false "" "" "" "";
  gf "Offset" false 0 "uint32" false false "" "" "" ""
].
Definition S245 : gstruct := mkGS "csairlink" "MessageAirlinkAuth" [
  gf "Login" false 0 "string" false true "" "50" "" "";
  gf "Password" false 0 "string" false true "" "50" "" ""
].
Definition S246 : gstruct := mkGS "csairlink" "MessageAirlinkAuthResponse" [
  gf "RespType" false 0 "AIRLINK_AUTH_RESPONSE_TYPE" true false "uint8" "" "" ""
].
Definition S247 : gstruct := mkGS "csairlink" "MessageAirlinkEyeGsHolePushRequest" [
  gf "RespType" false 0 "AIRLINK_EYE_GS_HOLE_PUSH_RESP_TYPE" true false "uint8" "" "" ""
].
Definition S248 : gstruct := mkGS "csairlink" "MessageAirlinkEyeGsHolePushResponse" [
  gf "RespType" false 0 "AIRLINK_EYE_GS_HOLE_PUSH_RESP_TYPE" true false "uint8" "" "" "";
  gf "IpVersion" false 0 "AIRLINK_EYE_IP_VERSION" true false "uint8" "" "" "";
  gf "IpAddress_4" true 4 "uint8" false false "" "" "" "";
  gf "IpAddress_6" true 16 "uint8" false false "" "" "" "";
  gf "IpPort" false 0 "uint32" false false "" "" "" ""
].
Definition S249 : gstruct := mkGS "csairlink" "MessageAirlinkEyeHp" [
  gf "RespType" false 0 "AIRLINK_EYE_HOLE_PUSH_TYPE" true false "uint8" "" "" ""
].
Definition S250 : gstruct := mkGS "csairlink" "MessageAirlinkEyeTurnInit" [
  gf "RespType" false 0 "AIRLINK_EYE_TURN_INIT_TYPE" true false "uint8" "" "" ""
].
Definition S251 : gstruct := mkGS "ardupilotmega" "MessageSensorOffsets" [
  gf "MagOfsX" false 0 "int16" false false "" "" "" "";
  gf "MagOfsY" false 0 "int16" false false "" "" "" "";
  gf "MagOfsZ" false 0 "int16" false false "" "" "" "";
  gf "MagDeclination" false 0 "float32" false false "" "" "" "";
  gf "RawPress" false 0 "int32" false false "" "" "" "";
  gf "RawTemp" false 0 "int32" false false "" "" "" "";
  gf "GyroCalX" false 0 "float32" false false "" "" "" "";
  gf "GyroCalY" false 0 "float32" false false "" "" "" "";
  gf "GyroCalZ" false 0 "float32" false false "" "" "" "";
  gf "AccelCalX" false 0 "float32" false false "" "" "" "";
  gf "AccelCalY" false 0 "float32" false false "" "" "" "";
  gf "AccelCalZ" false 0 "float32" false false "" "" "" ""
].
Definition S252 : gstruct := mkGS "ardupilotmega" "MessageSetMagOffsets" [
  gf "TargetSystem" false 0 "uint8" false false "" "" "" "";
  gf "TargetComponent" false 0 "uint8" false false "" "" "" "";
  gf "MagOfsX" false 0 "int16" false false "" "" "" "";
  gf "MagOfsY" false 0 "int16" false false "" "" "" "";
  gf "MagOfsZ" false 0 "int16" false false "" "" "" ""
].
Definition S253 : gstruct := mkGS "ardupilotmega" "MessageMeminfo" [
  gf "Brkval" false 0 "uint16" false false "" "" "" "";
  gf "Freemem" false 0 "uint16" false false "" "" "" "";
  gf "Freemem32" false 0 "uint32" false false "" "" "true" ""
].
Definition S254 : gstruct := mkGS "ardupilotmega" "MessageApAdc" [
  gf "Adc1" false 0 "uint16" false false "" "" "" "";
  gf "Adc2" false 0 "uint16" false false "" "" "" "";
  gf "Adc3" false 0 "uint16" false false "" "" "" "";
  gf "Adc4" false 0 "uint16" false false "" "" "" "";
  gf "Adc5" false 0 "uint16" false false "" "" "" "";
  gf "Adc6" false 0 "uint16" false false "" "" "" ""
].
Definition S255 : gstruct := mkGS "ardupilotmega" "MessageDigicamConfigure" [
  gf "TargetSystem" false 0 "uint8" false false "" "" "" "";
  gf "TargetComponent" false 0 "uint8" false false "" "" "" "";
  gf "Mode" false 0 "uint8" false false "" "" "" "";
  gf "ShutterSpeed" false 0 "uint16" false false "" "" "" "";
  gf "Aperture" false 0 "uint8" false false "" "" "" "";
  gf "Iso" false 0 "uint8" false false "" "" "" "";
  gf "ExposureType" false 0 "uint8" false false "" "" "" "";
  gf "CommandId" false 0 "uint8" false false "" "" "" "";
  gf "EngineCutOff" false 0 "uint8" false false "" "" "" "";
  gf "ExtraParam" false 0 "uint8" false false "" "" "" "";
  gf "ExtraValue" false 0 "float32" false false "" "" "" ""
].
Definition S256 : gstruct := mkGS "ardupilotmega" "MessageDigicamControl" [
  gf "TargetSystem" false 0 "uint8" false false "" "" "" "";
  gf "TargetComponent" false 0 "uint8" false false "" "" "" "";
  gf "Session" false 0 "uint8" false false "" "" "" "";
  gf "ZoomPos" false 0 "uint8" false false "" "" "" "";
  gf "ZoomStep" false 0 "int8" false false "" "" "" "";
  gf "FocusLock" false 0 "uint8" false false "" "" "" "";
  gf "Shot" false 0 "uint8" false false "" "" "" "";
  gf "CommandId" false 0 "uint8" false false "" "" "" "";
  gf "ExtraParam" false 0 "uint8" false false "" "" "" "";
  gf "ExtraValue" false 0 "float32" false false "" "" "" ""
].
Definition S257 : gstruct := mkGS "ardupilotmega" "MessageMountConfigure" [
  gf "TargetSystem" false 0 "uint8" false false "" "" "" "";
  gf "TargetComponent" false 0 "uint8" false false "" "" "" "";
  gf "MountMode" false 0 "MAV_MOUNT_MODE" true false "uint8" "" "" "";
  gf "StabRoll" false 0 "uint8" false false "" "" "" "";
  gf "StabPitch" false 0 "uint8" false false "" "" "" "";
  gf "StabYaw" false 0 "uint8" false false "" "" "" ""
].
Definition S258 : gstruct := mkGS "ardupilotmega" "MessageMountControl" [
  gf "TargetSystem" false 0 "uint8" false false "" "" "" "";
  gf "TargetComponent" false 0 "uint8" false false "" "" "" "";
  gf "InputA" false 0 "int32" false false "" "" "" "";
  gf "InputB" false 0 "int32" false false "" "" "" "";
  gf "InputC" false 0 "int32" false false "" "" "" "";
  gf "SavePosition" false 0 "uint8" false false "" "" "" ""
].
Definition S259 : gstruct := mkGS "ardupilotmega" "MessageMountStatus" [
  gf "TargetSystem" false 0 "uint8" false false "" "" "" "";
  gf "TargetComponent" false 0 "uint8" false false "" "" "" "";
  gf "PointingA" false 0 "int32" false false "" "" "" "";
  gf "PointingB" false 0 "int32" false false "" "" "" "";
  gf "PointingC" false 0 "int32" false false "" "" "" "";
  gf "MountMode" false 0 "MAV_MOUNT_MODE" true false "uint8" "" "true" ""
].
Definition S260 : gstruct := mkGS "ardupilotmega" "MessageFencePoint" [
  gf "TargetSystem" false 0 "uint8" false false "" "" "" "";
  gf "TargetComponent" false 0 "uint8" false false "" "" "" "";
  gf "Idx" false 0 "uint8" false false "" "" "" "";
  gf "Count" false 0 "uint8" false false "" "" "" "";
  gf "Lat" false 0 "float32" false false "" "" "" "";
  gf "Lng" false 0 "float32" false false "" "" "" ""
].
Definition S261 : gstruct := mkGS "ardupilotmega" "MessageFenceFetchPoint" [
  gf "TargetSystem" false 0 "uint8" false false "" "" "" "";
  gf "TargetComponent" false 0 "uint8" false false "" "" "" "";
  gf "Idx" false 0 "uint8" false false "" "" "" ""
].
Definition S262 : gstruct := mkGS "ardupilotmega" "MessageAhrs" [
  gf "Omegaix" false 0 "float32" false false "" "" "" "omegaIx";
  gf "Omegaiy" false 0 "float32" false false "" "" "" "omegaIy";
  gf "Omegaiz" false 0 "float32" false false "" "" "" "omegaIz";
  gf "AccelWeight" false 0 "float32" false false "" "" "" "";
  gf "RenormVal" false 0 "float32" false false "" "" "" "";
  gf "ErrorRp" false 0 "float32" false false "" "" "" "";
  gf "ErrorYaw" false 0 "float32" false false "" "" "" ""
].
Definition S263 : gstruct := mkGS "ardupilotmega" "MessageSimstate" [
  gf "Roll" false 0 "float32" false false "" "" "" "";
  gf "Pitch" false 0 "float32" false false "" "" "" "";
  gf "Yaw" false 0 "float32" false false "" "" "" "";
  gf "Xacc" false 0 "float32" false false "" "" "" "";
  gf "Yacc" false 0 "float32" false false "" "" "" "";
  gf "Zacc" false 0 "float32" false false "" "" "" "";
  gf "Xgyro" false 0 "float32" false false "" "" "" "";
  gf "Ygyro" false 0 "float32" false false "" "" "" "";
  gf "Zgyro" false 0 "float32" false false "" "" "" "";
  gf "Lat" false 0 "int32" false false "" "" "" "";
  gf "Lng" false 0 "int32" false false "" "" "" ""
].
Definition S264 : gstruct := mkGS "ardupilotmega" "MessageHwstatus" [
  gf "Vcc" false 0 "uint16" false false "" "" "" "Vcc";
  gf "I2cerr" false 0 "uint8" false false "" "" "" "I2Cerr"
].
Definition S265 : gstruct := mkGS "ardupilotmega" "MessageRadio" [
  gf "Rssi" false 0 "uint8" false false "" "" "" "";
  gf "Remrssi" false 0 "uint8" false false "" "" "" "";
  gf "Txbuf" false 0 "uint8" false false "" "" "" "";
  gf "Noise" false 0 "uint8" false false "" "" "" "";
  gf "Remnoise" false 0 "uint8" false false "" "" "" "";
  gf "Rxerrors" false 0 "uint16" false false "" "" "" "";
  gf "Fixed" false 0 "uint16" false false "" "" "" ""
].
Definition S266 : gstruct := mkGS "ardupilotmega" "MessageLimitsStatus" [
  gf "LimitsState" false 0 "LIMITS_STATE" true false "uint8" "" "" "";
  gf "LastTrigger" false 0 "uint32" false false "" "" "" "";
  gf "LastAction" false 0 "uint32" false false "" "" "" "";
  gf "LastRecovery" false 0 "uint32" false false "" "" "" "";
  gf "LastClear" false 0 "uint32" false false "" "" "" "";
  gf "BreachCount" false 0 "uint16" false false "" "" "" "";
  gf "ModsEnabled" false 0 "LIMIT_MODULE" true false "uint8" "" "" "";
  gf "ModsRequired" false 0 "LIMIT_MODULE" true false "uint8" "" "" "";
  gf "ModsTriggered" false 0 "LIMIT_MODULE" true false "uint8" "" "" ""
].
Definition S267 : gstruct := mkGS "ardupilotmega" "MessageWind" [
  gf "Direction" false 0 "float32" false false "" "" "" "";
  gf "Speed" false 0 "float32" false false "" "" "" "";
  gf "SpeedZ" false 0 "float32" false false "" "" "" ""
].
Definition S268 : gstruct := mkGS "ardupilotmega" "MessageData16" [
  gf "Type" false 0 "uint8" false false "" "" "" "";
  gf "Len" false 0 "uint8" false false "" "" "" "";
  gf "Data" true 16 "uint8" false false "" "" "" ""
].
Definition S269 : gstruct := mkGS "ardupilotmega" "MessageData32" [
  gf "Type" false 0 "uint8" false false "" "" "" "";
  gf "Len" false 0 "uint8" false false "" "" "" "";
  gf "Data" true 32 "uint8" false false "" "" "" ""
].
Definition S270 : gstruct := mkGS "ardupilotmega" "MessageData64" [
  gf "Type" false 0 "uint8" false false "" "" "" "";
  gf "Len" false 0 "uint8" false false "" "" "" "";
  gf "Data" true 64 "uint8" false false "" "" "" ""
].
Definition S271 : gstruct := mkGS "ardupilotmega" "MessageData96" [
  gf "Type" false 0 "uint8" false false "" "" "" "";
  gf "Len" false 0 "uint8" false false "" "" "" "";
  gf "Data" true 96 "uint8" false false "" "" "" ""
].
Definition S272 : gstruct := mkGS "ardupilotmega" "MessageRangefinder" [
  gf "Distance" false 0 "float32" false false "" "" "" "";
  gf "Voltage" false 0 "float32" false false "" "" "" ""
].
Definition S273 : gstruct := mkGS "ardupilotmega" "MessageAirspeedAutocal" [
  gf "Vx" false 0 "float32" false false "" "" "" "";
  gf "Vy" false 0 "float32" false false "" "" "" "";
  gf "Vz" false 0 "float32" false false "" "" "" "";
  gf "DiffPressure" false 0 "float32" false false "" "" "" "";
  gf "Eas2tas" false 0 "float32" false false "" "" "" "EAS2TAS";
  gf "Ratio" false 0 "float32" false false "" "" "" "";
  gf "StateX" false 0 "float32" false false "" "" "" "";
  gf "StateY" false 0 "float32" false false "" "" "" "";
  gf "StateZ" false 0 "float32" false false "" "" "" "";
  gf "Pax" false 0 "float32" false false "" "" "" "Pax";
  gf "Pby" false 0 "float32" false false "" "" "" "Pby";
  gf "Pcz" false 0 "float32" false false "" "" "" "Pcz"
].
Definition S274 : gstruct := mkGS "ardupilotmega" "MessageRallyPoint" [
  gf "TargetSystem" false 0 "uint8" false false "" "" "" "";
  gf "TargetComponent" false 0 "uint8" false false "" "" "" "";
  gf "Idx" false 0 "uint8" false false "" "" "" "";
  gf "Count" false 0 "uint8" false false "" "" "" "";
  gf "Lat" false 0 "int32" false false "" "" "" "";
  gf "Lng" false 0 "int32" false false "" "" "" "";
  gf "Alt" false 0 "int16" false false "" "" "" "";
  gf "BreakAlt" false 0 "int16" false false "" "" "" "";
  gf "LandDir" false 0 "uint16" false false "" "" "" "";
  gf "Flags" false 0 "RALLY_FLAGS" true false "uint8" "" "" ""
].
Definition S275 : gstruct := mkGS "ardupilotmega" "MessageRallyFetchPoint" [
  gf "TargetSystem" false 0 "uint8" false false "" "" "" "";
  gf "TargetComponent" false 0 "uint8" false false "" "" "" "";
  gf "Idx" false 0 "uint8" false false "" "" "" ""
].
Definition S276 : gstruct := mkGS "ardupilotmega" "MessageCompassmotStatus" [
  gf "Throttle" false 0 "uint16" false false "" "" "" "";
  gf "Current" false 0 "float32" false false "" "" "" "";
  gf "Interference" false 0 "uint16" false false "" "" "" "";
  gf "Compensationx" false 0 "float32" false false "" "" "" "CompensationX";
  gf "Compensationy" false 0 "float32" false false "" "" "" "CompensationY";
  gf "Compensationz" false 0 "float32" false false "" "" "" "CompensationZ"
].
Definition S277 : gstruct := mkGS "ardupilotmega" "MessageAhrs2" [
  gf "Roll" false 0 "float32" false false "" "" "" "";
  gf "Pitch" false 0 "float32" false false "" "" "" "";
  gf "Yaw" false 0 "float32" false false "" "" "" "";
  gf "Altitude" false 0 "float32" false false "" "" "" "";
  gf "Lat" false 0 "int32" false false "" "" "" "";
  gf "Lng" false 0 "int32" false false "" "" "" ""
].
Definition S278 : gstruct := mkGS "ardupilotmega" "MessageCameraStatus" [
  gf "TimeUsec" false 0 "uint64" true false "" "" "" "";
  gf "TargetSystem" false 0 "uint8" false false "" "" "" "";
  gf "CamIdx" false 0 "uint8" false false "" "" "" "";
  gf "ImgIdx" false 0 "uint16" false false "" "" "" "";
  gf "EventId" false 0 "CAMERA_STATUS_TYPES" true false "uint8" "" "" "";
  gf "P1" false 0 "float32" false false "" "" "" "";
  gf "P2" false 0 "float32" false false "" "" "" "";
  gf "P3" false 0 "float32" false false "" "" "" "";
  gf "P4" false 0 "float32" false false "" "" "" ""
].
Definition S279 : gstruct := mkGS "ardupilotmega" "MessageCameraFeedback" [
  gf "TimeUsec" false 0 "uint64" true false "" "" "" "";
  gf "TargetSystem" false 0 "uint8" false false "" "" "" "";
  gf "CamIdx" false 0 "uint8" false false "" "" "" "";
  gf "ImgIdx" false 0 "uint16" false false "" "" "" "";
  gf "Lat" false 0 "int32" false false "" "" "" "";
  gf "Lng" false 0 "int32" false false "" "" "" "";
  gf "AltMsl" false 0 "float32" false false "" "" "" "";
  gf "AltRel" false 0 "float32" false false "" "" "" "";
  gf "Roll" false 0 "float32" false false "" "" "" "";
  gf "Pitch" false 0 "float32" false false "" "" "" "";
  gf "Yaw" false 0 "float32" false false "" "" "" "";
  gf "FocLen" false 0 "float32" false false "" "" "" "";
  gf "Flags" false 0 "CAMERA_FEEDBACK_FLAGS" true false "uint8" "" "" "";
  gf "CompletedCaptures" false 0 "uint16" false false "" "" "true" ""
].
Definition S280 : gstruct := mkGS "ardupilotmega" "MessageBattery2" [
  gf "Voltage" false 0 "uint16" false false "" "" "" "";
  gf "CurrentBattery" false 0 "int16" false false "" "" "" ""
].
Definition S281 : gstruct := mkGS "ardupilotmega" "MessageAhrs3" [
  gf "Roll" false 0 "float32" false false "" "" "" "";
  gf "Pitch" false 0 "float32" false false "" "" "" "";
  gf "Yaw" false 0 "float32" false false "" "" "" "";
  gf "Altitude" false 0 "float32" false false "" "" "" "";
  gf "Lat" false 0 "int32" false false "" "" "" "";
  gf "Lng" false 0 "int32" false false "" "" "" "";
  gf "V1" false 0 "float32" false false "" "" "" "";
  gf "V2" false 0 "float32" false false "" "" "" "";
  gf "V3" false 0 "float32" false false "" "" "" "";
  gf "V4" false 0 "float32" false false "" "" "" ""
].
Definition S282 : gstruct := mkGS "ardupilotmega" "MessageAutopilotVersionRequest" [
  gf "TargetSystem" false 0 "uint8" false false "" "" "" "";
  gf "TargetComponent" false 0 "uint8" false false "" "" "" ""
].
Definition S283 : gstruct := mkGS "ardupilotmega" "MessageRemoteLogDataBlock" [
  gf "TargetSystem" false 0 "uint8" false false "" "" "" "";
  gf "TargetComponent" false 0 "uint8" false false "" "" "" "";
  gf "Seqno" false 0 "MAV_REMOTE_LOG_DATA_BLOCK_COMMANDS" true false "uint32" "" "" "";
  gf "Data" true 200 "uint8" false false "" "" "" ""
].
Definition S284 : gstruct := mkGS "ardupilotmega" "MessageRemoteLogBlockStatus" [
  gf "TargetSystem" false 0 "uint8" false false "" "" "" "";
  gf "TargetComponent" false 0 "uint8" false false "" "" "" "";
  gf "Seqno" false 0 "uint32" false false "" "" "" "";
  gf "Status" false 0 "MAV_REMOTE_LOG_DATA_BLOCK_STATUSES" true false "uint8" "" "" ""
].
Definition S285 : gstruct := mkGS "ardupilotmega" "MessageLedControl" [
  gf "TargetSystem" false 0 "uint8" false false "" "" "" "";
  gf "TargetComponent" false 0 "uint8" false false "" "" "" "";
  gf "Instance" false 0 "uint8" false false "" "" "" "";
  gf "Pattern" false 0 "uint8" false false "" "" "" "";
  gf "CustomLen" false 0 "uint8" false false "" "" "" "";
  gf "CustomBytes" true 24 "uint8" false false "" "" "" ""
].
Definition S286 : gstruct := mkGS "ardupilotmega" "MessageMagCalProgress" [
  gf "CompassId" false 0 "uint8" false false "" "" "" "";
  gf "CalMask" false 0 "uint8" false false "" "" "" "";
  gf "CalStatus" false 0 "MAG_CAL_STATUS" true false "uint8" "" "" "";
  gf "Attempt" false 0 "uint8" false false "" "" "" "";
  gf "CompletionPct" false 0 "uint8" false false "" "" "" "";
  gf "CompletionMask" true 10 "uint8" false false "" "" "" "";
  gf "DirectionX" false 0 "float32" false false "" "" "" "";
  gf "DirectionY" false 0 "float32" false false "" "" "" "";
  gf "DirectionZ" false 0 "float32" false false "" "" "" ""
].
Definition S287 : gstruct := mkGS "ardupilotmega" "MessageEkfStatusReport" [
  gf "Flags" false 0 "EKF_STATUS_FLAGS" true false "uint16" "" "" "";
  gf "VelocityVariance" false 0 "float32" false false "" "" "" "";
  gf "PosHorizVariance" false 0 "float32" false false "" "" "" "";
  gf "PosVertVariance" false 0 "float32" false false "" "" "" "";
  gf "CompassVariance" false 0 "float32" false false "" "" "" "";
  gf "TerrainAltVariance" false 0 "float32" false false "" "" "" "";
  gf "AirspeedVariance" false 0 "float32" false false "" "" "true" ""
].
Definition S288 : gstruct := mkGS "ardupilotmega" "MessagePidTuning" [
  gf "Axis" false 0 "PID_TUNING_AXIS" true false "uint8" "" "" "";
  gf "Desired" false 0 "float32" false false "" "" "" "";
  gf "Achieved" false 0 "float32" false false "" "" "" "";
  gf "Ff" false 0 "float32" false false "" "" "" "FF";
  gf "P" false 0 "float32" false false "" "" "" "P";
  gf "I" false 0 "float32" false false "" "" "" "I";
  gf "D" false 0 "float32" false false "" "" "" "D";
  gf "Srate" false 0 "float32" false false "" "" "true" "SRate";
  gf "Pdmod" false 0 "float32" false false "" "" "true" "PDmod"
].
Definition S289 : gstruct := mkGS "ardupilotmega" "MessageDeepstall" [
  gf "LandingLat" false 0 "int32" false false "" "" "" "";
  gf "LandingLon" false 0 "int32" false false "" "" "" "";
  gf "PathLat" false 0 "int32" false false "" "" "" "";
  gf "PathLon" false 0 "int32" false false "" "" "" "";
  gf "ArcEntryLat" false 0 "int32" false false "" "" "" "";
  gf "ArcEntryLon" false 0 "int32" false false "" "" "" "";
  gf "Altitude" false 0 "float32" false false "" "" "" "";
  gf "ExpectedTravelDistance" false 0 "float32" false false "" "" "" "";
  gf "CrossTrackError" false 0 "float32" false false "" "" "" "";
  gf "Stage" false 0 "DEEPSTALL_STAGE" true false "uint8" "" "" ""
].
Definition S290 : gstruct := mkGS "ardupilotmega" "MessageGimbalReport" [
  gf "TargetSystem" false 0 "uint8" false false "" "" "" "";
  gf "TargetComponent" false 0 "uint8" false false "" "" "" "";
  gf "DeltaTime" false 0 "float32" false false "" "" "" "";
  gf "DeltaAngleX" false 0 "float32" false false "" "" "" "";
  gf "DeltaAngleY" false 0 "float32" false false "" "" "" "";
  gf "DeltaAngleZ" false 0 "float32" false false "" "" "" "";
  gf "DeltaVelocityX" false 0 "float32" false false "" "" "" "";
  gf "DeltaVelocityY" false 0 "float32" false false "" "" "" "";
  gf "DeltaVelocityZ" false 0 "float32" false false "" "" "" "";
  gf "JointRoll" false 0 "float32" false false "" "" "" "";
  gf "JointEl" false 0 "float32" false false "" "" "" "";
  gf "JointAz" false 0 "float32" false false "" "" "" ""
].
Definition S291 : gstruct := mkGS "ardupilotmega" "MessageGimbalControl" [
  gf "TargetSystem" false 0 "uint8" false false "" "" "" "";
  gf "TargetComponent" false 0 "uint8" false false "" "" "" "";
  gf "DemandedRateX" false 0 "float32" false false "" "" "" "";
  gf "DemandedRateY" false 0 "float32" false false "" "" "" "";
  gf "DemandedRateZ" false 0 "float32" false false "" "" "" ""
].
Definition S292 : gstruct := mkGS "ardupilotmega" "MessageGimbalTorqueCmdReport" [
  gf "TargetSystem" false 0 "uint8" false false "" "" "" "";
  gf "TargetComponent" false 0 "uint8" false false "" "" "" "";
  gf "RlTorqueCmd" false 0 "int16" false false "" "" "" "";
  gf "ElTorqueCmd" false 0 "int16" false false "" "" "" "";
  gf "AzTorqueCmd" false 0 "int16" false false "" "" "" ""
].
Definition S293 : gstruct := mkGS "ardupilotmega" "MessageGoproHeartbeat" [
  gf "Status" false 0 "GOPRO_HEARTBEAT_STATUS" true false "uint8" "" "" "";
  gf "CaptureMode" false 0 "GOPRO_CAPTURE_MODE" true false "uint8" "" "" "";
  gf "Flags" false 0 "GOPRO_HEARTBEAT_FLAGS" true false "uint8" "" "" ""
].
Definition S294 : gstruct := mkGS "ardupilotmega" "MessageGoproGetRequest" [
  gf "TargetSystem" false 0 "uint8" false false "" "" "" "";
  gf "TargetComponent" false 0 "uint8" false false "" "" "" "";
  gf "CmdId" false 0 "GOPRO_COMMAND" true false "uint8" "" "" ""
].
Definition S295 : gstruct := mkGS "ardupilotmega" "MessageGoproGetResponse" [
  gf "CmdId" false 0 "GOPRO_COMMAND" true false "uint8" "" "" "";
  gf "Status" false 0 "GOPRO_REQUEST_STATUS" true false "uint8" "" "" "";
  gf "Value" true 4 "uint8" false false "" "" "" ""
].
Definition S296 : gstruct := mkGS "ardupilotmega" "MessageGoproSetRequest" [
  gf "TargetSystem" false 0 "uint8" false false "" "" "" "";
  gf "TargetComponent" false 0 "uint8" false false "" "" "" "";
  gf "CmdId" false 0 "GOPRO_COMMAND" true false "uint8" "" "" "";
  gf "Value" true 4 "uint8" false false "" "" "" ""
].
Definition S297 : gstruct := mkGS "ardupilotmega" "MessageGoproSetResponse" [
  gf "CmdId" false 0 "GOPRO_COMMAND" true false "uint8" "" "" "";
  gf "Status" false 0 "GOPRO_REQUEST_STATUS" true false "uint8" "" "" ""
].
Definition S298 : gstruct := mkGS "ardupilotmega" "MessageRpm" [
  gf "Rpm1" false 0 "float32" false false "" "" "" "";
  gf "Rpm2" false 0 "float32" false false "" "" "" ""
].
Definition S299 : gstruct := mkGS "ardupilotmega" "MessageDeviceOpRead" [
  gf "TargetSystem" false 0 "uint8" false false "" "" "" "";
  gf "TargetComponent" false 0 "uint8" false false "" "" "" "";
  gf "RequestId" false 0 "uint32" false false "" "" "" "";
  gf "Bustype" false 0 "DEVICE_OP_BUSTYPE" true false "uint8" "" "" "";
  gf "Bus" false 0 "uint8" false false "" "" "" "";
  gf "Address" false 0 "uint8" false false "" "" "" "";
  gf "Busname" false 0 "string" false true "" "40" "" "";
  gf "Regstart" false 0 "uint8" false false "" "" "" "";
  gf "Count" false 0 "uint8" false false "" "" "" "";
  gf "Bank" false 0 "uint8" false false "" "" "true" ""
].
Definition S300 : gstruct := mkGS "ardupilotmega" "MessageDeviceOpReadReply" [
  gf "RequestId" false 0 "uint32" false false "" "" "" "";
  gf "Result" false 0 "uint8" false false "" "" "" "";
  gf "Regstart" false 0 "uint8" false false "" "" "" "";
  gf "Count" false 0 "uint8" false false "" "" "" "";
  gf "Data" true 128 "uint8" false false "" "" "" "";
  gf "Bank" false 0 "uint8" false false "" "" "true" ""
].
Definition S301 : gstruct := mkGS "ardupilotmega" "MessageDeviceOpWrite" [
  gf "TargetSystem" false 0 "uint8" false false "" "" "" "";
  gf "TargetComponent" false 0 "uint8" false false "" "" "" "";
  gf "RequestId" false 0 "uint32" false false "" "" "" "";
  gf "Bustype" false 0 "DEVICE_OP_BUSTYPE" true false "uint8" "" "" "";
  gf "Bus" false 0 "uint8" false false "" "" "" "";
  gf "Address" false 0 "uint8" false false "" "" "" "";
  gf "Busname" false 0 "string" false true "" "40" "" "";
  gf "Regstart" false 0 "uint8" false false "" "" "" "";
  gf "Count" false 0 "uint8" false false "" "" "" "";
  gf "Data" true 128 "uint8" false false "" "" "" "";
  gf "Bank" false 0 "uint8" false false "" "" "true" ""
].
Definition S302 : gstruct := mkGS "ardupilotmega" "MessageDeviceOpWriteReply" [
  gf "RequestId" false 0 "uint32" false false "" "" "" "";
  gf "Result" false 0 "uint8" false false "" "" "" ""
].
Definition S303 : gstruct := mkGS "ardupilotmega" "MessageSecureCommand" [
  gf "TargetSystem" false 0 "uint8" false false "" "" "" "";
  gf "TargetComponent" false 0 "uint8" false false "" "" "" "";
  gf "Sequence" false 0 "uint32" false false "" "" "" "";
  gf "Operation" false 0 "SECURE_COMMAND_OP" true false "uint32" "" "" "";
  gf "DataLength" false 0 "uint8" false false "" "" "" "";
  gf "SigLength" false 0 "uint8" false false "" "" "" "";
  gf "Data" true 220 "uint8" false false "" "" "" ""
].
Definition S304 : gstruct := mkGS "ardupilotmega" "MessageSecureCommandReply" [
  gf "Sequence" false 0 "uint32" false false "" "" "" "";
  gf "Operation" false 0 "SECURE_COMMAND_OP" true false "uint32" "" "" "";
  gf "Result" false 0 "MAV_RESULT" true false "uint8" "" "" "";
  gf "DataLength" false 0 "uint8" false false "" "" "" "";
  gf "Data" true 220 "uint8" false false "" "" "" ""
].
Definition S305 : gstruct := mkGS "ardupilotmega" "MessageAdapTuning" [
  gf "Axis" false 0 "PID_TUNING_AXIS" true false "uint8" "" "" "";
  gf "Desired" false 0 "float32" false false "" "" "" "";
  gf "Achieved" false 0 "float32" false false "" "" "" "";
  gf "Error" false 0 "float32" false false "" "" "" "";
  gf "Theta" false 0 "float32" false false "" "" "" "";
  gf "Omega" false 0 "float32" false false "" "" "" "";
  gf "Sigma" false 0 "float32" false false "" "" "" "";
  gf "ThetaDot" false 0 "float32" false false "" "" "" "";
  gf "OmegaDot" false 0 "float32" false false "" "" "" "";
  gf "SigmaDot" false 0 "float32" false false "" "" "" "";
  gf "F" false 0 "float32" false false "" "" "" "";
  gf "FDot" false 0 "float32" false false "" "" "" "";
  gf "U" false 0 "float32" false false "" "" "" ""
].
Definition S306 : gstruct := mkGS "ardupilotmega" "MessageVisionPositionDelta" [
  gf "TimeUsec" false 0 "uint64" true false "" "" "" "";
  gf "TimeDeltaUsec" false 0 "uint64" true false "" "" "" "";
  gf "AngleDelta" true 3 "float32" false false "" "" "" "";
  gf "PositionDelta" true 3 "float32" false false "" "" "" "";
  gf "Confidence" false 0 "float32" false false "" "" "" ""
].
Definition S307 : gstruct := mkGS "ardupilotmega" "MessageAoaSsa" [
  gf "TimeUsec" false 0 "uint64" true false "" "" "" "";
  gf "Aoa" false 0 "float32" false false "" "" "" "AOA";
  gf "Ssa" false 0 "float32" false false "" "" "" "SSA"
].
Definition S308 : gstruct := mkGS "ardupilotmega" "MessageEscTelemetry_1To_4" [
  gf "Temperature" true 4 "uint8" false false "" "" "" "";
  gf "Voltage" true 4 "uint16" false false "" "" "" "";
  gf "Current" true 4 "uint16" false false "" "" "" "";
  gf "Totalcurrent" true 4 "uint16" false false "" "" "" "";
  gf "Rpm" true 4 "uint16" false false "" "" "" "";
  gf "Count" true 4 "uint16" false false "" "" "" ""
].
Definition S309 : gstruct := mkGS "ardupilotmega" "MessageEscTelemetry_5To_8" [
  gf "Temperature" true 4 "uint8" false false "" "" "" "";
  gf "Voltage" true 4 "uint16" false false "" "" "" "";
  gf "Current" true 4 "uint16" false false "" "" "" "";
  gf "Totalcurrent" true 4 "uint16" false false "" "" "" "";
  gf "Rpm" true 4 "uint16" false false "" "" "" "";
  gf "Count" true 4 "uint16" false false "" "" "" ""
].
Definition S310 : gstruct := mkGS "ardupilotmega" "MessageEscTelemetry_9To_12" [
  gf "Temperature" true 4 "uint8" false false "" "" "" "";
  gf "Voltage" true 4 "uint16" false false "" "" "" "";
  gf "Current" true 4 "uint16" false false "" "" "" "";
  gf "Totalcurrent" true 4 "uint16" false false "" "" "" "";
  gf "Rpm" true 4 "uint16" false false "" "" "" "";
  gf "Count" true 4 "uint16" false false "" "" "" ""
].
Definition S311 : gstruct := mkGS "ardupilotmega" "MessageOsdParamConfig" [
  gf "TargetSystem" false 0 "uint8" false false "" "" "" "";
  gf "TargetComponent" false 0 "uint8" false false "" "" "" "";
  gf "RequestId" false 0 "uint32" false false "" "" "" "";
  gf "OsdScreen" false 0 "uint8" false false "" "" "" "";
  gf "OsdIndex" false 0 "uint8" false false "" "" "" "";
  gf "ParamId" false 0 "string" false true "" "16" "" "";
  gf "ConfigType" false 0 "OSD_PARAM_CONFIG_TYPE" true false "uint8" "" "" "";
  gf "MinValue" false 0 "float32" false false "" "" "" "";
  gf "MaxValue" false 0 "float32" false false "" "" "" "";
  gf "Increment" false 0 "float32" false false "" "" "" ""
].
Definition S312 : gstruct := mkGS "ardupilotmega" "MessageOsdParamConfigReply" [
  gf "RequestId" false 0 "uint32" false false "" "" "" "";
  gf "Result" false 0 "OSD_PARAM_CONFIG_ERROR" true false "uint8" "" "" ""
].
Definition S313 : gstruct := mkGS "ardupilotmega" "MessageOsdParamShowConfig" [
  gf "TargetSystem" false 0 "uint8" false false "" "" "" "";
  gf "TargetComponent" false 0 "uint8" false false "" "" "" "";
  gf "RequestId" false 0 "uint32" false false "" "" "" "";
  gf "OsdScreen" false 0 "uint8" false false "" "" "" "";
  gf "OsdIndex" false 0 "uint8" false false "" "" "" ""
].
Definition S314 : gstruct := mkGS "ardupilotmega" "MessageOsdParamShowConfigReply" [
  gf "RequestId" false 0 "uint32" false false "" "" "" "";
  gf "Result" false 0 "OSD_PARAM_CONFIG_ERROR" true false "uint8" "" "" "";
  gf "ParamId" false 0 "string" false true "" "16" "" "";
  gf "ConfigType" false 0 "OSD_PARAM_CONFIG_TYPE" true false "uint8" "" "" "";
  gf "MinValue" false 0 "float32" false false "" "" "" "";
  gf "MaxValue" false 0 "float32" false false "" "" "" "";
  gf "Increment" false 0 "float32" false false "" "" "" ""
].
Definition S315 : gstruct := mkGS "ardupilotmega" "MessageObstacleDistance_3d" [
  gf "TimeBootMs" false 0 "uint32" false false "" "" "" "";
  gf "SensorType" false 0 "MAV_DISTANCE_SENSOR" true false "uint8" "" "" "";
  gf "Frame" false 0 "MAV_FRAME" true false "uint8" "" "" "";
  gf "ObstacleId" false 0 "uint16" false false "" "" "" "";
  gf "X" false 0 "float32" false false "" "" "" "";
  gf "Y" false 0 "float32" false false "" "" "" "";
  gf "Z" false 0 "float32" false false "" "" "" "";
  gf "MinDistance" false 0 "float32" false false "" "" "" "";
  gf "MaxDistance" false 0 "float32" false false "" "" "" ""
].
Definition S316 : gstruct := mkGS "ardupilotmega" "MessageWaterDepth" [
  gf "TimeBootMs" false 0 "uint32" false false "" "" "" "";
  gf "Id" false 0 "uint8" false false "" "" "" "";
  gf "Healthy" false 0 "uint8" false false "" "" "" "";
  gf "Lat" false 0 "int32" false false "" "" "" "";
  gf "Lng" false 0 "int32" false false "" "" "" "";
  gf "Alt" false 0 "float32" false false "" "" "" "";
  gf "Roll" false 0 "float32" false false "" "" "" "";
  gf "Pitch" false 0 "float32" false false "" "" "" "";
  gf "Yaw" false 0 "float32" false false "" "" "" "";
  gf "Distance" false 0 "float32" false false "" "" "" "";
  gf "Temperature" false 0 "float32" false false "" "" "" ""
].
Definition S317 : gstruct := mkGS "ardupilotmega" "MessageMcuStatus" [
  gf "Id" false 0 "uint8" false false "" "" "" "";
  gf "McuTemperature" false 0 "int16" false false "" "" "" "MCU_temperature";
  gf "McuVoltage" false 0 "uint16" false false "" "" "" "MCU_voltage";
  gf "McuVoltageMin" false 0 "uint16" false false "" "" "" "MCU_voltage_min";
  gf "McuVoltageMax" false 0 "uint16" false false "" "" "" "MCU_voltage_max"
].
Definition S318 : gstruct := mkGS "ardupilotmega" "MessageEscTelemetry_13To_16" [
  gf "Temperature" true 4 "uint8" false false "" "" "" "";
  gf "Voltage" true 4 "uint16" false false "" "" "" "";
  gf "Current" true 4 "uint16" false false "" "" "" "";
  gf "Totalcurrent" true 4 "uint16" false false "" "" "" "";
  gf "Rpm" true 4 "uint16" false false "" "" "" "";
  gf "Count" true 4 "uint16" false false "" "" "" ""
].
Definition S319 : gstruct := mkGS "ardupilotmega" "MessageEscTelemetry_17To_20" [
  gf "Temperature" true 4 "uint8" false false "" "" "" "";
  gf "Voltage" true 4 "uint16" false false "" "" "" "";
  gf "Current" true 4 "uint16" false false "" "" "" "";
  gf "Totalcurrent" true 4 "uint16" false false "" "" "" "";
  gf "Rpm" true 4 "uint16" false false "" "" "" "";
  gf "Count" true 4 "uint16" false false "" "" "" ""
].
Definition S320 : gstruct := mkGS "ardupilotmega" "MessageEscTelemetry_21To_24" [
  gf "Temperature" true 4 "uint8" false false "" "" "" "";
  gf "Voltage" true 4 "uint16" false false "" "" "" "";
  gf "Current" true 4 "uint16" false false "" "" "" "";
  gf "Totalcurrent" true 4 "uint16" false false "" "" "" "";
  gf "Rpm" true 4 "uint16" false false "" "" "" "";
  gf "Count" true 4 "uint16" false false "" "" "" ""
].
Definition S321 : gstruct := mkGS "ardupilotmega" "MessageEscTelemetry_25To_28" [
  gf "Temperature" true 4 "uint8" false false "" "" "" "";
  gf "Voltage" true 4 "uint16" false false "" "" "" "";
  gf "Current" true 4 "uint16" false false "" "" "" "";
  gf "Totalcurrent" true 4 "uint16" false false "" "" "" "";
  gf "Rpm" true 4 "uint16" false false "" "" "" "";
  gf "Count" true 4 "uint16" false false "" "" "" ""
].
Definition S322 : gstruct := mkGS "ardupilotmega" "MessageEscTelemetry_29To_32" [
  gf "Temperature" true 4 "uint8" false false "" "" "" "";
  gf "Voltage" true 4 "uint16" false false "" "" "" "";
  gf "Current" true 4 "uint16" false false "" "" "" "";
  gf "Totalcurrent" true 4 "uint16" false false "" "" "" "";
  gf "Rpm" true 4 "uint16" false false "" "" "" "";
  gf "Count" true 4 "uint16" false false "" "" "" ""
].
Definition S323 : gstruct := mkGS "asluav" "MessageCommandIntStamped" [
  gf "UtcTime" false 0 "uint32" false false "" "" "" "";
  gf "VehicleTimestamp" false 0 "uint64" true false "" "" "" "";
  gf "TargetSystem" false 0 "uint8" false false "" "" "" "";
  gf "TargetComponent" false 0 "uint8" false false "" "" "" "";
  gf "Frame" false 0 "MAV_FRAME" true false "uint8" "" "" "";
  gf "Command" false 0 "MAV_CMD" true false "uint16" "" "" "";
  gf "Current" false 0 "uint8" false false "" "" "" "";
  gf "Autocontinue" false 0 "uint8" false false "" "" "" "";
  gf "Param1" false 0 "float32" false false "" "" "" "";
  gf "Param2" false 0 "float32" false false "" "" "" "";
  gf "Param3" false 0 "float32" false false "" "" "" "";
  gf "Param4" false 0 "float32" false false "" "" "" "";
  gf "X" false 0 "int32" false false "" "" "" "";
  gf "Y" false 0 "int32" false false "" "" "" "";
  gf "Z" false 0 "float32" false false "" "" "" ""
].
Definition S324 : gstruct := mkGS "asluav" "MessageCommandLongStamped" [
  gf "UtcTime" false 0 "uint32" false false "" "" "" "";
  gf "VehicleTimestamp" false 0 "uint64" true false "" "" "" "";
  gf "TargetSystem" false 0 "uint8" false false "" "" "" "";
  gf "TargetComponent" false 0 "uint8" false false "" "" "" "";
  gf "Command" false 0 "MAV_CMD" true false "uint16" "" "" "";
  gf "Confirmation" false 0 "uint8" false false "" "" "" "";
  gf "Param1" false 0 "float32" false false "" "" "" "";
  gf "Param2" false 0 "float32" false false "" "" "" "";
  gf "Param3" false 0 "float32" false false "" "" "" "";
  gf "Param4" false 0 "float32" false false "" "" "" "";
  gf "Param5" false 0 "float32" false false "" "" "" "";
  gf "Param6" false 0 "float32" false false "" "" "" "";
  gf "Param7" false 0 "float32" false false "" "" "" ""
].
Definition S325 : gstruct := mkGS "asluav" "MessageSensPower" [
  gf "Adc121VspbVolt" false 0 "float32" false false "" "" "" "";
  gf "Adc121CspbAmp" false 0 "float32" false false "" "" "" "";
  gf "Adc121Cs1Amp" false 0 "float32" false false "" "" "" "";
  gf "Adc121Cs2Amp" false 0 "float32" false false "" "" "" ""
].
Definition S326 : gstruct := mkGS "asluav" "MessageSensMppt" [
  gf "MpptTimestamp" false 0 "uint64" true false "" "" "" "";
  gf "Mppt1Volt" false 0 "float32" false false "" "" "" "";
  gf "Mppt1Amp" false 0 "float32" false false "" "" "" "";
  gf "Mppt1Pwm" false 0 "uint16" false false "" "" "" "";
  gf "Mppt1Status" false 0 "uint8" false false "" "" "" "";
  gf "Mppt2Volt" false 0 "float32" false false "" "" "" "";
  gf "Mppt2Amp" false 0 "float32" false false "" "" "" "";
  gf "Mppt2Pwm" false 0 "uint16" false false "" "" "" "";
  gf "Mppt2Status" false 0 "uint8" false false "" "" "" "";
  gf "Mppt3Volt" false 0 "float32" false false "" "" "" "";
  gf "Mppt3Amp" false 0 "float32" false false "" "" "" "";
  gf "Mppt3Pwm" false 0 "uint16" false false "" "" "" "";
  gf "Mppt3Status" false 0 "uint8" false false "" "" "" ""
].
Definition S327 : gstruct := mkGS "asluav" "MessageAslctrlData" [
  gf "Timestamp" false 0 "uint64" true false "" "" "" "";
  gf "AslctrlMode" false 0 "uint8" false false "" "" "" "";
  gf "H" false 0 "float32" false false "" "" "" "";
  gf "Href" false 0 "float32" false false "" "" "" "hRef";
  gf "HrefT" false 0 "float32" false false "" "" "" "hRef_t";
  gf "Pitchangle" false 0 "float32" false false "" "" "" "PitchAngle";
  gf "Pitchangleref" false 0 "float32" false false "" "" "" "PitchAngleRef";
  gf "Q" false 0 "float32" false false "" "" "" "";
  gf "Qref" false 0 "float32" false false "" "" "" "qRef";
  gf "Uelev" false 0 "float32" false false "" "" "" "uElev";
  gf "Uthrot" false 0 "float32" false false "" "" "" "uThrot";
  gf "Uthrot2" false 0 "float32" false false "" "" "" "uThrot2";
  gf "Nz" false 0 "float32" false false "" "" "" "nZ";
  gf "Airspeedref" false 0 "float32" false false "" "" "" "AirspeedRef";
  gf "Spoilersengaged" false 0 "uint8" false false "" "" "" "SpoilersEngaged";
  gf "Yawangle" false 0 "float32" false false "" "" "" "YawAngle";
  gf "Yawangleref" false 0 "float32" false false "" "" "" "YawAngleRef";
  gf "Rollangle" false 0 "float32" false false "" "" "" "RollAngle";
  gf "Rollangleref" false 0 "float32" false false "" "" "" "RollAngleRef";
  gf "P" false 0 "float32" false false "" "" "" "";
  gf "Pref" false 0 "float32" false false "" "" "" "pRef";
  gf "R" false 0 "float32" false false "" "" "" "";
  gf "Rref" false 0 "float32" false false "" "" "" "rRef";
  gf "Uail" false 0 "float32" false false "" "" "" "uAil";
  gf "Urud" false 0 "float32" false false "" "" "" "uRud"
].
Definition S328 : gstruct := mkGS "asluav" "MessageAslctrlDebug" [
  gf "I32_1" false 0 "uint32" false false "" "" "" "";
  gf "I8_1" false 0 "uint8" false false "" "" "" "";
  gf "I8_2" false 0 "uint8" false false "" "" "" "";
  gf "F_1" false 0 "float32" false false "" "" "" "";
  gf "F_2" false 0 "float32" false false "" "" "" "";
  gf "F_3" false 0 "float32" false false "" "" "" "";
  gf "F_4" false 0 "float32" false false "" "" "" "";
  gf "F_5" false 0 "float32" false false "" "" "" "";
  gf "F_6" false 0 "float32" false false "" "" "" "";
  gf "F_7" false 0 "float32" false false "" "" "" "";
  gf "F_8" false 0 "float32" false false "" "" "" ""
].
Definition S329 : gstruct := mkGS "asluav" "MessageAsluavStatus" [
  gf "LedStatus" false 0 "uint8" false false "" "" "" "LED_status";
  gf "SatcomStatus" false 0 "uint8" false false "" "" "" "SATCOM_status";
  gf "ServoStatus" true 8 "uint8" false false "" "" "" "Servo_status";
  gf "MotorRpm" false 0 "float32" false false "" "" "" "Motor_rpm"
].
Definition S330 : gstruct := mkGS "asluav" "MessageEkfExt" [
  gf "Timestamp" false 0 "uint64" true false "" "" "" "";
  gf "Windspeed" false 0 "float32" false false "" "" "" "Windspeed";
  gf "Winddir" false 0 "float32" false false "" "" "" "WindDir";
  gf "Windz" false 0 "float32" false false "" "" "" "WindZ";
  gf "Airspeed" false 0 "float32" false false "" "" "" "Airspeed";
  gf "Beta" false 0 "float32" false false "" "" "" "";
  gf "Alpha" false 0 "float32" false false "" "" "" ""
].
Definition S331 : gstruct := mkGS "asluav" "MessageAslObctrl" [
  gf "Timestamp" false 0 "uint64" true false "" "" "" "";
  gf "Uelev" false 0 "float32" false false "" "" "" "uElev";
  gf "Uthrot" false 0 "float32" false false "" "" "" "uThrot";
  gf "Uthrot2" false 0 "float32" false false "" "" "" "uThrot2";
  gf "Uaill" false 0 "float32" false false "" "" "" "uAilL";
  gf "Uailr" false 0 "float32" false false "" "" "" "uAilR";
  gf "Urud" false 0 "float32" false false "" "" "" "uRud";
  gf "ObctrlStatus" false 0 "uint8" false false "" "" "" ""
].
Definition S332 : gstruct := mkGS "asluav" "MessageSensAtmos" [
  gf "Timestamp" false 0 "uint64" true false "" "" "" "";
  gf "Tempambient" false 0 "float32" false false "" "" "" "TempAmbient";
  gf "Humidity" false 0 "float32" false false "" "" "" "Humidity"
].
Definition S333 : gstruct := mkGS "asluav" "MessageSensBatmon" [
  gf "BatmonTimestamp" false 0 "uint64" true false "" "" "" "";
  gf "Temperature" false 0 "float32" false false "" "" "" "";
  gf "Voltage" false 0 "uint16" false false "" "" "" "";
  gf "Current" false 0 "int16" false false "" "" "" "";
  gf "Soc" false 0 "uint8" false false "" "" "" "SoC";
  gf "Batterystatus" false 0 "uint16" false false "" "" "" "";
  gf "Serialnumber" false 0 "uint16" false false "" "" "" "";
  gf "Safetystatus" false 0 "uint32" false false "" "" "" "";
  gf "Operationstatus" false 0 "uint32" false false "" "" "" "";
  gf "Cellvoltage1" false 0 "uint16" false false "" "" "" "";
  gf "Cellvoltage2" false 0 "uint16" false false "" "" "" "";
  gf "Cellvoltage3" false 0 "uint16" false false "" "" "" "";
  gf "Cellvoltage4" false 0 "uint16" false false "" "" "" "";
  gf "Cellvoltage5" false 0 "uint16" false false "" "" "" "";
  gf "Cellvoltage6" false 0 "uint16" false false "" "" "" ""
].
Definition S334 : gstruct := mkGS "asluav" "MessageFwSoaringData" [
  gf "Timestamp" false 0 "uint64" true false "" "" "" "";
  gf "Timestampmodechanged" false 0 "uint64" true false "" "" "" "timestampModeChanged";
  gf "Xw" false 0 "float32" false false "" "" "" "xW";
  gf "Xr" false 0 "float32" false false "" "" "" "xR";
  gf "Xlat" false 0 "float32" false false "" "" "" "xLat";
  gf "Xlon" false 0 "float32" false false "" "" "" "xLon";
  gf "Varw" false 0 "float32" false false "" "" "" "VarW";
  gf "Varr" false 0 "float32" false false "" "" "" "VarR";
  gf "Varlat" false 0 "float32" false false "" "" "" "VarLat";
  gf "Varlon" false 0 "float32" false false "" "" "" "VarLon";
  gf "Loiterradius" false 0 "float32" false false "" "" "" "LoiterRadius";
  gf "Loiterdirection" false 0 "float32" false false "" "" "" "LoiterDirection";
  gf "Disttosoarpoint" false 0 "float32" false false "" "" "" "DistToSoarPoint";
  gf "Vsinkexp" false 0 "float32" false false "" "" "" "vSinkExp";
  gf "Z1Localupdraftspeed" false 0 "float32" false false "" "" "" "z1_LocalUpdraftSpeed";
  gf "Z2Deltaroll" false 0 "float32" false false "" "" "" "z2_DeltaRoll";
  gf "Z1Exp" false 0 "float32" false false "" "" "" "";
  gf "Z2Exp" false 0 "float32" false false "" "" "" "";
  gf "Thermalgsnorth" false 0 "float32" false false "" "" "" "ThermalGSNorth";
  gf "Thermalgseast" false 0 "float32" false false "" "" "" "ThermalGSEast";
  gf "TseDot" false 0 "float32" false false "" "" "" "TSE_dot";
  gf "Debugvar1" false 0 "float32" false false "" "" "" "DebugVar1";
  gf "Debugvar2" false 0 "float32" false false "" "" "" "DebugVar2";
  gf "Controlmode" false 0 "uint8" false false "" "" "" "ControlMode";
  gf "Valid" false 0 "uint8" false false "" "" "" ""
].
Definition S335 : gstruct := mkGS "asluav" "MessageSensorpodStatus" [
  gf "Timestamp" false 0 "uint64" true false "" "" "" "";
  gf "VisensorRate_1" false 0 "uint8" false false "" "" "" "";
  gf "VisensorRate_2" false 0 "uint8" false false "" "" "" "";
  gf "VisensorRate_3" false 0 "uint8" false false "" "" "" "";
  gf "VisensorRate_4" false 0 "uint8" false false "" "" "" "";
  gf "RecordingNodesCount" false 0 "uint8" false false "" "" "" "";
  gf "CpuTemp" false 0 "uint8" false false "" "" "" "";
  gf "FreeSpace" false 0 "uint16" false false "" "" "" ""
].
Definition S336 : gstruct := mkGS "asluav" "MessageSensPowerBoard" [
  gf "Timestamp" false 0 "uint64" true false "" "" "" "";
  gf "PwrBrdStatus" false 0 "uint8" false false "" "" "" "";
  gf "PwrBrdLedStatus" false 0 "uint8" false false "" "" "" "";
  gf "PwrBrdSystemVolt" false 0 "float32" false false "" "" "" "";
  gf "PwrBrdServoVolt" false 0 "float32" false false "" "" "" "";
  gf "PwrBrdDigitalVolt" false 0 "float32" false false "" "" "" "";
  gf "PwrBrdMotLAmp" false 0 "float32" false false "" "" "" "";
  gf "PwrBrdMotRAmp" false 0 "float32" false false "" "" "" "";
  gf "PwrBrdAnalogAmp" false 0 "float32" false false "" "" "" "";
  gf "PwrBrdDigitalAmp" false 0 "float32" false false "" "" "" "";
  gf "PwrBrdExtAmp" false 0 "float32" false false "" "" "" "";
  gf "PwrBrdAuxAmp" false 0 "float32" false false "" "" "" ""
].
Definition S337 : gstruct := mkGS "asluav" "MessageGsmLinkStatus" [
  gf "Timestamp" false 0 "uint64" true false "" "" "" "";
  gf "GsmModemType" false 0 "GSM_MODEM_TYPE" true false "uint8" "" "" "";
  gf "GsmLinkType" false 0 "GSM_LINK_TYPE" true false "uint8" "" "" "";
  gf "Rssi" false 0 "uint8" false false "" "" "" "";
  gf "RsrpRscp" false 0 "uint8" false false "" "" "" "";
  gf "SinrEcio" false 0 "uint8" false false "" "" "" "";
  gf "Rsrq" false 0 "uint8" false false "" "" "" ""
].
Definition S338 : gstruct := mkGS "asluav" "MessageSatcomLinkStatus" [
  gf "Timestamp" false 0 "uint64" true false "" "" "" "";
  gf "LastHeartbeat" false 0 "uint64" true false "" "" "" "";
  gf "FailedSessions" false 0 "uint16" false false "" "" "" "";
  gf "SuccessfulSessions" false 0 "uint16" false false "" "" "" "";
  gf "SignalQuality" false 0 "uint8" false false "" "" "" "";
  gf "RingPending" false 0 "uint8" false false "" "" "" "";
  gf "TxSessionPending" false 0 "uint8" false false "" "" "" "";
  gf "RxSessionPending" false 0 "uint8" false false "" "" "" ""
].
Definition S339 : gstruct := mkGS "asluav" "MessageSensorAirflowAngles" [
  gf "Timestamp" false 0 "uint64" true false "" "" "" "";
  gf "Angleofattack" false 0 "float32" false false "" "" "" "";
  gf "AngleofattackValid" false 0 "uint8" false false "" "" "" "";
  gf "Sideslip" false 0 "float32" false false "" "" "" "";
  gf "SideslipValid" false 0 "uint8" false false "" "" "" ""
].
Definition S340 : gstruct := mkGS "development" "MessageAirspeed" [
  gf "Id" false 0 "uint8" false false "" "" "" "";
  gf "Airspeed" false 0 "float32" false false "" "" "" "";
  gf "Temperature" false 0 "int16" false false "" "" "" "";
  gf "RawPress" false 0 "float32" false false "" "" "" "";
  gf "Flags" false 0 "AIRSPEED_SENSOR_FLAGS" true false "uint8" "" "" ""
].
Definition S341 : gstruct := mkGS "development" "MessageSetVelocityLimits" [
  gf "TargetSystem" false 0 "uint8" false false "" "" "" "";
  gf "TargetComponent" false 0 "uint8" false false "" "" "" "";
  gf "HorizontalSpeedLimit" false 0 "float32" false false "" "" "" "";
  gf "VerticalSpeedLimit" false 0 "float32" false false "" "" "" "";
  gf "YawRateLimit" false 0 "float32" false false "" "" "" ""
].
Definition S342 : gstruct := mkGS "development" "MessageVelocityLimits" [
  gf "HorizontalSpeedLimit" false 0 "float32" false false "" "" "" "";
  gf "VerticalSpeedLimit" false 0 "float32" false false "" "" "" "";
  gf "YawRateLimit" false 0 "float32" false false "" "" "" ""
].
Definition S343 : gstruct := mkGS "development" "MessageFigureEightExecutionStatus" [
  gf "TimeUsec" false 0 "uint64" true false "" "" "" "";
  gf "MajorRadius" false 0 "float32" false false "" "" "" "";
  gf "MinorRadius" false 0 "float32" false false "" "" "" "";
  gf "Orientation" false 0 "float32" false false "" "" "" "";
  gf "Frame" false 0 "MAV_FRAME" true false "uint8" "" "" "";
  gf "X" false 0 "int32" false false "" "" "" "";
  gf "Y" false 0 "int32" false false "" "" "" "";
  gf "Z" false 0 "float32" false false "" "" "" ""
].
Definition S344 : gstruct := mkGS "development" "MessageBatteryStatusV2" [
  gf "Id" false 0 "uint8" false false "" "" "" "";
  gf "Temperature" false 0 "int16" false false "" "" "" "";
  gf "Voltage" false 0 "float32" false false "" "" "" "";
  gf "Current" false 0 "float32" false false "" "" "" "";
  gf "CapacityConsumed" false 0 "float32" false false "" "" "" "";
  gf "CapacityRemaining" false 0 "float32" false false "" "" "" "";
  gf "PercentRemaining" false 0 "uint8" false false "" "" "" "";
  gf "StatusFlags" false 0 "MAV_BATTERY_STATUS_FLAGS" true false "uint32" "" "" ""
].
Definition S345 : gstruct := mkGS "development" "MessageGroupStart" [
  gf "GroupId" false 0 "uint32" false false "" "" "" "";
  gf "MissionChecksum" false 0 "uint32" false false "" "" "" "";
  gf "TimeUsec" false 0 "uint64" true false "" "" "" ""
].
Definition S346 : gstruct := mkGS "development" "MessageGroupEnd" [
  gf "GroupId" false 0 "uint32" false false "" "" "" "";
  gf "MissionChecksum" false 0 "uint32" false false "" "" "" "";
  gf "TimeUsec" false 0 "uint64" true false "" "" "" ""
].
Definition S347 : gstruct := mkGS "development" "MessageRadioRcChannels" [
  gf "TargetSystem" false 0 "uint8" false false "" "" "" "";
  gf "TargetComponent" false 0 "uint8" false false "" "" "" "";
  gf "TimeLastUpdateMs" false 0 "uint32" false false "" "" "" "";
  gf "Flags" false 0 "RADIO_RC_CHANNELS_FLAGS" true false "uint16" "" "" "";
  gf "Count" false 0 "uint8" false false "" "" "" "";
  gf "Channels" true 32 "int16" false false "" "" "true" ""
].
Definition S348 : gstruct := mkGS "development" "MessageGnssIntegrity" [
  gf "Id" false 0 "uint8" false false "" "" "" "";
  gf "SystemErrors" false 0 "GPS_SYSTEM_ERROR_FLAGS" true false "uint32" "" "" "";
  gf "AuthenticationState" false 0 "GPS_AUTHENTICATION_STATE" true false "uint8" "" "" "";
  gf "JammingState" false 0 "GPS_JAMMING_STATE" true false "uint8" "" "" "";
  gf "SpoofingState" false 0 "GPS_SPOOFING_STATE" true false "uint8" "" "" "";
  gf "RaimState" false 0 "GPS_RAIM_STATE" true false "uint8" "" "" "";
  gf "RaimHfom" false 0 "uint16" false false "" "" "" "";
  gf "RaimVfom" false 0 "uint16" false false "" "" "" "";
  gf "CorrectionsQuality" false 0 "uint8" false false "" "" "" "";
  gf "SystemStatusSummary" false 0 "uint8" false false "" "" "" "";
  gf "GnssSignalQuality" false 0 "uint8" false false "" "" "" "";
  gf "PostProcessingQuality" false 0 "uint8" false false "" "" "" ""
].
Definition S349 : gstruct := mkGS "development" "MessageTargetAbsolute" [
  gf "Timestamp" false 0 "uint64" true false "" "" "" "";
  gf "Id" false 0 "uint8" false false "" "" "" "";
  gf "SensorCapabilities" false 0 "TARGET_ABSOLUTE_SENSOR_CAPABILITY_FLAGS" true false "uint8" "" "" "";
  gf "Lat" false 0 "int32" false false "" "" "" "";
  gf "Lon" false 0 "int32" false false "" "" "" "";
  gf "Alt" false 0 "float32" false false "" "" "" "";
  gf "Vel" true 3 "float32" false false "" "" "" "";
  gf "Acc" true 3 "float32" false false "" "" "" "";
  gf "QTarget" true 4 "float32" false false "" "" "" "";
  gf "Rates" true 3 "float32" false false "" "" "" "";
  gf "PositionStd" true 2 "float32" false false "" "" "" "";
  gf "VelStd" true 3 "float32" false false "" "" "" "";
  gf "AccStd" true 3 "float32" false false "" "" "" ""
].
Definition S350 : gstruct := mkGS "development" "MessageTargetRelative" [
  gf "Timestamp" false 0 "uint64" true false "" "" "" "";
  gf "Id" false 0 "uint8" false false "" "" "" "";
  gf "Frame" false 0 "TARGET_OBS_FRAME" true false "uint8" "" "" "";
  gf "X" false 0 "float32" false false "" "" "" "";
  gf "Y" false 0 "float32" false false "" "" "" "";
  gf "Z" false 0 "float32" false false "" "" "" "";
  gf "PosStd" true 3 "float32" false false "" "" "" "";
  gf "YawStd" false 0 "float32" false false "" "" "" "";
  gf "QTarget" true 4 "float32" false false "" "" "" "";
  gf "QSensor" true 4 "float32" false false "" "" "" "";
  gf "Type" false 0 "LANDING_TARGET_TYPE" true false "uint8" "" "" ""
].
Definition S351 : gstruct := mkGS "development" "MessageControlStatus" [
  gf "SysidInControl" false 0 "uint8" false false "" "" "" "";
  gf "Flags" false 0 "GCS_CONTROL_STATUS_FLAGS" true false "uint8" "" "" ""
].
Definition S352 : gstruct := mkGS "pythonarraytest" "MessageArrayTest_0" [
  gf "V1" false 0 "uint8" false false "" "" "" "";
  gf "ArI8" true 4 "int8" false false "" "" "" "";
  gf "ArU8" true 4 "uint8" false false "" "" "" "";
  gf "ArU16" true 4 "uint16" false false "" "" "" "";
  gf "ArU32" true 4 "uint32" false false "" "" "" ""
].
Definition S353 : gstruct := mkGS "pythonarraytest" "MessageArrayTest_1" [
  gf "ArU32" true 4 "uint32" false false "" "" "" ""
].
Definition S354 : gstruct := mkGS "pythonarraytest" "MessageArrayTest_3" [
  gf "V" false 0 "uint8" false false "" "" "" "";
  gf "ArU32" true 4 "uint32" false false "" "" "" ""
].
Definition S355 : gstruct := mkGS "pythonarraytest" "MessageArrayTest_4" [
  gf "ArU32" true 4 "uint32" false false "" "" "" "";
  gf "V" false 0 "uint8" false false "" "" "" ""
].
Definition S356 : gstruct := mkGS "pythonarraytest" "MessageArrayTest_5" [
  gf "C1" false 0 "string" false true "" "5" "" "";
  gf "C2" false 0 "string" false true "" "5" "" ""
].
Definition S357 : gstruct := mkGS "pythonarraytest" "MessageArrayTest_6" [
  gf "V1" false 0 "uint8" false false "" "" "" "";
  gf "V2" false 0 "uint16" false false "" "" "" "";
  gf "V3" false 0 "uint32" false false "" "" "" "";
  gf "ArU32" true 2 "uint32" false false "" "" "" "";
  gf "ArI32" true 2 "int32" false false "" "" "" "";
  gf "ArU16" true 2 "uint16" false false "" "" "" "";
  gf "ArI16" true 2 "int16" false false "" "" "" "";
  gf "ArU8" true 2 "uint8" false false "" "" "" "";
  gf "ArI8" true 2 "int8" false false "" "" "" "";
  gf "ArC" false 0 "string" false true "" "32" "" "";
  gf "ArD" true 2 "float64" false false "" "" "" "";
  gf "ArF" true 2 "float32" false false "" "" "" ""
].
Definition S358 : gstruct := mkGS "pythonarraytest" "MessageArrayTest_7" [
  gf "ArD" true 2 "float64" false false "" "" "" "";
  gf "ArF" true 2 "float32" false false "" "" "" "";
  gf "ArU32" true 2 "uint32" false false "" "" "" "";
  gf "ArI32" true 2 "int32" false false "" "" "" "";
  gf "ArU16" true 2 "uint16" false false "" "" "" "";
  gf "ArI16" true 2 "int16" false false "" "" "" "";
  gf "ArU8" true 2 "uint8" false false "" "" "" "";
  gf "ArI8" true 2 "int8" false false "" "" "" "";
  gf "ArC" false 0 "string" false true "" "32" "" ""
].
Definition S359 : gstruct := mkGS "pythonarraytest" "MessageArrayTest_8" [
  gf "V3" false 0 "uint32" false false "" "" "" "";
  gf "ArD" true 2 "float64" false false "" "" "" "";
  gf "ArU16" true 2 "uint16" false false "" "" "" ""
].
Definition S360 : gstruct := mkGS "test" "MessageTestTypes" [
  gf "C" false 0 "string" false true "" "" "" "";
  gf "S" false 0 "string" false true "" "10" "" "";
  gf "U8" false 0 "uint8" false false "" "" "" "";
  gf "U16" false 0 "uint16" false false "" "" "" "";
  gf "U32" false 0 "uint32" false false "" "" "" "";
  gf "U64" false 0 "uint64" true false "" "" "" "";
  gf "S8" false 0 "int8" false false "" "" "" "";
  gf "S16" false 0 "int16" false false "" "" "" "";
  gf "S32" false 0 "int32" false false "" "" "" "";
  gf "S64" false 0 "int64" false false "" "" "" "";
  gf "F" false 0 "float32" false false "" "" "" "";
  gf "D" false 0 "float64" false false "" "" "" "";
  gf "U8Array" true 3 "uint8" false false "" "" "" "";
  gf "U16Array" true 3 "uint16" false false "" "" "" "";
  gf "U32Array" true 3 "uint32" false false "" "" "" "";
  gf "U64Array" true 3 "uint64" true false "" "" "" "";
  gf "S8Array" true 3 "int8" false false "" "" "" "";
  gf "S16Array" true 3 "int16" false false "" "" "" "";
  gf "S32Array" true 3 "int32" false false "" "" "" "";
  gf "S64Array" true 3 "int64" false false "" "" "" "";
  gf "FArray" true 3 "float32" false false "" "" "" "";
  gf "DArray" true 3 "float64" false false "" "" "" ""
].
Definition S361 : gstruct := mkGS "ualberta" "MessageNavFilterBias" [
  gf "Usec" false 0 "uint64" true false "" "" "" "";
  gf "Accel_0" false 0 "float32" false false "" "" "" "";
  gf "Accel_1" false 0 "float32" false false "" "" "" "";
  gf "Accel_2" false 0 "float32" false false "" "" "" "";
  gf "Gyro_0" false 0 "float32" false false "" "" "" "";
  gf "Gyro_1" false 0 "float32" false false "" "" "" "";
  gf "Gyro_2" false 0 "float32" false false "" "" "" ""
].
Definition S362 : gstruct := mkGS "ualberta" "MessageRadioCalibration" [
  gf "Aileron" true 3 "uint16" false false "" "" "" "";
  gf "Elevator" true 3 "uint16" false false "" "" "" "";
  gf "Rudder" true 3 "uint16" false false "" "" "" "";
  gf "Gyro" true 2 "uint16" false false "" "" "" "";
  gf "Pitch" true 5 "uint16" false false "" "" "" "";
  gf "Throttle" true 5 "uint16" false false "" "" "" ""
].
Definition S363 : gstruct := mkGS "ualberta" "MessageUalbertaSysStatus" [
  gf "Mode" false 0 "uint8" false false "" "" "" "";
  gf "NavMode" false 0 "uint8" false false "" "" "" "";
  gf "Pilot" false 0 "uint8" false false "" "" "" ""
].
Definition S364 : gstruct := mkGS "storm32" "MessageStorm32GimbalManagerInformation" [
  gf "GimbalId" false 0 "uint8" false false "" "" "" "";
  gf "DeviceCapFlags" false 0 "GIMBAL_DEVICE_CAP_FLAGS" true false "uint32" "" "" "";
  gf "ManagerCapFlags" false 0 "MAV_STORM32_GIMBAL_MANAGER_CAP_FLAGS" true false "uint32" "" "" "";
  gf "RollMin" false 0 "float32" false false "" "" "" "";
  gf "RollMax" false 0 "float32" false false "" "" "" "";
  gf "PitchMin" false 0 "float32" false false "" "" "" "";
  gf "PitchMax" false 0 "float32" false false "" "" "" "";
  gf "YawMin" false 0 "float32" false false "" "" "" "";
  gf "YawMax" false 0 "float32" false false "" "" "" ""
].
Definition S365 : gstruct := mkGS "storm32" "MessageStorm32GimbalManagerStatus" [
  gf "GimbalId" false 0 "uint8" false false "" "" "" "";
  gf "Supervisor" false 0 "MAV_STORM32_GIMBAL_MANAGER_CLIENT" true false "uint8" "" "" "";
  gf "DeviceFlags" false 0 "GIMBAL_DEVICE_FLAGS" true false "uint16" "" "" "";
  gf "ManagerFlags" false 0 "MAV_STORM32_GIMBAL_MANAGER_FLAGS" true false "uint16" "" "" "";
  gf "Profile" false 0 "MAV_STORM32_GIMBAL_MANAGER_PROFILE" true false "uint8" "" "" ""
].
Definition S366 : gstruct := mkGS "storm32" "MessageStorm32GimbalManagerControl" [
  gf "TargetSystem" false 0 "uint8" false false "" "" "" "";
  gf "TargetComponent" false 0 "uint8" false false "" "" "" "";
  gf "GimbalId" false 0 "uint8" false false "" "" "" "";
  gf "Client" false 0 "MAV_STORM32_GIMBAL_MANAGER_CLIENT" true false "uint8" "" "" "";
  gf "DeviceFlags" false 0 "GIMBAL_DEVICE_FLAGS" true false "uint16" "" "" "";
  gf "ManagerFlags" false 0 "MAV_STORM32_GIMBAL_MANAGER_FLAGS" true false "uint16" "" "" "";
  gf "Q" true 4 "float32" false false "" "" "" "";
  gf "AngularVelocityX" false 0 "float32" false false "" "" "" "";
  gf "AngularVelocityY" false 0 "float32" false false "" "" "" "";
  gf "AngularVelocityZ" false 0 "float32" false false "" "" "" ""
].
Definition S367 : gstruct := mkGS "storm32" "MessageStorm32GimbalManagerControlPitchyaw" [
  gf "TargetSystem" false 0 "uint8" false false "" "" "" "";
  gf "TargetComponent" false 0 "uint8" false false "" "" "" "";
  gf "GimbalId" false 0 "uint8" false false "" "" "" "";
  gf "Client" false 0 "MAV_STORM32_GIMBAL_MANAGER_CLIENT" true false "uint8" "" "" "";
  gf "DeviceFlags" false 0 "GIMBAL_DEVICE_FLAGS" true false "uint16" "" "" "";
  gf "ManagerFlags" false 0 "MAV_STORM32_GIMBAL_MANAGER_FLAGS" true false "uint16" "" "" "";
  gf "Pitch" false 0 "float32" false false "" "" "" "";
  gf "Yaw" false 0 "float32" false false "" "" "" "";
  gf "PitchRate" false 0 "float32" false false "" "" "" "";
  gf "YawRate" false 0 "float32" false false "" "" "" ""
].
Definition S368 : gstruct := mkGS "storm32" "MessageStorm32GimbalManagerCorrectRoll" [
  gf "TargetSystem" false 0 "uint8" false false "" "" "" "";
  gf "TargetComponent" false 0 "uint8" false false "" "" "" "";
  gf "GimbalId" false 0 "uint8" false false "" "" "" "";
  gf "Client" false 0 "MAV_STORM32_GIMBAL_MANAGER_CLIENT" true false "uint8" "" "" "";
  gf "Roll" false 0 "float32" false false "" "" "" ""
].
Definition S369 : gstruct := mkGS "storm32" "MessageQshotStatus" [
  gf "Mode" false 0 "MAV_QSHOT_MODE" true false "uint16" "" "" "";
  gf "ShotState" false 0 "uint16" false false "" "" "" ""
].
Definition S370 : gstruct := mkGS "storm32" "MessageFrskyPassthroughArray" [
  gf "TimeBootMs" false 0 "uint32" false false "" "" "" "";
  gf "Count" false 0 "uint8" false false "" "" "" "";
  gf "PacketBuf" true 240 "uint8" false false "" "" "" ""
].
Definition S371 : gstruct := mkGS "storm32" "MessageParamValueArray" [
  gf "ParamCount" false 0 "uint16" false false "" "" "" "";
  gf "ParamIndexFirst" false 0 "uint16" false false "" "" "" "";
  gf "ParamArrayLen" false 0 "uint8" false false "" "" "" "";
  gf "Flags" false 0 "uint16" false false "" "" "" "";
  gf "PacketBuf" true 248 "uint8" false false "" "" "" ""
].
Definition S372 : gstruct := mkGS "avssuas" "MessageAvssPrsSysStatus" [
  gf "TimeBootMs" false 0 "uint32" false false "" "" "" "";
  gf "ErrorStatus" false 0 "uint32" false false "" "" "" "";
  gf "BatteryStatus" false 0 "uint32" false false "" "" "" "";
  gf "ArmStatus" false 0 "uint8" false false "" "" "" "";
  gf "ChargeStatus" false 0 "uint8" false false "" "" "" ""
].
Definition S373 : gstruct := mkGS "avssuas" "MessageAvssDronePosition" [
  gf "TimeBootMs" false 0 "uint32" false false "" "" "" "";
  gf "Lat" false 0 "int32" false false "" "" "" "";
  gf "Lon" false 0 "int32" false false "" "" "" "";
  gf "Alt" false 0 "int32" false false "" "" "" "";
  gf "GroundAlt" false 0 "float32" false false "" "" "" "";
  gf "BarometerAlt" false 0 "float32" false false "" "" "" ""
].
Definition S374 : gstruct := mkGS "avssuas" "MessageAvssDroneImu" [
  gf "TimeBootMs" false 0 "uint32" false false "" "" "" "";
  gf "Q1" false 0 "float32" false false "" "" "" "";
  gf "Q2" false 0 "float32" false false "" "" "" "";
  gf "Q3" false 0 "float32" false false "" "" "" "";
  gf "Q4" false 0 "float32" false false "" "" "" "";
  gf "Xacc" false 0 "float32" false false "" "" "" "";
  gf "Yacc" false 0 "float32" false false "" "" "" "";
  gf "Zacc" false 0 "float32" false false "" "" "" "";
  gf "Xgyro" false 0 "float32" false false "" "" "" "";
  gf "Ygyro" false 0 "float32" false false "" "" "" "";
  gf "Zgyro" false 0 "float32" false false "" "" "" ""
].
Definition S375 : gstruct := mkGS "avssuas" "MessageAvssDroneOperationMode" [
  gf "TimeBootMs" false 0 "uint32" false false "" "" "" "";
  gf "M300OperationMode" false 0 "uint8" false false "" "" "" "M300_operation_mode";
  gf "HorseflyOperationMode" false 0 "uint8" false false "" "" "" ""
].
Definition S376 : gstruct := mkGS "matrixpilot" "MessageFlexifunctionSet" [
  gf "TargetSystem" false 0 "uint8" false false "" "" "" "";
  gf "TargetComponent" false 0 "uint8" false false "" "" "" ""
].
Definition S377 : gstruct := mkGS "matrixpilot" "MessageFlexifunctionReadReq" [
  gf "TargetSystem" false 0 "uint8" false false "" "" "" "";
  gf "TargetComponent" false 0 "uint8" false false "" "" "" "";
  gf "ReadReqType" false 0 "int16" false false "" "" "" "";
  gf "DataIndex" false 0 "int16" false false "" "" "" ""
].
Definition S378 : gstruct := mkGS "matrixpilot" "MessageFlexifunctionBufferFunction" [
  gf "TargetSystem" false 0 "uint8" false false "" "" "" "";
  gf "TargetComponent" false 0 "uint8" false false "" "" "" "";
  gf "FuncIndex" false 0 "uint16" false false "" "" "" "";
  gf "FuncCount" false 0 "uint16" false false "" "" "" "";
  gf "DataAddress" false 0 "uint16" false false "" "" "" "";
  gf "DataSize" false 0 "uint16" false false "" "" "" "";
  gf "Data" true 48 "int8" false false "" "" "" ""
].
Definition S379 : gstruct := mkGS "matrixpilot" "MessageFlexifunctionBufferFunctionAck" [
  gf "TargetSystem" false 0 "uint8" false false "" "" "" "";
  gf "TargetComponent" false 0 "uint8" false false "" "" "" "";
  gf "FuncIndex" false 0 "uint16" false false "" "" "" "";
  gf "Result" false 0 "uint16" false false "" "" "" ""
].
Definition S380 : gstruct := mkGS "matrixpilot" "MessageFlexifunctionDirectory" [
  gf "TargetSystem" false 0 "uint8" false false "" "" "" "";
  gf "TargetComponent" false 0 "uint8" false false "" "" "" "";
  gf "DirectoryType" false 0 "uint8" false false "" "" "" "";
  gf "StartIndex" false 0 "uint8" false false "" "" "" "";
  gf "Count" false 0 "uint8" false false "" "" "" "";
  gf "DirectoryData" true 48 "int8" false false "" "" "" ""
].
Definition S381 : gstruct := mkGS "matrixpilot" "MessageFlexifunctionDirectoryAck" [
  gf "TargetSystem" false 0 "uint8" false false "" "" "" "";
  gf "TargetComponent" false 0 "uint8" false false "" "" "" "";
  gf "DirectoryType" false 0 "uint8" false false "" "" "" "";
  gf "StartIndex" false 0 "uint8" false false "" "" "" "";
  gf "Count" false 0 "uint8" false false "" "" "" "";
  gf "Result" false 0 "uint16" false false "" "" "" ""
].
Definition S382 : gstruct := mkGS "matrixpilot" "MessageFlexifunctionCommand" [
  gf "TargetSystem" false 0 "uint8" false false "" "" "" "";
  gf "TargetComponent" false 0 "uint8" false false "" "" "" "";
  gf "CommandType" false 0 "uint8" false false "" "" "" ""
].
Definition S383 : gstruct := mkGS "matrixpilot" "MessageFlexifunctionCommandAck" [
  gf "CommandType" false 0 "uint16" false false "" "" "" "";
  gf "Result" false 0 "uint16" false false "" "" "" ""
].
Definition S384 : gstruct := mkGS "matrixpilot" "MessageSerialUdbExtraF2A" [
  gf "SueTime" false 0 "uint32" false false "" "" "" "";
  gf "SueStatus" false 0 "uint8" false false "" "" "" "";
  gf "SueLatitude" false 0 "int32" false false "" "" "" "";
  gf "SueLongitude" false 0 "int32" false false "" "" "" "";
  gf "SueAltitude" false 0 "int32" false false "" "" "" "";
  gf "SueWaypointIndex" false 0 "uint16" false false "" "" "" "";
  gf "SueRmat0" false 0 "int16" false false "" "" "" "";
  gf "SueRmat1" false 0 "int16" false false "" "" "" "";
  gf "SueRmat2" false 0 "int16" false false "" "" "" "";
  gf "SueRmat3" false 0 "int16" false false "" "" "" "";
  gf "SueRmat4" false 0 "int16" false false "" "" "" "";
  gf "SueRmat5" false 0 "int16" false false "" "" "" "";
  gf "SueRmat6" false 0 "int16" false false "" "" "" "";
  gf "SueRmat7" false 0 "int16" false false "" "" "" "";
  gf "SueRmat8" false 0 "int16" false false "" "" "" "";
  gf "SueCog" false 0 "uint16" false false "" "" "" "";
  gf "SueSog" false 0 "int16" false false "" "" "" "";
  gf "SueCpuLoad" false 0 "uint16" false false "" "" "" "";
  gf "SueAirSpeed_3dimu" false 0 "uint16" false false "" "" "" "sue_air_speed_3DIMU";
  gf "SueEstimatedWind_0" false 0 "int16" false false "" "" "" "";
  gf "SueEstimatedWind_1" false 0 "int16" false false "" "" "" "";
  gf "SueEstimatedWind_2" false 0 "int16" false false "" "" "" "";
  gf "SueMagfieldearth0" false 0 "int16" false false "" "" "" "sue_magFieldEarth0";
  gf "SueMagfieldearth1" false 0 "int16" false false "" "" "" "sue_magFieldEarth1";
  gf "SueMagfieldearth2" false 0 "int16" false false "" "" "" "sue_magFieldEarth2";
  gf "SueSvs" false 0 "int16" false false "" "" "" "";
  gf "SueHdop" false 0 "int16" false false "" "" "" ""
].
Definition S385 : gstruct := mkGS "matrixpilot" "MessageSerialUdbExtraF2B" [
  gf "SueTime" false 0 "uint32" false false "" "" "" "";
  gf "SuePwmInput_1" false 0 "int16" false false "" "" "" "";
  gf "SuePwmInput_2" false 0 "int16" false false "" "" "" "";
  gf "SuePwmInput_3" false 0 "int16" false false "" "" "" "";
  gf "SuePwmInput_4" false 0 "int16" false false "" "" "" "";
  gf "SuePwmInput_5" false 0 "int16" false false "" "" "" "";
  gf "SuePwmInput_6" false 0 "int16" false false "" "" "" "";
  gf "SuePwmInput_7" false 0 "int16" false false "" "" "" "";
  gf "SuePwmInput_8" false 0 "int16" false false "" "" "" "";
  gf "SuePwmInput_9" false 0 "int16" false false "" "" "" "";
  gf "SuePwmInput_10" false 0 "int16" false false "" "" "" "";
  gf "SuePwmInput_11" false 0 "int16" false false "" "" "" "";
  gf "SuePwmInput_12" false 0 "int16" false false "" "" "" "";
  gf "SuePwmOutput_1" false 0 "int16" false false "" "" "" "";
  gf "SuePwmOutput_2" false 0 "int16" false false "" "" "" "";
  gf "SuePwmOutput_3" false 0 "int16" false false "" "" "" "";
  gf "SuePwmOutput_4" false 0 "int16" false false "" "" "" "";
  gf "SuePwmOutput_5" false 0 "int16" false false "" "" "" "";
  gf "SuePwmOutput_6" false 0 "int16" false false "" "" "" "";
  gf "SuePwmOutput_7" false 0 "int16" false false "" "" "" "";
  gf "SuePwmOutput_8" false 0 "int16" false false "" "" "" "";
  gf "SuePwmOutput_9" false 0 "int16" false false "" "" "" "";
  gf "SuePwmOutput_10" false 0 "int16" false false "" "" "" "";
  gf "SuePwmOutput_11" false 0 "int16" false false "" "" "" "";
  gf "SuePwmOutput_12" false 0 "int16" false false "" "" "" "";
  gf "SueImuLocationX" false 0 "int16" false false "" "" "" "";
  gf "SueImuLocationY" false 0 "int16" false false "" "" "" "";
  gf "SueImuLocationZ" false 0 "int16" false false "" "" "" "";
  gf "SueLocationErrorEarthX" false 0 "int16" false false "" "" "" "";
  gf "SueLocationErrorEarthY" false 0 "int16" false false "" "" "" "";
  gf "SueLocationErrorEarthZ" false 0 "int16" false false "" "" "" "";
  gf "SueFlags" false 0 "uint32" false false "" "" "" "";
  gf "SueOscFails" false 0 "int16" false false "" "" "" "";
  gf "SueImuVelocityX" false 0 "int16" false false "" "" "" "";
  gf "SueImuVelocityY" false 0 "int16" false false "" "" "" "";
  gf "SueImuVelocityZ" false 0 "int16" false false "" "" "" "";
  gf "SueWaypointGoalX" false 0 "int16" false false "" "" "" "";
  gf "SueWaypointGoalY" false 0 "int16" false false "" "" "" "";
  gf "SueWaypointGoalZ" false 0 "int16" false false "" "" "" "";
  gf "SueAeroX" false 0 "int16" false false "" "" "" "";
  gf "SueAeroY" false 0 "int16" false false "" "" "" "";
  gf "SueAeroZ" false 0 "int16" false false "" "" "" "";
  gf "SueBaromTemp" false 0 "int16" false false "" "" "" "";
  gf "SueBaromPress" false 0 "int32" false false "" "" "" "";
  gf "SueBaromAlt" false 0 "int32" false false "" "" "" "";
  gf "SueBatVolt" false 0 "int16" false false "" "" "" "";
  gf "SueBatAmp" false 0 "int16" false false "" "" "" "";
  gf "SueBatAmpHours" false 0 "int16" false false "" "" "" "";
  gf "SueDesiredHeight" false 0 "int16" false false "" "" "" "";
  gf "SueMemoryStackFree" false 0 "int16" false false "" "" "" ""
].
Definition S386 : gstruct := mkGS "matrixpilot" "MessageSerialUdbExtraF4" [
  gf "SueRollStabilizationAilerons" false 0 "uint8" false false "" "" "" "sue_ROLL_STABILIZATION_AILERONS";
  gf "SueRollStabilizationRudder" false 0 "uint8" false false "" "" "" "sue_ROLL_STABILIZATION_RUDDER";
  gf "SuePitchStabilization" false 0 "uint8" false false "" "" "" "sue_PITCH_STABILIZATION";
  gf "SueYawStabilizationRudder" false 0 "uint8" false false "" "" "" "sue_YAW_STABILIZATION_RUDDER";
  gf "SueYawStabilizationAileron" false 0 "uint8" false false "" "" "" "sue_YAW_STABILIZATION_AILERON";
  gf "SueAileronNavigation" false 0 "uint8" false false "" "" "" "sue_AILERON_NAVIGATION";
  gf "SueRudderNavigation" false 0 "uint8" false false "" "" "" "sue_RUDDER_NAVIGATION";
  gf "SueAltitudeholdStabilized" false 0 "uint8" false false "" "" "" "sue_ALTITUDEHOLD_STABILIZED";
  gf "SueAltitudeholdWaypoint" false 0 "uint8" false false "" "" "" "sue_ALTITUDEHOLD_WAYPOINT";
  gf "SueRacingMode" false 0 "uint8" false false "" "" "" "sue_RACING_MODE"
].
Definition S387 : gstruct := mkGS "matrixpilot" "MessageSerialUdbExtraF5" [
  gf "SueYawkpAileron" false 0 "float32" false false "" "" "" "sue_YAWKP_AILERON";
  gf "SueYawkdAileron" false 0 "float32" false false "" "" "" "sue_YAWKD_AILERON";
  gf "SueRollkp" false 0 "float32" false false "" "" "" "sue_ROLLKP";
  gf "SueRollkd" false 0 "float32" false false "" "" "" "sue_ROLLKD"
].
Definition S388 : gstruct := mkGS "matrixpilot" "MessageSerialUdbExtraF6" [
  gf "SuePitchgain" false 0 "float32" false false "" "" "" "sue_PITCHGAIN";
  gf "SuePitchkd" false 0 "float32" false false "" "" "" "sue_PITCHKD";
  gf "SueRudderElevMix" false 0 "float32" false false "" "" "" "sue_RUDDER_ELEV_MIX";
  gf "SueRollElevMix" false 0 "float32" false false "" "" "" "sue_ROLL_ELEV_MIX";
  gf "SueElevatorBoost" false 0 "float32" false false "" "" "" "sue_ELEVATOR_BOOST"
].
Definition S389 : gstruct := mkGS "matrixpilot" "MessageSerialUdbExtraF7" [
  gf "SueYawkpRudder" false 0 "float32" false false "" "" "" "sue_YAWKP_RUDDER";
  gf "SueYawkdRudder" false 0 "float32" false false "" "" "" "sue_YAWKD_RUDDER";
  gf "SueRollkpRudder" false 0 "float32" false false "" "" "" "sue_ROLLKP_RUDDER";
  gf "SueRollkdRudder" false 0 "float32" false false "" "" "" "sue_ROLLKD_RUDDER";
  gf "SueRudderBoost" false 0 "float32" false false "" "" "" "sue_RUDDER_BOOST";
  gf "SueRtlPitchDown" false 0 "float32" false false "" "" "" "sue_RTL_PITCH_DOWN"
].
Definition S390 : gstruct := mkGS "matrixpilot" "MessageSerialUdbExtraF8" [
  gf "SueHeightTargetMax" false 0 "float32" false false "" "" "" "sue_HEIGHT_TARGET_MAX";
  gf "SueHeightTargetMin" false 0 "float32" false false "" "" "" "sue_HEIGHT_TARGET_MIN";
  gf "SueAltHoldThrottleMin" false 0 "float32" false false "" "" "" "sue_ALT_HOLD_THROTTLE_MIN";
  gf "SueAltHoldThrottleMax" false 0 "float32" false false "" "" "" "sue_ALT_HOLD_THROTTLE_MAX";
  gf "SueAltHoldPitchMin" false 0 "float32" false false "" "" "" "sue_ALT_HOLD_PITCH_MIN";
  gf "SueAltHoldPitchMax" false 0 "float32" false false "" "" "" "sue_ALT_HOLD_PITCH_MAX";
  gf "SueAltHoldPitchHigh" false 0 "float32" false false "" "" "" "sue_ALT_HOLD_PITCH_HIGH"
].
Definition S391 : gstruct := mkGS "matrixpilot" "MessageSerialUdbExtraF13" [
  gf "SueWeekNo" false 0 "int16" false false "" "" "" "";
  gf "SueLatOrigin" false 0 "int32" false false "" "" "" "";
  gf "SueLonOrigin" false 0 "int32" false false "" "" "" "";
  gf "SueAltOrigin" false 0 "int32" false false "" "" "" ""
].
Definition S392 : gstruct := mkGS "matrixpilot" "MessageSerialUdbExtraF14" [
  gf "SueWindEstimation" false 0 "uint8" false false "" "" "" "sue_WIND_ESTIMATION";
  gf "SueGpsType" false 0 "uint8" false false "" "" "" "sue_GPS_TYPE";
  gf "SueDr" false 0 "uint8" false false "" "" "" "sue_DR";
  gf "SueBoardType" false 0 "uint8" false false "" "" "" "sue_BOARD_TYPE";
  gf "SueAirframe" false 0 "uint8" false false "" "" "" "sue_AIRFRAME";
  gf "SueRcon" false 0 "int16" false false "" "" "" "sue_RCON";
  gf "SueTrapFlags" false 0 "int16" false false "" "" "" "sue_TRAP_FLAGS";
  gf "SueTrapSource" false 0 "uint32" false false "" "" "" "sue_TRAP_SOURCE";
  gf "SueOscFailCount" false 0 "int16" false false "" "" "" "";
  gf "SueClockConfig" false 0 "uint8" false false "" "" "" "sue_CLOCK_CONFIG";
  gf "SueFlightPlanType" false 0 "uint8" false false "" "" "" "sue_FLIGHT_PLAN_TYPE"
].
Definition S393 : gstruct := mkGS "matrixpilot" "MessageSerialUdbExtraF15" [
  gf "SueIdVehicleModelName" true 40 "uint8" false false "" "" "" "sue_ID_VEHICLE_MODEL_NAME";
  gf "SueIdVehicleRegistration" true 20 "uint8" false false "" "" "" "sue_ID_VEHICLE_REGISTRATION"
].
Definition S394 : gstruct := mkGS "matrixpilot" "MessageSerialUdbExtraF16" [
  gf "SueIdLeadPilot" true 40 "uint8" false false "" "" "" "sue_ID_LEAD_PILOT";
  gf "SueIdDiyDronesUrl" true 70 "uint8" false false "" "" "" "sue_ID_DIY_DRONES_URL"
].
Definition S395 : gstruct := mkGS "matrixpilot" "MessageAltitudes" [
  gf "TimeBootMs" false 0 "uint32" false false "" "" "" "";
  gf "AltGps" false 0 "int32" false false "" "" "" "";
  gf "AltImu" false 0 "int32" false false "" "" "" "";
  gf "AltBarometric" false 0 "int32" false false "" "" "" "";
  gf "AltOpticalFlow" false 0 "int32" false false "" "" "" "";
  gf "AltRangeFinder" false 0 "int32" false false "" "" "" "";
  gf "AltExtra" false 0 "int32" false false "" "" "" ""
].
Definition S396 : gstruct := mkGS "matrixpilot" "MessageAirspeeds" [
  gf "TimeBootMs" false 0 "uint32" false false "" "" "" "";
  gf "AirspeedImu" false 0 "int16" false false "" "" "" "";
  gf "AirspeedPitot" false 0 "int16" false false "" "" "" "";
  gf "AirspeedHotWire" false 0 "int16" false false "" "" "" "";
  gf "AirspeedUltrasonic" false 0 "int16" false false "" "" "" "";
  gf "Aoa" false 0 "int16" false false "" "" "" "";
  gf "Aoy" false 0 "int16" false false "" "" "" ""
].
Definition S397 : gstruct := mkGS "matrixpilot" "MessageSerialUdbExtraF17" [
  gf "SueFeedForward" false 0 "float32" false false "" "" "" "";
  gf "SueTurnRateNav" false 0 "float32" false false "" "" "" "";
  gf "SueTurnRateFbw" false 0 "float32" false false "" "" "" ""
].
Definition S398 : gstruct := mkGS "matrixpilot" "MessageSerialUdbExtraF18" [
  gf "AngleOfAttackNormal" false 0 "float32" false false "" "" "" "";
  gf "AngleOfAttackInverted" false 0 "float32" false false "" "" "" "";
  gf "ElevatorTrimNormal" false 0 "float32" false false "" "" "" "";
  gf "ElevatorTrimInverted" false 0 "float32" false false "" "" "" "";
  gf "ReferenceSpeed" false 0 "float32" false false "" "" "" ""
].
Definition S399 : gstruct := mkGS "matrixpilot" "MessageSerialUdbExtraF19" [
  gf "SueAileronOutputChannel" false 0 "uint8" false false "" "" "" "";
  gf "SueAileronReversed" false 0 "uint8" false false "" "" "" "";
  gf "SueElevatorOutputChannel" false 0 "uint8" false false "" "" "" "";
  gf "SueElevatorReversed" false 0 "uint8" false false "" "" "" "";
  gf "SueThrottleOutputChannel" false 0 "uint8" false false "" "" "" "";
  gf "SueThrottleReversed" false 0 "uint8" false false "" "" "" "";
  gf "SueRudderOutputChannel" false 0 "uint8" false false "" "" "" "";
  gf "SueRudderReversed" false 0 "uint8" false false "" "" "" ""
].
Definition S400 : gstruct := mkGS "matrixpilot" "MessageSerialUdbExtraF20" [
  gf "SueNumberOfInputs" false 0 "uint8" false false "" "" "" "";
  gf "SueTrimValueInput_1" false 0 "int16" false false "" "" "" "";
  gf "SueTrimValueInput_2" false 0 "int16" false false "" "" "" "";
  gf "SueTrimValueInput_3" false 0 "int16" false false "" "" "" "";
  gf "SueTrimValueInput_4" false 0 "int16" false false "" "" "" "";
  gf "SueTrimValueInput_5" false 0 "int16" false false "" "" "" "";
  gf "SueTrimValueInput_6" false 0 "int16" false false "" "" "" "";
  gf "SueTrimValueInput_7" false 0 "int16" false false "" "" "" "";
  gf "SueTrimValueInput_8" false 0 "int16" false false "" "" "" "";
  gf "SueTrimValueInput_9" false 0 "int16" false false "" "" "" "";
  gf "SueTrimValueInput_10" false 0 "int16" false false "" "" "" "";
  gf "SueTrimValueInput_11" false 0 "int16" false false "" "" "" "";
  gf "SueTrimValueInput_12" false 0 "int16" false false "" "" "" ""
].
Definition S401 : gstruct := mkGS "matrixpilot" "MessageSerialUdbExtraF21" [
  gf "SueAccelXOffset" false 0 "int16" false false "" "" "" "";
  gf "SueAccelYOffset" false 0 "int16" false false "" "" "" "";
  gf "SueAccelZOffset" false 0 "int16" false false "" "" "" "";
  gf "SueGyroXOffset" false 0 "int16" false false "" "" "" "";
  gf "SueGyroYOffset" false 0 "int16" false false "" "" "" "";
  gf "SueGyroZOffset" false 0 "int16" false false "" "" "" ""
].
Definition S402 : gstruct := mkGS "matrixpilot" "MessageSerialUdbExtraF22" [
  gf "SueAccelXAtCalibration" false 0 "int16" false false "" "" "" "";
  gf "SueAccelYAtCalibration" false 0 "int16" false false "" "" "" "";
  gf "SueAccelZAtCalibration" false 0 "int16" false false "" "" "" "";
  gf "SueGyroXAtCalibration" false 0 "int16" false false "" "" "" "";
  gf "SueGyroYAtCalibration" false 0 "int16" false false "" "" "" "";
  gf "SueGyroZAtCalibration" false 0 "int16" false false "" "" "" ""
].
Definition S403 : gstruct := mkGS "paparazzi" "MessageScriptItem" [
  gf "TargetSystem" false 0 "uint8" false false "" "" "" "";
  gf "TargetComponent" false 0 "uint8" false false "" "" "" "";
  gf "Seq" false 0 "uint16" false false "" "" "" "";
  gf "Name" false 0 "string" false true "" "50" "" ""
].
Definition S404 : gstruct := mkGS "paparazzi" "MessageScriptRequest" [
  gf "TargetSystem" false 0 "uint8" false false "" "" "" "";
  gf "TargetComponent" false 0 "uint8" false false "" "" "" "";
  gf "Seq" false 0 "uint16" false false "" "" "" ""
].
Definition S405 : gstruct := mkGS "paparazzi" "MessageScriptRequestList" [
  gf "TargetSystem" false 0 "uint8" false false "" "" "" "";
  gf "TargetComponent" false 0 "uint8" false false "" "" "" ""
].
Definition S406 : gstruct := mkGS "paparazzi" "MessageScriptCount" [
  gf "TargetSystem" false 0 "uint8" false false "" "" "" "";
  gf "TargetComponent" false 0 "uint8" false false "" "" "" "";
  gf "Count" false 0 "uint16" false false "" "" "" ""
].
Definition S407 : gstruct := mkGS "paparazzi" "MessageScriptCurrent" [
  gf "Seq" false 0 "uint16" false false "" "" "" ""
].

Definition structs : list gstruct := [S0; S1; S2; S3; S4; S5; S6; S7; S8; S9; S10; S11; S12; S13; S14; S15; S16; S17; S18; S19; S20; S21; S22; S23; S24; S25; S26; S27; S28; S29; S30; S31; S32; S33; S34; S35; S36; S37; S38; S39; S40; S41; S42; S43; S44; S45; S46; S47; S48; S49; S50; S51; S52; S53; S54; S55; S56; S57; S58; S59; S60; S61; S62; S63; S64; S65; S66; S67; S68; S69; S70; S71; S72; S73; S74; S75; S76; S77; S78; S79; S80; S81; S82; S83; S84; S85; S86; S87; S88; S89; S90; S91; S92; S93; S94; S95; S96; S97; S98; S99; S100; S101; S102; S103; S104; S105; S106; S107; S108; S109; S110; S111; S112; S113; S114; S115; S116; S117; S118; S119; S120; S121; S122; S123; S124; S125; S126; S127; S128; S129; S130; S131; S132; S133; S134; S135; S136; S137; S138; S139; S140; S141; S142; S143; S144; S145; S146; S147; S148; S149; S150; S151; S152; S153; S154; S155; S156; S157; S158; S159; S160; S161; S162; S163; S164; S165; S166; S167; S168; S169; S170; S171; S172; S173; S174; S175; S176; S177; S178; S179; S180; S181; S182; S183; S184; S185; S186; S187; S188; S189; S190; S191; S192; S193; S194; S195; S196; S197; S198; S199; S200; S201; S202; S203; S204; S205; S206; S207; S208; S209; S210; S211; S212; S213; S214; S215; S216; S217; S218; S219; S220; S221; S222; S223; S224; S225; S226; S227; S228; S229; S230; S231; S232; S233; S234; S235; S236; S237; S238; S239; S240; S241; S242; S243; S244; S245; S246; S247; S248; S249; S250; S251; S252; S253; S254; S255; S256; S257; S258; S259; S260; S261; S262; S263; S264; S265; S266; S267; S268; S269; S270; S271; S272; S273; S274; S275; S276; S277; S278; S279; S280; S281; S282; S283; S284; S285; S286; S287; S288; S289; S290; S291; S292; S293; S294; S295; S296; S297; S298; S299; S300; S301; S302; S303; S304; S305; S306; S307; S308; S309; S310; S311; S312; S313; S314; S315; S316; S317; S318; S319; S320; S321; S322; S323; S324; S325; S326; S327; S328; S329; S330; S331; S332; S333; S334; S335; S336; S337; S338; S339; S340; S341; S342; S343; S344; S345; S346; S347; S348; S349; S350; S351; S352; S353; S354; S355; S356; S357; S358; S359; S360; S361; S362; S363; S364; S365; S366; S367; S368; S369; S370; S371; S372; S373; S374; S375; S376; S377; S378; S379; S380; S381; S382; S383; S384; S385; S386; S387; S388; S389; S390; S391; S392; S393; S394; S395; S396; S397; S398; S399; S400; S401; S402; S403; S404; S405; S406; S407].

Definition shipped : list gdialect := [
  mkGD "all" 2 [(0, 0%nat); (300, 1%nat); (1, 2%nat); (2, 3%nat); (4, 4%nat); (5, 5%nat); (6, 6%nat); (7, 7%nat); (8, 8%nat); (11, 9%nat); (20, 10%nat); (21, 11%nat); (22, 12%nat); (23, 13%nat); (24, 14%nat); (25, 15%nat); (26, 16%nat); (27, 17%nat); (28, 18%nat); (29, 19%nat); (30, 20%nat); (31, 21%nat); (32, 22%nat); (33, 23%nat); (34, 24%nat); (35, 25%nat); (36, 26%nat); (37, 27%nat); (38, 28%nat); (39, 29%nat); (40, 30%nat); (41, 31%nat); (42, 32%nat); (43, 33%nat); (44, 34%nat); (45, 35%nat); (46, 36%nat); (47, 37%nat); (48, 38%nat); (49, 39%nat); (50, 40%nat); (51, 41%nat); (54, 42%nat); (55, 43%nat); (61, 44%nat); (62, 45%nat); (63, 46%nat); (64, 47%nat); (65, 48%nat); (66, 49%nat); (67, 50%nat); (69, 51%nat); (70, 52%nat); (73, 53%nat); (74, 54%nat); (75, 55%nat); (76, 56%nat); (77, 57%nat); (80, 58%nat); (81, 59%nat); (82, 60%nat); (83, 61%nat); (84, 62%nat); (85, 63%nat); (86, 64%nat); (87, 65%nat); (89, 66%nat); (90, 67%nat); (91, 68%nat); (92, 69%nat); (93, 70%nat); (100, 71%nat); (101, 72%nat); (102, 73%nat); (103, 74%nat); (104, 75%nat); (105, 76%nat); (106, 77%nat); (107, 78%nat); (108, 79%nat); (109, 80%nat); (110, 81%nat); (111, 82%nat); (112, 83%nat); (113, 84%nat); (114, 85%nat); (115, 86%nat); (116, 87%nat); (117, 88%nat); (118, 89%nat); (119, 90%nat); (120, 91%nat); (121, 92%nat); (122, 93%nat); (123, 94%nat); (124, 95%nat); (125, 96%nat); (126, 97%nat); (127, 98%nat); (128, 99%nat); (129, 100%nat); (130, 101%nat); (131, 102%nat); (132, 103%nat); (133, 104%nat); (134, 105%nat); (135, 106%nat); (136, 107%nat); (137, 108%nat); (138, 109%nat); (139, 110%nat); (140, 111%nat); (141, 112%nat); (142, 113%nat); (143, 114%nat); (144, 115%nat); (146, 116%nat); (147, 117%nat); (148, 118%nat); (149, 119%nat); (162, 120%nat); (192, 121%nat); (225, 122%nat); (230, 123%nat); (231, 124%nat); (232, 125%nat); (233, 126%nat); (234, 127%nat); (235, 128%nat); (241, 129%nat); (242, 130%nat); (243, 131%nat); (244, 132%nat); (245, 133%nat); (246, 134%nat); (247, 135%nat); (248, 136%nat); (249, 137%nat); (250, 138%nat); (251, 139%nat); (252, 140%nat); (253, 141%nat); (254, 142%nat); (256, 143%nat); (257, 144%nat); (258, 145%nat); (259, 146%nat); (260, 147%nat); (261, 148%nat); (262, 149%nat); (263, 150%nat); (264, 151%nat); (265, 152%nat); (266, 153%nat); (267, 154%nat); (268, 155%nat); (269, 156%nat); (270, 157%nat); (271, 158%nat); (275, 159%nat); (276, 160%nat); (277, 161%nat); (280, 162%nat); (281, 163%nat); (282, 164%nat); (283, 165%nat); (284, 166%nat); (285, 167%nat); (286, 168%nat); (287, 169%nat); (288, 170%nat); (290, 171%nat); (291, 172%nat); (299, 173%nat); (301, 174%nat); (310, 175%nat); (311, 176%nat); (320, 177%nat); (321, 178%nat); (322, 179%nat); (323, 180%nat); (324, 181%nat); (330, 182%nat); (331, 183%nat); (332, 184%nat); (333, 185%nat); (334, 186%nat); (335, 187%nat); (336, 188%nat); (339, 189%nat); (340, 190%nat); (350, 191%nat); (360, 192%nat); (370, 193%nat); (371, 194%nat); (372, 195%nat); (373, 196%nat); (375, 197%nat); (380, 198%nat); (385, 199%nat); (386, 200%nat); (390, 201%nat); (395, 202%nat); (396, 203%nat); (397, 204%nat); (400, 205%nat); (401, 206%nat); (410, 207%nat); (411, 208%nat); (412, 209%nat); (413, 210%nat); (435, 211%nat); (436, 212%nat); (437, 213%nat); (440, 214%nat); (387, 215%nat); (388, 216%nat); (9000, 217%nat); (9005, 218%nat); (12900, 219%nat); (12901, 220%nat); (12902, 221%nat); (12903, 222%nat); (12904, 223%nat); (12905, 224%nat); (12915, 225%nat); (12918, 226%nat); (12919, 227%nat); (12920, 228%nat); (10001, 229%nat); (10002, 230%nat); (10003, 231%nat); (10004, 232%nat); (10005, 233%nat); (10006, 234%nat); (10007, 235%nat); (10008, 236%nat); (42000, 237%nat); (42001, 238%nat); (10151, 239%nat); (50001, 240%nat); (50002, 241%nat); (50003, 242%nat); (50004, 243%nat); (50005, 244%nat); (52000, 245%nat); (52001, 246%nat); (52002, 247%nat); (52003, 248%nat); (52004, 249%nat); (52005, 250%nat); (150, 251%nat); (151, 252%nat); (152, 253%nat); (153, 254%nat); (154, 255%nat); (155, 256%nat); (156, 257%nat); (157, 258%nat); (158, 259%nat); (160, 260%nat); (161, 261%nat); (163, 262%nat); (164, 263%nat); (165, 264%nat); (166, 265%nat); (167, 266%nat); (168, 267%nat); (169, 268%nat); (170, 269%nat); (171, 270%nat); (172, 271%nat); (173, 272%nat); (174, 273%nat); (175, 274%nat); (176, 275%nat); (177, 276%nat); (178, 277%nat); (179, 278%nat); (180, 279%nat); (181, 280%nat); (182, 281%nat); (183, 282%nat); (184, 283%nat); (185, 284%nat); (186, 285%nat); (191, 286%nat); (193, 287%nat); (194, 288%nat); (195, 289%nat); (200, 290%nat); (201, 291%nat); (214, 292%nat); (215, 293%nat); (216, 294%nat); (217, 295%nat); (218, 296%nat); (219, 297%nat); (226, 298%nat); (11000, 299%nat); (11001, 300%nat); (11002, 301%nat); (11003, 302%nat); (11004, 303%nat); (11005, 304%nat); (11010, 305%nat); (11011, 306%nat); (11020, 307%nat); (11030, 308%nat); (11031, 309%nat); (11032, 310%nat); (11033, 311%nat); (11034, 312%nat); (11035, 313%nat); (11036, 314%nat); (11037, 315%nat); (11038, 316%nat); (11039, 317%nat); (11040, 318%nat); (11041, 319%nat); (11042, 320%nat); (11043, 321%nat); (11044, 322%nat); (223, 323%nat); (224, 324%nat); (8002, 325%nat); (8003, 326%nat); (8004, 327%nat); (8005, 328%nat); (8006, 329%nat); (8007, 330%nat); (8008, 331%nat); (8009, 332%nat); (8010, 333%nat); (8011, 334%nat); (8012, 335%nat); (8013, 336%nat); (8014, 337%nat); (8015, 338%nat); (8016, 339%nat); (295, 340%nat); (354, 341%nat); (355, 342%nat); (361, 343%nat); (369, 344%nat); (414, 345%nat); (415, 346%nat); (420, 347%nat); (441, 348%nat); (510, 349%nat); (511, 350%nat); (512, 351%nat); (17150, 352%nat); (17151, 353%nat); (17153, 354%nat); (17154, 355%nat); (17155, 356%nat); (17156, 357%nat); (17157, 358%nat); (17158, 359%nat); (17000, 360%nat); (220, 361%nat); (221, 362%nat); (222, 363%nat); (60010, 364%nat); (60011, 365%nat); (60012, 366%nat); (60013, 367%nat); (60014, 368%nat); (60020, 369%nat); (60040, 370%nat); (60041, 371%nat); (60050, 372%nat); (60051, 373%nat); (60052, 374%nat); (60053, 375%nat)];
  mkGD "ardupilotmega" 3 [(0, 0%nat); (300, 1%nat); (1, 2%nat); (2, 3%nat); (4, 4%nat); (5, 5%nat); (6, 6%nat); (7, 7%nat); (8, 8%nat); (11, 9%nat); (20, 10%nat); (21, 11%nat); (22, 12%nat); (23, 13%nat); (24, 14%nat); (25, 15%nat); (26, 16%nat); (27, 17%nat); (28, 18%nat); (29, 19%nat); (30, 20%nat); (31, 21%nat); (32, 22%nat); (33, 23%nat); (34, 24%nat); (35, 25%nat); (36, 26%nat); (37, 27%nat); (38, 28%nat); (39, 29%nat); (40, 30%nat); (41, 31%nat); (42, 32%nat); (43, 33%nat); (44, 34%nat); (45, 35%nat); (46, 36%nat); (47, 37%nat); (48, 38%nat); (49, 39%nat); (50, 40%nat); (51, 41%nat); (54, 42%nat); (55, 43%nat); (61, 44%nat); (62, 45%nat); (63, 46%nat); (64, 47%nat); (65, 48%nat); (66, 49%nat); (67, 50%nat); (69, 51%nat); (70, 52%nat); (73, 53%nat); (74, 54%nat); (75, 55%nat); (76, 56%nat); (77, 57%nat); (80, 58%nat); (81, 59%nat); (82, 60%nat); (83, 61%nat); (84, 62%nat); (85, 63%nat); (86, 64%nat); (87, 65%nat); (89, 66%nat); (90, 67%nat); (91, 68%nat); (92, 69%nat); (93, 70%nat); (100, 71%nat); (101, 72%nat); (102, 73%nat); (103, 74%nat); (104, 75%nat); (105, 76%nat); (106, 77%nat); (107, 78%nat); (108, 79%nat); (109, 80%nat); (110, 81%nat); (111, 82%nat); (112, 83%nat); (113, 84%nat); (114, 85%nat); (115, 86%nat); (116, 87%nat); (117, 88%nat); (118, 89%nat); (119, 90%nat); (120, 91%nat); (121, 92%nat); (122, 93%nat); (123, 94%nat); (124, 95%nat); (125, 96%nat); (126, 97%nat); (127, 98%nat); (128, 99%nat); (129, 100%nat); (130, 101%nat); (131, 102%nat); (132, 103%nat); (133, 104%nat); (134, 105%nat); (135, 106%nat); (136, 107%nat); (137, 108%nat); (138, 109%nat); (139, 110%nat); (140, 111%nat); (141, 112%nat); (142, 113%nat); (143, 114%nat); (144, 115%nat); (146, 116%nat); (147, 117%nat); (148, 118%nat); (149, 119%nat); (162, 120%nat); (192, 121%nat); (225, 122%nat); (230, 123%nat); (231, 124%nat); (232, 125%nat); (233, 126%nat); (234, 127%nat); (235, 128%nat); (241, 129%nat); (242, 130%nat); (243, 131%nat); (244, 132%nat); (245, 133%nat); (246, 134%nat); (247, 135%nat); (248, 136%nat); (249, 137%nat); (250, 138%nat); (251, 139%nat); (252, 140%nat); (253, 141%nat); (254, 142%nat); (256, 143%nat); (257, 144%nat); (258, 145%nat); (259, 146%nat); (260, 147%nat); (261, 148%nat); (262, 149%nat); (263, 150%nat); (264, 151%nat); (265, 152%nat); (266, 153%nat); (267, 154%nat); (268, 155%nat); (269, 156%nat); (270, 157%nat); (271, 158%nat); (275, 159%nat); (276, 160%nat); (277, 161%nat); (280, 162%nat); (281, 163%nat); (282, 164%nat); (283, 165%nat); (284, 166%nat); (285, 167%nat); (286, 168%nat); (287, 169%nat); (288, 170%nat); (290, 171%nat); (291, 172%nat); (299, 173%nat); (301, 174%nat); (310, 175%nat); (311, 176%nat); (320, 177%nat); (321, 178%nat); (322, 179%nat); (323, 180%nat); (324, 181%nat); (330, 182%nat); (331, 183%nat); (332, 184%nat); (333, 185%nat); (334, 186%nat); (335, 187%nat); (336, 188%nat); (339, 189%nat); (340, 190%nat); (350, 191%nat); (360, 192%nat); (370, 193%nat); (371, 194%nat); (372, 195%nat); (373, 196%nat); (375, 197%nat); (380, 198%nat); (385, 199%nat); (386, 200%nat); (390, 201%nat); (395, 202%nat); (396, 203%nat); (397, 204%nat); (400, 205%nat); (401, 206%nat); (410, 207%nat); (411, 208%nat); (412, 209%nat); (413, 210%nat); (435, 211%nat); (436, 212%nat); (437, 213%nat); (440, 214%nat); (387, 215%nat); (388, 216%nat); (9000, 217%nat); (9005, 218%nat); (12900, 219%nat); (12901, 220%nat); (12902, 221%nat); (12903, 222%nat); (12904, 223%nat); (12905, 224%nat); (12915, 225%nat); (12918, 226%nat); (12919, 227%nat); (12920, 228%nat); (10001, 229%nat); (10002, 230%nat); (10003, 231%nat); (10004, 232%nat); (10005, 233%nat); (10006, 234%nat); (10007, 235%nat); (10008, 236%nat); (42000, 237%nat); (42001, 238%nat); (10151, 239%nat); (50001, 240%nat); (50002, 241%nat); (50003, 242%nat); (50004, 243%nat); (50005, 244%nat); (52000, 245%nat); (52001, 246%nat); (52002, 247%nat); (52003, 248%nat); (52004, 249%nat); (52005, 250%nat); (150, 251%nat); (151, 252%nat); (152, 253%nat); (153, 254%nat); (154, 255%nat); (155, 256%nat); (156, 257%nat); (157, 258%nat); (158, 259%nat); (160, 260%nat); (161, 261%nat); (163, 262%nat); (164, 263%nat); (165, 264%nat); (166, 265%nat); (167, 266%nat); (168, 267%nat); (169, 268%nat); (170, 269%nat); (171, 270%nat); (172, 271%nat); (173, 272%nat); (174, 273%nat); (175, 274%nat); (176, 275%nat); (177, 276%nat); (178, 277%nat); (179, 278%nat); (180, 279%nat); (181, 280%nat); (182, 281%nat); (183, 282%nat); (184, 283%nat); (185, 284%nat); (186, 285%nat); (191, 286%nat); (193, 287%nat); (194, 288%nat); (195, 289%nat); (200, 290%nat); (201, 291%nat); (214, 292%nat); (215, 293%nat); (216, 294%nat); (217, 295%nat); (218, 296%nat); (219, 297%nat); (226, 298%nat); (11000, 299%nat); (11001, 300%nat); (11002, 301%nat); (11003, 302%nat); (11004, 303%nat); (11005, 304%nat); (11010, 305%nat); (11011, 306%nat); (11020, 307%nat); (11030, 308%nat); (11031, 309%nat); (11032, 310%nat); (11033, 311%nat); (11034, 312%nat); (11035, 313%nat); (11036, 314%nat); (11037, 315%nat); (11038, 316%nat); (11039, 317%nat); (11040, 318%nat); (11041, 319%nat); (11042, 320%nat); (11043, 321%nat); (11044, 322%nat)];
  mkGD "asluav" 3 [(0, 0%nat); (300, 1%nat); (1, 2%nat); (2, 3%nat); (4, 4%nat); (5, 5%nat); (6, 6%nat); (7, 7%nat); (8, 8%nat); (11, 9%nat); (20, 10%nat); (21, 11%nat); (22, 12%nat); (23, 13%nat); (24, 14%nat); (25, 15%nat); (26, 16%nat); (27, 17%nat); (28, 18%nat); (29, 19%nat); (30, 20%nat); (31, 21%nat); (32, 22%nat); (33, 23%nat); (34, 24%nat); (35, 25%nat); (36, 26%nat); (37, 27%nat); (38, 28%nat); (39, 29%nat); (40, 30%nat); (41, 31%nat); (42, 32%nat); (43, 33%nat); (44, 34%nat); (45, 35%nat); (46, 36%nat); (47, 37%nat); (48, 38%nat); (49, 39%nat); (50, 40%nat); (51, 41%nat); (54, 42%nat); (55, 43%nat); (61, 44%nat); (62, 45%nat); (63, 46%nat); (64, 47%nat); (65, 48%nat); (66, 49%nat); (67, 50%nat); (69, 51%nat); (70, 52%nat); (73, 53%nat); (74, 54%nat); (75, 55%nat); (76, 56%nat); (77, 57%nat); (80, 58%nat); (81, 59%nat); (82, 60%nat); (83, 61%nat); (84, 62%nat); (85, 63%nat); (86, 64%nat); (87, 65%nat); (89, 66%nat); (90, 67%nat); (91, 68%nat); (92, 69%nat); (93, 70%nat); (100, 71%nat); (101, 72%nat); (102, 73%nat); (103, 74%nat); (104, 75%nat); (105, 76%nat); (106, 77%nat); (107, 78%nat); (108, 79%nat); (109, 80%nat); (110, 81%nat); (111, 82%nat); (112, 83%nat); (113, 84%nat); (114, 85%nat); (115, 86%nat); (116, 87%nat); (117, 88%nat); (118, 89%nat); (119, 90%nat); (120, 91%nat); (121, 92%nat); (122, 93%nat); (123, 94%nat); (124, 95%nat); (125, 96%nat); (126, 97%nat); (127, 98%nat); (128, 99%nat); (129, 100%nat); (130, 101%nat); (131, 102%nat); (132, 103%nat); (133, 104%nat); (134, 105%nat); (135, 106%nat); (136, 107%nat); (137, 108%nat); (138, 109%nat); (139, 110%nat); (140, 111%nat); (141, 112%nat); (142, 113%nat); (143, 114%nat); (144, 115%nat); (146, 116%nat); (147, 117%nat); (148, 118%nat); (149, 119%nat); (162, 120%nat); (192, 121%nat); (225, 122%nat); (230, 123%nat); (231, 124%nat); (232, 125%nat); (233, 126%nat); (234, 127%nat); (235, 128%nat); (241, 129%nat); (242, 130%nat); (243, 131%nat); (244, 132%nat); (245, 133%nat); (246, 134%nat); (247, 135%nat); (248, 136%nat); (249, 137%nat); (250, 138%nat); (251, 139%nat); (252, 140%nat); (253, 141%nat); (254, 142%nat); (256, 143%nat); (257, 144%nat); (258, 145%nat); (259, 146%nat); (260, 147%nat); (261, 148%nat); (262, 149%nat); (263, 150%nat); (264, 151%nat); (265, 152%nat); (266, 153%nat); (267, 154%nat); (268, 155%nat); (269, 156%nat); (270, 157%nat); (271, 158%nat); (275, 159%nat); (276, 160%nat); (277, 161%nat); (280, 162%nat); (281, 163%nat); (282, 164%nat); (283, 165%nat); (284, 166%nat); (285, 167%nat); (286, 168%nat); (287, 169%nat); (288, 170%nat); (290, 171%nat); (291, 172%nat); (299, 173%nat); (301, 174%nat); (310, 175%nat); (311, 176%nat); (320, 177%nat); (321, 178%nat); (322, 179%nat); (323, 180%nat); (324, 181%nat); (330, 182%nat); (331, 183%nat); (332, 184%nat); (333, 185%nat); (334, 186%nat); (335, 187%nat); (336, 188%nat); (339, 189%nat); (340, 190%nat); (350, 191%nat); (360, 192%nat); (370, 193%nat); (371, 194%nat); (372, 195%nat); (373, 196%nat); (375, 197%nat); (380, 198%nat); (385, 199%nat); (386, 200%nat); (390, 201%nat); (395, 202%nat); (396, 203%nat); (397, 204%nat); (400, 205%nat); (401, 206%nat); (410, 207%nat); (411, 208%nat); (412, 209%nat); (413, 210%nat); (435, 211%nat); (436, 212%nat); (437, 213%nat); (440, 214%nat); (387, 215%nat); (388, 216%nat); (9000, 217%nat); (9005, 218%nat); (12900, 219%nat); (12901, 220%nat); (12902, 221%nat); (12903, 222%nat); (12904, 223%nat); (12905, 224%nat); (12915, 225%nat); (12918, 226%nat); (12919, 227%nat); (12920, 228%nat); (223, 323%nat); (224, 324%nat); (8002, 325%nat); (8003, 326%nat); (8004, 327%nat); (8005, 328%nat); (8006, 329%nat); (8007, 330%nat); (8008, 331%nat); (8009, 332%nat); (8010, 333%nat); (8011, 334%nat); (8012, 335%nat); (8013, 336%nat); (8014, 337%nat); (8015, 338%nat); (8016, 339%nat)];
  mkGD "avssuas" 2 [(0, 0%nat); (300, 1%nat); (1, 2%nat); (2, 3%nat); (4, 4%nat); (5, 5%nat); (6, 6%nat); (7, 7%nat); (8, 8%nat); (11, 9%nat); (20, 10%nat); (21, 11%nat); (22, 12%nat); (23, 13%nat); (24, 14%nat); (25, 15%nat); (26, 16%nat); (27, 17%nat); (28, 18%nat); (29, 19%nat); (30, 20%nat); (31, 21%nat); (32, 22%nat); (33, 23%nat); (34, 24%nat); (35, 25%nat); (36, 26%nat); (37, 27%nat); (38, 28%nat); (39, 29%nat); (40, 30%nat); (41, 31%nat); (42, 32%nat); (43, 33%nat); (44, 34%nat); (45, 35%nat); (46, 36%nat); (47, 37%nat); (48, 38%nat); (49, 39%nat); (50, 40%nat); (51, 41%nat); (54, 42%nat); (55, 43%nat); (61, 44%nat); (62, 45%nat); (63, 46%nat); (64, 47%nat); (65, 48%nat); (66, 49%nat); (67, 50%nat); (69, 51%nat); (70, 52%nat); (73, 53%nat); (74, 54%nat); (75, 55%nat); (76, 56%nat); (77, 57%nat); (80, 58%nat); (81, 59%nat); (82, 60%nat); (83, 61%nat); (84, 62%nat); (85, 63%nat); (86, 64%nat); (87, 65%nat); (89, 66%nat); (90, 67%nat); (91, 68%nat); (92, 69%nat); (93, 70%nat); (100, 71%nat); (101, 72%nat); (102, 73%nat); (103, 74%nat); (104, 75%nat); (105, 76%nat); (106, 77%nat); (107, 78%nat); (108, 79%nat); (109, 80%nat); (110, 81%nat); (111, 82%nat); (112, 83%nat); (113, 84%nat); (114, 85%nat); (115, 86%nat); (116, 87%nat); (117, 88%nat); (118, 89%nat); (119, 90%nat); (120, 91%nat); (121, 92%nat); (122, 93%nat); (123, 94%nat); (124, 95%nat); (125, 96%nat); (126, 97%nat); (127, 98%nat); (128, 99%nat); (129, 100%nat); (130, 101%nat); (131, 102%nat); (132, 103%nat); (133, 104%nat); (134, 105%nat); (135, 106%nat); (136, 107%nat); (137, 108%nat); (138, 109%nat); (139, 110%nat); (140, 111%nat); (141, 112%nat); (142, 113%nat); (143, 114%nat); (144, 115%nat); (146, 116%nat); (147, 117%nat); (148, 118%nat); (149, 119%nat); (162, 120%nat); (192, 121%nat); (225, 122%nat); (230, 123%nat); (231, 124%nat); (232, 125%nat); (233, 126%nat); (234, 127%nat); (235, 128%nat); (241, 129%nat); (242, 130%nat); (243, 131%nat); (244, 132%nat); (245, 133%nat); (246, 134%nat); (247, 135%nat); (248, 136%nat); (249, 137%nat); (250, 138%nat); (251, 139%nat); (252, 140%nat); (253, 141%nat); (254, 142%nat); (256, 143%nat); (257, 144%nat); (258, 145%nat); (259, 146%nat); (260, 147%nat); (261, 148%nat); (262, 149%nat); (263, 150%nat); (264, 151%nat); (265, 152%nat); (266, 153%nat); (267, 154%nat); (268, 155%nat); (269, 156%nat); (270, 157%nat); (271, 158%nat); (275, 159%nat); (276, 160%nat); (277, 161%nat); (280, 162%nat); (281, 163%nat); (282, 164%nat); (283, 165%nat); (284, 166%nat); (285, 167%nat); (286, 168%nat); (287, 169%nat); (288, 170%nat); (290, 171%nat); (291, 172%nat); (299, 173%nat); (301, 174%nat); (310, 175%nat); (311, 176%nat); (320, 177%nat); (321, 178%nat); (322, 179%nat); (323, 180%nat); (324, 181%nat); (330, 182%nat); (331, 183%nat); (332, 184%nat); (333, 185%nat); (334, 186%nat); (335, 187%nat); (336, 188%nat); (339, 189%nat); (340, 190%nat); (350, 191%nat); (360, 192%nat); (370, 193%nat); (371, 194%nat); (372, 195%nat); (373, 196%nat); (375, 197%nat); (380, 198%nat); (385, 199%nat); (386, 200%nat); (390, 201%nat); (395, 202%nat); (396, 203%nat); (397, 204%nat); (400, 205%nat); (401, 206%nat); (410, 207%nat); (411, 208%nat); (412, 209%nat); (413, 210%nat); (435, 211%nat); (436, 212%nat); (437, 213%nat); (440, 214%nat); (387, 215%nat); (388, 216%nat); (9000, 217%nat); (9005, 218%nat); (12900, 219%nat); (12901, 220%nat); (12902, 221%nat); (12903, 222%nat); (12904, 223%nat); (12905, 224%nat); (12915, 225%nat); (12918, 226%nat); (12919, 227%nat); (12920, 228%nat); (60050, 372%nat); (60051, 373%nat); (60052, 374%nat); (60053, 375%nat)];
  mkGD "common" 3 [(0, 0%nat); (300, 1%nat); (1, 2%nat); (2, 3%nat); (4, 4%nat); (5, 5%nat); (6, 6%nat); (7, 7%nat); (8, 8%nat); (11, 9%nat); (20, 10%nat); (21, 11%nat); (22, 12%nat); (23, 13%nat); (24, 14%nat); (25, 15%nat); (26, 16%nat); (27, 17%nat); (28, 18%nat); (29, 19%nat); (30, 20%nat); (31, 21%nat); (32, 22%nat); (33, 23%nat); (34, 24%nat); (35, 25%nat); (36, 26%nat); (37, 27%nat); (38, 28%nat); (39, 29%nat); (40, 30%nat); (41, 31%nat); (42, 32%nat); (43, 33%nat); (44, 34%nat); (45, 35%nat); (46, 36%nat); (47, 37%nat); (48, 38%nat); (49, 39%nat); (50, 40%nat); (51, 41%nat); (54, 42%nat); (55, 43%nat); (61, 44%nat); (62, 45%nat); (63, 46%nat); (64, 47%nat); (65, 48%nat); (66, 49%nat); (67, 50%nat); (69, 51%nat); (70, 52%nat); (73, 53%nat); (74, 54%nat); (75, 55%nat); (76, 56%nat); (77, 57%nat); (80, 58%nat); (81, 59%nat); (82, 60%nat); (83, 61%nat); (84, 62%nat); (85, 63%nat); (86, 64%nat); (87, 65%nat); (89, 66%nat); (90, 67%nat); (91, 68%nat); (92, 69%nat); (93, 70%nat); (100, 71%nat); (101, 72%nat); (102, 73%nat); (103, 74%nat); (104, 75%nat); (105, 76%nat); (106, 77%nat); (107, 78%nat); (108, 79%nat); (109, 80%nat); (110, 81%nat); (111, 82%nat); (112, 83%nat); (113, 84%nat); (114, 85%nat); (115, 86%nat); (116, 87%nat); (117, 88%nat); (118, 89%nat); (119, 90%nat); (120, 91%nat); (121, 92%nat); (122, 93%nat); (123, 94%nat); (124, 95%nat); (125, 96%nat); (126, 97%nat); (127, 98%nat); (128, 99%nat); (129, 100%nat); (130, 101%nat); (131, 102%nat); (132, 103%nat); (133, 104%nat); (134, 105%nat); (135, 106%nat); (136, 107%nat); (137, 108%nat); (138, 109%nat); (139, 110%nat); (140, 111%nat); (141, 112%nat); (142, 113%nat); (143, 114%nat); (144, 115%nat); (146, 116%nat); (147, 117%nat); (148, 118%nat); (149, 119%nat); (162, 120%nat); (192, 121%nat); (225, 122%nat); (230, 123%nat); (231, 124%nat); (232, 125%nat); (233, 126%nat); (234, 127%nat); (235, 128%nat); (241, 129%nat); (242, 130%nat); (243, 131%nat); (244, 132%nat); (245, 133%nat); (246, 134%nat); (247, 135%nat); (248, 136%nat); (249, 137%nat); (250, 138%nat); (251, 139%nat); (252, 140%nat); (253, 141%nat); (254, 142%nat); (256, 143%nat); (257, 144%nat); (258, 145%nat); (259, 146%nat); (260, 147%nat); (261, 148%nat); (262, 149%nat); (263, 150%nat); (264, 151%nat); (265, 152%nat); (266, 153%nat); (267, 154%nat); (268, 155%nat); (269, 156%nat); (270, 157%nat); (271, 158%nat); (275, 159%nat); (276, 160%nat); (277, 161%nat); (280, 162%nat); (281, 163%nat); (282, 164%nat); (283, 165%nat); (284, 166%nat); (285, 167%nat); (286, 168%nat); (287, 169%nat); (288, 170%nat); (290, 171%nat); (291, 172%nat); (299, 173%nat); (301, 174%nat); (310, 175%nat); (311, 176%nat); (320, 177%nat); (321, 178%nat); (322, 179%nat); (323, 180%nat); (324, 181%nat); (330, 182%nat); (331, 183%nat); (332, 184%nat); (333, 185%nat); (334, 186%nat); (335, 187%nat); (336, 188%nat); (339, 189%nat); (340, 190%nat); (350, 191%nat); (360, 192%nat); (370, 193%nat); (371, 194%nat); (372, 195%nat); (373, 196%nat); (375, 197%nat); (380, 198%nat); (385, 199%nat); (386, 200%nat); (390, 201%nat); (395, 202%nat); (396, 203%nat); (397, 204%nat); (400, 205%nat); (401, 206%nat); (410, 207%nat); (411, 208%nat); (412, 209%nat); (413, 210%nat); (435, 211%nat); (436, 212%nat); (437, 213%nat); (440, 214%nat); (387, 215%nat); (388, 216%nat); (9000, 217%nat); (9005, 218%nat); (12900, 219%nat); (12901, 220%nat); (12902, 221%nat); (12903, 222%nat); (12904, 223%nat); (12905, 224%nat); (12915, 225%nat); (12918, 226%nat); (12919, 227%nat); (12920, 228%nat)];
  mkGD "csairlink" 3 [(52000, 245%nat); (52001, 246%nat); (52002, 247%nat); (52003, 248%nat); (52004, 249%nat); (52005, 250%nat)];
  mkGD "cubepilot" 3 [(0, 0%nat); (300, 1%nat); (1, 2%nat); (2, 3%nat); (4, 4%nat); (5, 5%nat); (6, 6%nat); (7, 7%nat); (8, 8%nat); (11, 9%nat); (20, 10%nat); (21, 11%nat); (22, 12%nat); (23, 13%nat); (24, 14%nat); (25, 15%nat); (26, 16%nat); (27, 17%nat); (28, 18%nat); (29, 19%nat); (30, 20%nat); (31, 21%nat); (32, 22%nat); (33, 23%nat); (34, 24%nat); (35, 25%nat); (36, 26%nat); (37, 27%nat); (38, 28%nat); (39, 29%nat); (40, 30%nat); (41, 31%nat); (42, 32%nat); (43, 33%nat); (44, 34%nat); (45, 35%nat); (46, 36%nat); (47, 37%nat); (48, 38%nat); (49, 39%nat); (50, 40%nat); (51, 41%nat); (54, 42%nat); (55, 43%nat); (61, 44%nat); (62, 45%nat); (63, 46%nat); (64, 47%nat); (65, 48%nat); (66, 49%nat); (67, 50%nat); (69, 51%nat); (70, 52%nat); (73, 53%nat); (74, 54%nat); (75, 55%nat); (76, 56%nat); (77, 57%nat); (80, 58%nat); (81, 59%nat); (82, 60%nat); (83, 61%nat); (84, 62%nat); (85, 63%nat); (86, 64%nat); (87, 65%nat); (89, 66%nat); (90, 67%nat); (91, 68%nat); (92, 69%nat); (93, 70%nat); (100, 71%nat); (101, 72%nat); (102, 73%nat); (103, 74%nat); (104, 75%nat); (105, 76%nat); (106, 77%nat); (107, 78%nat); (108, 79%nat); (109, 80%nat); (110, 81%nat); (111, 82%nat); (112, 83%nat); (113, 84%nat); (114, 85%nat); (115, 86%nat); (116, 87%nat); (117, 88%nat); (118, 89%nat); (119, 90%nat); (120, 91%nat); (121, 92%nat); (122, 93%nat); (123, 94%nat); (124, 95%nat); (125, 96%nat); (126, 97%nat); (127, 98%nat); (128, 99%nat); (129, 100%nat); (130, 101%nat); (131, 102%nat); (132, 103%nat); (133, 104%nat); (134, 105%nat); (135, 106%nat); (136, 107%nat); (137, 108%nat); (138, 109%nat); (139, 110%nat); (140, 111%nat); (141, 112%nat); (142, 113%nat); (143, 114%nat); (144, 115%nat); (146, 116%nat); (147, 117%nat); (148, 118%nat); (149, 119%nat); (162, 120%nat); (192, 121%nat); (225, 122%nat); (230, 123%nat); (231, 124%nat); (232, 125%nat); (233, 126%nat); (234, 127%nat); (235, 128%nat); (241, 129%nat); (242, 130%nat); (243, 131%nat); (244, 132%nat); (245, 133%nat); (246, 134%nat); (247, 135%nat); (248, 136%nat); (249, 137%nat); (250, 138%nat); (251, 139%nat); (252, 140%nat); (253, 141%nat); (254, 142%nat); (256, 143%nat); (257, 144%nat); (258, 145%nat); (259, 146%nat); (260, 147%nat); (261, 148%nat); (262, 149%nat); (263, 150%nat); (264, 151%nat); (265, 152%nat); (266, 153%nat); (267, 154%nat); (268, 155%nat); (269, 156%nat); (270, 157%nat); (271, 158%nat); (275, 159%nat); (276, 160%nat); (277, 161%nat); (280, 162%nat); (281, 163%nat); (282, 164%nat); (283, 165%nat); (284, 166%nat); (285, 167%nat); (286, 168%nat); (287, 169%nat); (288, 170%nat); (290, 171%nat); (291, 172%nat); (299, 173%nat); (301, 174%nat); (310, 175%nat); (311, 176%nat); (320, 177%nat); (321, 178%nat); (322, 179%nat); (323, 180%nat); (324, 181%nat); (330, 182%nat); (331, 183%nat); (332, 184%nat); (333, 185%nat); (334, 186%nat); (335, 187%nat); (336, 188%nat); (339, 189%nat); (340, 190%nat); (350, 191%nat); (360, 192%nat); (370, 193%nat); (371, 194%nat); (372, 195%nat); (373, 196%nat); (375, 197%nat); (380, 198%nat); (385, 199%nat); (386, 200%nat); (390, 201%nat); (395, 202%nat); (396, 203%nat); (397, 204%nat); (400, 205%nat); (401, 206%nat); (410, 207%nat); (411, 208%nat); (412, 209%nat); (413, 210%nat); (435, 211%nat); (436, 212%nat); (437, 213%nat); (440, 214%nat); (387, 215%nat); (388, 216%nat); (9000, 217%nat); (9005, 218%nat); (12900, 219%nat); (12901, 220%nat); (12902, 221%nat); (12903, 222%nat); (12904, 223%nat); (12905, 224%nat); (12915, 225%nat); (12918, 226%nat); (12919, 227%nat); (12920, 228%nat); (50001, 240%nat); (50002, 241%nat); (50003, 242%nat); (50004, 243%nat); (50005, 244%nat)];
  mkGD "development" 0 [(0, 0%nat); (300, 1%nat); (1, 2%nat); (2, 3%nat); (4, 4%nat); (5, 5%nat); (6, 6%nat); (7, 7%nat); (8, 8%nat); (11, 9%nat); (20, 10%nat); (21, 11%nat); (22, 12%nat); (23, 13%nat); (24, 14%nat); (25, 15%nat); (26, 16%nat); (27, 17%nat); (28, 18%nat); (29, 19%nat); (30, 20%nat); (31, 21%nat); (32, 22%nat); (33, 23%nat); (34, 24%nat); (35, 25%nat); (36, 26%nat); (37, 27%nat); (38, 28%nat); (39, 29%nat); (40, 30%nat); (41, 31%nat); (42, 32%nat); (43, 33%nat); (44, 34%nat); (45, 35%nat); (46, 36%nat); (47, 37%nat); (48, 38%nat); (49, 39%nat); (50, 40%nat); (51, 41%nat); (54, 42%nat); (55, 43%nat); (61, 44%nat); (62, 45%nat); (63, 46%nat); (64, 47%nat); (65, 48%nat); (66, 49%nat); (67, 50%nat); (69, 51%nat); (70, 52%nat); (73, 53%nat); (74, 54%nat); (75, 55%nat); (76, 56%nat); (77, 57%nat); (80, 58%nat); (81, 59%nat); (82, 60%nat); (83, 61%nat); (84, 62%nat); (85, 63%nat); (86, 64%nat); (87, 65%nat); (89, 66%nat); (90, 67%nat); (91, 68%nat); (92, 69%nat); (93, 70%nat); (100, 71%nat); (101, 72%nat); (102, 73%nat); (103, 74%nat); (104, 75%nat); (105, 76%nat); (106, 77%nat); (107, 78%nat); (108, 79%nat); (109, 80%nat); (110, 81%nat); (111, 82%nat); (112, 83%nat); (113, 84%nat); (114, 85%nat); (115, 86%nat); (116, 87%nat); (117, 88%nat); (118, 89%nat); (119, 90%nat); (120, 91%nat); (121, 92%nat); (122, 93%nat); (123, 94%nat); (124, 95%nat); (125, 96%nat); (126, 97%nat); (127, 98%nat); (128, 99%nat); (129, 100%nat); (130, 101%nat); (131, 102%nat); (132, 103%nat); (133, 104%nat); (134, 105%nat); (135, 106%nat); (136, 107%nat); (137, 108%nat); (138, 109%nat); (139, 110%nat); (140, 111%nat); (141, 112%nat); (142, 113%nat); (143, 114%nat); (144, 115%nat); (146, 116%nat); (147, 117%nat); (148, 118%nat); (149, 119%nat); (162, 120%nat); (192, 121%nat); (225, 122%nat); (230, 123%nat); (231, 124%nat); (232, 125%nat); (233, 126%nat); (234, 127%nat); (235, 128%nat); (241, 129%nat); (242, 130%nat); (243, 131%nat); (244, 132%nat); (245, 133%nat); (246, 134%nat); (247, 135%nat); (248, 136%nat); (249, 137%nat); (250, 138%nat); (251, 139%nat); (252, 140%nat); (253, 141%nat); (254, 142%nat); (256, 143%nat); (257, 144%nat); (258, 145%nat); (259, 146%nat); (260, 147%nat); (261, 148%nat); (262, 149%nat); (263, 150%nat); (264, 151%nat); (265, 152%nat); (266, 153%nat); (267, 154%nat); (268, 155%nat); (269, 156%nat); (270, 157%nat); (271, 158%nat); (275, 159%nat); (276, 160%nat); (277, 161%nat); (280, 162%nat); (281, 163%nat); (282, 164%nat); (283, 165%nat); (284, 166%nat); (285, 167%nat); (286, 168%nat); (287, 169%nat); (288, 170%nat); (290, 171%nat); (291, 172%nat); (299, 173%nat); (301, 174%nat); (310, 175%nat); (311, 176%nat); (320, 177%nat); (321, 178%nat); (322, 179%nat); (323, 180%nat); (324, 181%nat); (330, 182%nat); (331, 183%nat); (332, 184%nat); (333, 185%nat); (334, 186%nat); (335, 187%nat); (336, 188%nat); (339, 189%nat); (340, 190%nat); (350, 191%nat); (360, 192%nat); (370, 193%nat); (371, 194%nat); (372, 195%nat); (373, 196%nat); (375, 197%nat); (380, 198%nat); (385, 199%nat); (386, 200%nat); (390, 201%nat); (395, 202%nat); (396, 203%nat); (397, 204%nat); (400, 205%nat); (401, 206%nat); (410, 207%nat); (411, 208%nat); (412, 209%nat); (413, 210%nat); (435, 211%nat); (436, 212%nat); (437, 213%nat); (440, 214%nat); (387, 215%nat); (388, 216%nat); (9000, 217%nat); (9005, 218%nat); (12900, 219%nat); (12901, 220%nat); (12902, 221%nat); (12903, 222%nat); (12904, 223%nat); (12905, 224%nat); (12915, 225%nat); (12918, 226%nat); (12919, 227%nat); (12920, 228%nat); (295, 340%nat); (354, 341%nat); (355, 342%nat); (361, 343%nat); (369, 344%nat); (414, 345%nat); (415, 346%nat); (420, 347%nat); (441, 348%nat); (510, 349%nat); (511, 350%nat); (512, 351%nat)];
  mkGD "icarous" 0 [(42000, 237%nat); (42001, 238%nat)];
  mkGD "loweheiser" 3 [(0, 0%nat); (300, 1%nat); (10151, 239%nat)];
  mkGD "matrixpilot" 3 [(0, 0%nat); (300, 1%nat); (1, 2%nat); (2, 3%nat); (4, 4%nat); (5, 5%nat); (6, 6%nat); (7, 7%nat); (8, 8%nat); (11, 9%nat); (20, 10%nat); (21, 11%nat); (22, 12%nat); (23, 13%nat); (24, 14%nat); (25, 15%nat); (26, 16%nat); (27, 17%nat); (28, 18%nat); (29, 19%nat); (30, 20%nat); (31, 21%nat); (32, 22%nat); (33, 23%nat); (34, 24%nat); (35, 25%nat); (36, 26%nat); (37, 27%nat); (38, 28%nat); (39, 29%nat); (40, 30%nat); (41, 31%nat); (42, 32%nat); (43, 33%nat); (44, 34%nat); (45, 35%nat); (46, 36%nat); (47, 37%nat); (48, 38%nat); (49, 39%nat); (50, 40%nat); (51, 41%nat); (54, 42%nat); (55, 43%nat); (61, 44%nat); (62, 45%nat); (63, 46%nat); (64, 47%nat); (65, 48%nat); (66, 49%nat); (67, 50%nat); (69, 51%nat); (70, 52%nat); (73, 53%nat); (74, 54%nat); (75, 55%nat); (76, 56%nat); (77, 57%nat); (80, 58%nat); (81, 59%nat); (82, 60%nat); (83, 61%nat); (84, 62%nat); (85, 63%nat); (86, 64%nat); (87, 65%nat); (89, 66%nat); (90, 67%nat); (91, 68%nat); (92, 69%nat); (93, 70%nat); (100, 71%nat); (101, 72%nat); (102, 73%nat); (103, 74%nat); (104, 75%nat); (105, 76%nat); (106, 77%nat); (107, 78%nat); (108, 79%nat); (109, 80%nat); (110, 81%nat); (111, 82%nat); (112, 83%nat); (113, 84%nat); (114, 85%nat); (115, 86%nat); (116, 87%nat); (117, 88%nat); (118, 89%nat); (119, 90%nat); (120, 91%nat); (121, 92%nat); (122, 93%nat); (123, 94%nat); (124, 95%nat); (125, 96%nat); (126, 97%nat); (127, 98%nat); (128, 99%nat); (129, 100%nat); (130, 101%nat); (131, 102%nat); (132, 103%nat); (133, 104%nat); (134, 105%nat); (135, 106%nat); (136, 107%nat); (137, 108%nat); (138, 109%nat); (139, 110%nat); (140, 111%nat); (141, 112%nat); (142, 113%nat); (143, 114%nat); (144, 115%nat); (146, 116%nat); (147, 117%nat); (148, 118%nat); (149, 119%nat); (162, 120%nat); (192, 121%nat); (225, 122%nat); (230, 123%nat); (231, 124%nat); (232, 125%nat); (233, 126%nat); (234, 127%nat); (235, 128%nat); (241, 129%nat); (242, 130%nat); (243, 131%nat); (244, 132%nat); (245, 133%nat); (246, 134%nat); (247, 135%nat); (248, 136%nat); (249, 137%nat); (250, 138%nat); (251, 139%nat); (252, 140%nat); (253, 141%nat); (254, 142%nat); (256, 143%nat); (257, 144%nat); (258, 145%nat); (259, 146%nat); (260, 147%nat); (261, 148%nat); (262, 149%nat); (263, 150%nat); (264, 151%nat); (265, 152%nat); (266, 153%nat); (267, 154%nat); (268, 155%nat); (269, 156%nat); (270, 157%nat); (271, 158%nat); (275, 159%nat); (276, 160%nat); (277, 161%nat); (280, 162%nat); (281, 163%nat); (282, 164%nat); (283, 165%nat); (284, 166%nat); (285, 167%nat); (286, 168%nat); (287, 169%nat); (288, 170%nat); (290, 171%nat); (291, 172%nat); (299, 173%nat); (301, 174%nat); (310, 175%nat); (311, 176%nat); (320, 177%nat); (321, 178%nat); (322, 179%nat); (323, 180%nat); (324, 181%nat); (330, 182%nat); (331, 183%nat); (332, 184%nat); (333, 185%nat); (334, 186%nat); (335, 187%nat); (336, 188%nat); (339, 189%nat); (340, 190%nat); (350, 191%nat); (360, 192%nat); (370, 193%nat); (371, 194%nat); (372, 195%nat); (373, 196%nat); (375, 197%nat); (380, 198%nat); (385, 199%nat); (386, 200%nat); (390, 201%nat); (395, 202%nat); (396, 203%nat); (397, 204%nat); (400, 205%nat); (401, 206%nat); (410, 207%nat); (411, 208%nat); (412, 209%nat); (413, 210%nat); (435, 211%nat); (436, 212%nat); (437, 213%nat); (440, 214%nat); (387, 215%nat); (388, 216%nat); (9000, 217%nat); (9005, 218%nat); (12900, 219%nat); (12901, 220%nat); (12902, 221%nat); (12903, 222%nat); (12904, 223%nat); (12905, 224%nat); (12915, 225%nat); (12918, 226%nat); (12919, 227%nat); (12920, 228%nat); (150, 376%nat); (151, 377%nat); (152, 378%nat); (153, 379%nat); (155, 380%nat); (156, 381%nat); (157, 382%nat); (158, 383%nat); (170, 384%nat); (171, 385%nat); (172, 386%nat); (173, 387%nat); (174, 388%nat); (175, 389%nat); (176, 390%nat); (177, 391%nat); (178, 392%nat); (179, 393%nat); (180, 394%nat); (181, 395%nat); (182, 396%nat); (183, 397%nat); (184, 398%nat); (185, 399%nat); (186, 400%nat); (187, 401%nat); (188, 402%nat)];
  mkGD "minimal" 3 [(0, 0%nat); (300, 1%nat)];
  mkGD "paparazzi" 3 [(0, 0%nat); (300, 1%nat); (1, 2%nat); (2, 3%nat); (4, 4%nat); (5, 5%nat); (6, 6%nat); (7, 7%nat); (8, 8%nat); (11, 9%nat); (20, 10%nat); (21, 11%nat); (22, 12%nat); (23, 13%nat); (24, 14%nat); (25, 15%nat); (26, 16%nat); (27, 17%nat); (28, 18%nat); (29, 19%nat); (30, 20%nat); (31, 21%nat); (32, 22%nat); (33, 23%nat); (34, 24%nat); (35, 25%nat); (36, 26%nat); (37, 27%nat); (38, 28%nat); (39, 29%nat); (40, 30%nat); (41, 31%nat); (42, 32%nat); (43, 33%nat); (44, 34%nat); (45, 35%nat); (46, 36%nat); (47, 37%nat); (48, 38%nat); (49, 39%nat); (50, 40%nat); (51, 41%nat); (54, 42%nat); (55, 43%nat); (61, 44%nat); (62, 45%nat); (63, 46%nat); (64, 47%nat); (65, 48%nat); (66, 49%nat); (67, 50%nat); (69, 51%nat); (70, 52%nat); (73, 53%nat); (74, 54%nat); (75, 55%nat); (76, 56%nat); (77, 57%nat); (80, 58%nat); (81, 59%nat); (82, 60%nat); (83, 61%nat); (84, 62%nat); (85, 63%nat); (86, 64%nat); (87, 65%nat); (89, 66%nat); (90, 67%nat); (91, 68%nat); (92, 69%nat); (93, 70%nat); (100, 71%nat); (101, 72%nat); (102, 73%nat); (103, 74%nat); (104, 75%nat); (105, 76%nat); (106, 77%nat); (107, 78%nat); (108, 79%nat); (109, 80%nat); (110, 81%nat); (111, 82%nat); (112, 83%nat); (113, 84%nat); (114, 85%nat); (115, 86%nat); (116, 87%nat); (117, 88%nat); (118, 89%nat); (119, 90%nat); (120, 91%nat); (121, 92%nat); (122, 93%nat); (123, 94%nat); (124, 95%nat); (125, 96%nat); (126, 97%nat); (127, 98%nat); (128, 99%nat); (129, 100%nat); (130, 101%nat); (131, 102%nat); (132, 103%nat); (133, 104%nat); (134, 105%nat); (135, 106%nat); (136, 107%nat); (137, 108%nat); (138, 109%nat); (139, 110%nat); (140, 111%nat); (141, 112%nat); (142, 113%nat); (143, 114%nat); (144, 115%nat); (146, 116%nat); (147, 117%nat); (148, 118%nat); (149, 119%nat); (162, 120%nat); (192, 121%nat); (225, 122%nat); (230, 123%nat); (231, 124%nat); (232, 125%nat); (233, 126%nat); (234, 127%nat); (235, 128%nat); (241, 129%nat); (242, 130%nat); (243, 131%nat); (244, 132%nat); (245, 133%nat); (246, 134%nat); (247, 135%nat); (248, 136%nat); (249, 137%nat); (250, 138%nat); (251, 139%nat); (252, 140%nat); (253, 141%nat); (254, 142%nat); (256, 143%nat); (257, 144%nat); (258, 145%nat); (259, 146%nat); (260, 147%nat); (261, 148%nat); (262, 149%nat); (263, 150%nat); (264, 151%nat); (265, 152%nat); (266, 153%nat); (267, 154%nat); (268, 155%nat); (269, 156%nat); (270, 157%nat); (271, 158%nat); (275, 159%nat); (276, 160%nat); (277, 161%nat); (280, 162%nat); (281, 163%nat); (282, 164%nat); (283, 165%nat); (284, 166%nat); (285, 167%nat); (286, 168%nat); (287, 169%nat); (288, 170%nat); (290, 171%nat); (291, 172%nat); (299, 173%nat); (301, 174%nat); (310, 175%nat); (311, 176%nat); (320, 177%nat); (321, 178%nat); (322, 179%nat); (323, 180%nat); (324, 181%nat); (330, 182%nat); (331, 183%nat); (332, 184%nat); (333, 185%nat); (334, 186%nat); (335, 187%nat); (336, 188%nat); (339, 189%nat); (340, 190%nat); (350, 191%nat); (360, 192%nat); (370, 193%nat); (371, 194%nat); (372, 195%nat); (373, 196%nat); (375, 197%nat); (380, 198%nat); (385, 199%nat); (386, 200%nat); (390, 201%nat); (395, 202%nat); (396, 203%nat); (397, 204%nat); (400, 205%nat); (401, 206%nat); (410, 207%nat); (411, 208%nat); (412, 209%nat); (413, 210%nat); (435, 211%nat); (436, 212%nat); (437, 213%nat); (440, 214%nat); (387, 215%nat); (388, 216%nat); (9000, 217%nat); (9005, 218%nat); (12900, 219%nat); (12901, 220%nat); (12902, 221%nat); (12903, 222%nat); (12904, 223%nat); (12905, 224%nat); (12915, 225%nat); (12918, 226%nat); (12919, 227%nat); (12920, 228%nat); (180, 403%nat); (181, 404%nat); (182, 405%nat); (183, 406%nat); (184, 407%nat)];
  mkGD "pythonarraytest" 3 [(0, 0%nat); (300, 1%nat); (1, 2%nat); (2, 3%nat); (4, 4%nat); (5, 5%nat); (6, 6%nat); (7, 7%nat); (8, 8%nat); (11, 9%nat); (20, 10%nat); (21, 11%nat); (22, 12%nat); (23, 13%nat); (24, 14%nat); (25, 15%nat); (26, 16%nat); (27, 17%nat); (28, 18%nat); (29, 19%nat); (30, 20%nat); (31, 21%nat); (32, 22%nat); (33, 23%nat); (34, 24%nat); (35, 25%nat); (36, 26%nat); (37, 27%nat); (38, 28%nat); (39, 29%nat); (40, 30%nat); (41, 31%nat); (42, 32%nat); (43, 33%nat); (44, 34%nat); (45, 35%nat); (46, 36%nat); (47, 37%nat); (48, 38%nat); (49, 39%nat); (50, 40%nat); (51, 41%nat); (54, 42%nat); (55, 43%nat); (61, 44%nat); (62, 45%nat); (63, 46%nat); (64, 47%nat); (65, 48%nat); (66, 49%nat); (67, 50%nat); (69, 51%nat); (70, 52%nat); (73, 53%nat); (74, 54%nat); (75, 55%nat); (76, 56%nat); (77, 57%nat); (80, 58%nat); (81, 59%nat); (82, 60%nat); (83, 61%nat); (84, 62%nat); (85, 63%nat); (86, 64%nat); (87, 65%nat); (89, 66%nat); (90, 67%nat); (91, 68%nat); (92, 69%nat); (93, 70%nat); (100, 71%nat); (101, 72%nat); (102, 73%nat); (103, 74%nat); (104, 75%nat); (105, 76%nat); (106, 77%nat); (107, 78%nat); (108, 79%nat); (109, 80%nat); (110, 81%nat); (111, 82%nat); (112, 83%nat); (113, 84%nat); (114, 85%nat); (115, 86%nat); (116, 87%nat); (117, 88%nat); (118, 89%nat); (119, 90%nat); (120, 91%nat); (121, 92%nat); (122, 93%nat); (123, 94%nat); (124, 95%nat); (125, 96%nat); (126, 97%nat); (127, 98%nat); (128, 99%nat); (129, 100%nat); (130, 101%nat); (131, 102%nat); (132, 103%nat); (133, 104%nat); (134, 105%nat); (135, 106%nat); (136, 107%nat); (137, 108%nat); (138, 109%nat); (139, 110%nat); (140, 111%nat); (141, 112%nat); (142, 113%nat); (143, 114%nat); (144, 115%nat); (146, 116%nat); (147, 117%nat); (148, 118%nat); (149, 119%nat); (162, 120%nat); (192, 121%nat); (225, 122%nat); (230, 123%nat); (231, 124%nat); (232, 125%nat); (233, 126%nat); (234, 127%nat); (235, 128%nat); (241, 129%nat); (242, 130%nat); (243, 131%nat); (244, 132%nat); (245, 133%nat); (246, 134%nat); (247, 135%nat); (248, 136%nat); (249, 137%nat); (250, 138%nat); (251, 139%nat); (252, 140%nat); (253, 141%nat); (254, 142%nat); (256, 143%nat); (257, 144%nat); (258, 145%nat); (259, 146%nat); (260, 147%nat); (261, 148%nat); (262, 149%nat); (263, 150%nat); (264, 151%nat); (265, 152%nat); (266, 153%nat); (267, 154%nat); (268, 155%nat); (269, 156%nat); (270, 157%nat); (271, 158%nat); (275, 159%nat); (276, 160%nat); (277, 161%nat); (280, 162%nat); (281, 163%nat); (282, 164%nat); (283, 165%nat); (284, 166%nat); (285, 167%nat); (286, 168%nat); (287, 169%nat); (288, 170%nat); (290, 171%nat); (291, 172%nat); (299, 173%nat); (301, 174%nat); (310, 175%nat); (311, 176%nat); (320, 177%nat); (321, 178%nat); (322, 179%nat); (323, 180%nat); (324, 181%nat); (330, 182%nat); (331, 183%nat); (332, 184%nat); (333, 185%nat); (334, 186%nat); (335, 187%nat); (336, 188%nat); (339, 189%nat); (340, 190%nat); (350, 191%nat); (360, 192%nat); (370, 193%nat); (371, 194%nat); (372, 195%nat); (373, 196%nat); (375, 197%nat); (380, 198%nat); (385, 199%nat); (386, 200%nat); (390, 201%nat); (395, 202%nat); (396, 203%nat); (397, 204%nat); (400, 205%nat); (401, 206%nat); (410, 207%nat); (411, 208%nat); (412, 209%nat); (413, 210%nat); (435, 211%nat); (436, 212%nat); (437, 213%nat); (440, 214%nat); (387, 215%nat); (388, 216%nat); (9000, 217%nat); (9005, 218%nat); (12900, 219%nat); (12901, 220%nat); (12902, 221%nat); (12903, 222%nat); (12904, 223%nat); (12905, 224%nat); (12915, 225%nat); (12918, 226%nat); (12919, 227%nat); (12920, 228%nat); (17150, 352%nat); (17151, 353%nat); (17153, 354%nat); (17154, 355%nat); (17155, 356%nat); (17156, 357%nat); (17157, 358%nat); (17158, 359%nat)];
  mkGD "standard" 3 [(0, 0%nat); (300, 1%nat)];
  mkGD "storm32" 1 [(0, 0%nat); (300, 1%nat); (1, 2%nat); (2, 3%nat); (4, 4%nat); (5, 5%nat); (6, 6%nat); (7, 7%nat); (8, 8%nat); (11, 9%nat); (20, 10%nat); (21, 11%nat); (22, 12%nat); (23, 13%nat); (24, 14%nat); (25, 15%nat); (26, 16%nat); (27, 17%nat); (28, 18%nat); (29, 19%nat); (30, 20%nat); (31, 21%nat); (32, 22%nat); (33, 23%nat); (34, 24%nat); (35, 25%nat); (36, 26%nat); (37, 27%nat); (38, 28%nat); (39, 29%nat); (40, 30%nat); (41, 31%nat); (42, 32%nat); (43, 33%nat); (44, 34%nat); (45, 35%nat); (46, 36%nat); (47, 37%nat); (48, 38%nat); (49, 39%nat); (50, 40%nat); (51, 41%nat); (54, 42%nat); (55, 43%nat); (61, 44%nat); (62, 45%nat); (63, 46%nat); (64, 47%nat); (65, 48%nat); (66, 49%nat); (67, 50%nat); (69, 51%nat); (70, 52%nat); (73, 53%nat); (74, 54%nat); (75, 55%nat); (76, 56%nat); (77, 57%nat); (80, 58%nat); (81, 59%nat); (82, 60%nat); (83, 61%nat); (84, 62%nat); (85, 63%nat); (86, 64%nat); (87, 65%nat); (89, 66%nat); (90, 67%nat); (91, 68%nat); (92, 69%nat); (93, 70%nat); (100, 71%nat); (101, 72%nat); (102, 73%nat); (103, 74%nat); (104, 75%nat); (105, 76%nat); (106, 77%nat); (107, 78%nat); (108, 79%nat); (109, 80%nat); (110, 81%nat); (111, 82%nat); (112, 83%nat); (113, 84%nat); (114, 85%nat); (115, 86%nat); (116, 87%nat); (117, 88%nat); (118, 89%nat); (119, 90%nat); (120, 91%nat); (121, 92%nat); (122, 93%nat); (123, 94%nat); (124, 95%nat); (125, 96%nat); (126, 97%nat); (127, 98%nat); (128, 99%nat); (129, 100%nat); (130, 101%nat); (131, 102%nat); (132, 103%nat); (133, 104%nat); (134, 105%nat); (135, 106%nat); (136, 107%nat); (137, 108%nat); (138, 109%nat); (139, 110%nat); (140, 111%nat); (141, 112%nat); (142, 113%nat); (143, 114%nat); (144, 115%nat); (146, 116%nat); (147, 117%nat); (148, 118%nat); (149, 119%nat); (162, 120%nat); (192, 121%nat); (225, 122%nat); (230, 123%nat); (231, 124%nat); (232, 125%nat); (233, 126%nat); (234, 127%nat); (235, 128%nat); (241, 129%nat); (242, 130%nat); (243, 131%nat); (244, 132%nat); (245, 133%nat); (246, 134%nat); (247, 135%nat); (248, 136%nat); (249, 137%nat); (250, 138%nat); (251, 139%nat); (252, 140%nat); (253, 141%nat); (254, 142%nat); (256, 143%nat); (257, 144%nat); (258, 145%nat); (259, 146%nat); (260, 147%nat); (261, 148%nat); (262, 149%nat); (263, 150%nat); (264, 151%nat); (265, 152%nat); (266, 153%nat); (267, 154%nat); (268, 155%nat); (269, 156%nat); (270, 157%nat); (271, 158%nat); (275, 159%nat); (276, 160%nat); (277, 161%nat); (280, 162%nat); (281, 163%nat); (282, 164%nat); (283, 165%nat); (284, 166%nat); (285, 167%nat); (286, 168%nat); (287, 169%nat); (288, 170%nat); (290, 171%nat); (291, 172%nat); (299, 173%nat); (301, 174%nat); (310, 175%nat); (311, 176%nat); (320, 177%nat); (321, 178%nat); (322, 179%nat); (323, 180%nat); (324, 181%nat); (330, 182%nat); (331, 183%nat); (332, 184%nat); (333, 185%nat); (334, 186%nat); (335, 187%nat); (336, 188%nat); (339, 189%nat); (340, 190%nat); (350, 191%nat); (360, 192%nat); (370, 193%nat); (371, 194%nat); (372, 195%nat); (373, 196%nat); (375, 197%nat); (380, 198%nat); (385, 199%nat); (386, 200%nat); (390, 201%nat); (395, 202%nat); (396, 203%nat); (397, 204%nat); (400, 205%nat); (401, 206%nat); (410, 207%nat); (411, 208%nat); (412, 209%nat); (413, 210%nat); (435, 211%nat); (436, 212%nat); (437, 213%nat); (440, 214%nat); (387, 215%nat); (388, 216%nat); (9000, 217%nat); (9005, 218%nat); (12900, 219%nat); (12901, 220%nat); (12902, 221%nat); (12903, 222%nat); (12904, 223%nat); (12905, 224%nat); (12915, 225%nat); (12918, 226%nat); (12919, 227%nat); (12920, 228%nat); (10001, 229%nat); (10002, 230%nat); (10003, 231%nat); (10004, 232%nat); (10005, 233%nat); (10006, 234%nat); (10007, 235%nat); (10008, 236%nat); (42000, 237%nat); (42001, 238%nat); (10151, 239%nat); (50001, 240%nat); (50002, 241%nat); (50003, 242%nat); (50004, 243%nat); (50005, 244%nat); (52000, 245%nat); (52001, 246%nat); (52002, 247%nat); (52003, 248%nat); (52004, 249%nat); (52005, 250%nat); (150, 251%nat); (151, 252%nat); (152, 253%nat); (153, 254%nat); (154, 255%nat); (155, 256%nat); (156, 257%nat); (157, 258%nat); (158, 259%nat); (160, 260%nat); (161, 261%nat); (163, 262%nat); (164, 263%nat); (165, 264%nat); (166, 265%nat); (167, 266%nat); (168, 267%nat); (169, 268%nat); (170, 269%nat); (171, 270%nat); (172, 271%nat); (173, 272%nat); (174, 273%nat); (175, 274%nat); (176, 275%nat); (177, 276%nat); (178, 277%nat); (179, 278%nat); (180, 279%nat); (181, 280%nat); (182, 281%nat); (183, 282%nat); (184, 283%nat); (185, 284%nat); (186, 285%nat); (191, 286%nat); (193, 287%nat); (194, 288%nat); (195, 289%nat); (200, 290%nat); (201, 291%nat); (214, 292%nat); (215, 293%nat); (216, 294%nat); (217, 295%nat); (218, 296%nat); (219, 297%nat); (226, 298%nat); (11000, 299%nat); (11001, 300%nat); (11002, 301%nat); (11003, 302%nat); (11004, 303%nat); (11005, 304%nat); (11010, 305%nat); (11011, 306%nat); (11020, 307%nat); (11030, 308%nat); (11031, 309%nat); (11032, 310%nat); (11033, 311%nat); (11034, 312%nat); (11035, 313%nat); (11036, 314%nat); (11037, 315%nat); (11038, 316%nat); (11039, 317%nat); (11040, 318%nat); (11041, 319%nat); (11042, 320%nat); (11043, 321%nat); (11044, 322%nat); (60010, 364%nat); (60011, 365%nat); (60012, 366%nat); (60013, 367%nat); (60014, 368%nat); (60020, 369%nat); (60040, 370%nat); (60041, 371%nat)];
  mkGD "test" 3 [(17000, 360%nat)];
  mkGD "ualberta" 3 [(0, 0%nat); (300, 1%nat); (1, 2%nat); (2, 3%nat); (4, 4%nat); (5, 5%nat); (6, 6%nat); (7, 7%nat); (8, 8%nat); (11, 9%nat); (20, 10%nat); (21, 11%nat); (22, 12%nat); (23, 13%nat); (24, 14%nat); (25, 15%nat); (26, 16%nat); (27, 17%nat); (28, 18%nat); (29, 19%nat); (30, 20%nat); (31, 21%nat); (32, 22%nat); (33, 23%nat); (34, 24%nat); (35, 25%nat); (36, 26%nat); (37, 27%nat); (38, 28%nat); (39, 29%nat); (40, 30%nat); (41, 31%nat); (42, 32%nat); (43, 33%nat); (44, 34%nat); (45, 35%nat); (46, 36%nat); (47, 37%nat); (48, 38%nat); (49, 39%nat); (50, 40%nat); (51, 41%nat); (54, 42%nat); (55, 43%nat); (61, 44%nat); (62, 45%nat); (63, 46%nat); (64, 47%nat); (65, 48%nat); (66, 49%nat); (67, 50%nat); (69, 51%nat); (70, 52%nat); (73, 53%nat); (74, 54%nat); (75, 55%nat); (76, 56%nat); (77, 57%nat); (80, 58%nat); (81, 59%nat); (82, 60%nat); (83, 61%nat); (84, 62%nat); (85, 63%nat); (86, 64%nat); (87, 65%nat); (89, 66%nat); (90, 67%nat); (91, 68%nat); (92, 69%nat); (93, 70%nat); (100, 71%nat); (101, 72%nat); (102, 73%nat); (103, 74%nat); (104, 75%nat); (105, 76%nat); (106, 77%nat); (107, 78%nat); (108, 79%nat); (109, 80%nat); (110, 81%nat); (111, 82%nat); (112, 83%nat); (113, 84%nat); (114, 85%nat); (115, 86%nat); (116, 87%nat); (117, 88%nat); (118, 89%nat); (119, 90%nat); (120, 91%nat); (121, 92%nat); (122, 93%nat); (123, 94%nat); (124, 95%nat); (125, 96%nat); (126, 97%nat); (127, 98%nat); (128, 99%nat); (129, 100%nat); (130, 101%nat); (131, 102%nat); (132, 103%nat); (133, 104%nat); (134, 105%nat); (135, 106%nat); (136, 107%nat); (137, 108%nat); (138, 109%nat); (139, 110%nat); (140, 111%nat); (141, 112%nat); (142, 113%nat); (143, 114%nat); (144, 115%nat); (146, 116%nat); (147, 117%nat); (148, 118%nat); (149, 119%nat); (162, 120%nat); (192, 121%nat); (225, 122%nat); (230, 123%nat); (231, 124%nat); (232, 125%nat); (233, 126%nat); (234, 127%nat); (235, 128%nat); (241, 129%nat); (242, 130%nat); (243, 131%nat); (244, 132%nat); (245, 133%nat); (246, 134%nat); (247, 135%nat); (248, 136%nat); (249, 137%nat); (250, 138%nat); (251, 139%nat); (252, 140%nat); (253, 141%nat); (254, 142%nat); (256, 143%nat); (257, 144%nat); (258, 145%nat); (259, 146%nat); (260, 147%nat); (261, 148%nat); (262, 149%nat); (263, 150%nat); (264, 151%nat); (265, 152%nat); (266, 153%nat); (267, 154%nat); (268, 155%nat); (269, 156%nat); (270, 157%nat); (271, 158%nat); (275, 159%nat); (276, 160%nat); (277, 161%nat); (280, 162%nat); (281, 163%nat); (282, 164%nat); (283, 165%nat); (284, 166%nat); (285, 167%nat); (286, 168%nat); (287, 169%nat); (288, 170%nat); (290, 171%nat); (291, 172%nat); (299, 173%nat); (301, 174%nat); (310, 175%nat); (311, 176%nat); (320, 177%nat); (321, 178%nat); (322, 179%nat); (323, 180%nat); (324, 181%nat); (330, 182%nat); (331, 183%nat); (332, 184%nat); (333, 185%nat); (334, 186%nat); (335, 187%nat); (336, 188%nat); (339, 189%nat); (340, 190%nat); (350, 191%nat); (360, 192%nat); (370, 193%nat); (371, 194%nat); (372, 195%nat); (373, 196%nat); (375, 197%nat); (380, 198%nat); (385, 199%nat); (386, 200%nat); (390, 201%nat); (395, 202%nat); (396, 203%nat); (397, 204%nat); (400, 205%nat); (401, 206%nat); (410, 207%nat); (411, 208%nat); (412, 209%nat); (413, 210%nat); (435, 211%nat); (436, 212%nat); (437, 213%nat); (440, 214%nat); (387, 215%nat); (388, 216%nat); (9000, 217%nat); (9005, 218%nat); (12900, 219%nat); (12901, 220%nat); (12902, 221%nat); (12903, 222%nat); (12904, 223%nat); (12905, 224%nat); (12915, 225%nat); (12918, 226%nat); (12919, 227%nat); (12920, 228%nat); (220, 361%nat); (221, 362%nat); (222, 363%nat)];
  mkGD "uavionix" 3 [(0, 0%nat); (300, 1%nat); (1, 2%nat); (2, 3%nat); (4, 4%nat); (5, 5%nat); (6, 6%nat); (7, 7%nat); (8, 8%nat); (11, 9%nat); (20, 10%nat); (21, 11%nat); (22, 12%nat); (23, 13%nat); (24, 14%nat); (25, 15%nat); (26, 16%nat); (27, 17%nat); (28, 18%nat); (29, 19%nat); (30, 20%nat); (31, 21%nat); (32, 22%nat); (33, 23%nat); (34, 24%nat); (35, 25%nat); (36, 26%nat); (37, 27%nat); (38, 28%nat); (39, 29%nat); (40, 30%nat); (41, 31%nat); (42, 32%nat); (43, 33%nat); (44, 34%nat); (45, 35%nat); (46, 36%nat); (47, 37%nat); (48, 38%nat); (49, 39%nat); (50, 40%nat); (51, 41%nat); (54, 42%nat); (55, 43%nat); (61, 44%nat); (62, 45%nat); (63, 46%nat); (64, 47%nat); (65, 48%nat); (66, 49%nat); (67, 50%nat); (69, 51%nat); (70, 52%nat); (73, 53%nat); (74, 54%nat); (75, 55%nat); (76, 56%nat); (77, 57%nat); (80, 58%nat); (81, 59%nat); (82, 60%nat); (83, 61%nat); (84, 62%nat); (85, 63%nat); (86, 64%nat); (87, 65%nat); (89, 66%nat); (90, 67%nat); (91, 68%nat); (92, 69%nat); (93, 70%nat); (100, 71%nat); (101, 72%nat); (102, 73%nat); (103, 74%nat); (104, 75%nat); (105, 76%nat); (106, 77%nat); (107, 78%nat); (108, 79%nat); (109, 80%nat); (110, 81%nat); (111, 82%nat); (112, 83%nat); (113, 84%nat); (114, 85%nat); (115, 86%nat); (116, 87%nat); (117, 88%nat); (118, 89%nat); (119, 90%nat); (120, 91%nat); (121, 92%nat); (122, 93%nat); (123, 94%nat); (124, 95%nat); (125, 96%nat); (126, 97%nat); (127, 98%nat); (128, 99%nat); (129, 100%nat); (130, 101%nat); (131, 102%nat); (132, 103%nat); (133, 104%nat); (134, 105%nat); (135, 106%nat); (136, 107%nat); (137, 108%nat); (138, 109%nat); (139, 110%nat); (140, 111%nat); (141, 112%nat); (142, 113%nat); (143, 114%nat); (144, 115%nat); (146, 116%nat); (147, 117%nat); (148, 118%nat); (149, 119%nat); (162, 120%nat); (192, 121%nat); (225, 122%nat); (230, 123%nat); (231, 124%nat); (232, 125%nat); (233, 126%nat); (234, 127%nat); (235, 128%nat); (241, 129%nat); (242, 130%nat); (243, 131%nat); (244, 132%nat); (245, 133%nat); (246, 134%nat); (247, 135%nat); (248, 136%nat); (249, 137%nat); (250, 138%nat); (251, 139%nat); (252, 140%nat); (253, 141%nat); (254, 142%nat); (256, 143%nat); (257, 144%nat); (258, 145%nat); (259, 146%nat); (260, 147%nat); (261, 148%nat); (262, 149%nat); (263, 150%nat); (264, 151%nat); (265, 152%nat); (266, 153%nat); (267, 154%nat); (268, 155%nat); (269, 156%nat); (270, 157%nat); (271, 158%nat); (275, 159%nat); (276, 160%nat); (277, 161%nat); (280, 162%nat); (281, 163%nat); (282, 164%nat); (283, 165%nat); (284, 166%nat); (285, 167%nat); (286, 168%nat); (287, 169%nat); (288, 170%nat); (290, 171%nat); (291, 172%nat); (299, 173%nat); (301, 174%nat); (310, 175%nat); (311, 176%nat); (320, 177%nat); (321, 178%nat); (322, 179%nat); (323, 180%nat); (324, 181%nat); (330, 182%nat); (331, 183%nat); (332, 184%nat); (333, 185%nat); (334, 186%nat); (335, 187%nat); (336, 188%nat); (339, 189%nat); (340, 190%nat); (350, 191%nat); (360, 192%nat); (370, 193%nat); (371, 194%nat); (372, 195%nat); (373, 196%nat); (375, 197%nat); (380, 198%nat); (385, 199%nat); (386, 200%nat); (390, 201%nat); (395, 202%nat); (396, 203%nat); (397, 204%nat); (400, 205%nat); (401, 206%nat); (410, 207%nat); (411, 208%nat); (412, 209%nat); (413, 210%nat); (435, 211%nat); (436, 212%nat); (437, 213%nat); (440, 214%nat); (387, 215%nat); (388, 216%nat); (9000, 217%nat); (9005, 218%nat); (12900, 219%nat); (12901, 220%nat); (12902, 221%nat); (12903, 222%nat); (12904, 223%nat); (12905, 224%nat); (12915, 225%nat); (12918, 226%nat); (12919, 227%nat); (12920, 228%nat); (10001, 229%nat); (10002, 230%nat); (10003, 231%nat); (10004, 232%nat); (10005, 233%nat); (10006, 234%nat); (10007, 235%nat); (10008, 236%nat)]
].
