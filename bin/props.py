"""Per-property configuration of bin/check."""

TRUSTED_BASE = [
    'Coq 8.16.1 kernel (coqc; vm_compute used, native_compute not used)',
    'axioms: none (Print Assumptions under every property theorem: Closed under the global context)',
    'extraction: ExtrOcamlBasic only (bool, option, unit, list, prod, sumbool -> OCaml); no Extract Constant/Inductive of our own; N/Z/positive/nat stay inductive',
    'OCaml 4.13.1 compiler and ocaml/driver.ml (parsing/printing only)',
    'Go harness (generators, canonicalisation) and harness/cmd/extract (table translator)',
]

P = {}

P['C02'] = dict(
    rule='x25: every 2-byte prefix (reaches each of the 2^16 register states once) and third bytes (3 random per state in quick, all 256 in thorough), random strings hashed in random splits; gate: valid frames of sampled common-dialect messages (v1 and v2) with every single-bit flip, byte substitutions and multi-byte damage, read by a dialect-configured frame.Reader. A case is non-trivial when the model output is not a bare rejection; distinct = distinct case lines.',
    assumptions=['the transport returns data or an error per Read call, never both',
                 'model of bufio.Reader (Model/Stream.v) stands for the Go standard library'],
    mismatch_meaning='the implementation\'s checksum / gate result differs from the model proved equal to CRC-16/MCRF4XX and to the gate specification: a concrete input on which the property fails',
)

P['C01'] = dict(
    rule='frames built from boundary-value field tuples (header bytes {0,1,7f,80,fd,fe,ff}, ids {0,1,255,256,0x607,0xffff,0x10000,0xfffffe,0xffffff}, payload lengths {0,1,2,3,254,255}, timestamps around 2^24/2^32/2^40/2^48) mixed with random values, 2 versions x signed/unsigned; each written by frame.Writer.Write (bytes, number of transport writes, frame after the call) and read back by frame.Reader in one chunk or a random split followed by a junk byte. Non-trivial: the model output is not a bare rejection.',
    assumptions=['bufio.Reader modelled by Model/Stream.v', 'domain of the property: payload <= 255 bytes, v2 ids < 2^24 (larger values are emitted truncated by the code and are not checked)'],
    mismatch_meaning='bytes emitted or frame read back differ from the model proved equal to the MAVLink layout and to round-trip: a concrete frame on which the property fails',
)

KNOWN_MATCH = {}
